(* Seek and range specifications of the cursor machine (model/Cursor.v), on top of
   SearchFacts (binary search, the descent of [search]) and CursorFacts (iteration: [next_spec],
   [iterate_spec], the [cinv] / [rem] / [from] / [after] machinery).

   Main results (all closed under the global context), for [wf_tree t = true]:
     wf_shape_neb          wf_shape implies CursorFacts.no_empty_branch
     search_pos            where [search] lands: the stack is a well-formed, settled cursor stack, and
                           what lies from it on is the part of [flatten t] starting at the exact match /
                           the predecessor inside the leaf reached / the successor
     seek_spec_precise     seek_scan = from_succ (exact), from_pred (leaf reached has a key < k),
                           from_succ (otherwise)
     seek_spec             the disjunctive form
     range_spec            range_scan = filter in_bounds, all bound kinds, reversed bounds included
     buckets_spec / pairs_spec   the two filters over [scan] *)
From Coq Require Import List NArith Bool Arith Lia.
From Coq.Strings Require Import Byte.
From Jamm Require Import Bytes Codec Tree Spec Cursor SearchFacts CursorFacts.
Import ListNotations.
Local Open Scope list_scope. Local Open Scope nat_scope.

(* ====================================================================== *)
(** * 0. [wf_shape] gives [no_empty_branch] *)

Lemma wf_shape_neb : forall t, wf_shape t = true -> no_empty_branch t = true.
Proof.
  induction t as [p o l | p o ks IH] using CursorFacts.tree_ind'; intros Hwf; [reflexivity|].
  destruct (wf_shape_TB p o ks Hwf) as (Hne & Hwc & _).
  cbn [no_empty_branch]. apply andb_true_iff. split.
  - destruct ks; [congruence | reflexivity].
  - apply forallb_forall. intros kt Hin. rewrite Forall_forall in IH. apply IH; auto.
Qed.

Lemma wf_tree_parts : forall t, wf_tree t = true ->
  wf_shape t = true /\ sorted_keys (map lent_key (flatten t)) = true /\ no_empty_branch t = true.
Proof.
  intros t H. unfold wf_tree in H. apply andb_true_iff in H. destruct H as [H1 H2].
  repeat split; auto. now apply wf_shape_neb.
Qed.

(* ====================================================================== *)
(** * 1. small list facts *)

Definition keys_lt (l : list lent) (k : bytes) : Prop := forall e, In e l -> bcmp (lent_key e) k = Lt.
Definition keys_gt (l : list lent) (k : bytes) : Prop := forall e, In e l -> bcmp (lent_key e) k = Gt.

Lemma keys_lt_app : forall a b k, keys_lt a k -> keys_lt b k -> keys_lt (a ++ b) k.
Proof. intros a b k Ha Hb e He. apply in_app_or in He. destruct He; auto. Qed.
Lemma keys_gt_app : forall a b k, keys_gt a k -> keys_gt b k -> keys_gt (a ++ b) k.
Proof. intros a b k Ha Hb e He. apply in_app_or in He. destruct He; auto. Qed.

Lemma item_key_to_item : forall e, item_key (Cursor.to_item e) = lent_key e.
Proof. intros [k v | k r n]; reflexivity. Qed.

Lemma filter_none : forall {A} (f : A -> bool) l, (forall x, In x l -> f x = false) -> filter f l = [].
Proof.
  intros A f l H. induction l as [|x l IH]; [reflexivity|]. cbn [filter].
  rewrite (H x (or_introl eq_refl)). apply IH. intros y Hy. apply H. now right.
Qed.
Lemma filter_all : forall {A} (f : A -> bool) l, (forall x, In x l -> f x = true) -> filter f l = l.
Proof.
  intros A f l H. induction l as [|x l IH]; [reflexivity|]. cbn [filter].
  rewrite (H x (or_introl eq_refl)). f_equal. apply IH. intros y Hy. apply H. now right.
Qed.
Lemma filter_split : forall {A} (f : A -> bool) a g,
  (forall x, In x a -> f x = false) -> (forall x, In x g -> f x = true) -> filter f (a ++ g) = g.
Proof. intros A f a g Ha Hg. now rewrite filter_app, (filter_none f a Ha), (filter_all f g Hg). Qed.
Lemma filter_filter : forall {A} (f g : A -> bool) l,
  filter g (filter f l) = filter (fun x => f x && g x) l.
Proof.
  intros A f g l. induction l as [|x l IH]; [reflexivity|]. cbn [filter].
  destruct (f x); cbn [andb filter]; [destruct (g x)|]; now rewrite IH.
Qed.
Lemma filter_len : forall {A} (f : A -> bool) l, length (filter f l) <= length l.
Proof.
  intros A f l. induction l as [|x l IH]; [reflexivity|]. cbn [filter].
  destruct (f x); cbn [length]; lia.
Qed.
Lemma filter_map_to_item : forall (f : bytes -> bool) l,
  filter (fun i => f (item_key i)) (map Cursor.to_item l)
  = map Cursor.to_item (filter (fun e => f (lent_key e)) l).
Proof.
  intros f l. induction l as [|e l IH]; [reflexivity|]. cbn [map filter].
  rewrite item_key_to_item. destruct (f (lent_key e)); cbn [map]; now rewrite IH.
Qed.

Lemma sorted_filter : forall (f : lent -> bool) l,
  sorted_keys (map lent_key l) = true -> sorted_keys (map lent_key (filter f l)) = true.
Proof.
  intros f l. induction l as [|a l IH]; intros H; [reflexivity|].
  cbn [map] in H. destruct (sorted_keys_cons _ _ H) as [Hall Hs]. cbn [filter].
  destruct (f a); [|auto]. cbn [map]. apply sorted_keys_cons_intro; [|auto].
  rewrite Forall_forall in *. intros x Hx. apply in_map_iff in Hx. destruct Hx as (e & <- & He).
  apply filter_In in He. destruct He as [He _]. apply Hall. now apply in_map.
Qed.

Lemma skipn_app_exact : forall {A} (a : list A) x b, skipn (S (length a)) (a ++ x :: b) = b.
Proof. intros A a x b. induction a as [|y a IH]; [reflexivity|]. exact IH. Qed.

Definition dlent : lent := EKv [] [].
Lemma key_nth : forall L j, nth j (map lent_key L) [] = lent_key (nth j L dlent).
Proof. intros L j. change (@nil byte) with (lent_key dlent). apply map_nth. Qed.

(* ====================================================================== *)
(** * 2. from [descent] to the cursor-stack notions of CursorFacts *)

Lemma wf_stack_snoc : forall c st t s, wf_stack c st -> child_at t s = Some c ->
  wf_stack t (st ++ [(t, s)]).
Proof.
  intros c st t s H Hc. induction H as [i | c' j p i rest Hwf IH Hc'].
  - cbn [app]. apply wf_push; [apply wf_root | exact Hc].
  - cbn [app] in *. apply wf_push; [exact IH | exact Hc'].
Qed.

Lemma descent_wf_stack : forall k t st, descent k t st -> wf_stack t st.
Proof.
  intros k t st H. induction H as [t | t c st Hc Hd IH]; [apply wf_root|].
  eapply wf_stack_snoc; eauto.
Qed.

Lemma after_e_snoc : forall pre f, after_e (pre ++ [f]) = after_e pre ++ frame_after lp_e f.
Proof. intros pre f. unfold after. rewrite flat_map_app. cbn [flat_map]. now rewrite app_nil_r. Qed.

Lemma frame_after_branch : forall p o ks1 kc c ks2,
  frame_after lp_e (TB p o (ks1 ++ (kc, c) :: ks2), length ks1)
  = flat_map (fun kt => flatten (snd kt)) ks2.
Proof.
  intros. unfold frame_after. cbn [frame_from fst snd]. rewrite skipn_app_exact.
  apply flat_map_ext. intros kt. apply gflat_e.
Qed.

(* the leaf reached by a descent splits the flattened tree: everything before it is < k,
   everything after it (= what lies after the rest of the stack) is > k *)
Lemma descent_split : forall k t st, descent k t st -> wf_shape t = true ->
  forall lf i pre, st = (lf, i) :: pre ->
  exists B, flatten t = B ++ flatten lf ++ after_e pre /\ keys_lt B k /\ keys_gt (after_e pre) k.
Proof.
  intros k t st H. induction H as [t | t c st Hc Hd IH]; intros Hwf lf i pre Hst.
  - inversion Hst; subst. exists []. cbn [app after flat_map]. rewrite app_nil_r.
    repeat split; intros e [].
  - destruct st as [|[lf0 i0] pre0]; [exfalso; eapply descent_nonempty; eauto|].
    cbn [app] in Hst. inversion Hst; subst lf0 i0 pre. clear Hst.
    destruct (child_at_inv _ _ _ Hc) as (p & o & ks & kc0 & -> & Hnth).
    pose proof (wf_shape_seps_sorted _ Hwf) as Hss.
    destruct (seps_sorted_TB p o ks Hss) as [Hsk _].
    destruct (wf_shape_TB p o ks Hwf) as (_ & Hwc & _).
    destruct (branch_split p o ks k Hwf Hsk) as (ks1 & kc & c' & ks2 & Hks & Hlen & Hbef & Haft).
    remember (fst (index_of (TB p o ks) k)) as s eqn:Es.
    assert (Hcc : (kc0, c) = (kc, c')).
    { rewrite Hks, nth_error_app2 in Hnth by lia.
      replace (s - length ks1) with 0 in Hnth by lia. cbn in Hnth. congruence. }
    inversion Hcc; subst kc0 c'. clear Hcc.
    assert (Hin : In (kc, c) ks) by (rewrite Hks; apply in_or_app; right; now left).
    destruct (IH (Hwc _ Hin) lf i pre0 eq_refl) as (B & Hfl & HB & HA).
    exists (flat_map (fun kt => flatten (snd kt)) ks1 ++ B).
    clear Hnth Hc Hwf Hss Hsk Hwc Hin IH. subst ks.
    rewrite after_e_snoc, <- Hlen, frame_after_branch.
    split; [|split].
    + cbn [flatten]. rewrite flat_map_app. cbn [flat_map snd]. rewrite Hfl.
      now rewrite <- !app_assoc.
    + apply keys_lt_app; assumption.
    + apply keys_gt_app; assumption.
Qed.

(* ====================================================================== *)
(** * 3. the position inside the leaf *)

Lemma leaf_pos : forall p o L k i ex,
  sorted_keys (map lent_key L) = true -> index_of (TL p o L) k = (i, ex) ->
  (ex = true /\ exists e, nth_error L i = Some e /\ lent_key e = k /\
                 keys_lt (firstn i L) k /\ keys_gt (skipn (S i) L) k) \/
  (ex = false /\ exists e, nth_error L i = Some e /\ bcmp (lent_key e) k = Lt /\
                 keys_lt (firstn i L) k /\ keys_gt (skipn (S i) L) k) \/
  (ex = false /\ i = 0 /\ keys_gt L k).
Proof.
  intros p o L k i ex Hs Hidx. unfold index_of in Hidx. cbn [keys_of] in Hidx.
  destruct (bsearch (map lent_key L) k) as [[|] ip] eqn:Eb; inversion Hidx; subst; clear Hidx.
  - left. split; [reflexivity|].
    apply bsearch_found in Eb; [|exact Hs].
    assert (Hi : i < length L).
    { rewrite <- (map_length lent_key). apply nth_error_Some. congruence. }
    assert (Hki : nth i (map lent_key L) [] = k) by (now apply nth_error_nth).
    exists (nth i L dlent). split; [now apply nth_error_nth'|].
    split; [now rewrite <- key_nth|]. split.
    + intros e He. destruct (In_firstn_nth dlent i L e He) as (j & Hji & Hjl & <-).
      rewrite <- key_nth, <- Hki. apply sorted_keys_nth; [exact Hs|]. rewrite map_length. lia.
    + intros e He. destruct (In_skipn_nth dlent (S i) L e He) as (j & Hji & Hjl & <-).
      rewrite <- key_nth, <- Hki. apply bcmp_lt_gt. apply sorted_keys_nth; [exact Hs|].
      rewrite map_length. lia.
  - destruct (bsearch_missing _ _ _ Hs Eb) as (Hip & Hlt & Hgt). rewrite map_length in Hip, Hgt.
    destruct ip as [|i]; right.
    + right. split; [reflexivity|]. split; [reflexivity|].
      intros e He. destruct (In_nth L e dlent He) as (j & Hj & <-).
      rewrite <- key_nth. apply Hgt. lia.
    + left. cbn [pred]. split; [reflexivity|].
      exists (nth i L dlent). split; [apply nth_error_nth'; lia|].
      split; [rewrite <- key_nth; apply Hlt; lia|]. split.
      * intros e He. destruct (In_firstn_nth dlent i L e He) as (j & Hji & Hjl & <-).
        rewrite <- key_nth. apply Hlt. lia.
      * intros e He. destruct (In_skipn_nth dlent (S i) L e He) as (j & Hji & Hjl & <-).
        rewrite <- key_nth. apply Hgt. lia.
Qed.

(* ====================================================================== *)
(** * 4. where [search] lands *)

Inductive seek_pos (t : tree) (k : bytes) (lf : tree) (ex : bool) (st : stack) : Prop :=
| sp_exact : forall A e G,
    ex = true -> lent_key e = k -> In e (flatten lf) ->
    keys_lt A k -> keys_gt G k -> flatten t = A ++ e :: G -> from_e st = e :: G ->
    current st = CVal (Some (Cursor.to_item e)) -> seek_pos t k lf ex st
| sp_pred : forall A e G,
    ex = false -> bcmp (lent_key e) k = Lt -> In e (flatten lf) ->
    keys_lt A k -> keys_gt G k -> flatten t = A ++ e :: G -> from_e st = e :: G ->
    current st = CVal (Some (Cursor.to_item e)) -> seek_pos t k lf ex st
| sp_succ : forall A G,
    ex = false -> keys_gt (flatten lf) k ->
    keys_lt A k -> keys_gt G k -> flatten t = A ++ G -> from_e st = G ->
    (current st = CVal None \/
     exists e0, current st = CVal (Some (Cursor.to_item e0)) /\ bcmp (lent_key e0) k = Gt) ->
    seek_pos t k lf ex st.

Theorem search_pos : forall t k ex st, wf_tree t = true ->
  search (S (nodes t)) t k [] = (ex, st) ->
  exists lf i pre, st = (lf, i) :: pre /\ is_leaf lf = true /\
    wf_stack t st /\ settled st /\ top_ok st /\ seek_pos t k lf ex st.
Proof.
  intros t k ex st Hwf Hs. destruct (wf_tree_parts t Hwf) as (Hsh & Hsorted & _).
  destruct (search_path_api k t ex st Hsh Hs)
    as (lf & i & pre & _ & _ & Hst & Hd & Hlf & Hidx & _).
  destruct (descent_split k t st Hd Hsh lf i pre Hst) as (B & Hfl & HB & HA).
  exists lf, i, pre. split; [exact Hst|]. split; [exact Hlf|].
  split; [eapply descent_wf_stack; eauto|].
  destruct lf as [p o L|]; [|discriminate]. cbn [flatten] in Hfl.
  assert (HsL : sorted_keys (map lent_key L) = true).
  { rewrite Hfl, !map_app in Hsorted.
    apply sorted_keys_app in Hsorted. destruct Hsorted as [_ Hsorted].
    apply sorted_keys_app in Hsorted. apply Hsorted. }
  subst st. split; [reflexivity|].
  assert (Hfrom : from_e ((TL p o L, i) :: pre) = skipn i L ++ after_e pre) by reflexivity.
  assert (Hcur : current ((TL p o L, i) :: pre) = CVal (option_map Cursor.to_item (nth_error L i)))
    by reflexivity.
  destruct (leaf_pos p o L k i ex HsL Hidx)
    as [(-> & e & Hn & Hk & Hf & Hg) | [(-> & e & Hn & Hk & Hf & Hg) | (-> & -> & Hg)]].
  - split.
    { cbn [top_ok]. right. rewrite tlen_TL. apply nth_error_Some. congruence. }
    apply (sp_exact _ _ _ _ _ (B ++ firstn i L) e (skipn (S i) L ++ after_e pre)); auto.
    + cbn [flatten]. eapply nth_error_In; eauto.
    + apply keys_lt_app; assumption.
    + apply keys_gt_app; assumption.
    + rewrite Hfl. rewrite <- (firstn_skipn i L) at 1. rewrite (skipn_nth_error _ _ _ Hn).
      now rewrite <- !app_assoc.
    + rewrite Hfrom, (skipn_nth_error _ _ _ Hn). reflexivity.
    + rewrite Hcur, Hn. reflexivity.
  - split.
    { cbn [top_ok]. right. rewrite tlen_TL. apply nth_error_Some. congruence. }
    apply (sp_pred _ _ _ _ _ (B ++ firstn i L) e (skipn (S i) L ++ after_e pre)); auto.
    + cbn [flatten]. eapply nth_error_In; eauto.
    + apply keys_lt_app; assumption.
    + apply keys_gt_app; assumption.
    + rewrite Hfl. rewrite <- (firstn_skipn i L) at 1. rewrite (skipn_nth_error _ _ _ Hn).
      now rewrite <- !app_assoc.
    + rewrite Hfrom, (skipn_nth_error _ _ _ Hn). reflexivity.
    + rewrite Hcur, Hn. reflexivity.
  - split; [cbn [top_ok]; now left|].
    apply (sp_succ _ _ _ _ _ B (L ++ after_e pre)); auto.
    + apply keys_gt_app; assumption.
    + rewrite Hcur. destruct L as [|e0 L']; [now left|]. right. exists e0.
      split; [reflexivity|]. apply Hg. now left.
Qed.

(* ====================================================================== *)
(** * 5. iterating from a cursor *)

(* [next] on c delivers the head of R (and leaves a cursor in the invariant whose remainder is
   the tail), or None when R is empty *)
Definition next_yields (root : tree) (F : nat) (c : cursor) (R : list lent) : Prop :=
  match R with
  | [] => exists c', next F c = CVal (c', None) /\ cinv root c' /\ rem c' = []
  | d :: l => exists c', next F c = CVal (c', Some (Cursor.to_item d)) /\ cinv root c' /\ rem c' = l
  end.

Lemma next_unstarted : forall F root f rest,
  next F (mkCursor root (f :: rest) false) = finish F root (f :: rest).
Proof. reflexivity. Qed.

Lemma next_yields_seek : forall root F st,
  no_empty_branch root = true -> nodes root < F ->
  wf_stack root st -> settled st -> top_ok st ->
  next_yields root F (mkCursor root st false) (from_e st).
Proof.
  intros root F st Hr HF Hwf Hs Ht. destruct st as [|f rest]; [contradiction|].
  unfold next_yields. rewrite next_unstarted. apply (finish_spec root F (f :: rest) Hr HF Hwf Hs Ht).
Qed.

Lemma next_yields_cinv : forall root F c,
  no_empty_branch root = true -> nodes root < F -> cinv root c -> next_yields root F c (rem c).
Proof. intros root F c Hr HF Hc. apply (next_spec root F c Hr HF Hc). Qed.

Lemma next_called_true : forall F c c' r, next F c = CVal (c', r) -> c_next_called c' = true.
Proof.
  intros F c c' r H. unfold next in H.
  destruct (c_stack c) as [|f rest].
  - destruct (seek_first F [(c_root c, 0)]) as [st|]; [|discriminate].
    destruct (skip_empty F F st) as [|[[st' d]|]]; inversion H; reflexivity.
  - destruct (c_next_called c) eqn:Ec.
    + destruct (advance F F (f :: rest)) as [[st|]|]; [| |discriminate].
      * destruct (skip_empty F F st) as [|[[st' d]|]]; inversion H; reflexivity.
      * inversion H. reflexivity.
    + destruct (skip_empty F F (f :: rest)) as [|[[st' d]|]]; inversion H; reflexivity.
Qed.

Lemma iterate_yields : forall root F, no_empty_branch root = true -> nodes root < F ->
  forall R c n, next_yields root F c R -> length R <= n ->
  iterate n F c = CVal (map Cursor.to_item R).
Proof.
  intros root F Hr HF R c n Hy Hn. destruct n as [|n].
  - destruct R; [reflexivity | cbn [length] in Hn; lia].
  - cbn [iterate]. destruct R as [|d l]; cbn [next_yields] in Hy.
    + destruct Hy as (c' & Hnx & _ & _). rewrite Hnx. reflexivity.
    + destruct Hy as (c' & Hnx & Hc' & Hrem). rewrite Hnx.
      rewrite (iterate_spec root F Hr HF l c' n Hc' Hrem) by (cbn [length] in Hn; lia).
      reflexivity.
Qed.

Lemma from_e_bound : forall root st, wf_stack root st -> length (from_e st) <= nodes root.
Proof.
  intros root st Hwf.
  assert (Hle : forall l i, length (lp_e l i) <= length (lp_e l 0)).
  { intros l i. unfold lp_e. cbn [skipn]. rewrite skipn_length. lia. }
  pose proof (from_bound lp_e Hle root st Hwf) as H. rewrite gflat_e in H.
  pose proof (flatten_le_nodes root). lia.
Qed.

(* ====================================================================== *)
(** * 6. seek *)

Lemma ble_of_gt : forall k x, bcmp x k = Gt -> ble k x = true.
Proof. intros k x H. apply ble_true. apply bcmp_lt_gt in H. rewrite H. discriminate. Qed.
Lemma ble_of_lt : forall k x, bcmp x k = Lt -> ble k x = false.
Proof. intros k x H. unfold ble. apply bcmp_lt_gt in H. now rewrite H. Qed.
Lemma ble_refl : forall k, ble k k = true.
Proof. intros k. unfold ble. now rewrite bcmp_refl. Qed.
Lemma blt_of_gt : forall k x, bcmp x k = Gt -> blt k x = true.
Proof. intros k x H. apply blt_true. now apply bcmp_lt_gt. Qed.
Lemma blt_of_lt : forall k x, bcmp x k = Lt -> blt k x = false.
Proof. intros k x H. unfold blt. apply bcmp_lt_gt in H. now rewrite H. Qed.
Lemma blt_irrefl : forall k, blt k k = false.
Proof. intros k. unfold blt. now rewrite bcmp_refl. Qed.

(* [from_succ] / [from_pred] on a list split around k *)
Lemma from_succ_split : forall k A G,
  keys_lt A k -> (forall e, In e G -> ble k (lent_key e) = true) ->
  from_succ k (map Cursor.to_item (A ++ G)) = map Cursor.to_item G.
Proof.
  intros k A G HA HG. unfold from_succ.
  rewrite (filter_map_to_item (fun x => ble k x)). f_equal.
  apply filter_split; [|exact HG]. intros x Hx. apply ble_of_lt. now apply HA.
Qed.

Lemma from_pred_split : forall k A e G,
  keys_lt A k -> bcmp (lent_key e) k = Lt -> keys_gt G k ->
  from_pred k (map Cursor.to_item (A ++ e :: G)) = map Cursor.to_item (e :: G).
Proof.
  intros k A e G HA He HG. induction A as [|a A IH].
  - cbn [app map]. destruct G as [|g G]; [reflexivity|]. cbn [map from_pred].
    rewrite item_key_to_item. unfold blt. now rewrite (HG g (or_introl eq_refl)).
  - cbn [app map]. rewrite <- map_cons.
    assert (IH' : from_pred k (map Cursor.to_item (A ++ e :: G)) = map Cursor.to_item (e :: G)).
    { apply IH. intros x Hx. apply HA. now right. }
    assert (Hhd : exists j rest, A ++ e :: G = j :: rest /\ bcmp (lent_key j) k = Lt).
    { destruct A as [|a' A']; [exists e, G; auto|].
      exists a', (A' ++ e :: G). split; [reflexivity|]. apply HA. right; now left. }
    destruct Hhd as (j & rest & Hjr & Hj). rewrite Hjr in *.
    cbn [map from_pred] in *. rewrite item_key_to_item. unfold blt at 1. rewrite Hj. exact IH'.
Qed.

Lemma seek_scan_unfold : forall t k ex st,
  search (S (nodes t)) t k [] = (ex, st) ->
  seek_scan t k = (ex, iterate (S (nodes t)) (S (nodes t)) (mkCursor t st false)).
Proof.
  intros t k ex st H. unfold seek_scan, seek. cbn [c_root new_cursor]. now rewrite H.
Qed.

Definition leaf_has_lt (lf : tree) (k : bytes) : bool :=
  existsb (fun e => blt (lent_key e) k) (flatten lf).

(* the precise form: which of the two neighbours iteration starts at *)
Theorem seek_spec_precise : forall t k, wf_tree t = true ->
  let items := map Cursor.to_item (flatten t) in
  exists ex lf i pre l,
    search (S (nodes t)) t k [] = (ex, (lf, i) :: pre) /\ is_leaf lf = true /\
    seek_scan t k = (ex, CVal l) /\
    (ex = true <-> In k (map lent_key (flatten t))) /\
    l = (if ex then from_succ k items
         else if leaf_has_lt lf k then from_pred k items else from_succ k items).
Proof.
  intros t k Hwf items. destruct (wf_tree_parts t Hwf) as (Hsh & Hsorted & Hneb).
  destruct (search (S (nodes t)) t k []) as [ex st] eqn:Es.
  destruct (search_pos t k ex st Hwf Es) as (lf & i & pre & Hst & Hlf & Hwfs & Hset & Htop & Hpos).
  pose proof (next_yields_seek t (S (nodes t)) st Hneb (Nat.lt_succ_diag_r _) Hwfs Hset Htop) as Hy.
  pose proof (from_e_bound t st Hwfs) as Hb.
  pose proof (iterate_yields t (S (nodes t)) Hneb (Nat.lt_succ_diag_r _) _ _ (S (nodes t)) Hy
                ltac:(lia)) as Hit.
  exists ex, lf, i, pre, (map Cursor.to_item (from_e st)).
  split; [now rewrite Hst|]. split; [exact Hlf|].
  split; [rewrite (seek_scan_unfold t k ex st Es), Hit; reflexivity|].
  subst items.
  destruct Hpos as [A e G Hex Hk Hin HA HG Hfl Hfrom _
                   | A e G Hex Hk Hin HA HG Hfl Hfrom _
                   | A G Hex Hlfgt HA HG Hfl Hfrom _]; subst ex.
  - split.
    + split; [intros _|reflexivity]. rewrite Hfl, map_app. apply in_or_app. right. left. exact Hk.
    + rewrite Hfrom, Hfl. symmetry. apply from_succ_split; [exact HA|].
      intros x [<- | Hx]; [rewrite Hk; apply ble_refl | apply ble_of_gt; now apply HG].
  - split.
    + split; [discriminate|]. intros Hink. exfalso. rewrite Hfl in Hink.
      apply in_map_iff in Hink. destruct Hink as (x & Hxk & Hx).
      apply in_app_or in Hx. destruct Hx as [Hx | [<- | Hx]].
      * apply HA in Hx. rewrite Hxk, bcmp_refl in Hx. discriminate.
      * rewrite Hxk, bcmp_refl in Hk. discriminate.
      * apply HG in Hx. rewrite Hxk, bcmp_refl in Hx. discriminate.
    + assert (Hl : leaf_has_lt lf k = true).
      { unfold leaf_has_lt. apply existsb_exists. exists e. split; [exact Hin|]. now apply blt_true. }
      rewrite Hl, Hfrom, Hfl. symmetry. now apply from_pred_split.
  - split.
    + split; [discriminate|]. intros Hink. exfalso. rewrite Hfl in Hink.
      apply in_map_iff in Hink. destruct Hink as (x & Hxk & Hx).
      apply in_app_or in Hx. destruct Hx as [Hx | Hx].
      * apply HA in Hx. rewrite Hxk, bcmp_refl in Hx. discriminate.
      * apply HG in Hx. rewrite Hxk, bcmp_refl in Hx. discriminate.
    + assert (Hl : leaf_has_lt lf k = false).
      { unfold leaf_has_lt. destruct (existsb _ (flatten lf)) eqn:E; [|reflexivity].
        apply existsb_exists in E. destruct E as (x & Hx & Hlt). apply blt_true in Hlt.
        rewrite (Hlfgt x Hx) in Hlt. discriminate. }
      rewrite Hl, Hfrom, Hfl. symmetry. apply from_succ_split; [exact HA|].
      intros x Hx. apply ble_of_gt. now apply HG.
Qed.

Theorem seek_spec : forall t k, wf_tree t = true ->
  let items := map Cursor.to_item (flatten t) in
  exists ex l,
    seek_scan t k = (ex, CVal l) /\
    (ex = true <-> In k (map lent_key (flatten t))) /\
    (ex = true -> l = from_succ k items) /\
    (ex = false -> l = from_pred k items \/ l = from_succ k items).
Proof.
  intros t k Hwf items.
  destruct (seek_spec_precise t k Hwf) as (ex & lf & i & pre & l & _ & _ & Hss & Hex & Hl).
  exists ex, l. split; [exact Hss|]. split; [exact Hex|]. fold items in Hl. split.
  - intros ->. exact Hl.
  - intros ->. destruct (leaf_has_lt lf k); auto.
Qed.

(* ====================================================================== *)
(** * 7. ranges *)

Definition lo_f (lo : bound) (e : lent) : bool := lo_ok lo (lent_key e).
Definition hi_f (hi : bound) (e : lent) : bool := hi_ok hi (lent_key e).

(* the upper bound is downward closed: once it fails, it fails for every larger key *)
Lemma hi_ok_mono : forall hi a b, bcmp a b = Lt -> hi_ok hi a = false -> hi_ok hi b = false.
Proof.
  intros [e|e|] a b Hab H; cbn [hi_ok] in *; [| |discriminate].
  - unfold ble in *. destruct (bcmp a e) eqn:Ea; try discriminate.
    apply bcmp_lt_gt in Hab.
    assert (Hbe : bcmp b e = Gt) by (eapply bcmp_gt_trans; eauto). now rewrite Hbe.
  - unfold blt in *. destruct (bcmp b e) eqn:Eb; try reflexivity.
    rewrite (bcmp_lt_trans a b e Hab Eb) in H. discriminate.
Qed.

Lemma hi_filter_stop : forall hi d l,
  sorted_keys (map lent_key (d :: l)) = true -> hi_f hi d = false -> filter (hi_f hi) (d :: l) = [].
Proof.
  intros hi d l Hs Hd. apply filter_none. intros x [<- | Hx]; [exact Hd|].
  cbn [map] in Hs. destruct (sorted_keys_cons _ _ Hs) as [Hall _]. rewrite Forall_forall in Hall.
  unfold hi_f in *. eapply hi_ok_mono; [|exact Hd]. apply Hall. now apply in_map.
Qed.

Lemma range_start_started : forall F c lo, c_next_called c = true -> range_start F c lo = CVal c.
Proof. intros F c lo H. unfold range_start. now rewrite H. Qed.

(* after the first call: a plain filter with early stop *)
Lemma range_iterate_started : forall root F lo hi,
  no_empty_branch root = true -> nodes root < F ->
  forall R c n, cinv root c -> c_next_called c = true -> rem c = R ->
  sorted_keys (map lent_key R) = true -> length R <= n ->
  range_iterate n F c lo hi = CVal (map Cursor.to_item (filter (hi_f hi) R)).
Proof.
  intros root F lo hi Hr HF. induction R as [|d l IH]; intros c n Hc Hcalled Hrem Hs Hn.
  - destruct n as [|n]; [reflexivity|]. cbn [range_iterate]. unfold range_next.
    rewrite (range_start_started F c lo Hcalled).
    pose proof (next_spec root F c Hr HF Hc) as Hsp. rewrite Hrem in Hsp.
    destruct Hsp as (c' & Hnx & _ & _). rewrite Hnx. reflexivity.
  - destruct n as [|n]; [cbn [length] in Hn; lia|]. cbn [range_iterate]. unfold range_next.
    rewrite (range_start_started F c lo Hcalled).
    pose proof (next_spec root F c Hr HF Hc) as Hsp. rewrite Hrem in Hsp.
    destruct Hsp as (c' & Hnx & Hc' & Hrem'). rewrite Hnx. rewrite item_key_to_item.
    destruct (hi_ok hi (lent_key d)) eqn:Eh.
    + cbn [map] in Hs.
      rewrite (IH c' n Hc' (next_called_true _ _ _ _ Hnx) Hrem' (sorted_keys_tl _ _ Hs))
        by (cbn [length] in Hn; lia).
      cbn [filter]. change (hi_f hi d) with (hi_ok hi (lent_key d)). rewrite Eh. reflexivity.
    + rewrite (hi_filter_stop hi d l Hs Eh). reflexivity.
Qed.

(* the first call: [range_start] positions the cursor, then as above *)
Lemma range_iterate_first : forall root F lo hi,
  no_empty_branch root = true -> nodes root < F ->
  forall c c1 R n, range_start F c lo = CVal c1 -> next_yields root F c1 R ->
  sorted_keys (map lent_key R) = true -> length R <= n ->
  range_iterate n F c lo hi = CVal (map Cursor.to_item (filter (hi_f hi) R)).
Proof.
  intros root F lo hi Hr HF c c1 R n Hstart Hy Hs Hn. destruct n as [|n].
  - destruct R; [reflexivity | cbn [length] in Hn; lia].
  - cbn [range_iterate]. unfold range_next. rewrite Hstart.
    destruct R as [|d l]; cbn [next_yields] in Hy.
    + destruct Hy as (c' & Hnx & _ & _). rewrite Hnx. reflexivity.
    + destruct Hy as (c' & Hnx & Hc' & Hrem). rewrite Hnx. rewrite item_key_to_item.
      destruct (hi_ok hi (lent_key d)) eqn:Eh.
      * cbn [map] in Hs.
        rewrite (range_iterate_started root F lo hi Hr HF l c' n Hc'
                   (next_called_true _ _ _ _ Hnx) Hrem (sorted_keys_tl _ _ Hs))
          by (cbn [length] in Hn; lia).
        cbn [filter]. change (hi_f hi d) with (hi_ok hi (lent_key d)). rewrite Eh. reflexivity.
      * rewrite (hi_filter_stop hi d l Hs Eh). reflexivity.
Qed.

(* what [range_start] does to a fresh cursor: it ends up just before the first entry within the
   lower bound *)
Lemma range_start_spec : forall t lo, wf_tree t = true ->
  exists c1, range_start (S (nodes t)) (new_cursor t) lo = CVal c1 /\
             next_yields t (S (nodes t)) c1 (filter (lo_f lo) (flatten t)).
Proof.
  intros t lo Hwf. destruct (wf_tree_parts t Hwf) as (Hsh & Hsorted & Hneb).
  set (F := S (nodes t)). assert (HF : nodes t < F) by (unfold F; lia).
  unfold range_start, new_cursor. cbn [c_next_called].
  destruct lo as [s|s|].
  - (* inclusive *)
    unfold seek. cbn [c_root]. destruct (search F t s []) as [ex st] eqn:Es.
    destruct (search_pos t s ex st Hwf Es) as (lf & i & pre & Hst & Hlf & Hwfs & Hset & Htop & Hpos).
    pose proof (next_yields_seek t F st Hneb HF Hwfs Hset Htop) as Hy. cbn [c_stack].
    destruct Hpos as [A e G Hex Hk Hin HA HG Hfl Hfrom Hcur
                     | A e G Hex Hk Hin HA HG Hfl Hfrom Hcur
                     | A G Hex Hlfgt HA HG Hfl Hfrom Hcur]; subst ex.
    + eexists. split; [reflexivity|]. rewrite Hfrom in Hy.
      replace (filter (lo_f (BIncl s)) (flatten t)) with (e :: G); [exact Hy|].
      rewrite Hfl. symmetry. apply filter_split; unfold lo_f; cbn [lo_ok].
      * intros x Hx. apply ble_of_lt. now apply HA.
      * intros x [<- | Hx]; [rewrite Hk; apply ble_refl | apply ble_of_gt; now apply HG].
    + rewrite Hcur, item_key_to_item. rewrite (proj2 (blt_true _ _) Hk).
      rewrite Hfrom in Hy. cbn [next_yields] in Hy. destruct Hy as (c' & Hnx & Hc' & Hrem).
      rewrite Hnx. exists c'. split; [reflexivity|].
      replace (filter (lo_f (BIncl s)) (flatten t)) with G.
      { rewrite <- Hrem. now apply next_yields_cinv. }
      rewrite Hfl. change (A ++ e :: G) with (A ++ [e] ++ G). rewrite app_assoc.
      symmetry. apply filter_split; unfold lo_f; cbn [lo_ok].
      * intros x Hx. apply ble_of_lt. apply in_app_or in Hx.
        destruct Hx as [Hx | [<- | []]]; [now apply HA | exact Hk].
      * intros x Hx. apply ble_of_gt. now apply HG.
    + assert (Hres : filter (lo_f (BIncl s)) (flatten t) = G).
      { rewrite Hfl. apply filter_split; unfold lo_f; cbn [lo_ok].
        - intros x Hx. apply ble_of_lt. now apply HA.
        - intros x Hx. apply ble_of_gt. now apply HG. }
      rewrite Hres. rewrite Hfrom in Hy.
      destruct Hcur as [Hcur | (e0 & Hcur & He0)]; rewrite Hcur.
      * eexists. split; [reflexivity | exact Hy].
      * rewrite item_key_to_item.
        assert (Hlt : blt (lent_key e0) s = false) by (unfold blt; now rewrite He0).
        rewrite Hlt. eexists. split; [reflexivity | exact Hy].
  - (* exclusive *)
    unfold seek. cbn [c_root]. destruct (search F t s []) as [ex st] eqn:Es.
    destruct (search_pos t s ex st Hwf Es) as (lf & i & pre & Hst & Hlf & Hwfs & Hset & Htop & Hpos).
    pose proof (next_yields_seek t F st Hneb HF Hwfs Hset Htop) as Hy. cbn [c_stack].
    destruct Hpos as [A e G Hex Hk Hin HA HG Hfl Hfrom Hcur
                     | A e G Hex Hk Hin HA HG Hfl Hfrom Hcur
                     | A G Hex Hlfgt HA HG Hfl Hfrom Hcur]; subst ex.
    + rewrite Hcur, item_key_to_item. rewrite Hk, ble_refl.
      rewrite Hfrom in Hy. cbn [next_yields] in Hy. destruct Hy as (c' & Hnx & Hc' & Hrem).
      rewrite Hnx. exists c'. split; [reflexivity|].
      replace (filter (lo_f (BExcl s)) (flatten t)) with G.
      { rewrite <- Hrem. now apply next_yields_cinv. }
      rewrite Hfl. change (A ++ e :: G) with (A ++ [e] ++ G). rewrite app_assoc.
      symmetry. apply filter_split; unfold lo_f; cbn [lo_ok].
      * intros x Hx. apply in_app_or in Hx.
        destruct Hx as [Hx | [<- | []]]; [apply blt_of_lt; now apply HA | rewrite Hk; apply blt_irrefl].
      * intros x Hx. apply blt_of_gt. now apply HG.
    + rewrite Hcur, item_key_to_item.
      assert (Hle : ble (lent_key e) s = true) by (apply ble_true; rewrite Hk; discriminate).
      rewrite Hle.
      rewrite Hfrom in Hy. cbn [next_yields] in Hy. destruct Hy as (c' & Hnx & Hc' & Hrem).
      rewrite Hnx. exists c'. split; [reflexivity|].
      replace (filter (lo_f (BExcl s)) (flatten t)) with G.
      { rewrite <- Hrem. now apply next_yields_cinv. }
      rewrite Hfl. change (A ++ e :: G) with (A ++ [e] ++ G). rewrite app_assoc.
      symmetry. apply filter_split; unfold lo_f; cbn [lo_ok].
      * intros x Hx. apply blt_of_lt. apply in_app_or in Hx.
        destruct Hx as [Hx | [<- | []]]; [now apply HA | exact Hk].
      * intros x Hx. apply blt_of_gt. now apply HG.
    + assert (Hres : filter (lo_f (BExcl s)) (flatten t) = G).
      { rewrite Hfl. apply filter_split; unfold lo_f; cbn [lo_ok].
        - intros x Hx. apply blt_of_lt. now apply HA.
        - intros x Hx. apply blt_of_gt. now apply HG. }
      rewrite Hres. rewrite Hfrom in Hy.
      destruct Hcur as [Hcur | (e0 & Hcur & He0)]; rewrite Hcur.
      * eexists. split; [reflexivity | exact Hy].
      * rewrite item_key_to_item.
        assert (Hle : ble (lent_key e0) s = false) by (unfold ble; now rewrite He0).
        rewrite Hle. eexists. split; [reflexivity | exact Hy].
  - (* unbounded *)
    eexists. split; [reflexivity|].
    replace (filter (lo_f BUnb) (flatten t)) with (rem (new_cursor t)).
    + apply next_yields_cinv; auto. apply cinv_new.
    + symmetry. apply filter_all. reflexivity.
Qed.

Theorem range_spec : forall t lo hi, wf_tree t = true ->
  range_scan t lo hi
  = CVal (filter (fun i => in_bounds lo hi (item_key i)) (map Cursor.to_item (flatten t))).
Proof.
  intros t lo hi Hwf. destruct (wf_tree_parts t Hwf) as (Hsh & Hsorted & Hneb).
  destruct (range_start_spec t lo Hwf) as (c1 & Hstart & Hy).
  unfold range_scan.
  rewrite (range_iterate_first t (S (nodes t)) lo hi Hneb (Nat.lt_succ_diag_r _)
             (new_cursor t) c1 (filter (lo_f lo) (flatten t)) (S (nodes t)) Hstart Hy).
  - f_equal. rewrite (filter_map_to_item (fun x => in_bounds lo hi x)). f_equal.
    rewrite filter_filter. reflexivity.
  - now apply sorted_filter.
  - pose proof (filter_len (lo_f lo) (flatten t)). pose proof (flatten_le_nodes t). lia.
Qed.

(* reversed (or otherwise empty) bounds give the empty result *)
Corollary range_spec_empty : forall t lo hi, wf_tree t = true ->
  (forall k, in_bounds lo hi k = false) -> range_scan t lo hi = CVal [].
Proof.
  intros t lo hi Hwf He. rewrite (range_spec t lo hi Hwf). f_equal.
  apply filter_none. intros x _. apply He.
Qed.

(* ====================================================================== *)
(** * 8. the bucket / pair filters over a scan *)

Definition is_bucket_item (i : item) : bool := match i with IBk _ => true | IKv _ _ => false end.
Definition is_pair_item (i : item) : bool := match i with IKv _ _ => true | IBk _ => false end.
Definition cur_map {A B} (f : A -> B) (r : cur_res A) : cur_res B :=
  match r with CPanic => CPanic | CVal a => CVal (f a) end.

Theorem scan_spec : forall t, wf_tree t = true -> scan t = CVal (map Cursor.to_item (flatten t)).
Proof. intros t Hwf. apply cursor_all. apply (wf_tree_parts t Hwf). Qed.

Corollary buckets_spec : forall t, wf_tree t = true ->
  cur_map (filter is_bucket_item) (scan t)
  = CVal (filter is_bucket_item (map Cursor.to_item (flatten t))).
Proof. intros t Hwf. now rewrite (scan_spec t Hwf). Qed.

Corollary pairs_spec : forall t, wf_tree t = true ->
  cur_map (filter is_pair_item) (scan t)
  = CVal (filter is_pair_item (map Cursor.to_item (flatten t))).
Proof. intros t Hwf. now rewrite (scan_spec t Hwf). Qed.

(* ====================================================================== *)
(** * 9. sanity checks on a tree with an empty leaf in the middle (not vacuous: it is wf) *)
Definition bk (c : byte) : bytes := [c].
Definition kv (c : byte) : lent := EKv [c] [].
Definition gap_tree : tree :=
  TB 9%N 0%N [ (bk "b", TL 1%N 0%N [kv "a"; kv "c"]);
               (bk "d", TL 2%N 0%N []);
               (bk "f", TL 3%N 0%N [kv "f"; kv "h"]) ].
Example gap_tree_checks :
  wf_tree gap_tree = true /\
  (* absent key routed to the empty leaf: iteration starts at the successor, NOT the predecessor *)
  seek_scan gap_tree (bk "e") = (false, CVal [IKv (bk "f") []; IKv (bk "h") []]) /\
  from_pred (bk "e") (map Cursor.to_item (flatten gap_tree))
    = [IKv (bk "c") []; IKv (bk "f") []; IKv (bk "h") []] /\
  (* absent key inside a non-empty leaf, above its first key: starts at the predecessor *)
  seek_scan gap_tree (bk "g") = (false, CVal [IKv (bk "f") []; IKv (bk "h") []]) /\
  (* absent key above every key: the last entry (predecessor) *)
  seek_scan gap_tree (bk "i") = (false, CVal [IKv (bk "h") []]) /\
  (* a key equal to the empty leaf's separator is routed to the empty leaf as well *)
  seek_scan gap_tree (bk "d") = (false, CVal [IKv (bk "f") []; IKv (bk "h") []]) /\
  range_scan gap_tree (BExcl (bk "c")) (BIncl (bk "f")) = CVal [IKv (bk "f") []] /\
  range_scan gap_tree (BIncl (bk "h")) (BIncl (bk "a")) = CVal [].
Proof. repeat split; vm_compute; reflexivity. Qed.

Print Assumptions wf_shape_neb.
Print Assumptions search_pos.
Print Assumptions seek_spec_precise.
Print Assumptions seek_spec.
Print Assumptions range_start_spec.
Print Assumptions range_spec.
Print Assumptions range_spec_empty.
Print Assumptions buckets_spec.
Print Assumptions pairs_spec.
