(* CrashFacts: atomicity / durability of the copy-on-write commit of model/Crash.v.
   C02_kill, C02_power, C02_durable, C02_power_refuted, C11_disk, plus counterexamples
   showing that the order predicates [has_barrier] / [header_after_data] of Crash.v do not
   exclude a data step AFTER the header step (extra premise [no_data_after_header]). *)
From Coq Require Import List NArith Bool String Lia Arith.
From Jamm Require Import Bytes Consts PL Crash.
Import ListNotations.
Local Open Scope list_scope.
Local Open Scope nat_scope.

(* ------------------------------------------------------------------ *)
(* small utilities                                                     *)
(* ------------------------------------------------------------------ *)

Lemma memN_In' x l : memN x l = true <-> In x l.
Proof.
  unfold memN. rewrite existsb_exists. split.
  - intros [y [Hy He]]. apply N.eqb_eq in He. subst. exact Hy.
  - intros H. exists x. split; [exact H | apply N.eqb_refl].
Qed.

Definition get_slot (d : disk) (b : bool) : slotc := if b then slot1 d else slot0 d.

Lemma get_slot_write_same d s v : get_slot (write_slot d s v) s = v.
Proof. destruct s; reflexivity. Qed.
Lemma get_slot_write_other d s v : get_slot (write_slot d s v) (negb s) = get_slot d (negb s).
Proof. destruct s; reflexivity. Qed.
Lemma pages_write_slot d s v : pages (write_slot d s v) = pages d.
Proof. destruct s; reflexivity. Qed.
Lemma get_slot_write_page d p c b : get_slot (write_page d p c) b = get_slot d b.
Proof. destruct b; reflexivity. Qed.

Lemma select_ext d d' :
  get_slot d false = get_slot d' false -> get_slot d true = get_slot d' true -> select d = select d'.
Proof. unfold get_slot, select. intros -> ->. reflexivity. Qed.

Lemma lookup_write_page_same d p c : lookup_page p (pages (write_page d p c)) = c.
Proof. cbn. rewrite N.eqb_refl. reflexivity. Qed.
Lemma lookup_write_page_other d p q c :
  p <> q -> lookup_page q (pages (write_page d p c)) = lookup_page q (pages d).
Proof. intros H. cbn. apply N.eqb_neq in H. rewrite H. reflexivity. Qed.

(* ------------------------------------------------------------------ *)
(* a uniform view of the three crash semantics: a list of (call, fate) *)
(* ------------------------------------------------------------------ *)

Definition run (t : N) (newh : header) (tgt : bool) (l : list (io * fate)) (d : disk) : disk :=
  fold_left (fun d x => apply_io t newh tgt d (fst x) (snd x)) l d.

Lemma run_cons t newh tgt x l d :
  run t newh tgt (x :: l) d = run t newh tgt l (apply_io t newh tgt d (fst x) (snd x)).
Proof. reflexivity. Qed.
Lemma run_app t newh tgt l1 l2 d :
  run t newh tgt (l1 ++ l2) d = run t newh tgt l2 (run t newh tgt l1 d).
Proof. unfold run. apply fold_left_app. Qed.

Definition applied (l : list io) : list (io * fate) := map (fun o => (o, Applied)) l.

Fixpoint tag (synced : nat) (fates : nat -> fate) (i : nat) (l : list io) : list (io * fate) :=
  match l with
  | [] => []
  | o :: r => (o, if Nat.ltb i synced then Applied else fates i) :: tag synced fates (S i) r
  end.

Lemma run_prefix_run t newh tgt : forall n ios d,
  run_prefix t newh tgt d ios n = run t newh tgt (applied (firstn n ios)) d.
Proof.
  induction n as [|n IH]; intros ios d; [destruct ios; reflexivity|].
  destruct ios as [|o r]; [reflexivity|]. cbn [run_prefix firstn applied map].
  rewrite run_cons. cbn [fst snd]. apply IH.
Qed.

Lemma run_power_run t newh tgt synced fates : forall n ios d i,
  run_power t newh tgt d ios n synced i fates = run t newh tgt (tag synced fates i (firstn n ios)) d.
Proof.
  induction n as [|n IH]; intros ios d i; [destruct ios; reflexivity|].
  destruct ios as [|o r]; [reflexivity|]. cbn [run_power firstn tag].
  rewrite run_cons. cbn [fst snd]. apply IH.
Qed.

Definition fault_tail (ios : list io) (k : nat) (f : fate) : list (io * fate) :=
  match nth_error ios k with Some o => [(o, f)] | None => [] end.

Lemma fault_image_run t newh tgt d ios k f :
  fault_image t newh tgt d ios k f = run t newh tgt (applied (firstn k ios) ++ fault_tail ios k f) d.
Proof.
  unfold fault_image, fault_tail. rewrite run_app, run_prefix_run.
  destruct (nth_error ios k); reflexivity.
Qed.

(* facts on [tag] *)
Lemma tag_app synced fates : forall l1 l2 i,
  tag synced fates i (l1 ++ l2) = tag synced fates i l1 ++ tag synced fates (i + List.length l1) l2.
Proof.
  induction l1 as [|o r IH]; intros l2 i; cbn [tag app List.length].
  - rewrite Nat.add_0_r. reflexivity.
  - rewrite IH. replace (S i + List.length r) with (i + S (List.length r)) by lia. reflexivity.
Qed.
Lemma tag_applied synced fates : forall l i,
  i + List.length l <= synced -> tag synced fates i l = applied l.
Proof.
  induction l as [|o r IH]; intros i H; [reflexivity|]. cbn [tag applied map List.length] in *.
  assert (Hlt : Nat.ltb i synced = true) by (apply Nat.ltb_lt; lia). rewrite Hlt.
  f_equal. apply IH. lia.
Qed.
Lemma tag_In synced fates : forall l i o f, In (o, f) (tag synced fates i l) -> In o l.
Proof.
  induction l as [|o' r IH]; intros i o f H; [destruct H|]. cbn [tag] in H. destruct H as [H|H].
  - left. congruence.
  - right. eapply IH. exact H.
Qed.
Lemma applied_In l o f : In (o, f) (applied l) <-> In o l /\ f = Applied.
Proof.
  unfold applied. rewrite in_map_iff. split.
  - intros [x [E H]]. inversion E; subst. auto.
  - intros [H ->]. exists o. auto.
Qed.

(* facts on [last_sync_before] *)
Lemma lsb_mono : forall ios n i acc, acc <= i -> acc <= last_sync_before ios n i acc.
Proof.
  induction ios as [|o r IH]; intros n i acc H; destruct n; cbn [last_sync_before]; try lia.
  destruct o.
  - specialize (IH n (S i) acc). lia.
  - specialize (IH n (S i) acc). lia.
  - specialize (IH n (S i) (S i)). lia.
Qed.
Lemma lsb_after_sync : forall a1 rest n i acc,
  List.length a1 < n -> acc <= i -> i + List.length a1 + 1 <= last_sync_before (a1 ++ IoSync :: rest) n i acc.
Proof.
  induction a1 as [|o r IH]; intros rest n i acc Hn Hacc; destruct n; cbn [List.length] in *; try lia.
  - cbn [app last_sync_before]. pose proof (lsb_mono rest n (S i) (S i)). lia.
  - cbn [app last_sync_before].
    specialize (IH rest n (S i) (match o with IoSync => S i | _ => acc end)).
    assert (match o with IoSync => S i | _ => acc end <= S i) by (destruct o; lia).
    lia.
Qed.

(* facts on [firstn] over a split list *)
Lemma firstn_short {A} (pre rest : list A) n :
  n <= List.length pre -> firstn n (pre ++ rest) = firstn n pre.
Proof.
  intros H. rewrite firstn_app. replace (n - List.length pre) with 0 by lia.
  cbn. apply app_nil_r.
Qed.
Lemma firstn_long {A} (pre rest : list A) n :
  List.length pre <= n -> firstn n (pre ++ rest) = pre ++ firstn (n - List.length pre) rest.
Proof. intros H. rewrite firstn_app. rewrite firstn_all2 by lia. reflexivity. Qed.
Lemma firstn_In {A} (l : list A) n x : In x (firstn n l) -> In x l.
Proof. intros H. rewrite <- (firstn_skipn n l). apply in_or_app. auto. Qed.

(* ------------------------------------------------------------------ *)
(* order predicates and the shape of commit_io_of                      *)
(* ------------------------------------------------------------------ *)

Definition NoHeader (l : list io) : Prop := ~ In IoHeader l.
Definition NoData (l : list io) : Prop := forall p, ~ In (IoData p) l.

(* EXTRA premise (not in Crash.v): no "data" step after the first "header" step. *)
Fixpoint no_data_after_header (order : list string) : bool :=
  match order with
  | [] => true
  | s :: r => if String.eqb s "header" then negb (existsb (String.eqb "data") r)
              else no_data_after_header r
  end.

Lemma step_io_cases written s :
  (String.eqb s "data" = true /\ s = "data"%string /\ step_io written s = map IoData written) \/
  (String.eqb s "data" = false /\ String.eqb s "header" = true /\ s = "header"%string /\ step_io written s = [IoHeader]) \/
  (String.eqb s "data" = false /\ String.eqb s "header" = false /\ String.eqb s "sync" = true /\ s = "sync"%string
     /\ step_io written s = [IoSync]) \/
  (String.eqb s "data" = false /\ String.eqb s "header" = false /\ String.eqb s "sync" = false /\ step_io written s = []).
Proof.
  unfold step_io.
  destruct (String.eqb s "data") eqn:Ed.
  { left. apply String.eqb_eq in Ed. auto. }
  destruct (String.eqb s "header") eqn:Eh.
  { right; left. apply String.eqb_eq in Eh. auto. }
  destruct (String.eqb s "sync") eqn:Es.
  { right; right; left. apply String.eqb_eq in Es. auto 6. }
  right; right; right. auto.
Qed.

Lemma commit_io_names order written p :
  In (IoData p) (commit_io_of order written) -> In p written.
Proof.
  unfold commit_io_of. rewrite in_flat_map. intros [s [_ H]].
  destruct (step_io_cases written s) as [C|[C|[C|C]]].
  - destruct C as (_ & _ & E). rewrite E in H. apply in_map_iff in H.
    destruct H as [q [Eq Hq]]. inversion Eq; subst. exact Hq.
  - destruct C as (_ & _ & _ & E). rewrite E in H. destruct H as [H|[]]. discriminate.
  - destruct C as (_ & _ & _ & _ & E). rewrite E in H. destruct H as [H|[]]. discriminate.
  - destruct C as (_ & _ & _ & E). rewrite E in H. destruct H.
Qed.

Lemma no_data_steps written r :
  existsb (String.eqb "data") r = false -> NoData (flat_map (step_io written) r).
Proof.
  induction r as [|s r IH]; intros H p Hin; [destruct Hin|].
  cbn [existsb] in H. apply orb_false_iff in H. destruct H as [Hs Hr].
  cbn [flat_map] in Hin. apply in_app_or in Hin. destruct Hin as [Hin|Hin].
  - destruct (step_io_cases written s) as [C|[C|[C|C]]].
    + destruct C as (_ & E & _). subst s. discriminate.
    + destruct C as (_ & _ & _ & E). rewrite E in Hin. destruct Hin as [Hin|[]]. discriminate.
    + destruct C as (_ & _ & _ & _ & E). rewrite E in Hin. destruct Hin as [Hin|[]]. discriminate.
    + destruct C as (_ & _ & _ & E). rewrite E in Hin. destruct Hin.
  - exact (IH Hr p Hin).
Qed.

(* shape for header_after_data *)
Definition hd_shape (written : list N) (order : list string) (ios : list io) : Prop :=
  exists pre post, ios = pre ++ IoHeader :: post /\ NoHeader pre /\
    (forall p, In p written -> In (IoData p) pre) /\
    (no_data_after_header order = true -> NoData post).

Lemma hd_shape_gen written : forall order sd acc,
  header_after_data sd order = true ->
  NoHeader acc -> (sd = true -> forall p, In p written -> In (IoData p) acc) ->
  exists pre post, acc ++ flat_map (step_io written) order = pre ++ IoHeader :: post /\ NoHeader pre /\
    (forall p, In p written -> In (IoData p) pre) /\
    (no_data_after_header order = true -> NoData post).
Proof.
  induction order as [|s r IH]; intros sd acc H Hnh Hsd; [discriminate H|].
  cbn [header_after_data no_data_after_header flat_map] in *.
  destruct (step_io_cases written s) as [C|[C|[C|C]]].
  - destruct C as (Ed & Es & E). rewrite Ed in H. rewrite E.
    assert (Eh : String.eqb s "header" = false) by (subst s; reflexivity). rewrite Eh.
    rewrite app_assoc. apply (IH true); [exact H| |].
    + intros Hin. apply in_app_or in Hin. destruct Hin as [Hin|Hin]; [exact (Hnh Hin)|].
      apply in_map_iff in Hin. destruct Hin as [q [Eq _]]. discriminate.
    + intros _ p Hp. apply in_or_app. right. apply in_map. exact Hp.
  - destruct C as (Ed & Eh & _ & E). rewrite Ed, Eh in H. rewrite Eh, E.
    apply andb_true_iff in H. destruct H as [Hsd' _].
    exists acc, (flat_map (step_io written) r). repeat split.
    + exact Hnh.
    + exact (Hsd Hsd').
    + intros Hn. apply no_data_steps. apply negb_true_iff in Hn. exact Hn.
  - destruct C as (Ed & Eh & _ & _ & E). rewrite Ed, Eh in H. rewrite Eh, E.
    rewrite app_assoc. apply (IH sd); [exact H| |].
    + intros Hin. apply in_app_or in Hin. destruct Hin as [Hin|[Hin|[]]]; [exact (Hnh Hin)|discriminate].
    + intros Hs p Hp. apply in_or_app. left. exact (Hsd Hs p Hp).
  - destruct C as (Ed & Eh & _ & E). rewrite Ed, Eh in H. rewrite Eh, E.
    cbn [app]. apply (IH sd); assumption.
Qed.

Lemma hd_shape_of written order :
  header_after_data false order = true -> hd_shape written order (commit_io_of order written).
Proof.
  intros H. unfold hd_shape, commit_io_of.
  destruct (hd_shape_gen written order false [] H) as (pre & post & E & R).
  - intros [].
  - discriminate.
  - exists pre, post. split; [exact E|exact R].
Qed.

(* shape for has_barrier *)
Definition bar_shape (written : list N) (order : list string) (ios : list io) : Prop :=
  exists a1 a2 post, ios = a1 ++ IoSync :: a2 ++ IoHeader :: post /\
    NoHeader a1 /\ NoHeader a2 /\ NoData a2 /\
    (forall p, In p written -> In (IoData p) a1) /\
    (no_data_after_header order = true -> NoData post).

Lemma bar_shape_gen written : forall order sd ss acc,
  has_barrier_from sd ss order = true ->
  NoHeader acc -> (sd = true -> forall p, In p written -> In (IoData p) acc) ->
  (ss = true -> exists a1 a2, acc = a1 ++ IoSync :: a2 /\ NoData a2 /\
                              forall p, In p written -> In (IoData p) a1) ->
  exists a1 a2 post, acc ++ flat_map (step_io written) order = a1 ++ IoSync :: a2 ++ IoHeader :: post /\
    NoHeader a1 /\ NoHeader a2 /\ NoData a2 /\
    (forall p, In p written -> In (IoData p) a1) /\
    (no_data_after_header order = true -> NoData post).
Proof.
  induction order as [|s r IH]; intros sd ss acc H Hnh Hsd Hss; [discriminate H|].
  cbn [has_barrier_from no_data_after_header flat_map] in *.
  destruct (step_io_cases written s) as [C|[C|[C|C]]].
  - destruct C as (Ed & Es & E). rewrite Ed in H. rewrite E.
    assert (Eh : String.eqb s "header" = false) by (subst s; reflexivity). rewrite Eh.
    rewrite app_assoc. apply (IH true false); [exact H| | |discriminate].
    + intros Hin. apply in_app_or in Hin. destruct Hin as [Hin|Hin]; [exact (Hnh Hin)|].
      apply in_map_iff in Hin. destruct Hin as [q [Eq _]]. discriminate.
    + intros _ p Hp. apply in_or_app. right. apply in_map. exact Hp.
  - destruct C as (Ed & Eh & Es & E). rewrite Ed in H. rewrite Eh, E.
    assert (Esy : String.eqb s "sync" = false) by (subst s; reflexivity). rewrite Esy, Eh in H.
    apply andb_true_iff in H. destruct H as [_ Hss'].
    destruct (Hss Hss') as (a1 & a2 & Eacc & Hnd2 & Hall).
    exists a1, a2, (flat_map (step_io written) r). subst acc. repeat split.
    + rewrite <- app_assoc. reflexivity.
    + intros Hin. apply Hnh. apply in_or_app. left. exact Hin.
    + intros Hin. apply Hnh. apply in_or_app. right. right. exact Hin.
    + exact Hnd2.
    + exact Hall.
    + intros Hn. apply no_data_steps. apply negb_true_iff in Hn. exact Hn.
  - destruct C as (Ed & Eh & Esy & _ & E). rewrite Ed, Esy in H. rewrite Eh, E.
    rewrite app_assoc. apply (IH sd sd); [exact H| | |].
    + intros Hin. apply in_app_or in Hin. destruct Hin as [Hin|[Hin|[]]]; [exact (Hnh Hin)|discriminate].
    + intros Hs p Hp. apply in_or_app. left. exact (Hsd Hs p Hp).
    + intros Hs. exists acc, []. repeat split.
      * intros p [].
      * exact (Hsd Hs).
  - destruct C as (Ed & Eh & Esy & E). rewrite Ed, Esy, Eh in H. rewrite Eh, E.
    cbn [app]. apply (IH sd ss); assumption.
Qed.

Lemma bar_shape_of written order :
  has_barrier order = true -> bar_shape written order (commit_io_of order written).
Proof.
  intros H. unfold bar_shape, commit_io_of.
  destruct (bar_shape_gen written order false false [] H) as (a1 & a2 & post & E & R).
  - intros [].
  - discriminate.
  - discriminate.
  - exists a1, a2, post. split; [exact E|exact R].
Qed.

(* ------------------------------------------------------------------ *)
(* the setting                                                         *)
(* ------------------------------------------------------------------ *)

Definition orig_cur (d : disk) (p : N) : content := lookup_page p (pages d).
Definition orig_new (d : disk) (t : N) (written : list N) (p : N) : content :=
  if memN p written then Written t else lookup_page p (pages d).

Record commit_setting (d : disk) (cur newh : header) (t : N) (written : list N) : Prop := {
  cs_select : select d = Some cur;
  cs_tx : h_tx newh = t;
  cs_lt : (h_tx cur < t)%N;
  cs_cow : forall p, In p written -> ~ In p (h_live cur);
  cs_new : forall p, In p (h_live newh) -> In p written \/ In p (h_live cur);
  cs_nodup : NoDup written }.

Definition pre_or_post (d : disk) (cur newh : header) (t : N) (written : list N) (img : disk) : Prop :=
  (select img = Some cur /\ intact (orig_cur d) img cur) \/
  (select img = Some newh /\ intact (orig_new d t written) img newh).

Lemma intact_initial d cur : intact (orig_cur d) d cur.
Proof. intros p _. reflexivity. Qed.

(* the slot holding cur is valid with header cur, and it is not the slot the commit overwrites *)
Lemma current_slot_holds d cur :
  select d = Some cur -> get_slot d (current_slot d) = SValid cur.
Proof.
  unfold select, current_slot, get_slot.
  destruct (slot0 d) as [a|], (slot1 d) as [b|]; try discriminate.
  - destruct (N.ltb (h_tx b) (h_tx a)); cbn; congruence.
  - congruence.
  - congruence.
Qed.

Section Commit.
  Variables (d : disk) (cur newh : header) (t : N) (written : list N).
  Hypothesis HS : commit_setting d cur newh t written.

  Let tgt := negb (current_slot d).

  Lemma tgt_not_current : tgt <> current_slot d.
  Proof. unfold tgt. destruct (current_slot d); discriminate. Qed.

  Lemma other_slot_holds_cur : get_slot d (negb tgt) = SValid cur.
  Proof. unfold tgt. rewrite negb_involutive. apply current_slot_holds. apply HS. Qed.

  (* writing slot tgt leaves cur readable *)
  Lemma write_tgt_keeps_cur v : get_slot (write_slot d tgt v) (current_slot d) = SValid cur.
  Proof.
    replace (current_slot d) with (negb tgt) by (unfold tgt; apply negb_involutive).
    rewrite get_slot_write_other. apply other_slot_holds_cur.
  Qed.

  (* select as a function of the two slots, seen from tgt *)
  Lemma select_newh img :
    get_slot img tgt = SValid newh -> get_slot img (negb tgt) = SValid cur -> select img = Some newh.
  Proof.
    pose proof (cs_lt _ _ _ _ _ HS) as Hlt. pose proof (cs_tx _ _ _ _ _ HS) as Htx.
    unfold select, get_slot. destruct tgt; cbn [negb]; intros -> ->.
    - assert (E : N.ltb (h_tx newh) (h_tx cur) = false) by (apply N.ltb_ge; lia). rewrite E. reflexivity.
    - assert (E : N.ltb (h_tx cur) (h_tx newh) = true) by (apply N.ltb_lt; lia). rewrite E. reflexivity.
  Qed.
  Lemma select_torn img :
    get_slot img tgt = SInvalid -> get_slot img (negb tgt) = SValid cur -> select img = Some cur.
  Proof. unfold select, get_slot. destruct tgt; cbn [negb]; intros -> ->; reflexivity. Qed.
  Lemma select_same img :
    get_slot img tgt = get_slot d tgt -> get_slot img (negb tgt) = get_slot d (negb tgt) -> select img = Some cur.
  Proof.
    intros H1 H2. rewrite <- (cs_select _ _ _ _ _ HS).
    apply select_ext; destruct tgt; cbn [negb] in *; assumption.
  Qed.

  Lemma select_write_newh : select (write_slot d tgt (SValid newh)) = Some newh.
  Proof.
    apply select_newh; [apply get_slot_write_same|].
    rewrite get_slot_write_other. apply other_slot_holds_cur.
  Qed.
  Lemma select_write_torn : select (write_slot d tgt SInvalid) = Some cur.
  Proof.
    apply select_torn; [apply get_slot_write_same|].
    rewrite get_slot_write_other. apply other_slot_holds_cur.
  Qed.

  Notation runl := (run t newh tgt).

  (* --- slots after an arbitrary list of (call, fate) --- *)
  Lemma run_other_slot : forall l d0, get_slot (runl l d0) (negb tgt) = get_slot d0 (negb tgt).
  Proof.
    induction l as [|[o f] l IH]; intros d0; [reflexivity|].
    rewrite run_cons, IH. cbn [fst snd].
    destruct o, f; cbn [apply_io]; try reflexivity;
      try apply get_slot_write_page; apply get_slot_write_other.
  Qed.

  Lemma run_tgt_slot : forall l d0,
    get_slot (runl l d0) tgt = get_slot d0 tgt \/
    get_slot (runl l d0) tgt = SInvalid \/
    (get_slot (runl l d0) tgt = SValid newh /\ In (IoHeader, Applied) l).
  Proof.
    induction l as [|[o f] l IH]; intros d0; [left; reflexivity|].
    rewrite run_cons. cbn [fst snd].
    destruct (IH (apply_io t newh tgt d0 o f)) as [H|[H|[H Hin]]].
    - rewrite H. destruct o, f; cbn [apply_io]; try (left; reflexivity);
        try (left; apply get_slot_write_page).
      + right; right. split; [apply get_slot_write_same|left; reflexivity].
      + right; left. apply get_slot_write_same.
    - right; left. exact H.
    - right; right. split; [exact H|right; exact Hin].
  Qed.

  Lemma run_tgt_slot_applied : forall l d0,
    (forall f, In (IoHeader, f) l -> f = Applied) ->
    (get_slot d0 tgt = SValid newh \/ In (IoHeader, Applied) l) ->
    get_slot (runl l d0) tgt = SValid newh.
  Proof.
    induction l as [|[o f] l IH]; intros d0 Hall H.
    - destruct H as [H|[]]. exact H.
    - rewrite run_cons. cbn [fst snd]. apply IH.
      + intros f' Hf'. apply Hall. right. exact Hf'.
      + destruct o.
        * destruct H as [H|[H|H]]; [left|discriminate H|right; exact H].
          destruct f; cbn [apply_io]; try rewrite get_slot_write_page; exact H.
        * assert (f = Applied) by (apply Hall; left; reflexivity). subst f.
          left. apply get_slot_write_same.
        * destruct H as [H|[H|H]]; [left|discriminate H|right; exact H].
          destruct f; exact H.
  Qed.

  (* --- pages after an arbitrary list of (call, fate) --- *)
  Lemma run_page_untouched : forall l d0 q,
    (forall f, ~ In (IoData q, f) l) ->
    lookup_page q (pages (runl l d0)) = lookup_page q (pages d0).
  Proof.
    induction l as [|[o f] l IH]; intros d0 q H; [reflexivity|].
    rewrite run_cons, IH by (intros f' Hf'; apply (H f'); right; exact Hf'). cbn [fst snd].
    destruct o as [p| |]; destruct f; cbn [apply_io]; try reflexivity;
      try apply f_equal, pages_write_slot.
    - apply lookup_write_page_other. intros ->. apply (H Applied). left. reflexivity.
    - apply lookup_write_page_other. intros ->. apply (H Torn). left. reflexivity.
  Qed.

  Lemma run_page_kept : forall l d0 p,
    (forall f, In (IoData p, f) l -> f <> Torn) ->
    lookup_page p (pages d0) = Written t ->
    lookup_page p (pages (runl l d0)) = Written t.
  Proof.
    induction l as [|[o f] l IH]; intros d0 p Hnt H0; [exact H0|].
    rewrite run_cons. cbn [fst snd]. apply IH.
    - intros f' Hf'. apply Hnt. right. exact Hf'.
    - destruct o as [q| |]; destruct f; cbn [apply_io]; try exact H0;
        try (rewrite pages_write_slot; exact H0).
      + destruct (N.eq_dec q p) as [->|Hne]; [apply lookup_write_page_same|].
        rewrite lookup_write_page_other by exact Hne. exact H0.
      + destruct (N.eq_dec q p) as [->|Hne].
        * exfalso. apply (Hnt Torn); [left|]; reflexivity.
        * rewrite lookup_write_page_other by exact Hne. exact H0.
  Qed.

  Lemma run_page_written : forall l d0 p,
    (forall f, In (IoData p, f) l -> f <> Torn) ->
    In (IoData p, Applied) l ->
    lookup_page p (pages (runl l d0)) = Written t.
  Proof.
    induction l as [|[o f] l IH]; intros d0 p Hnt Hin; [destruct Hin|].
    rewrite run_cons. cbn [fst snd].
    assert (Hnt' : forall f', In (IoData p, f') l -> f' <> Torn)
      by (intros f' Hf'; apply Hnt; right; exact Hf').
    destruct Hin as [E|Hin].
    - inversion E; subst. apply run_page_kept; [exact Hnt'|]. cbn [apply_io]. apply lookup_write_page_same.
    - apply IH; assumption.
  Qed.

  (* --- the generic theorems --- *)
  Definition names_ok (l : list (io * fate)) : Prop := forall p f, In (IoData p, f) l -> In p written.
  Definition data_ok (l : list (io * fate)) : Prop :=
    (forall p f, In (IoData p, f) l -> f <> Torn) /\ (forall p, In p written -> In (IoData p, Applied) l).

  Lemma generic_pre l :
    names_ok l -> intact (orig_cur d) (runl l d) cur.
  Proof.
    intros Hn p Hp. unfold orig_cur. apply run_page_untouched.
    intros f Hf. apply (cs_cow _ _ _ _ _ HS p); [exact (Hn p f Hf)|exact Hp].
  Qed.

  Lemma generic_post_pages l :
    names_ok l -> data_ok l -> intact (orig_new d t written) (runl l d) newh.
  Proof.
    intros Hn [Hnt Hall] p Hp. unfold orig_new. destruct (memN p written) eqn:Em.
    - apply memN_In' in Em. apply run_page_written; [apply Hnt|apply Hall; exact Em].
    - apply run_page_untouched. intros f Hf.
      assert (Hw : In p written) by exact (Hn p f Hf).
      apply memN_In' in Hw. congruence.
  Qed.

  Theorem generic l :
    names_ok l -> (In (IoHeader, Applied) l -> data_ok l) ->
    pre_or_post d cur newh t written (runl l d).
  Proof.
    intros Hn Hd. pose proof (run_other_slot l d) as Ho.
    destruct (run_tgt_slot l d) as [H|[H|[H Hin]]].
    - left. split; [apply select_same; assumption|apply generic_pre; exact Hn].
    - left. split; [|apply generic_pre; exact Hn].
      apply select_torn; [exact H|]. rewrite Ho. apply other_slot_holds_cur.
    - right. split; [|apply generic_post_pages; auto].
      apply select_newh; [exact H|]. rewrite Ho. apply other_slot_holds_cur.
  Qed.

  Theorem generic_post l :
    names_ok l -> data_ok l ->
    (forall f, In (IoHeader, f) l -> f = Applied) -> In (IoHeader, Applied) l ->
    select (runl l d) = Some newh /\ intact (orig_new d t written) (runl l d) newh.
  Proof.
    intros Hn Hd Hall Hin. split; [|apply generic_post_pages; assumption].
    apply select_newh.
    - apply run_tgt_slot_applied; [exact Hall|right; exact Hin].
    - rewrite run_other_slot. apply other_slot_holds_cur.
  Qed.

  (* --- a fully applied prefix --- *)
  Lemma applied_prefix_ok order n pre post :
    commit_io_of order written = pre ++ IoHeader :: post ->
    NoHeader pre -> (forall p, In p written -> In (IoData p) pre) ->
    let l := applied (firstn n (commit_io_of order written)) in
    names_ok l /\ (In (IoHeader, Applied) l -> data_ok l).
  Proof.
    intros E Hnh Hall l. split.
    - intros p f Hin. apply applied_In in Hin. destruct Hin as [Hin _].
      apply firstn_In in Hin. eapply commit_io_names. exact Hin.
    - intros Hin. split.
      + intros p f Hf. apply applied_In in Hf. destruct Hf as [_ ->]. discriminate.
      + intros p Hp. unfold l in *. rewrite E in *.
        destruct (le_lt_dec n (List.length pre)) as [Hle|Hgt].
        * rewrite firstn_short in Hin by exact Hle. apply applied_In in Hin.
          destruct Hin as [Hin _]. apply firstn_In in Hin. contradiction.
        * rewrite firstn_long by lia. apply applied_In. split; [|reflexivity].
          apply in_or_app. left. apply Hall. exact Hp.
  Qed.

  (* ---------------- 1. process kill ---------------- *)
  Theorem C02_kill : forall order n,
    header_after_data false order = true ->
    pre_or_post d cur newh t written (run_prefix t newh tgt d (commit_io_of order written) n).
  Proof.
    intros order n H. rewrite run_prefix_run.
    destruct (hd_shape_of written order H) as (pre & post & E & Hnh & Hall & _).
    destruct (applied_prefix_ok order n pre post E Hnh Hall) as [Hn Hd].
    apply generic; assumption.
  Qed.

  (* ---------------- 5. a failing call ---------------- *)
  Theorem C11_disk : forall order k f,
    header_after_data false order = true -> no_data_after_header order = true ->
    pre_or_post d cur newh t written (fault_image t newh tgt d (commit_io_of order written) k f).
  Proof.
    intros order k f H Hnda. rewrite fault_image_run.
    destruct (hd_shape_of written order H) as (pre & post & E & Hnh & Hall & Hpost).
    specialize (Hpost Hnda).
    apply generic.
    - intros p f' Hin. apply in_app_or in Hin. destruct Hin as [Hin|Hin].
      + apply applied_In in Hin. destruct Hin as [Hin _]. apply firstn_In in Hin.
        eapply commit_io_names. exact Hin.
      + unfold fault_tail in Hin. destruct (nth_error _ k) eqn:En; [|destruct Hin].
        destruct Hin as [Hin|[]]. inversion Hin; subst. apply nth_error_In in En.
        eapply commit_io_names. exact En.
    - rewrite E. intros Hin.
      destruct (le_lt_dec (List.length pre) k) as [Hge|Hlt].
      + (* the whole of pre has been applied; the failing call is the header or in post *)
        assert (Htail : forall p f', ~ In (IoData p, f') (fault_tail (pre ++ IoHeader :: post) k f)).
        { intros p f' Hf. unfold fault_tail in Hf. rewrite nth_error_app2 in Hf by exact Hge.
          destruct (nth_error (IoHeader :: post) (k - List.length pre)) eqn:En; [|destruct Hf].
          destruct Hf as [Hf|[]]. inversion Hf; subst. apply nth_error_In in En.
          destruct En as [En|En]; [discriminate|exact (Hpost p En)]. }
        split.
        * intros p f' Hf. apply in_app_or in Hf. destruct Hf as [Hf|Hf].
          -- apply applied_In in Hf. destruct Hf as [_ ->]. discriminate.
          -- exfalso. exact (Htail p f' Hf).
        * intros p Hp. apply in_or_app. left. rewrite firstn_long by exact Hge.
          apply applied_In. split; [|reflexivity]. apply in_or_app. left. exact (Hall p Hp).
      + (* the failing call and everything before it lie in pre: no header at all *)
        exfalso. apply in_app_or in Hin. destruct Hin as [Hin|Hin].
        * rewrite firstn_short in Hin by lia. apply applied_In in Hin. destruct Hin as [Hin _].
          apply firstn_In in Hin. contradiction.
        * unfold fault_tail in Hin. rewrite nth_error_app1 in Hin by exact Hlt.
          destruct (nth_error pre k) eqn:En; [|destruct Hin].
          destruct Hin as [Hin|[]]. inversion Hin; subst. apply nth_error_In in En. contradiction.
  Qed.

  (* ---------------- 2. power loss ---------------- *)
  Theorem C02_power : forall order n fates,
    has_barrier order = true -> no_data_after_header order = true ->
    pre_or_post d cur newh t written (power_image t newh tgt d (commit_io_of order written) n fates).
  Proof.
    intros order n fates H Hnda. unfold power_image. rewrite run_power_run.
    destruct (bar_shape_of written order H) as (a1 & a2 & post & E & Hnh1 & Hnh2 & Hnd2 & Hall & Hpost).
    specialize (Hpost Hnda).
    set (synced := last_sync_before (commit_io_of order written) n 0 0).
    apply generic.
    - intros p f Hin. apply tag_In in Hin. apply firstn_In in Hin. eapply commit_io_names. exact Hin.
    - intros Hin.
      set (pre := a1 ++ IoSync :: a2).
      assert (E' : commit_io_of order written = pre ++ IoHeader :: post).
      { rewrite E. unfold pre. rewrite <- app_assoc. reflexivity. }
      assert (Hnhp : NoHeader pre).
      { unfold pre. intros Hx. apply in_app_or in Hx. destruct Hx as [Hx|[Hx|Hx]];
          [exact (Hnh1 Hx)|discriminate|exact (Hnh2 Hx)]. }
      destruct (le_lt_dec n (List.length pre)) as [Hle|Hgt].
      { exfalso. apply tag_In in Hin. rewrite E', firstn_short in Hin by exact Hle.
        apply firstn_In in Hin. contradiction. }
      assert (Hlen : List.length pre = List.length a1 + 1 + List.length a2).
      { unfold pre. rewrite app_length. cbn [List.length]. lia. }
      assert (Hsync : List.length a1 + 1 <= synced).
      { unfold synced. rewrite E.
        pose proof (lsb_after_sync a1 (a2 ++ IoHeader :: post) n 0 0). lia. }
      (* the issued calls: a1 (all before the completed sync), then calls that are not data writes *)
      assert (Efst : firstn n (commit_io_of order written) =
                     a1 ++ firstn (n - List.length a1) (IoSync :: a2 ++ IoHeader :: post)).
      { rewrite E. apply firstn_long. lia. }
      assert (Hrest : NoData (firstn (n - List.length a1) (IoSync :: a2 ++ IoHeader :: post))).
      { intros p Hp. apply firstn_In in Hp. destruct Hp as [Hp|Hp]; [discriminate|].
        apply in_app_or in Hp. destruct Hp as [Hp|[Hp|Hp]];
          [exact (Hnd2 p Hp)|discriminate|exact (Hpost p Hp)]. }
      rewrite Efst, tag_app, (tag_applied synced fates a1 0) by lia.
      split.
      + intros p f Hf. apply in_app_or in Hf. destruct Hf as [Hf|Hf].
        * apply applied_In in Hf. destruct Hf as [_ ->]. discriminate.
        * apply tag_In in Hf. exfalso. exact (Hrest p Hf).
      + intros p Hp. apply in_or_app. left. apply applied_In. split; [exact (Hall p Hp)|reflexivity].
  Qed.

  (* ---------------- 3. durability ---------------- *)
  Lemma full_applied_post order :
    has_barrier order = true ->
    let l := applied (commit_io_of order written) in
    select (runl l d) = Some newh /\ intact (orig_new d t written) (runl l d) newh.
  Proof.
    intros H l.
    destruct (bar_shape_of written order H) as (a1 & a2 & post & E & _ & _ & _ & Hall & _).
    assert (Hh : In (IoHeader, Applied) l).
    { apply applied_In. split; [|reflexivity]. rewrite E. apply in_or_app. right. right.
      apply in_or_app. right. left. reflexivity. }
    apply generic_post.
    - intros p f Hin. apply applied_In in Hin. destruct Hin as [Hin _]. eapply commit_io_names. exact Hin.
    - split.
      + intros p f Hf. apply applied_In in Hf. destruct Hf as [_ ->]. discriminate.
      + intros p Hp. apply applied_In. split; [|reflexivity]. rewrite E. apply in_or_app. left.
        exact (Hall p Hp).
    - intros f Hf. apply applied_In in Hf. apply Hf.
    - exact Hh.
  Qed.

  Theorem C02_durable_kill : forall order,
    has_barrier order = true ->
    let ios := commit_io_of order written in
    let img := run_prefix t newh tgt d ios (List.length ios) in
    select img = Some newh /\ intact (orig_new d t written) img newh.
  Proof.
    intros order H ios img. unfold img. rewrite run_prefix_run, firstn_all.
    apply full_applied_post. exact H.
  Qed.

  Theorem C02_durable : forall order,
    has_barrier order = true ->
    last (commit_io_of order written) IoHeader = IoSync ->
    let ios := commit_io_of order written in
    forall fates,
    let img := power_image t newh tgt d ios (List.length ios) fates in
    select img = Some newh /\ intact (orig_new d t written) img newh.
  Proof.
    intros order H Hlast ios fates img. unfold img, power_image.
    rewrite run_power_run, firstn_all.
    assert (Hne : ios <> []).
    { destruct (bar_shape_of written order H) as (a1 & a2 & post & E & _). unfold ios. rewrite E.
      destruct a1; discriminate. }
    pose proof (app_removelast_last IoHeader Hne) as Esplit. fold ios in Hlast. rewrite Hlast in Esplit.
    assert (Hs : List.length ios <= last_sync_before ios (List.length ios) 0 0).
    { rewrite Esplit at 1 2 3. rewrite app_length. cbn [List.length].
      pose proof (lsb_after_sync (removelast ios) [] (List.length (removelast ios) + 1) 0 0). lia. }
    rewrite tag_applied by lia.
    apply full_applied_post. exact H.
  Qed.

  (* ---------------- instances ---------------- *)
  Corollary C02_kill_current : forall n,
    pre_or_post d cur newh t written (run_prefix t newh tgt d (commit_io written) n).
  Proof. intros n. apply C02_kill. vm_compute. reflexivity. Qed.

  Corollary C11_disk_current : forall k f,
    pre_or_post d cur newh t written (fault_image t newh tgt d (commit_io written) k f).
  Proof. intros k f. apply C11_disk; vm_compute; reflexivity. Qed.

  Corollary C02_kill_repaired : forall n,
    pre_or_post d cur newh t written
      (run_prefix t newh tgt d (commit_io_of ["grow";"data";"sync";"header";"sync";"publish"]%string written) n).
  Proof. intros n. apply C02_kill. vm_compute. reflexivity. Qed.

  Corollary C11_disk_repaired : forall k f,
    pre_or_post d cur newh t written
      (fault_image t newh tgt d (commit_io_of ["grow";"data";"sync";"header";"sync";"publish"]%string written) k f).
  Proof. intros k f. apply C11_disk; vm_compute; reflexivity. Qed.

  Corollary C02_power_repaired : forall n fates,
    pre_or_post d cur newh t written
      (power_image t newh tgt d (commit_io_of ["grow";"data";"sync";"header";"sync";"publish"]%string written) n fates).
  Proof. intros n fates. apply C02_power; vm_compute; reflexivity. Qed.

  Corollary C02_durable_repaired : forall fates,
    let ios := commit_io_of ["grow";"data";"sync";"header";"sync";"publish"]%string written in
    let img := power_image t newh tgt d ios (List.length ios) fates in
    select img = Some newh /\ intact (orig_new d t written) img newh.
  Proof.
    intros fates. apply C02_durable; [vm_compute; reflexivity|].
    unfold commit_io_of. cbn [flat_map]. unfold step_io. cbn.
    change [IoSync; IoHeader; IoSync] with ([IoSync; IoHeader] ++ [IoSync]).
    rewrite app_assoc. apply last_last.
  Qed.

End Commit.

(* ------------------------------------------------------------------ *)
(* order facts                                                         *)
(* ------------------------------------------------------------------ *)
Lemma order_header_after_data : header_after_data false commit_order = true.
Proof. vm_compute. reflexivity. Qed.
Lemma order_no_data_after_header : no_data_after_header commit_order = true.
Proof. vm_compute. reflexivity. Qed.
Lemma pinned_has_no_barrier : has_barrier ["grow";"data";"header";"sync";"publish"]%string = false.
Proof. vm_compute. reflexivity. Qed.
Lemma repaired_has_barrier : has_barrier ["grow";"data";"sync";"header";"sync";"publish"]%string = true.
Proof. vm_compute. reflexivity. Qed.
Lemma repaired_header_after_data :
  header_after_data false ["grow";"data";"sync";"header";"sync";"publish"]%string = true.
Proof. vm_compute. reflexivity. Qed.
Lemma repaired_no_data_after_header :
  no_data_after_header ["grow";"data";"sync";"header";"sync";"publish"]%string = true.
Proof. vm_compute. reflexivity. Qed.

(* ------------------------------------------------------------------ *)
(* 6. non-vacuity, 4. refutation for the pinned order, and the         *)
(*    counterexamples for orders with a data step after the header     *)
(* ------------------------------------------------------------------ *)
Local Open Scope N_scope.

Definition ex_cur : header := mkHeader 1 [2; 3].
Definition ex_newh : header := mkHeader 2 [3; 4; 5].
Definition ex_d : disk := mkDisk [(2, Written 1); (3, Written 1)] (SValid ex_cur) SInvalid.
Definition ex_written : list N := [4; 5].

Example ex_setting : commit_setting ex_d ex_cur ex_newh 2 ex_written.
Proof.
  constructor.
  - reflexivity.
  - reflexivity.
  - reflexivity.
  - intros p Hp Hl. cbn in Hp, Hl.
    destruct Hp as [<-|[<-|[]]]; destruct Hl as [Hl|[Hl|[]]]; discriminate.
  - intros p Hp. cbn in Hp |- *.
    destruct Hp as [<-|[<-|[<-|[]]]]; [right|left|left]; auto.
  - repeat constructor; cbn; intuition discriminate.
Qed.

(* the same setting with the header pair the other way round (commit overwrites slot 0) *)
Definition ex_d' : disk := mkDisk [(2, Written 1); (3, Written 1)] (SValid (mkHeader 0 [2])) (SValid ex_cur).
Example ex_setting' : commit_setting ex_d' ex_cur ex_newh 2 ex_written.
Proof.
  constructor.
  - reflexivity.
  - reflexivity.
  - reflexivity.
  - intros p Hp Hl. cbn in Hp, Hl.
    destruct Hp as [<-|[<-|[]]]; destruct Hl as [Hl|[Hl|[]]]; discriminate.
  - intros p Hp. cbn in Hp |- *.
    destruct Hp as [<-|[<-|[<-|[]]]]; [right|left|left]; auto.
  - repeat constructor; cbn; intuition discriminate.
Qed.

Definition pinned_order : list string := ["grow";"data";"header";"sync";"publish"]%string.

(* first data write Lost, everything else Applied; power lost after 3 calls (before the sync) *)
Definition ex_fates (i : nat) : fate := match i with O => Lost | _ => Applied end.

Theorem C02_power_refuted :
  exists d cur newh t written n fates,
    commit_setting d cur newh t written /\
    let img := power_image t newh (negb (current_slot d)) d (commit_io_of pinned_order written) n fates in
    select img = Some newh /\ ~ intact (orig_new d t written) img newh /\
    ~ pre_or_post d cur newh t written img.
Proof.
  exists ex_d, ex_cur, ex_newh, 2, ex_written, 3%nat, ex_fates.
  split; [exact ex_setting|]. cbv zeta.
  assert (Hni : ~ intact (orig_new ex_d 2 ex_written)
                  (power_image 2 ex_newh (negb (current_slot ex_d)) ex_d
                     (commit_io_of pinned_order ex_written) 3 ex_fates) ex_newh).
  { intros H. specialize (H 4). vm_compute in H.
    assert (E : Garbage = Written 2) by (apply H; right; left; reflexivity). discriminate E. }
  split; [vm_compute; reflexivity|]. split; [exact Hni|].
  intros [[Hs _]|[_ Hi]]; [vm_compute in Hs; discriminate Hs|exact (Hni Hi)].
Qed.

Corollary C02_power_current_refuted :
  commit_order = pinned_order ->
  ~ (forall d cur newh t written, commit_setting d cur newh t written ->
       forall n fates, pre_or_post d cur newh t written
         (power_image t newh (negb (current_slot d)) d (commit_io written) n fates)).
Proof.
  intros E H.
  destruct C02_power_refuted as (d & cur & newh & t & written & n & fates & HS & _ & _ & Hn).
  apply Hn. unfold commit_io in H. rewrite E in H. apply H. exact HS.
Qed.

(* has_barrier alone does not give C02_power: a data step after the header step *)
Definition bad_power_order : list string := ["data";"sync";"header";"data"]%string.
Definition ex_fates2 (i : nat) : fate := match i with 4%nat => Torn | _ => Applied end.

Theorem C02_power_needs_no_data_after_header :
  has_barrier bad_power_order = true /\
  exists d cur newh t written n fates,
    commit_setting d cur newh t written /\
    ~ pre_or_post d cur newh t written
        (power_image t newh (negb (current_slot d)) d (commit_io_of bad_power_order written) n fates).
Proof.
  split; [vm_compute; reflexivity|].
  exists ex_d, ex_cur, ex_newh, 2, ex_written, 6%nat, ex_fates2.
  split; [exact ex_setting|].
  intros [[Hs _]|[_ Hi]]; [vm_compute in Hs; discriminate Hs|].
  specialize (Hi 4). vm_compute in Hi.
  assert (E : Garbage = Written 2) by (apply Hi; right; left; reflexivity). discriminate E.
Qed.

(* header_after_data alone does not give C11_disk: a data step after the header step *)
Definition bad_fault_order : list string := ["data";"header";"sync";"data"]%string.

Theorem C11_disk_needs_no_data_after_header :
  header_after_data false bad_fault_order = true /\
  exists d cur newh t written k f,
    commit_setting d cur newh t written /\
    ~ pre_or_post d cur newh t written
        (fault_image t newh (negb (current_slot d)) d (commit_io_of bad_fault_order written) k f).
Proof.
  split; [vm_compute; reflexivity|].
  exists ex_d, ex_cur, ex_newh, 2, ex_written, 4%nat, Torn.
  split; [exact ex_setting|].
  intros [[Hs _]|[_ Hi]]; [vm_compute in Hs; discriminate Hs|].
  specialize (Hi 4). vm_compute in Hi.
  assert (E : Garbage = Written 2) by (apply Hi; right; left; reflexivity). discriminate E.
Qed.

Print Assumptions C02_kill.
Print Assumptions C02_kill_current.
Print Assumptions C02_power.
Print Assumptions C02_power_repaired.
Print Assumptions C02_durable.
Print Assumptions C02_durable_kill.
Print Assumptions C02_power_refuted.
Print Assumptions C02_power_needs_no_data_after_header.
Print Assumptions C11_disk.
Print Assumptions C11_disk_needs_no_data_after_header.
Print Assumptions ex_setting.
