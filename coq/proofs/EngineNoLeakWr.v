(* Exact accounting of the allocator state through the writes of the spill ([xframe]): nothing vanishes -- a page
   that is free, pending or written stays free, pending or written; growth of the file is written. And the
   completeness facts of [write_node] and of the tail of [spill_node]. *)
From Coq Require Import List NArith Bool Arith Lia ZifyN ZifyNat ZifyBool Permutation.
From Coq.Strings Require Import Byte.
From Jamm Require Spec.
From Jamm Require Import Bytes BytesFacts Tree Cursor SearchFacts Engine EngineAbs EngineFacts EngineMergeFacts.
From Jamm Require Import EngineModifyFacts EngineSpillFacts EnginePathFacts EngineBridgeFacts EngineRebalanceFacts.
From Jamm Require FreelistFacts EngineAllocFacts EngineSpillWfFacts.
From Jamm Require Import EngineTxInvFacts EngineSpillBucketFacts EngineRefines.
From Jamm Require Import EngineOwnDefs EngineOwnWr.
Import ListNotations.
Import Coq.Strings.String.StringSyntax. Delimit Scope string_scope with string.
Local Open Scope list_scope. Local Open Scope nat_scope.
Set Warnings "-abstract-large-number".
Arguments N.add : simpl never. Arguments N.sub : simpl never. Arguments N.mul : simpl never.
Arguments N.div : simpl never. Arguments N.ltb : simpl never. Arguments N.leb : simpl never.
Arguments N.eqb : simpl never.

(* ====================================================================== *)
(** * 1. Accounted pages; exact frames *)

(* x lies in a page run written by the running transaction *)
Definition Wr (s : txs) (x : N) : Prop := exists q v, wr_get (wr s) q = Some v /\ In x (wrun (psz s) q v).

(* x is accounted for by the transaction state: free, pending or written *)
Definition Acc (s : txs) (x : N) : Prop := In x (free s) \/ In x (pend_all (pending s)) \/ Wr s x.

Record xframe (s s' : txs) : Prop := {
  xf_np : (np s <= np s')%N;
  xf_acc : forall x, Acc s x -> Acc s' x;
  xf_new : forall x, (np s <= x < np s')%N -> Acc s' x;
  xf_wr : forall q v, wr_get (wr s) q = Some v -> wr_get (wr s') q = Some v;
  xf_psz : psz s' = psz s;
  xf_freed : forall x, freed_in_tx s x = true -> freed_in_tx s' x = true }.

Lemma xframe_refl : forall s, xframe s s.
Proof. intros s. constructor; auto; [lia | intros x Hx; lia]. Qed.

Lemma xframe_trans : forall s1 s2 s3, xframe s1 s2 -> xframe s2 s3 -> xframe s1 s3.
Proof.
  intros s1 s2 s3 [A1 A2 A3 A4 A5 A6] [B1 B2 B3 B4 B5 B6]. constructor.
  - lia.
  - auto.
  - intros x Hx. destruct (N.lt_ge_cases x (np s2)) as [Hlt|Hge]; [apply B2, A3; lia | apply B3; lia].
  - auto.
  - congruence.
  - auto.
Qed.

(* a step that changes neither the free set, the high-water mark nor the write set, and only adds to the
   pending lists *)
Lemma xframe_frees : forall s s', free s' = free s -> np s' = np s -> wr s' = wr s -> psz s' = psz s ->
  (forall x, In x (pend_all (pending s)) -> In x (pend_all (pending s'))) ->
  (forall x, freed_in_tx s x = true -> freed_in_tx s' x = true) -> xframe s s'.
Proof.
  intros s s' E1 E2 E3 E4 Hp Hf. constructor.
  - lia.
  - intros x [H|[H|(q & v & H1 & H2)]]; [left; congruence | right; left; auto|].
    right; right. exists q, v. rewrite E3, E4. auto.
  - intros x Hx. lia.
  - intros q v H. now rewrite E3.
  - exact E4.
  - exact Hf.
Qed.

Lemma xframe_seqc : forall s s', same_but_seqc s s' -> xframe s s'.
Proof.
  intros s s' (A1 & A2 & A3 & A4 & A5 & A6 & A7 & A8).
  apply xframe_frees; try congruence.
  intros x Hx. unfold freed_in_tx in *. rewrite A2, A3. exact Hx.
Qed.

Lemma xframe_free_pages : forall s p n, xframe s (free_pages s p n).
Proof.
  intros s p n. destruct (free_pages_fields s p n) as (F1 & F2 & F3 & F4 & F5 & _).
  apply xframe_frees; auto.
  - intros x Hx. apply EngineAllocFacts.engine_free_pend_all. now left.
  - intros x Hx. apply free_pages_freed. now left.
Qed.

Lemma xframe_free_node_page : forall s n, xframe s (free_node_page s n).
Proof.
  intros s n. unfold free_node_page. destruct (n_page n =? 0)%N; [apply xframe_refl | apply xframe_free_pages].
Qed.

(* ====================================================================== *)
(** * 2. [tx_allocate] and [write_node] *)

Lemma alloc_exact : forall live s b p n s', fresh_inv live s -> (0 < b)%N -> tx_allocate s b = (p, n, s') ->
  (forall x, In x (free s) -> In x (free s') \/ (p <= x < p + n)%N) /\
  (forall x, (np s <= x < np s')%N -> (p <= x < p + n)%N).
Proof.
  intros live s b p n s' [H1 H2 H3 H4 H5 H6] Hb Hal.
  destruct (EngineAllocFacts.engine_alloc_spec s b p n s' H3 H4 H1 Hb Hal)
    as (Hn & Hn0 & Etx & Epsz & Epd & Ewr & Eflw & Eseq & _ & Hcase).
  destruct Hcase as [(Enp & Hin & Hfree' & _) | (Ep & Enp & Efree & _)].
  - split.
    + intros x Hx. destruct (N.le_gt_cases p x) as [Hl|Hl]; [destruct (N.lt_ge_cases x (p + n)) as [Hu|Hu]|].
      * right. lia.
      * left. apply Hfree'. split; [exact Hx | lia].
      * left. apply Hfree'. split; [exact Hx | lia].
    + intros x Hx. lia.
  - split; [intros x Hx; left; now rewrite Efree | intros x Hx; lia].
Qed.

(* the node written by [write_node]: where, what, and the exact effect on the allocator state *)
Theorem write_node_cov : forall live s n n' s', fresh_inv live s -> (forall q, wr_get (wr s) q <> None -> In q live) ->
  write_node s n = (n', s') ->
  let p := n_page n' in let k := n_np n' in
  xframe s s' /\
  n' = set_page n p k /\ (2 <= p)%N /\ (0 < k)%N /\
  wr s' = wr_put (wr s) p (node_size n, n_data n) /\
  wrun (psz s') p (node_size n, n_data n) = nrun p k /\
  (forall x, freed_in_tx s' x = true <-> freed_in_tx s x = true \/ old_run n x) /\
  (forall q, wr_get (wr s) q <> None -> q <> p) /\
  fresh_inv (nrun p k ++ live) s' /\
  (forall q, wr_get (wr s') q <> None -> In q (nrun p k ++ live)).
Proof.
  intros live s n n' s' Hfi Hwl Hw.
  assert (Hex : (forall x, In x (free s) -> In x (free s') \/ (n_page n' <= x < n_page n' + n_np n')%N) /\
                (forall x, (np s <= x < np s')%N -> (n_page n' <= x < n_page n' + n_np n')%N)).
  { pose proof Hw as Hw0. unfold write_node in Hw0.
    destruct (tx_allocate (free_node_page s n) (node_size n)) as [[p0 k0] s2] eqn:Hal.
    inversion Hw0; subst n' s'.
    assert (Epage : n_page (set_page n p0 k0) = p0) by (destruct n; reflexivity).
    assert (Enp : n_np (set_page n p0 k0) = k0) by (destruct n; reflexivity).
    rewrite Epage, Enp. destruct (free_node_page_fields s n) as (F1 & F2 & _).
    destruct (alloc_exact live _ _ _ _ _ (free_node_page_fresh live s n Hfi) (node_size_pos n) Hal) as [X1 X2].
    cbn [np upd_wr free] in *. rewrite F1, F2 in *. split; [exact X1 | exact X2]. }
  pose proof (write_node_spec _ _ _ _ _ Hfi Hw) as Hs. cbv zeta in Hs |- *.
  destruct Hs as (En & Ek & Hk0 & Hp2 & Hnl & Hfi' & Ewr & Etx & Epsz & _ & _ & Hnp & Hfr & Hfreed & _ & Epd).
  set (p := n_page n') in *. set (k := n_np n') in *.
  assert (Erun : wrun (psz s') p (node_size n, n_data n) = nrun p k).
  { rewrite Epsz, wrun_pages_for; [now rewrite <- Ek | rewrite <- Ek; exact Hk0]. }
  assert (Hnew : forall q, wr_get (wr s) q <> None -> q <> p).
  { intros q Hq ->. apply (Hnl p); [lia | now apply Hwl]. }
  assert (Hmono : forall q v, wr_get (wr s) q = Some v -> wr_get (wr s') q = Some v).
  { intros q v Hq. rewrite Ewr, wr_get_put. destruct (N.eqb_spec p q) as [E|E]; [|exact Hq].
    exfalso. apply (Hnew q); [congruence | now symmetry]. }
  destruct Hex as [X1 X2].
  assert (Hwnew : forall x, (p <= x < p + k)%N -> Wr s' x).
  { intros x Hx. exists p, (node_size n, n_data n). split; [rewrite Ewr, wr_get_put, N.eqb_refl; reflexivity|].
    rewrite Erun. now apply In_nrun. }
  split; [|repeat (split; [assumption|])].
  - constructor; [exact Hnp | | | exact Hmono | exact Epsz |].
    + intros x [H|[H|(q & v & H1 & H2)]].
      * destruct (X1 x H) as [A|A]; [now left | right; right; now apply Hwnew].
      * right; left. rewrite Epd. apply free_node_page_pend_all. now left.
      * right; right. exists q, v. rewrite Epsz. auto.
    + intros x Hx. right; right. apply Hwnew, X2, Hx.
    + intros x Hx. apply Hfreed. now left.
  - intros q Hq. rewrite Ewr, wr_get_put in Hq. destruct (N.eqb_spec p q) as [E|E].
    + subst q. apply in_or_app. left. apply In_nrun. lia.
    + apply in_or_app. right. now apply Hwl.
Qed.

(* ====================================================================== *)
(** * 3. The tail of [spill_node]: every page written is a page of the output, or the stale first copy *)

Lemma sibs_fold_cov : forall rest live l s0 sibs s',
  fresh_inv live s0 -> (forall q, wr_get (wr s0) q <> None -> In q live) ->
  fold_res spill_sib_step rest (l, s0) = Ok (sibs, s') ->
  xframe s0 s' /\ (forall x, freed_in_tx s' x = true -> freed_in_tx s0 x = true) /\
  exists new, sibs = l ++ new /\
    forall q, wr_get (wr s') q <> None -> wr_get (wr s0) q <> None \/ In q (map snd new).
Proof.
  induction rest as [|dd rest IH]; intros live l s0 sibs s' Hfi Hwl H; cbn [fold_res] in H.
  - inversion H; subst. split; [apply xframe_refl|]. split; [auto|]. exists []. rewrite app_nil_r. auto.
  - apply bind_ok_inv in H. destruct H as ([l1 s1] & Hst & H). unfold spill_sib_step in Hst.
    destruct (first_key dd) as [fk| |]; cbn [bind] in Hst; try discriminate.
    destruct (write_node s0 (Node 0 0 (Some fk) 0 dd [])) as [sn s2] eqn:Hwn. inversion Hst; subst l1 s1. clear Hst.
    pose proof (write_node_cov live s0 _ sn s2 Hfi Hwl Hwn) as Hc. cbv zeta in Hc.
    destruct Hc as (X1 & En & _ & _ & Ewr & _ & Hfreed & _ & Hfi2 & Hwl2).
    destruct (IH _ _ _ _ _ Hfi2 Hwl2 H) as (X2 & Hf2 & new & Es & Hnew).
    split; [eapply xframe_trans; eauto|]. split.
    + intros x Hx. apply Hf2 in Hx. apply Hfreed in Hx. destruct Hx as [Hx|[Hx _]]; [exact Hx|]. cbn [n_page] in Hx. now contradiction Hx.
    + exists ((fk, n_page sn) :: new). split; [rewrite Es, <- app_assoc; reflexivity|].
      intros q Hq. destruct (Hnew q Hq) as [A|A]; [|right; right; exact A].
      rewrite Ewr, wr_get_put in A. destruct (N.eqb_spec (n_page sn) q) as [E|E]; [right; left; exact E | now left].
Qed.

Theorem spill_tail_cov : forall live n d1 s1 orig fk p sibs s',
  fresh_inv live s1 -> (forall q, wr_get (wr s1) q <> None -> In q live) ->
  spill_tail n d1 s1 = Ok ((orig, (fk, p), sibs), s') ->
  xframe s1 s' /\
  (forall x, old_run n x -> freed_in_tx s' x = true) /\
  (forall q v x, wr_get (wr s') q = Some v -> In x (wrun (psz s') q v) ->
     wr_get (wr s1) q <> None \/ In q (p :: map snd sibs) \/ freed_in_tx s' x = true).
Proof.
  intros live n d1 s1 orig fk p sibs s' Hfi Hwl H. unfold spill_tail in H.
  destruct (split s1 d1) as [d0 rest].
  destruct (write_node s1 (set_kids (set_data n d0) [])) as [n1 s2] eqn:W1.
  pose proof (write_node_cov live s1 _ n1 s2 Hfi Hwl W1) as C1. cbv zeta in C1.
  destruct C1 as (X1 & En1 & Hp1 & Hk1 & Ewr1 & Erun1 & Hfreed1 & _ & Hfi2 & Hwl2).
  assert (Hold : forall x, old_run n x -> freed_in_tx s2 x = true).
  { intros x Hx. apply Hfreed1. right. destruct n; exact Hx. }
  destruct rest as [|r0 rest'].
  - cbn [fold_res bind] in H. destruct (first_key (n_data n1)) as [fk0| |]; cbn [bind] in H; try discriminate.
    inversion H; subst orig fk p sibs s'. clear H. split; [exact X1|]. split; [exact Hold|].
    intros q v x Hq Hx. rewrite Ewr1, wr_get_put in Hq. destruct (N.eqb_spec (n_page n1) q) as [E|E].
    + right; left. now left.
    + left. congruence.
  - destruct (write_node s2 n1) as [n2 s3] eqn:W2.
    pose proof (write_node_cov _ s2 _ n2 s3 Hfi2 Hwl2 W2) as C2. cbv zeta in C2.
    destruct C2 as (X2 & En2 & _ & Hk2 & Ewr2 & Erun2 & Hfreed2 & Hne2 & Hfi3 & Hwl3).
    apply bind_ok_inv in H. destruct H as ([sibs0 s4] & Hsf & H).
    destruct (first_key (n_data n2)) as [fk0| |]; cbn [bind] in H; try discriminate.
    inversion H; subst orig fk p sibs0 s4. clear H.
    destruct (sibs_fold_cov _ _ _ _ _ _ Hfi3 Hwl3 Hsf) as (X3 & Hf3 & new & Es & Hnew). cbn [app] in Es. subst new.
    pose proof (xframe_trans _ _ _ (xframe_trans _ _ _ X1 X2) X3) as X.
    split; [exact X|]. split.
    { intros x Hx. apply (xf_freed _ _ X3), (xf_freed _ _ X2), Hold, Hx. }
    intros q v x Hq Hx.
    assert (Hq' : wr_get (wr s') q <> None) by congruence.
    destruct (Hnew q Hq') as [A|A]; [|right; left; right; exact A].
    rewrite Ewr2, wr_get_put in A. destruct (N.eqb_spec (n_page n2) q) as [E|E]; [right; left; now left|].
    rewrite Ewr1, wr_get_put in A. destruct (N.eqb_spec (n_page n1) q) as [E1|E1]; [|now left].
    (* the stale first copy: its whole run was handed back by the second write *)
    right; right. subst q.
    assert (Hv : wr_get (wr s2) (n_page n1) = Some (node_size (set_kids (set_data n d0) []), n_data (set_kids (set_data n d0) []))).
    { rewrite Ewr1, wr_get_put, N.eqb_refl. reflexivity. }
    pose proof (xf_wr _ _ X3 _ _ (xf_wr _ _ X2 _ _ Hv)) as Hv'. rewrite Hv' in Hq. inversion Hq; subst v.
    rewrite (xf_psz _ _ X3), (xf_psz _ _ X2), Erun1 in Hx. apply In_nrun in Hx.
    apply (xf_freed _ _ X3). apply Hfreed2. right. split; [lia | exact Hx].
Qed.

Print Assumptions write_node_cov.
Print Assumptions spill_tail_cov.
