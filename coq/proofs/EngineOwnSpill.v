(* Layer W2 of the allocation invariant: SPILL and COMMIT re-establish the allocation invariant.

   Plan (bottom-up):
   0. lists: [disj], [NoDup (nrun ..)], [runs]
   1. the committed disk restricted to [keep]; [spill_root_wfw]: [spill_root_wf] plus "every page of the new
      tree that is not a kept page is WRITTEN" (instantiating [spill_root_wf] with the restricted disk)
   2. footprints on later disks: [page_ents_transfer], [fpg_kept], [foot_split]
   3. [OwnI] at later states ([OwnI_later]); the extra link invariant [Lnk]; clean buckets
   4. the materialised pages of an overlay node ([mpages]); [pg_ok] and [bheads] through [b_modify] and the
      parent updates of [spill_bucket]; [old_in]
   5. [OwnW] / [RecOwn]: the induction over [spill_bucket]
   6. [commit_alloc] *)
From Coq Require Import List NArith Bool Arith Lia ZifyN ZifyNat ZifyBool Permutation.
From Coq.Strings Require Import Byte.
From Jamm Require Spec.
From Jamm Require Import Bytes BytesFacts Tree Cursor SearchFacts Engine EngineAbs EngineFacts EngineMergeFacts.
From Jamm Require Import EngineModifyFacts EngineSpillFacts EnginePathFacts EngineBridgeFacts EngineRebalanceFacts.
From Jamm Require FreelistFacts EngineAllocFacts EngineSpillWfFacts.
From Jamm Require Import EngineTxInvFacts EngineSpillBucketFacts EngineRefines.
From Jamm Require Import EngineOwnDefs.
Import ListNotations.
Import Coq.Strings.String.StringSyntax. Delimit Scope string_scope with string.
Local Open Scope list_scope. Local Open Scope nat_scope.
Set Warnings "-abstract-large-number".
Arguments N.add : simpl never. Arguments N.sub : simpl never. Arguments N.mul : simpl never.
Arguments N.div : simpl never. Arguments N.ltb : simpl never. Arguments N.leb : simpl never.
Arguments N.eqb : simpl never.

Notation disj := EngineSpillWfFacts.disj.
Notation swfh := EngineSpillWfFacts.swfh.
Notation upages := EngineSpillWfFacts.upages.

(* ====================================================================== *)
(** * 0. Lists *)

Lemma NoDup_nrun : forall p n, NoDup (nrun p n).
Proof.
  intros p n. unfold nrun. apply FinFun.Injective_map_NoDup; [|apply seq_NoDup].
  intros a b H. lia.
Qed.

Lemma NoDup_prun : forall d q, NoDup (prun d q).
Proof.
  intros d q. unfold prun. destruct (dget d q); [apply NoDup_nrun|]. constructor; [intros []|constructor].
Qed.

Lemma NoDup_wrun : forall P q v, NoDup (wrun P q v).
Proof. intros. unfold wrun. apply NoDup_nrun. Qed.

Lemma In_wrun_self : forall P q v, In q (wrun P q v).
Proof. intros. unfold wrun. apply In_nrun. lia. Qed.

(* the runs of a list of heads without repetition whose runs do not overlap *)
Lemma NoDup_runs_intro : forall d ps, NoDup ps ->
  (forall x y, In x ps -> In y ps -> x <> y -> disj (prun d x) (prun d y)) -> NoDup (runs d ps).
Proof.
  intros d ps Hnd Hd. unfold runs. apply EngineSpillWfFacts.NoDup_flat_map_intro; [exact Hnd| |exact Hd].
  intros x _. apply NoDup_prun.
Qed.

Lemma NoDup_runs_heads : forall d ps, NoDup (runs d ps) -> NoDup ps.
Proof.
  intros d. induction ps as [|a ps IH]; intros H; [constructor|]. unfold runs in H. cbn [flat_map] in H.
  apply EngineSpillWfFacts.NoDup_app_iff in H. destruct H as (_ & H2 & H3). constructor; [|now apply IH].
  intros Ha. apply (H3 a (In_prun_self d a)). apply in_flat_map. exists a. split; [exact Ha | apply In_prun_self].
Qed.

Lemma NoDup_runs_disj : forall d ps x y, NoDup (runs d ps) -> In x ps -> In y ps -> x <> y ->
  disj (prun d x) (prun d y).
Proof. intros d ps x y H. unfold runs in H. now apply EngineSpillWfFacts.NoDup_flat_map_disj. Qed.

Lemma runs_incl : forall d ps qs, incl ps qs -> incl (runs d ps) (runs d qs).
Proof.
  intros d ps qs H x Hx. apply In_runs in Hx. destruct Hx as (q & Hq & Hx). apply In_runs. exists q. auto.
Qed.

Lemma disj_sym : forall {A} (a b : list A), disj a b -> disj b a.
Proof. intros A a b H x Hb Ha. exact (H x Ha Hb). Qed.

(* ====================================================================== *)
(** * 1. The restricted disk; the pages of the new tree are written or kept *)

Definition restrict (keep : list N) (d : disk) : disk := filter (fun x => memb (fst x) keep) d.

Lemma dget_restrict : forall keep d x,
  dget (restrict keep d) x = if memb x keep then dget d x else None.
Proof.
  intros keep d x. unfold dget, restrict. induction d as [|[p a] d IH]; cbn [filter find fst].
  - destruct (memb x keep); reflexivity.
  - destruct (memb p keep) eqn:Em; cbn [find fst].
    + destruct (N.eqb_spec p x) as [E|E]; [subst p; rewrite Em; reflexivity | exact IH].
    + destruct (N.eqb_spec p x) as [E|E]; [subst p; rewrite Em in *; exact IH | exact IH].
Qed.

Lemma dget_restrict_keep : forall keep d x, In x keep -> dget (restrict keep d) x = dget d x.
Proof. intros keep d x H. rewrite dget_restrict. apply memb_In in H. now rewrite H. Qed.

(* a later disk built on the restricted disk: a present page is written or kept, and the full disk agrees *)
Lemma dget_apply_restrict : forall w P keep d x a,
  dget (apply_wr w P (restrict keep d)) x = Some a ->
  dget (apply_wr w P d) x = Some a /\ (wr_get w x <> None \/ In x keep).
Proof.
  intros w P keep d x a H. rewrite dget_apply_wr in *. destruct (wr_get w x) as [v|] eqn:Ew.
  - split; [exact H | left; discriminate].
  - rewrite dget_restrict in H. destruct (memb x keep) eqn:Em; [|discriminate].
    split; [exact H | right; now apply memb_In].
Qed.

(* every page below a strict page is present *)
Lemma PInv_subtree_present : forall h d lo hi ok q, PInv h d lo hi ok q ->
  forall x, in_subtree d q x -> exists a, dget d x = Some a.
Proof.
  induction h as [|h IH]; intros d lo hi ok q H x Hx; [destruct H|]. cbn [PInv] in H.
  destruct H as (a & Hg & _ & Hb). inversion Hx as [|? a' es e ? Hg' Hb' He Hsub]; subst; [eauto|].
  rewrite Hg in Hg'. inversion Hg'; subst a'. rewrite Hb' in Hb. destruct Hb as (_ & _ & _ & _ & HC).
  destruct (Forall2_In_left _ _ _ _ HC He) as (b & _ & HP). eapply IH; eauto.
Qed.

Section Transfer.
Variables (d d' : disk) (keep : list N).
Hypothesis Hkeep : forall x, In x keep -> dget d' x = dget d x.

Lemma stable_transfer : forall f q, stable f d keep q -> stable f d' keep q.
Proof.
  induction f as [|f IH]; intros q H; [destruct H|]. cbn [stable] in *. destruct H as [Hq H]. split; [exact Hq|].
  rewrite (Hkeep q Hq). destruct (dget d q) as [a|]; [|exact I]. destruct (ap_body a) as [l|es]; [exact I|].
  intros e He. apply IH, H, He.
Qed.

Lemma page_leaves_stable : forall f q, stable f d keep q -> page_leaves f d' q = page_leaves f d q.
Proof.
  induction f as [|f IH]; intros q H; [reflexivity|]. cbn [stable] in H. destruct H as [Hq H].
  cbn [page_leaves]. rewrite (Hkeep q Hq). destruct (dget d q) as [a|]; [|reflexivity].
  destruct (ap_body a) as [l|es]; [reflexivity|]. apply EngineMergeFacts.flat_map_ext_in. intros e He. apply IH, H, He.
Qed.

Lemma swfh_transfer : forall fuel h lo hi n, swfh fuel d keep h lo hi n ->
  swfh fuel d' keep h lo hi n /\ upages h d' n = upages h d n /\ view_leaves fuel d' n = view_leaves fuel d n.
Proof.
  intros fuel h lo hi n H.
  induction H as [h lo hi pg npg o sq l Hk | h lo hi pg npg o sq es kids Hk H1 H2 H3 H4 IH4 H5].
  - split; [now apply EngineSpillWfFacts.swfh_leaf|]. split; reflexivity.
  - split; [|split].
    + apply EngineSpillWfFacts.swfh_branch; try assumption.
      * intros l hh e kd Hi Hf. apply (IH4 l hh e kd Hi Hf).
      * intros l hh e Hi Hf. destruct (H5 l hh e Hi Hf) as [A B]. split; [now apply stable_transfer|].
        eapply EngineSpillWfFacts.PInv_apply_wr_keep; eauto.
    + cbn [upages]. apply EngineMergeFacts.flat_map_ext_in. intros e He.
      destruct (chb_In lo hi es e He) as (l & hh & Hi). destruct (find_kid (snd e) kids) as [kd|] eqn:Hf.
      * apply (IH4 l hh e kd Hi Hf).
      * destruct (H5 l hh e Hi Hf) as [A _]. f_equal. eapply EngineSpillWfFacts.ppages_keep; eauto.
    + rewrite !view_leaves_eq. cbn [n_data n_kids]. apply EngineMergeFacts.flat_map_ext_in. intros e He.
      destruct (chb_In lo hi es e He) as (l & hh & Hi). unfold child_view.
      destruct (find_kid (snd e) kids) as [kd|] eqn:Hf.
      * apply (IH4 l hh e kd Hi Hf).
      * destruct (H5 l hh e Hi Hf) as [A _]. now apply page_leaves_stable.
Qed.
End Transfer.

(* [spill_root_wf], and: a page of the new tree is a kept page, or a page of [good] that is WRITTEN *)
Theorem spill_root_wfw : forall fuel d keep live f n s p s' h,
  fresh_inv live s -> (forall x, In x keep -> In x live) ->
  swfh fuel d keep h None None n -> NoDup (upages h d n) ->
  spill_root f n s = Ok (p, s') ->
  exists alloc dead good lv,
    frame live s s' alloc dead /\ (forall q, In q good -> In q alloc) /\ In p good /\
    (forall x, old_run n x -> In x dead) /\
    (forall L, (forall x, In x L -> In x live) -> old_in L n ->
       forall x, In x dead -> (In x L \/ In x alloc) /\ ~ In x good) /\
    forall w' P, wr_agree good (wr s') w' -> (forall x, In x keep -> wr_get w' x = None) ->
      let d' := apply_wr w' P d in let H := (lv + h)%nat in
      PInv H d' None None None p /\ NoDup (p :: ppages H d' p) /\
      (forall x, In x (p :: ppages H d' p) -> (In x good /\ wr_get w' x <> None) \/ In x (upages h d n)) /\
      PageView d' H p (view_leaves fuel d n).
Proof.
  intros fuel d keep live f n s p s' h Hfi Hkl Hsw Hnd Hsp.
  set (d0 := restrict keep d).
  assert (Hk0 : forall x, In x keep -> dget d0 x = dget d x) by (intros x Hx; now apply dget_restrict_keep).
  destruct (swfh_transfer d d0 keep Hk0 fuel h None None n Hsw) as (Hsw0 & Eu & Ev).
  rewrite <- Eu in Hnd.
  destruct (EngineSpillWfFacts.spill_root_wf fuel d0 keep live f n s p s' h Hfi Hkl Hsw0 Hnd Hsp)
    as (alloc & dead & good & lv & F1 & F2 & F3 & _ & F5 & F6 & F7).
  exists alloc, dead, good, lv. repeat (split; [assumption|]).
  intros w' P Hag Hun. cbv zeta. destruct (F7 w' P Hag Hun) as (_ & R1 & R2 & R3 & _ & R5). cbv zeta in *.
  set (d0' := apply_wr w' P d0) in *. set (d' := apply_wr w' P d).
  assert (Hagree : forall x, in_subtree d0' p x -> dget d' x = dget d0' x).
  { intros x Hx. destruct (PInv_subtree_present _ _ _ _ _ _ R1 x Hx) as [a Ha]. rewrite Ha.
    exact (proj1 (dget_apply_restrict w' P keep d x a Ha)). }
  assert (Epp : ppages (lv + h) d' p = ppages (lv + h) d0' p) by (now apply ppages_transfer).
  split; [eapply PInv_transfer; eauto|]. rewrite Epp. split; [exact R2|]. split.
  - intros x Hx. destruct (R3 x Hx) as [Hg|Hu]; [|right; rewrite <- Eu; exact Hu]. left. split; [exact Hg|].
    assert (Hsub : in_subtree d0' p x).
    { destruct Hx as [<-|Hx]; [apply ist_self | eapply ppages_subtree; eauto]. }
    destruct (PInv_subtree_present _ _ _ _ _ _ R1 x Hsub) as [a Ha].
    destruct (proj2 (dget_apply_restrict w' P keep d x a Ha)) as [Hw|Hk]; [exact Hw|]. exfalso.
    apply (frame_new _ _ _ _ _ x Hfi F1 (F2 x Hg)). apply Hkl, Hk.
  - rewrite <- Ev. eapply PageView_transfer; eauto.
Qed.

(* the empty root: one written empty leaf page *)
Lemma spill_root_empty_w : forall live f n s p s', fresh_inv live s -> n_data n = Leaves [] ->
  spill_root f n s = Ok (p, s') ->
  exists np v, frame live s s' (nrun p np) (old_pages n) /\ (0 < np)%N /\ wr_get (wr s') p = Some v /\ snd v = Leaves [].
Proof.
  intros live f n s p s' Hfi Hn H. destruct f as [|f]; [discriminate|]. cbn [spill_root] in H.
  rewrite Hn in H. destruct (write_node s (set_kids n [])) as [n1 s1] eqn:Hw. cbn [bind] in H.
  inversion H; subst p s'. clear H.
  destruct (write_node_frame _ _ _ _ _ Hfi Hw) as (Hfr & _ & _ & Hk0 & _ & Hget).
  assert (Ed : n_data (set_kids n []) = Leaves []) by (destruct n; exact Hn). rewrite Ed in Hget.
  assert (Eo : old_pages (set_kids n []) = old_pages n) by (destruct n; reflexivity). rewrite Eo in Hfr.
  exists (n_np n1), (node_size (set_kids n []), Leaves []). auto.
Qed.

(* ====================================================================== *)
(** * 2. Footprints on later disks *)

Lemma page_ents_transfer : forall d d' f q, (forall x, in_subtree d q x -> dget d' x = dget d x) ->
  page_ents f d' q = page_ents f d q.
Proof.
  intros d d'. induction f as [|f IH]; intros q Hk; [reflexivity|]. cbn [page_ents].
  rewrite (Hk q (ist_self d q)). destruct (dget d q) as [a|] eqn:Hg; [|reflexivity].
  destruct (ap_body a) as [l|es] eqn:Eb; [reflexivity|]. apply EngineMergeFacts.flat_map_ext_in. intros e He.
  apply IH. intros x Hx. apply Hk. eapply ist_kid; eauto.
Qed.

Lemma page_ents_closed : forall d R, closedR d R -> forall f q k r nx, In q R ->
  In (LBk k r nx) (page_ents f d q) -> In r R.
Proof.
  intros d R HC. induction f as [|f IH]; intros q k r nx Hq H; [destruct H|]. cbn [page_ents] in H.
  destruct (dget d q) as [a|] eqn:Hg; [|destruct H]. specialize (HC q a Hq Hg).
  destruct (ap_body a) as [l|es]; [eapply HC; eauto|]. apply in_flat_map in H. destruct H as (e & He & H).
  eapply IH; [apply HC, He | exact H].
Qed.

Lemma page_ents_zero : forall d f, dget d 0%N = None -> page_ents f d 0%N = [].
Proof. intros d [|f] H; [reflexivity|]. cbn [page_ents]. now rewrite H. Qed.

Lemma runs_transfer : forall d d' ps, (forall x, In x ps -> dget d' x = dget d x) -> runs d' ps = runs d ps.
Proof.
  intros d d' ps H. unfold runs. apply EngineMergeFacts.flat_map_ext_in. intros q Hq. unfold prun. now rewrite (H q Hq).
Qed.

Section Kept.
Variables (d d' : disk) (keep : list N).
Hypothesis HC : closedR d keep.
Hypothesis Hag : forall x, In x keep -> dget d' x = dget d x.

Lemma fpg_incl_keep : forall n r, In r keep -> incl (fpg n d r) keep.
Proof.
  induction n as [|n IH]; intros r Hr x Hx; [destruct Hx|]. rewrite fpg_S in Hx. apply in_app_or in Hx.
  destruct Hx as [[<-|Hx]|Hx]; [exact Hr | eapply closed_ppages; eauto |].
  apply in_flat_map in Hx. destruct Hx as ([k v|k r' nx] & He & Hx); [destruct Hx|].
  eapply IH; [|exact Hx]. eapply page_ents_closed; eauto.
Qed.

Lemma fpg_kept : forall n r, In r keep -> fpg n d' r = fpg n d r.
Proof.
  induction n as [|n IH]; intros r Hr; [reflexivity|]. rewrite !fpg_S.
  assert (Hsub : forall x, in_subtree d r x -> dget d' x = dget d x).
  { intros x Hx. apply Hag. eapply closed_subtree; eauto. }
  rewrite (ppages_transfer d d' fuel0 r Hsub), (page_ents_transfer d d' fuel0 r Hsub). f_equal.
  apply EngineMergeFacts.flat_map_ext_in. intros [k v|k r' nx] He; [reflexivity|]. apply IH.
  eapply page_ents_closed; eauto.
Qed.

Lemma runs_fpg_kept : forall n r, In r keep -> runs d' (fpg n d' r) = runs d (fpg n d r).
Proof.
  intros n r Hr. rewrite (fpg_kept n r Hr). apply runs_transfer. intros x Hx. apply Hag. eapply fpg_incl_keep; eauto.
Qed.
End Kept.

(** ** the footprints of the entries of a committed bucket *)
Definition efoot (d : disk) (n : nat) (e : leafent) : list N :=
  match e with LBk _ r _ => foot d n r | LKv _ _ => [] end.

Lemma foot_zero : forall d n, foot d n 0%N = [].
Proof. intros. unfold foot. now rewrite N.eqb_refl. Qed.

Lemma region_zero : forall d, region d 0%N = [].
Proof. intros. unfold region. now rewrite N.eqb_refl. Qed.

Lemma sbk_nz : forall d n r, dget d 0%N = None -> sbk n d r -> r <> 0%N.
Proof.
  intros d [|n] r Hz H; [destruct H|]. cbn [sbk] in H. destruct H as (h & l & _ & HP & _).
  destruct h as [|h]; [destruct HP|]. cbn [PInv] in HP. destruct HP as (a & Hg & _). intros ->. congruence.
Qed.

Lemma sbk_entries : forall d n r0 k r nx, sbk (S n) d r0 -> In (LBk k r nx) (page_ents fuel0 d r0) -> sbk n d r.
Proof.
  intros d n r0 k r nx H He. cbn [sbk] in H. destruct H as (h & l & Hh & _ & _ & HV & HF).
  rewrite (PageView_page_ents _ _ _ _ HV fuel0 Hh) in He. rewrite Forall_forall in HF. exact (HF _ He).
Qed.

Lemma foot_split : forall d n r0, dget d 0%N = None -> sbk (S n) d r0 ->
  foot d (S n) r0 = region d r0 ++ flat_map (efoot d n) (page_ents fuel0 d r0).
Proof.
  intros d n r0 Hz H. apply foot_S; [eapply sbk_nz; eauto|].
  intros k r nx He. eapply sbk_nz; [exact Hz | eapply sbk_entries; eauto].
Qed.

Lemma own_entries : forall d n r0 (l : list leafent), dget d 0%N = None ->
  (r0 = 0%N \/ sbk (S n) d r0) -> NoDup (foot d (S n) r0) ->
  (forall k r nx, In (LBk k r nx) l -> r = 0%N \/ In (LBk k r nx) (page_ents fuel0 d r0)) ->
  NoDup (region d r0) /\ incl (region d r0) (foot d (S n) r0) /\
  (forall e, In e l -> incl (efoot d n e) (foot d (S n) r0) /\ NoDup (efoot d n e) /\ disj (region d r0) (efoot d n e)) /\
  (forall e1 e2, In e1 l -> In e2 l -> lkey e1 <> lkey e2 -> disj (efoot d n e1) (efoot d n e2)).
Proof.
  intros d n r0 l Hz Hr Hnd Hent.
  assert (Hnil : forall e, In e l -> (forall k r nx, e = LBk k r nx -> ~ In e (page_ents fuel0 d r0)) -> efoot d n e = []).
  { intros [k v|k r nx] He Hn; [reflexivity|]. cbn [efoot]. destruct (Hent k r nx He) as [->|Hin]; [apply foot_zero|].
    exfalso. eapply Hn; eauto. }
  destruct Hr as [->|Hs].
  - rewrite region_zero, foot_zero. split; [constructor|]. split; [intros x []|].
    assert (Hn : forall e, In e l -> efoot d n e = []).
    { intros e He. apply Hnil; [exact He|]. intros k r nx _. rewrite (page_ents_zero d fuel0 Hz). intros []. }
    split.
    + intros e He. rewrite (Hn e He). split; [intros x []|]. split; [constructor | intros x []].
    + intros e1 e2 H1 _ _. rewrite (Hn e1 H1). intros x [].
  - rewrite (foot_split d n r0 Hz Hs) in *. apply EngineSpillWfFacts.NoDup_app_iff in Hnd. destruct Hnd as (N1 & N2 & N3).
    split; [exact N1|]. split; [intros x Hx; apply in_or_app; now left|].
    assert (Hdec : forall e, In e l -> efoot d n e = [] \/ In e (page_ents fuel0 d r0)).
    { intros [k v|k r nx] He; [left; reflexivity|]. destruct (Hent k r nx He) as [->|Hin]; [left; apply foot_zero | now right]. }
    split.
    + intros e He. destruct (Hdec e He) as [E|Hin].
      * rewrite E. split; [intros x []|]. split; [constructor | intros x _ []].
      * split; [intros x Hx; apply in_or_app; right; apply in_flat_map; eauto|].
        split; [eapply EngineSpillWfFacts.NoDup_flat_map_elim; eauto|].
        intros x Hx1 Hx2. apply (N3 x Hx1). apply in_flat_map. eauto.
    + intros e1 e2 H1 H2 Hk. destruct (Hdec e1 H1) as [E|I1]; [rewrite E; intros x []|].
      destruct (Hdec e2 H2) as [E|I2]; [rewrite E; intros x _ []|].
      eapply EngineSpillWfFacts.NoDup_flat_map_disj; eauto. congruence.
Qed.

(* ====================================================================== *)
(** * 3. [OwnI] at later states; the link invariant; clean buckets *)

Lemma NoDup_map_inj : forall {A B} (f : A -> B) l x y, NoDup (map f l) -> In x l -> In y l -> f x = f y -> x = y.
Proof.
  intros A B f. induction l as [|a l IH]; intros x y H Hx Hy E; [destruct Hx|]. cbn [map] in H.
  inversion H as [|? ? Hn Hnd]; subst. destruct Hx as [->|Hx], Hy as [->|Hy].
  - reflexivity.
  - exfalso. apply Hn. rewrite E. now apply in_map.
  - exfalso. apply Hn. rewrite <- E. now apply in_map.
  - now apply IH.
Qed.

Lemma key_unique : forall (l : list leafent) e1 e2, sorted_keys (map lkey l) = true ->
  In e1 l -> In e2 l -> lkey e1 = lkey e2 -> e1 = e2.
Proof. intros l e1 e2 Hs. apply NoDup_map_inj. now apply sorted_keys_NoDup. Qed.

Lemma unfreed_later : forall s s' (F : list N),
  (forall x, In x F -> freed_in_tx s' x = true -> freed_in_tx s x = true) ->
  forall x, In x F -> freed_in_tx s x = false -> freed_in_tx s' x = false.
Proof.
  intros s s' F H x Hx Hf. destruct (freed_in_tx s' x) eqn:E; [|reflexivity]. rewrite (H x Hx E) in Hf. discriminate.
Qed.

(* the ownership invariant only speaks about the freed pages inside the footprint *)
Lemma OwnI_later : forall d, dget d 0%N = None -> forall n s s' b r0, OwnI d n s b r0 ->
  (forall x, In x (foot d n r0) -> freed_in_tx s' x = true -> freed_in_tx s x = true) -> OwnI d n s' b r0.
Proof.
  intros d Hz. induction n as [|n IH]; intros s s' b r0 H Hl; [destruct H|]. cbn [OwnI] in *.
  destruct H as (Hr & Hnd & Hpg & l & Hv & Hnb & Hb & He & Hu & Hs).
  destruct (own_entries d n r0 l Hz Hr Hnd He) as (_ & E2 & E3 & _).
  split; [exact Hr|]. split; [exact Hnd|]. split; [exact Hpg|]. exists l. split; [exact Hv|]. split; [exact Hnb|].
  split. { intros x Hx. destruct (Hb x Hx) as [B1 B2]. split; [exact B1|]. apply (unfreed_later s s' _ Hl); auto. }
  split; [exact He|]. split.
  - intros k r nx Hin Hsf x Hx. destruct (E3 _ Hin) as (I1 & _ & _). cbn [efoot] in I1.
    apply (unfreed_later s s' _ Hl); [apply I1, Hx | eapply Hu; eauto].
  - intros k sb Hin. destruct (Hs k sb Hin) as (r & nx & Hl1 & Ho). exists r, nx. split; [exact Hl1|].
    apply (IH s s' sb r Ho). intros x Hx. destruct (E3 _ Hl1) as (I1 & _ & _). cbn [efoot] in I1. apply Hl, I1, Hx.
Qed.

(* an untouched bucket is the copy of the committed bucket its entry names, and so is everything opened below *)
Fixpoint Lnk (d : disk) (n : nat) (b : bucket) (r0 : N) : Prop :=
  match n with
  | O => True
  | S n' =>
      (b_dirty b = false -> b_rootn b = None /\ b_root_page b = r0) /\
      forall k sb, In (k, sb) (b_subs b) -> forall l r nx, bucket_view d b l -> In (LBk k r nx) l -> Lnk d n' sb r
  end.

Lemma bown_unloaded : forall d b, b_rootn b = None -> b_root_page b <> 0%N -> bown d b = region d (b_root_page b).
Proof.
  intros d b E Hr. unfold bown, bheads, region. rewrite E. destruct (N.eqb_spec (b_root_page b) 0); [contradiction | reflexivity].
Qed.

Lemma clean_foot : forall d, dget d 0%N = None -> forall n j b r0 s, n <= j -> is_dirty j b = false ->
  OwnI d n s b r0 -> Lnk d n b r0 ->
  b_rootn b = None /\ b_root_page b = r0 /\ forall x, In x (foot d n r0) -> freed_in_tx s x = false.
Proof.
  intros d Hz. induction n as [|n IH]; intros j b r0 s Hj Hd HO HL; [destruct HO|].
  destruct j as [|j]; [lia|]. rewrite is_dirty_S in Hd. apply orb_false_iff in Hd. destruct Hd as [Hd1 Hd2].
  cbn [OwnI] in HO. destruct HO as (Hr & Hnd & _ & l & Hv & _ & Hb & _ & Hu & Hs).
  cbn [Lnk] in HL. destruct HL as [HL1 HL2]. destruct (HL1 Hd1) as [En Ep]. split; [exact En|]. split; [exact Ep|].
  destruct Hr as [->|Hsb]; [rewrite foot_zero; intros x []|].
  pose proof (sbk_nz d _ r0 Hz Hsb) as Hnz. rewrite (foot_split d n r0 Hz Hsb).
  assert (El : page_ents fuel0 d r0 = l).
  { destruct Hv as (h & Hh & HV). unfold BucketView in HV. rewrite En, Ep in HV. eapply PageView_page_ents; eauto. }
  assert (Hsorted : sorted_keys (map lkey l) = true).
  { cbn [sbk] in Hsb. destruct Hsb as (h & l' & Hh & HP & _ & HV & _).
    rewrite <- El, (PageView_page_ents _ _ _ _ HV fuel0 Hh). eapply wf_page_sorted; [eapply PInv_wf_page; eauto | exact HV]. }
  intros x Hx. apply in_app_or in Hx. destruct Hx as [Hx|Hx].
  - apply Hb. rewrite bown_unloaded; [rewrite Ep; exact Hx | exact En | now rewrite Ep].
  - apply in_flat_map in Hx. destruct Hx as ([k v|k r nx] & He & Hx); [destruct Hx|]. cbn [efoot] in Hx. rewrite El in He.
    destruct (sub_find k (b_subs b)) as [sb|] eqn:Hsf; [|eapply Hu; eauto].
    pose proof (sub_find_In _ _ _ Hsf) as Hin. destruct (Hs k sb Hin) as (r' & nx' & Hl' & Ho).
    assert (E : LBk k r' nx' = LBk k r nx) by (eapply key_unique; eauto). inversion E; subst r' nx'.
    assert (Hds : is_dirty j sb = false).
    { destruct (is_dirty j sb) eqn:E1; [|reflexivity].
      assert (existsb (fun y => is_dirty j (snd y)) (b_subs b) = true) by (apply existsb_exists; exists (k, sb); auto). congruence. }
    destruct (IH j sb r s ltac:(lia) Hds Ho (HL2 k sb Hin l r nx Hv He)) as (_ & _ & Hf). apply Hf, Hx.
Qed.

(* ====================================================================== *)
(** * 4. The materialised pages of the overlay; [pg_ok] and [bheads] through the parent updates *)

(* the pages the materialised nodes at and below n were read from *)
Fixpoint mpages (n : node) : list N :=
  match n with Node p _ _ _ _ ks => (if (p =? 0)%N then [] else [p]) ++ flat_map mpages ks end.

Lemma mpages_eq : forall n, mpages n = (if (n_page n =? 0)%N then [] else [n_page n]) ++ flat_map mpages (n_kids n).
Proof. intros [p np o s dd ks]. reflexivity. Qed.

(* the page runs the spill of n frees are the runs of its materialised pages on the committed disk *)
Lemma old_in_runs : forall d n, pg_ok d n -> forall L, incl (runs d (mpages n)) L -> old_in L n.
Proof.
  intros d n H. induction H as [n Hp _ IH]. intros L HL. apply old_in_node.
  - intros x [Hnz Hx]. destruct (Hp Hnz) as (a & Hg & Enp). apply HL. apply In_runs. exists (n_page n). split.
    + rewrite mpages_eq. apply in_or_app. left. destruct (N.eqb_spec (n_page n) 0); [contradiction | now left].
    + unfold prun. rewrite Hg, <- Enp. apply In_nrun. exact Hx.
  - intros k Hk. apply (IH k Hk). intros x Hx. apply HL. apply In_runs in Hx. destruct Hx as (q & Hq & Hx).
    apply In_runs. exists q. split; [|exact Hx]. rewrite mpages_eq. apply in_or_app. right. apply in_flat_map. eauto.
Qed.

Lemma pg_ok_node_of_page : forall d q a sq, dget d q = Some a -> pg_ok d (node_of_page q a sq).
Proof.
  intros d q a sq Hg. apply pg_ok_node; unfold node_of_page; cbn [n_page n_np n_kids].
  - intros _. eauto.
  - intros k [].
Qed.

Lemma modify_pg_ok : forall f d n o s n' s', pg_ok d n -> modify f d n o s = Ok (n', s') -> pg_ok d n'.
Proof.
  induction f as [|f IH]; intros d n o s n' s' Hp H; [discriminate|].
  inversion Hp as [n0 Hp1 Hp2]; subst n0. destruct n as [p np og sq [l|es] ks].
  - cbn [modify] in H. inversion H; subst. apply pg_ok_node; [exact Hp1 | exact Hp2].
  - rewrite modify_branch in H. destruct (index_of (Branches es) (lop_key o)) as [i ex].
    destruct (nthN es i) as [[sep q]|]; [|discriminate]. cbn [n_page n_np n_kids] in *.
    destruct (find_kid q ks) as [kd|] eqn:Ef.
    + apply bind_ok_inv in H. destruct H as ([kd' s1] & Em & H). cbn [fst snd] in H. inversion H; subst n' s'. clear H.
      destruct (EngineSpillFacts.find_kid_In _ _ _ Ef) as [Hin _].
      pose proof (IH _ _ _ _ _ _ (Hp2 kd Hin) Em) as Hk. apply pg_ok_node; [exact Hp1|]. cbn [n_kids].
      intros k Hkin. destruct (replace_kid_In _ _ _ Hkin) as [->|Hk']; [exact Hk | now apply Hp2].
    + destruct (dget d q) as [a|] eqn:Hg; [|discriminate].
      apply bind_ok_inv in H. destruct H as ([kd' s1] & Em & H). cbn [fst snd] in H. inversion H; subst n' s'. clear H.
      pose proof (IH _ _ _ _ _ _ (pg_ok_node_of_page d q a (seqc s) Hg) Em) as Hk. apply pg_ok_node; [exact Hp1|]. cbn [n_kids].
      intros k Hkin. apply in_app_or in Hkin. destruct Hkin as [Hk'|[<-|[]]]; [now apply Hp2 | exact Hk].
Qed.

(* the root page a bucket's tree was (or will be) read from *)
Definition root_pg (b : bucket) : N := match b_rootn b with Some n => n_page n | None => b_root_page b end.

Lemma b_modify_root : forall d keep h b o s b' s', SRoot d keep h b -> bpg_ok d b ->
  b_modify d b o s = Ok (b', s') ->
  exists n', b_rootn b' = Some n' /\ pg_ok d n' /\ n_page n' = root_pg b.
Proof.
  intros d keep h b o s b' s' HS Hp H. unfold b_modify in H.
  apply bind_ok_inv in H. destruct H as ([root s0] & Er & H).
  apply bind_ok_inv in H. destruct H as ([n' s1] & Em & H). inversion H; subst b' s'. clear H.
  exists n'. cbn [b_rootn]. split; [reflexivity|]. unfold SRoot, ensure_root, bpg_ok, root_pg in *.
  destruct (b_rootn b) as [n|].
  - inversion Er; subst root s0. destruct HS as [HI _]. split; [eapply modify_pg_ok; eauto|].
    exact (proj2 (modify_npages _ _ _ _ _ _ _ _ _ _ _ HI Em)).
  - destruct HS as [HP _]. destruct (dget d (b_root_page b)) as [a|] eqn:Hg; [|discriminate].
    cbn [next_seq] in Er. inversion Er; subst root s0.
    pose proof (node_of_page_Inv _ _ _ _ _ _ _ (seqc s) Hg HP) as I0.
    split; [eapply modify_pg_ok; [apply pg_ok_node_of_page; eauto | eauto]|].
    exact (proj2 (modify_npages _ _ _ _ _ _ _ _ _ _ _ I0 Em)).
Qed.

(* the head pages at the height of the invariant *)
Lemma bheads_bpg : forall d keep h b, SRoot d keep h b -> h <= fuel0 ->
  bheads d b = match b_rootn b with
               | Some n => (if (n_page n =? 0)%N then [] else [n_page n]) ++ bpg h d b
               | None => b_root_page b :: bpg h d b end.
Proof.
  intros d keep h b HS Hh. unfold bheads, bpg, SRoot in *. destruct (b_rootn b) as [n|].
  - destruct HS as [HI _]. now rewrite (npages_stable _ _ _ _ _ _ HI fuel0 Hh).
  - destruct HS as [HP _]. now rewrite (ppages_stable _ _ _ _ _ _ HP fuel0 Hh).
Qed.

Lemma meta_step_heads : forall d keep h bb l s0 nm r nx r0 nx0 b' s',
  SRoot d keep h bb -> BucketView d h bb l -> h <= fuel0 -> In (LBk nm r0 nx0) l ->
  bpg_ok d bb -> (b_rootn bb = None -> b_root_page bb <> 0%N) ->
  meta_step d (bb, s0) (nm, r, nx) = Ok (b', s') ->
  bheads d b' = bheads d bb /\ bpg_ok d b' /\ root_pg b' = root_pg bb.
Proof.
  intros d keep h bb l s0 nm r nx r0 nx0 b' s' HS HV Hh Hin Hp Hnz H.
  destruct (meta_step_replace d keep h bb l s0 nm r nx r0 nx0 b' s' HS HV Hh Hin H) as (A1 & _).
  pose proof (meta_step_bpg d keep h bb s0 (nm, r, nx) b' s' HS H) as Eb.
  assert (Hroot : exists n', b_rootn b' = Some n' /\ pg_ok d n' /\ n_page n' = root_pg bb).
  { unfold meta_step in H. apply bind_ok_inv in H. destruct H as (cur & _ & H). destruct cur as [e|].
    - destruct (is_kv e); [discriminate|]. eapply b_modify_root; eauto.
    - apply bind_ok_inv in H. destruct H as ([b2 s2] & Hm & H). inversion H; subst b' s'. cbn [b_rootn].
      eapply b_modify_root; eauto. }
  destruct Hroot as (n' & En & Hpn & Epg).
  rewrite (bheads_bpg d keep h b' A1 Hh), (bheads_bpg d keep h bb HS Hh), En, Eb, Epg.
  split; [|split; [unfold bpg_ok; rewrite En; exact Hpn | unfold root_pg at 1; rewrite En; exact Epg]].
  unfold root_pg in *. destruct (b_rootn bb) as [n|]; [reflexivity|].
  destruct (N.eqb_spec (b_root_page bb) 0) as [E|E]; [exfalso; now apply Hnz | reflexivity].
Qed.

Lemma meta_fold_heads : forall d keep h (ms : list meta) bb l s0 b1 s2,
  SRoot d keep h bb -> BucketView d h bb l -> h <= fuel0 -> NoDup (map m_name ms) ->
  (forall m, In m ms -> exists r0 nx0, In (LBk (m_name m) r0 nx0) l) ->
  bpg_ok d bb -> (b_rootn bb = None -> b_root_page bb <> 0%N) ->
  fold_res (meta_step d) ms (bb, s0) = Ok (b1, s2) ->
  bheads d b1 = bheads d bb /\ bpg_ok d b1 /\ root_pg b1 = root_pg bb.
Proof.
  intros d keep h. induction ms as [|[[nm r] nx] ms IH]; intros bb l s0 b1 s2 HS HV Hh Hnd Hall Hp Hnz H.
  - cbn [fold_res] in H. inversion H; subst. auto.
  - cbn [fold_res] in H. apply bind_ok_inv in H. destruct H as ([b' s'] & Est & H).
    cbn [map] in Hnd. inversion Hnd as [|? ? Hni Hnd']; subst.
    destruct (Hall _ (or_introl eq_refl)) as (r0 & nx0 & Hin). cbn [m_name fst] in Hin.
    destruct (meta_step_replace d keep h bb l s0 nm r nx r0 nx0 b' s' HS HV Hh Hin Est) as (A1 & A2 & [n' A3] & _).
    destruct (meta_step_heads d keep h bb l s0 nm r nx r0 nx0 b' s' HS HV Hh Hin Hp Hnz Est) as (C1 & C2 & C3).
    rewrite <- C1, <- C3. apply (IH b' _ s' b1 s2 A1 A2 Hh Hnd'); [|exact C2|congruence|exact H].
    intros m Hm. destruct (Hall m (or_intror Hm)) as (r1 & nx1 & Hin1). exists r1, nx1.
    apply (in_map (patch [(nm, r, nx)])) in Hin1. rewrite patch_other in Hin1; [exact Hin1|].
    cbn [lkey]. intros E. apply Hni. rewrite <- E. apply (in_map m_name _ _ Hm).
Qed.

(* the pages of the materialised kids are named pages, and they are not among the kept pages *)
Lemma kmpages_sep : forall h d z lo hi n, Inv h d z lo hi n -> EngineSpillWfFacts.shape_ok n -> NoDup (npages h d n) ->
  incl (flat_map mpages (n_kids n)) (npages h d n) /\ disj (flat_map mpages (n_kids n)) (upages h d n).
Proof.
  induction h as [|h IH]; intros d z lo hi n HI Hsh Hnd; [destruct HI|].
  destruct n as [p np o s [l|es] ks].
  { inversion Hsh; subst. cbn [n_kids flat_map]. split; [intros x []| intros x []]. }
  inversion Hsh as [|? ? ? ? ? ? Hshk]; subst. rewrite Inv_branch_eq in HI.
  destruct HI as (_ & _ & Hnds & _ & [Lnd LF] & HC). rewrite npages_branch_eq in *.
  apply EngineSpillWfFacts.NoDup_app_iff in Hnd. destruct Hnd as (Na & Nb & Nc). cbn [n_kids].
  rewrite Forall_forall in LF.
  assert (Hkid : forall kd, In kd ks -> exists key, In (key, n_page kd) es /\ find_kid (n_page kd) ks = Some kd /\
                   cpages h d ks (n_page kd) = npages h d kd /\
                   incl (flat_map mpages (n_kids kd)) (npages h d kd) /\
                   disj (flat_map mpages (n_kids kd)) (upages h d kd)).
  { intros kd Hkd. destruct (LF kd Hkd) as (key & Hin & _). exists key. split; [exact Hin|].
    pose proof (find_kid_NoDup _ _ Lnd Hkd) as Hf. split; [exact Hf|].
    assert (Ec : cpages h d ks (n_page kd) = npages h d kd) by (unfold cpages; now rewrite Hf). split; [exact Ec|].
    destruct (Forall2_In_left _ _ _ _ HC Hin) as (b & _ & Hc). unfold CInv in Hc. cbn [snd] in Hc. rewrite Hf in Hc.
    apply (IH d false (fst b) (snd b) kd Hc (Hshk kd Hkd)). rewrite <- Ec.
    apply (EngineSpillWfFacts.NoDup_flat_map_elim (fun e => cpages h d ks (snd e)) es (key, n_page kd) Nb Hin). }
  assert (Hloc : forall kd x, In kd ks -> In x (mpages kd) -> x = n_page kd \/ In x (npages h d kd)).
  { intros kd x Hkd Hx. rewrite mpages_eq in Hx. apply in_app_or in Hx. destruct Hx as [Hx|Hx].
    - destruct (n_page kd =? 0)%N; [destruct Hx|]. destruct Hx as [<-|[]]. now left.
    - right. destruct (Hkid kd Hkd) as (_ & _ & _ & _ & I1 & _). apply I1, Hx. }
  split.
  - intros x Hx. apply in_flat_map in Hx. destruct Hx as (kd & Hkd & Hx). destruct (Hkid kd Hkd) as (key & Hin & _ & Ec & _).
    apply in_or_app. destruct (Hloc kd x Hkd Hx) as [->|Hn].
    + left. apply in_map_iff. exists (key, n_page kd). auto.
    + right. apply in_flat_map. exists (key, n_page kd). split; [exact Hin|]. cbn [snd]. now rewrite Ec.
  - intros x Hx Hu. apply in_flat_map in Hx. destruct Hx as (kd & Hkd & Hx).
    destruct (Hkid kd Hkd) as (key & Hin & Hf & Ec & _ & I2).
    cbn [upages] in Hu. apply in_flat_map in Hu. destruct Hu as (e' & He' & Hu).
    assert (Hu' : (snd e' <> n_page kd /\ (x = snd e' \/ In x (cpages h d ks (snd e')))) \/
                  (snd e' = n_page kd /\ In x (upages h d kd))).
    { destruct (N.eq_dec (snd e') (n_page kd)) as [E|NE].
      - right. split; [exact E|]. rewrite E, Hf in Hu. exact Hu.
      - left. split; [exact NE|]. unfold cpages. destruct (find_kid (snd e') ks) as [kd'|].
        + right. now apply EngineSpillWfFacts.upages_incl_npages.
        + destruct Hu as [<-|Hu]; [now left | now right]. }
    assert (Hin_c : forall y, In y (cpages h d ks (snd e')) -> In y (flat_map (fun e => cpages h d ks (snd e)) es)).
    { intros y Hy. apply in_flat_map. eauto. }
    assert (Hin_k : forall y, In y (npages h d kd) -> In y (flat_map (fun e => cpages h d ks (snd e)) es)).
    { intros y Hy. apply in_flat_map. exists (key, n_page kd). split; [exact Hin|]. cbn [snd]. now rewrite Ec. }
    destruct (Hloc kd x Hkd Hx) as [Ex|Hn]; destruct Hu' as [[NE [Ey|Hy]]|[E Hy]].
    + apply NE. congruence.
    + apply (Nc x); [subst x; apply in_map_iff; exists (key, n_page kd); auto | now apply Hin_c].
    + apply (Nc x); [subst x; apply in_map_iff; exists (key, n_page kd); auto|].
      apply Hin_k. now apply EngineSpillWfFacts.upages_incl_npages.
    + apply (Nc x); [subst x; apply in_map; exact He' | now apply Hin_k].
    + assert (Hne : (key, n_page kd) <> e') by (intros <-; now apply NE).
      apply (EngineSpillWfFacts.NoDup_flat_map_disj (fun e => cpages h d ks (snd e)) es _ _ Nb Hin He' Hne x); cbn [snd]; [now rewrite Ec | exact Hy].
    + rewrite mpages_eq in Hx. apply in_app_or in Hx. destruct Hx as [Hx|Hx].
      * destruct (n_page kd =? 0)%N; [destruct Hx|]. destruct Hx as [<-|[]].
        apply (Nc (n_page kd)); [apply in_map_iff; exists (key, n_page kd); auto|].
        apply Hin_k. now apply EngineSpillWfFacts.upages_incl_npages.
      * exact (I2 x Hx Hy).
Qed.

(* ====================================================================== *)
(** * 5. The induction over [spill_bucket] *)

Lemma flat_map_map : forall {A B C} (f : B -> list C) (g : A -> B) l, flat_map f (map g l) = flat_map (fun x => f (g x)) l.
Proof. intros A B C f g. induction l as [|a l IH]; [reflexivity|]. cbn [map flat_map]. now rewrite IH. Qed.

Section Spill.
Variables (d : disk) (keep L : list N).
Hypothesis HC : closedR d keep.
Hypothesis Hz : dget d 0%N = None.
Hypothesis HkL : forall q x, In q keep -> In x (prun d q) -> In x L.

(* the facts of layer W1 *)
Hypothesis W1a : forall live f n s p s', fresh_inv live s -> wr_ok live s -> pend_ok0 s -> pend_ids_ok s -> old_in live n ->
  spill_root f n s = Ok (p, s') -> wr_ok live s' /\ pend_ok0 s' /\ pend_ids_ok s'.
Hypothesis W1b : forall live s p n, fresh_inv live s -> wr_ok live s -> pend_ok0 s -> pend_ids_ok s ->
  (forall x, In x (nrun p n) -> In x live) ->
  wr_ok live (free_pages s p n) /\ pend_ok0 (free_pages s p n) /\ pend_ids_ok (free_pages s p n).
Hypothesis W1c : forall live s bts p n s', fresh_inv live s -> wr_ok live s -> pend_ok0 s -> pend_ids_ok s -> (0 < bts)%N ->
  tx_allocate s bts = (p, n, s') ->
  wr_ok live s' /\ pend_ok0 s' /\ pend_ids_ok s' /\
  (forall q v x, wr_get (wr s') q = Some v -> In x (wrun (psz s') q v) -> ~ In x (nrun p n)).
Hypothesis W1d : forall live s s', same_but_seqc s s' -> wr_ok live s -> pend_ok0 s -> pend_ids_ok s ->
  wr_ok live s' /\ pend_ok0 s' /\ pend_ids_ok s'.

Lemma keep_L : forall x, In x keep -> In x L.
Proof. intros x Hx. apply (HkL x x Hx). apply In_prun_self. Qed.

(* x lies in the run written for a head page of A *)
Definition Wn (A : list N) (s : txs) (x : N) : Prop :=
  exists q v, In q A /\ wr_get (wr s) q = Some v /\ In x (wrun (psz s) q v).

Definition later_disk (s : txs) : disk := apply_wr (wr s) (psz s) d.

Lemma Wn_mono : forall A A' s x, incl A A' -> Wn A s x -> Wn A' s x.
Proof. intros A A' s x H (q & v & H1 & H2). exists q, v. split; [apply H, H1 | exact H2]. Qed.

Lemma Loc_disj : forall s X1 X2 (F1 F2 : list N) x, wr_ok L s -> disj X1 X2 -> disj F1 F2 -> incl F1 L -> incl F2 L ->
  (Wn X1 s x \/ In x F1) -> (Wn X2 s x \/ In x F2) -> False.
Proof.
  intros s X1 X2 F1 F2 x Hw HX HF H1 H2 [(q1 & v1 & A1 & B1 & C1)|A] [(q2 & v2 & A2 & B2 & C2)|B].
  - pose proof (wo_disj _ _ Hw q1 v1 q2 v2 x B1 B2 C1 C2) as E. subst q2. exact (HX q1 A1 A2).
  - destruct (wo_range _ _ Hw q1 v1 x B1 C1) as (_ & _ & Hn). apply Hn, H2, B.
  - destruct (wo_range _ _ Hw q2 v2 x B2 C2) as (_ & _ & Hn). apply Hn, H1, A.
  - exact (HF x A B).
Qed.

(* the tree below r on the later disk: no page twice; every page written for a head of A or an old page of F;
   none handed back *)
Definition TreeOK (n : nat) (A F : list N) (s : txs) (r : N) : Prop :=
  cpres n (later_disk s) r ->
  NoDup (runs (later_disk s) (fpg n (later_disk s) r)) /\
  forall x, In x (runs (later_disk s) (fpg n (later_disk s) r)) -> (Wn A s x \/ In x F) /\ freed_in_tx s x = false.

Lemma TreeOK_mono : forall n A A' (F F' : list N) s r, incl A A' -> incl F F' -> TreeOK n A F s r -> TreeOK n A' F' s r.
Proof.
  intros n A A' F F' s r HA HF H Hc. destruct (H Hc) as [H1 H2]. split; [exact H1|].
  intros x Hx. destruct (H2 x Hx) as [[Hw|Hf] Hu]; (split; [|exact Hu]); [left; exact (Wn_mono A A' s x HA Hw) | right; apply HF, Hf].
Qed.

(* in EVERY later state of the transaction that frees neither a page of Am nor a page of the old footprint *)
Definition OwnW (n : nat) (live Atot Am : list N) (s' : txs) (r r0 : N) : Prop :=
  forall s'' a2 d2, frame (Atot ++ live) s' s'' a2 d2 ->
    (forall x, In x d2 -> ~ In x Am /\ ~ In x (foot d n r0)) -> wr_ok L s'' ->
    TreeOK n Am (foot d n r0) s'' r.

Lemma OwnW_later : forall n live Atot Am s s1 a dd r r0,
  frame (Atot ++ live) s s1 a dd -> (forall x, In x dd -> ~ In x Am /\ ~ In x (foot d n r0)) ->
  OwnW n live Atot Am s r r0 -> OwnW n live (a ++ Atot) Am s1 r r0.
Proof.
  intros n live Atot Am s s1 a dd r r0 Hf Hdd HW s'' a2 d2 Hf2 Hd2 Hw. rewrite <- app_assoc in Hf2.
  apply (HW s'' (a2 ++ a) (dd ++ d2)); [eapply frame_trans; eauto | | exact Hw].
  intros x Hx. apply in_app_or in Hx. destruct Hx; auto.
Qed.

Lemma OwnW_seqc : forall n live Atot Am s s1 r r0, same_but_seqc s s1 -> OwnW n live Atot Am s r r0 -> OwnW n live Atot Am s1 r r0.
Proof. intros n live Atot Am s s1 r r0 Hs HW s'' a2 d2 Hf2. apply (HW s'' a2 d2). eapply frame_seqc_l; eauto. Qed.

(* assembling the tree below a new root p from its own pages and the trees of its entries *)
Lemma assemble : forall s n' p (l : list leafent) (pt : leafent -> leafent) Ah (Fh : list N)
                        (Ae : bytes -> list N) (Fe : leafent -> list N) A (F : list N),
  wr_ok L s ->
  page_ents fuel0 (later_disk s) p = map pt l ->
  (forall e, lkey (pt e) = lkey e) -> NoDup (map lkey l) ->
  NoDup (runs (later_disk s) (p :: ppages fuel0 (later_disk s) p)) ->
  (forall x, In x (runs (later_disk s) (p :: ppages fuel0 (later_disk s) p)) ->
     (Wn Ah s x \/ In x Fh) /\ freed_in_tx s x = false) ->
  (forall e k r nx, In e l -> pt e = LBk k r nx -> TreeOK n' (Ae k) (Fe e) s r) ->
  incl Fh L -> (forall e, In e l -> incl (Fe e) L) ->
  (forall e, In e l -> disj Fh (Fe e)) ->
  (forall e1 e2, In e1 l -> In e2 l -> lkey e1 <> lkey e2 -> disj (Fe e1) (Fe e2)) ->
  (forall k, disj Ah (Ae k)) -> (forall k1 k2, k1 <> k2 -> disj (Ae k1) (Ae k2)) ->
  incl Ah A -> (forall k, incl (Ae k) A) -> incl Fh F -> (forall e, In e l -> incl (Fe e) F) ->
  TreeOK (S n') A F s p.
Proof.
  intros s n' p l pt Ah Fh Ae Fe A F Hw Hpe Hkey Hndk Hhn Hhl Hent HFh HFe Hd1 Hd2 Hd3 Hd4 IA1 IA2 IF1 IF2 Hc.
  cbn [cpres] in Hc. destruct Hc as [_ Hall]. rewrite Hpe in Hall. rewrite Forall_forall in Hall.
  set (d2 := later_disk s) in *.
  set (G := fun e => runs d2 (match pt e with LBk _ r' _ => fpg n' d2 r' | LKv _ _ => [] end)).
  assert (HG : forall e, In e l -> NoDup (G e) /\
            forall x, In x (G e) -> (Wn (Ae (lkey e)) s x \/ In x (Fe e)) /\ freed_in_tx s x = false).
  { intros e He. unfold G. pose proof (Hkey e) as Ek. specialize (Hall (pt e) (in_map pt _ _ He)).
    destruct (pt e) as [k v|k r nx] eqn:Ept.
    - split; [apply NoDup_nil | intros x Hx; destruct Hx].
    - cbn [lkey] in Ek. subst k. exact (Hent e (lkey e) r nx He Ept Hall). }
  assert (Eq : runs d2 (fpg (S n') d2 p) = runs d2 (p :: ppages fuel0 d2 p) ++ flat_map G l).
  { rewrite fpg_S, runs_app, runs_flat_map, Hpe, flat_map_map; try reflexivity. }
  rewrite Eq. split.
  - apply EngineSpillWfFacts.NoDup_app_iff. split; [exact Hhn|]. split.
    + apply EngineSpillWfFacts.NoDup_flat_map_intro.
      * eapply NoDup_map_inv; eauto.
      * intros e He. apply (HG e He).
      * intros e1 e2 H1 H2 Hne x Hx1 Hx2.
        assert (Hk : lkey e1 <> lkey e2) by (intros E; apply Hne; eapply NoDup_map_inj; eauto).
        destruct (HG e1 H1) as [_ G1]. destruct (HG e2 H2) as [_ G2].
        apply (Loc_disj s (Ae (lkey e1)) (Ae (lkey e2)) (Fe e1) (Fe e2) x Hw); auto.
        -- apply (G1 x Hx1).
        -- apply (G2 x Hx2).
    + intros x Hx1 Hx2. apply in_flat_map in Hx2. destruct Hx2 as (e & He & Hx2). destruct (HG e He) as [_ G1].
      apply (Loc_disj s Ah (Ae (lkey e)) Fh (Fe e) x Hw); auto.
      * apply (Hhl x Hx1).
      * apply (G1 x Hx2).
  - intros x Hx. apply in_app_or in Hx. destruct Hx as [Hx|Hx].
    + destruct (Hhl x Hx) as [[Hwn|Hf] Hu]; (split; [|exact Hu]); [left; exact (Wn_mono Ah A s x IA1 Hwn) | right; auto].
    + apply in_flat_map in Hx. destruct Hx as (e & He & Hx). destruct (HG e He) as [_ G1].
      destruct (G1 x Hx) as [[Hwn|Hf] Hu]; (split; [|exact Hu]);
        [left; exact (Wn_mono _ A s x (IA2 _) Hwn) | right; exact (IF2 e He x Hf)].
Qed.

Lemma freed_pend : forall s x, freed_in_tx s x = true -> In x (pend_all (pending s)).
Proof. intros s x H. apply freed_in_tx_pend_at in H. eapply FreelistFacts.pend_at_sub; eauto. Qed.

(* a page handed out after s was not handed back before s *)
Lemma alloc_unfreed : forall live s s' alloc dead q, pend_ok0 s -> frame live s s' alloc dead -> In q alloc ->
  freed_in_tx s q = false.
Proof.
  intros live s s' alloc dead q Hp Hf Hq. destruct (freed_in_tx s q) eqn:E; [|reflexivity].
  destruct (Hp q (freed_pend s q E)) as [A B]. destruct (fr_src _ _ _ _ _ Hf q Hq) as [C|C]; [contradiction | lia].
Qed.

Lemma later_disk_kept : forall s x, unwritten keep s -> In x keep -> dget (later_disk s) x = dget d x.
Proof. intros s x Hu Hx. unfold later_disk. eapply unwritten_dget; eauto. Qed.

(* the tree of a committed bucket that is kept as it is *)
Lemma kept_tree : forall n s r, unwritten keep s -> In r keep -> r <> 0%N ->
  runs (later_disk s) (fpg n (later_disk s) r) = foot d n r.
Proof.
  intros n s r Hu Hr Hnz. rewrite (runs_fpg_kept d (later_disk s) keep HC (fun x => later_disk_kept s x Hu) n r Hr).
  unfold foot. destruct (N.eqb_spec r 0); [contradiction | reflexivity].
Qed.

(* the entries of the new root: spilled sub-buckets and kept committed buckets *)
Lemma entries_ok : forall n' live s1 A (ms : list meta) (Aof : bytes -> list N) (l : list leafent) s2 aL dL,
  sorted_keys (map lkey l) = true ->
  frame (A ++ live) s1 s2 aL dL -> wr_ok L s2 -> unwritten keep s2 ->
  (forall x, In x dL -> ~ In x A /\ forall e, In e l -> ~ In x (efoot d n' e)) ->
  Forall (fun m : meta => exists ro nxo, In (LBk (m_name m) ro nxo) l /\
            OwnW n' live A (Aof (m_name m)) s1 (snd (fst m)) ro) ms ->
  (forall k, incl (Aof k) A) ->
  (forall k r nx, In (LBk k r nx) l -> find (fun m : meta => beq (m_name m) k) ms = None ->
     In r keep /\ r <> 0%N /\ NoDup (foot d n' r) /\ forall x, In x (foot d n' r) -> freed_in_tx s1 x = false) ->
  forall e k r nx, In e l -> patch ms e = LBk k r nx -> TreeOK n' (Aof k) (efoot d n' e) s2 r.
Proof.
  intros n' live s1 A ms Aof l s2 aL dL Hsort Hfr Hw Hu HdL Hms HAof Hun e k r nx He Hp.
  destruct e as [k0 v0|k0 r0 nx0]; [discriminate|]. cbn [patch] in Hp. cbn [efoot].
  destruct (find (fun m : meta => beq (m_name m) k0) ms) as [[[k1 r1] nx1]|] eqn:Ef.
  - inversion Hp; subst k r1 nx1. apply find_some in Ef. destruct Ef as [Hin Hb]. apply beq_true_iff in Hb.
    cbn [m_name fst] in Hb. subst k1. rewrite Forall_forall in Hms. destruct (Hms _ Hin) as (ro & nxo & Hl & HW).
    cbn [m_name fst snd] in *.
    assert (E : LBk k0 ro nxo = LBk k0 r0 nx0) by (eapply key_unique; eauto). inversion E; subst ro nxo.
    apply (HW s2 aL dL Hfr); [|exact Hw]. intros x Hx. destruct (HdL x Hx) as [D1 D2]. split.
    + intros Hi. apply D1. eapply HAof; eauto.
    + apply (D2 _ He).
  - inversion Hp; subst k r nx. destruct (Hun k0 r0 nx0 He Ef) as (Hk & Hnz & Hnd & Hf). intros _.
    rewrite (kept_tree n' s2 r0 Hu Hk Hnz). split; [exact Hnd|]. intros x Hx. split; [now right|].
    destruct (freed_in_tx s2 x) eqn:E; [|reflexivity]. apply (fr_freed _ _ _ _ _ Hfr) in E. destruct E as [E|E].
    + rewrite (Hf x Hx) in E. discriminate.
    + exfalso. apply (proj2 (HdL x E) _ He). exact Hx.
Qed.

(* the pages of the new root's own tree: written pages of Ah that were not handed back, and kept pages *)
Lemma heads_ok : forall s (hs Ah Kp Fh : list N), wr_ok L s -> NoDup hs ->
  (forall q, In q hs -> (In q Ah /\ wr_get (wr s) q <> None /\ freed_in_tx s q = false) \/
                        (In q Kp /\ wr_get (wr s) q = None)) ->
  NoDup (runs d Kp) -> (forall x, In x (runs d Kp) -> In x Fh /\ freed_in_tx s x = false) -> incl Fh L ->
  NoDup (runs (later_disk s) hs) /\
  forall x, In x (runs (later_disk s) hs) -> (Wn Ah s x \/ In x Fh) /\ freed_in_tx s x = false.
Proof.
  intros s hs Ah Kp Fh Hw Hnd Hq HnK HK HF.
  assert (Hrun : forall q x, In q hs -> In x (prun (later_disk s) q) ->
            (exists v, In q Ah /\ wr_get (wr s) q = Some v /\ freed_in_tx s q = false /\ In x (wrun (psz s) q v)) \/
            (In q Kp /\ In x (prun d q))).
  { intros q x Hin Hx. destruct (Hq q Hin) as [(A1 & A2 & A3)|[B1 B2]].
    - left. destruct (wr_get (wr s) q) as [v|] eqn:E; [|congruence]. exists v. unfold later_disk in Hx.
      rewrite (prun_written _ _ _ _ _ E) in Hx. auto.
    - right. unfold later_disk in Hx. rewrite (prun_unwritten _ _ _ _ B2) in Hx. auto. }
  split.
  - apply NoDup_runs_intro; [exact Hnd|]. intros q1 q2 H1 H2 Hne x Hx1 Hx2.
    destruct (Hrun q1 x H1 Hx1) as [(v1 & A1 & B1 & _ & C1)|[K1 X1]];
      destruct (Hrun q2 x H2 Hx2) as [(v2 & A2 & B2 & _ & C2)|[K2 X2]].
    + apply Hne. exact (wo_disj _ _ Hw q1 v1 q2 v2 x B1 B2 C1 C2).
    + destruct (wo_range _ _ Hw q1 v1 x B1 C1) as (_ & _ & Hn). apply Hn, HF. apply (HK x). apply In_runs. eauto.
    + destruct (wo_range _ _ Hw q2 v2 x B2 C2) as (_ & _ & Hn). apply Hn, HF. apply (HK x). apply In_runs. eauto.
    + exact (NoDup_runs_disj d Kp q1 q2 HnK K1 K2 Hne x X1 X2).
  - intros x Hx. apply In_runs in Hx. destruct Hx as (q & Hin & Hx).
    destruct (Hrun q x Hin Hx) as [(v & A1 & B1 & U1 & C1)|[K1 X1]].
    + split; [left; exists q, v; auto|]. destruct (freed_in_tx s x) eqn:E; [|reflexivity].
      rewrite (wo_freed _ _ Hw q v x B1 C1 E) in U1. discriminate.
    + assert (Hr : In x (runs d Kp)) by (apply In_runs; eauto). destruct (HK x Hr) as [K2 K3]. auto.
Qed.

(* the situation after the opened sub-buckets of a dirty bucket (view l, committed root r0) have been spilled:
   state s1, allocated A, freed D; the spilled sub named k allocated Aof k *)
Record SubsDone (n' : nat) (live : list N) (s s1 : txs) (A D : list N) (ms : list meta) (Aof : bytes -> list N)
                (l : list leafent) (r0 : N) : Prop := {
  sd_sorted : sorted_keys (map lkey l) = true;
  sd_fi : fresh_inv live s;
  sd_Llive : forall x, In x L -> In x live;
  sd_unw : unwritten keep s;
  sd_frame : frame live s s1 A D;
  sd_wr : wr_ok L s1;
  sd_p0 : pend_ok0 s1;
  sd_pid : pend_ids_ok s1;
  sd_footL : incl (foot d (S n') r0) L;
  sd_regnd : NoDup (region d r0);
  sd_reg : incl (region d r0) (foot d (S n') r0);
  sd_ent : forall e, In e l -> incl (efoot d n' e) (foot d (S n') r0) /\ NoDup (efoot d n' e) /\
                               disj (region d r0) (efoot d n' e);
  sd_ent2 : forall e1 e2, In e1 l -> In e2 l -> lkey e1 <> lkey e2 -> disj (efoot d n' e1) (efoot d n' e2);
  sd_D : forall x, In x D -> In x A \/
           exists m ro nxo, In m ms /\ In (LBk (m_name m) ro nxo) l /\ In x (foot d n' ro);
  sd_Aof : forall k, incl (Aof k) A;
  sd_Aofd : forall k1 k2, k1 <> k2 -> disj (Aof k1) (Aof k2);
  sd_ms : Forall (fun m : meta => exists ro nxo, In (LBk (m_name m) ro nxo) l /\
                    OwnW n' live A (Aof (m_name m)) s1 (snd (fst m)) ro) ms;
  sd_un : forall k r nx, In (LBk k r nx) l -> find (fun m : meta => beq (m_name m) k) ms = None ->
            In r keep /\ r <> 0%N /\ forall x, In x (foot d n' r) -> freed_in_tx s x = false }.

Lemma keep_live : forall live, (forall x, In x L -> In x live) -> forall x, In x keep -> In x live.
Proof. intros live H x Hx. apply H, keep_L, Hx. Qed.

Section Done.
Variables (n' : nat) (live : list N) (s s1 : txs) (A D : list N) (ms : list meta) (Aof : bytes -> list N)
          (l : list leafent) (r0 : N).
Hypothesis SD : SubsDone n' live s s1 A D ms Aof l r0.

(* a page of L is not one of the pages handed out since s *)
Lemma sd_A_fresh : forall x, In x L -> ~ In x A.
Proof. intros x Hx Hi. apply (frame_new _ _ _ _ _ x (sd_fi _ _ _ _ _ _ _ _ _ _ SD) (sd_frame _ _ _ _ _ _ _ _ _ _ SD) Hi), (sd_Llive _ _ _ _ _ _ _ _ _ _ SD), Hx. Qed.

Lemma sd_region_unfreed : forall x, In x (region d r0) -> freed_in_tx s x = false -> freed_in_tx s1 x = false.
Proof.
  intros x Hx Hf. destruct (freed_in_tx s1 x) eqn:E; [|reflexivity].
  apply (fr_freed _ _ _ _ _ (sd_frame _ _ _ _ _ _ _ _ _ _ SD)) in E. destruct E as [E|E]; [congruence|]. exfalso.
  destruct (sd_D _ _ _ _ _ _ _ _ _ _ SD x E) as [Ha|(m & ro & nxo & _ & Hl & Hfo)].
  - apply (sd_A_fresh x); [|exact Ha]. apply (sd_footL _ _ _ _ _ _ _ _ _ _ SD), (sd_reg _ _ _ _ _ _ _ _ _ _ SD), Hx.
  - destruct (sd_ent _ _ _ _ _ _ _ _ _ _ SD _ Hl) as (_ & _ & Hdj). exact (Hdj x Hx Hfo).
Qed.

Lemma sd_unpatched : forall k r nx, In (LBk k r nx) l -> find (fun m : meta => beq (m_name m) k) ms = None ->
  In r keep /\ r <> 0%N /\ NoDup (foot d n' r) /\ forall x, In x (foot d n' r) -> freed_in_tx s1 x = false.
Proof.
  intros k r nx Hl Hf. destruct (sd_un _ _ _ _ _ _ _ _ _ _ SD k r nx Hl Hf) as (U1 & U2 & U3).
  destruct (sd_ent _ _ _ _ _ _ _ _ _ _ SD _ Hl) as (I1 & I2 & _). cbn [efoot] in I1, I2.
  split; [exact U1|]. split; [exact U2|]. split; [exact I2|]. intros x Hx.
  destruct (freed_in_tx s1 x) eqn:E; [|reflexivity].
  apply (fr_freed _ _ _ _ _ (sd_frame _ _ _ _ _ _ _ _ _ _ SD)) in E. destruct E as [E|E]; [rewrite (U3 x Hx) in E; discriminate|]. exfalso.
  destruct (sd_D _ _ _ _ _ _ _ _ _ _ SD x E) as [Ha|(m & ro & nxo & Hm & Hl2 & Hfo)].
  - apply (sd_A_fresh x); [|exact Ha]. apply (sd_footL _ _ _ _ _ _ _ _ _ _ SD), I1, Hx.
  - pose proof (find_none _ _ Hf m Hm) as Hb. cbn beta in Hb.
    assert (Hk : lkey (LBk k r nx) <> lkey (LBk (m_name m) ro nxo)).
    { cbn [lkey]. intros ->. rewrite beq_refl in Hb. discriminate. }
    exact (sd_ent2 _ _ _ _ _ _ _ _ _ _ SD _ _ Hl Hl2 Hk x Hx Hfo).
Qed.
End Done.

(* from the pages of the new root's own tree to the whole new tree *)
Lemma tail_assemble : forall n' live s s1 A D (ms : list meta) Aof l r0 s3 alloc dead p (Lo : list N),
  SubsDone n' live s s1 A D ms Aof l r0 ->
  frame (A ++ live) s1 s3 alloc dead -> incl Lo (region d r0) ->
  (forall x, In x dead -> In x Lo \/ In x alloc) ->
  (forall s2 a2 d2, frame (alloc ++ A ++ live) s3 s2 a2 d2 ->
     (forall x, In x d2 -> ~ In x (alloc ++ A) /\ ~ In x (foot d (S n') r0)) -> wr_ok L s2 -> unwritten keep s2 ->
     cpres (S n') (later_disk s2) p ->
     page_ents fuel0 (later_disk s2) p = map (patch ms) l /\
     NoDup (runs (later_disk s2) (p :: ppages fuel0 (later_disk s2) p)) /\
     (forall x, In x (runs (later_disk s2) (p :: ppages fuel0 (later_disk s2) p)) ->
        (Wn alloc s2 x \/ In x (region d r0)) /\ freed_in_tx s2 x = false)) ->
  OwnW (S n') live (alloc ++ A) (alloc ++ A) s3 p r0.
Proof.
  intros n' live s s1 A D ms Aof l r0 s3 alloc dead p Lo SD Hfr HLo Hdead Hheads s2 a2 d2 Hf2 Hd2 Hw2 Hc.
  rewrite <- app_assoc in Hf2.
  pose proof (sd_fi _ _ _ _ _ _ _ _ _ _ SD) as Hfi. pose proof (sd_frame _ _ _ _ _ _ _ _ _ _ SD) as Hfr0.
  pose proof (sd_Llive _ _ _ _ _ _ _ _ _ _ SD) as HLl. pose proof (keep_live live HLl) as Hkl.
  assert (Hk1 : forall x, In x keep -> In x (A ++ live)) by (intros x Hx; apply in_or_app; right; now apply Hkl).
  assert (Hk3 : forall x, In x keep -> In x (alloc ++ A ++ live)) by (intros x Hx; apply in_or_app; right; now apply Hk1).
  pose proof (frame_unwritten _ _ _ _ _ keep Hfi Hfr0 Hkl (sd_unw _ _ _ _ _ _ _ _ _ _ SD)) as Hu1.
  pose proof (frame_unwritten _ _ _ _ _ keep (fr_fresh _ _ _ _ _ Hfr0) Hfr Hk1 Hu1) as Hu3.
  pose proof (frame_unwritten _ _ _ _ _ keep (fr_fresh _ _ _ _ _ Hfr) Hf2 Hk3 Hu3) as Hu2.
  destruct (Hheads s2 a2 d2 Hf2 Hd2 Hw2 Hu2 Hc) as (Epe & Hhn & Hhl).
  pose proof (frame_trans _ _ _ _ _ _ _ _ Hfr Hf2) as Hf12.
  assert (HLf : forall x, In x (foot d (S n') r0) -> ~ In x alloc /\ ~ In x A).
  { intros x Hx. pose proof (sd_footL _ _ _ _ _ _ _ _ _ _ SD x Hx) as HxL. split.
    - intros Hi. apply (frame_new _ _ _ _ _ x (fr_fresh _ _ _ _ _ Hfr0) Hfr Hi). apply in_or_app. right. now apply HLl.
    - now apply (sd_A_fresh _ _ _ _ _ _ _ _ _ _ SD). }
  assert (HdL : forall x, In x (dead ++ d2) -> ~ In x A /\ forall e, In e l -> ~ In x (efoot d n' e)).
  { intros x Hx. apply in_app_or in Hx. destruct Hx as [Hx|Hx]; [destruct (Hdead x Hx) as [H1|H1]|].
    - pose proof (HLo x H1) as Hr. split; [apply (proj2 (HLf x (sd_reg _ _ _ _ _ _ _ _ _ _ SD x Hr)))|].
      intros e He Hi. destruct (sd_ent _ _ _ _ _ _ _ _ _ _ SD e He) as (_ & _ & Hdj). exact (Hdj x Hr Hi).
    - split; [intros Hi; apply (frame_new _ _ _ _ _ x (fr_fresh _ _ _ _ _ Hfr0) Hfr H1); apply in_or_app; now left|].
      intros e He Hi. destruct (sd_ent _ _ _ _ _ _ _ _ _ _ SD e He) as (I1 & _ & _). apply (proj1 (HLf x (I1 x Hi))), H1.
    - destruct (Hd2 x Hx) as [D1 D2]. split; [intros Hi; apply D1; apply in_or_app; now right|].
      intros e He Hi. destruct (sd_ent _ _ _ _ _ _ _ _ _ _ SD e He) as (I1 & _ & _). apply D2, I1, Hi. }
  refine (assemble s2 n' p l (patch ms) alloc (region d r0) Aof (efoot d n') (alloc ++ A) (foot d (S n') r0)
            Hw2 Epe (patch_key ms) _ Hhn Hhl _ _ _ _ _ _ _ _ _ _ _ Hc).
  - apply sorted_keys_NoDup, (sd_sorted _ _ _ _ _ _ _ _ _ _ SD).
  - intros e k r nx He Hp.
    exact (entries_ok n' live s1 A ms Aof l s2 _ _ (sd_sorted _ _ _ _ _ _ _ _ _ _ SD) Hf12 Hw2 Hu2 HdL
             (sd_ms _ _ _ _ _ _ _ _ _ _ SD) (sd_Aof _ _ _ _ _ _ _ _ _ _ SD)
             (sd_unpatched n' live s s1 A D ms Aof l r0 SD) e k r nx He Hp).
  - intros x Hx. apply (sd_footL _ _ _ _ _ _ _ _ _ _ SD), (sd_reg _ _ _ _ _ _ _ _ _ _ SD), Hx.
  - intros e He x Hx. destruct (sd_ent _ _ _ _ _ _ _ _ _ _ SD e He) as (I1 & _ & _). apply (sd_footL _ _ _ _ _ _ _ _ _ _ SD), I1, Hx.
  - intros e He. apply (sd_ent _ _ _ _ _ _ _ _ _ _ SD e He).
  - apply (sd_ent2 _ _ _ _ _ _ _ _ _ _ SD).
  - intros k x Hx1 Hx2. apply (frame_new _ _ _ _ _ x (fr_fresh _ _ _ _ _ Hfr0) Hfr Hx1). apply in_or_app. left.
    exact (sd_Aof _ _ _ _ _ _ _ _ _ _ SD k x Hx2).
  - apply (sd_Aofd _ _ _ _ _ _ _ _ _ _ SD).
  - intros x Hx. apply in_or_app. now left.
  - intros k x Hx. apply in_or_app. right. exact (sd_Aof _ _ _ _ _ _ _ _ _ _ SD k x Hx).
  - apply (sd_reg _ _ _ _ _ _ _ _ _ _ SD).
  - intros e He. apply (sd_ent _ _ _ _ _ _ _ _ _ _ SD e He).
Qed.

Lemma NoDup_runs_sub : forall ps qs, NoDup (runs d qs) -> NoDup ps -> incl ps qs -> NoDup (runs d ps).
Proof.
  intros ps qs Hq Hp Hi. apply NoDup_runs_intro; [exact Hp|]. intros x y Hx Hy Hne.
  apply (NoDup_runs_disj d qs x y Hq (Hi x Hx) (Hi y Hy) Hne).
Qed.

(* the root node of the bucket: its materialised pages against its kept pages *)
Lemma root_pages_sep : forall h lo hi rn, Inv h d false lo hi rn -> EngineSpillWfFacts.shape_ok rn ->
  NoDup ((if (n_page rn =? 0)%N then [] else [n_page rn]) ++ npages h d rn) ->
  incl (mpages rn) ((if (n_page rn =? 0)%N then [] else [n_page rn]) ++ npages h d rn) /\
  disj (mpages rn) (upages h d rn).
Proof.
  intros h lo hi rn HI Hsh Hnd. apply EngineSpillWfFacts.NoDup_app_iff in Hnd. destruct Hnd as (_ & Hnp & Hdj).
  destruct (kmpages_sep h d false lo hi rn HI Hsh Hnp) as [K1 K2]. rewrite mpages_eq. split.
  - intros x Hx. apply in_app_or in Hx. apply in_or_app. destruct Hx as [Hx|Hx]; [now left | right; now apply K1].
  - intros x Hx Hu. apply in_app_or in Hx. destruct Hx as [Hx|Hx].
    + apply (Hdj x Hx). now apply EngineSpillWfFacts.upages_incl_npages.
    + exact (K2 x Hx Hu).
Qed.

(* the dirty bucket with a materialised, non-empty root *)
Lemma tail_rdy : forall n' live s s1 A D (ms : list meta) Aof l r0 s2 h rn p s3,
  SubsDone n' live s s1 A D ms Aof l r0 -> same_but_seqc s1 s2 ->
  Inv h d false None None rn -> Rdy d keep rn -> NodeView d h rn (map (patch ms) l) -> h <= fuel0 ->
  incl (npages h d rn) keep -> pg_ok d rn ->
  NoDup (runs d ((if (n_page rn =? 0)%N then [] else [n_page rn]) ++ npages h d rn)) ->
  (forall x, In x (runs d ((if (n_page rn =? 0)%N then [] else [n_page rn]) ++ npages h d rn)) ->
     In x (region d r0) /\ freed_in_tx s x = false) ->
  spill_root fuel0 rn s2 = Ok (p, s3) ->
  exists alloc dead, frame live s s3 alloc dead /\
    (forall x, In x dead -> In x alloc \/ In x (foot d (S n') r0)) /\
    wr_ok L s3 /\ pend_ok0 s3 /\ pend_ids_ok s3 /\ OwnW (S n') live alloc alloc s3 p r0.
Proof.
  intros n' live s s1 A D ms Aof l r0 s2 h rn p s3 SD Hs12 HI HRd HV Hh Hinc Hpg HnH HH Hsp.
  set (Hd := (if (n_page rn =? 0)%N then [] else [n_page rn]) ++ npages h d rn) in *.
  pose proof (sd_fi _ _ _ _ _ _ _ _ _ _ SD) as Hfi. pose proof (sd_frame _ _ _ _ _ _ _ _ _ _ SD) as Hfr0.
  pose proof (sd_Llive _ _ _ _ _ _ _ _ _ _ SD) as HLl. pose proof (keep_live live HLl) as Hkl.
  assert (Hk1 : forall x, In x keep -> In x (A ++ live)) by (intros x Hx; apply in_or_app; right; now apply Hkl).
  assert (HL1 : forall x, In x L -> In x (A ++ live)) by (intros x Hx; apply in_or_app; right; now apply HLl).
  pose proof (frame_seqc_r _ _ _ _ _ _ Hfr0 Hs12) as Hfr02. pose proof (fr_fresh _ _ _ _ _ Hfr02) as Hfi2.
  pose proof (frame_unwritten _ _ _ _ _ keep Hfi Hfr02 Hkl (sd_unw _ _ _ _ _ _ _ _ _ _ SD)) as Hu2.
  destruct (W1d L s1 s2 Hs12 (sd_wr _ _ _ _ _ _ _ _ _ _ SD) (sd_p0 _ _ _ _ _ _ _ _ _ _ SD) (sd_pid _ _ _ _ _ _ _ _ _ _ SD))
    as (W2 & P2 & I2).
  pose proof (Rdy_shape_ok _ _ _ _ _ _ HI HRd) as Hsh.
  pose proof (NoDup_runs_heads d Hd HnH) as HndH.
  assert (Hnp : NoDup (npages h d rn)) by (apply (NoDup_app_r _ _ HndH)).
  assert (Hup : forall x, In x (upages h d rn) -> In x keep).
  { intros x Hx. apply Hinc. now apply EngineSpillWfFacts.upages_incl_npages. }
  pose proof (EngineSpillWfFacts.Inv_swfh h d keep h None None rn HI Hsh Hup (le_n h)) as Hsw.
  pose proof (EngineSpillWfFacts.NoDup_npages_upages h d rn Hnp) as Hund.
  destruct (spill_root_wfw h d keep (A ++ live) fuel0 rn s2 p s3 h Hfi2 Hk1 Hsw Hund Hsp)
    as (alloc & dead & good & lv & F1 & F2 & F3 & _ & F6 & Hfin).
  destruct (root_pages_sep h None None rn HI Hsh HndH) as [Hm_in Hm_dj]. fold Hd in Hm_in.
  set (Lo := runs d (mpages rn)).
  assert (HLo_H : incl Lo (runs d Hd)) by (apply runs_incl, Hm_in).
  assert (HLo_reg : incl Lo (region d r0)) by (intros x Hx; apply (HH x), HLo_H, Hx).
  assert (Hreg_L : incl (region d r0) L).
  { intros x Hx. apply (sd_footL _ _ _ _ _ _ _ _ _ _ SD), (sd_reg _ _ _ _ _ _ _ _ _ _ SD), Hx. }
  assert (HLo_L : incl Lo L) by (intros x Hx; apply Hreg_L, HLo_reg, Hx).
  pose proof (old_in_runs d rn Hpg Lo (incl_refl _)) as Hold.
  pose proof (old_in_runs d rn Hpg L HLo_L) as HoldL.
  assert (Hdead : forall x, In x dead -> (In x Lo \/ In x alloc) /\ ~ In x good).
  { apply (F6 Lo); [|exact Hold]. intros x Hx. apply HL1, HLo_L, Hx. }
  destruct (W1a L fuel0 rn s2 p s3 (fresh_inv_sub _ _ _ HL1 Hfi2) W2 P2 I2 HoldL Hsp) as (W3 & P3 & I3).
  pose proof (frame_seqc_l _ _ _ _ _ _ Hs12 F1) as F1'.
  exists (alloc ++ A), (D ++ dead). split; [eapply frame_trans; eauto|]. split.
  { intros x Hx. apply in_app_or in Hx. destruct Hx as [Hx|Hx].
    - destruct (sd_D _ _ _ _ _ _ _ _ _ _ SD x Hx) as [Ha|(m & ro & nxo & _ & Hl & Hfo)]; [left; apply in_or_app; now right|].
      right. destruct (sd_ent _ _ _ _ _ _ _ _ _ _ SD _ Hl) as (I1 & _ & _). apply I1, Hfo.
    - destruct (proj1 (Hdead x Hx)) as [H1|H1]; [right | left; apply in_or_app; now left].
      apply (sd_reg _ _ _ _ _ _ _ _ _ _ SD), HLo_reg, H1. }
  split; [exact W3|]. split; [exact P3|]. split; [exact I3|].
  apply (tail_assemble n' live s s1 A D ms Aof l r0 s3 alloc dead p Lo SD F1' HLo_reg (fun x Hx => proj1 (Hdead x Hx))).
  intros s4 a2 d2 Hf4 Hd2 Hw4 Hu4 Hc.
  destruct (frame_later_ok _ _ _ _ _ good keep s4 a2 d2 Hfi2 F1 F2 Hk1 Hu2 Hf4) as [G1 G2].
  destruct (Hfin (wr s4) (psz s4) G1 G2) as (R1 & R2 & R3 & R5). cbv zeta in *. fold (later_disk s4) in *.
  set (d4 := later_disk s4) in *. set (H := lv + h) in *.
  assert (Hp : pages_present fuel0 d4 p) by (cbn [cpres] in Hc; apply Hc).
  assert (Epp : ppages fuel0 d4 p = ppages H d4 p).
  { pose proof (EngineSpillWfFacts.PInv_present _ _ _ _ _ _ R1) as Hph.
    rewrite <- (ppages_present_stable fuel0 d4 p Hp (Nat.max H fuel0) ltac:(lia)).
    apply (ppages_present_stable H d4 p Hph). lia. }
  assert (Epe : page_ents fuel0 d4 p = map (patch ms) l).
  { rewrite (NodeView_view_leaves d h rn _ HV h (le_n h)) in R5.
    eapply PageView_det; [apply page_ents_PageView; exact Hp | exact R5]. }
  rewrite Epp. split; [exact Epe|].
  pose proof (frame_trans _ _ _ _ _ _ _ _ F1 Hf4) as F24. pose proof (frame_trans _ _ _ _ _ _ _ _ F1' Hf4) as F14.
  apply (heads_ok s4 (p :: ppages H d4 p) alloc (upages h d rn) (region d r0) Hw4 R2).
  - intros q Hq. destruct (R3 q Hq) as [[Hg Hwq]|Huq].
    + left. split; [apply F2, Hg|]. split; [exact Hwq|].
      destruct (freed_in_tx s4 q) eqn:E; [|reflexivity]. exfalso. apply (fr_freed _ _ _ _ _ F24) in E. destruct E as [E|E].
      * rewrite (alloc_unfreed _ _ _ _ _ q P2 F1 (F2 q Hg)) in E. discriminate.
      * apply in_app_or in E. destruct E as [E|E]; [exact (proj2 (Hdead q E) Hg)|].
        apply (proj1 (Hd2 q E)). apply in_or_app. left. apply F2, Hg.
    + right. split; [exact Huq | apply G2, Hup, Huq].
  - apply (NoDup_runs_sub _ Hd HnH Hund). intros x Hx. unfold Hd. apply in_or_app. right.
    now apply EngineSpillWfFacts.upages_incl_npages.
  - intros x Hx.
    assert (HxH : In x (runs d Hd)).
    { revert Hx. apply runs_incl. intros y Hy. unfold Hd. apply in_or_app. right. now apply EngineSpillWfFacts.upages_incl_npages. }
    destruct (HH x HxH) as [Hr Hf]. split; [exact Hr|].
    pose proof (sd_region_unfreed n' live s s1 A D ms Aof l r0 SD x Hr Hf) as Hf1.
    destruct (freed_in_tx s4 x) eqn:E; [|reflexivity]. exfalso. apply (fr_freed _ _ _ _ _ F14) in E.
    destruct E as [E|E]; [congruence|]. apply in_app_or in E. destruct E as [E|E].
    + destruct (proj1 (Hdead x E)) as [H1|H1].
      * apply In_runs in H1. destruct H1 as (q1 & Hq1 & Hx1). apply In_runs in Hx. destruct Hx as (q2 & Hq2 & Hx2).
        assert (Hne : q1 <> q2) by (intros ->; exact (Hm_dj q2 Hq1 Hq2)).
        refine (NoDup_runs_disj d Hd q1 q2 HnH (Hm_in q1 Hq1) _ Hne x Hx1 Hx2).
        unfold Hd. apply in_or_app. right. now apply EngineSpillWfFacts.upages_incl_npages.
      * apply (frame_new _ _ _ _ _ x Hfi2 F1 H1). apply HL1, Hreg_L, Hr.
    + apply (proj2 (Hd2 x E)). apply (sd_reg _ _ _ _ _ _ _ _ _ _ SD), Hr.
  - exact Hreg_L.
Qed.

Lemma spill_root_empty_kids : forall f n s, n_data n = Leaves [] -> spill_root f (set_kids n []) s = spill_root f n s.
Proof. intros [|f] [p np o sq dd ks] s E; [reflexivity|]. cbn [n_data] in E. subst dd. reflexivity. Qed.

(* the dirty bucket whose root is the empty leaf *)
Lemma tail_empty : forall n' live s s1 A D (ms : list meta) Aof l r0 s2 h rn p s3,
  SubsDone n' live s s1 A D ms Aof l r0 -> same_but_seqc s1 s2 ->
  n_data rn = Leaves [] -> NodeView d h rn (map (patch ms) l) -> pg_ok d rn ->
  (forall x, In x (runs d (if (n_page rn =? 0)%N then [] else [n_page rn])) -> In x (region d r0)) ->
  spill_root fuel0 rn s2 = Ok (p, s3) ->
  exists alloc dead, frame live s s3 alloc dead /\
    (forall x, In x dead -> In x alloc \/ In x (foot d (S n') r0)) /\
    wr_ok L s3 /\ pend_ok0 s3 /\ pend_ids_ok s3 /\ OwnW (S n') live alloc alloc s3 p r0.
Proof.
  intros n' live s s1 A D ms Aof l r0 s2 h rn p s3 SD Hs12 Hemp HV Hpg HH Hsp.
  pose proof (sd_fi _ _ _ _ _ _ _ _ _ _ SD) as Hfi. pose proof (sd_frame _ _ _ _ _ _ _ _ _ _ SD) as Hfr0.
  pose proof (sd_Llive _ _ _ _ _ _ _ _ _ _ SD) as HLl.
  assert (HL1 : forall x, In x L -> In x (A ++ live)) by (intros x Hx; apply in_or_app; right; now apply HLl).
  pose proof (frame_seqc_r _ _ _ _ _ _ Hfr0 Hs12) as Hfr02. pose proof (fr_fresh _ _ _ _ _ Hfr02) as Hfi2.
  destruct (W1d L s1 s2 Hs12 (sd_wr _ _ _ _ _ _ _ _ _ _ SD) (sd_p0 _ _ _ _ _ _ _ _ _ _ SD) (sd_pid _ _ _ _ _ _ _ _ _ _ SD))
    as (W2 & P2 & I2).
  assert (El : l = []).
  { pose proof (NodeView_empty_leaf _ _ _ _ HV Hemp) as E. destruct l; [reflexivity | discriminate]. }
  assert (Hreg_L : incl (region d r0) L).
  { intros x Hx. apply (sd_footL _ _ _ _ _ _ _ _ _ _ SD), (sd_reg _ _ _ _ _ _ _ _ _ _ SD), Hx. }
  assert (HLo_reg : incl (old_pages rn) (region d r0)).
  { intros x Hx. apply In_old_pages in Hx. destruct Hx as [Hnz Hx]. apply HH.
    inversion Hpg as [n0 Hp1 _]; subst n0. destruct (Hp1 Hnz) as (a & Hg & Enp).
    destruct (N.eqb_spec (n_page rn) 0); [contradiction|]. apply In_runs. exists (n_page rn). split; [now left|].
    unfold prun. rewrite Hg, <- Enp. now apply In_nrun. }
  assert (HoldL : old_in L (set_kids rn [])).
  { apply old_in_node; [|destruct rn; intros k []]. intros x Hx. apply Hreg_L, HLo_reg, In_old_pages.
    destruct rn; exact Hx. }
  rewrite <- (spill_root_empty_kids fuel0 rn s2 Hemp) in Hsp.
  destruct (W1a L fuel0 _ s2 p s3 (fresh_inv_sub _ _ _ HL1 Hfi2) W2 P2 I2 HoldL Hsp) as (W3 & P3 & I3).
  rewrite (spill_root_empty_kids fuel0 rn s2 Hemp) in Hsp.
  destruct (spill_root_empty_w (A ++ live) fuel0 rn s2 p s3 Hfi2 Hemp Hsp) as (np & v & F1 & Hnp & Hget & Hbody).
  pose proof (frame_seqc_l _ _ _ _ _ _ Hs12 F1) as F1'.
  assert (Hp_al : In p (nrun p np)) by (apply In_nrun; lia).
  exists (nrun p np ++ A), (D ++ old_pages rn). split; [eapply frame_trans; eauto|]. split.
  { intros x Hx. apply in_app_or in Hx. destruct Hx as [Hx|Hx].
    - destruct (sd_D _ _ _ _ _ _ _ _ _ _ SD x Hx) as [Ha|(m & ro & nxo & _ & Hl & Hfo)]; [left; apply in_or_app; now right|].
      right. destruct (sd_ent _ _ _ _ _ _ _ _ _ _ SD _ Hl) as (I1 & _ & _). apply I1, Hfo.
    - right. apply (sd_reg _ _ _ _ _ _ _ _ _ _ SD), HLo_reg, Hx. }
  split; [exact W3|]. split; [exact P3|]. split; [exact I3|].
  apply (tail_assemble n' live s s1 A D ms Aof l r0 s3 (nrun p np) (old_pages rn) p (old_pages rn) SD F1' HLo_reg
           (fun x Hx => or_introl Hx)).
  intros s4 a2 d2 Hf4 Hd2 Hw4 Hu4 Hc.
  assert (Hget4 : wr_get (wr s4) p = Some v).
  { rewrite (fr_wr _ _ _ _ _ Hf4); [exact Hget|]. intros Hi.
    apply (frame_new _ _ _ _ _ p (fr_fresh _ _ _ _ _ F1) Hf4 Hi). apply in_or_app. now left. }
  assert (Hg4 : dget (later_disk s4) p = Some (mk_apage (psz s4) v)) by (apply dget_apply_wr_some, Hget4).
  assert (Epp : ppages fuel0 (later_disk s4) p = []).
  { unfold fuel0. rewrite EngineSpillWfFacts.ppages_S, Hg4. cbn [mk_apage ap_body]. now rewrite Hbody. }
  assert (Epe : page_ents fuel0 (later_disk s4) p = map (patch ms) l).
  { rewrite El. unfold fuel0. eapply page_ents_leaf; [exact Hg4 | exact Hbody]. }
  split; [exact Epe|]. rewrite Epp.
  pose proof (frame_trans _ _ _ _ _ _ _ _ F1 Hf4) as F24.
  apply (heads_ok s4 [p] (nrun p np) [] (region d r0) Hw4).
  - constructor; [intros [] | constructor].
  - intros q [<-|[]]. left. split; [exact Hp_al|]. split; [congruence|].
    destruct (freed_in_tx s4 p) eqn:E; [|reflexivity]. exfalso. apply (fr_freed _ _ _ _ _ F24) in E. destruct E as [E|E].
    + rewrite (alloc_unfreed _ _ _ _ _ p P2 F1 Hp_al) in E. discriminate.
    + apply in_app_or in E. destruct E as [E|E].
      * apply (frame_new _ _ _ _ _ p Hfi2 F1 Hp_al). apply HL1, Hreg_L, HLo_reg, E.
      * apply (proj1 (Hd2 p E)). apply in_or_app. now left.
  - constructor.
  - intros x [].
  - exact Hreg_L.
Qed.

(* the dirty bucket whose (promoted) root was never loaded and that has no opened sub-bucket: nothing is written *)
Lemma tail_unloaded : forall n' live s s1 A D Aof l r0 h rp,
  SubsDone n' live s s1 A D [] Aof l r0 ->
  (forall x, in_subtree d rp x -> In x keep) -> PageView d h rp l -> h <= fuel0 ->
  NoDup (runs d (rp :: ppages fuel0 d rp)) ->
  (forall x, In x (runs d (rp :: ppages fuel0 d rp)) -> In x (region d r0) /\ freed_in_tx s x = false) ->
  OwnW (S n') live A A s1 rp r0.
Proof.
  intros n' live s s1 A D Aof l r0 h rp SD Hsub HV Hh HnH HH.
  pose proof (sd_frame _ _ _ _ _ _ _ _ _ _ SD) as Hfr0. pose proof (fr_fresh _ _ _ _ _ Hfr0) as Hfi1.
  assert (Hreg_L : incl (region d r0) L).
  { intros x Hx. apply (sd_footL _ _ _ _ _ _ _ _ _ _ SD), (sd_reg _ _ _ _ _ _ _ _ _ _ SD), Hx. }
  change A with ([] ++ A).
  apply (tail_assemble n' live s s1 A D [] Aof l r0 s1 [] [] rp [] SD (frame_refl _ _ Hfi1));
    [intros x [] | intros x [] |].
  intros s4 a2 d2 Hf4 Hd2 Hw4 Hu4 Hc. cbn [app] in Hf4.
  assert (Hag : forall x, in_subtree d rp x -> dget (later_disk s4) x = dget d x).
  { intros x Hx. apply later_disk_kept; [exact Hu4 | apply Hsub, Hx]. }
  rewrite (ppages_transfer d (later_disk s4) fuel0 rp Hag), (page_ents_transfer d (later_disk s4) fuel0 rp Hag).
  rewrite (PageView_page_ents _ _ _ _ HV fuel0 Hh), patch_nil. split; [reflexivity|].
  apply (heads_ok s4 (rp :: ppages fuel0 d rp) [] (rp :: ppages fuel0 d rp) (region d r0) Hw4).
  - apply (NoDup_runs_heads d _ HnH).
  - intros q Hq. right. split; [exact Hq|]. apply Hu4, Hsub.
    destruct Hq as [<-|Hq]; [apply ist_self | eapply ppages_subtree; eauto].
  - exact HnH.
  - intros x Hx. destruct (HH x Hx) as [Hr Hf]. split; [exact Hr|].
    pose proof (sd_region_unfreed n' live s s1 A D [] Aof l r0 SD x Hr Hf) as Hf1.
    destruct (freed_in_tx s4 x) eqn:E; [|reflexivity]. exfalso. apply (fr_freed _ _ _ _ _ Hf4) in E.
    destruct E as [E|E]; [congruence|]. apply (proj2 (Hd2 x E)). apply (sd_reg _ _ _ _ _ _ _ _ _ _ SD), Hr.
  - exact Hreg_L.
Qed.

(** ** what [spill_bucket] establishes; the fold over the opened sub-buckets *)
Definition OwnPost (n : nat) (r0 : N) (live : list N) (s : txs) (res : N * N * txs * list bytes) : Prop :=
  let '(r, _, s', _) := res in
  exists alloc dead, frame live s s' alloc dead /\
    (forall x, In x dead -> In x alloc \/ In x (foot d n r0)) /\
    wr_ok L s' /\ pend_ok0 s' /\ pend_ids_ok s' /\ OwnW n live alloc alloc s' r r0.

Definition RecOwn (rec : bucket -> txs -> list bytes -> res (N * N * txs * list bytes)) : Prop :=
  forall n live b s ord res r0 m, n <= fuel0 ->
    fresh_inv live s -> (forall x, In x L -> In x live) -> unwritten keep s ->
    wr_ok L s -> pend_ok0 s -> pend_ids_ok s ->
    SReady d keep b -> OvlAbs d b m -> SReadyX d keep b ->
    OwnI d n s b r0 -> Lnk d n b r0 -> incl (foot d n r0) L ->
    rec b s ord = Ok res -> OwnPost n r0 live s res.

Definition SubInvO (n' : nat) (live : list N) (s : txs) (l : list leafent) (subs : list (bytes * bucket))
                   (acc : sub_acc) : Prop :=
  let '(ms, s0, _, remaining) := acc in
  NoDup (map fst remaining) /\ (forall x, In x remaining -> In x subs) /\
  (forall m, In m ms -> ~ In (m_name m) (map fst remaining)) /\
  exists A D (Aof : bytes -> list N), frame live s s0 A D /\ wr_ok L s0 /\ pend_ok0 s0 /\ pend_ids_ok s0 /\
    (forall x, In x D -> In x A \/
       exists m ro nxo, In m ms /\ In (LBk (m_name m) ro nxo) l /\ In x (foot d n' ro)) /\
    (forall k, incl (Aof k) A) /\ (forall k1 k2, k1 <> k2 -> disj (Aof k1) (Aof k2)) /\
    Forall (fun m : meta => exists ro nxo, In (LBk (m_name m) ro nxo) l /\
              OwnW n' live A (Aof (m_name m)) s0 (snd (fst m)) ro) ms.

Section SubFold.
Variables (n' : nat) (live : list N) (s : txs) (l : list leafent) (subs : list (bytes * bucket)) (r0 : N).
Variable rec : bucket -> txs -> list bytes -> res (N * N * txs * list bytes).
Hypothesis HR : RecOwn rec.
Hypothesis Hn' : n' <= fuel0.
Hypothesis Hfi : fresh_inv live s.
Hypothesis HLl : forall x, In x L -> In x live.
Hypothesis Hunw : unwritten keep s.
Hypothesis HfootL : incl (foot d (S n') r0) L.
Hypothesis Hent : forall e, In e l -> incl (efoot d n' e) (foot d (S n') r0).
Hypothesis Hent2 : forall e1 e2, In e1 l -> In e2 l -> lkey e1 <> lkey e2 -> disj (efoot d n' e1) (efoot d n' e2).
Hypothesis Hsubs : forall nm sb, In (nm, sb) subs ->
  SReady d keep sb /\ (exists ms, OvlAbs d sb ms) /\ SReadyX d keep sb /\
  exists ro nxo, In (LBk nm ro nxo) l /\ OwnI d n' s sb ro /\ Lnk d n' sb ro.

Lemma sub_step_invO : forall x acc acc', SubInvO n' live s l subs acc -> sub_step rec acc x = Ok acc' ->
  SubInvO n' live s l subs acc'.
Proof.
  intros x [[[ms s0] o] remaining] acc' HI H.
  unfold sub_step in H. destruct o as [|nm o']; [discriminate|].
  destruct (take_sub nm remaining) as [[sb rem']|] eqn:Et; [|discriminate].
  apply bind_ok_inv in H. destruct H as ([[[r nx] s'] o''] & Hrec & H). inversion H; subst acc'. clear H.
  destruct (take_sub_inv _ _ _ _ Et) as (a & b & Erem & ->).
  destruct HI as (I1 & I2 & I4 & A & D & Aof & Hfr & Hw0 & Hp0 & Hi0 & HD & HAof & HAofd & Hall).
  assert (Hin_rem : In (nm, sb) remaining) by (rewrite Erem; apply in_or_app; right; now left).
  destruct (Hsubs nm sb (I2 _ Hin_rem)) as (HS & [msb Hmsb] & HSX & ro & nxo & Hlro & HOw & HLk).
  assert (Hnm_fresh : forall m, In m ms -> m_name m <> nm).
  { intros m Hm E. apply (I4 m Hm). rewrite E. apply (in_map fst _ _ Hin_rem). }
  assert (HL' : forall y, In y L -> In y (A ++ live)) by (intros y Hy; apply in_or_app; right; now apply HLl).
  assert (HA_fresh : forall y, In y L -> ~ In y A).
  { intros y Hy Hi. apply (frame_new _ _ _ _ _ y Hfi Hfr Hi), HLl, Hy. }
  assert (HroL : incl (foot d n' ro) L) by (intros y Hy; apply HfootL, (Hent _ Hlro), Hy).
  assert (Hother : forall m ro' nxo', In m ms -> In (LBk (m_name m) ro' nxo') l -> disj (foot d n' ro) (foot d n' ro')).
  { intros m ro' nxo' Hm Hl'. apply (Hent2 (LBk nm ro nxo) (LBk (m_name m) ro' nxo') Hlro Hl'). cbn [lkey].
    intros E. exact (Hnm_fresh m Hm (eq_sym E)). }
  assert (HOw0 : OwnI d n' s0 sb ro).
  { apply (OwnI_later d Hz n' s s0 sb ro HOw). intros y Hy Hf. apply (fr_freed _ _ _ _ _ Hfr) in Hf.
    destruct Hf as [Hf|Hf]; [exact Hf|]. exfalso. destruct (HD y Hf) as [Ha|(m & ro' & nxo' & Hm & Hl' & Hy')].
    - exact (HA_fresh y (HroL y Hy) Ha).
    - exact (Hother m ro' nxo' Hm Hl' y Hy Hy'). }
  pose proof (HR n' (A ++ live) sb s0 o' _ ro msb Hn' (fr_fresh _ _ _ _ _ Hfr) HL'
                 (frame_unwritten _ _ _ _ _ keep Hfi Hfr (keep_live live HLl) Hunw) Hw0 Hp0 Hi0 HS Hmsb HSX HOw0 HLk HroL Hrec) as HP.
  cbn [OwnPost] in HP. destruct HP as (a1 & d1 & Hf1 & Hd1 & Hw1 & Hp1 & Hi1 & HW1).
  assert (Ha1_fresh : forall y, In y a1 -> ~ In y (A ++ live)) by (intros y Hy; exact (frame_new _ _ _ _ _ y (fr_fresh _ _ _ _ _ Hfr) Hf1 Hy)).
  assert (Hnd : NoDup (map fst a ++ nm :: map fst b)) by (rewrite Erem, map_app in I1; exact I1).
  unfold SubInvO. split; [rewrite map_app; eapply NoDup_remove_1; eauto|].
  split. { intros y Hy. apply I2. rewrite Erem. apply in_app_or in Hy. apply in_or_app. destruct Hy; [left|right; right]; assumption. }
  split.
  { intros m0 Hm0 Hi. rewrite map_app in Hi. apply in_app_or in Hm0. destruct Hm0 as [Hm0|[<-|[]]].
    - apply (I4 m0 Hm0). rewrite Erem, map_app. cbn [map fst]. apply in_app_or in Hi. apply in_or_app.
      destruct Hi; [left|right; right]; assumption.
    - cbn [m_name fst] in Hi. apply (NoDup_remove_2 _ _ _ Hnd Hi). }
  exists (a1 ++ A), (D ++ d1), (fun k => if beq k nm then a1 else Aof k).
  split; [eapply frame_trans; eauto|]. split; [exact Hw1|]. split; [exact Hp1|]. split; [exact Hi1|]. split.
  { intros y Hy. apply in_app_or in Hy. destruct Hy as [Hy|Hy].
    - destruct (HD y Hy) as [Ha|(m & ro' & nxo' & Hm & Hl' & Hy')]; [left; apply in_or_app; now right|].
      right. exists m, ro', nxo'. split; [apply in_or_app; now left | auto].
    - destruct (Hd1 y Hy) as [Ha|Hf]; [left; apply in_or_app; now left|]. right. exists (nm, r, nx), ro, nxo.
      split; [apply in_or_app; right; now left | auto]. }
  split. { intros k y Hy. apply in_or_app. destruct (beq k nm); [now left | right; exact (HAof k y Hy)]. }
  split.
  { intros k1 k2 Hne y H1 H2. destruct (beq k1 nm) eqn:E1; destruct (beq k2 nm) eqn:E2.
    - apply beq_true_iff in E1, E2. congruence.
    - apply (Ha1_fresh y H1). apply in_or_app. left. exact (HAof k2 y H2).
    - apply (Ha1_fresh y H2). apply in_or_app. left. exact (HAof k1 y H1).
    - exact (HAofd k1 k2 Hne y H1 H2). }
  apply Forall_app. split.
  - rewrite Forall_forall in Hall. apply Forall_forall. intros m Hm. destruct (Hall m Hm) as (ro' & nxo' & Hl' & HWm).
    exists ro', nxo'. split; [exact Hl'|]. rewrite (beq_false_ne _ _ (Hnm_fresh m Hm)).
    apply (OwnW_later n' live A (Aof (m_name m)) s0 s' a1 d1 _ ro' Hf1); [|exact HWm].
    intros y Hy. destruct (Hd1 y Hy) as [Ha|Hf]; split.
    + intros Hi. apply (Ha1_fresh y Ha). apply in_or_app. left. exact (HAof _ y Hi).
    + intros Hi. apply (Ha1_fresh y Ha). apply in_or_app. right. apply HLl, HfootL, (Hent _ Hl'), Hi.
    + intros Hi. exact (HA_fresh y (HroL y Hf) (HAof _ y Hi)).
    + intros Hi. exact (Hother m ro' nxo' Hm Hl' y Hf Hi).
  - repeat constructor. exists ro, nxo. cbn [m_name fst snd]. split; [exact Hlro|]. rewrite beq_refl.
    intros s2 a2 d2 Hf2. rewrite <- app_assoc in Hf2. exact (HW1 s2 a2 d2 Hf2).
Qed.

Lemma sub_fold_invO : forall cnt acc acc', SubInvO n' live s l subs acc -> fold_res (sub_step rec) cnt acc = Ok acc' ->
  SubInvO n' live s l subs acc'.
Proof.
  induction cnt as [|x cnt IH]; intros acc acc' HI H.
  - cbn [fold_res] in H. inversion H; subst. exact HI.
  - cbn [fold_res] in H. apply bind_ok_inv in H. destruct H as (acc1 & H1 & H2).
    apply (IH acc1 acc'); [|exact H2]. eapply sub_step_invO; eauto.
Qed.
End SubFold.

(** ** the induction step *)
Lemma XRoot_sorted : forall b h l, XRoot d keep b -> BucketView d h b l -> sorted_keys (map lkey l) = true.
Proof.
  intros b h l (h2 & _ & HX) HV. apply (bucket_view_sorted d h b l); [|exact HV]. unfold bucket_wf.
  destruct (b_rootn b) as [n|]; [eapply Inv_wf_node; apply HX | eapply PInv_wf_page; apply HX].
Qed.

(* the bucket that is not dirty: its committed tree is kept as it is *)
Lemma own_clean : forall n live b s r0, n <= fuel0 -> fresh_inv live s -> (forall x, In x L -> In x live) ->
  unwritten keep s -> is_dirty fuel0 b = false -> (exists k, sbk k d (b_root_page b)) -> In (b_root_page b) keep ->
  OwnI d n s b r0 -> Lnk d n b r0 -> OwnW n live [] [] s (b_root_page b) r0.
Proof.
  intros n live b s r0 Hn Hfi HLl Hu Ed [k Hk] Hin HOw HLk.
  destruct (clean_foot d Hz n fuel0 b r0 s Hn Ed HOw HLk) as (_ & Ep & Hf). rewrite Ep in *.
  pose proof (sbk_nz d k r0 Hz Hk) as Hnz.
  assert (Hnd : NoDup (foot d n r0)) by (destruct n as [|n']; [destruct HOw | cbn [OwnI] in HOw; apply HOw]).
  intros s2 a2 d2 Hf2 Hd2 Hw2 _. cbn [app] in Hf2.
  pose proof (frame_unwritten _ _ _ _ _ keep Hfi Hf2 (keep_live live HLl) Hu) as Hu2.
  rewrite (kept_tree n s2 r0 Hu2 Hin Hnz). split; [exact Hnd|]. intros x Hx. split; [now right|].
  destruct (freed_in_tx s2 x) eqn:E; [|reflexivity]. apply (fr_freed _ _ _ _ _ Hf2) in E.
  destruct E as [E|E]; [rewrite (Hf x Hx) in E; discriminate|]. exfalso. exact (proj2 (Hd2 x E) Hx).
Qed.

Lemma RecOwn_step : forall f, RecOwn (spill_bucket f d) -> RecOwn (spill_bucket (S f) d).
Proof.
  intros f HR n live b s ord res r0 m Hn Hfi HLl Hu Hw Hp0 Hpid HS HO HSX HOw HLk HfL H.
  destruct res as [[[r nx] s'] ord']. rewrite spill_bucket_unfold in H.
  pose proof (keep_live live HLl) as Hkl.
  destruct (is_dirty fuel0 b) eqn:Ed; cbn [negb] in H.
  2:{ inversion H; subst r nx s' ord'. inversion HSX as [b0 _ Hsb Hin | b0 Hd]; subst b0; [|congruence].
      cbn [OwnPost]. exists [], []. split; [now apply frame_refl|]. split; [intros x []|].
      split; [exact Hw|]. split; [exact Hp0|]. split; [exact Hpid|]. eapply own_clean; eauto. }
  destruct n as [|n']; [destruct HOw|].
  inversion HS as [b0 Hd | b0 h l _ Hh HV HD Hnd Hsubs Hdisk]; subst b0; [congruence|].
  inversion HSX as [b0 Hd | b0 _ HXR HXsubs HXun]; subst b0; [congruence|].
  inversion HO as [b0 l0 ents Hbv HF]; subst b0 m.
  assert (Hbvl : bucket_view d b l) by (exists h; auto).
  assert (El : l0 = l) by (apply (bucket_view_det d b); assumption). subst l0.
  cbn [OwnI] in HOw. destruct HOw as (Hr & Hndf & Hpg & l1 & Hv1 & Hnb & Hb & He & Hun & Hsb).
  assert (El : l1 = l) by (apply (bucket_view_det d b); assumption). subst l1.
  cbn [Lnk] in HLk. destruct HLk as [_ HLk2].
  destruct (own_entries d n' r0 l Hz Hr Hndf He) as (E1 & E2 & E3 & E4).
  pose proof (XRoot_sorted b h l HXR HV) as Hsorted.
  assert (Hsubs' : forall nm sb, In (nm, sb) (b_subs b) -> SReady d keep sb /\ exists ms, OvlAbs d sb ms).
  { intros nm sb Hin. destruct (Hsubs nm sb Hin) as [(r1 & nx1 & Hl) HSb]. split; [exact HSb|].
    eapply sub_has_meaning; eauto. }
  assert (Hsubs4 : forall nm sb, In (nm, sb) (b_subs b) ->
            SReady d keep sb /\ (exists ms, OvlAbs d sb ms) /\ SReadyX d keep sb /\
            exists ro nxo, In (LBk nm ro nxo) l /\ OwnI d n' s sb ro /\ Lnk d n' sb ro).
  { intros nm sb Hin. destruct (Hsubs' nm sb Hin) as [X1 X2]. split; [exact X1|]. split; [exact X2|].
    split; [eauto|]. destruct (Hsb nm sb Hin) as (ro & nxo & Hl & Ho). exists ro, nxo. split; [exact Hl|].
    split; [exact Ho | exact (HLk2 nm sb Hin l ro nxo Hbvl Hl)]. }
  apply bind_ok_inv in H. destruct H as ([[[metas s1] ord1] rem] & Hf1 & H).
  assert (HI0 : SubInv d live s (b_subs b) ([], s, ord, b_subs b)).
  { cbn [SubInv]. split; [exact Hnd|]. split; [auto|]. split; [constructor|]. split; [intros ? []|].
    split; [intros x Hx; now right|]. exists [], []. split; [now apply frame_refl | constructor]. }
  destruct (sub_fold_inv d keep live s (b_subs b) _ (RecOK_all d keep f) Hfi Hkl Hu Hsubs' (b_subs b) _ _ HI0 Hf1)
    as [(_ & _ & J3 & _ & J5 & A0 & D0 & Hfr0 & Hms) Hlen].
  cbn [snd] in Hlen. assert (rem = []) by (destruct rem; [reflexivity | cbn [length] in Hlen; lia]). subst rem.
  assert (Hcov : forall x, In x (b_subs b) -> In (fst x) (map m_name metas)).
  { intros x Hx. destruct (J5 x Hx) as [Hc|[]]. exact Hc. }
  assert (HI0O : SubInvO n' live s l (b_subs b) ([], s, ord, b_subs b)).
  { cbn [SubInvO]. split; [exact Hnd|]. split; [auto|]. split; [intros ? []|]. exists [], [], (fun _ => []).
    split; [now apply frame_refl|]. split; [exact Hw|]. split; [exact Hp0|]. split; [exact Hpid|].
    split; [intros x []|]. split; [intros k x []|]. split; [intros k1 k2 _ x []|constructor]. }
  assert (Hn' : n' <= fuel0) by lia.
  pose proof (sub_fold_invO n' live s l (b_subs b) r0 _ HR Hn' Hfi HLl Hu HfL (fun e He => proj1 (E3 e He)) E4 Hsubs4
                (b_subs b) _ _ HI0O Hf1) as HIO.
  cbn [SubInvO] in HIO. destruct HIO as (_ & _ & _ & A & D & Aof & Hfr & Hw1 & Hp1 & Hi1 & HDl & HAof & HAofd & Hall).
  assert (SD : SubsDone n' live s s1 A D metas Aof l r0).
  { constructor; try assumption.
    intros k r1 nx1 Hin Hfd.
    assert (Hsf : sub_find k (b_subs b) = None).
    { destruct (sub_find k (b_subs b)) as [sb|] eqn:Hsf; [|reflexivity]. exfalso.
      pose proof (Hcov _ (sub_find_In _ _ _ Hsf)) as Hc. cbn [fst] in Hc.
      destruct (find_name metas k Hc) as (m1 & F1 & _). congruence. }
    destruct (HXun l k r1 nx1 Hbvl Hin Hsf) as [[k0 Hk0] Hr1]. split; [exact Hr1|].
    split; [eapply sbk_nz; eauto | exact (Hun k r1 nx1 Hin Hsf)]. }
  assert (HDloc : forall x, In x D -> In x A \/ In x (foot d (S n') r0)).
  { intros x Hx. destruct (HDl x Hx) as [Ha|(m0 & ro & nxo & _ & Hl & Hfo)]; [now left|]. right.
    exact (proj1 (E3 _ Hl) x Hfo). }
  apply bind_ok_inv in H. destruct H as ([b1 s2] & Hf2 & H).
  assert (Hallm : forall mt, In mt metas -> exists r1 nx1, In (LBk (m_name mt) r1 nx1) l).
  { intros mt Hmt. rewrite Forall_forall in Hms. destruct (Hms mt Hmt) as (sb & _ & X1 & _).
    destruct (Hsubs _ _ X1) as [Hex _]. exact Hex. }
  assert (Hcase : (b_rootn b = None /\ metas = []) \/
                  (SRoot d keep h b /\ (metas <> [] \/ exists n, b_rootn b = Some n))).
  { unfold SRoot, DRoot in *. destruct (b_rootn b) as [n|]; [right; split; [exact HD | right; eauto]|].
    destruct metas as [|mt metas]; [left; auto|]. right. split; [|left; discriminate].
    destruct HD as [HD1 HD2]. split; [|exact HD1]. apply HD2.
    inversion Hms as [|? ? (sb & _ & X1 & _) _]; subst. intros E. rewrite E in X1. destruct X1. }
  destruct Hcase as [[Ern ->] | [HSR Hsome]].
  - (* the promoted root that was never loaded *)
    cbn [fold_res] in Hf2. inversion Hf2; subst b1 s2. unfold spill_tail_b in H. rewrite Ern in H.
    inversion H; subst r nx s' ord'. clear H.
    cbn [OwnPost]. exists A, D. split; [exact Hfr|]. split; [exact HDloc|].
    split; [exact Hw1|]. split; [exact Hp1|]. split; [exact Hi1|].
    unfold DRoot in HD. unfold BucketView in HV. rewrite Ern in HD, HV. destruct HD as [HD1 _].
    assert (Ebo : bown d b = runs d (b_root_page b :: ppages fuel0 d (b_root_page b))) by (unfold bown, bheads; now rewrite Ern).
    rewrite Ebo in Hnb, Hb.
    exact (tail_unloaded n' live s s1 A D Aof l r0 h (b_root_page b) SD HD1 HV Hh Hnb Hb).
  - destruct (meta_fold_replace d keep h metas b l s1 b1 s2 HSR HV Hh J3 Hallm Hf2) as (B1 & B2 & B3 & B4 & _ & B6).
    pose proof (meta_fold_bpg d keep h metas b l s1 b1 s2 HSR HV Hh J3 Hallm Hf2) as Ebpg.
    assert (Hrp : b_rootn b = None -> b_root_page b <> 0%N).
    { intros En E. unfold SRoot in HSR. rewrite En in HSR. destruct HSR as [HP _].
      destruct (PInv_dget _ _ _ _ _ _ HP) as [a Ha]. rewrite E in Ha. congruence. }
    destruct (meta_fold_heads d keep h metas b l s1 b1 s2 HSR HV Hh J3 Hallm Hpg Hrp Hf2) as (Ehd & Hpg1 & _).
    destruct (XRoot_bpg d keep h b HC HXR HSR) as [_ Hinc]. rewrite <- Ebpg in Hinc.
    assert (Hrn : exists rn, b_rootn b1 = Some rn).
    { destruct Hsome as [Hne | [n0 Hn0]]; [apply B3, Hne|]. destruct metas as [|mt metas]; [|apply B3; discriminate].
      rewrite (B4 eq_refl). eauto. }
    destruct Hrn as [rn Ern]. unfold spill_tail_b in H. rewrite Ern in H.
    apply bind_ok_inv in H. destruct H as ([p s3] & Hsp & H). inversion H; subst r nx s' ord'. clear H.
    pose proof (bheads_bpg d keep h b1 B1 Hh) as Ebh. rewrite Ern in Ebh.
    unfold SRoot in B1. rewrite Ern in B1. destruct B1 as [HI HRd]. unfold BucketView in B2. rewrite Ern in B2.
    unfold bpg in Hinc, Ebh. rewrite Ern in Hinc, Ebh. unfold bpg_ok in Hpg1. rewrite Ern in Hpg1.
    assert (Ebo : bown d b = runs d ((if (n_page rn =? 0)%N then [] else [n_page rn]) ++ npages h d rn)).
    { unfold bown. now rewrite <- Ehd, Ebh. }
    rewrite Ebo in Hnb, Hb. cbn [OwnPost].
    destruct HRd as [Hemp | HRdy].
    + apply (tail_empty n' live s s1 A D metas Aof l r0 s2 h rn p s3 SD B6 Hemp B2 Hpg1); [|exact Hsp].
      intros x Hx. apply Hb. rewrite runs_app. apply in_or_app. now left.
    + exact (tail_rdy n' live s s1 A D metas Aof l r0 s2 h rn p s3 SD B6 HI HRdy B2 Hh Hinc Hpg1 Hnb Hb Hsp).
Qed.

Lemma RecOwn_all : forall f, RecOwn (spill_bucket f d).
Proof.
  induction f as [|f IH]; [|now apply RecOwn_step].
  intros n live b s ord res r0 m _ _ _ _ _ _ _ _ _ _ _ _ _ H. discriminate.
Qed.
End Spill.

(* ====================================================================== *)
(** * 6. [commit] re-establishes the allocation invariant *)

(* a page handed out by a frame is at least 2 *)
Lemma frame_alloc_ge2 : forall live s s' alloc dead x, fresh_inv live s -> frame live s s' alloc dead -> In x alloc -> (2 <= x)%N.
Proof.
  intros live s s' alloc dead x Hfi Hfr Hx. destruct (fr_src _ _ _ _ _ Hfr x Hx) as [H|H].
  - pose proof (fi_ge2 _ _ Hfi) as G. unfold FreelistFacts.ge2 in G. rewrite Forall_forall in G. now apply G.
  - pose proof (fi_np _ _ Hfi). lia.
Qed.

(* the canonical footprint of a committed state is the first part of its live pages *)
Lemma foot_live : forall st x, In x (foot (d_disk st) 16 (d_root st)) -> In x (live_of st (Rof st)).
Proof.
  intros st x Hx. unfold foot in Hx. destruct (d_root st =? 0)%N; [destruct Hx|]. unfold live_of, Rof.
  apply in_or_app. left. exact Hx.
Qed.

Lemma foot_fl_disj : forall st x, NoDup (live_of st (Rof st)) -> In x (foot (d_disk st) 16 (d_root st)) ->
  In x (nrun (d_fl st) (d_fln st)) -> False.
Proof.
  intros st x Hnd Hx Hf. unfold foot in Hx. destruct (d_root st =? 0)%N; [destruct Hx|]. unfold live_of in Hnd.
  apply EngineSpillWfFacts.NoDup_app_iff in Hnd. destruct Hnd as (_ & _ & Hd). exact (Hd x Hx Hf).
Qed.

Section Commit.
(* the facts of layer W1 *)
Hypothesis W1a : forall live f n s p s', fresh_inv live s -> wr_ok live s -> pend_ok0 s -> pend_ids_ok s -> old_in live n ->
  spill_root f n s = Ok (p, s') -> wr_ok live s' /\ pend_ok0 s' /\ pend_ids_ok s'.
Hypothesis W1b : forall live s p n, fresh_inv live s -> wr_ok live s -> pend_ok0 s -> pend_ids_ok s ->
  (forall x, In x (nrun p n) -> In x live) ->
  wr_ok live (free_pages s p n) /\ pend_ok0 (free_pages s p n) /\ pend_ids_ok (free_pages s p n).
Hypothesis W1c : forall live s bts p n s', fresh_inv live s -> wr_ok live s -> pend_ok0 s -> pend_ids_ok s -> (0 < bts)%N ->
  tx_allocate s bts = (p, n, s') ->
  wr_ok live s' /\ pend_ok0 s' /\ pend_ids_ok s' /\
  (forall q v x, wr_get (wr s') q = Some v -> In x (wrun (psz s') q v) -> ~ In x (nrun p n)).
Hypothesis W1d : forall live s s', same_but_seqc s s' -> wr_ok live s -> pend_ok0 s -> pend_ids_ok s ->
  wr_ok live s' /\ pend_ok0 s' /\ pend_ids_ok s'.

(* what the spill and the free-list steps of [commit] leave: the final allocator state s4 of the transaction *)
Lemma commit_states : forall st b s ord st' b1 s1 m,
  db_ok' st -> dget (d_disk st) 0%N = None ->
  rebalance fuel0 (d_disk st) b s = Ok (b1, s1) ->
  fresh_inv (live_of st (Rof st)) s1 -> wr s1 = [] ->
  pend_ids_ok s1 ->
  (forall x, In x (pend_all (pending s1)) -> freed_in_tx s1 x = true) ->
  (forall x, freed_in_tx s1 x = true -> In x (foot (d_disk st) 16 (d_root st))) ->
  SReady (d_disk st) (Rof st) b1 -> OvlAbs (d_disk st) b1 m -> SReadyX (d_disk st) (Rof st) b1 ->
  OwnI (d_disk st) 16 s1 b1 (d_root st) -> Lnk (d_disk st) 16 b1 (d_root st) ->
  commit st b s ord = Ok st' ->
  exists r nx s4 alloc flp fln Dall,
    let L := live_of st (Rof st) in
    st' = {| d_disk := apply_wr (wr s4) (psz s4) (d_disk st); d_root := r; d_next := nx; d_np := np s4; d_fl := flp;
             d_fln := fln; d_flids := all_pages s4; d_tx := txid s4; d_free := free s4; d_pending := pending s4;
             d_psz := psz s4 |} /\
    frame L s1 s4 (nrun flp fln ++ alloc) Dall /\
    (forall x, In x Dall -> In x alloc \/ In x L) /\
    (forall x, In x alloc -> (2 <= x)%N) /\ (forall x, In x (nrun flp fln) -> (2 <= x)%N) /\
    (forall x, In x (nrun flp fln) -> ~ In x (alloc ++ L)) /\
    wr_ok L s4 /\ pend_ok0 s4 /\ pend_ids_ok s4 /\
    (forall q v x, wr_get (wr s4) q = Some v -> In x (wrun (psz s4) q v) -> ~ In x (nrun flp fln)) /\
    TreeOK (d_disk st) 16 alloc (foot (d_disk st) 16 (d_root st)) s4 r.
Proof.
  intros st b s ord st' b1 s1 m (Hstrict & HA & HndL & _) Hz Hreb Hfi Hwr Hpid Hpf Hff HS HO HSX HOw HLk H.
  set (d := d_disk st) in *. set (R := Rof st) in *. set (L := live_of st R) in *.
  pose proof HA as (_ & _ & _ & _ & _ & _ & _ & HCR & Hlive).
  assert (HkL : forall q x, In q R -> In x (prun d q) -> In x L).
  { intros q x Hq Hx. unfold L, live_of. apply in_or_app. left. apply in_flat_map. eauto. }
  assert (HfL : incl (foot d 16 (d_root st)) L) by (intros x Hx; now apply foot_live).
  rewrite commit_apply_wr in H. unfold commit_with_apply_wr in H. fold d in H. rewrite Hreb in H. cbn [bind] in H.
  apply bind_ok_inv in H. destruct H as ([[[r nx] s2] ord'] & Hsp & H).
  assert (Hp0 : pend_ok0 s1).
  { intros x Hx. apply (fi_live _ _ Hfi), HfL, Hff, Hpf, Hx. }
  assert (H16 : 16 <= fuel0) by (unfold fuel0; lia).
  assert (Hu : unwritten R s1) by (intros x _; rewrite Hwr; reflexivity).
  pose proof (RecOwn_all d R L HCR Hz HkL W1a W1b W1c W1d fuel0 16 L b1 s1 ord (r, nx, s2, ord') (d_root st) m H16 Hfi
                (fun x Hx => Hx) Hu
                (wr_ok_nil L s1 Hwr) Hp0 Hpid HS HO HSX HOw HLk HfL Hsp) as HP.
  cbn [OwnPost] in HP. destruct HP as (alloc & dead & F1 & Hdl & W2 & P2 & I2 & HW).
  set (s3 := free_pages s2 (d_fl st) (d_fln st)) in H.
  destruct (tx_allocate s3 (40 + 8 * llen (all_pages s3))) as [[flp fln] s4] eqn:Hal.
  inversion H; subst st'. clear H.
  pose proof (fr_fresh _ _ _ _ _ F1) as Hfi2.
  assert (HLa : forall x, In x L -> In x (alloc ++ L)) by (intros x Hx; apply in_or_app; now right).
  pose proof (free_pages_frame (alloc ++ L) s2 (d_fl st) (d_fln st) Hfi2) as G1. fold s3 in G1.
  assert (Hfl : forall x, In x (nrun (d_fl st) (d_fln st)) -> In x L).
  { intros x Hx. unfold L, live_of. apply in_or_app. now right. }
  destruct (W1b L s2 (d_fl st) (d_fln st) (fresh_inv_sub _ _ _ HLa Hfi2) W2 P2 I2 Hfl) as (W3 & P3 & I3). fold s3 in W3, P3, I3.
  assert (Hpos : (0 < 40 + 8 * llen (all_pages s3))%N) by lia.
  pose proof (fr_fresh _ _ _ _ _ G1) as Hfi3. cbn [app] in Hfi3.
  destruct (tx_allocate_frame (alloc ++ L) s3 _ flp fln s4 Hfi3 Hpos Hal) as [G2 G3].
  destruct (W1c L s3 _ flp fln s4 (fresh_inv_sub _ _ _ HLa Hfi3) W3 P3 I3 Hpos Hal) as (W4 & P4 & I4 & Hsep).
  pose proof (frame_trans _ _ _ _ _ _ _ _ G1 G2) as G4. rewrite !app_nil_r in G4.
  pose proof (frame_trans _ _ _ _ _ _ _ _ F1 G4) as F14.
  exists r, nx, s4, alloc, flp, fln, (dead ++ nrun (d_fl st) (d_fln st)). cbv zeta. fold d R L.
  split; [reflexivity|]. split; [exact F14|]. split.
  { intros x Hx. apply in_app_or in Hx. destruct Hx as [Hx|Hx]; [|right; now apply Hfl].
    destruct (Hdl x Hx) as [Ha|Hf]; [now left | right; now apply HfL]. }
  split; [intros x Hx; exact (frame_alloc_ge2 _ _ _ _ _ x Hfi F1 Hx)|].
  split; [intros x Hx; exact (frame_alloc_ge2 _ _ _ _ _ x Hfi3 G2 Hx)|].
  split; [intros x Hx; apply G3; now apply In_nrun|].
  split; [exact W4|]. split; [exact P4|]. split; [exact I4|]. split; [exact Hsep|].
  apply (HW s4 _ _ G4); [|exact W4]. intros x Hx. split.
  - intros Hi. apply (frame_new _ _ _ _ _ x Hfi F1 Hi). now apply Hfl.
  - intros Hi. exact (foot_fl_disj st x HndL Hi Hx).
Qed.

Theorem commit_alloc_z : forall st b s ord st' b1 s1 m,
  db_ok' st -> dget (d_disk st) 0%N = None ->
  rebalance fuel0 (d_disk st) b s = Ok (b1, s1) ->
  fresh_inv (live_of st (Rof st)) s1 -> wr s1 = [] -> txid s1 = (d_tx st + 1)%N ->
  pend_ids_ok s1 ->
  (forall x, In x (pend_all (pending s1)) -> freed_in_tx s1 x = true) ->
  (forall x, freed_in_tx s1 x = true -> In x (foot (d_disk st) 16 (d_root st))) ->
  SReady (d_disk st) (Rof st) b1 -> OvlAbs (d_disk st) b1 m -> SReadyX (d_disk st) (Rof st) b1 ->
  OwnI (d_disk st) 16 s1 b1 (d_root st) -> Lnk (d_disk st) 16 b1 (d_root st) ->
  commit st b s ord = Ok st' -> readable st' -> db_strict st' -> closedR (d_disk st') (Rof st') ->
  alloc_ok st' (Rof st') /\ NoDup (live_of st' (Rof st')) /\ pend_le st' /\ dget (d_disk st') 0%N = None.
Proof.
  intros st b s ord st' b1 s1 m Hdb Hz Hreb Hfi Hwr _ Hpid Hpf Hff HS HO HSX HOw HLk Hc Hrd _ Hcl.
  destruct (commit_states st b s ord st' b1 s1 m Hdb Hz Hreb Hfi Hwr Hpid Hpf Hff HS HO HSX HOw HLk Hc)
    as (r & nx & s4 & alloc & flp & fln & Dall & Est & F14 & HD & Hage & Hfge & Hfnew & W4 & P4 & I4 & Hsep & HT).
  cbv zeta in *. destruct Hdb as (_ & HA & HndL & _).
  set (d := d_disk st) in *. set (L := live_of st (Rof st)) in *.
  pose proof HA as (_ & _ & _ & _ & _ & _ & _ & _ & Hlive). fold L in Hlive.
  assert (HfL : incl (foot d 16 (d_root st)) L) by (intros x Hx; now apply foot_live).
  subst st'. unfold readable in Hrd. unfold Rof, live_of, pend_le in *. cbn [d_disk d_root d_fl d_fln d_pending d_tx] in *.
  fold (later_disk d s4) in *. set (d4 := later_disk d s4) in *.
  destruct (HT Hrd) as [Hnd Hloc].
  pose proof (fr_fresh _ _ _ _ _ F14) as Hfi4.
  assert (Hpend : forall x, In x (pend_all (pending s4)) -> freed_in_tx s4 x = true).
  { intros x Hx. apply (fr_freed _ _ _ _ _ F14). apply (fr_pend _ _ _ _ _ F14) in Hx. destruct Hx as [Hx|Hx]; [left; now apply Hpf | now right]. }
  assert (Hfreed : forall x, freed_in_tx s4 x = true -> In x alloc \/ In x L).
  { intros x Hx. apply (fr_freed _ _ _ _ _ F14) in Hx. destruct Hx as [Hx|Hx]; [right; apply HfL, Hff, Hx | now apply HD]. }
  assert (HL2 : forall x, In x L -> (2 <= x)%N) by (intros x Hx; apply (Hlive x Hx)).
  assert (Hin4 : forall x, In x alloc \/ In x L -> (x < np s4)%N /\ ~ In x (free s4)).
  { intros x Hx. apply (fi_live _ _ Hfi4). rewrite <- app_assoc. apply in_or_app. right. apply in_or_app. tauto. }
  assert (Htree : forall x, In x (runs d4 (fpg 16 d4 r)) ->
            ((2 <= x < np s4)%N /\ ~ In x (free s4) /\ ~ In x (pend_all (pending s4))) /\ ~ In x (nrun flp fln)).
  { intros x Hx. destruct (Hloc x Hx) as [Hl Hu].
    assert (Hnp : ~ In x (pend_all (pending s4))) by (intros Hp; rewrite (Hpend x Hp) in Hu; discriminate).
    destruct Hl as [(q & v & _ & Hg & Hr)|Hf].
    - destruct (wo_range _ _ W4 q v x Hg Hr) as (R1 & R2 & _). split; [auto | exact (Hsep q v x Hg Hr)].
    - pose proof (HfL x Hf) as HxL. destruct (Hin4 x (or_intror HxL)) as [A1 A2]. split; [split; [split; [now apply HL2 | exact A1] | auto]|].
      intros Hi. apply (Hfnew x Hi). apply in_or_app. now right. }
  split; [|split; [|split]].
  - unfold alloc_ok. cbn [d_psz d_np d_free d_pending d_root d_disk]. fold d4.
    split; [apply (fi_psz _ _ Hfi4)|]. split; [apply (fi_np _ _ Hfi4)|]. split; [apply (fi_asc _ _ Hfi4)|].
    split; [apply (fi_ge2 _ _ Hfi4)|]. split; [apply (fi_free_lt _ _ Hfi4)|]. split.
    { apply Forall_forall. intros x Hx. split; [|apply (P4 x Hx)].
      destruct (Hfreed x (Hpend x Hx)) as [Ha|Hl]; [now apply Hage | now apply HL2]. }
    split; [rewrite fpg_S; now left|]. split; [exact Hcl|].
    intros x Hx. unfold live_of in Hx. cbn [d_disk d_fl d_fln] in Hx. fold d4 in Hx. apply in_app_or in Hx.
    destruct Hx as [Hx|Hx]; [apply (proj1 (Htree x Hx))|].
    assert (Hi4 : In x ((nrun flp fln ++ alloc) ++ L)) by (apply in_or_app; left; apply in_or_app; now left).
    destruct (fi_live _ _ Hfi4 x Hi4) as [A1 A2]. split; [split; [now apply Hfge | exact A1]|]. split; [exact A2|].
    intros Hp. apply (Hfnew x Hx). apply in_or_app. exact (Hfreed x (Hpend x Hp)).
  - apply EngineSpillWfFacts.NoDup_app_iff. split; [exact Hnd|]. split; [apply NoDup_nrun|].
    intros x Hx1 Hx2. exact (proj2 (Htree x Hx1) Hx2).
  - exact I4.
  - unfold d4, later_disk. rewrite dget_apply_wr. destruct (wr_get (wr s4) 0%N) as [v|] eqn:E; [|exact Hz].
    exfalso. destruct (wo_range _ _ W4 0%N v 0%N E (In_wrun_self _ _ _)) as (R1 & _). lia.
Qed.

(* the theorem of layer W2, with the two premises that [OwnI] does not provide: no page 0 on the committed disk,
   and the link invariant [Lnk] of the overlay after rebalance *)
Theorem commit_alloc : forall st b s ord st' b1 s1 m,
  db_ok' st -> dget (d_disk st) 0%N = None ->
  rebalance fuel0 (d_disk st) b s = Ok (b1, s1) ->
  fresh_inv (live_of st (Rof st)) s1 -> wr s1 = [] -> txid s1 = (d_tx st + 1)%N ->
  pend_ids_ok s1 ->
  (forall x, In x (pend_all (pending s1)) -> freed_in_tx s1 x = true) ->
  (forall x, freed_in_tx s1 x = true -> In x (foot (d_disk st) 16 (d_root st))) ->
  SReady (d_disk st) (Rof st) b1 -> OvlAbs (d_disk st) b1 m -> SReadyX (d_disk st) (Rof st) b1 ->
  OwnI (d_disk st) 16 s1 b1 (d_root st) -> Lnk (d_disk st) 16 b1 (d_root st) ->
  commit st b s ord = Ok st' -> readable st' -> db_strict st' -> closedR (d_disk st') (Rof st') ->
  alloc_ok st' (Rof st') /\ NoDup (live_of st' (Rof st')) /\ pend_le st'.
Proof.
  intros st b s ord st' b1 s1 m H1 H2 H3 H4 H5 H6 H7 H8 H9 H10 H11 H12 H13 H14 H15 H16 H17 H18.
  destruct (commit_alloc_z st b s ord st' b1 s1 m H1 H2 H3 H4 H5 H6 H7 H8 H9 H10 H11 H12 H13 H14 H15 H16 H17 H18)
    as (A & B & C & _). auto.
Qed.

(* the new committed disk has no page 0 either *)
Theorem commit_zero : forall st b s ord st' b1 s1 m,
  db_ok' st -> dget (d_disk st) 0%N = None ->
  rebalance fuel0 (d_disk st) b s = Ok (b1, s1) ->
  fresh_inv (live_of st (Rof st)) s1 -> wr s1 = [] -> txid s1 = (d_tx st + 1)%N ->
  pend_ids_ok s1 ->
  (forall x, In x (pend_all (pending s1)) -> freed_in_tx s1 x = true) ->
  (forall x, freed_in_tx s1 x = true -> In x (foot (d_disk st) 16 (d_root st))) ->
  SReady (d_disk st) (Rof st) b1 -> OvlAbs (d_disk st) b1 m -> SReadyX (d_disk st) (Rof st) b1 ->
  OwnI (d_disk st) 16 s1 b1 (d_root st) -> Lnk (d_disk st) 16 b1 (d_root st) ->
  commit st b s ord = Ok st' -> readable st' -> db_strict st' -> closedR (d_disk st') (Rof st') ->
  dget (d_disk st') 0%N = None.
Proof.
  intros st b s ord st' b1 s1 m H1 H2 H3 H4 H5 H6 H7 H8 H9 H10 H11 H12 H13 H14 H15 H16 H17 H18.
  exact (proj2 (proj2 (proj2 (commit_alloc_z st b s ord st' b1 s1 m H1 H2 H3 H4 H5 H6 H7 H8 H9 H10 H11 H12 H13 H14 H15 H16 H17 H18)))).
Qed.
End Commit.

(* ====================================================================== *)
(** * 7. The two extra invariants at the start *)

(* the invariant of committed states with "no page 0" added *)
Definition db_okz (st : db) : Prop := db_ok' st /\ dget (d_disk st) 0%N = None.

Lemma init_db_zero : forall P, dget (d_disk (init_db P)) 0%N = None.
Proof. intros P. reflexivity. Qed.

(* the fresh root bucket of a transaction is linked to the committed root *)
Lemma Lnk_root_bucket : forall st n, Lnk (d_disk st) n (root_bucket st) (d_root st).
Proof.
  intros st [|n]; [exact I|]. cbn [Lnk root_bucket b_dirty b_rootn b_root_page b_subs]. split; [auto|]. intros k sb [].
Qed.

Print Assumptions commit_alloc.
Print Assumptions commit_zero.
