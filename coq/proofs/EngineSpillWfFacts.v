(* Spill writes a STRICT, WELL-FORMED tree.

   EngineSpillFacts says WHICH ENTRIES the pages written by [spill_node] / [spill_root] hold. This file shows
   that the written pages form a tree satisfying the strict committed-page invariant [PInv] of
   EngineRebalanceFacts (sorted, within the key interval, separators equal to the first key of the page they
   point to, child pages distinct) in EVERY later disk [apply_wr w' P d] whose write set agrees with the
   spill's on the new pages and leaves the kept pages alone; and that no page occurs twice in the new tree
   ([NoDup] of [ppages]). So the invariant of committed states ([BInv] with no root node) is re-established.

   No axioms: every main theorem is closed under the global context (see the end of the file). *)
From Coq Require Import List NArith PeanoNat Bool Lia ZifyN ZifyNat ZifyBool Sorted Permutation.
From Coq.Strings Require Import Byte.
From Jamm Require PL Freelist FreelistFacts EngineAllocFacts EngineFacts EngineBridgeFacts.
From Jamm Require Import Bytes Tree SearchFacts Engine EngineAbs EngineMergeFacts EngineModifyFacts.
From Jamm Require Import EngineSpillFacts EngineRebalanceFacts.
Import ListNotations.
Import Coq.Strings.String.StringSyntax. Delimit Scope string_scope with string.
Local Open Scope list_scope. Local Open Scope N_scope.
Arguments N.add : simpl never. Arguments N.sub : simpl never. Arguments N.mul : simpl never.
Arguments N.div : simpl never. Arguments N.modulo : simpl never.
Arguments N.ltb : simpl never. Arguments N.leb : simpl never. Arguments N.eqb : simpl never.

(* ====================================================================== *)
(** * 0. Lists: disjointness, [NoDup] of [flat_map] *)

Definition disj {A} (a b : list A) : Prop := forall x, In x a -> In x b -> False.

Lemma NoDup_app_iff {A} (a b : list A) : NoDup (a ++ b) <-> NoDup a /\ NoDup b /\ disj a b.
Proof.
  split.
  - intros H. split; [apply (NoDup_app_l _ _ H)|]. split; [apply (NoDup_app_r _ _ H)|].
    intros x Ha Hb. apply (NoDup_app_disj a b x H Ha Hb).
  - intros (Ha & Hb & Hd). apply NoDup_app_intro; assumption.
Qed.

Lemma NoDup_flat_map_intro {A B} (f : A -> list B) : forall l,
  NoDup l -> (forall x, In x l -> NoDup (f x)) ->
  (forall x y, In x l -> In y l -> x <> y -> disj (f x) (f y)) -> NoDup (flat_map f l).
Proof.
  induction l as [|a l IH]; intros Hnd Hf Hd; [constructor|]. cbn [flat_map].
  inversion Hnd as [|? ? Ha Hnd']; subst. apply NoDup_app_iff.
  split; [apply Hf; left; reflexivity|]. split.
  - apply IH; [exact Hnd'| |].
    + intros x Hx. apply Hf. right. exact Hx.
    + intros x y Hx Hy. apply Hd; right; assumption.
  - intros x Hx1 Hx2. apply in_flat_map in Hx2. destruct Hx2 as (y & Hy & Hxy).
    assert (Hne : a <> y) by (intros ->; exact (Ha Hy)).
    exact (Hd a y (or_introl eq_refl) (or_intror Hy) Hne x Hx1 Hxy).
Qed.

Lemma NoDup_flat_map_elim {A B} (f : A -> list B) : forall l x,
  NoDup (flat_map f l) -> In x l -> NoDup (f x).
Proof.
  induction l as [|a l IH]; intros x H Hx; [destruct Hx|]. cbn [flat_map] in H.
  apply NoDup_app_iff in H. destruct H as (H1 & H2 & _). destruct Hx as [->|Hx]; [exact H1|].
  apply IH; assumption.
Qed.

Lemma NoDup_flat_map_disj {A B} (f : A -> list B) : forall l x y,
  NoDup (flat_map f l) -> In x l -> In y l -> x <> y -> disj (f x) (f y).
Proof.
  induction l as [|a l IH]; intros x y H Hx Hy Hne; [destruct Hx|]. cbn [flat_map] in H.
  apply NoDup_app_iff in H. destruct H as (H1 & H2 & H3).
  destruct Hx as [->|Hx], Hy as [->|Hy].
  - contradiction.
  - intros z Hz1 Hz2. apply (H3 z Hz1). apply in_flat_map. exists y. split; assumption.
  - intros z Hz1 Hz2. apply (H3 z Hz2). apply in_flat_map. exists x. split; assumption.
  - apply IH; assumption.
Qed.

Lemma Forall2_compose {A B C} (R1 : A -> B -> Prop) (R2 : B -> C -> Prop) (R : A -> C -> Prop) :
  (forall a b c, R1 a b -> R2 b c -> R a c) ->
  forall la lb lc, Forall2 R1 la lb -> Forall2 R2 lb lc -> Forall2 R la lc.
Proof.
  intros H la lb lc H1. revert lc. induction H1 as [|a b la lb Hab _ IH]; intros lc H2; inversion H2; subst; constructor.
  - eapply H; eassumption.
  - apply IH. assumption.
Qed.

(* ====================================================================== *)
(** * 1. [PInv] and [ppages]: unfolding, monotonicity, tight lower bounds, unchanged pages *)

Lemma PInv_S h d lo hi ok q :
  PInv (S h) d lo hi ok q =
  exists a, dget d q = Some a /\ okey_ok ok (ap_body a) /\
    match ap_body a with
    | Leaves l => sorted_keys (map lkey l) = true /\ Forall (inb lo hi) (map lkey l)
    | Branches es =>
        es <> [] /\ sorted_keys (map fst es) = true /\ NoDup (map snd es) /\
        Forall (inb lo hi) (map fst es) /\
        Forall2 (fun e b => PInv h d (fst b) (snd b) (Some (fst e)) (snd e)) es (cbounds lo (map fst es) hi)
    end.
Proof. reflexivity. Qed.

Lemma ppages_S h d q :
  ppages (S h) d q =
  match dget d q with None => [] | Some a =>
    match ap_body a with
    | Leaves _ => []
    | Branches es => map snd es ++ flat_map (fun e => ppages h d (snd e)) es end end.
Proof. reflexivity. Qed.

(* [PInv h]: height at most h *)
Lemma PInv_mono : forall h d lo hi ok q, PInv h d lo hi ok q -> PInv (S h) d lo hi ok q.
Proof.
  induction h as [|h IH]; intros d lo hi ok q H; [destruct H|].
  rewrite PInv_S in H. rewrite PInv_S. destruct H as (a & Hg & Hok & Hb). exists a.
  split; [exact Hg|]. split; [exact Hok|]. destruct (ap_body a) as [l|es]; [exact Hb|].
  destruct Hb as (H1 & H2 & H3 & H4 & H5). repeat (split; [assumption|]).
  eapply EngineSpillFacts.Forall2_impl; [|exact H5]. intros e b Hp. apply IH, Hp.
Qed.

Lemma PInv_mono_le h h' d lo hi ok q : (h <= h')%nat -> PInv h d lo hi ok q -> PInv h' d lo hi ok q.
Proof. induction 1 as [|h' _ IH]; intros H; [exact H|]. apply PInv_mono, IH, H. Qed.

(* a page filed under the separator k holds keys >= k only: its lower bound can be taken to be k *)
Lemma PInv_tighten : forall h d lo hi k q, PInv h d lo hi (Some k) q -> PInv h d (Some k) hi (Some k) q.
Proof.
  induction h as [|h IH]; intros d lo hi k q H; [destruct H|].
  rewrite PInv_S in H. rewrite PInv_S. destruct H as (a & Hg & Hok & Hb). exists a.
  split; [exact Hg|]. split; [exact Hok|]. cbn [okey_ok] in Hok.
  destruct (ap_body a) as [l|es].
  - destruct Hb as [Hs Hf]. split; [exact Hs|].
    destruct l as [|e r]; [discriminate|]. cbn [first_key] in Hok. inversion Hok as [Ek]. cbn [map] in *.
    destruct (sorted_keys_cons _ _ Hs) as [Hall _]. inversion Hf as [|? ? [_ Hh] Hf']; subst.
    constructor.
    + split; [cbn; rewrite SearchFacts.bcmp_refl; discriminate|exact Hh].
    + rewrite Forall_forall in *. intros x Hx. split; [cbn; rewrite (Hall x Hx); discriminate|apply (Hf' x Hx)].
  - destruct Hb as (Hne & Hs & Hnd & Hf & HC).
    destruct es as [|[k0 q0] r]; [discriminate|]. cbn [first_key fst] in Hok. inversion Hok as [Ek]. subst k0.
    cbn [map fst] in *.
    split; [exact Hne|]. split; [exact Hs|]. split; [exact Hnd|].
    destruct (sorted_keys_cons _ _ Hs) as [Hall _]. inversion Hf as [|? ? [_ Hh] Hf']; subst.
    split.
    + constructor.
      * split; [cbn; rewrite SearchFacts.bcmp_refl; discriminate|exact Hh].
      * rewrite Forall_forall in *. intros x Hx. split; [cbn; rewrite (Hall x Hx); discriminate|apply (Hf' x Hx)].
    + unfold cbounds in *. cbn [cbs] in *. inversion HC as [|? ? ? ? Hc0 HC']; subst.
      constructor; [|exact HC']. cbn [fst snd lo0] in *. apply (IH _ _ _ _ _ Hc0).
Qed.

Section Keep.
  Variables (d d' : disk) (keep : list N).
  Hypothesis Hkeep : forall x, In x keep -> dget d' x = dget d x.

  (* a committed subtree none of whose pages is written satisfies the same invariant afterwards *)
  Lemma PInv_apply_wr_keep : forall h fuel q lo hi ok,
    stable fuel d keep q -> PInv h d lo hi ok q -> PInv h d' lo hi ok q.
  Proof.
    induction h as [|h IH]; intros fuel q lo hi ok Hst H; [destruct H|].
    destruct fuel as [|f]; [destruct Hst|]. cbn [stable] in Hst. destruct Hst as [Hq Hst].
    rewrite PInv_S in H. rewrite PInv_S. destruct H as (a & Hg & Hok & Hb). exists a.
    rewrite Hg in Hst. split; [rewrite (Hkeep q Hq); exact Hg|]. split; [exact Hok|].
    destruct (ap_body a) as [l|es]; [exact Hb|].
    destruct Hb as (H1 & H2 & H3 & H4 & H5). repeat (split; [assumption|]).
    eapply Forall2_impl_in; [|exact H5]. intros e b He Hp. cbn beta in *. apply (IH f); [apply Hst, He|exact Hp].
  Qed.

  Lemma ppages_keep : forall h fuel q, stable fuel d keep q -> ppages h d' q = ppages h d q.
  Proof.
    induction h as [|h IH]; intros fuel q Hst; [reflexivity|].
    destruct fuel as [|f]; [destruct Hst|]. cbn [stable] in Hst. destruct Hst as [Hq Hst].
    rewrite !ppages_S, (Hkeep q Hq). destruct (dget d q) as [a|]; [|reflexivity].
    destruct (ap_body a) as [l|es]; [reflexivity|]. f_equal. apply flat_map_ext_in. intros e He.
    apply (IH f), Hst, He.
  Qed.

  Lemma stable_ppages : forall h fuel q x, stable fuel d keep q -> In x (q :: ppages h d q) -> In x keep.
  Proof.
    induction h as [|h IH]; intros fuel q x Hst Hx; (destruct fuel as [|f]; [destruct Hst|]);
      cbn [stable] in Hst; destruct Hst as [Hq Hst].
    - destruct Hx as [<-|[]]. exact Hq.
    - destruct Hx as [<-|Hx]; [exact Hq|]. rewrite ppages_S in Hx.
      destruct (dget d q) as [a|]; [|destruct Hx]. destruct (ap_body a) as [l|es]; [destruct Hx|].
      apply in_app_or in Hx. destruct Hx as [Hx|Hx].
      + apply in_map_iff in Hx. destruct Hx as (e & <- & He). apply (IH f (snd e)); [apply Hst, He|left; reflexivity].
      + apply in_flat_map in Hx. destruct Hx as (e & He & Hx). apply (IH f (snd e)); [apply Hst, He|right; exact Hx].
  Qed.
End Keep.

(* ====================================================================== *)
(** * 2. A run of entries over strict subtrees: [OutInv], and all pages below them: [tpages] *)

(* every entry (k_i, p_i) heads a strict subtree of height <= h holding keys in [k_i, k_(i+1)), the last one
   in [k_last, hi): exactly what [PInv] asks of the children of a branch page whose lower bound is its first
   separator ([cbounds (Some _)] is [cbs Some]) *)
Definition OutInv (h : nat) (d : disk) (es : list (bytes * N)) (hi : option bytes) : Prop :=
  Forall2 (fun e b => PInv h d (fst b) (snd b) (Some (fst e)) (snd e)) es (cbs Some (map fst es) hi).

(* the pages of the entries and every page below them *)
Definition tpages (h : nat) (d : disk) (es : list (bytes * N)) : list N :=
  flat_map (fun e => snd e :: ppages h d (snd e)) es.

Lemma cbounds_Some k seps hi : cbounds (Some k) seps hi = cbs Some seps hi.
Proof. reflexivity. Qed.

Lemma cbs_Some_app a s b hi : cbs Some (a ++ s :: b) hi = cbs Some a (Some s) ++ cbs Some (s :: b) hi.
Proof. rewrite cbs_app. destruct a; reflexivity. Qed.

Lemma OutInv_app h d a e b hi :
  OutInv h d a (Some (fst e)) -> OutInv h d (e :: b) hi -> OutInv h d (a ++ e :: b) hi.
Proof.
  unfold OutInv. intros H1 H2. rewrite map_app. cbn [map]. rewrite cbs_Some_app. apply Forall2_app; assumption.
Qed.

Lemma OutInv_app_inv h d a e b hi :
  OutInv h d (a ++ e :: b) hi -> OutInv h d a (Some (fst e)) /\ OutInv h d (e :: b) hi.
Proof.
  unfold OutInv. rewrite map_app. cbn [map]. rewrite cbs_Some_app. intros H.
  apply Forall2_app_inv_l in H. destruct H as (b1 & b2 & H1 & H2 & E).
  pose proof H1 as L1. apply Forall2_length in L1.
  assert (El : List.length b1 = List.length (cbs Some (map fst a) (Some (fst e)))).
  { rewrite <- L1, cbs_length, map_length. reflexivity. }
  destruct (app_eq_app _ _ _ _ E) as (l & [[E1 E2]|[E1 E2]]).
  - rewrite E1, app_length in El. destruct l; [|cbn [List.length] in El; lia].
    rewrite app_nil_r in E1. cbn [app] in E2. subst b1 b2. split; assumption.
  - rewrite E1, app_length in El. destruct l; [|cbn [List.length] in El; lia].
    rewrite app_nil_r in E1. cbn [app] in E2. subst b1. rewrite E2. split; assumption.
Qed.

Lemma OutInv_nil h d hi : OutInv h d [] hi.
Proof. constructor. Qed.

Lemma OutInv_app_nil h d a hi : OutInv h d (a ++ []) hi <-> OutInv h d a hi.
Proof. rewrite app_nil_r. reflexivity. Qed.

(* only the last entry sees the upper bound *)
Lemma OutInv_hi_weaken h d : forall es hh hh', hi_le hh hh' -> OutInv h d es hh -> OutInv h d es hh'.
Proof.
  unfold OutInv. induction es as [|e es IH]; intros hh hh' Hle H; [constructor|].
  cbn [map cbs] in *. inversion H as [|? ? ? ? H0 H']; subst. constructor.
  - destruct es as [|e' es']; cbn [map nxt fst snd] in *; [|exact H0].
    eapply PInv_weaken; [apply lo_le_refl|exact Hle|exact H0].
  - apply (IH hh hh' Hle H').
Qed.

Lemma OutInv_mono h d es hi : OutInv h d es hi -> OutInv (S h) d es hi.
Proof. unfold OutInv. apply EngineSpillFacts.Forall2_impl. intros e b. apply PInv_mono. Qed.

Lemma OutInv_single h d k q hi : PInv h d (Some k) hi (Some k) q <-> OutInv h d [(k, q)] hi.
Proof.
  unfold OutInv. cbn [map cbs nxt fst]. split.
  - intros H. constructor; [exact H|constructor].
  - intros H. inversion H; subst. assumption.
Qed.

Lemma tpages_app h d a b : tpages h d (a ++ b) = tpages h d a ++ tpages h d b.
Proof. unfold tpages. apply flat_map_app. Qed.

Lemma tpages_flat_map h d (g : bytes * N -> list (bytes * N)) es :
  tpages h d (flat_map g es) = flat_map (fun e => tpages h d (g e)) es.
Proof. unfold tpages. apply EngineSpillFacts.flat_map_flat_map. Qed.

Lemma tpages_snd h d es q : In q (map snd es) -> In q (tpages h d es).
Proof.
  intros H. apply in_map_iff in H. destruct H as (e & <- & He). apply in_flat_map. exists e.
  split; [exact He|left; reflexivity].
Qed.

Lemma tpages_NoDup_snd h d : forall es, NoDup (tpages h d es) -> NoDup (map snd es).
Proof.
  induction es as [|e es IH]; intros H; [constructor|]. unfold tpages in H. cbn [flat_map app] in H.
  inversion H as [|? ? Hn H']; subst. apply NoDup_app_iff in H'. destruct H' as (_ & H2 & _).
  cbn [map]. constructor; [|apply IH, H2]. intros Hi. apply Hn. apply in_or_app. right. apply tpages_snd, Hi.
Qed.

(* replacing every entry by a run of entries over strict subtrees within the entry's interval *)
Lemma OutInv_segs h d (g : bytes * N -> list (bytes * N)) : forall es lo hi,
  (forall l hh e, In (l, hh, e) (chb lo hi es) -> keys_ok l hh (map fst (g e)) /\ OutInv h d (g e) hh) ->
  OutInv h d (flat_map g es) hi.
Proof.
  induction es as [|e es IH]; intros lo hi Hg; [constructor|]. cbn [flat_map]. cbn [chb] in Hg.
  destruct es as [|e' es''].
  - cbn [flat_map]. rewrite app_nil_r. apply (Hg lo hi e). left. reflexivity.
  - set (es' := e' :: es'') in *.
    destruct (Hg lo (Some (fst e')) e (or_introl eq_refl)) as [_ He].
    assert (IH' : OutInv h d (flat_map g es') hi).
    { apply (IH (Some (fst e')) hi). intros l hh e0 Hi. apply Hg. right. exact Hi. }
    assert (Hc : In (Some (fst e'), match es'' with [] => hi | e2 :: _ => Some (fst e2) end, e')
                    (chb (Some (fst e')) hi es')) by (left; reflexivity).
    destruct (Hg _ _ _ (or_intror Hc)) as [(Hne & _ & Hr) _].
    unfold es' in *. cbn [flat_map] in *. destruct (g e') as [|x r]; [exfalso; apply Hne; reflexivity|].
    cbn [app] in *. apply OutInv_app; [|exact IH'].
    eapply OutInv_hi_weaken; [|exact He]. cbn [hi_le].
    destruct (Hr (fst x) (or_introl eq_refl)) as [Hlo _]. exact Hlo.
Qed.

(* cutting a run into consecutive non-empty pieces: piece i ends where piece i+1 starts *)
Lemma OutInv_pieces h d : forall pieces ks hi,
  Forall2 (fun k (piece : list (bytes * N)) => exists r, map fst piece = k :: r) ks pieces ->
  OutInv h d (concat pieces) hi ->
  Forall2 (fun piece b => OutInv h d piece (snd b)) pieces (cbs Some ks hi).
Proof.
  intros pieces ks hi H. revert hi. induction H as [|k piece ks pieces (r & Er) H2 IH]; intros hi Ho; [constructor|].
  cbn [concat] in Ho. cbn [cbs]. destruct H2 as [|k2 p2 ks' pieces' (r2 & Er2) H2'].
  - cbn [concat] in Ho. rewrite app_nil_r in Ho. constructor; [exact Ho|constructor].
  - cbn [concat] in Ho. destruct p2 as [|e2 p2']; [discriminate|]. cbn [map] in Er2. injection Er2 as Ek2 _.
    cbn [app] in Ho. apply OutInv_app_inv in Ho. destruct Ho as [Ho1 Ho2]. rewrite Ek2 in Ho1.
    constructor; [exact Ho1|]. apply IH. exact Ho2.
Qed.

(* the keys of piece i lie in [k_i, k_(i+1)), those of the last piece in [k_last, hi) *)
Lemma pieces_inb : forall (kpieces : list (list bytes)) ks hi,
  Forall2 (fun k piece => exists r, piece = k :: r) ks kpieces ->
  sorted_keys (concat kpieces) = true -> Forall (fun k => lt_hi k hi) (concat kpieces) ->
  Forall2 (fun piece b => sorted_keys piece = true /\ Forall (inb (fst b) (snd b)) piece) kpieces (cbs Some ks hi).
Proof.
  intros kpieces ks hi H. induction H as [|k piece ks kpieces (r & Er) H2 IH]; intros Hs Hh; [constructor|].
  cbn [concat] in Hs, Hh. cbn [cbs]. destruct (sorted_keys_app _ _ Hs) as [Hs1 Hs2].
  apply Forall_app in Hh. destruct Hh as [Hh1 Hh2].
  constructor; [|apply IH; assumption]. split; [exact Hs1|]. cbn [fst snd].
  apply Forall_forall. intros x Hx. split.
  - subst piece. cbn. destruct Hx as [<-|Hx]; [rewrite SearchFacts.bcmp_refl; discriminate|].
    destruct (sorted_keys_cons _ _ Hs1) as [Hall _]. rewrite Forall_forall in Hall. rewrite (Hall x Hx). discriminate.
  - destruct H2 as [|k2 p2 ks' kpieces' (r2 & Er2) _]; cbn [nxt].
    + rewrite Forall_forall in Hh1. apply Hh1, Hx.
    + cbn. apply (sorted_app_cross _ _ x k2 Hs Hx). cbn [concat]. subst p2. left. reflexivity.
Qed.

(* ====================================================================== *)
(** * 3. One level of freshly written pages over a run of strict subtrees *)

Lemma page_PInv d' h p a dd k hb :
  dget d' p = Some a -> ap_body a = dd -> first_key dd = Ok k ->
  sorted_keys (dkeys dd) = true -> Forall (inb (Some k) hb) (dkeys dd) ->
  (forall es, dd = Branches es -> NoDup (map snd es) /\ OutInv h d' es hb) ->
  PInv (S h) d' (Some k) hb (Some k) p.
Proof.
  intros Hg Hb Hfk Hs Hf Hes. rewrite PInv_S. exists a. split; [exact Hg|]. rewrite Hb.
  split; [exact Hfk|]. destruct dd as [l|es]; cbn [dkeys] in *; [split; assumption|].
  destruct (Hes es eq_refl) as [Hnd Ho].
  split; [intros ->; discriminate|]. split; [exact Hs|]. split; [exact Hnd|]. split; [exact Hf|].
  rewrite cbounds_Some. exact Ho.
Qed.

(* the written pages, given their bodies [dds] (the pieces of a split), the order of all keys, and what the
   entries of the branch pieces point to *)
Lemma level_OutInv d' h : forall (out : list (bytes * N)) (dds : list ndata),
  Forall2 (fun sb dd => first_key dd = Ok (fst sb) /\ exists a, dget d' (snd sb) = Some a /\ ap_body a = dd) out dds ->
  forall hi, sorted_keys (concat (map dkeys dds)) = true ->
  Forall (fun k => lt_hi k hi) (concat (map dkeys dds)) ->
  Forall2 (fun dd b => forall es, dd = Branches es -> NoDup (map snd es) /\ OutInv h d' es (snd b))
          dds (cbs Some (map fst out) hi) ->
  OutInv (S h) d' out hi.
Proof.
  intros out dds H. induction H as [|sb dd out dds (Hfk & a & Hg & Hb) H2 IH]; intros hi Hs Hh Hc; [constructor|].
  cbn [map concat] in Hs, Hh. cbn [map cbs] in Hc. inversion Hc as [|x1 y1 l1 l2 Hc0 Hc' E1 E2]. subst x1 y1 l1 l2.
  destruct (sorted_keys_app _ _ Hs) as [Hs1 Hs2]. apply Forall_app in Hh. destruct Hh as [Hh1 Hh2].
  unfold OutInv. cbn [map cbs]. constructor; [|apply IH; assumption]. cbn [fst snd] in *.
  apply (page_PInv d' h (snd sb) a dd (fst sb) _ Hg Hb Hfk Hs1); [|exact Hc0].
  destruct (EngineSpillFacts.first_key_dkeys _ _ Hfk) as [r Er].
  apply Forall_forall. intros x Hx. split.
  - rewrite Er in Hx, Hs1. cbn. destruct Hx as [<-|Hx]; [rewrite SearchFacts.bcmp_refl; discriminate|].
    destruct (sorted_keys_cons _ _ Hs1) as [Hall _]. rewrite Forall_forall in Hall. rewrite (Hall x Hx). discriminate.
  - destruct H2 as [|sb2 dd2 out' dds' (Hfk2 & _) _]; cbn [map nxt].
    + rewrite Forall_forall in Hh1. apply Hh1, Hx.
    + cbn. apply (sorted_app_cross _ _ x (fst sb2) Hs Hx). cbn [map concat].
      destruct (EngineSpillFacts.first_key_dkeys _ _ Hfk2) as [r2 Er2]. rewrite Er2. left. reflexivity.
Qed.

Lemma tpages_perm h d : forall l,
  Permutation (tpages h d l) (map snd l ++ flat_map (fun e => ppages h d (snd e)) l).
Proof.
  induction l as [|e l IH]; [constructor|]. unfold tpages in *. cbn [flat_map map app]. apply perm_skip.
  rewrite IH. apply Permutation_app_swap_app.
Qed.

Lemma tpages_branch_page d' h p a piece :
  dget d' p = Some a -> ap_body a = Branches piece ->
  Permutation (ppages (S h) d' p) (tpages h d' piece).
Proof. intros Hg Hb. rewrite ppages_S, Hg, Hb. symmetry. apply tpages_perm. Qed.

Lemma branch_tpages d' h : forall out pieces,
  Forall2 (fun (sb : bytes * N) piece => exists a, dget d' (snd sb) = Some a /\ ap_body a = Branches piece) out pieces ->
  (forall x, In x (tpages (S h) d' out) <-> In x (map snd out) \/ In x (tpages h d' (concat pieces))) /\
  (NoDup (tpages h d' (concat pieces)) -> NoDup (map snd out) ->
   (forall q, In q (map snd out) -> ~ In q (tpages h d' (concat pieces))) -> NoDup (tpages (S h) d' out)).
Proof.
  intros out pieces H. induction H as [|sb piece out pieces (a & Hg & Hb) _ [IH1 IH2]].
  - split; [intros x; cbn; tauto|]. intros _ _ _. constructor.
  - pose proof (tpages_branch_page d' h _ _ _ Hg Hb) as Hp.
    assert (Hin : forall x, In x (tpages (S h) d' (sb :: out)) <->
                            In x (map snd (sb :: out)) \/ In x (tpages h d' (concat (piece :: pieces)))).
    { intros x. cbn [concat]. rewrite tpages_app. unfold tpages at 1. cbn [flat_map map].
      fold (tpages (S h) d' out). cbn [In]. rewrite !in_app_iff, IH1.
      split.
      - intros [[E|Hx]|[Hx|Hx]]; try tauto. right. left. apply (Permutation_in _ Hp Hx).
      - cbn [In]. intros [[E|Hx]|[Hx|Hx]]; try tauto. left. right. apply (Permutation_in _ (Permutation_sym Hp) Hx). }
    split; [exact Hin|]. intros Hnd Hnds Hnew. cbn [concat] in Hnd, Hnew. rewrite tpages_app in Hnd, Hnew.
    apply NoDup_app_iff in Hnd. destruct Hnd as (Hnd1 & Hnd2 & Hd12). cbn [map] in Hnds, Hnew.
    inversion Hnds as [|? ? Hq Hnds']; subst.
    unfold tpages at 1. cbn [flat_map]. fold (tpages (S h) d' out).
    assert (Hnew' : forall q, In q (map snd out) -> ~ In q (tpages h d' (concat pieces))).
    { intros q Hq' Hi. apply (Hnew q (or_intror Hq')). apply in_or_app. right. exact Hi. }
    specialize (IH2 Hnd2 Hnds' Hnew').
    change (snd sb :: ppages (S h) d' (snd sb) ++ tpages (S h) d' out)
      with ((snd sb :: ppages (S h) d' (snd sb)) ++ tpages (S h) d' out).
    apply NoDup_app_iff. split; [|split; [exact IH2|]].
    + constructor.
      * intros Hi. apply (Hnew (snd sb) (or_introl eq_refl)). apply in_or_app. left. apply (Permutation_in _ Hp Hi).
      * apply (Permutation_NoDup (Permutation_sym Hp) Hnd1).
    + intros x Hx1 Hx2. apply IH1 in Hx2. destruct Hx1 as [<-|Hx1].
      * destruct Hx2 as [Hx2|Hx2]; [exact (Hq Hx2)|].
        apply (Hnew (snd sb) (or_introl eq_refl)). apply in_or_app. right. exact Hx2.
      * apply (Permutation_in _ Hp) in Hx1. destruct Hx2 as [Hx2|Hx2].
        -- apply (Hnew x (or_intror Hx2)). apply in_or_app. left. exact Hx1.
        -- exact (Hd12 x Hx1 Hx2).
Qed.

Lemma leaf_tpages d' h : forall out (ls : list (list leafent)),
  Forall2 (fun (sb : bytes * N) piece => exists a, dget d' (snd sb) = Some a /\ ap_body a = Leaves piece) out ls ->
  tpages (S h) d' out = map snd out.
Proof.
  intros out ls H. induction H as [|sb piece out ls (a & Hg & Hb) _ IH]; [reflexivity|].
  unfold tpages in *. cbn [flat_map map]. rewrite IH, ppages_S, Hg, Hb. reflexivity.
Qed.

Lemma leaf_tpages_gen d' h : forall (out : list (bytes * N)) (dds : list ndata),
  Forall2 (fun sb dd => first_key dd = Ok (fst sb) /\ exists a, dget d' (snd sb) = Some a /\ ap_body a = dd) out dds ->
  Forall (fun dd => is_leaf dd = true) dds ->
  tpages (S h) d' out = map snd out.
Proof.
  intros out dds H. induction H as [|sb dd out dds (_ & a & Hg & Hb) _ IH]; intros Hl; [reflexivity|].
  inversion Hl as [|? ? Hl1 Hl2]; subst. unfold tpages in *. cbn [flat_map map]. rewrite (IH Hl2), ppages_S, Hg.
  destruct (ap_body a); [reflexivity|discriminate].
Qed.

Lemma leaf_ppages_nil d' h : forall (out : list (bytes * N)) (dds : list ndata),
  Forall2 (fun sb dd => first_key dd = Ok (fst sb) /\ exists a, dget d' (snd sb) = Some a /\ ap_body a = dd) out dds ->
  Forall (fun dd => is_leaf dd = true) dds ->
  forall e, In e out -> ppages (S h) d' (snd e) = [].
Proof.
  intros out dds H. induction H as [|sb dd out dds (_ & a & Hg & Hb) _ IH]; intros Hl e He; [destruct He|].
  inversion Hl as [|? ? Hl1 Hl2]; subst. destruct He as [<-|He]; [|apply (IH Hl2 e He)].
  rewrite ppages_S, Hg. destruct (ap_body a); [reflexivity|discriminate].
Qed.

Lemma Forall2_map_l {A B C} (R : B -> C -> Prop) (f : A -> B) : forall la lc,
  Forall2 (fun a c => R (f a) c) la lc -> Forall2 R (map f la) lc.
Proof. induction 1; cbn [map]; constructor; auto. Qed.

Lemma Forall2_trivial {A B} (R : A -> B -> Prop) : forall la lb,
  List.length la = List.length lb -> (forall a b, In a la -> R a b) -> Forall2 R la lb.
Proof.
  induction la as [|a la IH]; intros [|b lb] Hl HR; try discriminate; constructor.
  - apply HR. left. reflexivity.
  - apply IH; [cbn [List.length] in Hl; lia|]. intros a0 b0 Ha. apply HR. right. exact Ha.
Qed.

Lemma NoDup_concat_piece : forall (pieces : list (list (bytes * N))) piece,
  NoDup (map snd (concat pieces)) -> In piece pieces -> NoDup (map snd piece).
Proof.
  induction pieces as [|p0 pieces IH]; intros piece H Hi; [destruct Hi|]. cbn [concat] in H. rewrite map_app in H.
  apply NoDup_app_iff in H. destruct H as (H1 & H2 & _). destruct Hi as [->|Hi]; [exact H1|apply IH; assumption].
Qed.

(* what the tail of [spill_node] wrote, read on a later disk *)
Lemma pieces_disk2 w w' P d : forall sbs dds,
  Forall2 (piece_written w) sbs dds -> wr_agree (map snd sbs) w w' ->
  Forall2 (fun sb dd => first_key dd = Ok (fst sb) /\
                        exists a, dget (apply_wr w' P d) (snd sb) = Some a /\ ap_body a = dd) sbs dds.
Proof.
  induction 1 as [|sb dd sbs dds [Hf Hg] _ IH]; intros Hag; constructor.
  - split; [exact Hf|]. exists (mk_apage P (40 + dsize dd, dd)). split; [|reflexivity]. apply dget_apply_wr_some.
    rewrite Hag; [exact Hg|]. left. reflexivity.
  - apply IH. intros q Hq. apply Hag. right. exact Hq.
Qed.

Lemma branch_heads : forall (out : list (bytes * N)) (pieces : list (list (bytes * N))) (Q : N -> list (bytes * N) -> Prop),
  Forall2 (fun sb piece => first_key (Branches piece) = Ok (fst sb) /\ Q (snd sb) piece) out pieces ->
  Forall2 (fun k (piece : list (bytes * N)) => exists r, map fst piece = k :: r) (map fst out) pieces.
Proof.
  intros out pieces Q H. induction H as [|sb piece out pieces [Hf _] _ IH]; cbn [map]; constructor; [|exact IH].
  destruct piece as [|e r]; [discriminate|]. cbn [first_key] in Hf. inversion Hf. exists (map fst r). reflexivity.
Qed.

(* the pages written by the tail of [spill_node] for a leaf ... *)
Lemma leaf_tail_wf d' h0 (out : list (bytes * N)) l d0 rest s hi :
  split s (Leaves l) = (d0, rest) ->
  Forall2 (fun sb dd => first_key dd = Ok (fst sb) /\ exists a, dget d' (snd sb) = Some a /\ ap_body a = dd) out (d0 :: rest) ->
  sorted_keys (map lkey l) = true -> (forall k, In k (map lkey l) -> lt_hi k hi) ->
  OutInv (S h0) d' out hi /\ tpages (S h0) d' out = map snd out /\
  (forall e, In e out -> ppages (S h0) d' (snd e) = []).
Proof.
  intros Esp Hd2 Hs Hh. pose proof (split_dkeys _ _ _ _ Esp) as Hdk. cbn [dkeys] in Hdk.
  destruct (split_leaves s l) as (l0 & ls & Esp' & _). rewrite Esp' in Esp. inversion Esp; subst d0 rest.
  assert (Hleaf : Forall (fun dd => is_leaf dd = true) (Leaves l0 :: map Leaves ls)).
  { constructor; [reflexivity|]. apply Forall_forall. intros dd Hdd. apply in_map_iff in Hdd.
    destruct Hdd as (x & <- & _). reflexivity. }
  split; [|split; [apply (leaf_tpages_gen d' h0 _ _ Hd2 Hleaf)|apply (leaf_ppages_nil d' h0 _ _ Hd2 Hleaf)]].
  apply (level_OutInv d' h0 out _ Hd2 hi).
  - rewrite Hdk. exact Hs.
  - rewrite Hdk. apply Forall_forall. exact Hh.
  - apply Forall2_trivial.
    + pose proof Hd2 as L. apply Forall2_length in L. rewrite <- L, cbs_length, map_length. reflexivity.
    + intros dd b Hdd es0 E. rewrite Forall_forall in Hleaf. specialize (Hleaf dd Hdd). subst dd. discriminate.
Qed.

(* ... and for a branch whose entries [es_fin] head strict subtrees *)
Lemma branch_tail_wf d' h0 (out es_fin : list (bytes * N)) d0 rest s1 hi :
  split s1 (Branches es_fin) = (d0, rest) ->
  Forall2 (fun sb dd => first_key dd = Ok (fst sb) /\ exists a, dget d' (snd sb) = Some a /\ ap_body a = dd) out (d0 :: rest) ->
  sorted_keys (map fst es_fin) = true -> (forall k, In k (map fst es_fin) -> lt_hi k hi) ->
  OutInv h0 d' es_fin hi -> NoDup (tpages h0 d' es_fin) ->
  NoDup (map snd out) -> (forall q, In q (map snd out) -> ~ In q (tpages h0 d' es_fin)) ->
  OutInv (S h0) d' out hi /\ NoDup (tpages (S h0) d' out) /\
  (forall x, In x (tpages (S h0) d' out) <-> In x (map snd out) \/ In x (tpages h0 d' es_fin)).
Proof.
  intros Esp Hd2 Hs Hh HO HND Hndo Hnew. pose proof (split_dkeys _ _ _ _ Esp) as Hdk. cbn [dkeys] in Hdk.
  destruct (split_branches s1 es_fin) as (e0 & ess & Esp' & Hcat & _). rewrite Esp' in Esp.
  inversion Esp; subst d0 rest. clear Esp.
  change (Branches e0 :: map Branches ess) with (map Branches (e0 :: ess)) in *.
  change (e0 ++ concat ess) with (concat (e0 :: ess)) in Hcat.
  set (pieces := e0 :: ess) in *.
  pose proof (proj1 (Forall2_map_r _ Branches _ pieces) Hd2) as Hd3. cbn beta in Hd3.
  assert (Hbt : Forall2 (fun (sb : bytes * N) piece => exists a, dget d' (snd sb) = Some a /\ ap_body a = Branches piece) out pieces).
  { eapply EngineSpillFacts.Forall2_impl; [|exact Hd3]. intros sb piece [_ Ha]. exact Ha. }
  destruct (branch_tpages d' h0 out pieces Hbt) as [Hmem Hnd]. rewrite Hcat in Hmem, Hnd.
  split; [|split; [apply Hnd; assumption|exact Hmem]].
  apply (level_OutInv d' h0 out _ Hd2 hi).
  - rewrite Hdk. exact Hs.
  - rewrite Hdk. apply Forall_forall. exact Hh.
  - apply Forall2_map_l.
    pose proof (branch_heads out pieces
                  (fun q b => exists a0 : apage, dget d' q = Some a0 /\ ap_body a0 = Branches b) Hd3) as Hheads.
    rewrite <- Hcat in HO. pose proof (OutInv_pieces h0 d' pieces (map fst out) hi Hheads HO) as Hop.
    eapply Forall2_impl_in; [|exact Hop]. intros piece b Hpi Hob es0 E. inversion E; subst es0. split; [|exact Hob].
    apply (NoDup_concat_piece pieces piece); [|exact Hpi]. rewrite Hcat. apply (tpages_NoDup_snd h0 d'), HND.
Qed.

(* ====================================================================== *)
(** * 4. The hypotheses on the overlay, with heights and strict committed subtrees *)

(* [swf] of EngineSpillFacts, plus: the node has height at most h (all children of a branch one level below),
   and every child page q without a kid satisfies, on the OLD disk, the strict invariant under its separator
   and below the next one. Lower bound: none is asked ([PInv_tighten] recovers the separator). *)
Inductive swfh (fuel : nat) (d : disk) (keep : list N) : nat -> option bytes -> option bytes -> node -> Prop :=
| swfh_leaf h lo hi pg npg o sq l :
    keys_ok lo hi (map lkey l) ->
    swfh fuel d keep (S h) lo hi (Node pg npg o sq (Leaves l) [])
| swfh_branch h lo hi pg npg o sq es kids :
    keys_ok lo hi (map fst es) ->
    NoDup (map snd es) -> NoDup (map n_page kids) ->
    (forall kd, In kd kids -> exists k, n_orig kd = Some k /\ In (k, n_page kd) es) ->
    (forall l hh e kd, In (l, hh, e) (chb lo hi es) -> find_kid (snd e) kids = Some kd -> swfh fuel d keep h l hh kd) ->
    (forall l hh e, In (l, hh, e) (chb lo hi es) -> find_kid (snd e) kids = None ->
       stable fuel d keep (snd e) /\ PInv h d None hh (Some (fst e)) (snd e)) ->
    swfh fuel d keep (S h) lo hi (Node pg npg o sq (Branches es) kids).

(* the pages of the committed subtrees that the overlay keeps (the children without a kid, and all below) *)
Fixpoint upages (h : nat) (d : disk) (n : node) : list N :=
  match h with O => [] | S h' =>
    match n with
    | Node _ _ _ _ (Leaves _) _ => []
    | Node _ _ _ _ (Branches es) ks =>
        flat_map (fun e => match find_kid (snd e) ks with
                           | Some kd => upages h' d kd
                           | None => snd e :: ppages h' d (snd e) end) es
    end end.

Lemma swfh_swf fuel d keep : forall h lo hi n, swfh fuel d keep h lo hi n -> swf fuel d keep lo hi n.
Proof.
  induction h as [|h IH]; intros lo hi n H; inversion H as [? ? ? ? ? ? ? ? Hk|? ? ? ? ? ? ? ? ? Hk H1 H2 H3 H4 H5]; subst.
  - apply swf_leaf. exact Hk.
  - apply swf_branch; try assumption.
    + intros l hh e kd Hi Hf. apply IH. apply (H4 l hh e kd Hi Hf).
    + intros e He Hf. destruct (chb_In lo hi es e He) as (l & hh & Hi). apply (H5 l hh e Hi Hf).
Qed.

Lemma swfh_pos fuel d keep h lo hi n : swfh fuel d keep h lo hi n -> exists h', h = S h'.
Proof. intros H. inversion H; subst; eexists; reflexivity. Qed.

Lemma swfh_upages_keep fuel d keep : forall h lo hi n, swfh fuel d keep h lo hi n ->
  forall x, In x (upages h d n) -> In x keep.
Proof.
  induction h as [|h IH]; intros lo hi n H x Hx; inversion H as [? ? ? ? ? ? ? ? Hk|? ? ? ? ? ? ? ? ? Hk H1 H2 H3 H4 H5]; subst.
  - destruct Hx.
  - cbn [upages] in Hx. apply in_flat_map in Hx. destruct Hx as (e & He & Hx).
    destruct (chb_In lo hi es e He) as (l & hh & Hi).
    destruct (find_kid (snd e) kids) as [kd|] eqn:Hf.
    + apply (IH _ _ _ (H4 l hh e kd Hi Hf) x Hx).
    + destruct (H5 l hh e Hi Hf) as [Hst _]. apply (stable_ppages d keep h fuel (snd e) x Hst Hx).
Qed.

Lemma chb_fun : forall (es : list (bytes * N)) lo hi l hh l' hh' e, NoDup es ->
  In (l, hh, e) (chb lo hi es) -> In (l', hh', e) (chb lo hi es) -> l = l' /\ hh = hh'.
Proof.
  induction es as [|e0 es IH]; intros lo hi l hh l' hh' e Hnd H1 H2; [destruct H1|].
  inversion Hnd as [|? ? Hn Hnd']; subst. cbn [chb] in H1, H2. destruct H1 as [H1|H1], H2 as [H2|H2].
  - inversion H1; inversion H2; subst. split; reflexivity.
  - inversion H1; subst. exfalso. apply Hn. apply (chb_In_inv _ _ _ _ _ _ H2).
  - inversion H2; subst. exfalso. apply Hn. apply (chb_In_inv _ _ _ _ _ _ H1).
  - apply (IH _ _ _ _ _ _ _ Hnd' H1 H2).
Qed.

Lemma NoDup_map_snd_NoDup (es : list (bytes * N)) : NoDup (map snd es) -> NoDup es.
Proof. apply NoDup_map_inv. Qed.

(** ** statements about every later disk *)
Definition later (d : disk) (keep good : list N) (s' : txs) (Q : disk -> Prop) : Prop :=
  forall w' P, wr_agree good (wr s') w' -> (forall x, In x keep -> wr_get w' x = None) -> Q (apply_wr w' P d).

Lemma later_mono d keep good good2 s' s2 (Q : disk -> Prop) :
  later d keep good s' Q ->
  (forall q, In q good -> In q good2) ->
  (forall q, In q good -> wr_get (wr s2) q = wr_get (wr s') q) ->
  later d keep good2 s2 Q.
Proof.
  intros H Hsub Hwr w' P Hag Hk. apply H; [|exact Hk].
  intros q Hq. rewrite (Hag q (Hsub q Hq)). apply Hwr, Hq.
Qed.

(* the entries [out] returned by a spill: strict subtrees of height <= h in consecutive intervals up to hi,
   no page twice, every page new ([good]) or a kept committed page of [U] *)
Definition wf_out (h : nat) (d : disk) (keep good : list N) (s' : txs)
                  (out : list (bytes * N)) (hi : option bytes) (U : list N) : Prop :=
  later d keep good s' (fun d' =>
    OutInv h d' out hi /\ NoDup (tpages h d' out) /\ forall x, In x (tpages h d' out) -> In x good \/ In x U).

Lemma wf_out_mono h d keep good good2 s' s2 out hi U :
  wf_out h d keep good s' out hi U ->
  (forall q, In q good -> In q good2) ->
  (forall q, In q good -> wr_get (wr s2) q = wr_get (wr s') q) ->
  wf_out h d keep good2 s2 out hi U.
Proof.
  intros H Hsub Hwr w' P Hag Hk.
  assert (Hag' : wr_agree good (wr s') w').
  { intros q Hq. rewrite (Hag q (Hsub q Hq)). apply Hwr, Hq. }
  destruct (H w' P Hag' Hk) as (A & B & C). split; [exact A|]. split; [exact B|].
  intros x Hx. destruct (C x Hx) as [C1|C1]; [left; apply Hsub, C1|right; exact C1].
Qed.

(* ====================================================================== *)
(** * 5. [spill_node]: the specification of EngineSpillFacts with the same witnesses, plus [wf_out] *)
Section Spill2.
  Variables (fuel : nat) (d : disk) (keep : list N).

  Definition spill_spec2 (f : nat) : Prop :=
    forall live lo hi n s orig fk p sibs s' h,
      fresh_inv live s -> (forall x, In x keep -> In x live) ->
      swfh fuel d keep h lo hi n -> NoDup (upages h d n) ->
      spill_node f n s = Ok ((orig, (fk, p), sibs), s') ->
      exists alloc dead good,
        frame live s s' alloc dead /\ (forall q, In q good -> In q alloc) /\
        (forall q, In q (p :: map snd sibs) -> In q good) /\
        orig = n_orig n /\
        keys_ok lo hi (map fst ((fk, p) :: sibs)) /\
        NoDup (p :: map snd sibs) /\ (forall x, old_run n x -> In x dead) /\
        ents_ok d keep good s' (ndepth n + fuel) ((fk, p) :: sibs) (view_leaves fuel d n) /\
        (forall L, (forall x, In x L -> In x live) -> old_in L n ->
           forall x, In x dead -> (In x L \/ In x alloc) /\ ~ In x good) /\
        wf_out h d keep good s' ((fk, p) :: sibs) hi (upages h d n).

  Section Fold2.
    Variables (f h' : nat) (lo hi : option bytes) (es : list (bytes * N)) (kids : list node).
    Hypothesis IHf : spill_spec2 f.
    Hypothesis Hes : keys_ok lo hi (map fst es).
    Hypothesis Hnd_es : NoDup (map snd es).
    Hypothesis Hnd_kids : NoDup (map n_page kids).
    Hypothesis Horig : forall kd, In kd kids -> exists k, n_orig kd = Some k /\ In (k, n_page kd) es.
    Hypothesis Hkids : forall l hh e kd, In (l, hh, e) (chb lo hi es) -> find_kid (snd e) kids = Some kd ->
                                         swfh fuel d keep h' l hh kd.
    Hypothesis Hup_nd : forall kd, In kd kids -> NoDup (upages h' d kd).
    Hypothesis Hup_disj : forall k1 k2, In k1 kids -> In k2 kids -> n_page k1 <> n_page k2 ->
                                        disj (upages h' d k1) (upages h' d k2).

    Lemma kid_swfh kd : In kd kids ->
      exists l hh k, In (l, hh, (k, n_page kd)) (chb lo hi es) /\ swfh fuel d keep h' l hh kd.
    Proof.
      intros Hkd. destruct (Horig kd Hkd) as (k & _ & Hin). destruct (chb_In lo hi es _ Hin) as (l & hh & Hc).
      exists l, hh, k. split; [exact Hc|].
      apply (Hkids l hh (k, n_page kd) kd Hc). apply (EngineSpillFacts.find_kid_NoDup kids kd Hnd_kids Hkd).
    Qed.

    Lemma kid_upages_keep kd : In kd kids -> forall x, In x (upages h' d kd) -> In x keep.
    Proof.
      intros Hkd. destruct (kid_swfh kd Hkd) as (l & hh & k & _ & Hs). apply (swfh_upages_keep _ _ _ _ _ _ _ Hs).
    Qed.

    Lemma chb_entry_fun l hh k l' hh' k' q :
      In (l, hh, (k, q)) (chb lo hi es) -> In (l', hh', (k', q)) (chb lo hi es) -> k = k' /\ hh = hh'.
    Proof.
      intros H1 H2.
      assert (E : (k, q) = (k', q)).
      { apply (NoDup_map_inj snd es _ _ Hnd_es (chb_In_inv _ _ _ _ _ _ H1) (chb_In_inv _ _ _ _ _ _ H2)). reflexivity. }
      inversion E; subst k'. split; [reflexivity|].
      apply (chb_fun es lo hi l hh l' hh' (k, q) (NoDup_map_snd_NoDup es Hnd_es) H1 H2).
    Qed.

    Lemma kids_fold2 : forall todo outs live s d1 s1,
      fresh_inv live s -> (forall x, In x keep -> In x live) ->
      NoDup (map n_page todo) -> (forall kd, In kd todo -> In kd kids) ->
      (forall kd, In kd todo -> find_out outs (n_page kd) = None) ->
      (forall l h e, In (l, h, e) (chb lo hi es) -> keys_ok l h (map fst (seg_of outs e))) ->
      fold_res (spill_kid_step f) todo (Branches (flat_map (seg_of outs) es), s) = Ok (d1, s1) ->
      exists outs' alloc dead good,
        d1 = Branches (flat_map (seg_of outs') es) /\
        frame live s s1 alloc dead /\ (forall q, In q good -> In q alloc) /\
        (forall l h e, In (l, h, e) (chb lo hi es) -> keys_ok l h (map fst (seg_of outs' e))) /\
        (forall q, ~ In q (map n_page todo) -> find_out outs' q = find_out outs q) /\
        (forall kd, In kd todo -> exists out, find_out outs' (n_page kd) = Some out /\
             ents_ok d keep good s1 (ndepth kd + fuel) out (view_leaves fuel d kd) /\
             (forall l hh k, In (l, hh, (k, n_page kd)) (chb lo hi es) ->
                wf_out h' d keep good s1 out hh (upages h' d kd))) /\
        (forall L, (forall x, In x L -> In x live) -> (forall kd, In kd todo -> old_in L kd) ->
           forall x, In x dead -> (In x L \/ In x alloc) /\ ~ In x good) /\
        later d keep good s1 (fun d' => forall k1 k2 o1 o2, In k1 todo -> In k2 todo -> n_page k1 <> n_page k2 ->
           find_out outs' (n_page k1) = Some o1 -> find_out outs' (n_page k2) = Some o2 ->
           disj (tpages h' d' o1) (tpages h' d' o2)).
    Proof.
      induction todo as [|kd todo IH]; intros outs live s d1 s1 Hfi Hkl Hnd Hsub Hnone Hsegs H.
      - cbn [fold_res] in H. inversion H; subst d1 s1. exists outs, [], [], [].
        split; [reflexivity|]. split; [apply frame_refl, Hfi|]. split; [intros q []|]. split; [exact Hsegs|].
        split; [reflexivity|]. split; [intros k []|]. split; [intros L _ _ x []|].
        intros w' P _ _ k1 k2 o1 o2 [].
      - cbn [fold_res] in H.
        destruct (spill_kid_step f (Branches (flat_map (seg_of outs) es), s) kd) as [[d2 s2]| |] eqn:Hstep;
          try discriminate.
        cbn [bind] in H. unfold spill_kid_step in Hstep.
        destruct (spill_node f kd s) as [[[[ko [fk p]] sibs] sk]| |] eqn:Hsp; try discriminate.
        cbn [bind] in Hstep.
        assert (Hkd : In kd kids) by (apply Hsub; left; reflexivity).
        destruct (Horig kd Hkd) as (k & Eorig & Hin_es).
        set (q := n_page kd) in *.
        destruct (chb_In lo hi es _ Hin_es) as (l & h & Hchb).
        pose proof (EngineSpillFacts.find_kid_NoDup kids kd Hnd_kids Hkd) as Hfk. fold q in Hfk.
        pose proof (Hkids l h (k, q) kd Hchb Hfk) as Hswf.
        destruct (IHf _ _ _ _ _ _ _ _ _ _ _ Hfi Hkl Hswf (Hup_nd kd Hkd) Hsp)
          as (a1 & dd1 & g1 & Hfr1 & Hg1a & Hg1p & Eko & HK0 & _ & _ & Hents1 & Hdead1 & Hwf1).
        rewrite Eorig in Eko. subst ko.
        assert (HK : forall l' hh', In (l', hh', (k, q)) (chb lo hi es) ->
                                   keys_ok l' hh' (map fst ((fk, p) :: sibs))).
        { intros l' hh' Hc. pose proof (Hkids l' hh' (k, q) kd Hc Hfk) as Hswf'.
          destruct (IHf _ _ _ _ _ _ _ _ _ _ _ Hfi Hkl Hswf' (Hup_nd kd Hkd) Hsp) as (_ & _ & _ & _ & _ & _ & _ & Hk & _). exact Hk. }
        set (K := (fk, p) :: sibs) in *.
        set (outs1 := (q, K) :: outs).
        assert (Hq_none : find_out outs q = None) by (apply Hnone; left; reflexivity).
        assert (Hseg_same : forall e, In e es -> e <> (k, q) -> seg_of outs1 e = seg_of outs e).
        { intros e He Hne. unfold seg_of, outs1. rewrite find_out_cons.
          destruct (N.eqb_spec q (snd e)) as [E|E]; [|reflexivity].
          exfalso. apply Hne. apply (NoDup_map_inj snd es _ _ Hnd_es He Hin_es). cbn [snd]. congruence. }
        assert (Hseg_q : seg_of outs1 (k, q) = K).
        { unfold seg_of, outs1. rewrite find_out_cons. cbn [snd]. rewrite N.eqb_refl. reflexivity. }
        assert (Hseg_q0 : seg_of outs (k, q) = [(k, q)]).
        { unfold seg_of. cbn [snd]. rewrite Hq_none. reflexivity. }
        assert (Hsegs1 : forall l' hh' e, In (l', hh', e) (chb lo hi es) -> keys_ok l' hh' (map fst (seg_of outs1 e))).
        { intros l' hh' e Hc. destruct (N.eq_dec (snd e) q) as [E|E].
          - assert (e = (k, q)).
            { apply (NoDup_map_inj snd es _ _ Hnd_es (chb_In_inv _ _ _ _ _ _ Hc) Hin_es). exact E. }
            subst e. rewrite Hseg_q. apply HK, Hc.
          - rewrite Hseg_same; [apply Hsegs, Hc|apply (chb_In_inv _ _ _ _ _ _ Hc)|].
            intros E'. apply E. rewrite E'. reflexivity. }
        destruct Hes as (_ & Hes_s & Hes_r).
        destruct (segs_sorted (seg_of outs) es lo hi Hes_s Hes_r Hsegs) as [Hsort0 _].
        destruct (segs_sorted (seg_of outs1) es lo hi Hes_s Hes_r Hsegs1) as [Hsort1 _].
        destruct (in_split _ _ Hin_es) as (A & B & EAB).
        assert (HA : forall e, In e A -> seg_of outs1 e = seg_of outs e).
        { intros e He. apply Hseg_same.
          - rewrite EAB. apply in_or_app. left. exact He.
          - intros ->. rewrite EAB, map_app in Hes_s. cbn [map fst] in Hes_s.
            destruct (sorted_mid _ _ _ Hes_s) as [HlA _]. rewrite Forall_forall in HlA.
            specialize (HlA k (in_map fst _ _ He)). rewrite SearchFacts.bcmp_refl in HlA. discriminate. }
        assert (HB : forall e, In e B -> seg_of outs1 e = seg_of outs e).
        { intros e He. apply Hseg_same.
          - rewrite EAB. apply in_or_app. right. right. exact He.
          - intros ->. rewrite EAB, map_app in Hes_s. cbn [map fst] in Hes_s.
            destruct (sorted_mid _ _ _ Hes_s) as [_ HlB]. rewrite Forall_forall in HlB.
            specialize (HlB k (in_map fst _ _ He)). rewrite SearchFacts.bcmp_refl in HlB. discriminate. }
        assert (E0 : flat_map (seg_of outs) es = flat_map (seg_of outs) A ++ (k, q) :: flat_map (seg_of outs) B).
        { rewrite EAB at 1. rewrite flat_map_app. cbn [flat_map]. rewrite Hseg_q0. reflexivity. }
        assert (E1 : flat_map (seg_of outs1) es = flat_map (seg_of outs) A ++ K ++ flat_map (seg_of outs) B).
        { rewrite EAB at 1. rewrite flat_map_app. cbn [flat_map]. rewrite Hseg_q.
          rewrite (flat_map_ext_in _ _ A HA), (flat_map_ext_in _ _ B HB). reflexivity. }
        rewrite E0 in Hsort0, Hstep. rewrite E1 in Hsort1.
        rewrite (insert_branch_replace _ _ _ _ (fk, p) Hsort0) in Hstep. cbn [bind] in Hstep.
        change (flat_map (seg_of outs) A ++ (fk, p) :: flat_map (seg_of outs) B)
          with (flat_map (seg_of outs) A ++ [(fk, p)] ++ flat_map (seg_of outs) B) in Hstep.
        rewrite (insert_branch_sibs sibs _ [(fk, p)] _ Hsort1) in Hstep. cbn [bind] in Hstep.
        inversion Hstep; subst d2 s2. clear Hstep.
        assert (EH : flat_map (seg_of outs) A ++ (fk, p) :: sibs ++ flat_map (seg_of outs) B
                     = flat_map (seg_of outs1) es) by (rewrite E1; reflexivity).
        rewrite EH in H. clear EH.
        inversion Hnd as [|x0 l0 Hq_notin Hnd' Ex0]; subst x0 l0.
        assert (Hnone1 : forall kd', In kd' todo -> find_out outs1 (n_page kd') = None).
        { intros kd' Hk'. unfold outs1. rewrite find_out_cons.
          destruct (N.eqb_spec q (n_page kd')) as [E|E].
          - exfalso. apply Hq_notin. fold q. rewrite E. apply in_map, Hk'.
          - apply Hnone. right. exact Hk'. }
        pose proof (fr_fresh _ _ _ _ _ Hfr1) as Hfik.
        assert (Hkl1 : forall x, In x keep -> In x (a1 ++ live)).
        { intros x Hx. apply in_or_app. right. apply Hkl, Hx. }
        destruct (IH outs1 (a1 ++ live) sk d1 s1 Hfik Hkl1 Hnd'
                     (fun kd' Hk' => Hsub kd' (or_intror Hk')) Hnone1 Hsegs1 H)
          as (outs' & a2 & dd2 & g2 & Ed1 & Hfr2 & Hg2a & Hsegs' & Hother & Hdone & Hdead2 & Hpair2).
        exists outs', (a2 ++ a1), (dd1 ++ dd2), (g2 ++ g1).
        split; [exact Ed1|]. split; [apply (frame_trans _ _ _ _ _ _ _ _ Hfr1 Hfr2)|].
        split. { intros x Hx. apply in_app_or in Hx. apply in_or_app. destruct Hx; [left; apply Hg2a|right; apply Hg1a]; assumption. }
        split; [exact Hsegs'|].
        split.
        { intros x Hx. rewrite Hother; [|intros Hi; apply Hx; right; exact Hi].
          unfold outs1. rewrite find_out_cons. destruct (N.eqb_spec q x) as [E|E]; [|reflexivity].
          exfalso. apply Hx. left. exact E. }
        assert (Hwr1 : forall x, In x g1 -> wr_get (wr s1) x = wr_get (wr sk) x).
        { intros x Hx. apply (fr_wr _ _ _ _ _ Hfr2). intros Hi.
          apply (frame_new _ _ _ _ _ _ Hfik Hfr2 Hi). apply in_or_app. left. apply Hg1a, Hx. }
        assert (HfindK : find_out outs' q = Some K).
        { rewrite Hother by exact Hq_notin. unfold outs1. rewrite find_out_cons, N.eqb_refl. reflexivity. }
        assert (HwfK : forall l' hh' k', In (l', hh', (k', q)) (chb lo hi es) ->
                         wf_out h' d keep (g2 ++ g1) s1 K hh' (upages h' d kd)).
        { intros l' hh' k' Hc. destruct (chb_entry_fun _ _ _ _ _ _ _ Hchb Hc) as [_ <-].
          eapply wf_out_mono; [exact Hwf1| |exact Hwr1]. intros x Hx. apply in_or_app. right. exact Hx. }
        split.
        { intros kd' [<-|Hk'].
          - exists K. split; [exact HfindK|]. split; [|exact HwfK].
            eapply ents_ok_mono; [exact Hents1| |exact Hwr1]. intros x Hx. apply in_or_app. right. exact Hx.
          - destruct (Hdone kd' Hk') as (out & Ho & He & Hw). exists out. split; [exact Ho|]. split.
            + eapply ents_ok_mono; [exact He| |reflexivity]. intros x Hx. apply in_or_app. left. exact Hx.
            + intros l' hh' k' Hc. eapply wf_out_mono; [apply (Hw _ _ _ Hc)| |reflexivity].
              intros x Hx. apply in_or_app. left. exact Hx. }
        split.
        { intros L HL Hold x Hx.
          apply in_app_or in Hx. destruct Hx as [Hx|Hx].
          - destruct (Hdead1 L HL (Hold kd (or_introl eq_refl)) x Hx) as [Ha Hb]. split.
            + destruct Ha as [Ha|Ha]; [left|right; apply in_or_app; right]; exact Ha.
            + intros Hg. apply in_app_or in Hg. destruct Hg as [Hg|Hg]; [|exact (Hb Hg)].
              apply (frame_new _ _ _ _ _ x Hfik Hfr2 (Hg2a x Hg)). apply in_or_app.
              destruct Ha as [Ha|Ha]; [right; apply HL|left]; exact Ha.
          - destruct (Hdead2 L (fun y Hy => in_or_app _ _ _ (or_intror (HL y Hy)))
                             (fun kd' Hk' => Hold kd' (or_intror Hk')) x Hx) as [Ha Hb]. split.
            + destruct Ha as [Ha|Ha]; [left|right; apply in_or_app; left]; exact Ha.
            + intros Hg. apply in_app_or in Hg. destruct Hg as [Hg|Hg]; [exact (Hb Hg)|].
              destruct Ha as [Ha|Ha].
              * apply (frame_new _ _ _ _ _ x Hfi Hfr1 (Hg1a x Hg)), HL, Ha.
              * apply (frame_new _ _ _ _ _ x Hfik Hfr2 Ha). apply in_or_app. left. apply Hg1a, Hg. }
        (* the new subtrees of different kids share no page *)
        intros w' P Hag Hk0.
        assert (Hag2 : wr_agree g2 (wr s1) w').
        { intros x Hx. apply Hag. apply in_or_app. left. exact Hx. }
        assert (Hag1 : wr_agree g1 (wr sk) w').
        { intros x Hx. rewrite (Hag x) by (apply in_or_app; right; exact Hx). apply Hwr1, Hx. }
        specialize (Hpair2 w' P Hag2 Hk0). cbn beta in Hpair2.
        set (d' := apply_wr w' P d) in *.
        assert (HinK : forall x, In x (tpages h' d' K) -> In x g1 \/ In x (upages h' d kd)).
        { destruct (Hwf1 w' P Hag1 Hk0) as (_ & _ & C). exact C. }
        assert (Hin2 : forall k2 o2, In k2 todo -> find_out outs' (n_page k2) = Some o2 ->
                         forall x, In x (tpages h' d' o2) -> In x g2 \/ In x (upages h' d k2)).
        { intros k2 o2 Hk2 Ho2. destruct (Hdone k2 Hk2) as (out & Ho & _ & Hw). rewrite Ho in Ho2.
          inversion Ho2; subst o2.
          destruct (kid_swfh k2 (Hsub k2 (or_intror Hk2))) as (l2 & hh2 & kk & Hc & _).
          destruct (Hw _ _ _ Hc w' P Hag2 Hk0) as (_ & _ & C). exact C. }
        assert (Hcross : forall k2 o2, In k2 todo -> find_out outs' (n_page k2) = Some o2 ->
                           disj (tpages h' d' K) (tpages h' d' o2)).
        { intros k2 o2 Hk2 Ho2 x Hx1 Hx2.
          pose proof (Hsub k2 (or_intror Hk2)) as Hk2k.
          destruct (HinK x Hx1) as [X1|X1], (Hin2 k2 o2 Hk2 Ho2 x Hx2) as [X2|X2].
          - apply (frame_new _ _ _ _ _ x Hfik Hfr2 (Hg2a x X2)). apply in_or_app. left. apply Hg1a, X1.
          - apply (frame_new _ _ _ _ _ x Hfi Hfr1 (Hg1a x X1)). apply Hkl. apply (kid_upages_keep k2 Hk2k x X2).
          - apply (frame_new _ _ _ _ _ x Hfik Hfr2 (Hg2a x X2)). apply in_or_app. right.
            apply Hkl, (kid_upages_keep kd Hkd x X1).
          - refine (Hup_disj kd k2 Hkd Hk2k _ x X1 X2). intros E. apply Hq_notin. fold q. unfold q. rewrite E.
            apply in_map, Hk2. }
        intros k1 k2 o1 o2 [<-|Hk1] [<-|Hk2] Hne Ho1 Ho2.
        + contradiction.
        + fold q in Ho1. rewrite HfindK in Ho1. inversion Ho1; subst o1. apply (Hcross k2 o2 Hk2 Ho2).
        + fold q in Ho2. rewrite HfindK in Ho2. inversion Ho2; subst o2.
          intros x Hx1 Hx2. apply (Hcross k1 o1 Hk1 Ho1 x Hx2 Hx1).
        + apply (Hpair2 k1 k2 o1 o2 Hk1 Hk2 Hne Ho1 Ho2).
    Qed.
  End Fold2.
End Spill2.

Lemma in_range_lt_hi lo hi k : EngineSpillFacts.in_range lo hi k -> lt_hi k hi.
Proof. intros [_ H]. exact H. Qed.

Theorem spill_node_spec2 fuel d keep : forall f, spill_spec2 fuel d keep f.
Proof.
  induction f as [|f IHf]; intros live lo hi n s orig fk p sibs s' h Hfi Hkl Hswfh Hupnd H; [discriminate|].
  rewrite spill_node_unfold in H.
  inversion Hswfh as [h0 lo0 hi0 pg npg o sq l Hkeys
                     |h0 lo0 hi0 pg npg o sq es kids Hes Hnd_es Hnd_kids Horig Hkids Hstab'];
    subst lo0 hi0 n h.
  - (* a leaf: no kids *)
    cbn [n_kids n_data kid_keys fold_res bind isort_by map] in H.
    set (n := Node pg npg o sq (Leaves l) []) in *.
    destruct (spill_tail_spec _ _ _ _ _ _ _ _ _ Hfi H)
      as (d0 & rest & alloc & stale & Esp & Eo & Hpw & Hnd & Hin & Hfr & Hst & _).
    exists alloc, (old_pages n ++ stale), (p :: map snd sibs).
    split; [exact Hfr|]. split; [intros q Hq; apply (Hin q Hq)|]. split; [tauto|]. split; [exact Eo|].
    destruct Hkeys as (_ & Hks & Hkr).
    split.
    { eapply tail_keys_ok; [exact Hpw|apply (split_dkeys _ _ _ _ Esp)|discriminate|exact Hks|exact Hkr]. }
    split; [exact Hnd|]. split; [intros x Hx; apply in_or_app; left; apply In_old_pages, Hx|].
    split.
    { intros w' P Hag _ F HF. destruct F as [|F]; [unfold n in HF; cbn [ndepth] in HF; lia|].
      pose proof (pieces_on_disk _ _ P d _ _ Hpw Hag) as Hdisk.
      destruct (split_leaves s l) as (l0 & ls & Esp' & Hcat & _). rewrite Esp' in Esp. inversion Esp; subst d0 rest.
      change (Leaves l0 :: map Leaves ls) with (map Leaves (l0 :: ls)) in Hdisk.
      rewrite (read_pieces_leaves _ _ _ _ _ Hdisk). cbn [concat view_leaves n]. exact Hcat. }
    split.
    { intros L HL Hold x Hx. inversion Hold as [? Ho _]. apply in_app_or in Hx. destruct Hx as [Hx|Hx].
      - apply In_old_pages in Hx. split; [left; apply Ho, Hx|]. intros Hg.
        apply (frame_new _ _ _ _ _ x Hfi Hfr (proj1 (Hin x Hg))), HL, Ho, Hx.
      - split; [right; apply Hst, Hx|]. intros Hg. apply (proj2 (proj2 (Hin x Hg))), Hx. }
    intros w' P Hag Hk0.
    pose proof (pieces_disk2 _ _ P d _ _ Hpw Hag) as Hd2.
    destruct (leaf_tail_wf _ h0 _ _ _ _ _ hi Esp Hd2 Hks (fun k Hk => in_range_lt_hi _ _ _ (Hkr k Hk))) as (HO & HT & _).
    split; [exact HO|]. rewrite HT. split; [exact Hnd|]. intros x Hx. left. exact Hx.
  - (* a branch: the kids first *)
    cbn [n_kids n_data] in H.
    set (n := Node pg npg o sq (Branches es) kids) in *.
    destruct (kid_keys kids) as [ks| |] eqn:Hkk; try discriminate. cbn [bind] in H.
    set (todo := map snd (isort_by fst ks)) in *.
    assert (Hperm : Permutation todo kids).
    { unfold todo. rewrite <- (kid_keys_snd _ _ Hkk). apply Permutation_map, isort_by_perm. }
    destruct (fold_res (spill_kid_step f) todo (Branches es, s)) as [[d1 s1]| |] eqn:Hfold; try discriminate.
    cbn [bind] in H.
    assert (Hstab : forall e, In e es -> find_kid (snd e) kids = None -> stable fuel d keep (snd e)).
    { intros e He Hf. destruct (chb_In lo hi es e He) as (l & hh & Hi). apply (Hstab' l hh e Hi Hf). }
    (* the kept pages below the kids *)
    unfold n in Hupnd. cbn [upages] in Hupnd.
    set (Uc := fun e : bytes * N => match find_kid (snd e) kids with
                                    | Some kd => upages h0 d kd | None => snd e :: ppages h0 d (snd e) end) in Hupnd.
    assert (HUkid : forall kd, In kd kids -> exists k, In (k, n_page kd) es /\ Uc (k, n_page kd) = upages h0 d kd).
    { intros kd Hkd. destruct (Horig kd Hkd) as (k & _ & Hi). exists k. split; [exact Hi|]. unfold Uc. cbn [snd].
      rewrite (EngineSpillFacts.find_kid_NoDup kids kd Hnd_kids Hkd). reflexivity. }
    assert (Hup_nd : forall kd, In kd kids -> NoDup (upages h0 d kd)).
    { intros kd Hkd. destruct (HUkid kd Hkd) as (k & Hi & <-). apply (NoDup_flat_map_elim Uc es _ Hupnd Hi). }
    assert (Hup_disj : forall k1 k2, In k1 kids -> In k2 kids -> n_page k1 <> n_page k2 ->
                                     disj (upages h0 d k1) (upages h0 d k2)).
    { intros k1 k2 H1 H2 Hne. destruct (HUkid k1 H1) as (a & Ha & <-). destruct (HUkid k2 H2) as (b & Hb & <-).
      apply (NoDup_flat_map_disj Uc es _ _ Hupnd Ha Hb). intros E. inversion E. contradiction. }
    assert (HUkeep : forall e x, In e es -> In x (Uc e) -> In x keep).
    { intros e x He Hx. apply (swfh_upages_keep _ _ _ _ _ _ _ Hswfh). cbn [upages]. apply in_flat_map.
      exists e. split; [exact He|exact Hx]. }
    pose proof Hes as Hes0.
    destruct Hes as (Hes_ne & Hes_s & Hes_r).
    assert (Hsegs0 : forall l h e, In (l, h, e) (chb lo hi es) -> keys_ok l h (map fst (seg_of [] e))).
    { intros l h e Hi. cbn [seg_of find_out find option_map map]. split; [discriminate|]. split; [reflexivity|].
      intros k [<-|[]]. apply (chb_self es lo hi Hes_s Hes_r _ _ _ Hi). }
    assert (E0 : es = flat_map (seg_of []) es) by (symmetry; apply flat_map_single).
    rewrite E0 in Hfold at 1.
    destruct (kids_fold2 fuel d keep f h0 lo hi es kids IHf Hes0 Hnd_es Hnd_kids Horig Hkids Hup_nd Hup_disj
                todo [] live s d1 s1 Hfi Hkl)
      as (outs & a1 & dd1 & g1 & Ed1 & Hfr1 & Hg1a & Hsegs & Hother & Hdone & Hdead1 & Hpair); try assumption.
    { apply (Permutation_NoDup (l := map n_page kids)); [apply Permutation_map; symmetry; exact Hperm|exact Hnd_kids]. }
    { intros kd Hk. apply (Permutation_in _ Hperm Hk). }
    { reflexivity. }
    subst d1. set (es_fin := flat_map (seg_of outs) es) in *.
    destruct (segs_sorted (seg_of outs) es lo hi Hes_s Hes_r Hsegs) as [Hfin_s Hfin_r].
    pose proof (fr_fresh _ _ _ _ _ Hfr1) as Hfi1.
    destruct (spill_tail_spec _ _ _ _ _ _ _ _ _ Hfi1 H)
      as (d0 & rest & a2 & stale & Esp & Eo & Hpw & Hnd & Hin & Hfr2 & Hst & _).
    assert (Hgood_a2 : forall q, In q (p :: map snd sibs) -> ~ In q (a1 ++ live)).
    { intros q Hq. apply (frame_new _ _ _ _ _ q Hfi1 Hfr2 (proj1 (Hin q Hq))). }
    exists (a2 ++ a1), (dd1 ++ old_pages n ++ stale), ((p :: map snd sibs) ++ g1).
    split; [apply (frame_trans _ _ _ _ _ _ _ _ Hfr1 Hfr2)|].
    split.
    { intros q Hq. apply in_app_or in Hq. apply in_or_app. destruct Hq as [Hq|Hq]; [left; apply (Hin q Hq)|right; apply Hg1a, Hq]. }
    split; [intros q Hq; apply in_or_app; left; exact Hq|]. split; [exact Eo|].
    split.
    { eapply tail_keys_ok; [exact Hpw|apply (split_dkeys _ _ _ _ Esp)|discriminate|exact Hfin_s|exact Hfin_r]. }
    split; [exact Hnd|].
    split; [intros x Hx; apply in_or_app; right; apply in_or_app; left; apply In_old_pages, Hx|].
    assert (Hwr1 : forall q, In q g1 -> wr_get (wr s') q = wr_get (wr s1) q).
    { intros q Hq. apply (fr_wr _ _ _ _ _ Hfr2). intros Hi. apply (frame_new _ _ _ _ _ _ Hfi1 Hfr2 Hi).
      apply in_or_app. left. apply Hg1a, Hq. }
    split.
    { intros w' P Hag Hkeep F HF. destruct F as [|F]; [unfold n in HF; cbn [ndepth] in HF; lia|].
      assert (Hag1 : wr_agree (map snd ((fk, p) :: sibs)) (wr s') w').
      { intros q Hq. apply Hag. apply in_or_app. left. exact Hq. }
      pose proof (pieces_on_disk _ _ P d _ _ Hpw Hag1) as Hdisk.
      destruct (split_branches s1 es_fin) as (e0 & ess & Esp' & Hcat & _). rewrite Esp' in Esp.
      inversion Esp; subst d0 rest.
      change (Branches e0 :: map Branches ess) with (map Branches (e0 :: ess)) in Hdisk.
      rewrite (read_pieces_branches _ _ _ _ _ Hdisk). cbn [concat]. rewrite Hcat. unfold es_fin.
      rewrite flat_map_flat_map, view_leaves_eq. cbn [n n_data n_kids].
      apply flat_map_ext_in. intros e He. unfold child_view.
      destruct (find_kid (snd e) kids) as [kd|] eqn:Hfk.
      + destruct (EngineSpillFacts.find_kid_In _ _ _ Hfk) as [Hkd Epg].
        assert (Hkt : In kd todo) by (apply (Permutation_in _ (Permutation_sym Hperm) Hkd)).
        destruct (Hdone kd Hkt) as (out & Ho & Hents & _). unfold seg_of. rewrite <- Epg, Ho.
        apply (Hents w' P).
        * intros q Hq. rewrite (Hag q) by (apply in_or_app; right; exact Hq). apply Hwr1, Hq.
        * exact Hkeep.
        * pose proof (ndepth_kid n kd Hkd) as Hd. lia.
      + assert (Hno : find_out outs (snd e) = None).
        { rewrite Hother; [reflexivity|]. intros Hi. apply (find_kid_none _ _ Hfk).
          apply (Permutation_in _ (Permutation_map n_page Hperm) Hi). }
        unfold seg_of. rewrite Hno. cbn [flat_map]. rewrite app_nil_r.
        apply (stable_ents d _ keep (keep_dget w' P d keep Hkeep)); [apply Hstab; assumption|].
        unfold n in HF. cbn [ndepth] in HF. lia. }
    split.
    { intros L HL Hold x Hx. inversion Hold as [? Ho Hok]. cbn [n n_kids] in Hok.
      apply in_app_or in Hx. destruct Hx as [Hx|Hx]; [|apply in_app_or in Hx; destruct Hx as [Hx|Hx]].
      - assert (Hok' : forall kd, In kd todo -> old_in L kd).
        { intros kd Hk. apply Hok, (Permutation_in _ Hperm Hk). }
        destruct (Hdead1 L HL Hok' x Hx) as [A B]. split.
        + destruct A as [A|A]; [left|right; apply in_or_app; right]; exact A.
        + intros Hg. apply in_app_or in Hg. destruct Hg as [Hg|Hg]; [|exact (B Hg)].
          apply (Hgood_a2 x Hg). apply in_or_app. destruct A as [A|A]; [right; apply HL|left]; exact A.
      - apply In_old_pages in Hx. split; [left; apply Ho, Hx|]. intros Hg. apply in_app_or in Hg.
        destruct Hg as [Hg|Hg].
        + apply (Hgood_a2 x Hg). apply in_or_app. right. apply HL, Ho, Hx.
        + apply (frame_new _ _ _ _ _ x Hfi Hfr1 (Hg1a x Hg)), HL, Ho, Hx.
      - split; [right; apply in_or_app; left; apply Hst, Hx|]. intros Hg. apply in_app_or in Hg.
        destruct Hg as [Hg|Hg].
        + apply (proj2 (proj2 (Hin x Hg))), Hx.
        + apply (frame_new _ _ _ _ _ x Hfi1 Hfr2 (Hst x Hx)). apply in_or_app. left. apply Hg1a, Hg. }
    (* the written pages form a strict tree *)
    intros w' P Hag Hk0.
    assert (Hag1 : wr_agree (map snd ((fk, p) :: sibs)) (wr s') w').
    { intros q Hq. apply Hag. apply in_or_app. left. exact Hq. }
    assert (Hagg : wr_agree g1 (wr s1) w').
    { intros q Hq. rewrite (Hag q) by (apply in_or_app; right; exact Hq). apply Hwr1, Hq. }
    pose proof (pieces_disk2 _ _ P d _ _ Hpw Hag1) as Hd2.
    pose proof (keep_dget w' P d keep Hk0) as Hkd'.
    specialize (Hpair w' P Hagg Hk0). cbn beta in Hpair.
    set (d' := apply_wr w' P d) in *.
    assert (Hent : forall l hh e, In (l, hh, e) (chb lo hi es) ->
              OutInv h0 d' (seg_of outs e) hh /\ NoDup (tpages h0 d' (seg_of outs e)) /\
              (forall x, In x (tpages h0 d' (seg_of outs e)) ->
                 (In x g1 /\ find_kid (snd e) kids <> None) \/ In x (Uc e))).
    { intros l hh e Hc. pose proof (chb_In_inv _ _ _ _ _ _ Hc) as He.
      pose proof (NoDup_flat_map_elim Uc es e Hupnd He) as HnU. unfold Uc in HnU |- *. cbn beta in HnU |- *.
      destruct (find_kid (snd e) kids) as [kd|] eqn:Hfk.
      - destruct (EngineSpillFacts.find_kid_In _ _ _ Hfk) as [Hkd Epg].
        assert (Hkt : In kd todo) by (apply (Permutation_in _ (Permutation_sym Hperm) Hkd)).
        destruct (Hdone kd Hkt) as (out & Ho & _ & Hw). unfold seg_of. rewrite <- Epg, Ho.
        destruct e as [k q']. cbn [snd] in Epg. subst q'.
        destruct (Hw l hh k Hc w' P Hagg Hk0) as (A & B & C). split; [exact A|]. split; [exact B|].
        intros x Hx. destruct (C x Hx) as [C1|C1]; [left; split; [exact C1|discriminate]|right; exact C1].
      - assert (Hno : find_out outs (snd e) = None).
        { rewrite Hother; [reflexivity|]. intros Hi. apply (find_kid_none _ _ Hfk).
          apply (Permutation_in _ (Permutation_map n_page Hperm) Hi). }
        unfold seg_of. rewrite Hno. destruct (Hstab' l hh e Hc Hfk) as [Hst0 HP]. destruct e as [k q'].
        cbn [fst snd] in *.
        assert (Et : tpages h0 d' [(k, q')] = q' :: ppages h0 d q').
        { unfold tpages. cbn [flat_map snd]. rewrite app_nil_r.
          rewrite (ppages_keep d d' keep Hkd' h0 fuel q' Hst0). reflexivity. }
        split.
        { apply OutInv_single. apply (PInv_apply_wr_keep d d' keep Hkd' h0 fuel q' _ _ _ Hst0).
          apply (PInv_tighten _ _ None). exact HP. }
        rewrite Et. split; [exact HnU|]. intros x Hx. right. exact Hx. }
    assert (HO : OutInv h0 d' es_fin hi).
    { apply (OutInv_segs h0 d' (seg_of outs) es lo hi). intros l hh e Hc.
      split; [apply Hsegs, Hc|apply (Hent l hh e Hc)]. }
    assert (Hsubset : forall x, In x (tpages h0 d' es_fin) -> In x g1 \/ In x (flat_map Uc es)).
    { intros x Hx. unfold es_fin in Hx. rewrite tpages_flat_map in Hx. apply in_flat_map in Hx.
      destruct Hx as (e & He & Hx). destruct (chb_In lo hi es e He) as (l & hh & Hc).
      destruct (proj2 (proj2 (Hent l hh e Hc)) x Hx) as [[X _]|X]; [left; exact X|right].
      apply in_flat_map. exists e. split; assumption. }
    assert (HND : NoDup (tpages h0 d' es_fin)).
    { unfold es_fin. rewrite tpages_flat_map. apply NoDup_flat_map_intro.
      - apply NoDup_map_snd_NoDup, Hnd_es.
      - intros e He. destruct (chb_In lo hi es e He) as (l & hh & Hc). apply (Hent l hh e Hc).
      - intros e1 e2 He1 He2 Hne x Hx1 Hx2.
        destruct (chb_In lo hi es e1 He1) as (l1 & hh1 & Hc1). destruct (chb_In lo hi es e2 He2) as (l2 & hh2 & Hc2).
        assert (Hpne : snd e1 <> snd e2).
        { intros E. apply Hne. apply (NoDup_map_inj snd es _ _ Hnd_es He1 He2 E). }
        destruct (proj2 (proj2 (Hent _ _ _ Hc1)) x Hx1) as [[X1 K1]|X1],
                 (proj2 (proj2 (Hent _ _ _ Hc2)) x Hx2) as [[X2 K2]|X2].
        + destruct (find_kid (snd e1) kids) as [kd1|] eqn:Hf1; [|contradiction].
          destruct (find_kid (snd e2) kids) as [kd2|] eqn:Hf2; [|contradiction].
          destruct (EngineSpillFacts.find_kid_In _ _ _ Hf1) as [Hk1 Ep1].
          destruct (EngineSpillFacts.find_kid_In _ _ _ Hf2) as [Hk2 Ep2].
          assert (Hkt1 : In kd1 todo) by (apply (Permutation_in _ (Permutation_sym Hperm) Hk1)).
          assert (Hkt2 : In kd2 todo) by (apply (Permutation_in _ (Permutation_sym Hperm) Hk2)).
          destruct (Hdone kd1 Hkt1) as (o1 & Ho1 & _). destruct (Hdone kd2 Hkt2) as (o2 & Ho2 & _).
          unfold seg_of in Hx1, Hx2. rewrite <- Ep1, Ho1 in Hx1. rewrite <- Ep2, Ho2 in Hx2.
          refine (Hpair kd1 kd2 o1 o2 Hkt1 Hkt2 _ Ho1 Ho2 x Hx1 Hx2). rewrite Ep1, Ep2. exact Hpne.
        + apply (frame_new _ _ _ _ _ x Hfi Hfr1 (Hg1a x X1)). apply Hkl. apply (HUkeep e2 x He2 X2).
        + apply (frame_new _ _ _ _ _ x Hfi Hfr1 (Hg1a x X2)). apply Hkl. apply (HUkeep e1 x He1 X1).
        + apply (NoDup_flat_map_disj Uc es e1 e2 Hupnd He1 He2 Hne x X1 X2). }
    assert (Hnew : forall q, In q (map snd ((fk, p) :: sibs)) -> ~ In q (tpages h0 d' es_fin)).
    { intros q Hq Hi. apply (Hgood_a2 q Hq). apply in_or_app.
      destruct (Hsubset q Hi) as [X|X]; [left; apply Hg1a, X|right].
      apply in_flat_map in X. destruct X as (e & He & X). apply Hkl, (HUkeep e q He X). }
    destruct (branch_tail_wf d' h0 _ es_fin d0 rest s1 hi Esp Hd2 Hfin_s
                (fun k Hk => in_range_lt_hi _ _ _ (Hfin_r k Hk)) HO HND Hnd Hnew) as (R1 & R2 & R3).
    split; [exact R1|]. split; [exact R2|]. intros x Hx. apply R3 in Hx. destruct Hx as [Hx|Hx].
    + left. apply in_or_app. left. exact Hx.
    + destruct (Hsubset x Hx) as [X|X]; [left; apply in_or_app; right; exact X|right]. exact X.
Qed.

(* the statement with the conjuncts of interest only *)
Corollary spill_node_wf fuel d keep f live lo hi n s orig fk p sibs s' h :
  fresh_inv live s -> (forall x, In x keep -> In x live) ->
  swfh fuel d keep h lo hi n -> NoDup (upages h d n) ->
  spill_node f n s = Ok ((orig, (fk, p), sibs), s') ->
  exists alloc dead good,
    frame live s s' alloc dead /\ (forall q, In q good -> In q alloc) /\
    (forall q, In q (p :: map snd sibs) -> In q good) /\
    keys_ok lo hi (map fst ((fk, p) :: sibs)) /\
    forall w' P, wr_agree good (wr s') w' -> (forall x, In x keep -> wr_get w' x = None) ->
      let d' := apply_wr w' P d in let out := (fk, p) :: sibs in
      Forall2 (fun e b => PInv h d' (fst b) (snd b) (Some (fst e)) (snd e)) out (cbs Some (map fst out) hi) /\
      NoDup (flat_map (fun e => snd e :: ppages h d' (snd e)) out) /\
      (forall x, In x (flat_map (fun e => snd e :: ppages h d' (snd e)) out) -> In x good \/ In x (upages h d n)).
Proof.
  intros Hfi Hkl Hs Hu H.
  destruct (spill_node_spec2 fuel d keep f _ _ _ _ _ _ _ _ _ _ _ Hfi Hkl Hs Hu H)
    as (alloc & dead & good & A1 & A2 & A3 & _ & A5 & _ & _ & _ & _ & A10).
  exists alloc, dead, good. repeat (split; [assumption|]). intros w' P Hag Hk. exact (A10 w' P Hag Hk).
Qed.

(* a leaf without kids, directly: the good pages are the returned ones *)
Theorem spill_leaf_wf live f pg npg o sq l lo hi s orig fk p sibs s' :
  fresh_inv live s -> keys_ok lo hi (map lkey l) ->
  spill_node f (Node pg npg o sq (Leaves l) []) s = Ok ((orig, (fk, p), sibs), s') ->
  forall w' P d, wr_agree (p :: map snd sibs) (wr s') w' ->
    let d' := apply_wr w' P d in let out := (fk, p) :: sibs in
    Forall2 (fun e b => PInv 1 d' (fst b) (snd b) (Some (fst e)) (snd e)) out (cbs Some (map fst out) hi) /\
    (forall e, In e out -> ppages 1 d' (snd e) = []) /\ NoDup (map snd out) /\
    le_lo lo fk.
Proof.
  intros Hfi (Hne & Hks & Hkr) H w' P d Hag. destruct f as [|f]; [discriminate|].
  rewrite spill_node_unfold in H. cbn [n_kids n_data kid_keys fold_res bind isort_by map] in H.
  destruct (spill_tail_spec _ _ _ _ _ _ _ _ _ Hfi H)
    as (d0 & rest & alloc & stale & Esp & Eo & Hpw & Hnd & Hin & Hfr & Hst & _).
  pose proof (pieces_disk2 _ _ P d _ _ Hpw Hag) as Hd2.
  destruct (leaf_tail_wf _ 0 _ _ _ _ _ hi Esp Hd2 Hks (fun k Hk => in_range_lt_hi _ _ _ (Hkr k Hk))) as (HO & _ & HP).
  cbv zeta. split; [exact HO|]. split; [exact HP|]. split; [exact Hnd|].
  assert (Hk : keys_ok lo hi (map fst ((fk, p) :: sibs))).
  { eapply tail_keys_ok; [exact Hpw|apply (split_dkeys _ _ _ _ Esp)|discriminate|exact Hks|exact Hkr]. }
  destruct Hk as (_ & _ & Hr). destruct (Hr fk (or_introl eq_refl)) as [Hlo _]. exact Hlo.
Qed.

(* ====================================================================== *)
(** * 6. [spill_root]: new root levels over the returned entries until one page is left *)

Lemma pieces_ge2 {A} : forall (pieces : list (list A)),
  Forall (fun p => (2 <= List.length p)%nat) pieces -> (2 * List.length pieces <= List.length (concat pieces))%nat.
Proof.
  induction 1 as [|p pieces Hp _ IH]; [cbn; lia|]. cbn [concat List.length]. rewrite app_length. lia.
Qed.

Lemma root_loop2 d keep : forall f live s fk p sibs target m good0 p' s' h U,
  fresh_inv live s -> (forall q, In q good0 -> In q live) -> In p good0 -> (forall x, In x U -> In x live) ->
  ents_ok d keep good0 s m ((fk, p) :: sibs) target ->
  keys_ok None None (map fst ((fk, p) :: sibs)) ->
  wf_out h d keep good0 s ((fk, p) :: sibs) None U ->
  match sibs with
  | [] => Ok (p, s)
  | _ => spill_root f (Node 0 0 (Some fk) 0 (Branches ((fk, p) :: sibs)) []) s
  end = Ok (p', s') ->
  exists alloc dead good lv,
    frame live s s' alloc dead /\ (forall q, In q good -> In q alloc \/ In q good0) /\ In p' good /\
    (lv <= f)%nat /\ (forall x, In x dead -> In x alloc /\ ~ In x good) /\
    (forall w' P, wr_agree good (wr s') w' -> (forall x, In x keep -> wr_get w' x = None) ->
      forall F, (lv + m <= F)%nat -> page_ents F (apply_wr w' P d) p' = target) /\
    (exists fk', wf_out (lv + h) d keep good s' [(fk', p')] None U) /\
    (2 ^ lv <= List.length ((fk, p) :: sibs))%nat.
Proof.
  induction f as [|f IH]; intros live s fk p sibs target m good0 p' s' h U Hfi Hg0 Hp HU Hents Hkeys Hwf H.
  - destruct sibs as [|sb sibs]; [|discriminate]. inversion H; subst p' s'.
    exists [], [], good0, 0%nat. split; [apply frame_refl, Hfi|]. split; [tauto|]. split; [exact Hp|]. split; [lia|].
    split; [intros x []|]. split; [|split; [exists fk; exact Hwf|cbn; lia]].
    intros w' P Hag Hk F HF. specialize (Hents w' P Hag Hk F HF). cbn [flat_map snd] in Hents.
    rewrite app_nil_r in Hents. exact Hents.
  - destruct sibs as [|sb sibs].
    + inversion H; subst p' s'.
      exists [], [], good0, 0%nat. split; [apply frame_refl, Hfi|]. split; [tauto|]. split; [exact Hp|]. split; [lia|].
      split; [intros x []|]. split; [|split; [exists fk; exact Hwf|cbn; lia]].
      intros w' P Hag Hk F HF. specialize (Hents w' P Hag Hk F HF). cbn [flat_map snd] in Hents.
      rewrite app_nil_r in Hents. exact Hents.
    + set (K := (fk, p) :: sb :: sibs) in *. set (nr := Node 0 0 (Some fk) 0 (Branches K) []) in *.
      cbn [spill_root] in H. cbn [nr n_data K] in H. fold K in H. fold nr in H.
      destruct (spill_node fuel0 nr s) as [[[[o1 [fk1 p1]] sibs1] s1]| |] eqn:Hsp; try discriminate.
      cbn [bind] in H.
      change fuel0 with (S 63) in Hsp. rewrite spill_node_nokids in Hsp by reflexivity. cbn [nr n_data] in Hsp. fold nr in Hsp.
      destruct (spill_tail_spec _ _ _ _ _ _ _ _ _ Hfi Hsp)
        as (d0 & rest & a1 & stale & Esp & _ & Hpw & Hnd1 & Hin & Hfr1 & Hst & _).
      set (good1 := (p1 :: map snd sibs1) ++ good0).
      assert (Hwr0 : forall q, In q good0 -> wr_get (wr s1) q = wr_get (wr s) q).
      { intros q Hq. apply (fr_wr _ _ _ _ _ Hfr1). intros Hi. apply (frame_new _ _ _ _ _ _ Hfi Hfr1 Hi), Hg0, Hq. }
      assert (Hents1 : ents_ok d keep good1 s1 (S m) ((fk1, p1) :: sibs1) target).
      { intros w' P Hag Hk F HF. destruct F as [|F]; [lia|].
        assert (Hag1 : wr_agree (map snd ((fk1, p1) :: sibs1)) (wr s1) w').
        { intros q Hq. apply Hag. apply in_or_app. left. exact Hq. }
        pose proof (pieces_on_disk _ _ P d _ _ Hpw Hag1) as Hdisk.
        destruct (split_branches s K) as (e0 & ess & Esp' & Hcat & _). rewrite Esp' in Esp.
        inversion Esp; subst d0 rest.
        change (Branches e0 :: map Branches ess) with (map Branches (e0 :: ess)) in Hdisk.
        rewrite (read_pieces_branches _ _ _ _ _ Hdisk). cbn [concat]. rewrite Hcat.
        apply (Hents w' P); [|exact Hk|lia].
        intros q Hq. rewrite (Hag q) by (apply in_or_app; right; exact Hq). apply Hwr0, Hq. }
      assert (Hg1 : forall q, In q good1 -> In q (a1 ++ live)).
      { intros q Hq. apply in_app_or in Hq. apply in_or_app.
        destruct Hq as [Hq|Hq]; [left; apply (Hin q Hq)|right; apply Hg0, Hq]. }
      destruct Hkeys as (_ & Hks & Hkr).
      assert (Hkeys1 : keys_ok None None (map fst ((fk1, p1) :: sibs1))).
      { eapply tail_keys_ok; [exact Hpw|apply (split_dkeys _ _ _ _ Esp)|discriminate|exact Hks|exact Hkr]. }
      assert (Hwf1 : wf_out (S h) d keep good1 s1 ((fk1, p1) :: sibs1) None U).
      { intros w' P Hag Hk0.
        assert (Hag1 : wr_agree (map snd ((fk1, p1) :: sibs1)) (wr s1) w').
        { intros q Hq. apply Hag. apply in_or_app. left. exact Hq. }
        assert (Hag0 : wr_agree good0 (wr s) w').
        { intros q Hq. rewrite (Hag q) by (apply in_or_app; right; exact Hq). apply Hwr0, Hq. }
        destruct (Hwf w' P Hag0 Hk0) as (A & B & C).
        pose proof (pieces_disk2 _ _ P d _ _ Hpw Hag1) as Hd2.
        assert (Hnew : forall q, In q (map snd ((fk1, p1) :: sibs1)) -> ~ In q (tpages h (apply_wr w' P d) K)).
        { intros q Hq Hi. apply (frame_new _ _ _ _ _ q Hfi Hfr1 (proj1 (Hin q Hq))).
          destruct (C q Hi) as [X|X]; [apply Hg0, X|apply HU, X]. }
        destruct (branch_tail_wf _ h _ K d0 rest s None Esp Hd2 Hks (fun k _ => I) A B Hnd1 Hnew) as (R1 & R2 & R3).
        split; [exact R1|]. split; [exact R2|]. intros x Hx. apply R3 in Hx. destruct Hx as [Hx|Hx].
        - left. apply in_or_app. left. exact Hx.
        - destruct (C x Hx) as [X|X]; [left; apply in_or_app; right; exact X|right; exact X]. }
      assert (HU1 : forall x, In x U -> In x (a1 ++ live)) by (intros x Hx; apply in_or_app; right; apply HU, Hx).
      destruct (IH (a1 ++ live) s1 fk1 p1 sibs1 target (S m) good1 p' s' (S h) U (fr_fresh _ _ _ _ _ Hfr1) Hg1
                   ltac:(left; reflexivity) HU1 Hents1 Hkeys1 Hwf1 H)
        as (a2 & dd2 & good & lv & Hfr2 & Hgood & Hp' & Hlv & Hdead2 & Hfin & (fk' & Hwf') & Hpow).
      exists (a2 ++ a1), ((old_pages nr ++ stale) ++ dd2), good, (S lv).
      split; [apply (frame_trans _ _ _ _ _ _ _ _ Hfr1 Hfr2)|].
      split.
      { intros q Hq. destruct (Hgood q Hq) as [A|A]; [left; apply in_or_app; left; exact A|].
        apply in_app_or in A. destruct A as [A|A]; [left; apply in_or_app; right; apply (Hin q A)|right; exact A]. }
      split; [exact Hp'|]. split; [lia|].
      split.
      { intros x Hx. apply in_app_or in Hx. destruct Hx as [Hx|Hx].
        - change (old_pages nr) with (@nil N) in Hx. cbn [app] in Hx. split; [apply in_or_app; right; apply Hst, Hx|].
          intros Hg. destruct (Hgood x Hg) as [A|A].
          + apply (frame_new _ _ _ _ _ x (fr_fresh _ _ _ _ _ Hfr1) Hfr2 A). apply in_or_app. left. apply Hst, Hx.
          + apply in_app_or in A. destruct A as [A|A].
            * apply (proj2 (proj2 (Hin x A))), Hx.
            * apply (frame_new _ _ _ _ _ x Hfi Hfr1 (Hst x Hx)), Hg0, A.
        - destruct (Hdead2 x Hx) as [A B]. split; [apply in_or_app; left; exact A|exact B]. }
      split; [intros w' P Hag Hk F HF; apply (Hfin w' P Hag Hk); lia|].
      split; [exists fk'; replace (S lv + h)%nat with (lv + S h)%nat by lia; exact Hwf'|].
      (* every level at least halves the number of entries *)
      assert (Hhalf : (2 * List.length ((fk1, p1) :: sibs1) <= List.length K)%nat).
      { pose proof Hpw as L. apply Forall2_length in L.
        destruct (split_branches s K) as (e0 & ess & Esp' & Hcat & _ & _ & Hge). rewrite Esp' in Esp.
        inversion Esp; subst d0 rest. rewrite L. cbn [List.length]. rewrite map_length.
        destruct ess as [|e1 ess'].
        - unfold K. cbn [List.length]. lia.
        - specialize (Hge ltac:(discriminate)). rewrite <- Hcat.
          change (e0 ++ concat (e1 :: ess')) with (concat (e0 :: e1 :: ess')).
          change (S (List.length (e1 :: ess'))) with (List.length (e0 :: e1 :: ess')).
          apply pieces_ge2, Hge. }
      cbn [Nat.pow]. fold K. lia.
Qed.

Lemma PInv_present : forall h d lo hi ok q, PInv h d lo hi ok q -> EngineBridgeFacts.pages_present h d q.
Proof.
  induction h as [|h IH]; intros d lo hi ok q H; [destruct H|]. rewrite PInv_S in H. cbn [EngineBridgeFacts.pages_present].
  destruct H as (a & Hg & _ & Hb). rewrite Hg. destruct (ap_body a) as [l|es]; [exact I|].
  destruct Hb as (_ & _ & _ & _ & HC). intros e He. destruct (In_nth_error _ _ He) as [j Hj].
  destruct (Forall2_nth_error_l _ _ _ _ _ HC Hj) as (b & _ & HP). apply (IH _ _ _ _ _ HP).
Qed.

(* a single returned entry: the root page *)
Lemma wf_out_root h d' fk p U (good : list N) :
  OutInv h d' [(fk, p)] None -> NoDup (tpages h d' [(fk, p)]) ->
  (forall x, In x (tpages h d' [(fk, p)]) -> In x good \/ In x U) ->
  PInv h d' None None None p /\ NoDup (p :: ppages h d' p) /\
  (forall x, In x (p :: ppages h d' p) -> In x good \/ In x U).
Proof.
  unfold tpages. cbn [flat_map snd]. rewrite app_nil_r. intros HO Hn Hi.
  split; [|split; assumption]. apply OutInv_single in HO. apply PInv_okey_none in HO.
  eapply PInv_weaken; [| |exact HO]; exact I.
Qed.

(** ** the main theorem: the root page written by [spill_root] heads a strict tree without shared pages *)
Theorem spill_root_wf_levels fuel d keep live f n s p s' h :
  fresh_inv live s -> (forall x, In x keep -> In x live) ->
  swfh fuel d keep h None None n -> NoDup (upages h d n) ->
  spill_root f n s = Ok (p, s') ->
  exists alloc dead good lv,
    frame live s s' alloc dead /\ (forall q, In q good -> In q alloc) /\ In p good /\ (lv <= f)%nat /\
    (forall x, old_run n x -> In x dead) /\
    (forall L, (forall x, In x L -> In x live) -> old_in L n ->
       forall x, In x dead -> (In x L \/ In x alloc) /\ ~ In x good) /\
    (forall w' P, wr_agree good (wr s') w' -> (forall x, In x keep -> wr_get w' x = None) ->
      let d' := apply_wr w' P d in let H := (lv + h)%nat in
      (forall F, (lv + ndepth n + fuel <= F)%nat -> page_ents F d' p = view_leaves fuel d n) /\
      PInv H d' None None None p /\ NoDup (p :: ppages H d' p) /\
      (forall x, In x (p :: ppages H d' p) -> In x good \/ In x (upages h d n)) /\
      wf_page d' p /\ PageView d' H p (view_leaves fuel d n)) /\
    (* every new level at least halves the number of entries: lv <= log2 of the number of pieces of the root *)
    (forall o fk p1 sibs s1, spill_node fuel0 n s = Ok ((o, (fk, p1), sibs), s1) ->
       (2 ^ lv <= S (List.length sibs))%nat).
Proof.
  intros Hfi Hkl Hswfh Hupnd H. destruct f as [|f]; [discriminate|]. cbn [spill_root] in H.
  pose proof (swfh_swf _ _ _ _ _ _ _ Hswfh) as Hswf.
  assert (Hsp : exists o fk p1 sibs s1, spill_node fuel0 n s = Ok ((o, (fk, p1), sibs), s1) /\
                  match sibs with [] => Ok (p1, s1)
                  | _ => spill_root f (Node 0 0 (Some fk) 0 (Branches ((fk, p1) :: sibs)) []) s1 end = Ok (p, s')).
  { assert (E : (match n_data n with
                 | Leaves [] => let '(n1, s'0) := write_node s (set_kids n []) in Ok ((n_orig n, ([], n_page n1), []), s'0)
                 | _ => spill_node fuel0 n s end) = spill_node fuel0 n s).
    { inversion Hswf as [? ? ? ? ? ? l Hk|]; subst; cbn [n_data]; [|reflexivity].
      destruct l as [|e l]; [destruct Hk as [Hk _]; exfalso; apply Hk; reflexivity|reflexivity]. }
    rewrite E in H. destruct (spill_node fuel0 n s) as [[[[o [fk p1]] sibs] s1]| |]; try discriminate.
    cbn [bind] in H. exists o, fk, p1, sibs, s1. split; [reflexivity|exact H]. }
  destruct Hsp as (o & fk & p1 & sibs & s1 & Hsp & Hloop).
  destruct (spill_node_spec2 fuel d keep fuel0 _ _ _ _ _ _ _ _ _ _ _ Hfi Hkl Hswfh Hupnd Hsp)
    as (a1 & dd1 & g1 & Hfr1 & Hg1a & Hg1p & _ & Hkeys & _ & Hold & Hents & Hdead1 & Hwf).
  assert (Hg1 : forall q, In q g1 -> In q (a1 ++ live)) by (intros q Hq; apply in_or_app; left; apply Hg1a, Hq).
  assert (HU : forall x, In x (upages h d n) -> In x (a1 ++ live)).
  { intros x Hx. apply in_or_app. right. apply Hkl. apply (swfh_upages_keep _ _ _ _ _ _ _ Hswfh x Hx). }
  destruct (root_loop2 d keep f (a1 ++ live) s1 fk p1 sibs _ _ g1 p s' h _ (fr_fresh _ _ _ _ _ Hfr1) Hg1
              (Hg1p _ (or_introl eq_refl)) HU Hents Hkeys Hwf Hloop)
    as (a2 & dd2 & good & lv & Hfr2 & Hgood & Hp' & Hlv & Hdead2 & Hfin & (fk' & Hwf') & Hpow).
  exists (a2 ++ a1), (dd1 ++ dd2), good, lv.
  split; [apply (frame_trans _ _ _ _ _ _ _ _ Hfr1 Hfr2)|].
  split. { intros q Hq. apply in_or_app. destruct (Hgood q Hq) as [A|A]; [left; exact A|right; apply Hg1a, A]. }
  split; [exact Hp'|]. split; [lia|].
  split; [intros x Hx; apply in_or_app; left; apply Hold, Hx|].
  split.
  { intros L HL Hol x Hx. apply in_app_or in Hx. destruct Hx as [Hx|Hx].
    - destruct (Hdead1 L HL Hol x Hx) as [A B]. split.
      + destruct A as [A|A]; [left|right; apply in_or_app; right]; exact A.
      + intros Hg. destruct (Hgood x Hg) as [C|C]; [|exact (B C)].
        apply (frame_new _ _ _ _ _ x (fr_fresh _ _ _ _ _ Hfr1) Hfr2 C). apply in_or_app.
        destruct A as [A|A]; [right; apply HL|left]; exact A.
    - destruct (Hdead2 x Hx) as [A B]. split; [right; apply in_or_app; left; exact A|exact B]. }
  split; [|intros o' fk0 p0 sibs0 s0 E0; rewrite Hsp in E0; inversion E0; subst; exact Hpow].
  intros w' P Hag Hk. cbv zeta.
  assert (Hpe : forall F, (lv + ndepth n + fuel <= F)%nat -> page_ents F (apply_wr w' P d) p = view_leaves fuel d n).
  { intros F HF. apply (Hfin w' P Hag Hk). lia. }
  split; [exact Hpe|].
  destruct (Hwf' w' P Hag Hk) as (A & B & C).
  destruct (wf_out_root _ _ _ _ _ _ A B C) as (R1 & R2 & R3).
  split; [exact R1|]. split; [exact R2|]. split; [exact R3|].
  split; [apply (PInv_wf_page _ _ _ _ _ _ R1)|].
  pose proof (EngineBridgeFacts.page_ents_PageView _ _ _ (PInv_present _ _ _ _ _ _ R1)) as Hv.
  set (F := Nat.max (lv + h) (lv + ndepth n + fuel)).
  rewrite <- (Hpe F) by (unfold F; lia).
  rewrite (EngineBridgeFacts.PageView_page_ents _ _ _ _ Hv F) by (unfold F; lia). exact Hv.
Qed.

Theorem spill_root_wf fuel d keep live f n s p s' h :
  fresh_inv live s -> (forall x, In x keep -> In x live) ->
  swfh fuel d keep h None None n -> NoDup (upages h d n) ->
  spill_root f n s = Ok (p, s') ->
  exists alloc dead good lv,
    frame live s s' alloc dead /\ (forall q, In q good -> In q alloc) /\ In p good /\ (lv <= f)%nat /\
    (forall x, old_run n x -> In x dead) /\
    (forall L, (forall x, In x L -> In x live) -> old_in L n ->
       forall x, In x dead -> (In x L \/ In x alloc) /\ ~ In x good) /\
    forall w' P, wr_agree good (wr s') w' -> (forall x, In x keep -> wr_get w' x = None) ->
      let d' := apply_wr w' P d in let H := (lv + h)%nat in
      (forall F, (lv + ndepth n + fuel <= F)%nat -> page_ents F d' p = view_leaves fuel d n) /\
      PInv H d' None None None p /\ NoDup (p :: ppages H d' p) /\
      (forall x, In x (p :: ppages H d' p) -> In x good \/ In x (upages h d n)) /\
      wf_page d' p /\ PageView d' H p (view_leaves fuel d n).
Proof.
  intros Hfi Hkl Hswfh Hupnd H.
  destruct (spill_root_wf_levels fuel d keep live f n s p s' h Hfi Hkl Hswfh Hupnd H)
    as (alloc & dead & good & lv & A1 & A2 & A3 & A4 & A5 & A6 & A7 & _).
  exists alloc, dead, good, lv. repeat (split; [assumption|]). exact A7.
Qed.


(* the empty root (a bucket emptied by the transaction): one empty leaf page *)
Theorem spill_root_empty_wf live f n s p s' :
  fresh_inv live s -> n_data n = Leaves [] -> spill_root f n s = Ok (p, s') ->
  ~ In p live /\
  forall w' P d, wr_agree [p] (wr s') w' ->
    let d' := apply_wr w' P d in
    PInv 1 d' None None None p /\ ppages 1 d' p = [] /\ wf_page d' p /\ PageView d' 1 p [].
Proof.
  intros Hfi Hn H. destruct f as [|f]; [discriminate|]. cbn [spill_root] in H.
  rewrite Hn in H. destruct (write_node s (set_kids n [])) as [n1 s1] eqn:Hw. cbn [bind] in H.
  inversion H; subst p s'. clear H.
  destruct (write_node_frame _ _ _ _ _ Hfi Hw) as (Hfr & _ & Hp2 & Hk0 & _ & Hget).
  assert (Ed : n_data (set_kids n []) = Leaves []) by (destruct n; exact Hn). rewrite Ed in Hget.
  split. { apply (frame_new _ _ _ _ _ (n_page n1) Hfi Hfr). apply In_nrun. lia. }
  intros w' P d Hag. cbv zeta.
  assert (Hg : dget (apply_wr w' P d) (n_page n1) = Some (mk_apage P (node_size (set_kids n []), Leaves []))).
  { apply dget_apply_wr_some. rewrite (Hag _ (or_introl eq_refl)). exact Hget. }
  assert (HP : PInv 1 (apply_wr w' P d) None None None (n_page n1)).
  { rewrite PInv_S. eexists. split; [exact Hg|]. split; [exact I|]. cbn [mk_apage ap_body snd map].
    split; [reflexivity|constructor]. }
  split; [exact HP|]. split; [rewrite ppages_S, Hg; reflexivity|]. split; [apply (PInv_wf_page _ _ _ _ _ _ HP)|].
  eapply PV_leaf; [exact Hg|reflexivity].
Qed.

(** ** at commit time: the write set of any later state of the same transaction qualifies *)
Corollary spill_root_wf_committed fuel d keep live f n s p s' h s'' a2 d2 :
  fresh_inv live s -> (forall x, In x keep -> In x live) -> (forall x, In x keep -> wr_get (wr s) x = None) ->
  swfh fuel d keep h None None n -> NoDup (upages h d n) ->
  spill_root f n s = Ok (p, s') ->
  exists alloc dead lv,
    frame live s s' alloc dead /\ In p alloc /\ ~ In p live /\ (lv <= f)%nat /\
    (frame (alloc ++ live) s' s'' a2 d2 ->
     forall P, let d' := apply_wr (wr s'') P d in let H := (lv + h)%nat in
       PInv H d' None None None p /\ NoDup (ppages H d' p) /\ ~ In p (ppages H d' p) /\
       (forall x, In x (ppages H d' p) -> In x alloc \/ In x (upages h d n)) /\
       wf_page d' p /\ PageView d' H p (view_leaves fuel d n)).
Proof.
  intros Hfi Hkl Hk0 Hs Hu H.
  destruct (spill_root_wf fuel d keep live f n s p s' h Hfi Hkl Hs Hu H)
    as (alloc & dead & good & lv & Hfr & Hga & Hp & Hlv & _ & _ & Hfin).
  exists alloc, dead, lv. split; [exact Hfr|]. split; [apply Hga, Hp|].
  split; [apply (frame_new _ _ _ _ _ _ Hfi Hfr), Hga, Hp|]. split; [exact Hlv|].
  intros Hfr2 P. cbv zeta.
  destruct (frame_later_ok _ _ _ _ _ _ _ _ _ _ Hfi Hfr Hga Hkl Hk0 Hfr2) as [A B].
  destruct (Hfin (wr s'') P A B) as (_ & R1 & R2 & R3 & R4 & R5). cbv zeta in *.
  inversion R2 as [|? ? Hn Hnd]; subst.
  split; [exact R1|]. split; [exact Hnd|]. split; [exact Hn|].
  split; [|split; assumption].
  intros x Hx. destruct (R3 x (or_intror Hx)) as [X|X]; [left; apply Hga, X|right; exact X].
Qed.

(* ====================================================================== *)
(** * 7. Non-vacuity: the six-entry leaf (300-byte keys, page size 1024) that splits in three, alone and
       under a parent branch whose other child (page 10) stays on disk *)
Module Examples.
  Notation k300 := EngineFacts.k300.

  Example ex_PInv10 : PInv 1 ex_d None None (Some kM) 10.
  Proof.
    rewrite PInv_S. eexists. split; [vm_compute; reflexivity|]. split; [reflexivity|].
    cbn [ap_body map lkey]. split; [vm_compute; reflexivity|]. repeat constructor.
  Qed.

  Example ex_swfh_leaf : swfh 1 ex_d [10] 1 None (Some kM) ex_n.
  Proof.
    apply swfh_leaf. split; [discriminate|]. split; [vm_compute; reflexivity|].
    intros k Hk. split; [exact I|]. vm_compute in Hk.
    repeat (destruct Hk as [<-|Hk]; [vm_compute; reflexivity|]). destruct Hk.
  Qed.

  Example ex_swfh : swfh 1 ex_d [10] 2 None None ex_br.
  Proof.
    apply swfh_branch.
    - split; [discriminate|]. split; [vm_compute; reflexivity|]. intros k _. split; exact I.
    - cbn [map snd]. repeat constructor; cbn [In]; intuition discriminate.
    - cbn [map n_page ex_n]. repeat constructor; cbn [In]; intuition discriminate.
    - intros kd [<-|[]]. exists (k300 x01). split; [reflexivity|left; reflexivity].
    - intros l h e kd Hi Hf. cbn [chb fst] in Hi. destruct Hi as [Hi|[Hi|[]]]; inversion Hi; subst l h e; clear Hi.
      + vm_compute in Hf. inversion Hf. subst kd. exact ex_swfh_leaf.
      + vm_compute in Hf. discriminate.
    - intros l h e Hi Hf. cbn [chb fst] in Hi. destruct Hi as [Hi|[Hi|[]]]; inversion Hi; subst l h e; clear Hi.
      + vm_compute in Hf. discriminate.
      + split; [|exact ex_PInv10]. cbn [stable snd]. split; [left; reflexivity|]. vm_compute. exact I.
  Qed.

  Example ex_upages : upages 2 ex_d ex_br = [10].
  Proof. vm_compute. reflexivity. Qed.

  (* (1) the leaf alone: three strict leaf pages in the consecutive intervals [k1,k3) [k3,k5) [k5,kM) *)
  Example ex_leaf_wf :
    match spill_node 1 ex_n ex_s with
    | Ok ((_, (fk, p), sibs), s') =>
        (fk, p) :: sibs = [(k300 x01, 5); (k300 x03, 7); (k300 x05, 12)] /\
        forall d, let d' := apply_wr (wr s') 1024 d in
          PInv 1 d' (Some (k300 x01)) (Some (k300 x03)) (Some (k300 x01)) 5 /\
          PInv 1 d' (Some (k300 x03)) (Some (k300 x05)) (Some (k300 x03)) 7 /\
          PInv 1 d' (Some (k300 x05)) (Some kM) (Some (k300 x05)) 12
    | _ => False end.
  Proof.
    destruct (spill_node 1 ex_n ex_s) as [[[[orig [fk p]] sibs] s']| |] eqn:E; try (vm_compute in E; discriminate).
    assert (Hk : keys_ok None (Some kM) (map lkey ex_leaf6)).
    { pose proof ex_swfh_leaf as H. inversion H; assumption. }
    pose proof (spill_leaf_wf ex_live 1 3 1 _ 1 ex_leaf6 None (Some kM) ex_s orig fk p sibs s' (proj1 ex_fresh) Hk E) as Hwf.
    assert (Eo : (fk, p) :: sibs = [(k300 x01, 5); (k300 x03, 7); (k300 x05, 12)]).
    { vm_compute in E. inversion E. reflexivity. }
    split; [exact Eo|]. intros d. destruct (Hwf (wr s') 1024 d (fun q _ => eq_refl)) as (HO & _).
    cbv zeta in HO. rewrite Eo in HO. cbn [map fst cbs nxt] in HO.
    inversion HO as [|? ? ? ? H1 HO1]; subst. inversion HO1 as [|? ? ? ? H2 HO2]; subst.
    inversion HO2 as [|? ? ? ? H3 _]; subst. cbn [fst snd] in *. repeat split; assumption.
  Qed.

  (* (2),(3) under the parent: [spill_root] returns page 13; in the committed disk it heads a strict tree of
     height 2 whose pages 5, 7, 12 (new) and 10 (kept) are distinct; the theorem applied, and the concrete pages *)
  Example ex_root_wf :
    match spill_root 3 ex_br ex_s with
    | Ok (p, s') =>
        p = 13 /\
        let d' := apply_wr (wr s') 1024 ex_d in
        (exists lv, (lv <= 3)%nat /\ PInv (lv + 2) d' None None None p /\ NoDup (ppages (lv + 2) d' p) /\
                    wf_page d' p /\ PageView d' (lv + 2) p (view_leaves 1 ex_d ex_br)) /\
        ppages 2 d' p = [5; 7; 12; 10] /\
        option_map ap_body (dget d' p) =
          Some (Branches [(k300 x01, 5); (k300 x03, 7); (k300 x05, 12); (kM, 10)]) /\
        map (fun q => option_map (fun a => first_key (ap_body a)) (dget d' q)) [5; 7; 12; 10] =
          [Some (Ok (k300 x01)); Some (Ok (k300 x03)); Some (Ok (k300 x05)); Some (Ok kM)]
    | _ => False end.
  Proof.
    destruct (spill_root 3 ex_br ex_s) as [[p s']| |] eqn:E; try (vm_compute in E; discriminate).
    assert (Hk : forall x, In x [10] -> In x ex_live) by (intros x [<-|[]]; vm_compute; tauto).
    assert (Hk0 : forall x, In x [10] -> wr_get (wr ex_s) x = None) by (intros x _; reflexivity).
    assert (Hu : NoDup (upages 2 ex_d ex_br)) by (rewrite ex_upages; repeat constructor; intros []).
    destruct (spill_root_wf_committed 1 ex_d [10] ex_live 3 ex_br ex_s p s' 2 s' [] []
                (proj1 ex_fresh) Hk Hk0 ex_swfh Hu E)
      as (alloc & dead & lv & Hfr & _ & _ & Hlv & Hfin).
    destruct (Hfin (frame_refl _ _ (fr_fresh _ _ _ _ _ Hfr)) 1024) as (R1 & R2 & _ & _ & R5 & R6).
    cbv zeta in *.
    split; [vm_compute in E; inversion E; reflexivity|].
    split; [exists lv; repeat split; assumption|].
    vm_compute in E. inversion E; subst p s'. vm_compute. repeat split.
  Qed.

  (* the leaf as a root: a new branch level is written above the three leaf pages (lv = 1, height 2) *)
  Example ex_root_levels_wf :
    match spill_root 3 ex_n ex_s with
    | Ok (p, s') =>
        let d' := apply_wr (wr s') 1024 [] in
        (exists lv, (lv <= 3)%nat /\ PInv (lv + 1) d' None None None p /\ NoDup (ppages (lv + 1) d' p)) /\
        p = 13 /\ ppages 2 d' p = [5; 7; 12]
    | _ => False end.
  Proof.
    destruct (spill_root 3 ex_n ex_s) as [[p s']| |] eqn:E; try (vm_compute in E; discriminate).
    assert (Hs : swfh 0 [] [] 1 None None ex_n).
    { apply swfh_leaf. split; [discriminate|]. split; [vm_compute; reflexivity|]. intros k _. split; exact I. }
    destruct (spill_root_wf_committed 0 [] [] ex_live 3 ex_n ex_s p s' 1 s' [] []
                (proj1 ex_fresh) (fun x (H : In x []) => match H with end) (fun x (H : In x []) => match H with end)
                Hs (NoDup_nil _) E)
      as (alloc & dead & lv & Hfr & _ & _ & Hlv & Hfin).
    destruct (Hfin (frame_refl _ _ (fr_fresh _ _ _ _ _ Hfr)) 1024) as (R1 & R2 & _).
    cbv zeta in *. split; [exists lv; repeat split; assumption|].
    vm_compute in E. inversion E; subst p s'. vm_compute. repeat split.
  Qed.
End Examples.

(* ====================================================================== *)
(** * 8. From the rebalance invariant [Inv] / [RInv] of EngineRebalanceFacts to [swfh] *)

(* what [Inv] does not say: a materialised leaf has no kids and is not empty (first_key would panic) *)
Inductive shape_ok : node -> Prop :=
| so_leaf pg npg o sq l : l <> [] -> shape_ok (Node pg npg o sq (Leaves l) [])
| so_branch pg npg o sq es ks : (forall kd, In kd ks -> shape_ok kd) -> shape_ok (Node pg npg o sq (Branches es) ks).

(* [chb] (child 0 inherits the lower bound) against [cbs] (child 0 starts at f of its separator) *)
Lemma chb_cbs (R : bytes * N -> option bytes * option bytes -> Prop) : forall es f lo hi,
  Forall2 R es (cbs f (map fst es) hi) ->
  (forall e r, es = e :: r -> lo_le lo (f (fst e))) ->
  forall l hh e, In (l, hh, e) (chb lo hi es) -> exists l', R e (l', hh) /\ lo_le l l'.
Proof.
  induction es as [|e0 es IH]; intros f lo hi H Hlo l hh e Hi; [destruct Hi|].
  cbn [map cbs] in H. inversion H as [|x1 y1 l1 l2 H0 H' E1 E2]. subst x1 y1 l1 l2.
  cbn [chb] in Hi. destruct Hi as [Hi|Hi].
  - inversion Hi; subst l hh e. exists (f (fst e0)). split; [|apply (Hlo e0 es eq_refl)].
    destruct es as [|e' es']; exact H0.
  - refine (IH Some (match es with [] => hi | e' :: _ => Some (fst e') end) hi H' _ l hh e Hi).
    intros e1 r E. subst es. cbn. apply bcmp_le_refl.
Qed.

Lemma PInv_stable : forall h d keep lo hi ok q, PInv h d lo hi ok q ->
  (forall x, In x (q :: ppages h d q) -> In x keep) -> forall fuel, (h <= fuel)%nat -> stable fuel d keep q.
Proof.
  induction h as [|h IH]; intros d keep lo hi ok q H Hk fuel Hle; [destruct H|].
  destruct fuel as [|fuel]; [lia|]. cbn [stable]. split; [apply Hk; left; reflexivity|].
  rewrite PInv_S in H. destruct H as (a & Hg & _ & Hb). rewrite ppages_S, Hg in Hk. rewrite Hg.
  destruct (ap_body a) as [l|es]; [exact I|]. destruct Hb as (_ & _ & _ & _ & HC).
  intros e He. destruct (In_nth_error _ _ He) as [j Hj].
  destruct (Forall2_nth_error_l _ _ _ _ _ HC Hj) as (b & _ & HP).
  apply (IH _ _ _ _ _ _ HP); [|lia]. intros x Hx. apply Hk. right. apply in_or_app. destruct Hx as [<-|Hx].
  - left. apply in_map, He.
  - right. apply in_flat_map. exists e. split; assumption.
Qed.

Theorem Inv_swfh : forall h d keep fuel lo hi n,
  Inv h d false lo hi n -> shape_ok n -> (forall x, In x (upages h d n) -> In x keep) -> (h <= fuel)%nat ->
  swfh fuel d keep h lo hi n.
Proof.
  induction h as [|h IH]; intros d keep fuel lo hi n H Hsh Hk Hle; [destruct H|].
  destruct n as [p np o s [l|es] ks].
  - rewrite Inv_leaf_eq in H. destruct H as [Hs Hf]. inversion Hsh as [? ? ? ? ? Hne|]; subst.
    apply swfh_leaf. split; [destruct l; [contradiction|discriminate]|]. split; [exact Hs|].
    rewrite Forall_forall in Hf. exact Hf.
  - rewrite Inv_branch_eq in H. destruct H as (Hne & Hs & Hnd & Hf & [Hndk Hlink] & HC).
    inversion Hsh as [|? ? ? ? ? ? Hshk]; subst.
    assert (Hlo : forall e r, es = e :: r -> lo_le lo (lo0 lo (fst e))).
    { intros e r E. subst es. cbn [map] in Hf. inversion Hf as [|? ? [Hl _] _]; subst. apply lo0_inside, Hl. }
    apply swfh_branch.
    + split; [specialize (Hne eq_refl); destruct es; [contradiction|discriminate]|]. split; [exact Hs|].
      rewrite Forall_forall in Hf. exact Hf.
    + exact Hnd.
    + exact Hndk.
    + intros kd Hkd. rewrite Forall_forall in Hlink. destruct (Hlink kd Hkd) as (key & Hi & Ho).
      exists key. split; assumption.
    + intros l hh e kd Hi Hfk. destruct (chb_cbs _ es (lo0 lo) lo hi HC Hlo l hh e Hi) as (l' & HR & Hll).
      unfold CInv in HR. rewrite Hfk in HR. cbn [fst snd] in HR.
      destruct (EngineSpillFacts.find_kid_In _ _ _ Hfk) as [Hkd _].
      apply IH; [eapply Inv_weaken; [exact Hll|apply hi_le_refl|exact HR]|apply Hshk, Hkd| |lia].
      intros x Hx. apply Hk. cbn [upages]. apply in_flat_map. exists e.
      split; [apply (chb_In_inv _ _ _ _ _ _ Hi)|rewrite Hfk; exact Hx].
    + intros l hh e Hi Hfk. destruct (chb_cbs _ es (lo0 lo) lo hi HC Hlo l hh e Hi) as (l' & HR & Hll).
      unfold CInv in HR. rewrite Hfk in HR. cbn [fst snd] in HR. split.
      * apply (PInv_stable h d keep _ _ _ _ HR); [|lia]. intros x Hx. apply Hk. cbn [upages]. apply in_flat_map.
        exists e. split; [apply (chb_In_inv _ _ _ _ _ _ Hi)|rewrite Hfk; exact Hx].
      * eapply PInv_weaken; [|apply hi_le_refl|exact HR]. exact I.
Qed.

Lemma upages_incl_npages : forall h d n x, In x (upages h d n) -> In x (npages h d n).
Proof.
  induction h as [|h IH]; intros d n x Hx; [destruct Hx|]. destruct n as [p np o s [l|es] ks]; [destruct Hx|].
  rewrite npages_branch_eq. cbn [upages] in Hx. apply in_flat_map in Hx. destruct Hx as (e & He & Hx).
  apply in_or_app. unfold cpages. destruct (find_kid (snd e) ks) as [kd|] eqn:Hfk.
  - right. apply in_flat_map. exists e. split; [exact He|]. rewrite Hfk. apply IH, Hx.
  - destruct Hx as [<-|Hx]; [left; apply in_map, He|right]. apply in_flat_map. exists e.
    split; [exact He|]. rewrite Hfk. exact Hx.
Qed.

Theorem NoDup_npages_upages : forall h d n, NoDup (npages h d n) -> NoDup (upages h d n).
Proof.
  induction h as [|h IH]; intros d n H; [constructor|]. destruct n as [p np o s [l|es] ks]; [constructor|].
  rewrite npages_branch_eq in H. apply NoDup_app_iff in H. destruct H as (HA & HC & HD). cbn [upages].
  assert (HU : forall e x, In e es ->
            In x (match find_kid (snd e) ks with Some kd => upages h d kd | None => snd e :: ppages h d (snd e) end) ->
            x = snd e \/ In x (cpages h d ks (snd e))).
  { intros e x He Hx. unfold cpages. destruct (find_kid (snd e) ks) as [kd|].
    - right. apply upages_incl_npages, Hx.
    - destruct Hx as [<-|Hx]; [left; reflexivity|right; exact Hx]. }
  apply NoDup_flat_map_intro.
  - apply NoDup_map_snd_NoDup, HA.
  - intros e He. pose proof (NoDup_flat_map_elim _ es e HC He) as Hc. unfold cpages in Hc.
    destruct (find_kid (snd e) ks) as [kd|] eqn:Hfk; [apply IH, Hc|]. constructor; [|exact Hc].
    intros Hi. apply (HD (snd e)); [apply in_map, He|]. apply in_flat_map. exists e. split; [exact He|].
    unfold cpages. rewrite Hfk. exact Hi.
  - intros e1 e2 He1 He2 Hne x Hx1 Hx2.
    assert (Hpne : snd e1 <> snd e2) by (intros E; apply Hne; apply (NoDup_map_inj snd es _ _ HA He1 He2 E)).
    destruct (HU e1 x He1 Hx1) as [X1|X1], (HU e2 x He2 Hx2) as [X2|X2].
    + congruence.
    + apply (HD x); [rewrite X1; apply in_map, He1|]. apply in_flat_map. exists e2. split; assumption.
    + apply (HD x); [rewrite X2; apply in_map, He2|]. apply in_flat_map. exists e1. split; assumption.
    + apply (NoDup_flat_map_disj _ es e1 e2 HC He1 He2 Hne x X1 X2).
Qed.

(* the invariant of a bucket's root node after rebalance gives the hypotheses of [spill_root_wf] *)
Corollary RInv_swfh h d s keep fuel n :
  RInv h d s false n -> shape_ok n -> (forall x, In x (upages h d n) -> In x keep) -> (h <= fuel)%nat ->
  swfh fuel d keep h None None n /\ NoDup (upages h d n).
Proof.
  intros (Hi & Hn & _) Hsh Hk Hle. split; [apply Inv_swfh; assumption|apply NoDup_npages_upages, Hn].
Qed.

(* ====================================================================== *)
(* Summary.
   Hypotheses.   [swfh fuel d keep h lo hi n] = [swf] of EngineSpillFacts + the overlay has height <= h + every
                 child page without a kid satisfies [stable] and, on the OLD disk, [PInv h' d None hh (Some sep) q]
                 (strict, filed under its separator, below the next one); [NoDup (upages h d n)]: the kept
                 committed subtrees share no page; [keep] is part of [live]. [Inv_swfh] / [RInv_swfh] derive them
                 from the rebalance invariant, given [shape_ok] (materialised leaves are non-empty, without kids).
   Established.  [spill_leaf_wf] (1), [spill_node_spec2] / [spill_node_wf] (2): the returned entries satisfy
                 [OutInv]: PInv at height h in the consecutive intervals [k_i, k_(i+1)), ..., [k_last, hi),
                 separators = first keys, and [tpages] (all pages of the new subtrees) has no duplicate and
                 consists of new pages ([good]) and kept ones ([upages]);
                 [spill_root_wf] / [spill_root_wf_levels] / [spill_root_wf_committed] (3): the root page satisfies
                 [PInv (lv + h) d' None None None p], [NoDup (ppages (lv + h) d' p)] -- the two halves of [BInv]
                 for a bucket without root node -- and [wf_page], [PageView d' (lv + h) p (view_leaves fuel d n)];
                 lv <= the fuel of [spill_root] and 2 ^ lv <= the number of pieces of the root;
                 [spill_root_empty_wf] (4): the empty root leaf.
   Tools.        [PInv_mono], [PInv_tighten], [PInv_apply_wr_keep], [ppages_keep], [OutInv_segs],
                 [OutInv_pieces], [leaf_tail_wf], [branch_tail_wf]. *)
Print Assumptions PInv_tighten.
Print Assumptions PInv_apply_wr_keep.
Print Assumptions leaf_tail_wf.
Print Assumptions branch_tail_wf.
Print Assumptions kids_fold2.
Print Assumptions spill_node_spec2.
Print Assumptions spill_node_wf.
Print Assumptions spill_leaf_wf.
Print Assumptions root_loop2.
Print Assumptions spill_root_wf_levels.
Print Assumptions spill_root_wf.
Print Assumptions spill_root_empty_wf.
Print Assumptions spill_root_wf_committed.
Print Assumptions Inv_swfh.
Print Assumptions NoDup_npages_upages.
Print Assumptions RInv_swfh.
Print Assumptions Examples.ex_leaf_wf.
Print Assumptions Examples.ex_root_wf.
Print Assumptions Examples.ex_root_levels_wf.
