(* Examples for EngineReaders: a history on [init_db 4096] with a reader held across two page-reusing transactions
   (library bound, k = 0), and the counterexample for the bound "oldest reader id + 2". *)
From Coq Require Import List NArith Bool Arith Lia ZifyN ZifyNat ZifyBool Permutation.
From Coq.Strings Require Import Byte.
From Jamm Require Spec.
From Jamm Require Import Bytes BytesFacts Tree Cursor SearchFacts Engine EngineAbs EngineFacts EngineMergeFacts.
From Jamm Require Import EngineModifyFacts EngineSpillFacts EnginePathFacts EngineBridgeFacts EngineRebalanceFacts.
From Jamm Require FreelistFacts EngineAllocFacts EngineSpillWfFacts.
From Jamm Require Import EngineTxInvFacts EngineSpillBucketFacts EngineRefines.
Import ListNotations.
Import Coq.Strings.String.StringSyntax. Delimit Scope string_scope with string.
Local Open Scope list_scope. Local Open Scope nat_scope.
Set Warnings "-abstract-large-number".
Arguments N.add : simpl never. Arguments N.sub : simpl never. Arguments N.mul : simpl never.
Arguments N.div : simpl never. Arguments N.ltb : simpl never. Arguments N.leb : simpl never.
Arguments N.eqb : simpl never.
From Jamm Require Import EngineOwnDefs EngineOwnSpill EngineAllocInv.
From Jamm Require Import EngineR EngineRBegin EngineReadersInv EngineReaders EngineReadersExact.
From Jamm Require EngineNoLeak EngineCow.

Module ExReaders.
Import Ex3.
Notation tx1 := ExHistory.tx1. Notation tx2 := ExHistory.tx2.

Definition T (t : list op * list bytes) : hstep := Tx (fst t) (snd t).
Definition tx3 : list op * list bytes := ([Put [] ka [x05]; Put [kb] kd [x06]], [kb]).
Definition tx4 : list op * list bytes := ([Put [] kc [x07]; Del [kb] kd], [kb]).
Definition tx5 : list op * list bytes := ([Put [] kd [x08]], []).
Definition H0 : hstate := (init_db 4096, []).

(* reader A begins after tx1 and keeps the batches 1 and 2 pending over tx2, tx3; reader B begins after tx3; A ends;
   tx4 begins with bound 3 (= B's id): the batches 1 and 2 are released and tx4 REUSES the pages 2, 3, 4; tx5 reuses
   the pages 5, 6.  B is held across both *)
Definition histB : list hstep := [T tx1; Begin_reader; T tx2; T tx3; Begin_reader; End_reader 0; T tx4; T tx5].

Definition histB_run := Eval vm_compute in run_hist H0 histB.
Definition histB_end : hstate := match histB_run with Ok h => h | _ => H0 end.
Example histB_run_ok : run_hist_k 0%N H0 histB = Ok histB_end.
Proof. vm_compute. reflexivity. Qed.

Ltac tx_step :=
  split; [repeat constructor; cbn; lia|];
  let h1 := fresh "h1" in let H1 := fresh "H1" in
  intros h1 H1; vm_compute in H1; inversion H1; subst h1; clear H1;
  split; [apply readableb_ok; vm_compute; reflexivity|].
Ltac rd_step :=
  split; [exact I|];
  let h1 := fresh "h1" in let H1 := fresh "H1" in
  intros h1 H1; vm_compute in H1; inversion H1; subst h1; clear H1;
  split; [apply readableb_ok; vm_compute; reflexivity|].

Example histB_ok : EngineReaders.hist_ok 0%N H0 histB.
Proof.
  unfold histB, H0. cbn [EngineReaders.hist_ok T ExHistory.tx1 ExHistory.tx2 tx3 tx4 tx5 fst snd].
  tx_step. rd_step. tx_step. tx_step. rd_step. rd_step. tx_step. tx_step. exact I.
Qed.

Definition curB : db := fst histB_end.
Definition rB : reader := match snd histB_end with r :: _ => r | [] => init_db 4096 end.

Example histB_readers : snd histB_end = [rB] /\ r_id rB = 3%N.
Proof. vm_compute. split; reflexivity. Qed.

(* through the theorem: B's pages are unchanged on the final disk, B reads its frozen contents, the final state
   satisfies the invariant and means what the specification says *)
Example histB_isolation :
  (forall p, In p (snap rB) -> dget (d_disk curB) p = dget (d_disk rB) p) /\
  abs_bucket 16 (d_disk curB) (d_root rB) (d_next rB) = abs_db rB /\
  db_okr curB /\ abs_db curB = sem_hist histB (SBucket 0 0 []).
Proof.
  destruct (snapshot_isolation_init 0%N 4096%N histB histB_end (N.le_0_l 1) eq_refl histB_ok histB_run_ok) as (A & B & C).
  destruct (A rB) as [A1 A2]; [rewrite (proj1 histB_readers); now left|]. auto.
Qed.

(* nothing is leaked along the way; the free-list record of the final state lists exactly its non-live pages *)
Example histB_exact :
  EngineNoLeak.db_exact_rec curB /\
  forall x, In x (d_flids curB) <-> ((2 <= x < d_np curB)%N /\ ~ In x (live_of curB (Rof curB))).
Proof. exact (hist_exact_init 0%N 4096%N histB histB_end (N.le_0_l 1) eq_refl histB_ok histB_run_ok). Qed.
Example histB_flids : d_flids curB = [3; 4; 8; 9; 10; 11; 12; 13]%N.
Proof. vm_compute. reflexivity. Qed.

(* ... and by evaluation: the pages concerned.  B's snapshot is [12; 11; 7] + free-list page 13; when B begins
   the batches 1 = [3; 2], 2 = [4; 5; 6], 3 = [8; 9; 10] are pending; tx4 (bound 3) is written to the released pages
   3, 2 and 4 (its free-list page), tx5 to 5 and 6; the final tree is [5; 2; 7] + free-list page 6; the pages 11, 12,
   13 of B's snapshot, handed back by tx4, are pending under 4 -- not reusable while B is open *)
Example histB_pages :
  snap rB = [12; 11; 7; 13]%N /\
  d_pending rB = [(1, [3; 2]); (2, [4; 5; 6]); (3, [8; 9; 10])]%N /\
  live_of curB (Rof curB) = [5; 2; 7; 6]%N /\ d_free curB = [] /\
  d_pending curB = [(3, [8; 9; 10]); (4, [11; 12; 13]); (5, [3; 4])]%N /\ d_np curB = 14%N.
Proof. vm_compute. repeat split; reflexivity. Qed.

Example histB_frozen_eval :
  abs_bucket 16 (d_disk curB) (d_root rB) (d_next rB) = abs_db rB /\ abs_db curB <> abs_db rB.
Proof. split; [vm_compute; reflexivity | vm_compute; discriminate]. Qed.

(* the state after tx4 (first reusing transaction, B open) *)
Definition histB4_end : hstate :=
  match run_hist H0 [T tx1; Begin_reader; T tx2; T tx3; Begin_reader; End_reader 0; T tx4] with Ok h => h | _ => H0 end.
Example histB4_pages :
  live_of (fst histB4_end) (Rof (fst histB4_end)) = [3; 2; 7; 4]%N /\ d_free (fst histB4_end) = [5; 6]%N /\
  d_pending (fst histB4_end) = [(3, [8; 9; 10]); (4, [11; 12; 13])]%N.
Proof. vm_compute. repeat split; reflexivity. Qed.

(* ---------------------------------------------------------------------- *)
(* COUNTEREXAMPLE: the bound "oldest reader id + 2" (k = 2, i.e. [release] with <= instead of < on reader id + 1).
   The reader begins after tx2 (id 2, snapshot [7; 3; 2] + free-list page 8).  tx3 hands back 3, 7, 8 under id 3.
   tx4 begins with bound min (2 + 2) 5 = 4: batch 3 is released and tx4 is written to 7, 3, 2, 8 -- the reader's pages.
   Every step is admissible and every state readable ([hist_ok]); the reader no longer reads its contents. *)
Definition histC : list hstep := [T tx1; T tx2; Begin_reader; T tx3; T tx4].
Definition histC_run := Eval vm_compute in run_hist_k 2 H0 histC.
Definition histC_end : hstate := match histC_run with Ok h => h | _ => H0 end.
Definition rC : reader := match snd histC_end with r :: _ => r | [] => init_db 4096 end.

Example histC_ok : EngineReaders.hist_ok 2%N H0 histC.
Proof.
  unfold histC, H0. cbn [EngineReaders.hist_ok T ExHistory.tx1 ExHistory.tx2 tx3 tx4 tx5 fst snd].
  tx_step. tx_step. rd_step. tx_step. tx_step. exact I.
Qed.

Example k2_breaks_reader :
  run_hist_k 2 H0 histC = Ok histC_end /\ snd histC_end = [rC] /\ r_id rC = 2%N /\
  snap rC = [7; 3; 2; 8]%N /\ live_of (fst histC_end) (Rof (fst histC_end)) = [7; 3; 2; 8]%N /\
  dget (d_disk (fst histC_end)) 7%N <> dget (d_disk rC) 7%N /\
  abs_bucket 16 (d_disk (fst histC_end)) (d_root rC) (d_next rC) <> abs_db rC.
Proof.
  split; [vm_compute; reflexivity|]. split; [vm_compute; reflexivity|]. split; [vm_compute; reflexivity|].
  split; [vm_compute; reflexivity|]. split; [vm_compute; reflexivity|].
  split; vm_compute; discriminate.
Qed.

(* hence [snapshot_isolation] is false for k = 2 *)
Example snapshot_isolation_false_k2 :
  ~ (forall es h h', HInv h -> EngineReaders.hist_ok 2%N h es -> run_hist_k 2 h es = Ok h' ->
       forall r, In r (snd h') -> abs_bucket 16 (d_disk (fst h')) (d_root r) (d_next r) = abs_db r).
Proof.
  intros H. destruct k2_breaks_reader as (Hrun & Hrs & _ & _ & _ & _ & Hne). apply Hne.
  apply (H histC H0 histC_end (HInv_init 4096%N eq_refl) histC_ok Hrun). rewrite Hrs. now left.
Qed.

(* the same history with the tight bound k = 1 and with the library's k = 0: the reader is intact *)
Example histC_k1_intact : forall h', run_hist_k 1 H0 histC = Ok h' ->
  forall r, In r (snd h') -> abs_bucket 16 (d_disk (fst h')) (d_root r) (d_next r) = abs_db r.
Proof.
  intros h' Hrun r Hr.
  assert (Hok : EngineReaders.hist_ok 1%N H0 histC).
  { unfold histC, H0. cbn [EngineReaders.hist_ok T ExHistory.tx1 ExHistory.tx2 tx3 tx4 tx5 fst snd].
    tx_step. tx_step. rd_step. tx_step. tx_step. exact I. }
  destruct (snapshot_isolation_init 1%N 4096%N histC h' ltac:(lia) eq_refl Hok Hrun) as (A & _).
  exact (proj2 (A r Hr)).
Qed.
(* ---------------------------------------------------------------------- *)
(* THE STRENGTHENED INVARIANT IS NEEDED: [db_okz] alone (which suffices without readers) is not kept by [run_tx_r].
   [st1m]: the state after tx1 with page 3 listed in two pending batches (0 and 1): [db_okz] holds, [pend_inv] does
   not.  A writer with bound 1 releases batch 0 only; page 3 is allocated and written while it is still pending
   under 1: in the new state page 3 is live AND pending. *)
Definition st1 : db := EngineCow.ExCow.hist_st1.
Definition st1m : db :=
  {| d_disk := d_disk st1; d_root := d_root st1; d_next := d_next st1; d_np := d_np st1; d_fl := d_fl st1; d_fln := d_fln st1;
     d_flids := d_flids st1; d_tx := d_tx st1; d_free := d_free st1; d_pending := [(0, [3]); (1, [3; 2])]%N; d_psz := d_psz st1 |}.
Definition st1m_run := Eval vm_compute in run_tx_r st1m 1 (fst ExHistory.tx2) (snd ExHistory.tx2).
Definition st1m' : db := match st1m_run with Ok st => st | _ => st1m end.

Example pend_inv_needed :
  db_okz st1m /\ ~ pend_inv st1m /\ Forall (op_ok (d_disk st1m)) (fst ExHistory.tx2) /\
  run_tx_r st1m 1 (fst ExHistory.tx2) (snd ExHistory.tx2) = Ok st1m' /\ readable st1m' /\
  In 3%N (live_of st1m' (Rof st1m')) /\ In 3%N (pend_all (d_pending st1m')) /\ ~ db_okz st1m'.
Proof.
  assert (H3l : In 3%N (live_of st1m' (Rof st1m'))) by (vm_compute; tauto).
  assert (H3p : In 3%N (pend_all (d_pending st1m'))) by (vm_compute; tauto).
  split. { split; [|vm_compute; reflexivity]. apply db_ok'b_ok; [|vm_compute; reflexivity].
           exact (proj1 (proj1 EngineCow.ExCow.hist_st1_okz)). }
  split. { intros [Hnd _]. vm_compute in Hnd. inversion Hnd as [|x l Hx _]; subst. apply Hx. now left. }
  split; [repeat constructor; cbn; lia|]. split; [vm_compute; reflexivity|].
  split; [apply readableb_ok; vm_compute; reflexivity|]. split; [exact H3l|]. split; [exact H3p|].
  intros [(_ & HA & _) _]. destruct HA as (_ & _ & _ & _ & _ & _ & _ & _ & Hlive).
  exact (proj2 (proj2 (Hlive 3%N H3l)) H3p).
Qed.
End ExReaders.

Print Assumptions ExReaders.histB_isolation.
Print Assumptions ExReaders.histB_exact.
Print Assumptions ExReaders.k2_breaks_reader.
Print Assumptions ExReaders.snapshot_isolation_false_k2.
Print Assumptions ExReaders.histC_k1_intact.
Print Assumptions ExReaders.pend_inv_needed.
