(* CLOSE + REOPEN ([Engine.reopen_db]): the in-memory free list is rebuilt from the ids recorded on the free-list page
   ([d_flids]); nothing is pending after the open.  This file proves
   1. reopen changes neither the disk nor the meaning;
   2. the free list after reopen is exactly the recorded ids, strictly ascending; with [flids_ok]: every free and
      every pending page of the closed state is free after the open (the reopen half of C10);
   3. the invariants [db_okz], [db_okd], [db_okr], [no_leak], [db_exact], [db_exactr] are kept (given [flids_ok]);
      [flids_ok] itself (a [Permutation]) needs in addition that no id is recorded twice ([pend_inv]) -- a
      counterexample shows that [db_exact_rec] alone is not enough;
   4. histories of transactions and reopens from [init_db P] keep the exact partition and refine the reference;
   5. the first transaction after a reopen starts from free = recorded ids, pending = []; for a state whose batches
      are all releasable it is the very same transaction: [run_tx (reopen_db st) = run_tx st]. *)
From Coq Require Import List NArith Bool Arith Lia ZifyN ZifyNat ZifyBool Permutation Sorting.Sorted.
From Coq.Strings Require Import Byte.
From Jamm Require Spec.
From Jamm Require Import Bytes BytesFacts Tree Cursor SearchFacts Engine EngineAbs EngineFacts EngineMergeFacts.
From Jamm Require Import EngineModifyFacts EngineSpillFacts EnginePathFacts EngineBridgeFacts EngineRebalanceFacts.
From Jamm Require FreelistFacts EngineAllocFacts EngineSpillWfFacts.
From Jamm Require Import EngineTxInvFacts EngineSpillBucketFacts EngineRefines.
From Jamm Require Import EngineOwnDefs EngineOwnWr EngineOwnOps EngineOwnReb EngineOwnSpill EngineOwnLnk EngineAllocInv.
From Jamm Require Import EngineDepth EngineNoPanic EngineSpillDepth.
From Jamm Require Import EngineNoLeakDefs EngineNoLeak.
From Jamm Require Import EngineR EngineRSim EngineRBegin EngineReadersInv EngineReaders EngineReadersExact.
From Jamm Require EngineReadersEx.
Import ListNotations.
Import Coq.Strings.String.StringSyntax. Delimit Scope string_scope with string.
Local Open Scope list_scope. Local Open Scope nat_scope.
Set Warnings "-abstract-large-number".
Arguments N.add : simpl never. Arguments N.sub : simpl never. Arguments N.mul : simpl never.
Arguments N.div : simpl never. Arguments N.ltb : simpl never. Arguments N.leb : simpl never.
Arguments N.eqb : simpl never.

(* ====================================================================== *)
(** * 1. Reopen changes neither the disk nor the meaning *)

Lemma reopen_disk : forall st, d_disk (reopen_db st) = d_disk st.   Proof. reflexivity. Qed.
Lemma reopen_root : forall st, d_root (reopen_db st) = d_root st.   Proof. reflexivity. Qed.
Lemma reopen_next : forall st, d_next (reopen_db st) = d_next st.   Proof. reflexivity. Qed.
Lemma reopen_np : forall st, d_np (reopen_db st) = d_np st.         Proof. reflexivity. Qed.
Lemma reopen_tx : forall st, d_tx (reopen_db st) = d_tx st.         Proof. reflexivity. Qed.
Lemma reopen_fl : forall st, d_fl (reopen_db st) = d_fl st.         Proof. reflexivity. Qed.
Lemma reopen_fln : forall st, d_fln (reopen_db st) = d_fln st.      Proof. reflexivity. Qed.
Lemma reopen_flids : forall st, d_flids (reopen_db st) = d_flids st. Proof. reflexivity. Qed.
Lemma reopen_psz : forall st, d_psz (reopen_db st) = d_psz st.      Proof. reflexivity. Qed.
Lemma reopen_pending : forall st, d_pending (reopen_db st) = [].    Proof. reflexivity. Qed.
Lemma reopen_free : forall st, d_free (reopen_db st) = fold_left (fun f p => sins p f) (d_flids st) [].
Proof. reflexivity. Qed.

Theorem reopen_unchanged : forall st,
  d_disk (reopen_db st) = d_disk st /\ d_root (reopen_db st) = d_root st /\ d_next (reopen_db st) = d_next st /\
  d_np (reopen_db st) = d_np st /\ d_tx (reopen_db st) = d_tx st /\ d_fl (reopen_db st) = d_fl st /\
  d_fln (reopen_db st) = d_fln st /\ d_flids (reopen_db st) = d_flids st /\ d_psz (reopen_db st) = d_psz st.
Proof. intros st. repeat split. Qed.

Theorem reopen_abs : forall st, abs_db (reopen_db st) = abs_db st.
Proof. reflexivity. Qed.

Lemma reopen_readable : forall st, readable (reopen_db st) <-> readable st.
Proof. intros st. unfold readable. cbn [d_disk d_root reopen_db]. tauto. Qed.
Lemma reopen_strict : forall st, db_strict (reopen_db st) <-> db_strict st.
Proof. intros st. unfold db_strict. cbn [d_disk d_root reopen_db]. tauto. Qed.
Lemma reopen_depth : forall st, db_depth (reopen_db st) <-> db_depth st.
Proof. intros st. unfold db_depth. cbn [d_disk d_root reopen_db]. tauto. Qed.
Lemma reopen_Rof : forall st, Rof (reopen_db st) = Rof st.
Proof. reflexivity. Qed.
Lemma reopen_live_of : forall st R, live_of (reopen_db st) R = live_of st R.
Proof. reflexivity. Qed.
(* every point read means the same: [root_bucket] is built from [d_root], [d_next] only *)
Lemma reopen_root_bucket : forall st, root_bucket (reopen_db st) = root_bucket st.
Proof. reflexivity. Qed.
(* a second reopen changes nothing *)
Lemma reopen_idem : forall st, reopen_db (reopen_db st) = reopen_db st.
Proof. reflexivity. Qed.

(* ====================================================================== *)
(** * 2. The free list after reopen is exactly the recorded ids *)

Theorem reopen_free_In : forall st x, In x (d_free (reopen_db st)) <-> In x (d_flids st).
Proof.
  intros st x. rewrite reopen_free. change (fun f p => sins p f) with (fun f p => Freelist.sins p f).
  rewrite FreelistFacts.fold_sins_In. cbn [In]. tauto.
Qed.

Theorem reopen_free_asc : forall st, FreelistFacts.asc (d_free (reopen_db st)).
Proof.
  intros st. rewrite reopen_free. change (fun f p => sins p f) with (fun f p => Freelist.sins p f).
  apply FreelistFacts.fold_sins_asc. constructor.
Qed.

Corollary reopen_free_NoDup : forall st, NoDup (d_free (reopen_db st)).
Proof. intros st. apply FreelistFacts.asc_NoDup. apply reopen_free_asc. Qed.

(* nothing is lost by closing: every free and every pending page of the closed state is free after the open,
   and nothing else is *)
Theorem reopen_free_all : forall st, flids_ok st ->
  forall x, In x (d_free (reopen_db st)) <-> In x (d_free st) \/ In x (pend_all (d_pending st)).
Proof.
  intros st Hp x. rewrite reopen_free_In. rewrite <- in_app_iff. split; intros H.
  - exact (Permutation_in _ Hp H).
  - exact (Permutation_in _ (Permutation_sym Hp) H).
Qed.

Corollary reopen_keeps_free : forall st x, flids_ok st -> In x (d_free st) -> In x (d_free (reopen_db st)).
Proof. intros st x Hp H. apply (reopen_free_all st Hp). now left. Qed.
Corollary reopen_frees_pending : forall st x, flids_ok st -> In x (pend_all (d_pending st)) -> In x (d_free (reopen_db st)).
Proof. intros st x Hp H. apply (reopen_free_all st Hp). now right. Qed.

(* ====================================================================== *)
(** * 3. The invariants are kept (no reader is open: a reopen cannot happen with open transactions) *)

(* [alloc_ok], clause by clause.  Needed from [flids_ok st]: every recorded id is free or pending in [st] (the
   inclusion [d_flids] <= free + pending; the converse inclusion is not needed here) *)
Definition flids_sub (st : db) : Prop :=
  forall x, In x (d_flids st) -> In x (d_free st) \/ In x (pend_all (d_pending st)).
Definition flids_sup (st : db) : Prop :=
  forall x, In x (d_free st) \/ In x (pend_all (d_pending st)) -> In x (d_flids st).

Lemma flids_ok_sub : forall st, flids_ok st -> flids_sub st.
Proof. intros st Hp x H. apply in_app_or. exact (Permutation_in _ Hp H). Qed.
Lemma flids_ok_sup : forall st, flids_ok st -> flids_sup st.
Proof. intros st Hp x H. apply (Permutation_in _ (Permutation_sym Hp)). now apply in_or_app. Qed.

Lemma reopen_alloc_ok : forall st R, flids_sub st -> alloc_ok st R -> alloc_ok (reopen_db st) R.
Proof.
  intros st R Hsub (Hpsz & Hnp & Hasc & Hge & Hlt & Hpd & Hroot & Hcl & Hlive).
  unfold FreelistFacts.ge2 in Hge. rewrite Forall_forall in Hge, Hpd.
  assert (Hrng : forall x, In x (d_free (reopen_db st)) -> (2 <= x < d_np st)%N).
  { intros x Hx. apply reopen_free_In in Hx. destruct (Hsub x Hx) as [A|A].
    - specialize (Hge x A). specialize (Hlt x A). lia.
    - exact (Hpd x A). }
  split; [exact Hpsz|]. split; [exact Hnp|].
  split; [apply reopen_free_asc|].
  split; [unfold FreelistFacts.ge2; apply Forall_forall; intros x Hx; exact (proj1 (Hrng x Hx))|].
  split; [intros x Hx; rewrite reopen_np; exact (proj2 (Hrng x Hx))|].
  split; [rewrite reopen_pending; constructor|].
  split; [exact Hroot|]. split; [exact Hcl|].
  intros x Hx. rewrite reopen_live_of in Hx. destruct (Hlive x Hx) as (Hr & Hnf & Hnp').
  split; [exact Hr|]. split.
  - intros Hf. apply reopen_free_In in Hf. destruct (Hsub x Hf); contradiction.
  - rewrite reopen_pending. intros [].
Qed.

Lemma reopen_pend_le : forall st, pend_le (reopen_db st).
Proof. intros st. unfold pend_le. rewrite reopen_pending. constructor. Qed.

Lemma reopen_pend_inv : forall st, pend_inv (reopen_db st).
Proof. intros st. unfold pend_inv. rewrite reopen_pending. split; [constructor | intros x []]. Qed.

Theorem reopen_ok' : forall st, flids_sub st -> db_ok' st -> db_ok' (reopen_db st).
Proof.
  intros st Hsub (Hs & HA & Hnd & _). split; [now apply reopen_strict|].
  split; [rewrite reopen_Rof; now apply reopen_alloc_ok|].
  split; [rewrite reopen_Rof, reopen_live_of; exact Hnd | apply reopen_pend_le].
Qed.

Theorem reopen_okz : forall st, flids_sub st -> db_okz st -> db_okz (reopen_db st).
Proof. intros st Hsub [Hok Hz]. split; [now apply reopen_ok' | exact Hz]. Qed.

Theorem reopen_okd : forall st, flids_sub st -> db_okd st -> db_okd (reopen_db st).
Proof. intros st Hsub [Hok Hd]. split; [now apply reopen_okz | now apply reopen_depth]. Qed.

Theorem reopen_okr : forall st, flids_sub st -> db_okz st -> db_okr (reopen_db st).
Proof. intros st Hsub Hok. split; [now apply reopen_okz | apply reopen_pend_inv]. Qed.

(* nothing leaked: needs the other inclusion (every free and every pending id is recorded) *)
Theorem reopen_no_leak : forall st, flids_sup st -> no_leak st -> no_leak (reopen_db st).
Proof.
  intros st Hsup Hnl x Hx. rewrite reopen_np in Hx. rewrite reopen_Rof, reopen_live_of.
  destruct (Hnl x Hx) as [A|A]; [now left | right; left]. apply reopen_free_In. now apply Hsup.
Qed.

Theorem reopen_exact : forall st, flids_ok st -> db_exact st -> db_exact (reopen_db st).
Proof.
  intros st Hp [Hok Hnl]. split; [apply reopen_okz; [now apply flids_ok_sub | exact Hok]|].
  apply reopen_no_leak; [now apply flids_ok_sup | exact Hnl].
Qed.

(* ---- the free-list record itself: [flids_ok] is a [Permutation], so it also counts multiplicities ---- *)

Lemma NoDup_app_disj : forall (a b : list N), NoDup a -> NoDup b -> (forall x, In x b -> ~ In x a) -> NoDup (a ++ b).
Proof.
  induction a as [|y a IH]; intros b Ha Hb Hd; [exact Hb|]. inversion Ha as [|? ? Hy Ha']; subst.
  cbn [app]. constructor.
  - intros Hin. apply in_app_or in Hin. destruct Hin as [Hin|Hin]; [contradiction|]. apply (Hd y Hin). now left.
  - apply IH; [exact Ha' | exact Hb|]. intros x Hx Hin. apply (Hd x Hx). now right.
Qed.

(* no id is recorded twice: free ids are strictly ascending, and [pend_inv] *)
Lemma flids_NoDup : forall st, FreelistFacts.asc (d_free st) -> pend_inv st -> flids_ok st -> NoDup (d_flids st).
Proof.
  intros st Hasc [Hnd Hdisj] Hp. apply (Permutation_NoDup (Permutation_sym Hp)).
  apply NoDup_app_disj; [now apply FreelistFacts.asc_NoDup | exact Hnd | exact Hdisj].
Qed.

Theorem reopen_flids_ok : forall st, NoDup (d_flids st) -> flids_ok (reopen_db st).
Proof.
  intros st Hnd. unfold flids_ok. rewrite reopen_pending, reopen_flids. cbn [pend_all flat_map]. rewrite app_nil_r.
  apply NoDup_Permutation; [exact Hnd | apply reopen_free_NoDup|]. intros x. symmetry. apply reopen_free_In.
Qed.

(* the converse: if an id is recorded twice, the record of the reopened state is NOT a permutation of its free list *)
Theorem reopen_flids_ok_iff : forall st, flids_ok (reopen_db st) <-> NoDup (d_flids st).
Proof.
  intros st. split; [|apply reopen_flids_ok]. unfold flids_ok. rewrite reopen_pending, reopen_flids.
  cbn [pend_all flat_map]. rewrite app_nil_r. intros Hp.
  exact (Permutation_NoDup (Permutation_sym Hp) (reopen_free_NoDup st)).
Qed.

(* [db_exact_rec] with [pend_inv] (that is [db_exactr], the invariant of histories with readers) is kept *)
Theorem reopen_exact_rec : forall st, db_exact_rec st -> pend_inv st -> db_exact_rec (reopen_db st).
Proof.
  intros st [Hex Hp] Hpi. split; [now apply reopen_exact|]. apply reopen_flids_ok.
  destruct Hex as [[(_ & HA & _) _] _]. destruct HA as (_ & _ & Hasc & _). exact (flids_NoDup st Hasc Hpi Hp).
Qed.

Theorem reopen_exactr : forall st, db_exactr st -> db_exactr (reopen_db st).
Proof.
  intros st Hx. pose proof (db_exactr_rec st Hx) as Hrec. destruct Hx as ([Hokz Hpi] & Hnl & Hp).
  destruct (reopen_exact_rec st Hrec Hpi) as [[Hokz' Hnl'] Hp'].
  split; [split; [exact Hokz' | apply reopen_pend_inv]|]. split; assumption.
Qed.

(* COUNTEREXAMPLE to "[db_exact_rec st -> db_exact_rec (reopen_db st)]": a hand-made state in which page 4 is free AND
   pending (so it is recorded twice).  It satisfies [db_exact_rec] ([alloc_ok] does not ask the free and the pending
   ids to be disjoint -- [pend_inv] does), but after the reopen the record [4; 4] is not a permutation of the free
   list [4].  No such state is reachable: histories keep [pend_inv] (EngineReadersInv). *)
Definition cex_db : db :=
  {| d_disk := d_disk (init_db 4096); d_root := 3; d_next := 0; d_np := 5; d_fl := 2; d_fln := 1; d_flids := [4; 4]%N;
     d_tx := 0; d_free := [4]%N; d_pending := [(0, [4])]%N; d_psz := 4096 |}.
Example cex_exact_rec : db_exact_rec cex_db.
Proof.
  split; [split; [split|]|].
  - apply db_ok'b_ok; [exact (init_db_strict 4096) | vm_compute; reflexivity].
  - reflexivity.
  - apply no_leakb_ok. vm_compute. reflexivity.
  - unfold flids_ok. cbn. apply Permutation_refl.
Qed.
Example cex_reopen_eval : (d_flids (reopen_db cex_db), d_free (reopen_db cex_db), d_pending (reopen_db cex_db))
                          = ([4; 4]%N, [4]%N, []).
Proof. vm_compute. reflexivity. Qed.
Example cex_reopen_not_flids_ok : ~ flids_ok (reopen_db cex_db).
Proof. intros Hp. apply Permutation_length in Hp. vm_compute in Hp. discriminate. Qed.
Example cex_reopen_not_exact_rec : db_exact_rec cex_db /\ ~ db_exact_rec (reopen_db cex_db).
Proof. split; [exact cex_exact_rec | intros [_ Hp]; exact (cex_reopen_not_flids_ok Hp)]. Qed.
(* everything else survives even there *)
Example cex_reopen_exact : db_exact (reopen_db cex_db).
Proof. apply reopen_exact; [exact (proj2 cex_exact_rec) | exact (proj1 cex_exact_rec)]. Qed.

(* ====================================================================== *)
(** * 4. Histories of transactions and reopens *)

Inductive hop := HTx (ops : list op) (ord : list bytes) | HReopen.

Definition step_hop (st : db) (h : hop) : res db :=
  match h with HTx ops ord => run_tx st ops ord | HReopen => Ok (reopen_db st) end.
Fixpoint run_hops (st : db) (hs : list hop) : res db :=
  match hs with
  | [] => Ok st
  | h :: hs' => bind (step_hop st h) (fun st1 => run_hops st1 hs')
  end.
(* the meaning: the transactions in order; a reopen is the identity on the reference *)
Fixpoint sem_hops (hs : list hop) (m : snode) : snode :=
  match hs with
  | [] => m
  | HTx ops _ :: hs' => sem_hops hs' (sem_tx ops m)
  | HReopen :: hs' => sem_hops hs' m
  end.
(* the side condition (cf. EngineAllocInv.txs_ok'): every operation admissible in the state it is applied to, every
   committed state readable (for a reopen this is the readability of the state before it) *)
Fixpoint hops_ok (st : db) (hs : list hop) : Prop :=
  match hs with
  | [] => True
  | h :: hs' =>
      match h with HTx ops _ => Forall (op_ok (d_disk st)) ops | HReopen => True end /\
      forall st1, step_hop st h = Ok st1 -> readable st1 /\ hops_ok st1 hs'
  end.

(* without reopens this is [run_txs] *)
Definition hops_of (txs : list (list op * list bytes)) : list hop := map (fun t => HTx (fst t) (snd t)) txs.
Lemma run_hops_txs : forall txs st, run_hops st (hops_of txs) = run_txs st txs.
Proof.
  induction txs as [|[ops ord] txs IH]; intros st; cbn [hops_of map run_hops run_txs step_hop fst snd]; [reflexivity|].
  destruct (run_tx st ops ord) as [st1|m|e]; cbn [bind]; [apply IH | reflexivity | reflexivity].
Qed.
Lemma sem_hops_txs : forall txs m, sem_hops (hops_of txs) m = sem_txs txs m.
Proof. induction txs as [|[ops ord] txs IH]; intros m; cbn [hops_of map sem_hops sem_txs fst snd]; [reflexivity | apply IH]. Qed.

(* the invariant of these histories: the exact partition with the record, [pend_inv], uniform depth *)
Definition db_inv (st : db) : Prop := db_exactr st /\ db_depth st.

Lemma db_inv_facts : forall st, db_inv st ->
  db_exact_rec st /\ db_okz st /\ db_okd st /\ db_okr st /\ no_leak st /\ flids_ok st.
Proof.
  intros st [Hx Hd]. pose proof (db_exactr_rec st Hx) as Hrec. destruct Hx as (Hokr & Hnl & Hp).
  split; [exact Hrec|]. split; [exact (proj1 Hokr)|]. split; [split; [exact (proj1 Hokr) | exact Hd]|].
  split; [exact Hokr|]. split; assumption.
Qed.

Lemma init_db_inv : forall P, (0 < P)%N -> db_inv (init_db P).
Proof. intros P HP. split; [now apply init_db_exactr | apply init_db_depth]. Qed.

Theorem reopen_inv : forall st, db_inv st -> db_inv (reopen_db st).
Proof. intros st [Hx Hd]. split; [now apply reopen_exactr | now apply reopen_depth]. Qed.

Theorem run_tx_inv : forall st ops ord st', db_inv st -> Forall (op_ok (d_disk st)) ops ->
  run_tx st ops ord = Ok st' -> readable st' -> db_inv st' /\ abs_db st' = sem_tx ops (abs_db st).
Proof.
  intros st ops ord st' [Hx Hd] Hops Hrun Hrd.
  assert (Hrun' : run_tx_r st (d_tx st + 1) ops ord = Ok st') by (rewrite run_tx_r_none; [exact Hrun | lia]).
  destruct (run_tx_r_exact st _ ops ord st' Hx Hops Hrun' Hrd) as [Hx' Habs].
  split; [|exact Habs]. split; [exact Hx'|].
  assert (Hokd : db_okd st) by (split; [exact (proj1 (proj1 Hx)) | exact Hd]).
  exact (proj2 (run_tx_okd st ops ord st' Hokd Hops Hrun Hrd)).
Qed.

Theorem step_hop_inv : forall st h st', db_inv st ->
  match h with HTx ops _ => Forall (op_ok (d_disk st)) ops | HReopen => True end ->
  step_hop st h = Ok st' -> readable st' -> db_inv st' /\ abs_db st' = sem_hops [h] (abs_db st).
Proof.
  intros st [ops ord|] st' Hinv Hops Hstep Hrd; cbn [step_hop sem_hops] in *.
  - exact (run_tx_inv st ops ord st' Hinv Hops Hstep Hrd).
  - inversion Hstep; subst st'. split; [now apply reopen_inv | apply reopen_abs].
Qed.

Theorem run_hops_inv : forall hs st st', db_inv st -> hops_ok st hs -> run_hops st hs = Ok st' ->
  db_inv st' /\ abs_db st' = sem_hops hs (abs_db st).
Proof.
  induction hs as [|h hs IH]; intros st st' Hinv Hok Hrun; cbn [run_hops] in Hrun.
  - inversion Hrun; subst. auto.
  - apply EngineRBegin.bind_ok_inv in Hrun. destruct Hrun as (st1 & H1 & H2). destruct Hok as [Hops Hnext].
    destruct (Hnext st1 H1) as [Hrd Hok1].
    destruct (step_hop_inv st h st1 Hinv Hops H1 Hrd) as [Hinv1 E1].
    destruct (IH st1 st' Hinv1 Hok1 H2) as [Hinv' E']. split; [exact Hinv'|]. rewrite E'.
    destruct h; cbn [sem_hops] in *; now rewrite E1.
Qed.

(* from the empty database, whatever the closes and reopens: the final state accounts for every page exactly once,
   its free-list record lists exactly the non-live pages, it has uniform depth, and it means what the specification
   says *)
Corollary run_hops_exact_init : forall P hs st', (0 < P)%N -> hops_ok (init_db P) hs ->
  run_hops (init_db P) hs = Ok st' ->
  db_exact_rec st' /\ db_okd st' /\ db_okr st' /\ abs_db st' = sem_hops hs (SBucket 0 0 []) /\
  forall x, In x (d_flids st') <-> ((2 <= x < d_np st')%N /\ ~ In x (live_of st' (Rof st'))).
Proof.
  intros P hs st' HP Hok Hrun.
  destruct (run_hops_inv hs _ st' (init_db_inv P HP) Hok Hrun) as [Hinv Habs].
  destruct (db_inv_facts st' Hinv) as (Hrec & _ & Hokd & Hokr & _).
  split; [exact Hrec|]. split; [exact Hokd|]. split; [exact Hokr|]. split; [exact Habs | now apply flids_exact].
Qed.

(* after a reopen the free list is exactly the set of non-live pages of [2, d_np): everything is reusable *)
Corollary reopen_free_exact : forall st, db_exact_rec st ->
  forall x, In x (d_free (reopen_db st)) <-> ((2 <= x < d_np st)%N /\ ~ In x (live_of st (Rof st))).
Proof. intros st Hrec x. rewrite reopen_free_In. now apply flids_exact. Qed.

(* ====================================================================== *)
(** * 5. The first transaction after a reopen *)

(* it starts with free = the recorded ids (as a strictly ascending list), nothing pending *)
Theorem begin_w_reopen : forall st,
  begin_w (reopen_db st) =
  {| free := fold_left (fun f p => sins p f) (d_flids st) []; pending := []; txid := d_tx st + 1; np := d_np st;
     psz := d_psz st; wr := []; flw := None; seqc := 1 |}.
Proof. reflexivity. Qed.

Corollary begin_w_reopen_free : forall st x, In x (free (begin_w (reopen_db st))) <-> In x (d_flids st).
Proof. intros st x. rewrite begin_w_reopen. cbn [free]. exact (reopen_free_In st x). Qed.
Corollary begin_w_reopen_pending : forall st, pending (begin_w (reopen_db st)) = [].
Proof. reflexivity. Qed.
(* everything freed before the close is allocatable at once *)
Corollary begin_w_reopen_all : forall st x, flids_ok st ->
  (In x (free (begin_w (reopen_db st))) <-> In x (d_free st) \/ In x (pend_all (d_pending st))).
Proof. intros st x Hp. rewrite begin_w_reopen. cbn [free]. exact (reopen_free_all st Hp x). Qed.

(* it is the transaction of ANY state with the same disk, header, counters, the same free SET and no pending batch *)
Lemma asc_ext : forall a b, FreelistFacts.asc a -> FreelistFacts.asc b -> (forall x : N, In x a <-> In x b) -> a = b.
Proof.
  induction a as [|x a IH]; intros [|y b] Ha Hb Hab.
  - reflexivity.
  - exfalso. exact (proj2 (Hab y) (or_introl eq_refl)).
  - exfalso. exact (proj1 (Hab x) (or_introl eq_refl)).
  - destruct (FreelistFacts.asc_cons_inv _ _ Ha) as [Ha' Hxa]. destruct (FreelistFacts.asc_cons_inv _ _ Hb) as [Hb' Hyb].
    assert (Exy : x = y).
    { destruct (proj1 (Hab x) (or_introl eq_refl)) as [E|Hin]; [now symmetry|].
      destruct (proj2 (Hab y) (or_introl eq_refl)) as [E|Hin']; [exact E|].
      specialize (Hyb x Hin). specialize (Hxa y Hin'). lia. }
    subst y. f_equal. apply IH; [exact Ha' | exact Hb'|]. intros z. split; intros Hz.
    + destruct (proj1 (Hab z) (or_intror Hz)) as [E|Hin]; [|exact Hin]. subst z. specialize (Hxa x Hz). lia.
    + destruct (proj2 (Hab z) (or_intror Hz)) as [E|Hin]; [|exact Hin]. subst z. specialize (Hyb x Hz). lia.
Qed.

Lemma release_nil : forall t fr, release t fr [] = (fr, []).
Proof. reflexivity. Qed.

Theorem begin_w_same_free : forall st st2,
  d_tx st2 = d_tx st -> d_np st2 = d_np st -> d_psz st2 = d_psz st -> d_pending st2 = [] ->
  FreelistFacts.asc (d_free st2) -> (forall x, In x (d_free st2) <-> In x (d_flids st)) ->
  begin_w (reopen_db st) = begin_w st2.
Proof.
  intros st st2 Etx Enp Epsz Epd Hasc Hin. rewrite begin_w_reopen. unfold begin_w. rewrite Epd, release_nil, Etx, Enp, Epsz.
  f_equal. apply asc_ext; [exact (reopen_free_asc st) | exact Hasc|].
  intros x. rewrite Hin. exact (reopen_free_In st x).
Qed.

(* ... in particular of the closed state itself, when all its batches are releasable ([pend_le]: no reader was open):
   the writer that follows a close + reopen is THE SAME as the writer that would have followed without the close *)
Lemma release_all : forall t pd fr fr' pd', Forall (fun b : N * list N => (fst b < t)%N) pd ->
  release t fr pd = (fr', pd') -> pd' = [].
Proof.
  intros t. induction pd as [|[u ps] pd IH]; intros fr fr' pd' Hall H; cbn [release] in H.
  - now inversion H.
  - inversion Hall as [|? ? H1 H2]; subst. cbn [fst] in H1. destruct (N.ltb_spec u t); [|lia]. exact (IH _ _ _ H2 H).
Qed.

Theorem begin_w_reopen_eq : forall st, FreelistFacts.asc (d_free st) -> pend_le st -> flids_ok st ->
  begin_w (reopen_db st) = begin_w st.
Proof.
  intros st Hasc Hpl Hp. rewrite begin_w_reopen. unfold begin_w.
  destruct (release (d_tx st + 1) (d_free st) (d_pending st)) as [fr pd] eqn:Er.
  assert (Hall : Forall (fun b : N * list N => (fst b < d_tx st + 1)%N) (d_pending st)).
  { eapply Forall_impl; [|exact Hpl]. cbn beta. intros b Hb. lia. }
  rewrite (release_all _ _ _ _ _ Hall Er). f_equal.
  destruct (release_src _ _ _ _ _ Er Hasc) as [Hasc' Hsrc].
  apply asc_ext; [exact (reopen_free_asc st) | exact Hasc'|]. intros x. rewrite (reopen_free_all st Hp x). split.
  - exact (release_complete _ _ _ _ _ Hall Er x).
  - exact (Hsrc x).
Qed.

Theorem run_tx_reopen : forall st ops ord, FreelistFacts.asc (d_free st) -> pend_le st -> flids_ok st ->
  run_tx (reopen_db st) ops ord = run_tx st ops ord.
Proof.
  intros st ops ord Hasc Hpl Hp. unfold run_tx. rewrite (begin_w_reopen_eq st Hasc Hpl Hp). reflexivity.
Qed.

Corollary run_tx_reopen_inv : forall st ops ord, db_exact_rec st -> run_tx (reopen_db st) ops ord = run_tx st ops ord.
Proof.
  intros st ops ord [[[(_ & HA & _ & Hpl) _] _] Hp]. destruct HA as (_ & _ & Hasc & _). now apply run_tx_reopen.
Qed.

(* ---- consequently reopens can be erased from a history: the final state is the one of the transactions alone,
   or its reopening when the history ends with a reopen ---- *)
Fixpoint txs_of (hs : list hop) : list (list op * list bytes) :=
  match hs with
  | [] => []
  | HTx ops ord :: hs' => (ops, ord) :: txs_of hs'
  | HReopen :: hs' => txs_of hs'
  end.

Lemma sem_hops_txs_of : forall hs m, sem_hops hs m = sem_txs (txs_of hs) m.
Proof. induction hs as [|[ops ord|] hs IH]; intros m; cbn [sem_hops txs_of sem_txs]; [reflexivity | apply IH | apply IH]. Qed.

Lemma run_txs_reopen : forall txs st, db_exact_rec st -> txs <> [] -> run_txs (reopen_db st) txs = run_txs st txs.
Proof.
  intros [|[ops ord] txs] st Hrec Hne; [congruence|]. cbn [run_txs]. now rewrite (run_tx_reopen_inv st ops ord Hrec).
Qed.

Theorem run_hops_erase : forall hs st st', db_inv st -> hops_ok st hs -> run_hops st hs = Ok st' ->
  exists st2, run_txs st (txs_of hs) = Ok st2 /\ (st' = st2 \/ st' = reopen_db st2).
Proof.
  induction hs as [|h hs IH]; intros st st' Hinv Hok Hrun; cbn [run_hops] in Hrun.
  - inversion Hrun; subst. exists st'. split; [reflexivity | now left].
  - apply EngineRBegin.bind_ok_inv in Hrun. destruct Hrun as (st1 & H1 & H2). destruct Hok as [Hops Hnext].
    destruct (Hnext st1 H1) as [Hrd Hok1].
    destruct (step_hop_inv st h st1 Hinv Hops H1 Hrd) as [Hinv1 _].
    destruct (IH st1 st' Hinv1 Hok1 H2) as (st2 & Hr2 & Hst'). destruct h as [ops ord|]; cbn [step_hop txs_of] in *.
    + exists st2. split; [|exact Hst']. cbn [run_txs]. rewrite H1. exact Hr2.
    + inversion H1; subst st1. destruct (txs_of hs) as [|t txs] eqn:Et.
      * cbn [run_txs] in Hr2. inversion Hr2; subst st2. exists st. split; [reflexivity|]. right.
        destruct Hst' as [E|E]; [exact E | rewrite E; apply reopen_idem].
      * exists st2. split; [|exact Hst']. rewrite <- Hr2. symmetry. apply run_txs_reopen; [|discriminate].
        exact (proj1 (db_inv_facts st Hinv)).
Qed.

(* ====================================================================== *)
(** * 6. Examples *)

(* the two-transaction history of EngineRefines: its final state has an empty free list and the batch 2 = [4; 5; 6]
   pending; the free-list page records [4; 5; 6]; after close + reopen these three pages are free *)
Example hist_st_reopen_eval :
  d_free ExHistory.hist_st = [] /\ d_pending ExHistory.hist_st = [(2, [4; 5; 6])]%N /\
  d_flids ExHistory.hist_st = [4; 5; 6]%N /\
  d_free (reopen_db ExHistory.hist_st) = [4; 5; 6]%N /\ d_pending (reopen_db ExHistory.hist_st) = [].
Proof. vm_compute. repeat split; reflexivity. Qed.

Example hist_st_inv : db_inv ExHistory.hist_st.
Proof.
  assert (Hok : hops_ok (init_db 4096) (hops_of ExHistory.hist)).
  { cbn [hops_ok hops_of map ExHistory.hist ExHistory.tx1 ExHistory.tx2 fst snd step_hop].
    split; [repeat constructor; cbn; lia|].
    intros st1 H1. vm_compute in H1. inversion H1; subst st1. clear H1.
    split; [apply readableb_ok; vm_compute; reflexivity|].
    split; [repeat constructor; cbn; lia|].
    intros st2 H2. vm_compute in H2. inversion H2; subst st2. clear H2.
    split; [apply readableb_ok; vm_compute; reflexivity | exact I]. }
  refine (proj1 (run_hops_inv (hops_of ExHistory.hist) _ _ (init_db_inv 4096 eq_refl) Hok _)).
  rewrite run_hops_txs. exact ExHistory.hist_run_ok.
Qed.
Example hist_st_reopen_exact : db_exact_rec (reopen_db ExHistory.hist_st) /\ db_okd (reopen_db ExHistory.hist_st).
Proof.
  destruct (db_inv_facts _ (reopen_inv _ hist_st_inv)) as (A & _ & B & _). split; assumption.
Qed.

(* a history with two reopens: tx1, close + reopen, tx2, close + reopen *)
Definition histR : list hop :=
  [HTx (fst ExHistory.tx1) (snd ExHistory.tx1); HReopen; HTx (fst ExHistory.tx2) (snd ExHistory.tx2); HReopen].
Definition histR_run := Eval vm_compute in run_hops (init_db 4096) histR.
Definition histR_st : db := match histR_run with Ok st => st | _ => init_db 4096 end.
Example histR_run_ok : run_hops (init_db 4096) histR = Ok histR_st.
Proof. vm_compute. reflexivity. Qed.
Example histR_ok : hops_ok (init_db 4096) histR.
Proof.
  cbn [hops_ok histR ExHistory.tx1 ExHistory.tx2 fst snd step_hop].
  split; [repeat constructor; cbn; lia|].
  intros st1 H1. vm_compute in H1. inversion H1; subst st1. clear H1.
  split; [apply readableb_ok; vm_compute; reflexivity|].
  split; [exact I|]. intros st2 H2. vm_compute in H2. inversion H2; subst st2. clear H2.
  split; [apply readableb_ok; vm_compute; reflexivity|].
  split; [repeat constructor; cbn; lia|].
  intros st3 H3. vm_compute in H3. inversion H3; subst st3. clear H3.
  split; [apply readableb_ok; vm_compute; reflexivity|].
  split; [exact I|]. intros st4 H4. vm_compute in H4. inversion H4; subst st4. clear H4.
  split; [apply readableb_ok; vm_compute; reflexivity | exact I].
Qed.
Example histR_exact :
  db_exact_rec histR_st /\ db_okd histR_st /\ abs_db histR_st = sem_txs ExHistory.hist (SBucket 0 0 []).
Proof.
  destruct (run_hops_exact_init 4096 histR histR_st eq_refl histR_ok histR_run_ok) as (A & B & _ & C & _).
  split; [exact A|]. split; [exact B|]. rewrite C. reflexivity.
Qed.
(* the reopens are transparent: the final state is the reopening of the state of the history without them *)
Example histR_st_eq : histR_st = reopen_db ExHistory.hist_st.
Proof. vm_compute. reflexivity. Qed.

(* the history with readers of EngineReadersEx: in its final state a reader (id 3) is still open, the batches 3, 4, 5
   are pending and nothing is free.  If the process ends there (the reader dies with it), the next open finds all
   eight recorded pages free, and the invariants hold *)
Example histB_reopen_eval :
  d_free EngineReadersEx.ExReaders.curB = [] /\
  d_pending EngineReadersEx.ExReaders.curB = [(3, [8; 9; 10]); (4, [11; 12; 13]); (5, [3; 4])]%N /\
  d_free (reopen_db EngineReadersEx.ExReaders.curB) = [3; 4; 8; 9; 10; 11; 12; 13]%N /\ d_pending (reopen_db EngineReadersEx.ExReaders.curB) = [].
Proof. vm_compute. repeat split; reflexivity. Qed.
Example histB_reopen_exact : db_exact_rec (reopen_db EngineReadersEx.ExReaders.curB) /\ db_okr (reopen_db EngineReadersEx.ExReaders.curB).
Proof.
  pose proof (proj1 EngineReadersEx.ExReaders.histB_exact) as Hrec.
  destruct EngineReadersEx.ExReaders.histB_isolation as (_ & _ & [Hokz Hpi] & _).
  split; [exact (reopen_exact_rec _ Hrec Hpi)|]. apply reopen_okr; [apply flids_ok_sub; exact (proj2 Hrec) | exact Hokz].
Qed.

(* the state of a history with readers when no reader is open: the reopened state with no reader is again a state of
   such histories *)
Lemma reopen_HInv : forall st, flids_sub st -> HInv (st, []) -> HInv (reopen_db st, []).
Proof. intros st Hsub [[Hokz _] _]. split; [exact (reopen_okr st Hsub Hokz) | constructor]. Qed.

Print Assumptions reopen_unchanged.
Print Assumptions reopen_abs.
Print Assumptions reopen_free_In.
Print Assumptions reopen_free_asc.
Print Assumptions reopen_free_all.
Print Assumptions reopen_free_exact.
Print Assumptions reopen_okz.
Print Assumptions reopen_okd.
Print Assumptions reopen_okr.
Print Assumptions reopen_no_leak.
Print Assumptions reopen_exact.
Print Assumptions reopen_flids_ok_iff.
Print Assumptions reopen_exact_rec.
Print Assumptions reopen_exactr.
Print Assumptions cex_reopen_not_exact_rec.
Print Assumptions run_hops_inv.
Print Assumptions run_hops_exact_init.
Print Assumptions begin_w_reopen.
Print Assumptions begin_w_same_free.
Print Assumptions begin_w_reopen_eq.
Print Assumptions run_tx_reopen.
Print Assumptions run_hops_erase.
Print Assumptions histR_exact.
Print Assumptions histB_reopen_exact.
