(* Facts about the rebalance / spill helpers of model/Engine.v:
     1. isort_by          permutation, strict sortedness (distinct keys), identity on strictly sorted input
     2. merge_data        two key-disjoint, ordered, strictly sorted nodes merge to their concatenation
     3. split_idx / split the pieces concatenate back to the node, every piece has >= 2 entries, the split
                          indices are strictly increasing (gaps >= 2) and within [2, len - 2]
     4. try_merge         child that does not need merging: only the child is replaced, txs untouched
     5. try_merge         merging a non-empty child into its (materialised) left sibling
   No axioms; every main theorem is closed under the global context (see the end of the file). *)
From Coq Require Import List NArith PeanoNat Bool Lia ZifyN ZifyNat ZifyBool Sorted Permutation.
From Coq.Strings Require Import Byte.
From Jamm Require Import Bytes Tree SearchFacts Engine.
Import ListNotations.
Local Open Scope list_scope. Local Open Scope nat_scope.

(* ====================================================================== *)
(** * 0. Small list facts *)

Lemma llen_nat {A} (l : list A) : N.to_nat (llen l) = length l.
Proof. unfold llen. lia. Qed.

(* strict sortedness of the keys of [l], Prop form *)
Lemma sorted_cons_iff : forall a l,
  sorted_keys (a :: l) = true <-> (Forall (fun x => bcmp a x = Lt) l /\ sorted_keys l = true).
Proof.
  intros a l. split.
  - apply sorted_keys_cons.
  - intros [H1 H2]. now apply sorted_keys_cons_intro.
Qed.

Lemma sorted_app_intro : forall a b,
  sorted_keys a = true -> sorted_keys b = true ->
  (forall x y, In x a -> In y b -> bcmp x y = Lt) ->
  sorted_keys (a ++ b) = true.
Proof.
  induction a as [|x a IH]; intros b Ha Hb Hab; [exact Hb|].
  cbn [app]. apply sorted_cons_iff in Ha. destruct Ha as [Hxa Ha].
  apply sorted_cons_iff. split.
  - apply Forall_app. split; [exact Hxa|].
    apply Forall_forall. intros y Hy. apply Hab; [now left | exact Hy].
  - apply IH; [exact Ha | exact Hb |]. intros u v Hu Hv. apply Hab; [now right | exact Hv].
Qed.

Lemma sorted_NoDup : forall l, sorted_keys l = true -> NoDup l.
Proof.
  induction l as [|a l IH]; intros H; [constructor|].
  apply sorted_cons_iff in H. destruct H as [Hal Hl].
  constructor; [|now apply IH].
  intros Hin. rewrite Forall_forall in Hal. specialize (Hal a Hin).
  rewrite bcmp_refl in Hal. discriminate.
Qed.

(* ====================================================================== *)
(** * 1. [isort_by] *)

(* the local insertion function of [isort_by], named *)
Definition ins_by {A} (key : A -> bytes) : A -> list A -> list A :=
  fix ins (x : A) (l : list A) : list A :=
  match l with
  | [] => [x]
  | y :: l' => match bcmp (key x) (key y) with Lt => x :: l | _ => y :: ins x l' end
  end.

Lemma ins_by_nil {A} (key : A -> bytes) x : ins_by key x [] = [x].
Proof. reflexivity. Qed.
Lemma ins_by_cons {A} (key : A -> bytes) x y l :
  ins_by key x (y :: l) = match bcmp (key x) (key y) with Lt => x :: y :: l | _ => y :: ins_by key x l end.
Proof. reflexivity. Qed.

Lemma isort_by_cons {A} (key : A -> bytes) x l :
  isort_by key (x :: l) = ins_by key x (isort_by key l).
Proof. reflexivity. Qed.

Lemma isort_by_nil {A} (key : A -> bytes) : isort_by key [] = [].
Proof. reflexivity. Qed.

Lemma ins_by_perm {A} (key : A -> bytes) x l : Permutation (ins_by key x l) (x :: l).
Proof.
  induction l as [|y l IH]; [reflexivity|]; rewrite ins_by_cons.
  destruct (bcmp (key x) (key y)); try reflexivity.
  - rewrite IH. apply perm_swap.
  - rewrite IH. apply perm_swap.
Qed.

Theorem isort_by_perm {A} (key : A -> bytes) l : Permutation (isort_by key l) l.
Proof.
  induction l as [|x l IH]; [reflexivity|].
  rewrite isort_by_cons, ins_by_perm. now constructor.
Qed.

Lemma isort_by_length {A} (key : A -> bytes) l : length (isort_by key l) = length l.
Proof. apply Permutation_length, isort_by_perm. Qed.

Lemma isort_by_in {A} (key : A -> bytes) l x : In x (isort_by key l) <-> In x l.
Proof.
  split; apply Permutation_in; [apply isort_by_perm | symmetry; apply isort_by_perm].
Qed.

(* inserting a fresh key into a strictly sorted list keeps it strictly sorted *)
Lemma ins_by_sorted {A} (key : A -> bytes) x l :
  sorted_keys (map key l) = true -> ~ In (key x) (map key l) ->
  sorted_keys (map key (ins_by key x l)) = true.
Proof.
  induction l as [|y l IH]; intros Hs Hx; [reflexivity|].
  rewrite ins_by_cons. cbn [map] in Hs, Hx.
  destruct (sorted_keys_cons _ _ Hs) as [Hyl Hl].
  destruct (bcmp (key x) (key y)) eqn:E.
  - apply bcmp_eq in E. exfalso. apply Hx. left. now symmetry.
  - cbn [map]. apply sorted_keys_cons_intro; [|exact Hs].
    constructor; [exact E|].
    eapply Forall_impl; [|exact Hyl]. cbn. intros z Hz. eapply bcmp_lt_trans; eauto.
  - cbn [map]. apply sorted_keys_cons_intro.
    + apply Forall_forall. intros z Hz.
      apply in_map_iff in Hz. destruct Hz as (w & <- & Hw).
      apply (Permutation_in _ (ins_by_perm key x l)) in Hw. destruct Hw as [<- | Hw].
      * now apply bcmp_lt_gt.
      * rewrite Forall_forall in Hyl. apply Hyl. now apply in_map.
    + apply IH; [exact Hl|]. intros H. apply Hx. now right.
Qed.

Theorem isort_by_sorted {A} (key : A -> bytes) l :
  NoDup (map key l) -> sorted_keys (map key (isort_by key l)) = true.
Proof.
  induction l as [|x l IH]; intros Hnd; [reflexivity|].
  cbn [map] in Hnd. inversion Hnd as [|? ? Hx Hl]; subst.
  rewrite isort_by_cons. apply ins_by_sorted; [now apply IH|].
  intros H. apply Hx. apply in_map_iff in H. destruct H as (w & Hk & Hw).
  apply isort_by_in in Hw. rewrite <- Hk. now apply in_map.
Qed.

Theorem isort_by_id {A} (key : A -> bytes) l :
  sorted_keys (map key l) = true -> isort_by key l = l.
Proof.
  induction l as [|x l IH]; intros Hs; [reflexivity|].
  cbn [map] in Hs. destruct (sorted_keys_cons _ _ Hs) as [Hxl Hl].
  rewrite isort_by_cons, (IH Hl).
  destruct l as [|y l]; [reflexivity|].
  rewrite ins_by_cons. cbn [map] in Hxl. inversion Hxl as [|? ? Hxy _]; subst. now rewrite Hxy.
Qed.

(* two strictly sorted lists with the same elements are equal *)
Lemma sorted_perm_eq {A} (key : A -> bytes) : forall l1 l2 : list A,
  sorted_keys (map key l1) = true -> sorted_keys (map key l2) = true ->
  Permutation l1 l2 -> l1 = l2.
Proof.
  induction l1 as [|x l1 IH]; intros l2 H1 H2 HP.
  - apply Permutation_nil in HP. now subst.
  - destruct l2 as [|y l2]; [symmetry in HP; apply Permutation_nil in HP; discriminate|].
    cbn [map] in H1, H2.
    destruct (sorted_keys_cons _ _ H1) as [Hx1 Hs1]. destruct (sorted_keys_cons _ _ H2) as [Hy2 Hs2].
    rewrite Forall_forall in Hx1, Hy2.
    assert (Hxy : x = y).
    { assert (Hix : In x (y :: l2)) by (eapply Permutation_in; [exact HP | now left]).
      destruct Hix as [-> | Hix]; [reflexivity|].
      assert (Hiy : In y (x :: l1)) by (eapply Permutation_in; [symmetry; exact HP | now left]).
      destruct Hiy as [-> | Hiy]; [reflexivity|].
      exfalso. assert (Hc : bcmp (key x) (key x) = Lt).
      { eapply bcmp_lt_trans; [apply Hx1 | apply Hy2]; now apply in_map. }
      rewrite bcmp_refl in Hc. discriminate. }
    subst y. f_equal. apply IH; [exact Hs1 | exact Hs2 |]. eapply Permutation_cons_inv; exact HP.
Qed.

(* [isort_by] computes THE strictly sorted arrangement, whenever there is one *)
Theorem isort_by_unique {A} (key : A -> bytes) l l' :
  Permutation l l' -> sorted_keys (map key l') = true -> isort_by key l = l'.
Proof.
  intros HP Hs. apply (sorted_perm_eq key); [|exact Hs|].
  - apply isort_by_sorted. apply (Permutation_NoDup (l := map key l')).
    + apply Permutation_map. now symmetry.
    + now apply sorted_NoDup.
  - rewrite isort_by_perm. exact HP.
Qed.

(* without distinct keys the result is only weakly sorted, and entries with equal keys are REVERSED:
   strict sortedness of the input is needed for [isort_by_id] *)
Example isort_by_not_stable :
  isort_by fst [(["a"%byte], 1%N); (["a"%byte], 2%N)] = [(["a"%byte], 2%N); (["a"%byte], 1%N)].
Proof. reflexivity. Qed.

(* ====================================================================== *)
(** * 2. [merge_data] *)

Lemma isort_by_app_lr {A} (key : A -> bytes) (l1 l2 : list A) :
  sorted_keys (map key l1) = true -> sorted_keys (map key l2) = true ->
  (forall x y, In x l1 -> In y l2 -> bcmp (key x) (key y) = Lt) ->
  isort_by key (l1 ++ l2) = l1 ++ l2.
Proof.
  intros H1 H2 H12. apply isort_by_id. rewrite map_app. apply sorted_app_intro; [exact H1 | exact H2 |].
  intros a b Ha Hb. apply in_map_iff in Ha, Hb.
  destruct Ha as (x & <- & Hx). destruct Hb as (y & <- & Hy). now apply H12.
Qed.

Lemma isort_by_app_rl {A} (key : A -> bytes) (l1 l2 : list A) :
  sorted_keys (map key l1) = true -> sorted_keys (map key l2) = true ->
  (forall x y, In x l1 -> In y l2 -> bcmp (key y) (key x) = Lt) ->
  isort_by key (l1 ++ l2) = l2 ++ l1.
Proof.
  intros H1 H2 H12. apply isort_by_unique; [apply Permutation_app_comm|].
  rewrite map_app. apply sorted_app_intro; [exact H2 | exact H1 |].
  intros a b Ha Hb. apply in_map_iff in Ha, Hb.
  destruct Ha as (y & <- & Hy). destruct Hb as (x & <- & Hx). now apply H12.
Qed.

Theorem merge_data_leaves_lr l1 l2 :
  sorted_keys (map lkey l1) = true -> sorted_keys (map lkey l2) = true ->
  (forall x y, In x l1 -> In y l2 -> bcmp (lkey x) (lkey y) = Lt) ->
  merge_data (Leaves l1) (Leaves l2) = Ok (Leaves (l1 ++ l2)).
Proof. intros H1 H2 H12. unfold merge_data. now rewrite isort_by_app_lr. Qed.

Theorem merge_data_leaves_rl l1 l2 :
  sorted_keys (map lkey l1) = true -> sorted_keys (map lkey l2) = true ->
  (forall x y, In x l1 -> In y l2 -> bcmp (lkey y) (lkey x) = Lt) ->
  merge_data (Leaves l1) (Leaves l2) = Ok (Leaves (l2 ++ l1)).
Proof. intros H1 H2 H12. unfold merge_data. now rewrite isort_by_app_rl. Qed.

Theorem merge_data_branches_lr (e1 e2 : list (bytes * N)) :
  sorted_keys (map fst e1) = true -> sorted_keys (map fst e2) = true ->
  (forall x y, In x e1 -> In y e2 -> bcmp (fst x) (fst y) = Lt) ->
  merge_data (Branches e1) (Branches e2) = Ok (Branches (e1 ++ e2)).
Proof. intros H1 H2 H12. unfold merge_data. now rewrite isort_by_app_lr. Qed.

Theorem merge_data_branches_rl (e1 e2 : list (bytes * N)) :
  sorted_keys (map fst e1) = true -> sorted_keys (map fst e2) = true ->
  (forall x y, In x e1 -> In y e2 -> bcmp (fst y) (fst x) = Lt) ->
  merge_data (Branches e1) (Branches e2) = Ok (Branches (e2 ++ e1)).
Proof. intros H1 H2 H12. unfold merge_data. now rewrite isort_by_app_rl. Qed.

(* in general (no order hypothesis at all) nothing is lost or duplicated, and the kinds must agree *)
Theorem merge_data_leaves_perm l1 l2 :
  exists l, merge_data (Leaves l1) (Leaves l2) = Ok (Leaves l) /\ Permutation l (l1 ++ l2).
Proof. eexists. split; [reflexivity | apply isort_by_perm]. Qed.

Theorem merge_data_branches_perm e1 e2 :
  exists e, merge_data (Branches e1) (Branches e2) = Ok (Branches e) /\ Permutation e (e1 ++ e2).
Proof. eexists. split; [reflexivity | apply isort_by_perm]. Qed.

Theorem merge_data_ok_iff a b : (exists m, merge_data a b = Ok m) <-> is_leaf a = is_leaf b.
Proof.
  destruct a, b; cbn; split; intros H; try discriminate; try (destruct H; discriminate);
    try reflexivity; eexists; reflexivity.
Qed.

(* ====================================================================== *)
(** * 3. [split_idx], [dsplit_at], [split] *)

(* consecutive split indices are at least 2 apart, the first at least 2 above [p] *)
Fixpoint gaps2 (p : nat) (l : list nat) : Prop :=
  match l with [] => True | x :: l' => p + 2 <= x /\ gaps2 x l' end.

Lemma gaps2_weaken p q l : q <= p -> gaps2 p l -> gaps2 q l.
Proof. destruct l as [|x l]; cbn; [trivial|]. intros Hq [H1 H2]. split; [lia | exact H2]. Qed.

Lemma gaps2_Forall p l : gaps2 p l -> Forall (fun x => p + 2 <= x) l.
Proof.
  revert p. induction l as [|x l IH]; intros p H; [constructor|].
  cbn in H. destruct H as [H1 H2]. constructor; [exact H1|].
  eapply Forall_impl; [|apply (IH x H2)]. cbn. intros; lia.
Qed.

Lemma gaps2_sorted p l : gaps2 p l -> StronglySorted lt l.
Proof.
  revert p. induction l as [|x l IH]; intros p H; [constructor|].
  cbn in H. destruct H as [H1 H2]. constructor; [now apply (IH x)|].
  eapply Forall_impl; [|apply (gaps2_Forall x l H2)]. cbn. intros; lia.
Qed.

(* [cnt] entries of the current piece have been seen, so the piece starts at [i - cnt] *)
Lemma split_idx_gaps d thr : forall n i cur cnt p,
  p + N.to_nat cnt = i -> gaps2 p (split_idx d thr i n cur cnt).
Proof.
  induction n as [|n IH]; intros i cur cnt p Hp; [exact I|].
  cbn [split_idx]. cbv zeta.
  destruct ((2 <=? cnt + 1)%N && (thr <? cur + ent_size d i)%N) eqn:E.
  - cbn [gaps2]. split; [lia|]. apply IH. lia.
  - apply IH. lia.
Qed.

Lemma split_idx_bounds d thr : forall n i cur cnt,
  Forall (fun x => i < x <= i + n) (split_idx d thr i n cur cnt).
Proof.
  induction n as [|n IH]; intros i cur cnt; [constructor|].
  cbn [split_idx]. cbv zeta.
  destruct ((2 <=? cnt + 1)%N && (thr <? cur + ent_size d i)%N).
  - constructor; [lia|]. eapply Forall_impl; [|apply IH]. cbn. intros; lia.
  - eapply Forall_impl; [|apply IH]. cbn. intros; lia.
Qed.

(* the indices [split] uses on a node of [len] entries *)
Theorem split_idx_spec d thr len :
  let idxs := split_idx d thr 0 (len - 2) 40 0 in
  gaps2 0 idxs /\ StronglySorted lt idxs /\ Forall (fun x => 2 <= x /\ x + 2 <= len) idxs.
Proof.
  intros idxs.
  assert (Hg : gaps2 0 idxs) by (apply split_idx_gaps; reflexivity).
  split; [exact Hg|]. split; [now apply gaps2_sorted with (p := 0)|].
  pose proof (gaps2_Forall _ _ Hg) as H1. pose proof (split_idx_bounds d thr (len - 2) 0 40%N 0%N) as H2.
  fold idxs in H2. rewrite Forall_forall in *. intros x Hx. specialize (H1 x Hx). specialize (H2 x Hx).
  cbn beta in *. lia.
Qed.

(* list-level version of the fold in [split]: cut at the largest index first *)
Definition cut_step {A} (i : nat) (acc : list A * list (list A)) : list A * list (list A) :=
  (firstn i (fst acc), skipn i (fst acc) :: snd acc).
Definition cut_at {A} (idxs : list nat) (l : list A) : list A * list (list A) :=
  fold_right cut_step (l, []) idxs.

Lemma cut_at_cons {A} i idxs (l : list A) : cut_at (i :: idxs) l = cut_step i (cut_at idxs l).
Proof. reflexivity. Qed.

Theorem cut_at_concat {A} idxs (l : list A) : fst (cut_at idxs l) ++ concat (snd (cut_at idxs l)) = l.
Proof.
  induction idxs as [|i idxs IH]; [cbn; apply app_nil_r|].
  rewrite cut_at_cons. unfold cut_step. cbn [fst snd concat].
  rewrite app_assoc, firstn_skipn. exact IH.
Qed.

Lemma cut_at_count {A} idxs (l : list A) : length (snd (cut_at idxs l)) = length idxs.
Proof. induction idxs as [|i idxs IH]; [reflexivity|]. rewrite cut_at_cons. cbn. now rewrite IH. Qed.

Theorem cut_at_pieces {A} (l : list A) : forall idxs p,
  gaps2 p idxs -> Forall (fun x => x + 2 <= length l) idxs ->
  fst (cut_at idxs l) = firstn (hd (length l) idxs) l /\
  Forall (fun pc => 2 <= length pc) (snd (cut_at idxs l)).
Proof.
  induction idxs as [|i idxs IH]; intros p Hg Hb.
  - cbn. split; [now rewrite firstn_all | constructor].
  - cbn [gaps2] in Hg. destruct Hg as [Hpi Hg]. inversion Hb as [|? ? Hi Hb']; subst.
    destruct (IH i Hg Hb') as [Hf Hr]. rewrite cut_at_cons. unfold cut_step. cbn [fst snd hd].
    rewrite Hf.
    assert (Hh : i + 2 <= hd (length l) idxs /\ hd (length l) idxs <= length l).
    { destruct idxs as [|j idxs]; cbn [hd]; [lia|].
      cbn [gaps2] in Hg. inversion Hb' as [|? ? Hj _]; subst. lia. }
    split.
    + rewrite firstn_firstn. f_equal. lia.
    + constructor; [|exact Hr]. rewrite skipn_length, firstn_length. lia.
Qed.

(* the pieces are exactly the stretches between consecutive split points: their lengths *)
Fixpoint diffs (p : nat) (idxs : list nat) (len : nat) : list nat :=
  match idxs with [] => [len - p] | x :: t => (x - p) :: diffs x t len end.

Theorem cut_at_lengths {A} (l : list A) : forall idxs p,
  gaps2 p idxs -> Forall (fun x => x + 2 <= length l) idxs ->
  map (@length A) (fst (cut_at idxs l) :: snd (cut_at idxs l)) = diffs 0 idxs (length l).
Proof.
  assert (Hgen : forall idxs p, gaps2 p idxs -> Forall (fun x => x + 2 <= length l) idxs ->
            map (@length A) (snd (cut_at idxs l)) = tl (diffs p idxs (length l))).
  { induction idxs as [|i idxs IH]; intros p Hg Hb; [reflexivity|].
    cbn [gaps2] in Hg. destruct Hg as [Hpi Hg]. inversion Hb as [|? ? Hi Hb']; subst.
    destruct (cut_at_pieces l idxs i Hg Hb') as [Hf _].
    rewrite cut_at_cons. unfold cut_step. cbn [snd map diffs tl]. rewrite (IH i Hg Hb'), Hf.
    rewrite skipn_length, firstn_length.
    destruct idxs as [|j idxs]; cbn [hd diffs tl]; [f_equal; lia|].
    cbn [gaps2] in Hg. inversion Hb' as [|? ? Hj _]; subst. f_equal. lia. }
  intros idxs p Hg Hb. cbn [map]. rewrite (Hgen idxs p Hg Hb).
  destruct (cut_at_pieces l idxs p Hg Hb) as [Hf _]. rewrite Hf, firstn_length.
  destruct idxs as [|i idxs]; cbn [hd diffs tl]; [f_equal; lia|].
  inversion Hb as [|? ? Hi _]; subst. f_equal. lia.
Qed.

(* one cut, as used by the fold *)
Lemma dsplit_at_leaves l i : dsplit_at (Leaves l) i = (Leaves (firstn i l), Leaves (skipn i l)).
Proof. reflexivity. Qed.
Lemma dsplit_at_branches es i : dsplit_at (Branches es) i = (Branches (firstn i es), Branches (skipn i es)).
Proof. reflexivity. Qed.
Lemma dsplit_at_dlen d i : (i <= N.to_nat (dlen d)) ->
  N.to_nat (dlen (fst (dsplit_at d i))) = i /\ N.to_nat (dlen (snd (dsplit_at d i))) = N.to_nat (dlen d) - i.
Proof.
  destruct d as [l|es]; cbn [dsplit_at fst snd dlen]; rewrite !llen_nat, firstn_length, skipn_length; lia.
Qed.

Definition split_fold := fun (acc : ndata * list ndata) (i : nat) =>
  let '(d0, rest) := acc in let '(a, b) := dsplit_at d0 i in (a, b :: rest).

Lemma split_fold_leaves idxs l :
  fold_left split_fold (rev idxs) (Leaves l, []) =
  (Leaves (fst (cut_at idxs l)), map Leaves (snd (cut_at idxs l))).
Proof.
  induction idxs as [|i idxs IH]; [reflexivity|].
  cbn [rev]. rewrite fold_left_app, IH. reflexivity.
Qed.

Lemma split_fold_branches idxs es :
  fold_left split_fold (rev idxs) (Branches es, []) =
  (Branches (fst (cut_at idxs es)), map Branches (snd (cut_at idxs es))).
Proof.
  induction idxs as [|i idxs IH]; [reflexivity|].
  cbn [rev]. rewrite fold_left_app, IH. reflexivity.
Qed.

(* no split *)
Theorem split_small s d :
  ((dlen d <=? 4) || (40 + dsize d <? psz s))%N = true -> split s d = (d, []).
Proof. intros H. unfold split. now rewrite H. Qed.

(* the indices [split] cuts at *)
Definition split_points (s : txs) (d : ndata) : list nat :=
  if ((dlen d <=? 4) || (40 + dsize d <? psz s))%N then []
  else split_idx d (psz s / 2) 0 (N.to_nat (dlen d) - 2) 40 0.

Theorem split_points_spec s d :
  StronglySorted lt (split_points s d) /\ gaps2 0 (split_points s d) /\
  Forall (fun x => 2 <= x /\ x + 2 <= N.to_nat (dlen d)) (split_points s d).
Proof.
  unfold split_points. destruct ((dlen d <=? 4) || (40 + dsize d <? psz s))%N.
  - repeat split; constructor.
  - destruct (split_idx_spec d (psz s / 2)%N (N.to_nat (dlen d))) as (H1 & H2 & H3). auto.
Qed.

Lemma split_leaves_eq s l :
  split s (Leaves l) = (Leaves (fst (cut_at (split_points s (Leaves l)) l)),
                        map Leaves (snd (cut_at (split_points s (Leaves l)) l))).
Proof.
  unfold split, split_points. destruct ((dlen (Leaves l) <=? 4) || (40 + dsize (Leaves l) <? psz s))%N.
  - reflexivity.
  - apply split_fold_leaves.
Qed.

Lemma split_branches_eq s es :
  split s (Branches es) = (Branches (fst (cut_at (split_points s (Branches es)) es)),
                           map Branches (snd (cut_at (split_points s (Branches es)) es))).
Proof.
  unfold split, split_points. destruct ((dlen (Branches es) <=? 4) || (40 + dsize (Branches es) <? psz s))%N.
  - reflexivity.
  - apply split_fold_branches.
Qed.

(* The pieces of a split leaf: in order they concatenate to the leaf; there is one more piece than there are
   split points; the first piece ends at the first split point; and when the node is split at all, EVERY piece
   (the last one included: the scan stops 2 entries before the end) has at least 2 entries. *)
Theorem split_leaves s l :
  exists l0 ls, split s (Leaves l) = (Leaves l0, map Leaves ls) /\
    l0 ++ concat ls = l /\
    length ls = length (split_points s (Leaves l)) /\
    l0 = firstn (hd (length l) (split_points s (Leaves l))) l /\
    (ls <> [] -> Forall (fun p => 2 <= length p) (l0 :: ls)).
Proof.
  exists (fst (cut_at (split_points s (Leaves l)) l)), (snd (cut_at (split_points s (Leaves l)) l)).
  destruct (split_points_spec s (Leaves l)) as (_ & Hg & Hb).
  assert (Hb' : Forall (fun x => x + 2 <= length l) (split_points s (Leaves l))).
  { eapply Forall_impl; [|exact Hb]. cbn [dlen]. intros x [_ Hx]. now rewrite llen_nat in Hx. }
  destruct (cut_at_pieces l _ 0 Hg Hb') as [Hf Hr].
  split; [apply split_leaves_eq|]. split; [apply cut_at_concat|]. split; [apply cut_at_count|].
  split; [exact Hf|]. intros Hne. constructor; [|exact Hr].
  rewrite Hf. destruct (split_points s (Leaves l)) as [|i idxs]; [exfalso; apply Hne; reflexivity|].
  cbn [hd]. inversion Hb as [|? ? [Hi1 Hi2] _]; subst. cbn [dlen] in Hi2. rewrite llen_nat in Hi2.
  rewrite firstn_length. lia.
Qed.

Theorem split_branches s es :
  exists e0 ess, split s (Branches es) = (Branches e0, map Branches ess) /\
    e0 ++ concat ess = es /\
    length ess = length (split_points s (Branches es)) /\
    e0 = firstn (hd (length es) (split_points s (Branches es))) es /\
    (ess <> [] -> Forall (fun p => 2 <= length p) (e0 :: ess)).
Proof.
  exists (fst (cut_at (split_points s (Branches es)) es)), (snd (cut_at (split_points s (Branches es)) es)).
  destruct (split_points_spec s (Branches es)) as (_ & Hg & Hb).
  assert (Hb' : Forall (fun x => x + 2 <= length es) (split_points s (Branches es))).
  { eapply Forall_impl; [|exact Hb]. cbn [dlen]. intros x [_ Hx]. now rewrite llen_nat in Hx. }
  destruct (cut_at_pieces es _ 0 Hg Hb') as [Hf Hr].
  split; [apply split_branches_eq|]. split; [apply cut_at_concat|]. split; [apply cut_at_count|].
  split; [exact Hf|]. intros Hne. constructor; [|exact Hr].
  rewrite Hf. destruct (split_points s (Branches es)) as [|i idxs]; [exfalso; apply Hne; reflexivity|].
  cbn [hd]. inversion Hb as [|? ? [Hi1 Hi2] _]; subst. cbn [dlen] in Hi2. rewrite llen_nat in Hi2.
  rewrite firstn_length. lia.
Qed.

Lemma map_inj_eq {A B} (f : A -> B) : (forall x y, f x = f y -> x = y) ->
  forall l l', map f l = map f l' -> l = l'.
Proof.
  intros Hf. induction l as [|x l IH]; intros [|y l'] H; try discriminate; [reflexivity|].
  cbn [map] in H. inversion H as [[H1 H2]]. f_equal; [now apply Hf | now apply IH].
Qed.

(* ... and each piece is exactly the stretch between two consecutive split points *)
Theorem split_leaves_lengths s l l0 ls :
  split s (Leaves l) = (Leaves l0, map Leaves ls) ->
  map (@length leafent) (l0 :: ls) = diffs 0 (split_points s (Leaves l)) (length l).
Proof.
  intros H. rewrite split_leaves_eq in H. inversion H as [[H1 H2]].
  apply (map_inj_eq Leaves) in H2; [|intros x y E; now inversion E]. subst ls.
  destruct (split_points_spec s (Leaves l)) as (_ & Hg & Hb).
  apply cut_at_lengths with (p := 0); [exact Hg|].
  eapply Forall_impl; [|exact Hb]. cbn [dlen]. intros x [_ Hx]. now rewrite llen_nat in Hx.
Qed.

Theorem split_branches_lengths s es e0 ess :
  split s (Branches es) = (Branches e0, map Branches ess) ->
  map (@length (bytes * N)) (e0 :: ess) = diffs 0 (split_points s (Branches es)) (length es).
Proof.
  intros H. rewrite split_branches_eq in H. inversion H as [[H1 H2]].
  apply (map_inj_eq Branches) in H2; [|intros x y E; now inversion E]. subst ess.
  destruct (split_points_spec s (Branches es)) as (_ & Hg & Hb).
  apply cut_at_lengths with (p := 0); [exact Hg|].
  eapply Forall_impl; [|exact Hb]. cbn [dlen]. intros x [_ Hx]. now rewrite llen_nat in Hx.
Qed.

(* ====================================================================== *)
(** * 4. [try_merge]: a child that does not need merging *)

Lemma replace_kid_hit : forall a x b k,
  n_page x = n_page k -> (forall y, In y a -> n_page y <> n_page k) ->
  replace_kid (a ++ x :: b) k = a ++ k :: b.
Proof.
  induction a as [|y a IH]; intros x b k Hx Ha; cbn [app replace_kid].
  - rewrite Hx, N.eqb_refl. reflexivity.
  - destruct (N.eqb (n_page y) (n_page k)) eqn:E.
    + apply N.eqb_eq in E. exfalso. apply (Ha y); [now left | exact E].
    + f_equal. apply IH; [exact Hx|]. intros z Hz. apply Ha. now right.
Qed.

Lemma replace_kid_miss : forall ks k,
  (forall y, In y ks -> n_page y <> n_page k) -> replace_kid ks k = ks ++ [k].
Proof.
  induction ks as [|y ks IH]; intros k Hk; cbn [app replace_kid]; [reflexivity|].
  destruct (N.eqb (n_page y) (n_page k)) eqn:E.
  - apply N.eqb_eq in E. exfalso. apply (Hk y); [now left | exact E].
  - f_equal. apply IH. intros z Hz. apply Hk. now right.
Qed.

Lemma find_kid_split : forall ks q x, find_kid q ks = Some x ->
  exists a b, ks = a ++ x :: b /\ n_page x = q /\ (forall y, In y a -> n_page y <> q).
Proof.
  unfold find_kid. induction ks as [|y ks IH]; intros q x H; cbn [find] in H; [discriminate|].
  destruct (N.eqb (n_page y) q) eqn:E.
  - inversion H; subst y. apply N.eqb_eq in E. exists [], ks. split; [reflexivity|]. split; [exact E|].
    intros z [].
  - destruct (IH q x H) as (a & b & -> & Hx & Ha). exists (y :: a), b. split; [reflexivity|].
    split; [exact Hx|]. intros z [<- | Hz]; [now apply N.eqb_neq | now apply Ha].
Qed.

Theorem try_merge_noop d par k s :
  needs_merging s k = false ->
  try_merge d par k s = Ok (set_kids par (replace_kid (n_kids par) k), s).
Proof. intros H. unfold try_merge. now rewrite H. Qed.

(* spelled out: same txs (so free / pending / np / wr are untouched: no page freed or allocated), same
   data and header fields; the kid list changes only at the (first) kid with k's page *)
Corollary try_merge_noop_fields d par k s par' s' :
  needs_merging s k = false -> try_merge d par k s = Ok (par', s') ->
  s' = s /\ n_data par' = n_data par /\ n_page par' = n_page par /\ n_np par' = n_np par /\
  n_orig par' = n_orig par /\ n_seq par' = n_seq par /\ n_kids par' = replace_kid (n_kids par) k.
Proof.
  intros Hn H. rewrite (try_merge_noop d par k s Hn) in H. inversion H; subst.
  destruct par; cbn. repeat split; reflexivity.
Qed.

Corollary try_merge_noop_replaces d par k s a x b :
  needs_merging s k = false ->
  n_kids par = a ++ x :: b -> n_page x = n_page k -> (forall y, In y a -> n_page y <> n_page k) ->
  try_merge d par k s = Ok (set_kids par (a ++ k :: b), s).
Proof.
  intros Hn Hk Hx Ha. rewrite (try_merge_noop d par k s Hn), Hk, (replace_kid_hit a x b k Hx Ha). reflexivity.
Qed.

(* the other way to be left alone: an only child that is not empty (repair D3) *)
Theorem try_merge_only_child d par k s es :
  n_data par = Branches es -> llen es = 1%N -> (0 < dlen (n_data k))%N ->
  try_merge d par k s = Ok (set_kids par (replace_kid (n_kids par) k), s).
Proof.
  intros Hd Hl Hk. unfold try_merge. destruct (negb (needs_merging s k)); [reflexivity|].
  rewrite Hd, Hl. cbn [N.eqb Pos.eqb andb].
  destruct (0 <? dlen (n_data k))%N eqn:E; [reflexivity | lia].
Qed.

(* ====================================================================== *)
(** * 5. [try_merge]: merging a non-empty child into its materialised LEFT sibling *)

Lemma bs_loop_range keys t : forall fuel base size, (1 <= size)%N ->
  (base <= bs_loop fuel keys t base size < base + size)%N.
Proof.
  induction fuel as [|f IH]; intros base size Hs; cbn [bs_loop]; [lia|].
  destruct (size <=? 1)%N eqn:E; [lia|]. cbv zeta.
  destruct (bcmp (nth (N.to_nat (base + size / 2)) keys []) t).
  - specialize (IH (base + size / 2) (size - size / 2))%N. lia.
  - specialize (IH (base + size / 2) (size - size / 2))%N. lia.
  - specialize (IH base (size - size / 2))%N. lia.
Qed.

(* needs no sortedness: a hit is always a real hit *)
Lemma bsearch_true keys t i : bsearch keys t = (true, i) ->
  (i < llen keys)%N /\ nth_error keys (N.to_nat i) = Some t.
Proof.
  unfold bsearch. destruct (llen keys =? 0)%N eqn:E0; [discriminate|]. cbv zeta.
  pose proof (bs_loop_range keys t (length keys) 0%N (llen keys)) as Hr.
  set (b := bs_loop (length keys) keys t 0 (llen keys)) in *.
  destruct (bcmp (nth (N.to_nat b) keys []) t) eqn:Ec; intros H; inversion H; subst i.
  assert (Hb : (b < llen keys)%N) by lia. split; [exact Hb|].
  apply bcmp_eq in Ec. rewrite <- Ec. apply nth_error_nth'. unfold llen in Hb. lia.
Qed.

(* the leaf entries held by the materialised (overlay) nodes under [n] *)
Fixpoint node_leaves (n : node) : list leafent :=
  match n with
  | Node _ _ _ _ (Leaves l) _ => l
  | Node _ _ _ _ (Branches _) ks => flat_map node_leaves ks
  end.

Lemma node_leaves_eq n : node_leaves n =
  match n_data n with Leaves l => l | Branches _ => flat_map node_leaves (n_kids n) end.
Proof. destruct n as [p np o s [l|es] ks]; reflexivity. Qed.

Definition not_seq (sq : N) (x : node) : bool := negb (N.eqb (n_seq x) sq).

(* The exact result. Hypotheses: k needs merging, is not empty, is found in the parent at idx > 0, the entry to
   its left points to page q whose node sb is already among the parent's kids, and the two nodes are of the
   same kind (merge_data succeeds). *)
Theorem try_merge_left d par k s es ok idx kq q sb md :
  needs_merging s k = true ->
  n_data par = Branches es ->
  (0 < dlen (n_data k))%N ->
  n_orig k = Some ok ->
  bsearch (map fst es) ok = (true, idx) ->
  (0 < idx)%N ->
  nthN es (idx - 1) = Some (kq, q) ->
  find_kid q (n_kids par) = Some sb ->
  merge_data (n_data sb) (n_data k) = Ok md ->
  try_merge d par k s =
    Ok (set_kids (set_data par (Branches (remove_at es (N.to_nat idx))))
          (replace_kid (filter (not_seq (n_seq k)) (n_kids par))
                       (set_kids (set_data sb md) (n_kids sb ++ n_kids k))),
        free_node_page s k).
Proof.
  intros Hn Hd Hk Ho Hb Hi Hsp Hf Hm. unfold try_merge. rewrite Hn. cbn [negb]. rewrite Hd.
  destruct (bsearch_true _ _ _ Hb) as [Hlt _]. unfold llen in Hlt. rewrite map_length in Hlt.
  assert (E1 : (llen es =? 1)%N = false) by (unfold llen; lia). rewrite E1. cbn [andb].
  rewrite Ho, Hb.
  assert (E2 : (0 <? dlen (n_data k))%N = true) by lia. rewrite E2.
  assert (E3 : (idx =? 0)%N = false) by lia. rewrite E3.
  rewrite Hsp, Hf. cbn [bind]. rewrite Hm. cbn [bind].
  destruct (remove_at es (N.to_nat idx)) as [|[k0 q0] rest0]; reflexivity.
Qed.

(* parent's entry list afterwards = [remove_at es idx]; the page of k (and nothing else) is handed back *)
Corollary try_merge_left_fields d par k s es ok idx kq q sb md par' s' :
  needs_merging s k = true -> n_data par = Branches es -> (0 < dlen (n_data k))%N ->
  n_orig k = Some ok -> bsearch (map fst es) ok = (true, idx) -> (0 < idx)%N ->
  nthN es (idx - 1) = Some (kq, q) -> find_kid q (n_kids par) = Some sb ->
  merge_data (n_data sb) (n_data k) = Ok md ->
  try_merge d par k s = Ok (par', s') ->
  n_data par' = Branches (remove_at es (N.to_nat idx)) /\
  s' = free_node_page s k /\
  n_page par' = n_page par /\ n_np par' = n_np par /\ n_orig par' = n_orig par /\ n_seq par' = n_seq par.
Proof.
  intros Hn Hd Hk Ho Hb Hi Hsp Hf Hm H.
  rewrite (try_merge_left d par k s es ok idx kq q sb md Hn Hd Hk Ho Hb Hi Hsp Hf Hm) in H.
  inversion H; subst. destruct par; cbn. repeat split; reflexivity.
Qed.

Lemma filter_not_seq_id sq ks : ~ In sq (map n_seq ks) -> filter (not_seq sq) ks = ks.
Proof.
  induction ks as [|x ks IH]; intros H; [reflexivity|]. cbn [filter map] in *.
  unfold not_seq at 1. destruct (N.eqb (n_seq x) sq) eqn:E.
  - apply N.eqb_eq in E. exfalso. apply H. now left.
  - cbn [negb]. f_equal. apply IH. intros Hin. apply H. now right.
Qed.

(* removing the (unique) kid with k's seq removes exactly k's entries *)
Lemma leaves_filter_seq k : forall ks,
  NoDup (map n_seq ks) -> In k ks ->
  Permutation (flat_map node_leaves ks)
              (node_leaves k ++ flat_map node_leaves (filter (not_seq (n_seq k)) ks)).
Proof.
  induction ks as [|x ks IH]; intros Hnd Hin; [destruct Hin|].
  cbn [map] in Hnd. inversion Hnd as [|? ? Hx Hnd']; subst.
  cbn [flat_map filter]. destruct Hin as [-> | Hin].
  - unfold not_seq at 1. rewrite N.eqb_refl. cbn [negb]. now rewrite (filter_not_seq_id _ _ Hx).
  - assert (Hne : n_seq x <> n_seq k).
    { intros E. apply Hx. rewrite E. now apply in_map. }
    unfold not_seq at 1. apply N.eqb_neq in Hne. rewrite Hne. cbn [negb flat_map].
    rewrite (IH Hnd' Hin). rewrite !app_assoc. apply Permutation_app_tail, Permutation_app_comm.
Qed.

Lemma find_kid_filter q sb sq : forall ks,
  find_kid q ks = Some sb -> n_seq sb <> sq -> find_kid q (filter (not_seq sq) ks) = Some sb.
Proof.
  unfold find_kid. induction ks as [|x ks IH]; intros H Hs; cbn [find] in H; [discriminate|].
  cbn [filter]. destruct (N.eqb (n_page x) q) eqn:E.
  - inversion H; subst x. unfold not_seq at 1. apply N.eqb_neq in Hs. rewrite Hs. cbn [negb find]. now rewrite E.
  - destruct (not_seq sq x); [cbn [find]; rewrite E|]; now apply IH.
Qed.

Lemma leaves_merged sb k md :
  merge_data (n_data sb) (n_data k) = Ok md ->
  Permutation (node_leaves (set_kids (set_data sb md) (n_kids sb ++ n_kids k)))
              (node_leaves sb ++ node_leaves k).
Proof.
  destruct sb as [p1 np1 o1 s1 [l1|e1] ks1], k as [p2 np2 o2 s2 [l2|e2] ks2]; cbn; intros H;
    inversion H; subst; cbn.
  - apply isort_by_perm.
  - now rewrite flat_map_app.
Qed.

(* The overlay leaf entries under the parent are the same multiset before and after. Extra hypotheses: k is one
   of the parent's kids, kid sequence numbers are unique, and the sibling is not k itself. *)
Theorem try_merge_left_leaves d par k s es ok idx kq q sb md par' s' :
  needs_merging s k = true -> n_data par = Branches es -> (0 < dlen (n_data k))%N ->
  n_orig k = Some ok -> bsearch (map fst es) ok = (true, idx) -> (0 < idx)%N ->
  nthN es (idx - 1) = Some (kq, q) -> find_kid q (n_kids par) = Some sb ->
  merge_data (n_data sb) (n_data k) = Ok md ->
  NoDup (map n_seq (n_kids par)) -> In k (n_kids par) -> n_seq sb <> n_seq k ->
  try_merge d par k s = Ok (par', s') ->
  Permutation (node_leaves par') (node_leaves par).
Proof.
  intros Hn Hd Hk Ho Hb Hi Hsp Hf Hm Hnd Hin Hsk H.
  rewrite (try_merge_left d par k s es ok idx kq q sb md Hn Hd Hk Ho Hb Hi Hsp Hf Hm) in H.
  inversion H; subst par' s'. clear H.
  rewrite (node_leaves_eq par), Hd.
  rewrite node_leaves_eq. destruct par as [pp pnp po ps pd pks]. cbn [set_kids set_data n_data n_kids] in *.
  rewrite (leaves_filter_seq k pks Hnd Hin).
  pose proof (find_kid_filter q sb (n_seq k) pks Hf Hsk) as Hf'.
  destruct (find_kid_split _ _ _ Hf') as (a & b & Hab & Hq & Ha).
  rewrite Hab. rewrite replace_kid_hit.
  - rewrite !flat_map_app. cbn [flat_map]. rewrite leaves_merged by exact Hm.
    rewrite (Permutation_app_comm (node_leaves sb) (node_leaves k)). rewrite <- !app_assoc.
    apply Permutation_app_swap_app.
  - destruct sb; cbn in *. reflexivity.
  - intros y Hy. destruct sb; cbn in *. rewrite Hq. now apply Ha.
Qed.

(** ** The two other merging cases, for completeness: exact results *)

(* an EMPTY child is simply dropped (entry removed, kid removed, page handed back); no sibling is touched *)
Theorem try_merge_empty d par k s es ok idx :
  dlen (n_data k) = 0%N ->
  n_data par = Branches es ->
  n_orig k = Some ok ->
  bsearch (map fst es) ok = (true, idx) ->
  try_merge d par k s =
    Ok (set_kids (set_data par (Branches (remove_at es (N.to_nat idx))))
                 (filter (not_seq (n_seq k)) (n_kids par)),
        free_node_page s k).
Proof.
  intros Hk Hd Ho Hb. unfold try_merge.
  assert (Hn : needs_merging s k = true) by (unfold needs_merging; rewrite Hk; reflexivity).
  rewrite Hn. cbn [negb]. rewrite Hd, Hk. cbn [N.ltb N.compare]. rewrite andb_false_r.
  rewrite Ho, Hb. cbn [bind]. reflexivity.
Qed.

Lemma ins_by_nonnil {A} (key : A -> bytes) x l : ins_by key x l <> [].
Proof. destruct l as [|y l]; [discriminate|]. rewrite ins_by_cons. destruct (bcmp _ _); discriminate. Qed.

Lemma isort_by_nonnil {A} (key : A -> bytes) l : l <> [] -> isort_by key l <> [].
Proof. destruct l as [|x l]; [congruence|]. intros _. rewrite isort_by_cons. apply ins_by_nonnil. Qed.

Lemma merge_data_first_key a b md :
  merge_data a b = Ok md -> (0 < dlen b)%N -> exists fk, first_key md = Ok fk.
Proof.
  destruct a as [l1|e1], b as [l2|e2]; cbn [merge_data]; intros H Hb; inversion H; subst; cbn [dlen] in Hb.
  - assert (Hne : isort_by lkey (l1 ++ l2) <> []).
    { apply isort_by_nonnil. destruct l2; [cbn in Hb; lia|]. now destruct l1. }
    destruct (isort_by lkey (l1 ++ l2)) as [|e l]; [congruence|]. eexists. reflexivity.
  - assert (Hne : isort_by fst (e1 ++ e2) <> []).
    { apply isort_by_nonnil. destruct e2; [cbn in Hb; lia|]. now destruct e1. }
    destruct (isort_by fst (e1 ++ e2)) as [|e l]; [congruence|]. eexists. reflexivity.
Qed.

(* child at idx = 0: merged into its materialised RIGHT sibling, which is re-keyed (entry and original key) to
   the first key of the merged data (repair D2) *)
Theorem try_merge_right d par k s e0 kq q rest ok sb md fk :
  needs_merging s k = true ->
  n_data par = Branches (e0 :: (kq, q) :: rest) ->
  (0 < dlen (n_data k))%N ->
  n_orig k = Some ok ->
  bsearch (map fst (e0 :: (kq, q) :: rest)) ok = (true, 0%N) ->
  find_kid q (n_kids par) = Some sb ->
  merge_data (n_data sb) (n_data k) = Ok md ->
  first_key md = Ok fk ->
  try_merge d par k s =
    Ok (set_kids (set_data par (Branches ((fk, q) :: rest)))
          (replace_kid (filter (not_seq (n_seq k)) (n_kids par))
                       (set_orig (set_kids (set_data sb md) (n_kids sb ++ n_kids k)) (Some fk))),
        free_node_page s k).
Proof.
  intros Hn Hd Hk Ho Hb Hf Hm Hfk. unfold try_merge. rewrite Hn. cbn [negb]. rewrite Hd.
  assert (E1 : (llen (e0 :: (kq, q) :: rest) =? 1)%N = false) by (unfold llen; cbn [length]; lia).
  rewrite E1. cbn [andb]. rewrite Ho, Hb.
  assert (E2 : (0 <? dlen (n_data k))%N = true) by lia. rewrite E2.
  cbn [N.eqb]. change (nthN (e0 :: (kq, q) :: rest) 1) with (Some (kq, q)). cbv beta iota.
  rewrite Hf. cbn [bind]. rewrite Hm. cbn [bind]. rewrite Hfk. cbn [remove_at].
  destruct sb as [p1 np1 o1 s1 d1 ks1]. cbn [set_data set_kids set_orig n_data n_kids]. rewrite Hfk. reflexivity.
Qed.

(* ====================================================================== *)
(** * 5b. The same, for the full view (overlay nodes over the committed pages) *)

(* the leaf entries below page p, as committed *)
Fixpoint page_leaves (fuel : nat) (d : disk) (p : N) : list leafent :=
  match fuel with O => [] | S f =>
    match dget d p with None => [] | Some a =>
      match ap_body a with
      | Leaves l => l
      | Branches es => flat_map (fun e => page_leaves f d (snd e)) es
      end end end.

(* the leaf entries below node n as the transaction sees them: a branch entry resolves to the first kid with
   that page if there is one, and to the committed page otherwise (exactly the resolution of [lookup_node]) *)
Fixpoint view_leaves (fuel : nat) (d : disk) (n : node) {struct n} : list leafent :=
  match n with
  | Node _ _ _ _ (Leaves l) _ => l
  | Node _ _ _ _ (Branches es) kids =>
      let fix go (ks : list node) (q : N) : option (list leafent) :=
        match ks with
        | [] => None
        | kd :: ks' => if N.eqb (n_page kd) q then Some (view_leaves fuel d kd) else go ks' q
        end in
      flat_map (fun e => match go kids (snd e) with Some r => r | None => page_leaves fuel d (snd e) end) es
  end.

Definition child_view (fuel : nat) (d : disk) (kids : list node) (q : N) : list leafent :=
  match find_kid q kids with Some kd => view_leaves fuel d kd | None => page_leaves fuel d q end.

Lemma view_leaves_eq fuel d n : view_leaves fuel d n =
  match n_data n with
  | Leaves l => l
  | Branches es => flat_map (fun e => child_view fuel d (n_kids n) (snd e)) es
  end.
Proof.
  destruct n as [p np o s [l|es] ks]; [reflexivity|]. cbn [view_leaves n_data n_kids].
  apply flat_map_ext. intros e. unfold child_view, find_kid. generalize (snd e) as q. intros q.
  induction ks as [|kd ks IH]; [reflexivity|]. cbn [find].
  destruct (N.eqb (n_page kd) q); [reflexivity | exact IH].
Qed.

Lemma flat_map_ext_in {A B} (f g : A -> list B) l :
  (forall a, In a l -> f a = g a) -> flat_map f l = flat_map g l.
Proof.
  induction l as [|x l IH]; intros H; [reflexivity|]. cbn [flat_map].
  rewrite (H x (or_introl eq_refl)), IH; [reflexivity|]. intros a Ha. apply H. now right.
Qed.

Lemma find_kid_app_l q ks1 ks2 :
  (forall x, In x ks2 -> n_page x <> q) -> find_kid q (ks1 ++ ks2) = find_kid q ks1.
Proof.
  intros H. unfold find_kid. induction ks1 as [|y ks1 IH]; cbn [app find].
  - induction ks2 as [|y ks2 IH2]; [reflexivity|]. cbn [find].
    destruct (N.eqb (n_page y) q) eqn:E.
    + apply N.eqb_eq in E. exfalso. apply (H y); [now left | exact E].
    + apply IH2. intros x Hx. apply H. now right.
  - destruct (N.eqb (n_page y) q); [reflexivity | exact IH].
Qed.

Lemma find_kid_app_r q ks1 ks2 :
  (forall x, In x ks1 -> n_page x <> q) -> find_kid q (ks1 ++ ks2) = find_kid q ks2.
Proof.
  intros H. unfold find_kid. induction ks1 as [|y ks1 IH]; cbn [app find]; [reflexivity|].
  destruct (N.eqb (n_page y) q) eqn:E.
  - apply N.eqb_eq in E. exfalso. apply (H y); [now left | exact E].
  - apply IH. intros x Hx. apply H. now right.
Qed.

Lemma find_kid_filter_other q' sq : forall ks,
  (forall x, In x ks -> n_seq x = sq -> n_page x <> q') ->
  find_kid q' (filter (not_seq sq) ks) = find_kid q' ks.
Proof.
  unfold find_kid. induction ks as [|x ks IH]; intros H; [reflexivity|]. cbn [filter find].
  assert (IH' : find (fun k => N.eqb (n_page k) q') (filter (not_seq sq) ks) = find (fun k => N.eqb (n_page k) q') ks).
  { apply IH. intros y Hy. apply H. now right. }
  unfold not_seq at 1. destruct (N.eqb (n_seq x) sq) eqn:Es; cbn [negb].
  - apply N.eqb_eq in Es. pose proof (H x (or_introl eq_refl) Es) as Hp.
    apply N.eqb_neq in Hp. rewrite Hp. exact IH'.
  - cbn [find]. destruct (N.eqb (n_page x) q'); [reflexivity | exact IH'].
Qed.

Lemma find_kid_replace_other q' sb' : forall ks,
  n_page sb' <> q' -> find_kid q' (replace_kid ks sb') = find_kid q' ks.
Proof.
  unfold find_kid. intros ks Hp. apply N.eqb_neq in Hp.
  induction ks as [|x ks IH]; cbn [replace_kid find].
  - now rewrite Hp.
  - destruct (N.eqb (n_page x) (n_page sb')) eqn:E; cbn [find].
    + apply N.eqb_eq in E. rewrite E, Hp. reflexivity.
    + destruct (N.eqb (n_page x) q'); [reflexivity | exact IH].
Qed.

Lemma find_kid_replace_same sb' : forall ks, find_kid (n_page sb') (replace_kid ks sb') = Some sb'.
Proof.
  unfold find_kid. induction ks as [|x ks IH]; cbn [replace_kid find].
  - now rewrite N.eqb_refl.
  - destruct (N.eqb (n_page x) (n_page sb')) eqn:E; cbn [find].
    + now rewrite N.eqb_refl.
    + rewrite E. exact IH.
Qed.

Lemma remove_at_app {A} (l1 l2 : list A) n : remove_at (l1 ++ l2) (length l1 + n) = l1 ++ remove_at l2 n.
Proof. induction l1 as [|x l1 IH]; [reflexivity|]. cbn [length Nat.add app remove_at]. now rewrite IH. Qed.

Lemma NoDup_map_inj {A B} (f : A -> B) : forall l x y,
  NoDup (map f l) -> In x l -> In y l -> f x = f y -> x = y.
Proof.
  induction l as [|a l IH]; intros x y Hnd Hx Hy Hf; [destruct Hx|].
  cbn [map] in Hnd. inversion Hnd as [|? ? Ha Hnd']; subst.
  destruct Hx as [-> | Hx], Hy as [-> | Hy].
  - reflexivity.
  - exfalso. apply Ha. rewrite Hf. now apply in_map.
  - exfalso. apply Ha. rewrite <- Hf. now apply in_map.
  - now apply IH.
Qed.

(* the pages a node's own entries point to *)
Definition dpages (d : ndata) : list N := match d with Branches es => map snd es | Leaves _ => [] end.

(* the merged node shows what the two nodes showed, provided neither node's entries point at a page that one
   of the OTHER node's kids stands for (vacuous for leaves) *)
Lemma view_merged fuel d sb k md :
  merge_data (n_data sb) (n_data k) = Ok md ->
  (forall x, In x (n_kids k) -> ~ In (n_page x) (dpages (n_data sb))) ->
  (forall x, In x (n_kids sb) -> ~ In (n_page x) (dpages (n_data k))) ->
  Permutation (view_leaves fuel d (set_kids (set_data sb md) (n_kids sb ++ n_kids k)))
              (view_leaves fuel d sb ++ view_leaves fuel d k).
Proof.
  intros Hm H1 H2. rewrite !view_leaves_eq.
  destruct sb as [p1 np1 o1 s1 [l1|e1] ks1], k as [p2 np2 o2 s2 [l2|e2] ks2];
    cbn [n_data n_kids set_data set_kids dpages merge_data] in *; inversion Hm; subst.
  - apply isort_by_perm.
  - rewrite (Permutation_flat_map _ (isort_by_perm fst (e1 ++ e2))). rewrite flat_map_app.
    apply Permutation_app.
    + erewrite flat_map_ext_in; [reflexivity|]. intros e He. unfold child_view.
      rewrite find_kid_app_l; [reflexivity|]. intros x Hx E. apply (H1 x Hx). rewrite E. now apply in_map.
    + erewrite flat_map_ext_in; [reflexivity|]. intros e He. unfold child_view.
      rewrite find_kid_app_r; [reflexivity|]. intros x Hx E. apply (H2 x Hx). rewrite E. now apply in_map.
Qed.

(* Hypotheses beyond those of try_merge_left: the entry at idx is k's (it points at k's page, and k is the kid
   standing for that page), the parent's entries point at distinct pages, kid sequence numbers are unique, and
   the two cross conditions of view_merged. *)
Theorem try_merge_left_view fuel d par k s es ok idx kq q sb md ko par' s' :
  needs_merging s k = true -> n_data par = Branches es -> (0 < dlen (n_data k))%N ->
  n_orig k = Some ok -> bsearch (map fst es) ok = (true, idx) -> (0 < idx)%N ->
  nthN es (idx - 1) = Some (kq, q) -> find_kid q (n_kids par) = Some sb ->
  merge_data (n_data sb) (n_data k) = Ok md ->
  nthN es idx = Some (ko, n_page k) ->
  find_kid (n_page k) (n_kids par) = Some k ->
  NoDup (map snd es) ->
  NoDup (map n_seq (n_kids par)) ->
  (forall x, In x (n_kids k) -> ~ In (n_page x) (dpages (n_data sb))) ->
  (forall x, In x (n_kids sb) -> ~ In (n_page x) (dpages (n_data k))) ->
  try_merge d par k s = Ok (par', s') ->
  Permutation (view_leaves fuel d par') (view_leaves fuel d par).
Proof.
  intros Hn Hd Hk Ho Hb Hi Hsp Hf Hm Hik Hfk Hpg Hsq Hx1 Hx2 H.
  rewrite (try_merge_left d par k s es ok idx kq q sb md Hn Hd Hk Ho Hb Hi Hsp Hf Hm) in H.
  inversion H; subst par' s'. clear H.
  (* shape of es around idx *)
  unfold nthN in Hsp, Hik.
  destruct (nth_error_split _ _ Hsp) as (E1 & R & HE & HlE1).
  assert (HR : exists E2, R = (ko, n_page k) :: E2).
  { rewrite HE in Hik. rewrite nth_error_app2 in Hik by lia.
    replace (N.to_nat idx - length E1) with 1 in Hik by lia. cbn [nth_error] in Hik.
    destruct R as [|r R]; [discriminate|]. inversion Hik; subst r. now exists R. }
  destruct HR as (E2 & ->).
  assert (Hrm : remove_at es (N.to_nat idx) = E1 ++ (kq, q) :: E2).
  { rewrite HE. replace (N.to_nat idx) with (length E1 + 1) by lia. rewrite remove_at_app. reflexivity. }
  rewrite Hrm.
  (* distinct pages *)
  rewrite HE, map_app in Hpg. cbn [map snd] in Hpg.
  pose proof (NoDup_remove_2 _ _ _ Hpg) as Hq. pose proof (NoDup_remove_1 _ _ _ Hpg) as Hpg'.
  pose proof (NoDup_remove_2 _ _ _ Hpg') as Hpk.
  assert (Hqk : q <> n_page k).
  { intros E. apply Hq. apply in_or_app. right. left. now symmetry. }
  destruct (find_kid_split _ _ _ Hf) as (a1 & b1 & Hks1 & Hsbq & _).
  destruct (find_kid_split _ _ _ Hfk) as (a2 & b2 & Hks2 & _ & _).
  assert (Hinsb : In sb (n_kids par)) by (rewrite Hks1; apply in_or_app; right; now left).
  assert (Hink : In k (n_kids par)) by (rewrite Hks2; apply in_or_app; right; now left).
  assert (Hsk : n_seq sb <> n_seq k).
  { intros E. apply Hqk. rewrite <- Hsbq. f_equal. exact (NoDup_map_inj n_seq _ _ _ Hsq Hinsb Hink E). }
  (* the kids afterwards *)
  set (sib' := set_kids (set_data sb md) (n_kids sb ++ n_kids k)).
  assert (Hpsib : n_page sib' = q) by (subst sib'; destruct sb; exact Hsbq).
  set (ks' := replace_kid (filter (not_seq (n_seq k)) (n_kids par)) sib').
  assert (Hother : forall q', q' <> q -> q' <> n_page k -> find_kid q' ks' = find_kid q' (n_kids par)).
  { intros q' Hq1 Hq2. subst ks'. rewrite find_kid_replace_other by congruence.
    apply find_kid_filter_other. intros x Hx Hs E. apply Hq2. rewrite <- E. f_equal.
    exact (NoDup_map_inj n_seq _ _ _ Hsq Hx Hink Hs). }
  assert (Hsame : find_kid q ks' = Some sib').
  { subst ks'. rewrite <- Hpsib. apply find_kid_replace_same. }
  rewrite (view_leaves_eq fuel d par), Hd, HE.
  rewrite view_leaves_eq. destruct par as [pp pnp po ps pd pks].
  cbn [set_kids set_data n_data n_kids] in *. fold sib' ks'.
  rewrite !flat_map_app. cbn [flat_map snd].
  assert (HE1 : flat_map (fun e => child_view fuel d ks' (snd e)) E1 =
                flat_map (fun e => child_view fuel d pks (snd e)) E1).
  { apply flat_map_ext_in. intros e He. unfold child_view. rewrite Hother; [reflexivity| |].
    - intros E. apply Hq. apply in_or_app. left. rewrite <- E. now apply in_map.
    - intros E. apply Hpk. apply in_or_app. left. rewrite <- E. now apply in_map. }
  assert (HE2 : flat_map (fun e => child_view fuel d ks' (snd e)) E2 =
                flat_map (fun e => child_view fuel d pks (snd e)) E2).
  { apply flat_map_ext_in. intros e He. unfold child_view. rewrite Hother; [reflexivity| |].
    - intros E. apply Hq. apply in_or_app. right. right. rewrite <- E. now apply in_map.
    - intros E. apply Hpk. apply in_or_app. right. rewrite <- E. now apply in_map. }
  rewrite HE1, HE2. apply Permutation_app_head. rewrite app_assoc. apply Permutation_app_tail.
  unfold child_view at 1 2 3. rewrite Hsame, Hf, Hfk. subst sib'. now apply view_merged.
Qed.

(* ====================================================================== *)
(** * 6. Concrete instances (the hypotheses above are satisfiable, and the bounds are tight) *)

Module Examples.
Local Open Scope N_scope.
Definition kA : bytes := ["a"%byte].  Definition kB : bytes := ["b"%byte].  Definition kC : bytes := ["c"%byte].
Definition kD : bytes := ["d"%byte].  Definition kE : bytes := ["e"%byte].  Definition kF : bytes := ["f"%byte].
Definition kG : bytes := ["g"%byte].
Definition mk_s (P : N) : txs :=
  {| free := []; pending := []; txid := 5; np := 20; psz := P; wr := []; flw := None; seqc := 3 |}.

(* 1: an unsorted list with distinct keys *)
Example ex_isort :
  isort_by lkey [LKv kC []; LKv kA []; LKv kB []] = [LKv kA []; LKv kB []; LKv kC []] /\
  NoDup (map lkey [LKv kC []; LKv kA []; LKv kB []]).
Proof. split; [reflexivity|]. repeat constructor; cbn; intuition discriminate. Qed.

(* 2: both orders *)
Example ex_merge_lr :
  merge_data (Leaves [LKv kA []; LKv kB []]) (Leaves [LKv kC []]) = Ok (Leaves [LKv kA []; LKv kB []; LKv kC []]).
Proof.
  apply (merge_data_leaves_lr [LKv kA []; LKv kB []] [LKv kC []]); try reflexivity.
  intros x y [<-|[<-|[]]] [<-|[]]; reflexivity.
Qed.
Example ex_merge_rl :
  merge_data (Branches [(kC, 7)]) (Branches [(kA, 5); (kB, 6)]) = Ok (Branches [(kA, 5); (kB, 6); (kC, 7)]).
Proof.
  apply (merge_data_branches_rl [(kC, 7)] [(kA, 5); (kB, 6)]); try reflexivity.
  intros x y [<-|[]] [<-|[<-|[]]]; reflexivity.
Qed.

(* 3: a 7-entry leaf on a 64-byte page is cut at 2 and 4: pieces of 2, 2 and 3 entries (so ">= 2" is tight, and
   the LAST piece is the one that may be longer) *)
Definition ex_leaf := [LKv kA []; LKv kB []; LKv kC []; LKv kD []; LKv kE []; LKv kF []; LKv kG []].
Example ex_split :
  split_points (mk_s 64) (Leaves ex_leaf) = [2; 4]%nat /\
  split (mk_s 64) (Leaves ex_leaf) =
    (Leaves [LKv kA []; LKv kB []], [Leaves [LKv kC []; LKv kD []]; Leaves [LKv kE []; LKv kF []; LKv kG []]]).
Proof. split; reflexivity. Qed.
(* an over-full node (603 > 512 bytes) whose weight sits in its last two entries is NOT split: the scan
   stops 2 entries before the end *)
Definition big : bytes := repeat x00 200.
Definition ex_leaf2 := [LKv kA []; LKv kB []; LKv kC []; LKv kD big; LKv kE big].
Example ex_split_none :
  split (mk_s 512) (Leaves ex_leaf2) = (Leaves ex_leaf2, []) /\
  ((dlen (Leaves ex_leaf2) <=? 4) || (40 + dsize (Leaves ex_leaf2) <? psz (mk_s 512))) = false.
Proof. split; reflexivity. Qed.

(* 4 / 5: a parent with two materialised leaf children *)
Definition ex_sb := Node 10 1 (Some kA) 1 (Leaves [LKv kA [x01]; LKv kB [x02]]) [].
Definition ex_k  := Node 11 1 (Some kC) 2 (Leaves [LKv kC [x03]]) [].
Definition ex_par := Node 9 1 (Some kA) 0 (Branches [(kA, 10); (kC, 11)]) [ex_sb; ex_k].
Definition ex_d : disk := [].

(* on a tiny page nothing needs merging: try_merge only re-installs the child *)
Example ex_noop :
  needs_merging (mk_s 64) ex_sb = false /\
  try_merge ex_d ex_par ex_sb (mk_s 64) = Ok (ex_par, mk_s 64).
Proof. split; reflexivity. Qed.

(* every hypothesis of try_merge_left / try_merge_left_leaves holds of this instance *)
Example ex_left_hyps :
  needs_merging (mk_s 4096) ex_k = true /\
  n_data ex_par = Branches [(kA, 10); (kC, 11)] /\
  0 < dlen (n_data ex_k) /\
  n_orig ex_k = Some kC /\
  bsearch (map fst [(kA, 10); (kC, 11)]) kC = (true, 1) /\
  0 < 1 /\
  nthN [(kA, 10); (kC, 11)] (1 - 1) = Some (kA, 10) /\
  find_kid 10 (n_kids ex_par) = Some ex_sb /\
  merge_data (n_data ex_sb) (n_data ex_k) = Ok (Leaves [LKv kA [x01]; LKv kB [x02]; LKv kC [x03]]) /\
  NoDup (map n_seq (n_kids ex_par)) /\ In ex_k (n_kids ex_par) /\ n_seq ex_sb <> n_seq ex_k.
Proof.
  repeat split; try reflexivity.
  - repeat constructor; cbn; intuition discriminate.
  - right. now left.
  - discriminate.
Qed.
Example ex_left :
  try_merge ex_d ex_par ex_k (mk_s 4096) =
    Ok (Node 9 1 (Some kA) 0 (Branches [(kA, 10)])
          [Node 10 1 (Some kA) 1 (Leaves [LKv kA [x01]; LKv kB [x02]; LKv kC [x03]]) []],
        upd_pending (mk_s 4096) [(5, [11])]).
Proof. reflexivity. Qed.

(* the right-sibling case on the same parent: merging ex_sb (idx 0) into ex_k re-keys ex_k to "a" *)
Example ex_right :
  try_merge ex_d ex_par ex_sb (mk_s 4096) =
    Ok (Node 9 1 (Some kA) 0 (Branches [(kA, 11)])
          [Node 11 1 (Some kA) 2 (Leaves [LKv kA [x01]; LKv kB [x02]; LKv kC [x03]]) []],
        upd_pending (mk_s 4096) [(5, [10])]).
Proof. reflexivity. Qed.
(* 5b: three entries, the third child (page 12) left on disk; every hypothesis of try_merge_left_view holds,
   and the view is (here even literally) unchanged *)
Definition ex_par3 := Node 9 1 (Some kA) 0 (Branches [(kA, 10); (kC, 11); (kE, 12)]) [ex_sb; ex_k].
Definition ex_d3 : disk := [(12, {| ap_over := 0; ap_body := Leaves [LKv kE [x05]; LKv kF [x06]] |})].
Example ex_view_hyps :
  nthN [(kA, 10); (kC, 11); (kE, 12)] 1 = Some (kC, n_page ex_k) /\
  find_kid (n_page ex_k) (n_kids ex_par3) = Some ex_k /\
  NoDup (map snd [(kA, 10); (kC, 11); (kE, 12)]) /\
  NoDup (map n_seq (n_kids ex_par3)) /\
  (forall x, In x (n_kids ex_k) -> ~ In (n_page x) (dpages (n_data ex_sb))) /\
  (forall x, In x (n_kids ex_sb) -> ~ In (n_page x) (dpages (n_data ex_k))) /\
  bsearch (map fst [(kA, 10); (kC, 11); (kE, 12)]) kC = (true, 1) /\
  find_kid 10 (n_kids ex_par3) = Some ex_sb.
Proof.
  repeat split; try reflexivity; try (repeat constructor; cbn; intuition discriminate); intros x [].
Qed.
Example ex_view :
  view_leaves 8 ex_d3 ex_par3 = [LKv kA [x01]; LKv kB [x02]; LKv kC [x03]; LKv kE [x05]; LKv kF [x06]] /\
  (exists par' s', try_merge ex_d3 ex_par3 ex_k (mk_s 4096) = Ok (par', s') /\
     n_data par' = Branches [(kA, 10); (kE, 12)] /\
     view_leaves 8 ex_d3 par' = [LKv kA [x01]; LKv kB [x02]; LKv kC [x03]; LKv kE [x05]; LKv kF [x06]]).
Proof. split; [reflexivity|]. eexists. eexists. split; [reflexivity|]. split; reflexivity. Qed.
End Examples.

(* ====================================================================== *)
Print Assumptions isort_by_perm.
Print Assumptions isort_by_sorted.
Print Assumptions isort_by_id.
Print Assumptions isort_by_unique.
Print Assumptions merge_data_leaves_lr.
Print Assumptions merge_data_leaves_rl.
Print Assumptions merge_data_branches_lr.
Print Assumptions merge_data_branches_rl.
Print Assumptions merge_data_leaves_perm.
Print Assumptions merge_data_branches_perm.
Print Assumptions merge_data_ok_iff.
Print Assumptions split_idx_spec.
Print Assumptions split_points_spec.
Print Assumptions cut_at_concat.
Print Assumptions cut_at_pieces.
Print Assumptions cut_at_lengths.
Print Assumptions split_small.
Print Assumptions split_leaves.
Print Assumptions split_branches.
Print Assumptions split_leaves_lengths.
Print Assumptions split_branches_lengths.
Print Assumptions try_merge_noop.
Print Assumptions try_merge_noop_fields.
Print Assumptions try_merge_noop_replaces.
Print Assumptions try_merge_only_child.
Print Assumptions bsearch_true.
Print Assumptions try_merge_left.
Print Assumptions try_merge_left_fields.
Print Assumptions try_merge_left_leaves.
Print Assumptions try_merge_left_view.
Print Assumptions try_merge_empty.
Print Assumptions try_merge_right.
Print Assumptions Examples.ex_left_hyps.
Print Assumptions Examples.ex_view_hyps.
