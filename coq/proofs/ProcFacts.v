(* ProcFacts: unbounded (any number of processes, any schedule) proofs about the process-level
   open protocol of model/Proc.v:  C13_mutex (both protocols), C13_no_failure, C13_sees_all,
   C13_progress (repaired protocol), C13_pinned_refuted, and non-vacuity examples. *)
From Coq Require Import List NArith Bool Arith Lia.
From Jamm Require Import Proc.
Import ListNotations.
Local Open Scope list_scope.
Local Open Scope nat_scope.

(* ------------------------------------------------------------------ *)
(* utilities: set_nth / nth_error                                      *)
(* ------------------------------------------------------------------ *)

Lemma pset_nth_length {A} (l : list A) i x : length (set_nth l i x) = length l.
Proof. revert i; induction l as [|y l IH]; intros [|i]; simpl; auto. Qed.

Lemma pnth_set_eq {A} (l : list A) i x : i < length l -> nth_error (set_nth l i x) i = Some x.
Proof.
  revert i; induction l as [|y l IH]; intros [|i] H; simpl in *; try lia; auto.
  apply IH; lia.
Qed.

Lemma pnth_set_neq {A} (l : list A) i j x : i <> j -> nth_error (set_nth l i x) j = nth_error l j.
Proof.
  revert i j; induction l as [|y l IH]; intros [|i] [|j] H; simpl; auto; try congruence.
Qed.

Lemma pnth_set {A} (l : list A) k j x p :
  nth_error l k = Some p ->
  nth_error (set_nth l k x) j = if Nat.eq_dec j k then Some x else nth_error l j.
Proof.
  intros Hk. destruct (Nat.eq_dec j k) as [->|Hne].
  - apply pnth_set_eq. apply nth_error_Some. congruence.
  - apply pnth_set_neq. congruence.
Qed.

Lemma nth_error_repeat_Some {A} (x y : A) n i : nth_error (repeat x n) i = Some y -> y = x.
Proof.
  revert i; induction n as [|n IH]; intros [|i]; simpl; try discriminate.
  - congruence.
  - apply IH.
Qed.

(* ------------------------------------------------------------------ *)
(* reachability and runs                                               *)
(* ------------------------------------------------------------------ *)

Lemma preachable_prun lf s0 s sched : preachable lf s0 s -> preachable lf s0 (prun lf s sched).
Proof.
  revert s; induction sched as [|i r IH]; intros s H; simpl; auto.
  destruct (pstep lf s i) eqn:E; auto.
  apply IH. eapply preach_step; eauto.
Qed.

Lemma preachable_prun0 lf s0 sched : preachable lf s0 (prun lf s0 sched).
Proof. apply preachable_prun. constructor. Qed.

Lemma preachable_ind_inv (P : pstate -> Prop) lf s0 :
  P s0 -> (forall s i s', P s -> pstep lf s i = Some s' -> P s') ->
  forall s, preachable lf s0 s -> P s.
Proof. intros H0 Hs s H. induction H; eauto. Qed.

(* ------------------------------------------------------------------ *)
(* step case analysis                                                  *)
(* ------------------------------------------------------------------ *)

(* Break [H : pstep lf s k = Some s'] into one goal per transition; in each goal
   [Hk : nth_error (procs s) k = Some <pc>] and s' is replaced by the explicit successor. *)
Ltac step_cases H Hk :=
  unfold pstep in H;
  match type of H with
  | context [nth_error (procs ?s) ?k] => destruct (nth_error (procs s) k) as [?p|] eqn:Hk; [|discriminate H]
  end;
  match type of Hk with _ = Some ?p => destruct p end;
  repeat (simpl in H;
          match type of H with
          | context [if negb ?b then _ else _] => let E := fresh "E" in destruct b eqn:E
          | context [if ?b && _ then _ else _] => let E := fresh "E" in destruct b eqn:E
          | context [if ?b then _ else _] => let E := fresh "E" in destruct b eqn:E
          | context [match f_lock ?f with _ => _ end] => let E := fresh "E" in destruct (f_lock f) eqn:E
          end);
  simpl in H; try discriminate H;
  injection H as H; subst.

Ltac nth_simpl Hk :=
  unfold setp in *; simpl procs in *; simpl fs in *;
  repeat match goal with
  | H : context [nth_error (set_nth (procs ?s) ?k ?x) ?j] |- _ => rewrite (pnth_set _ k j x _ Hk) in H
  | |- context [nth_error (set_nth (procs ?s) ?k ?x) ?j] => rewrite (pnth_set _ k j x _ Hk)
  end.

(* ------------------------------------------------------------------ *)
(* 1. the lock invariant and mutual exclusion (both protocols)         *)
(* ------------------------------------------------------------------ *)

Definition lock_inv (s : pstate) : Prop :=
  forall i, f_lock (fs s) = Some i <->
            exists p, nth_error (procs s) i = Some p /\ holds_lock p = true.

Definition all_P0_unlocked (s0 : pstate) : Prop :=
  f_lock (fs s0) = None /\ forall i p, nth_error (procs s0) i = Some p -> p = P0.

Lemma pinit_P0 n : all_P0_unlocked (pinit n).
Proof. split; simpl; auto. intros i p H. eapply nth_error_repeat_Some; eauto. Qed.
Lemma pinit_existing_P0 c n : all_P0_unlocked (pinit_existing c n).
Proof. split; simpl; auto. intros i p H. eapply nth_error_repeat_Some; eauto. Qed.

Lemma lock_inv_init s0 : all_P0_unlocked s0 -> lock_inv s0.
Proof.
  intros [Hl Hp] i. rewrite Hl. split; [discriminate|].
  intros (p & Hi & Hh). apply Hp in Hi. subst. discriminate.
Qed.

Lemma lock_inv_mutex s : lock_inv s -> one_inside s.
Proof.
  intros L i j pi pj Hi Hj Hpi Hpj.
  assert (A : f_lock (fs s) = Some i) by (apply L; eauto).
  assert (B : f_lock (fs s) = Some j) by (apply L; eauto).
  congruence.
Qed.

(* a step that neither touches the lock word nor changes whether the mover holds it *)
Lemma lock_inv_same s k p p' f' :
  lock_inv s -> nth_error (procs s) k = Some p ->
  f_lock f' = f_lock (fs s) -> holds_lock p' = holds_lock p ->
  lock_inv (setp s k p' f').
Proof.
  intros L Hk Hf Hh i. nth_simpl Hk. rewrite Hf, (L i).
  destruct (Nat.eq_dec i k) as [->|Hne].
  - split; intros (q & Hq & Hhq).
    + exists p'. split; auto. rewrite Hh. congruence.
    + exists p. split; auto. inversion Hq; subst. congruence.
  - tauto.
Qed.

(* acquiring: the lock was free *)
Lemma lock_inv_acquire s k p p' f' :
  lock_inv s -> nth_error (procs s) k = Some p ->
  f_lock (fs s) = None -> f_lock f' = Some k -> holds_lock p' = true ->
  lock_inv (setp s k p' f').
Proof.
  intros L Hk Hn Hf Hh i. nth_simpl Hk. rewrite Hf.
  destruct (Nat.eq_dec i k) as [->|Hne].
  - split; eauto.
  - split; [congruence|]. intros Hex. apply L in Hex. congruence.
Qed.

(* releasing: the mover held the lock *)
Lemma lock_inv_release s k p p' f' :
  lock_inv s -> nth_error (procs s) k = Some p ->
  holds_lock p = true -> f_lock f' = None -> holds_lock p' = false ->
  lock_inv (setp s k p' f').
Proof.
  intros L Hk Hp Hf Hh i. nth_simpl Hk. rewrite Hf.
  assert (Lk : f_lock (fs s) = Some k) by (apply L; eauto).
  destruct (Nat.eq_dec i k) as [->|Hne].
  - split; [discriminate|]. intros (q & Hq & Hhq). inversion Hq; subst. congruence.
  - split; [discriminate|]. intros Hex. apply L in Hex. congruence.
Qed.

Lemma lock_inv_step lf s k s' : lock_inv s -> pstep lf s k = Some s' -> lock_inv s'.
Proof.
  intros L H. step_cases H Hk;
    try (eapply lock_inv_same; eauto; reflexivity);
    try (eapply lock_inv_acquire; eauto; reflexivity);
    try (eapply lock_inv_release; eauto; reflexivity).
Qed.

Lemma lock_inv_reachable lf s0 s : all_P0_unlocked s0 -> preachable lf s0 s -> lock_inv s.
Proof.
  intros H0. apply preachable_ind_inv.
  - apply lock_inv_init; auto.
  - intros; eapply lock_inv_step; eauto.
Qed.

Definition pinitial (s0 : pstate) : Prop :=
  (exists n, s0 = pinit n) \/ (exists c n, s0 = pinit_existing c n).

Lemma pinitial_P0 s0 : pinitial s0 -> all_P0_unlocked s0.
Proof. intros [(n & ->)|(c & n & ->)]; [apply pinit_P0|apply pinit_existing_P0]. Qed.

Theorem C13_mutex lf c n s0 s :
  s0 = pinit n \/ s0 = pinit_existing c n ->
  preachable lf s0 s -> one_inside s.
Proof.
  intros H0 H. apply lock_inv_mutex. eapply lock_inv_reachable; eauto.
  destruct H0 as [->| ->]; [apply pinit_P0|apply pinit_existing_P0].
Qed.
Print Assumptions C13_mutex.

(* the full invariant, exported *)
Theorem C13_lock_holder lf c n s0 s :
  s0 = pinit n \/ s0 = pinit_existing c n ->
  preachable lf s0 s ->
  forall i, f_lock (fs s) = Some i <-> exists p, nth_error (procs s) i = Some p /\ holds_lock p = true.
Proof.
  intros H0 H. eapply lock_inv_reachable; eauto.
  destruct H0 as [->| ->]; [apply pinit_P0|apply pinit_existing_P0].
Qed.
Print Assumptions C13_lock_holder.

(* ------------------------------------------------------------------ *)
(* 2-3. the repaired protocol: nobody fails, everybody sees everything *)
(* ------------------------------------------------------------------ *)

(* program counters of the repaired protocol *)
Definition rep_pc (p : ppc) : bool :=
  match p with
  | PSawAbsent | PSawPresent | PCreated | PSized | PWritten | PErrExists | PPanic => false
  | _ => true
  end.
(* the process has written the header pages itself, or has read a valid header *)
Definition past_init (p : ppc) : bool :=
  match p with PInit2 | PInit3 | PInside _ | PCommitted _ => true | _ => false end.

Definition good_pcs (s : pstate) : Prop :=
  forall i p, nth_error (procs s) i = Some p -> rep_pc p = true.
(* a sized file without header exists only while somebody (the lock holder) is at PInit1 *)
Definition sized_inv (s : pstate) : Prop :=
  f_sized (fs s) = true -> f_init (fs s) = true \/ exists i, nth_error (procs s) i = Some PInit1.
Definition init_inv (s : pstate) : Prop :=
  forall i p, nth_error (procs s) i = Some p -> past_init p = true -> f_init (fs s) = true.
Definition seen_inv (s : pstate) : Prop :=
  forall i seen, nth_error (procs s) i = Some (PInside seen) -> seen = f_commits (fs s).

Definition rinv (s : pstate) : Prop :=
  lock_inv s /\ good_pcs s /\ sized_inv s /\ init_inv s /\ seen_inv s.

Definition rinit (s0 : pstate) : Prop :=
  all_P0_unlocked s0 /\ (f_sized (fs s0) = true -> f_init (fs s0) = true).

Lemma rinv_init s0 : rinit s0 -> rinv s0.
Proof.
  intros [H0 Hs]. split; [apply lock_inv_init; auto|]. destruct H0 as [_ Hp].
  repeat split.
  - intros i p Hi. apply Hp in Hi; subst; reflexivity.
  - intros Hz; left; auto.
  - intros i p Hi Hq. apply Hp in Hi; subst; discriminate.
  - intros i seen Hi. apply Hp in Hi; discriminate.
Qed.

(* the lock holder at PLocked never finds a sized file without a header *)
Lemma locked_sized_init s k :
  lock_inv s -> sized_inv s -> nth_error (procs s) k = Some PLocked ->
  f_sized (fs s) = true -> f_init (fs s) = true.
Proof.
  intros L Z Hk Hs. destruct (Z Hs) as [|(i & Hi)]; auto.
  assert (i = k) by (eapply (lock_inv_mutex _ L); eauto).
  subst. congruence.
Qed.

Lemma good_pcs_step s k s' : rinv s -> pstep true s k = Some s' -> good_pcs s'.
Proof.
  intros (L & G & Z & I & C) H.
  step_cases H Hk; try (apply G in Hk; discriminate Hk);
    try (intros j q Hj; nth_simpl Hk; destruct (Nat.eq_dec j k);
         [inversion Hj; subst; reflexivity | eapply G; eauto]).
  (* PLocked -> PPanic is impossible *)
  exfalso. pose proof (locked_sized_init _ _ L Z Hk E). congruence.
Qed.

Lemma sized_inv_step s k s' : rinv s -> pstep true s k = Some s' -> sized_inv s'.
Proof.
  intros (L & G & Z & I & C) H.
  step_cases H Hk; try (apply G in Hk; discriminate Hk);
    intros Hs; nth_simpl Hk; simpl in *;
    first [ left; reflexivity
          | right; exists k; nth_simpl Hk; destruct (Nat.eq_dec k k); [reflexivity|congruence]
          | destruct (Z Hs) as [Hi|(i & Hi)];
            [ left; exact Hi
            | right; exists i; nth_simpl Hk; destruct (Nat.eq_dec i k); [subst; congruence|exact Hi] ] ].
Qed.

Lemma init_inv_step s k s' : rinv s -> pstep true s k = Some s' -> init_inv s'.
Proof.
  intros (L & G & Z & I & C) H.
  step_cases H Hk; try (apply G in Hk; discriminate Hk);
    intros j q Hj Hq; nth_simpl Hk; simpl in *;
    try reflexivity;
    (destruct (Nat.eq_dec j k);
     [ inversion Hj; subst; simpl in Hq; try discriminate Hq; try assumption;
       try (eapply I; [exact Hk|reflexivity])
     | eapply I; eauto ]).
Qed.

Lemma seen_inv_step s k s' : rinv s -> pstep true s k = Some s' -> seen_inv s'.
Proof.
  intros (L & G & Z & I & C) H.
  step_cases H Hk; try (apply G in Hk; discriminate Hk);
    intros j sn Hj; nth_simpl Hk; simpl in *;
    (destruct (Nat.eq_dec j k) as [->|Hne];
     [ inversion Hj; subst; reflexivity
     | try (eapply C; eassumption) ]).
  (* PInside -> PCommitted by k while j <> k is at PInside: excluded by the lock *)
  exfalso. apply Hne. eapply (lock_inv_mutex _ L); eauto.
Qed.

Lemma rinv_step s k s' : rinv s -> pstep true s k = Some s' -> rinv s'.
Proof.
  intros R H. split; [|split; [|split; [|split]]].
  - destruct R as (L & _). eapply lock_inv_step; eauto.
  - eapply good_pcs_step; eauto.
  - eapply sized_inv_step; eauto.
  - eapply init_inv_step; eauto.
  - eapply seen_inv_step; eauto.
Qed.

Lemma rinv_reachable s0 s : rinit s0 -> preachable true s0 s -> rinv s.
Proof.
  intros H0. apply preachable_ind_inv.
  - apply rinv_init; auto.
  - intros; eapply rinv_step; eauto.
Qed.

Lemma rinit_pinit n : rinit (pinit n).
Proof. split; [apply pinit_P0|]. simpl. discriminate. Qed.
Lemma rinit_pinit_existing c n : rinit (pinit_existing c n).
Proof. split; [apply pinit_existing_P0|]. reflexivity. Qed.
Lemma rinit_either c n s0 : s0 = pinit n \/ s0 = pinit_existing c n -> rinit s0.
Proof. intros [->| ->]; [apply rinit_pinit|apply rinit_pinit_existing]. Qed.

Lemma rep_pc_not_failed p : rep_pc p = true -> failed p = false.
Proof. destruct p; simpl; congruence. Qed.

Theorem C13_no_failure c n s0 s :
  s0 = pinit n \/ s0 = pinit_existing c n ->
  preachable true s0 s -> nobody_failed s.
Proof.
  intros H0 H. destruct (rinv_reachable s0 s (rinit_either _ _ _ H0) H) as (_ & G & _).
  intros i p Hi. apply rep_pc_not_failed. eapply G; eauto.
Qed.
Print Assumptions C13_no_failure.

(* stronger: only program counters of the repaired protocol are ever reached *)
Theorem C13_repaired_pcs c n s0 s :
  s0 = pinit n \/ s0 = pinit_existing c n ->
  preachable true s0 s -> forall i p, nth_error (procs s) i = Some p -> rep_pc p = true.
Proof.
  intros H0 H. destruct (rinv_reachable s0 s (rinit_either _ _ _ H0) H) as (_ & G & _). exact G.
Qed.
Print Assumptions C13_repaired_pcs.

Theorem C13_sees_all c n s0 s :
  s0 = pinit n \/ s0 = pinit_existing c n ->
  preachable true s0 s -> sees_all s.
Proof.
  intros H0 H. destruct (rinv_reachable s0 s (rinit_either _ _ _ H0) H) as (_ & _ & _ & I & C).
  intros i seen Hi. split.
  - eapply I; eauto.
  - eapply C; eauto.
Qed.
Print Assumptions C13_sees_all.

(* ------------------------------------------------------------------ *)
(* 4. progress                                                         *)
(* ------------------------------------------------------------------ *)

Lemma forallb_false_nth {A} (f : A -> bool) l :
  forallb f l = false -> exists i x, nth_error l i = Some x /\ f x = false.
Proof.
  induction l as [|a l IH]; simpl; [discriminate|].
  destruct (f a) eqn:E; simpl.
  - intros H. destruct (IH H) as (i & x & Hi & Hx). exists (S i), x. auto.
  - intros _. exists 0, a. auto.
Qed.

Lemma can_step lf s i p :
  nth_error (procs s) i = Some p -> pfinished p = false ->
  (p = POpened -> f_lock (fs s) = None) ->
  exists s', pstep lf s i = Some s'.
Proof.
  intros Hi Hf Ho. unfold pstep. rewrite Hi.
  destruct p; simpl in Hf; try discriminate Hf;
    try (rewrite (Ho eq_refl));
    repeat match goal with
    | |- context [if ?b then _ else _] => destruct b
    end; eauto.
Qed.

Lemma holder_can_step lf s i p :
  nth_error (procs s) i = Some p -> holds_lock p = true -> exists s', pstep lf s i = Some s'.
Proof.
  intros Hi Hh. eapply can_step; eauto.
  - destruct p; simpl in *; congruence.
  - intros ->; discriminate.
Qed.

(* holds for both protocols: the only blocking step is flock while the lock is held,
   and the holder can always move *)
Lemma progress_gen lf s :
  lock_inv s -> p_all_done s = false -> exists i s', pstep lf s i = Some s'.
Proof.
  intros L H. apply forallb_false_nth in H. destruct H as (i & p & Hi & Hf).
  destruct (f_lock (fs s)) as [j|] eqn:El.
  - apply L in El. destruct El as (q & Hj & Hq). exists j. eapply holder_can_step; eauto.
  - exists i. eapply can_step; eauto.
Qed.

Theorem C13_progress c n s0 s :
  s0 = pinit n \/ s0 = pinit_existing c n ->
  preachable true s0 s -> p_all_done s = false -> exists i s', pstep true s i = Some s'.
Proof.
  intros H0 H. apply progress_gen. unfold lock_inv. eapply C13_lock_holder; eauto.
Qed.
Print Assumptions C13_progress.

(* the same for either protocol (in the pinned one a process may still FAIL, but nobody waits forever) *)
Theorem C13_progress_any lf c n s0 s :
  s0 = pinit n \/ s0 = pinit_existing c n ->
  preachable lf s0 s -> p_all_done s = false -> exists i s', pstep lf s i = Some s'.
Proof.
  intros H0 H. apply progress_gen. unfold lock_inv. eapply C13_lock_holder; eauto.
Qed.
Print Assumptions C13_progress_any.

(* ------------------------------------------------------------------ *)
(* 5. the pinned protocol is refuted                                   *)
(* ------------------------------------------------------------------ *)

(* (a) process 1 arrives between create and initialise, locks and maps a file without header *)
Example pinned_panic :
  nth_error (procs (prun false (pinit 2) [0;0;1;1;1;1])) 1 = Some PPanic.
Proof. vm_compute. reflexivity. Qed.

(* (b) both processes see the file absent; the second create_new fails *)
Example pinned_err_exists :
  nth_error (procs (prun false (pinit 2) [0;1;0;1])) 1 = Some PErrExists.
Proof. vm_compute. reflexivity. Qed.

Theorem C13_pinned_refuted :
  ~ (forall s, preachable false (pinit 2) s -> nobody_failed s).
Proof.
  intros H.
  specialize (H _ (preachable_prun0 false (pinit 2) [0;0;1;1;1;1]) 1 PPanic pinned_panic).
  discriminate H.
Qed.
Print Assumptions C13_pinned_refuted.

Theorem C13_pinned_refuted_exists :
  ~ (forall s, preachable false (pinit 2) s -> nobody_failed s).
Proof.
  intros H.
  specialize (H _ (preachable_prun0 false (pinit 2) [0;1;0;1]) 1 PErrExists pinned_err_exists).
  discriminate H.
Qed.
Print Assumptions C13_pinned_refuted_exists.

(* the same schedules are harmless under the repaired protocol *)
Example repaired_same_schedules :
  nobody_failedb (prun true (pinit 2) [0;0;1;1;1;1]) = true /\
  nobody_failedb (prun true (pinit 2) [0;1;0;1]) = true.
Proof. vm_compute. auto. Qed.

(* ------------------------------------------------------------------ *)
(* 6. non-vacuity                                                      *)
(* ------------------------------------------------------------------ *)

(* P0 -> POpened -> PLocked -> PInit1 -> PInit2 -> PInit3 -> PInside -> PCommitted -> PClosed : 8 steps
   for the initialiser, 5 for everybody else *)
Example run2 :
  let s := prun true (pinit 2) [0;1;0;0;0;0;0;0;0;1;1;1;1] in
  procs s = [PClosed; PClosed] /\ f_commits (fs s) = 2 /\ f_init (fs s) = true /\
  f_lock (fs s) = None /\ p_all_done s = true.
Proof. vm_compute. auto. Qed.

Example run3 :
  let s := prun true (pinit 3) [2;0;1; 1;1;1;1;1;1;1; 0;2; 0;0;0; 2;2;2;2] in
  procs s = [PClosed; PClosed; PClosed] /\ f_commits (fs s) = 3 /\ f_init (fs s) = true /\
  f_lock (fs s) = None /\ p_all_done s = true.
Proof. vm_compute. auto. Qed.

Example run_existing :
  let s := prun true (pinit_existing 5 2) [1;0;1;1;0;1;1;0;0;0;0] in
  procs s = [PClosed; PClosed] /\ f_commits (fs s) = 7 /\ f_lock (fs s) = None /\
  p_all_done s = true.
Proof. vm_compute. auto. Qed.

(* intermediate state of run3: process 1 is inside and sees nothing yet; 0 and 2 wait *)
Example run3_mid :
  procs (prun true (pinit 3) [2;0;1; 1;1;1;1;1; 0;2]) = [POpened; PInside 0; POpened].
Proof. vm_compute. reflexivity. Qed.

(* second entrant sees the first commit *)
Example run2_sees :
  procs (prun true (pinit 2) [0;1;0;0;0;0;0;0;0;1;1]) = [PClosed; PInside 1].
Proof. vm_compute. reflexivity. Qed.
