(* The STRONG invariant of EngineRebalanceFacts carried through the operations of a transaction, and what
   rebalance leaves for spill.

   1. [sbk] / [db_strict]: every committed bucket root reachable from [d_root] is a strict tree ([PInv]) of
      height <= fuel0 without shared pages; [db_strict_pages_wf], [init_db_strict].
   2. [SDeep d s b]: the overlay bucket [b] and every bucket opened below it satisfy [BInv] / [BExact] (and the
      shape fact [LKd]: a materialised leaf has no kids, which [Inv] does not state and spill needs);
      preserved by every step of a transaction: [tx_step_SDeep], [tx_fold_SDeep], [tx_ops_SDeep].
   3. [SDeep_Deep]: [SDeep] gives (R)'s [Deep]; [rebalance_SDeep]: what holds after rebalance.
   4. Spill readiness after rebalance: see the summary at the end of the file.

   Everything is closed under the global context (see the [Print Assumptions] at the end). *)
From Coq Require Import List NArith Bool Arith Lia ZifyN ZifyNat ZifyBool Permutation.
From Coq.Strings Require Import Byte.
From Jamm Require Spec.
From Jamm Require Import Bytes Tree Cursor SearchFacts Engine EngineFacts EngineMergeFacts EngineModifyFacts EngineAbs.
From Jamm Require Import EnginePathFacts EngineRebalanceFacts.
From Jamm Require EngineSpillFacts EngineBridgeFacts.
Import ListNotations.
Import Coq.Strings.String.StringSyntax. Delimit Scope string_scope with string.
Local Open Scope list_scope. Local Open Scope nat_scope.
Set Warnings "-abstract-large-number".
Arguments N.add : simpl never. Arguments N.sub : simpl never. Arguments N.mul : simpl never.
Arguments N.div : simpl never. Arguments N.ltb : simpl never. Arguments N.leb : simpl never.
Arguments N.eqb : simpl never.

(* ====================================================================== *)
(** * 1. The strong committed-state invariant *)

(* [sbk n d r]: the committed bucket rooted at page [r] is a strict tree ([PInv], unbounded key range, filed
   under no separator) of height h <= fuel0 in which no page has two parents, and so is every bucket nested in
   it, to a nesting depth < n (the bucket itself counts 1).  This is exactly what [BInv] asks of the freshly
   opened bucket [Bucket r nx false None []], plus the same for the nested buckets. *)
Fixpoint sbk (n : nat) (d : disk) (r : N) : Prop :=
  match n with
  | O => False
  | S n' => exists h l, h <= fuel0 /\ PInv h d None None None r /\ NoDup (ppages h d r) /\ PageView d h r l /\
      Forall (fun e => match e with LBk _ r' _ => sbk n' d r' | LKv _ _ => True end) l
  end.

Definition db_strict (st : db) : Prop := sbk 16 (d_disk st) (d_root st).

(* a strict page has a view of the same height (so the [PageView] component of [sbk] is no extra demand) *)
Lemma PInv_PageView : forall h d lo hi ok q, PInv h d lo hi ok q -> exists l, PageView d h q l.
Proof.
  induction h as [|h IH]; intros d lo hi ok q H; [destruct H|]. cbn [PInv] in H.
  destruct H as (a & Hg & _ & Hb). destruct (ap_body a) as [l|es] eqn:Eb.
  - exists l. eapply PV_leaf; eauto.
  - destruct Hb as (_ & _ & _ & _ & HC).
    assert (Hls : exists ls, Forall2 (fun e l => PageView d h (snd e) l) es ls).
    { clear Eb. induction HC as [|e b es bs He _ IHC]; [exists []; constructor|].
      destruct IHC as [ls Hls]. destruct (IH _ _ _ _ _ He) as [l0 Hl0]. exists (l0 :: ls). now constructor. }
    destruct Hls as [ls Hls]. exists (concat ls). eapply PV_branch; eauto.
Qed.

Lemma sbk_cwf : forall n d r, sbk n d r -> cwf n d r.
Proof.
  induction n as [|n IH]; intros d r H; [destruct H|]. cbn [sbk] in H. cbn [cwf].
  destruct H as (h & l & Hh & HP & _ & HV & HF). split; [eapply PInv_wf_page; eauto|].
  exists l. split; [eapply PageView_mono; eauto|].
  eapply Forall_impl; [|exact HF]. cbn beta. intros [k v|k r' nx]; [auto | apply IH].
Qed.

Theorem db_strict_pages_wf : forall st, db_strict st -> db_pages_wf st.
Proof. intros st H. apply sbk_cwf. exact H. Qed.

Lemma sbk_mono : forall n d r, sbk n d r -> forall n', n <= n' -> sbk n' d r.
Proof.
  induction n as [|n IH]; intros d r H n' Hle; [destruct H|]. destruct n' as [|n']; [lia|].
  cbn [sbk] in *. destruct H as (h & l & Hh & HP & Hnd & HV & HF). exists h, l. repeat (split; [assumption|]).
  eapply Forall_impl; [|exact HF]. cbn beta. intros [k v|k r' nx]; [auto|]. intros H'. apply (IH _ _ H'). lia.
Qed.

Example init_db_strict : forall P, db_strict (init_db P).
Proof.
  intros P. unfold db_strict, init_db. cbn [d_disk d_root sbk].
  exists 1, []. split; [unfold fuel0; lia|]. split.
  - cbn [PInv]. eexists. split; [reflexivity|]. split; [exact I|]. cbn. split; [reflexivity | constructor].
  - split; [cbn; constructor|]. split; [|constructor]. eapply PV_leaf; reflexivity.
Qed.

(* ====================================================================== *)
(** * 2. The strong overlay invariant *)

(** ** 2a. A materialised leaf has no kids (needed by spill; [Inv] is silent about it) *)
Fixpoint LKd (n : node) : Prop :=
  match n with
  | Node _ _ _ _ dd ks =>
      (is_leaf dd = true -> ks = []) /\
      (fix go (l : list node) : Prop := match l with [] => True | k :: l' => LKd k /\ go l' end) ks
  end.

Lemma LKd_eq : forall n, LKd n <-> ((is_leaf (n_data n) = true -> n_kids n = []) /\ Forall LKd (n_kids n)).
Proof.
  intros [p np o s dd ks]. cbn [LKd n_data n_kids].
  assert (G : (fix go (l : list node) : Prop := match l with [] => True | k :: l' => LKd k /\ go l' end) ks
              <-> Forall LKd ks).
  { induction ks as [|k ks IH]; [split; [constructor | exact (fun _ => I)]|]. split.
    - intros [H1 H2]. constructor; [exact H1 | now apply IH].
    - intros H. inversion H; subst. split; [assumption | now apply IH]. }
  tauto.
Qed.

Lemma LKd_node_of_page : forall q a sq, LKd (node_of_page q a sq).
Proof. intros. apply LKd_eq. unfold node_of_page. cbn [n_kids]. split; [reflexivity | constructor]. Qed.

Lemma replace_kid_Forall : forall (Q : node -> Prop) ks k, Forall Q ks -> Q k -> Forall Q (replace_kid ks k).
Proof.
  intros Q. induction ks as [|x ks IH]; intros k HF Hk; cbn [replace_kid]; [repeat constructor; exact Hk|].
  inversion HF; subst. destruct (N.eqb (n_page x) (n_page k)); constructor; auto.
Qed.

Lemma modify_LKd : forall fuel d n o s n' s', LKd n -> modify fuel d n o s = Ok (n', s') -> LKd n'.
Proof.
  induction fuel as [|f IH]; intros d n o s n' s' HL H; [discriminate|].
  destruct n as [p np og sq [l|es] ks].
  - cbn [modify] in H. inversion H; subst. apply LKd_eq in HL. apply LKd_eq. exact HL.
  - rewrite modify_branch in H. destruct (index_of (Branches es) (lop_key o)) as [i ex].
    destruct (nthN es i) as [[sep q]|]; [|discriminate].
    apply LKd_eq in HL. cbn [n_data n_kids is_leaf] in HL. destruct HL as [_ HK].
    destruct (find_kid q ks) as [kd|] eqn:Ef.
    + apply bind_ok_inv in H. destruct H as ([kd' s1] & Em & H). inversion H; subst. cbn [fst].
      apply LKd_eq. cbn [n_data n_kids is_leaf]. split; [discriminate|].
      apply replace_kid_Forall; [exact HK|]. eapply IH; [|exact Em].
      rewrite Forall_forall in HK. apply HK. eapply find_kid_In; eauto.
    + destruct (dget d q) as [a|]; [|discriminate].
      apply bind_ok_inv in H. destruct H as ([kd' s1] & Em & H). inversion H; subst. cbn [fst].
      apply LKd_eq. cbn [n_data n_kids is_leaf]. split; [discriminate|].
      apply Forall_app. split; [exact HK|]. repeat constructor. eapply IH; [|exact Em]. apply LKd_node_of_page.
Qed.

Definition BLK (b : bucket) : Prop := match b_rootn b with Some n => LKd n | None => True end.

Lemma b_modify_BLK : forall d b o s b' s', BLK b -> b_modify d b o s = Ok (b', s') -> BLK b'.
Proof.
  intros d b o s b' s' HL H. unfold b_modify in H.
  apply bind_ok_inv in H. destruct H as ([root s0] & Er & H).
  apply bind_ok_inv in H. destruct H as ([n' s1] & Em & H). inversion H; subst. unfold BLK. cbn [b_rootn].
  eapply modify_LKd; [|exact Em]. unfold ensure_root, BLK in *. destruct (b_rootn b) as [n|].
  - inversion Er; subst. exact HL.
  - destruct (dget d (b_root_page b)); [|discriminate]. cbn [next_seq] in Er. inversion Er; subst.
    apply LKd_node_of_page.
Qed.

(** ** 2b. [SDeep] *)

(* the bucket's own tree: (R)'s invariant in its exact form, with a view [l] of height [h] <= fuel0 *)
Definition BLoc (d : disk) (s : txs) (b : bucket) (h : nat) (l : list leafent) : Prop :=
  h <= fuel0 /\ BInv h d s b /\ BExact h b /\ BLK b /\ BucketView d h b l.

(* the opened sub-buckets against the view [l]: distinct names, each names a bucket entry of [l] and satisfies [Q];
   every bucket entry that is NOT opened holds a strict committed root (so that opening it later gives [BInv]) *)
Definition SubsOk (Q : bucket -> Prop) (d : disk) (subs : list (bytes * bucket)) (l : list leafent) : Prop :=
  NoDup (map fst subs) /\
  Forall (fun x => (exists r nx, Spec.alookup (fst x) (assoc l) = Some (LBk (fst x) r nx)) /\ Q (snd x)) subs /\
  (forall k k' r nx, Spec.alookup k (assoc l) = Some (LBk k' r nx) -> sub_find k subs = None -> exists n, sbk n d r).

Fixpoint SDeepF (f : nat) (d : disk) (s : txs) (b : bucket) : Prop :=
  match f with
  | O => False
  | S f' => exists h l, BLoc d s b h l /\ SubsOk (SDeepF f' d s) d (b_subs b) l
  end.

(* [SDeep d s b]: [b] and, recursively, every bucket opened below it *)
Definition SDeep (d : disk) (s : txs) (b : bucket) : Prop := exists f, SDeepF f d s b.

Lemma SubsOk_impl : forall (Q Q' : bucket -> Prop) d subs l, (forall x, In x subs -> Q (snd x) -> Q' (snd x)) ->
  SubsOk Q d subs l -> SubsOk Q' d subs l.
Proof.
  intros Q Q' d subs l HQ (H1 & H2 & H3). split; [exact H1|]. split; [|exact H3].
  rewrite Forall_forall in *. intros x Hx. destruct (H2 x Hx) as [A B]. split; [exact A | now apply HQ].
Qed.

Lemma SDeepF_mono : forall f d s b, SDeepF f d s b -> forall f', f <= f' -> SDeepF f' d s b.
Proof.
  induction f as [|f IH]; intros d s b H f' Hle; [destruct H|]. destruct f' as [|f']; [lia|].
  cbn [SDeepF] in *. destruct H as (h & l & HL & HS). exists h, l. split; [exact HL|].
  eapply SubsOk_impl; [|exact HS]. intros x _ Hx. apply (IH _ _ _ Hx). lia.
Qed.

Lemma BLoc_seqc_mono : forall d s s' b h l, (seqc s <= seqc s')%N -> BLoc d s b h l -> BLoc d s' b h l.
Proof.
  intros d s s' b h l Hle (A & B & C & D & E). unfold BLoc. split; [exact A|].
  split; [eapply BInv_seqc_mono; eauto|]. auto.
Qed.

Lemma SDeepF_seqc_mono : forall f d s s' b, (seqc s <= seqc s')%N -> SDeepF f d s b -> SDeepF f d s' b.
Proof.
  induction f as [|f IH]; intros d s s' b Hle H; [exact H|]. cbn [SDeepF] in *.
  destruct H as (h & l & HL & HS). exists h, l. split; [eapply BLoc_seqc_mono; eauto|].
  eapply SubsOk_impl; [|exact HS]. intros x _ Hx. eapply IH; eauto.
Qed.

Lemma SDeep_seqc_mono : forall d s s' b, (seqc s <= seqc s')%N -> SDeep d s b -> SDeep d s' b.
Proof. intros d s s' b Hle [f H]. exists f. eapply SDeepF_seqc_mono; eauto. Qed.

(* a uniform fuel for a list of buckets *)
Lemma Forall_SDeep_fuel : forall d s (A : bytes * bucket -> Prop) subs,
  Forall (fun x => A x /\ SDeep d s (snd x)) subs ->
  exists f, Forall (fun x => A x /\ SDeepF f d s (snd x)) subs.
Proof.
  intros d s A subs H. induction H as [|x subs [Hx [fx Hfx]] _ [f IH]]; [exists 0; constructor|].
  exists (Nat.max fx f). constructor.
  - split; [exact Hx|]. eapply SDeepF_mono; [exact Hfx | lia].
  - eapply Forall_impl; [|exact IH]. cbn beta. intros y [Hy Hfy]. split; [exact Hy|].
    eapply SDeepF_mono; [exact Hfy | lia].
Qed.

(* [SDeep] behaves like the inductive definition one would write *)
Lemma SDeep_intro : forall d s b h l, BLoc d s b h l -> SubsOk (SDeep d s) d (b_subs b) l -> SDeep d s b.
Proof.
  intros d s b h l HL (H1 & H2 & H3). destruct (Forall_SDeep_fuel d s _ _ H2) as [f Hf].
  exists (S f). cbn [SDeepF]. exists h, l. split; [exact HL|]. split; [exact H1|]. split; [exact Hf | exact H3].
Qed.

Lemma SDeep_inv : forall d s b, SDeep d s b -> exists h l, BLoc d s b h l /\ SubsOk (SDeep d s) d (b_subs b) l.
Proof.
  intros d s b [[|f] H]; [destruct H|]. cbn [SDeepF] in H. destruct H as (h & l & HL & HS).
  exists h, l. split; [exact HL|]. eapply SubsOk_impl; [|exact HS]. intros x _ Hx. exists f. exact Hx.
Qed.

Lemma BLoc_wf : forall d s b h l, BLoc d s b h l -> bucket_wf d b.
Proof. intros d s b h l (_ & HB & _). eapply BInv_wf; eauto. Qed.

Lemma BLoc_sorted : forall d s b h l, BLoc d s b h l -> sorted_keys (map lkey l) = true.
Proof. intros d s b h l HL. pose proof HL as (_ & _ & _ & _ & HV). eapply bucket_view_sorted; [eapply BLoc_wf|]; eauto. Qed.

Lemma BLoc_lookup : forall d s b h l k, BLoc d s b h l -> b_lookup d b k = Ok (Spec.alookup k (assoc l)).
Proof.
  intros d s b h l k HL. pose proof HL as (Hh & _ & _ & _ & HV). eapply b_lookup_view; [eapply BLoc_wf| |]; eauto.
Qed.

(* the tree fields decide [BLoc] *)
Lemma BLoc_tree : forall d s b b' h l, b_root_page b' = b_root_page b -> b_rootn b' = b_rootn b ->
  BLoc d s b h l -> BLoc d s b' h l.
Proof.
  intros d s b b' h l E1 E2 (A & B & C & D & E). unfold BLoc, BInv, BExact, BLK, BucketView in *.
  rewrite E1, E2. auto.
Qed.

(** ** 2c. [b_modify] and the bookkeeping of the opened sub-buckets *)

Lemma b_modify_BLoc : forall d s b h l o b' s', BLoc d s b h l -> b_modify d b o s = Ok (b', s') ->
  BLoc d s' b' h (apply_lop o l) /\ assoc (apply_lop o l) = aop o (assoc l) /\
  b_root_page b' = b_root_page b /\ b_next b' = b_next b /\ b_subs b' = b_subs b /\ b_dirty b' = true /\
  same_but_seqc s s'.
Proof.
  intros d s b h l o b' s' HL H. pose proof (BLoc_wf _ _ _ _ _ HL) as Hw.
  destruct HL as (Hh & HB & HX & HK & HV).
  destruct (b_modify_view d h b l o s Hw HV Hh) as (b2 & s2 & Hm & _ & Hv' & Ha & _ & Hr & Hn & Hsb & Hd & Hss).
  rewrite H in Hm. inversion Hm; subst b2 s2.
  destruct (b_modify_BInv h d s b o b' s' HB HX H) as (HB' & HX' & _).
  pose proof (b_modify_BLK d b o s b' s' HK H) as HK'.
  unfold BLoc. auto 12.
Qed.

Lemma sub_find_put_None : forall name sb subs k, sub_find k (sub_put name sb subs) = None ->
  k <> name /\ sub_find k subs = None.
Proof.
  intros name sb subs k H. assert (Hk : k <> name).
  { intros ->. rewrite sub_find_put_same in H. discriminate. }
  split; [exact Hk|]. now rewrite sub_find_put_other in H.
Qed.

(* (re)placing the bucket opened under an entry that names a bucket *)
Lemma SubsOk_sub_put : forall (Q : bucket -> Prop) d subs l name sb,
  SubsOk Q d subs l -> (exists r nx, Spec.alookup name (assoc l) = Some (LBk name r nx)) -> Q sb ->
  SubsOk Q d (sub_put name sb subs) l.
Proof.
  intros Q d subs l name sb (H1 & H2 & H3) Hal Hq. split; [now apply sub_put_NoDup|]. split.
  - apply sub_put_Forall; [exact H2|]. cbn [fst snd]. auto.
  - intros k k' r nx Hk Hs. apply sub_find_put_None in Hs. destruct Hs as [_ Hs]. eauto.
Qed.

(* a new bucket entry together with its opened bucket *)
Lemma SubsOk_create : forall (Q : bucket -> Prop) d subs l l' name r nx sb,
  SubsOk Q d subs l -> assoc l' = Spec.ainsert name (LBk name r nx) (assoc l) ->
  sub_find name subs = None -> Q sb -> SubsOk Q d (sub_put name sb subs) l'.
Proof.
  intros Q d subs l l' name r nx sb (H1 & H2 & H3) Ha Hsf Hq. split; [now apply sub_put_NoDup|]. split.
  - apply sub_put_Forall.
    + rewrite Forall_forall in *. intros x Hx. destruct (H2 x Hx) as [(r0 & nx0 & Hal) Hqx]. split; [|exact Hqx].
      exists r0, nx0. rewrite Ha, alookup_ainsert. rewrite beq_false_ne; [exact Hal|]. eapply sub_find_None_In; eauto.
    + cbn [fst snd]. split; [|exact Hq]. exists r, nx. rewrite Ha, alookup_ainsert. now rewrite beq_refl.
  - intros k k' r0 nx0 Hk Hs. apply sub_find_put_None in Hs. destruct Hs as [Hne Hs].
    rewrite Ha, alookup_ainsert, (beq_false_ne _ _ Hne) in Hk. eauto.
Qed.

(* a plain value stored under a key that does not name a bucket *)
Lemma SubsOk_put_kv : forall (Q : bucket -> Prop) d subs l l' k v,
  SubsOk Q d subs l -> assoc l' = Spec.ainsert k (LKv k v) (assoc l) ->
  (forall k0 r nx, Spec.alookup k (assoc l) <> Some (LBk k0 r nx)) -> SubsOk Q d subs l'.
Proof.
  intros Q d subs l l' k v (H1 & H2 & H3) Ha Hnb. split; [exact H1|]. split.
  - rewrite Forall_forall in *. intros x Hx. destruct (H2 x Hx) as [(r0 & nx0 & Hal) Hqx]. split; [|exact Hqx].
    exists r0, nx0. rewrite Ha, alookup_ainsert. destruct (beq (fst x) k) eqn:E; [|exact Hal].
    apply beq_true in E. rewrite E in Hal. now apply Hnb in Hal.
  - intros k0 k' r0 nx0 Hk Hs. rewrite Ha, alookup_ainsert in Hk. destruct (beq k0 k); [discriminate | eauto].
Qed.

(* an entry removed: [subs'] is [subs] without the bucket opened under the removed key, if any *)
Lemma SubsOk_remove : forall (Q : bucket -> Prop) d subs subs' l l' k,
  SubsOk Q d subs l -> sorted_keys (map lkey l) = true -> assoc l' = Spec.aremove k (assoc l) ->
  NoDup (map fst subs') -> (forall x, In x subs' -> In x subs /\ fst x <> k) ->
  (forall k0, k0 <> k -> sub_find k0 subs' = sub_find k0 subs) -> SubsOk Q d subs' l'.
Proof.
  intros Q d subs subs' l l' k (H1 & H2 & H3) Hs Ha Hnd Hin Hother. split; [exact Hnd|]. split.
  - rewrite Forall_forall in *. intros x Hx. destruct (Hin x Hx) as [Hx' Hne].
    destruct (H2 x Hx') as [(r0 & nx0 & Hal) Hqx]. split; [|exact Hqx].
    exists r0, nx0. rewrite Ha, alookup_aremove by now rewrite assoc_keys. now rewrite (beq_false_ne _ _ Hne).
  - intros k0 k' r0 nx0 Hk Hsf. rewrite Ha, alookup_aremove in Hk by now rewrite assoc_keys.
    destruct (beq k0 k) eqn:E; [discriminate|]. apply (H3 k0 k' r0 nx0 Hk). rewrite <- Hother; [exact Hsf|].
    intros ->. rewrite beq_refl in E. discriminate.
Qed.

(** ** 2d. The final operations preserve [SDeep] *)

(* the contract of an operation applied at the end of a path *)
Definition sd_pres (d : disk) (f : bucket -> txs -> res (bucket * txs)) : Prop :=
  forall b s b' s', SDeep d s b -> f b s = Ok (b', s') -> SDeep d s' b' /\ (seqc s <= seqc s')%N.

Lemma soft_ok_inv : forall {A} (dflt : A) r x, soft dflt r = Ok x -> r = Ok x \/ (x = dflt /\ exists e, r = Err e).
Proof. intros A dflt [a|m|e] x H; cbn [soft] in H; [now left | discriminate | inversion H; right; eauto]. Qed.

Lemma SubsOk_seqc : forall d s s' subs l, (seqc s <= seqc s')%N ->
  SubsOk (SDeep d s) d subs l -> SubsOk (SDeep d s') d subs l.
Proof. intros d s s' subs l Hle. apply SubsOk_impl. intros x _. now apply SDeep_seqc_mono. Qed.

Lemma sbs_le : forall s s', same_but_seqc s s' -> (seqc s <= seqc s')%N.
Proof. intros s s' (_ & _ & _ & _ & _ & _ & _ & H). exact H. Qed.

Theorem put_pres : forall d k v, sd_pres d (fun b s => soft (b, s) (b_put d b k v s)).
Proof.
  intros d k v b s b' s' HD H. cbn beta in H. destruct (SDeep_inv _ _ _ HD) as (h & l & HL & HS).
  apply soft_ok_inv in H. destruct H as [H | [E _]]; [|inversion E; subst; split; [exact HD | lia]].
  unfold b_put in H. rewrite (BLoc_lookup _ _ _ _ _ k HL) in H. cbn [bind] in H.
  destruct (Spec.alookup k (assoc l)) as [[k0 v0|k0 r nx]|] eqn:Hal; cbn [is_kv] in H; try discriminate.
  - destruct (b_modify_BLoc _ _ _ _ _ _ _ _ HL H) as (HL' & Ha & Hr & Hn & Hsb & Hd & Hss).
    pose proof (sbs_le _ _ Hss) as Hle. split; [|exact Hle]. cbn [aop lkey] in Ha.
    apply (SDeep_intro d s' b' h _ HL'). rewrite Hsb.
    eapply SubsOk_put_kv; [eapply SubsOk_seqc; eauto | exact Ha |]. intros ? ? ?. rewrite Hal. discriminate.
  - apply bind_ok_inv in H. destruct H as ([b2 s2] & Hm & H). inversion H; subst b' s'. clear H.
    destruct (b_modify_BLoc _ _ _ _ _ _ _ _ HL Hm) as (HL' & Ha & Hr & Hn & Hsb & Hd & Hss).
    pose proof (sbs_le _ _ Hss) as Hle. split; [|exact Hle]. cbn [aop lkey] in Ha.
    eapply (SDeep_intro d s2 _ h _); [eapply (BLoc_tree d s2 b2); [reflexivity | reflexivity | exact HL']|].
    cbn [b_subs]. rewrite Hsb.
    eapply SubsOk_put_kv; [eapply SubsOk_seqc; eauto | exact Ha |]. intros ? ? ?. rewrite Hal. discriminate.
Qed.

Lemma SubsOk_same_subs_remove : forall (Q : bucket -> Prop) d subs l l' k k0 v0,
  SubsOk Q d subs l -> sorted_keys (map lkey l) = true -> assoc l' = Spec.aremove k (assoc l) ->
  Spec.alookup k (assoc l) = Some (LKv k0 v0) -> SubsOk Q d subs l'.
Proof.
  intros Q d subs l l' k k0 v0 HS Hs Ha Hal. pose proof HS as (H1 & H2 & _).
  eapply SubsOk_remove; eauto. intros x Hx. split; [exact Hx|]. intros E. rewrite Forall_forall in H2.
  destruct (H2 x Hx) as [(r & nx & Hr) _]. rewrite E, Hal in Hr. discriminate.
Qed.

Theorem del_pres : forall d k, sd_pres d (fun b s => soft (b, s) (b_delete d b k s)).
Proof.
  intros d k b s b' s' HD H. cbn beta in H. destruct (SDeep_inv _ _ _ HD) as (h & l & HL & HS).
  apply soft_ok_inv in H. destruct H as [H | [E _]]; [|inversion E; subst; split; [exact HD | lia]].
  unfold b_delete in H. rewrite (BLoc_lookup _ _ _ _ _ k HL) in H. cbn [bind] in H.
  destruct (Spec.alookup k (assoc l)) as [[k0 v0|k0 r nx]|] eqn:Hal; cbn [is_kv] in H; try discriminate.
  destruct (b_modify_BLoc _ _ _ _ _ _ _ _ HL H) as (HL' & Ha & Hr & Hn & Hsb & Hd & Hss).
  pose proof (sbs_le _ _ Hss) as Hle. split; [|exact Hle]. cbn [aop] in Ha.
  apply (SDeep_intro d s' b' h _ HL'). rewrite Hsb.
  eapply SubsOk_same_subs_remove; [eapply SubsOk_seqc; eauto | eapply BLoc_sorted; eauto | exact Ha | exact Hal].
Qed.

Theorem touch_pres : forall d, sd_pres d (fun b s => Ok (b, s)).
Proof. intros d b s b' s' HD H. inversion H; subst. split; [exact HD | lia]. Qed.

(** ** 2e. Opening and creating buckets *)

Lemma open_strict : forall n d s r nx, sbk n d r -> SDeep d s (Bucket r nx false None []).
Proof.
  intros [|n] d s r nx H; [destruct H|]. cbn [sbk] in H. destruct H as (h & l & Hh & HP & Hnd & HV & HF).
  apply (SDeep_intro d s _ h l).
  - unfold BLoc, BInv, BExact, BLK, BucketView. cbn [b_rootn b_root_page]. auto 8.
  - cbn [b_subs]. split; [constructor|]. split; [constructor|].
    intros k k' r0 nx0 Hk _. apply alookup_assoc_key in Hk. destruct Hk as [_ Hin].
    rewrite Forall_forall in HF. specialize (HF _ Hin). cbn beta iota in HF. eauto.
Qed.

Lemma new_bucket_SDeep : forall d s sq, (sq < seqc s)%N ->
  SDeep d s (Bucket 0 0 true (Some (Node 0 0 None sq (Leaves []) [])) []).
Proof.
  intros d s sq Hlt. apply (SDeep_intro d s _ 1 []).
  - unfold BLoc, BInv, RInv, BExact, BLK, BucketView. cbn [b_rootn b_root_page].
    split; [unfold fuel0; lia|]. split.
    + split; [rewrite Inv_leaf_eq; split; [reflexivity | constructor]|]. split; [constructor|].
      cbn [seqs flat_map]. split; repeat constructor; [intros [] | exact Hlt].
    + split; [exact I|]. split; [|apply NV_leaf]. apply LKd_eq. cbn [n_kids]. split; [reflexivity | constructor].
  - cbn [b_subs]. split; [constructor|]. split; [constructor|]. intros k k' r nx Hk. discriminate.
Qed.

(* opening the stored bucket [name] *)
Lemma open_sub_SDeep : forall d s b h l name k r nx,
  BLoc d s b h l -> SubsOk (SDeep d s) d (b_subs b) l -> sub_find name (b_subs b) = None ->
  Spec.alookup name (assoc l) = Some (LBk k r nx) ->
  SDeep d s (Bucket (b_root_page b) (b_next b) (b_dirty b) (b_rootn b)
               (sub_put name (Bucket r nx false None []) (b_subs b))).
Proof.
  intros d s b h l name k r nx HL HS Hsf Hal.
  destruct (alookup_assoc_key _ _ _ Hal) as [Ek _]. cbn [lkey] in Ek. subst k.
  pose proof HS as (_ & _ & H3). destruct (H3 _ _ _ _ Hal Hsf) as [n Hn].
  eapply (SDeep_intro d s _ h l); [eapply (BLoc_tree d s b); [reflexivity | reflexivity | exact HL]|].
  cbn [b_subs]. apply SubsOk_sub_put; [exact HS | eauto | eapply open_strict; eauto].
Qed.

Theorem b_get_or_create_pres : forall d name b s b' s', SDeep d s b -> b_get_or_create d b name s = Ok (b', s') ->
  SDeep d s' b' /\ (seqc s <= seqc s')%N.
Proof.
  intros d name b s b' s' HD H. destruct (SDeep_inv _ _ _ HD) as (h & l & HL & HS).
  rewrite b_get_or_create_unfold in H. destruct (sub_find name (b_subs b)) as [sb|] eqn:Hsf.
  { inversion H; subst. split; [exact HD | lia]. }
  rewrite (BLoc_lookup _ _ _ _ _ name HL) in H. cbn [bind] in H.
  destruct (Spec.alookup name (assoc l)) as [[k0 v0|k0 r nx]|] eqn:Hal; try discriminate.
  - inversion H; subst b' s'. split; [|lia]. eapply open_sub_SDeep; eauto.
  - apply bind_ok_inv in H. destruct H as ([b2 s2] & Hm & H). cbn [fst snd] in H. inversion H; subst b' s'. clear H.
    assert (Hle1 : (seqc s <= seqc (snd (next_seq s)))%N) by (cbn; lia).
    assert (Hlt1 : (seqc s < seqc (snd (next_seq s)))%N) by (cbn; lia).
    pose proof (BLoc_seqc_mono _ _ _ _ _ _ Hle1 HL) as HL1.
    destruct (b_modify_BLoc _ _ _ _ _ _ _ _ HL1 Hm) as (HL' & Ha & Hr & Hn & Hsb & Hd & Hss).
    pose proof (sbs_le _ _ Hss) as Hle. split; [|lia]. cbn [aop lkey] in Ha.
    eapply (SDeep_intro d s2 _ h _); [eapply (BLoc_tree d s2 b2); [reflexivity | reflexivity | exact HL']|].
    cbn [b_subs]. rewrite Hsb.
    eapply SubsOk_create; [eapply SubsOk_seqc; [|exact HS]; lia | exact Ha | exact Hsf |].
    apply new_bucket_SDeep. lia.
Qed.

(* an opened sub-bucket of an [SDeep] bucket is [SDeep] *)
Lemma SDeep_sub : forall d s b name sb, SDeep d s b -> sub_find name (b_subs b) = Some sb -> SDeep d s sb.
Proof.
  intros d s b name sb HD Hsf. destruct (SDeep_inv _ _ _ HD) as (h & l & _ & (_ & H2 & _)).
  rewrite Forall_forall in H2. exact (proj2 (H2 _ (sub_find_In _ _ _ Hsf))).
Qed.

(* storing the modified sub-bucket back into its parent *)
Lemma put_back_SDeep : forall d s s' b name sb sb', SDeep d s b -> sub_find name (b_subs b) = Some sb ->
  (seqc s <= seqc s')%N -> SDeep d s' sb' ->
  SDeep d s' (Bucket (b_root_page b) (b_next b) (b_dirty b) (b_rootn b) (sub_put name sb' (b_subs b))).
Proof.
  intros d s s' b name sb sb' HD Hsf Hle HD'. destruct (SDeep_inv _ _ _ HD) as (h & l & HL & HS).
  pose proof HS as (_ & H2 & _). rewrite Forall_forall in H2.
  destruct (H2 _ (sub_find_In _ _ _ Hsf)) as [Hal _]. cbn [fst] in Hal.
  eapply (SDeep_intro d s' _ h l).
  - eapply (BLoc_tree d s' b); [reflexivity | reflexivity |]. eapply BLoc_seqc_mono; eauto.
  - cbn [b_subs]. apply SubsOk_sub_put; [eapply SubsOk_seqc; eauto | exact Hal | exact HD'].
Qed.

(** ** 2f. [at_path] and [b_delete_bucket] *)

Theorem at_path_pres : forall d f, sd_pres d f -> forall path fuel b s b' s', SDeep d s b ->
  at_path fuel d b path f s = Ok (b', s') -> SDeep d s' b' /\ (seqc s <= seqc s')%N.
Proof.
  intros d f Hf. induction path as [|nm rest IH]; intros fuel b s b' s' HD H;
    (destruct fuel as [|fu]; [discriminate|]); cbn [at_path] in H.
  - eapply Hf; eauto.
  - apply bind_ok_inv in H. destruct H as ([b1 s1] & Hg & H).
    destruct (b_get_or_create_pres d nm b s b1 s1 HD Hg) as [HD1 Hle1].
    destruct (sub_find nm (b_subs b1)) as [sb|] eqn:Hsf; [|discriminate].
    apply bind_ok_inv in H. destruct H as ([sb' s2] & Hat & H). inversion H; subst b' s'. clear H.
    destruct (IH fu sb s1 sb' s2 (SDeep_sub _ _ _ _ _ HD1 Hsf) Hat) as [HD2 Hle2].
    split; [|lia]. eapply put_back_SDeep; eauto.
Qed.

Lemma delb_phase2_pres : forall d b0 name sb s0 b' s', SDeep d s0 b0 -> sub_find name (b_subs b0) = Some sb ->
  delb_phase2 d b0 name s0 = Ok (b', s') -> SDeep d s' b' /\ (seqc s0 <= seqc s')%N.
Proof.
  intros d b0 name sb s0 b' s' HD Hsf H. destruct (SDeep_inv _ _ _ HD) as (h & l & HL & HS).
  pose proof HS as (Hnd & H2 & _).
  destruct (take_sub_spec name (b_subs b0) sb Hnd Hsf) as (rest & Ht & Hnone & Hother & Hnd' & Hin).
  rewrite Forall_forall in H2. destruct (H2 _ (sub_find_In _ _ _ Hsf)) as [(r & nx & Hal) _]. cbn [fst] in Hal.
  unfold delb_phase2 in H. rewrite Ht in H.
  apply bind_ok_inv in H. destruct H as (s1 & Hft & H).
  assert (Hle1 : (seqc s0 <= seqc s1)%N).
  { destruct (b_root_page sb =? 0)%N; [inversion Hft; lia|].
    apply free_tree_frees in Hft. destruct Hft as (_ & _ & _ & _ & _ & _ & Hle & _). exact Hle. }
  set (b1 := Bucket (b_root_page b0) (b_next b0) (b_dirty b0) (b_rootn b0) rest) in *.
  assert (HL1 : BLoc d s1 b1 h l).
  { eapply (BLoc_tree d s1 b0); [reflexivity | reflexivity |]. eapply BLoc_seqc_mono; eauto. }
  rewrite (BLoc_lookup _ _ _ _ _ name HL1), Hal in H. cbn [bind is_kv] in H.
  destruct (b_modify_BLoc _ _ _ _ _ _ _ _ HL1 H) as (HL' & Ha & Hr & Hn & Hsb & Hd & Hss).
  pose proof (sbs_le _ _ Hss) as Hle. split; [|lia]. cbn [aop] in Ha. cbn [b1 b_subs] in Hsb.
  apply (SDeep_intro d s' b' h _ HL'). rewrite Hsb.
  eapply SubsOk_remove; [eapply SubsOk_seqc; [|exact HS]; lia | eapply BLoc_sorted; eauto | exact Ha | exact Hnd' | | exact Hother].
  intros x Hx. split; [now apply Hin | eapply sub_find_None_In; eauto].
Qed.

Theorem delb_pres : forall d nm, sd_pres d (fun b s => soft (b, s) (b_delete_bucket d b nm s)).
Proof.
  intros d nm b s b' s' HD H. cbn beta in H.
  apply soft_ok_inv in H. destruct H as [H | [E _]]; [|inversion E; subst; split; [exact HD | lia]].
  rewrite b_delete_bucket_unfold in H. apply bind_ok_inv in H. destruct H as ([b0 s0] & Hopen & H). cbn [fst snd] in H.
  assert (Hb0 : SDeep d s b0 /\ s0 = s /\ exists sb, sub_find nm (b_subs b0) = Some sb).
  { destruct (sub_find nm (b_subs b)) as [sb|] eqn:Hsf.
    - inversion Hopen; subst. eauto.
    - destruct (SDeep_inv _ _ _ HD) as (h & l & HL & HS).
      rewrite (BLoc_lookup _ _ _ _ _ nm HL) in Hopen. cbn [bind] in Hopen.
      destruct (Spec.alookup nm (assoc l)) as [[k0 v0|k0 r nx]|] eqn:Hal; try discriminate.
      inversion Hopen; subst b0 s0. split; [eapply open_sub_SDeep; eauto|]. split; [reflexivity|].
      cbn [b_subs]. rewrite sub_find_put_same. eauto. }
  destruct Hb0 as (HD0 & -> & sb & Hsf). eapply delb_phase2_pres; eauto.
Qed.

(** ** 2g. The steps of a transaction *)

Theorem tx_step_SDeep : forall d o rb s rb' s', SDeep d s rb -> tx_step d (rb, s) o = Ok (rb', s') ->
  SDeep d s' rb' /\ (seqc s <= seqc s')%N.
Proof.
  intros d o rb s rb' s' HD H. unfold tx_step in H.
  destruct o as [p k v|p k|p nm|p]; apply soft_ok_inv in H;
    (destruct H as [H | [E _]]; [|inversion E; subst; split; [exact HD | lia]]).
  - eapply (at_path_pres d _ (put_pres d k v)); eauto.
  - eapply (at_path_pres d _ (del_pres d k)); eauto.
  - eapply (at_path_pres d _ (delb_pres d nm)); eauto.
  - eapply (at_path_pres d _ (touch_pres d)); eauto.
Qed.

Theorem tx_fold_SDeep : forall st ops rb s root' s', SDeep (d_disk st) s rb ->
  tx_fold st ops (rb, s) = Ok (root', s') -> SDeep (d_disk st) s' root' /\ (seqc s <= seqc s')%N.
Proof.
  intros st. induction ops as [|o ops IH]; intros rb s root' s' HD H; unfold tx_fold in H; cbn [fold_res] in H.
  - inversion H; subst. split; [exact HD | lia].
  - apply bind_ok_inv in H. destruct H as ([rb1 s1] & Hst & H).
    destruct (tx_step_SDeep _ _ _ _ _ _ HD Hst) as [HD1 Hle1].
    destruct (IH rb1 s1 root' s' HD1 H) as [HD' Hle']. split; [exact HD' | lia].
Qed.

Theorem root_bucket_SDeep : forall st s, db_strict st -> SDeep (d_disk st) s (root_bucket st).
Proof. intros st s H. unfold root_bucket. eapply open_strict. exact H. Qed.

(* the statement asked for; the side condition on the operations is not needed for this part (when the fold
   returns Ok, every step did what it did), so the theorem is stated without it and the form with [op_ok]
   follows *)
Theorem tx_ops_SDeep' : forall st ops root' s', db_strict st ->
  tx_fold st ops (root_bucket st, begin_w st) = Ok (root', s') -> SDeep (d_disk st) s' root'.
Proof. intros st ops root' s' Hdb H. eapply tx_fold_SDeep; [apply root_bucket_SDeep; exact Hdb | exact H]. Qed.

Theorem tx_ops_SDeep : forall st ops root' s', db_strict st -> Forall (op_ok (d_disk st)) ops ->
  tx_fold st ops (root_bucket st, begin_w st) = Ok (root', s') -> SDeep (d_disk st) s' root'.
Proof. intros st ops root' s' Hdb _. now apply tx_ops_SDeep'. Qed.

(* ====================================================================== *)
(** * 3. From [SDeep] to (R)'s [Deep]; rebalance *)

Lemma SDeepF_Deep : forall f d s b, SDeepF f d s b -> exists v, Deep f d s b v.
Proof.
  induction f as [|f IH]; intros d s b H; [destruct H|]. cbn [SDeepF] in H.
  destruct H as (h & l & (Hh & HB & _ & _ & HV) & (_ & H2 & _)).
  assert (Hvs : exists vs, Forall2 (fun x y => fst x = fst y /\ Deep f d s (snd x) (snd y)) (b_subs b) vs).
  { induction H2 as [|x subs [_ Hx] _ [vs Hvs]]; [exists []; constructor|].
    destruct (IH _ _ _ Hx) as [v Hv]. exists ((fst x, v) :: vs). constructor; [split; [reflexivity | exact Hv] | exact Hvs]. }
  destruct Hvs as [vs Hvs]. exists (BV l vs). cbn [Deep]. split; [exists h; auto | exact Hvs].
Qed.

(* the [bview] is built from the buckets' view lists *)
Theorem SDeep_Deep : forall d s b, SDeep d s b -> exists fv v, Deep fv d s b v.
Proof. intros d s b [f H]. exists f. now apply SDeepF_Deep. Qed.

(* so [rebalance_view] applies to what a transaction's operations leave; afterwards every bucket still satisfies
   [BGood] = [BInv] + [BucketView] over the SAME view lists *)
Theorem rebalance_SDeep : forall f d s b b' s', SDeep d s b -> rebalance f d b s = Ok (b', s') ->
  exists fv v, Deep fv d s b v /\ Deep fv d s' b' v /\ tx_frame s s' /\ b_next b' = b_next b.
Proof.
  intros f d s b b' s' HD H. destruct (SDeep_Deep _ _ _ HD) as (fv & v & Hv).
  destruct (rebalance_view f fv d s b v b' s' Hv H) as (H1 & H2 & H3). exists fv, v. auto.
Qed.

Lemma Deep_BGood : forall fv d s b l vs, Deep fv d s b (BV l vs) -> BGood d s b l.
Proof. intros [|fv] d s b l vs H; [destruct H|]. cbn [Deep] in H. apply H. Qed.

Theorem tx_rebalance_view : forall st ops root' s' b1 s1, db_strict st ->
  tx_fold st ops (root_bucket st, begin_w st) = Ok (root', s') ->
  rebalance fuel0 (d_disk st) root' s' = Ok (b1, s1) ->
  exists fv l vs, Deep fv (d_disk st) s' root' (BV l vs) /\ Deep fv (d_disk st) s1 b1 (BV l vs) /\
    BGood (d_disk st) s1 b1 l /\ tx_frame s' s1 /\ b_next b1 = b_next root'.
Proof.
  intros st ops root' s' b1 s1 Hdb Hf Hr. pose proof (tx_ops_SDeep' st ops root' s' Hdb Hf) as HD.
  destruct (rebalance_SDeep _ _ _ _ _ _ HD Hr) as (fv & [l vs] & A & B & C & D).
  exists fv, l, vs. split; [exact A|]. split; [exact B|]. split; [eapply Deep_BGood; eauto | auto].
Qed.

(* ====================================================================== *)
(** * 4. After rebalance: spill readiness *)

Notation s_in_range := EngineSpillFacts.in_range.
Notation spill_ready := EngineBridgeFacts.spill_ready.
Notation root_ready := EngineBridgeFacts.root_ready.
Notation in_subtree := EngineBridgeFacts.in_subtree.

(** ** 4a. The shape spill needs, and [Inv] + shape => [spill_ready] *)

(* every node at or below [n] holds at least one entry *)
Fixpoint NEd (n : node) : Prop :=
  match n with
  | Node _ _ _ _ dd ks =>
      (0 < dlen dd)%N /\
      (fix go (l : list node) : Prop := match l with [] => True | k :: l' => NEd k /\ go l' end) ks
  end.

Lemma NEd_eq : forall n, NEd n <-> ((0 < dlen (n_data n))%N /\ Forall NEd (n_kids n)).
Proof.
  intros [p np o s dd ks]. cbn [NEd n_data n_kids].
  assert (G : (fix go (l : list node) : Prop := match l with [] => True | k :: l' => NEd k /\ go l' end) ks
              <-> Forall NEd ks).
  { induction ks as [|k ks IH]; [split; [constructor | exact (fun _ => I)]|]. split.
    - intros [H1 H2]. constructor; [exact H1 | now apply IH].
    - intros H. inversion H; subst. split; [assumption | now apply IH]. }
  tauto.
Qed.

(* the pages below a strict page are the ones [ppages] lists *)
Lemma PInv_subtree : forall h d lo hi ok q x, PInv h d lo hi ok q -> in_subtree d q x ->
  x = q \/ In x (ppages h d q).
Proof.
  induction h as [|h IH]; intros d lo hi ok q x HP Hx; [destruct HP|].
  inversion Hx as [|? a es e ? Hg Hb He Hsub]; subst; [now left|]. right.
  cbn [PInv] in HP. destruct HP as (a' & Hg' & _ & HB). rewrite Hg in Hg'. inversion Hg'; subst a'.
  rewrite Hb in HB. destruct HB as (_ & _ & _ & _ & HC).
  cbn [ppages]. rewrite Hg, Hb. destruct (In_nth_error _ _ He) as [j Hj].
  destruct (Forall2_nth_error_l _ _ _ _ _ HC Hj) as (b & _ & HPe).
  apply in_or_app. destruct (IH _ _ _ _ _ x HPe Hsub) as [-> | Hin].
  - left. now apply in_map.
  - right. apply in_flat_map. eauto.
Qed.

Lemma cbounds_nth_chb : forall lo hi (es : list (bytes * N)) j e b,
  Forall (inb lo hi) (map fst es) -> nth_error es j = Some e ->
  nth_error (cbounds lo (map fst es) hi) j = Some b ->
  lo_le (match j with O => lo | S _ => Some (fst e) end) (fst b) /\
  snd b = match nth_error es (S j) with Some e' => Some (fst e') | None => hi end.
Proof.
  intros lo hi es j e b Hinb Hj Hb. unfold cbounds in Hb. destruct (cbs_nth _ _ _ _ _ Hb) as [B1 B2].
  pose proof (nth_error_nth_map fst _ _ _ Hj) as En. split.
  - destruct j as [|j].
    + rewrite (cbs_nth_first _ _ _ _ Hb), En. apply lo0_inside.
      rewrite Forall_forall in Hinb. apply (Hinb (fst e)). apply in_map. eapply nth_error_In; eauto.
    + rewrite B1 by lia. rewrite En. cbn [lo_le]. apply bcmp_le_refl.
  - destruct (nth_error es (S j)) as [e'|] eqn:E'.
    + rewrite B2; [now rewrite (nth_error_nth_map fst _ _ _ E')|]. rewrite map_length. apply nth_error_Some. congruence.
    + apply (cbs_nth_last _ _ _ _ _ Hb). rewrite map_length. apply nth_error_None in E'.
      assert (j < length es) by (apply nth_error_Some; congruence). lia.
Qed.

Theorem Inv_spill_ready : forall h d keep lo hi n, Inv h d false lo hi n -> NEd n -> LKd n ->
  incl (npages h d n) keep -> spill_ready d keep lo hi n.
Proof.
  induction h as [|h IH]; intros d keep lo hi n HI HN HL Hk; [destruct HI|].
  apply NEd_eq in HN. apply LKd_eq in HL. destruct n as [p np o s [l|es] ks]; cbn [n_data n_kids] in HN, HL.
  - destruct HN as [Hpos _]. destruct HL as [Hks _]. rewrite (Hks eq_refl). apply EngineBridgeFacts.sr_leaf.
    intros ->. cbn in Hpos. lia.
  - rewrite Inv_branch_eq in HI. destruct HI as (Hne & Hs & Hnd & Hinb & [Lnd LF] & HC).
    destruct HN as [_ HNk]. destruct HL as [_ HLk]. rewrite npages_branch_eq in Hk.
    apply EngineBridgeFacts.sr_branch.
    + now apply Hne.
    + intros k Hin. rewrite Forall_forall in Hinb. exact (Hinb k Hin).
    + exact Lnd.
    + intros kd Hkd. rewrite Forall_forall in LF. destruct (LF kd Hkd) as (key & Hin & Ho). eauto.
    + intros l0 h1 e kd Hchb Hfk. destruct (EngineBridgeFacts.chb_nth _ _ _ _ _ _ Hchb) as (j & Hj & -> & ->).
      destruct (Forall2_nth_error_l _ _ _ _ _ HC Hj) as (b & Hb & Cb). unfold CInv in Cb. rewrite Hfk in Cb.
      destruct (cbounds_nth_chb lo hi es j e b Hinb Hj Hb) as [Hlo Hhi].
      destruct (find_kid_In _ _ _ Hfk) as [Hkin _].
      apply (IH d keep _ _ kd).
      * rewrite <- Hhi. eapply Inv_weaken; [exact Hlo | apply hi_le_refl | exact Cb].
      * rewrite Forall_forall in HNk. now apply HNk.
      * rewrite Forall_forall in HLk. now apply HLk.
      * intros x Hx. apply Hk. apply in_or_app. right. apply in_flat_map. exists e.
        split; [eapply nth_error_In; eauto|]. unfold cpages. now rewrite Hfk.
    + intros e x He Hfk Hsub. destruct (In_nth_error _ _ He) as [j Hj].
      destruct (Forall2_nth_error_l _ _ _ _ _ HC Hj) as (b & Hb & Cb). unfold CInv in Cb. rewrite Hfk in Cb.
      apply Hk. apply in_or_app. destruct (PInv_subtree _ _ _ _ _ _ x Cb Hsub) as [-> | Hin].
      * left. now apply in_map.
      * right. apply in_flat_map. exists e. split; [exact He|]. unfold cpages. now rewrite Hfk.
Qed.

(** ** 4b. What [try_merge] does to the kid list *)

Inductive tm_case (par k par' : node) : Prop :=
| tm_keep : (0 < dlen (n_data k))%N -> n_kids par' = replace_kid (n_kids par) k -> tm_case par k par'
| tm_drop : dlen (n_data k) = 0%N -> n_kids par' = filter (not_seq (n_seq k)) (n_kids par) -> tm_case par k par'
| tm_merge : forall sib md o' (isnew : bool),
    (0 < dlen (n_data k))%N -> merge_data (n_data sib) (n_data k) = Ok md ->
    (if isnew then n_kids sib = [] else In sib (n_kids par)) ->
    n_kids par' =
      (if isnew
       then filter (not_seq (n_seq k)) (n_kids par) ++
              [Node (n_page sib) (n_np sib) o' (n_seq sib) md (n_kids sib ++ n_kids k)]
       else replace_kid (filter (not_seq (n_seq k)) (n_kids par))
              (Node (n_page sib) (n_np sib) o' (n_seq sib) md (n_kids sib ++ n_kids k))) ->
    tm_case par k par'.

Lemma merged_node_eq : forall sib md kk (c : bool),
  exists o', (if c then match first_key md with Ok fk => set_orig (set_kids (set_data sib md) kk) (Some fk)
                                           | _ => set_kids (set_data sib md) kk end
              else set_kids (set_data sib md) kk) = Node (n_page sib) (n_np sib) o' (n_seq sib) md kk.
Proof.
  intros sib md kk c. destruct c; [destruct (first_key md)|]; eexists;
    first [apply set_merged_orig_eq | apply set_merged_eq].
Qed.

Lemma try_merge_kids : forall d par k s par' s', try_merge d par k s = Ok (par', s') -> tm_case par k par'.
Proof.
  intros d par k s par' s' H. unfold try_merge in H.
  destruct (negb (needs_merging s k)) eqn:En.
  { inversion H; subst. apply tm_keep; [|destruct par; reflexivity].
    unfold needs_merging in En. apply negb_true_iff, orb_false_iff in En. lia. }
  destruct (n_data par) as [l|es] eqn:Ed; [discriminate|].
  destruct ((llen es =? 1)%N && (0 <? dlen (n_data k))%N) eqn:E1.
  { inversion H; subst. apply andb_true_iff in E1. apply tm_keep; [lia | destruct par; reflexivity]. }
  destruct (n_orig k) as [ok|]; [|discriminate].
  destruct (bsearch (map fst es) ok) as [[|] idx]; [|discriminate].
  destruct (0 <? dlen (n_data k))%N eqn:Edl.
  - destruct (if (idx =? 0)%N then nthN es 1 else nthN es (idx - 1)) as [[kq q]|]; [|discriminate].
    destruct (find_kid q (n_kids par)) as [sb|] eqn:Ef.
    + cbn [bind] in H. destruct (merge_data (n_data sb) (n_data k)) as [md| |] eqn:Emd; cbn [bind] in H; try discriminate.
      destruct (merged_node_eq sb md (n_kids sb ++ n_kids k) (idx =? 0)%N) as [o' Eo]. rewrite Eo in H.
      inversion H; subst par' s'. apply (tm_merge par k _ sb md o' false); [lia | exact Emd | |].
      * eapply find_kid_In; eauto.
      * destruct par; reflexivity.
    + destruct (dget d q) as [a|]; [|discriminate]. cbn [next_seq bind] in H.
      destruct (merge_data (n_data (node_of_page q a (seqc s))) (n_data k)) as [md| |] eqn:Emd; cbn [bind] in H; try discriminate.
      destruct (merged_node_eq (node_of_page q a (seqc s)) md (n_kids (node_of_page q a (seqc s)) ++ n_kids k) (idx =? 0)%N) as [o' Eo].
      rewrite Eo in H. inversion H; subst par' s'.
      apply (tm_merge par k _ (node_of_page q a (seqc s)) md o' true); [lia | exact Emd | reflexivity |].
      destruct par; reflexivity.
  - cbn [bind] in H. inversion H; subst. apply tm_drop; [lia | destruct par; reflexivity].
Qed.

(** ** 4c. One step of [rebalance_kids] on the kid list *)

Lemma NoDup_map_inj : forall {A B} (f : A -> B) l x y, NoDup (map f l) -> In x l -> In y l -> f x = f y -> x = y.
Proof.
  intros A B f l x y Hnd Hx Hy E. destruct (In_nth_error _ _ Hx) as [i Hi]. destruct (In_nth_error _ _ Hy) as [j Hj].
  assert (i = j) by (eapply (NoDup_map_nth_error f); eauto). subst j. congruence.
Qed.

Lemma replace_kid_In_strict : forall ks k k1 x, NoDup (map n_page ks) -> In k ks -> n_page k1 = n_page k ->
  In x (replace_kid ks k1) -> x = k1 \/ (In x ks /\ x <> k).
Proof.
  intros ks k k1 x Hnd Hk Ep Hx. pose proof (find_kid_NoDup ks k Hnd Hk) as Hf.
  destruct (find_kid_split _ _ _ Hf) as (a & b & Eks & _ & Ha).
  rewrite Eks in Hx. rewrite replace_kid_hit in Hx; [|now symmetry | intros y Hy; rewrite Ep; now apply Ha].
  apply in_app_or in Hx. destruct Hx as [Hx | [<- | Hx]]; [right | now left | right].
  - split; [rewrite Eks; apply in_or_app; now left|]. intros ->. exact (Ha _ Hx eq_refl).
  - split; [rewrite Eks; apply in_or_app; right; now right|]. intros ->.
    rewrite Eks, map_app in Hnd. cbn [map] in Hnd. apply NoDup_remove_2 in Hnd. apply Hnd.
    apply in_or_app. right. now apply in_map.
Qed.

Lemma merge_data_dlen : forall a b md, merge_data a b = Ok md -> dlen md = (dlen a + dlen b)%N.
Proof.
  intros [l1|e1] [l2|e2] md H; cbn [merge_data] in H; inversion H; subst; cbn [dlen]; unfold llen;
    rewrite isort_by_length, app_length; lia.
Qed.

Lemma merge_data_leaf : forall a b md, merge_data a b = Ok md -> is_leaf md = is_leaf a /\ is_leaf md = is_leaf b.
Proof. intros [l1|e1] [l2|e2] md H; cbn [merge_data] in H; inversion H; subst; split; reflexivity. Qed.

(* the invariant of the loop over the snapshot: every kid is [LKd]; a kid whose sequence number is not among the
   ones still to be visited is non-empty, deeply *)
Definition KI (rest : list N) (ks : list node) : Prop :=
  Forall LKd ks /\ Forall (fun x => In (n_seq x) rest \/ NEd x) ks.

Lemma shape_step : forall par k1 par' k sq rest ks0,
  n_kids par = replace_kid ks0 k1 ->
  NoDup (map n_page ks0) -> NoDup (map n_seq ks0) -> In k ks0 -> n_seq k = sq ->
  n_page k1 = n_page k -> n_seq k1 = sq ->
  KI (sq :: rest) ks0 -> LKd k1 -> Forall NEd (n_kids k1) ->
  tm_case par k1 par' -> KI rest (n_kids par').
Proof.
  intros par k1 par' k sq rest ks0 Epar Hpg Hsq Hk Ek Ep1 Es1 [KL KN] HL1 HN1 Hcase.
  rewrite Forall_forall in KL, KN.
  assert (G : forall x, In x (replace_kid ks0 k1) -> x = k1 \/ (In x ks0 /\ n_seq x <> sq)).
  { intros x Hx. destruct (replace_kid_In_strict ks0 k k1 x Hpg Hk Ep1 Hx) as [-> | [Hx' Hne]]; [now left | right].
    split; [exact Hx'|]. intros E. apply Hne. apply (NoDup_map_inj n_seq ks0); auto. congruence. }
  assert (G2 : forall x, In x ks0 -> n_seq x <> sq -> LKd x /\ (In (n_seq x) rest \/ NEd x)).
  { intros x Hx Hne. split; [now apply KL|]. destruct (KN x Hx) as [[E | Hin] | Hn]; [congruence | now left | now right]. }
  assert (G3 : forall x, In x (filter (not_seq sq) (replace_kid ks0 k1)) -> LKd x /\ (In (n_seq x) rest \/ NEd x)).
  { intros x Hx. apply filter_In in Hx. destruct Hx as [Hx Hns]. unfold not_seq in Hns.
    assert (Hne : n_seq x <> sq) by lia. destruct (G x Hx) as [-> | [Hx' _]]; [congruence | now apply G2]. }
  assert (Hfin : forall P : node -> Prop, (forall x, In x (n_kids par') -> P x) -> Forall P (n_kids par'))
    by (intros P HP; now apply Forall_forall).
  assert (Hgoal : forall x, In x (n_kids par') -> LKd x /\ (In (n_seq x) rest \/ NEd x));
    [|split; apply Hfin; intros x Hx; apply (Hgoal x Hx)].
  destruct Hcase as [Hpos Ek' | Hz Ek' | sib md o' isnew Hpos Hmd Hsib Ek']; rewrite Ek', Epar; clear Ek'.
  - intros x Hx. apply replace_kid_In in Hx.
    assert (Hk1 : LKd k1 /\ (In (n_seq k1) rest \/ NEd k1)).
    { split; [exact HL1|]. right. apply NEd_eq. split; assumption. }
    destruct Hx as [-> | Hx]; [exact Hk1|]. destruct (G x Hx) as [-> | [Hx' Hne]]; [exact Hk1 | now apply G2].
  - rewrite Es1. exact G3.
  - rewrite Es1. rewrite Epar in Hsib.
    destruct (merge_data_leaf _ _ _ Hmd) as [Lf1 Lf2]. pose proof (merge_data_dlen _ _ _ Hmd) as Hdl.
    apply LKd_eq in HL1. destruct HL1 as [HL1a HL1b].
    set (sib' := Node (n_page sib) (n_np sib) o' (n_seq sib) md (n_kids sib ++ n_kids k1)).
    assert (Hsibfacts : (is_leaf (n_data sib) = true -> n_kids sib = []) /\ Forall LKd (n_kids sib) /\
                        (In (n_seq sib) rest \/ Forall NEd (n_kids sib))).
    { destruct isnew.
      - rewrite Hsib. split; [reflexivity|]. split; [constructor | right; constructor].
      - destruct (G sib Hsib) as [-> | [Hx' Hne]].
        + split; [exact HL1a|]. split; [exact HL1b | now right].
        + destruct (G2 sib Hx' Hne) as [HLs HNs]. apply LKd_eq in HLs. destruct HLs as [A B].
          split; [exact A|]. split; [exact B|]. destruct HNs as [HNs | HNs]; [now left|].
          right. apply NEd_eq in HNs. apply HNs. }
    destruct Hsibfacts as (S1 & S2 & S3).
    assert (Hsib' : LKd sib' /\ (In (n_seq sib') rest \/ NEd sib')).
    { split.
      - apply LKd_eq. unfold sib'. cbn [n_data n_kids]. split.
        + intros Hlf. rewrite S1 by congruence. rewrite HL1a by congruence. reflexivity.
        + apply Forall_app. split; assumption.
      - unfold sib'. cbn [n_seq]. destruct S3 as [S3 | S3]; [now left | right].
        apply NEd_eq. cbn [n_data n_kids]. split; [lia|]. apply Forall_app. split; assumption. }
    intros x Hx. destruct isnew.
    + apply in_app_or in Hx. destruct Hx as [Hx | [<- | []]]; [now apply G3 | exact Hsib'].
    + apply replace_kid_In in Hx. destruct Hx as [-> | Hx]; [exact Hsib' | now apply G3].
Qed.

(** ** 4d. [rebalance_kids] leaves every kid non-empty, deeply *)

Definition RKS_IH (f : nat) : Prop :=
  forall h d s z lo hi n l n' s',
    Inv h d z lo hi n -> is_leaf (n_data n) = false -> NodeView d h n l ->
    NoDup (npages h d n) -> NoDup (seqs n) -> Forall (fun x => (x < seqc s)%N) (seqs n) ->
    LKd n -> rebalance_kids f d n s = Ok (n', s') -> LKd n' /\ Forall NEd (n_kids n').

Lemma rks_step : forall f h0 d s lo hi n l n0 s0 k k1 s1 n1 s1' rest,
  RKS_IH f ->
  Forall (fun x => (x < seqc s)%N) (seqs n) ->
  RKPost (S h0) d s lo hi n l n0 s0 -> is_leaf (n_data n0) = false ->
  In k (n_kids n0) -> KI (n_seq k :: rest) (n_kids n0) ->
  (if is_leaf (n_data k) then Ok (k, s0) else rebalance_kids f d k s0) = Ok (k1, s1) ->
  try_merge d (set_kids n0 (replace_kid (n_kids n0) k1)) k1 s1 = Ok (n1, s1') ->
  KI rest (n_kids n1).
Proof.
  intros f h0 d s lo hi n l n0 s0 k k1 s1 n1 s1' rest IH Hlt (HI & HV & P1 & P2 & P3 & P4 & Np & Ip & Ns & Is & Tx)
    Hlf Hkin HK Hk1 Hm.
  destruct n0 as [p0 np0 og0 sq0 [l0|es0] ks0]; [discriminate|]. cbn [n_kids set_kids] in *.
  destruct (kid_facts _ _ _ _ _ _ _ _ _ _ _ _ HI Hkin HV Np Ns) as ((lk & Vk) & Npk & Nsk & Isk & (lo' & hi' & Ik)).
  assert (Hlt0 : forall y, In y (seqs (Node p0 np0 og0 sq0 (Branches es0) ks0)) -> (y < seqc s0)%N).
  { intros y Hy. destruct Tx as (_ & _ & _ & _ & _ & _ & Hle). rewrite Forall_forall in Hlt.
    destruct (Is y Hy) as [H | H]; [specialize (Hlt y H)|]; lia. }
  pose proof HI as HI'. rewrite Inv_branch_eq in HI'. destruct HI' as (_ & _ & _ & _ & [Lnd _] & _).
  assert (Hsk : NoDup (map n_seq ks0)).
  { apply seqs_kids_NoDup. cbn [seqs] in Ns. now inversion Ns. }
  pose proof HK as [KL _]. rewrite Forall_forall in KL. pose proof (KL k Hkin) as HLk.
  assert (Hk : n_page k1 = n_page k /\ n_seq k1 = n_seq k /\ LKd k1 /\ Forall NEd (n_kids k1)).
  { destruct (is_leaf (n_data k)) eqn:Elf.
    - inversion Hk1; subst k1 s1. split; [reflexivity|]. split; [reflexivity|]. split; [exact HLk|].
      apply LKd_eq in HLk. destruct HLk as [E _]. rewrite (E Elf). constructor.
    - assert (Hltk : Forall (fun x => (x < seqc s0)%N) (seqs k)).
      { apply Forall_forall. intros y Hy. apply Hlt0. now apply Isk. }
      pose proof (rebalance_kids_view f h0 d s0 true lo' hi' k lk k1 s1 Ik Elf Vk Npk Nsk Hltk Hk1)
        as (_ & _ & Q1 & _ & _ & Q4 & _).
      destruct (IH h0 d s0 true lo' hi' k lk k1 s1 Ik Elf Vk Npk Nsk Hltk HLk Hk1) as [A B]. auto. }
  destruct Hk as (E1 & E2 & HL1 & HN1).
  apply try_merge_kids in Hm.
  eapply (shape_step _ k1 n1 k (n_seq k) rest ks0); eauto. reflexivity.
Qed.

Theorem rebalance_kids_shape : forall fuel, RKS_IH fuel.
Proof.
  induction fuel as [|f IH]; intros h d s z lo hi n l n' s' HI Hlf HV Np Ns Hlt HL H; [discriminate|].
  cbn [rebalance_kids] in H.
  destruct (Inv_height _ _ _ _ _ _ HI) as [h0 ->].
  match type of H with fold_left ?F0 _ _ = _ => set (F := F0) in H end.
  assert (HF : forall x r, (forall a, r <> Ok a) -> forall a, F r x <> Ok a).
  { intros x r Hr a. unfold F. destruct r as [a0| |]; cbn [bind]; [exfalso; eapply Hr; eauto | discriminate | discriminate]. }
  assert (Hloop : forall xs n0 s0, RKPost (S h0) d s lo hi n l n0 s0 -> is_leaf (n_data n0) = false ->
            KI xs (n_kids n0) -> fold_left F xs (Ok (n0, s0)) = Ok (n', s') ->
            KI [] (n_kids n') /\ is_leaf (n_data n') = false).
  { induction xs as [|x xs IHxs]; intros n0 s0 HP0 Hlf0 HK0 Hfold; cbn [fold_left] in Hfold.
    - inversion Hfold; subst. split; assumption.
    - destruct (F (Ok (n0, s0)) x) as [[n1 s1]| |] eqn:E.
      2:{ exfalso. apply (fold_left_not_ok F xs (Panic msg) HF (fun a Ha => ltac:(discriminate)) _ Hfold). }
      2:{ exfalso. apply (fold_left_not_ok F xs (Err e) HF (fun a Ha => ltac:(discriminate)) _ Hfold). }
      unfold F in E. cbn [bind] in E.
      destruct (find (fun k => N.eqb (n_seq k) x) (n_kids n0)) as [k|] eqn:Ef.
      + apply find_some in Ef. destruct Ef as [Hkin Hkx]. apply N.eqb_eq in Hkx. subst x.
        destruct (if is_leaf (n_data k) then Ok (k, s0) else rebalance_kids f d k s0) as [[k1 s1k]| |] eqn:Ek;
          cbn [bind] in E; try discriminate.
        destruct (rk_step f h0 d s lo hi n l n0 s0 k k1 s1k n1 s1 (rebalance_kids_view f) Hlt HP0 Hlf0 Hkin Ek E)
          as [HP1 Hlf1].
        pose proof (rks_step f h0 d s lo hi n l n0 s0 k k1 s1k n1 s1 xs IH Hlt HP0 Hlf0 Hkin HK0 Ek E) as HK1.
        apply (IHxs n1 s1 HP1 Hlf1 HK1 Hfold).
      + inversion E; subst n1 s1. apply (IHxs n0 s0 HP0 Hlf0); [|exact Hfold].
        destruct HK0 as [KL KN]. split; [exact KL|]. rewrite Forall_forall in *. intros y Hy.
        destruct (KN y Hy) as [[E' | Hin] | Hn]; [|now left | now right].
        pose proof (find_none _ _ Ef y Hy) as Hne. cbn beta in Hne. lia. }
  assert (HP0 : RKPost (S h0) d s lo hi n l n s).
  { unfold RKPost. split; [eapply Inv_z_true; eauto|]. split; [exact HV|]. repeat (split; [reflexivity|]).
    split; [exact Np|]. split; [apply incl_refl|]. split; [exact Ns|].
    split; [intros; now left | apply tx_frame_refl]. }
  pose proof HL as HL'. apply LKd_eq in HL'. destruct HL' as [_ HLk].
  assert (HK0 : KI (map n_seq (n_kids n)) (n_kids n)).
  { split; [exact HLk|]. apply Forall_forall. intros y Hy. left. now apply in_map. }
  destruct (Hloop _ n s HP0 Hlf HK0 H) as [[KL KN] Hlf'].
  split.
  - apply LKd_eq. split; [intros E; congruence | exact KL].
  - rewrite Forall_forall in *. intros y Hy. destruct (KN y Hy) as [[] | Hn]. exact Hn.
Qed.

(** ** 4e. [merge_nodes]: the bucket's root is ready for spill *)

Lemma ensure_root_LKd : forall d b s root s0, BLK b -> ensure_root d b s = Ok (root, s0) -> LKd root.
Proof.
  intros d b s root s0 HL Er. unfold ensure_root, BLK in *. destruct (b_rootn b) as [n|].
  - inversion Er; subst. exact HL.
  - destruct (dget d (b_root_page b)); [|discriminate]. cbn [next_seq] in Er. inversion Er; subst.
    apply LKd_node_of_page.
Qed.

(* the shape of the root that [merge_nodes] leaves: an empty leaf, or non-empty all the way down *)
Theorem merge_nodes_shape : forall h d s b l b' s',
  BInv h d s b -> BLK b -> BucketView d h b l -> merge_nodes d b s = Ok (b', s') ->
  BLK b' /\ forall n', b_rootn b' = Some n' -> n_data n' = Leaves [] \/ NEd n'.
Proof.
  intros h d s b l b' s' HB HK HV H. unfold merge_nodes in H.
  apply bind_ok_inv in H. destruct H as ([root s0] & Er & H).
  apply bind_ok_inv in H. destruct H as ([root1 s1] & E1 & H).
  destruct (ensure_root_RInv _ _ _ _ _ _ _ HB HV Er) as (HR & HVr & _).
  pose proof (ensure_root_LKd _ _ _ _ _ HK Er) as HLr.
  destruct (root1_RInv _ _ _ _ _ _ _ HR HVr E1) as ((HI1 & _) & _ & _).
  assert (H1 : LKd root1 /\ Forall NEd (n_kids root1)).
  { destruct (is_leaf (n_data root)) eqn:Elf.
    - inversion E1; subst root1 s1. split; [exact HLr|]. apply LKd_eq in HLr. destruct HLr as [E _].
      rewrite (E Elf). constructor.
    - destruct HR as (HI & Hnp & Hsq & Hlt).
      exact (rebalance_kids_shape fuel0 h d s0 false None None root l root1 s1 HI Elf HVr Hnp Hsq Hlt HLr E1). }
  destruct H1 as [HL1 HN1]. pose proof HL1 as HL1'. apply LKd_eq in HL1'. destruct HL1' as [HL1a HL1b].
  destruct (needs_merging s1 root1 && negb (is_leaf (n_data root1)) && (dlen (n_data root1) =? 1)%N) eqn:Ec.
  - destruct (n_data root1) as [l1|[|[k0 q] rest]] eqn:Ed; try discriminate. inversion H; subst b' s'. clear H.
    unfold BLK. cbn [b_rootn]. destruct (find_kid q (n_kids root1)) as [kd|] eqn:Ef.
    + destruct (find_kid_In _ _ _ Ef) as [Hin _]. rewrite Forall_forall in HL1b, HN1.
      split; [now apply HL1b|]. intros n' E. inversion E; subst n'. right. now apply HN1.
    + split; [exact I | discriminate].
  - destruct (negb (is_leaf (n_data root1)) && (dlen (n_data root1) =? 0)%N) eqn:E0; inversion H; subst b' s'; clear H.
    + unfold BLK. cbn [b_rootn]. split; [|intros n' E; inversion E; subst n'; left; destruct root1; reflexivity].
      destruct root1 as [p1 np1 og1 sq1 [l1|es1] ks1]; [discriminate|]. cbn [n_data is_leaf negb dlen andb] in E0.
      destruct es1 as [|e1 es1]; [|unfold llen in E0; cbn in E0; lia].
      destruct (Inv_height _ _ _ _ _ _ HI1) as [h0 ->]. rewrite Inv_branch_eq in HI1.
      destruct HI1 as (_ & _ & _ & _ & [_ LF] & _).
      assert (ks1 = []).
      { destruct ks1 as [|x ks1]; [reflexivity|]. inversion LF as [|? ? (key & [] & _) _]. }
      subst ks1. apply LKd_eq. cbn [set_data n_data n_kids]. split; [reflexivity | constructor].
    + unfold BLK. cbn [b_rootn]. split; [exact HL1|]. intros n' E. inversion E; subst n'.
      destruct (n_data root1) as [[|e1 l1]|es1] eqn:Ed; [now left | right | right]; apply NEd_eq; rewrite Ed;
        (split; [|exact HN1]).
      * unfold dlen, llen. cbn [length]. lia.
      * cbn [is_leaf negb andb] in E0. cbn [dlen] in *. lia.
Qed.

Lemma BInv_root_Inv : forall h d s b n, BInv h d s b -> b_rootn b = Some n -> Inv h d false None None n.
Proof. intros h d s b n H E. unfold BInv in H. rewrite E in H. apply H. Qed.

(* a root that is an empty leaf or non-empty all the way down, under [BInv], is [root_ready] for every [keep]
   that contains the pages named in the overlay *)
Theorem shape_root_ready : forall h d s b n keep, BInv h d s b -> BLK b -> b_rootn b = Some n ->
  (n_data n = Leaves [] \/ NEd n) -> incl (npages h d n) keep -> root_ready d keep n.
Proof.
  intros h d s b n keep HB HK E Hsh Hk. destruct Hsh as [Hsh | Hsh]; [now left | right].
  unfold BLK in HK. rewrite E in HK.
  eapply Inv_spill_ready; eauto. eapply BInv_root_Inv; eauto.
Qed.

Theorem merge_nodes_root_ready : forall h d s b l b' s',
  BInv h d s b -> BLK b -> BucketView d h b l -> merge_nodes d b s = Ok (b', s') ->
  exists h', h' <= h /\ BInv h' d s' b' /\ BucketView d h' b' l /\ BLK b' /\
    forall n' keep, b_rootn b' = Some n' -> incl (npages h' d n') keep -> root_ready d keep n'.
Proof.
  intros h d s b l b' s' HB HK HV H.
  destruct (merge_nodes_view _ _ _ _ _ _ _ HB HV H) as ((h' & Hle & HB' & HV') & _).
  destruct (merge_nodes_shape _ _ _ _ _ _ _ HB HK HV H) as [HK' Hsh].
  exists h'. repeat (split; [assumption|]). intros n' keep E Hk. eapply shape_root_ready; eauto.
Qed.

(** ** 4f. [rebalance]: every bucket that spill will visit is ready *)

(* the state of the bucket tree before rebalance: (R)'s [Deep] with the shape fact [BLK] in every bucket *)
Fixpoint LDeep (f : nat) (d : disk) (s : txs) (b : bucket) (v : bview) : Prop :=
  match f with O => False | S f' =>
    match v with BV l vs =>
      BGood d s b l /\ BLK b /\
      Forall2 (fun x y => fst x = fst y /\ LDeep f' d s (snd x) (snd y)) (b_subs b) vs
    end end.

(* a bucket whose root, if loaded, can be spilled: for every [keep] containing the pages the overlay names *)
Definition BReady (d : disk) (s : txs) (b : bucket) (l : list leafent) : Prop :=
  exists h, h <= fuel0 /\ BInv h d s b /\ BucketView d h b l /\ BLK b /\
    forall n keep, b_rootn b = Some n -> incl (npages h d n) keep -> root_ready d keep n.

(* ... for every bucket [spill_bucket] visits: it stops at a bucket that is not dirty *)
Fixpoint RDeep (f : nat) (d : disk) (s : txs) (b : bucket) (v : bview) : Prop :=
  match f with O => False | S f' =>
    match v with BV l vs =>
      is_dirty fuel0 b = true ->
      BReady d s b l /\ Forall2 (fun x y => fst x = fst y /\ RDeep f' d s (snd x) (snd y)) (b_subs b) vs
    end end.

Lemma SDeepF_LDeep : forall f d s b, SDeepF f d s b -> exists v, LDeep f d s b v.
Proof.
  induction f as [|f IH]; intros d s b H; [destruct H|]. cbn [SDeepF] in H.
  destruct H as (h & l & (Hh & HB & _ & HK & HV) & (_ & H2 & _)).
  assert (Hvs : exists vs, Forall2 (fun x y => fst x = fst y /\ LDeep f d s (snd x) (snd y)) (b_subs b) vs).
  { induction H2 as [|x subs [_ Hx] _ [vs Hvs]]; [exists []; constructor|].
    destruct (IH _ _ _ Hx) as [v Hv]. exists ((fst x, v) :: vs). constructor; [split; [reflexivity | exact Hv] | exact Hvs]. }
  destruct Hvs as [vs Hvs]. exists (BV l vs). cbn [LDeep]. split; [exists h; auto|]. split; [exact HK | exact Hvs].
Qed.

Lemma LDeep_Deep : forall f d s b v, LDeep f d s b v -> Deep f d s b v.
Proof.
  induction f as [|f IH]; intros d s b [l vs] H; [destruct H|]. cbn [LDeep Deep] in *. destruct H as (A & _ & C).
  split; [exact A|]. eapply Forall2_impl; [|exact C]. cbn beta. intros x y [E Hd]. split; [exact E | now apply IH].
Qed.

Lemma LDeep_seqc_mono : forall f d s s' b v, (seqc s <= seqc s')%N -> LDeep f d s b v -> LDeep f d s' b v.
Proof.
  induction f as [|f IH]; intros d s s' b [l vs] Hle H; [exact H|]. cbn [LDeep] in *. destruct H as (A & B & C).
  split; [eapply BGood_seqc_mono; eauto|]. split; [exact B|].
  eapply Forall2_impl; [|exact C]. cbn beta. intros x y [E Hd]. split; [exact E | eapply IH; eauto].
Qed.

Lemma BReady_seqc_mono : forall d s s' b l, (seqc s <= seqc s')%N -> BReady d s b l -> BReady d s' b l.
Proof.
  intros d s s' b l Hle (h & A & B & C). exists h. split; [exact A|]. split; [eapply BInv_seqc_mono; eauto | exact C].
Qed.

Lemma RDeep_seqc_mono : forall f d s s' b v, (seqc s <= seqc s')%N -> RDeep f d s b v -> RDeep f d s' b v.
Proof.
  induction f as [|f IH]; intros d s s' b [l vs] Hle H; [exact H|]. cbn [RDeep] in *. intros Hd.
  destruct (H Hd) as [A C]. split; [eapply BReady_seqc_mono; eauto|].
  eapply Forall2_impl; [|exact C]. cbn beta. intros x y [E Hx]. split; [exact E | eapply IH; eauto].
Qed.

Definition lsub_rel (f : nat) (d : disk) (s : txs) (x : bytes * bucket) (y : bytes * bview) : Prop :=
  fst x = fst y /\ LDeep f d s (snd x) (snd y).
Definition rsub_rel (f : nat) (d : disk) (s : txs) (x : bytes * bucket) (y : bytes * bview) : Prop :=
  fst x = fst y /\ RDeep f d s (snd x) (snd y).

Definition RBR_IH (f : nat) : Prop :=
  forall fv d s b v b' s', LDeep fv d s b v -> rebalance f d b s = Ok (b', s') ->
    RDeep fv d s' b' v /\ tx_frame s s'.

Lemma tx_frame_le : forall s s', tx_frame s s' -> (seqc s <= seqc s')%N.
Proof. intros s s' (_ & _ & _ & _ & _ & _ & H). exact H. Qed.

Lemma rebalance_subs_ready : forall f fv d, RBR_IH f -> forall subs vs acc accvs s0 subs' s1,
  Forall2 (lsub_rel fv d s0) subs vs -> Forall2 (rsub_rel fv d s0) acc accvs ->
  fold_left (fun a x => bind a (fun '(l, s0) => bind (rebalance f d (snd x) s0) (fun '(b', s') => Ok (l ++ [(fst x, b')], s'))))
            subs (Ok (acc, s0)) = Ok (subs', s1) ->
  Forall2 (rsub_rel fv d s1) subs' (accvs ++ vs) /\ tx_frame s0 s1.
Proof.
  intros f fv d IH. induction subs as [|x subs IHl]; intros vs acc accvs s0 subs' s1 Hs Hacc H.
  - inversion Hs; subst. cbn [fold_left] in H. inversion H; subst. rewrite app_nil_r. split; [exact Hacc | apply tx_frame_refl].
  - inversion Hs as [|? y ? vs' [Exy Hxy] Hs']; subst. cbn [fold_left bind] in H.
    destruct (rebalance f d (snd x) s0) as [[bx sx]| |] eqn:Ex; cbn [bind] in H.
    + destruct (IH fv d s0 (snd x) (snd y) bx sx Hxy Ex) as (Dx & Tx).
      pose proof (tx_frame_le _ _ Tx) as Hle.
      destruct (IHl vs' (acc ++ [(fst x, bx)]) (accvs ++ [y]) sx subs' s1) as [R1 R2].
      * eapply Forall2_impl; [|exact Hs']. intros a b0 [E Ha]. split; [exact E | eapply LDeep_seqc_mono; eauto].
      * apply Forall2_app.
        -- eapply Forall2_impl; [|exact Hacc]. intros a b0 [E Ha]. split; [exact E | eapply RDeep_seqc_mono; eauto].
        -- constructor; [|constructor]. split; [exact Exy | exact Dx].
      * exact H.
      * rewrite <- app_assoc in R1. cbn [app] in R1. split; [exact R1 | eapply tx_frame_trans; eauto].
    + exfalso. revert H. apply fold_left_not_ok; [|intros; discriminate].
      intros x0 r Hr a0. destruct r as [a1| |]; cbn [bind]; [exfalso; eapply Hr; eauto | discriminate | discriminate].
    + exfalso. revert H. apply fold_left_not_ok; [|intros; discriminate].
      intros x0 r Hr a0. destruct r as [a1| |]; cbn [bind]; [exfalso; eapply Hr; eauto | discriminate | discriminate].
Qed.

Theorem rebalance_ready : forall f, RBR_IH f.
Proof.
  induction f as [|f IH]; intros fv d s b v b' s' HD H; [discriminate|].
  destruct fv as [|fv]; [destruct HD|]. destruct v as [l vs]. cbn [LDeep] in HD. destruct HD as (HG & HK & HS).
  cbn [rebalance] in H. destruct (negb (is_dirty fuel0 b)) eqn:Edirty.
  { inversion H; subst. split; [|apply tx_frame_refl]. cbn [RDeep]. intros Hd. rewrite Hd in Edirty. discriminate. }
  match type of H with bind ?r _ = _ => destruct r as [[subs' s1]| |] eqn:Ef end; cbn [bind] in H; try discriminate.
  destruct (rebalance_subs_ready f fv d IH (b_subs b) vs [] [] s subs' s1 HS (Forall2_nil _) Ef) as [R1 R2]. cbn [app] in R1.
  pose proof (tx_frame_le _ _ R2) as Hle1.
  destruct (BGood_seqc_mono _ _ _ _ _ Hle1 HG) as (h & Hh & HB & HV).
  set (b0 := Bucket (b_root_page b) (b_next b) true (b_rootn b) subs') in *.
  assert (HB0 : BInv h d s1 b0) by exact HB. assert (HV0 : BucketView d h b0 l) by exact HV.
  assert (HK0 : BLK b0) by exact HK.
  destruct (merge_nodes_view h d s1 b0 l b' s' HB0 HV0 H) as (_ & _ & _ & Es & _ & Tx).
  destruct (merge_nodes_root_ready h d s1 b0 l b' s' HB0 HK0 HV0 H) as (h' & Hle & HB' & HV' & HK' & Hrdy).
  pose proof (tx_frame_le _ _ Tx) as Hle2. cbn [b0 b_subs] in Es.
  split; [|eapply tx_frame_trans; eauto]. cbn [RDeep]. intros _. split.
  - exists h'. split; [lia|]. auto.
  - rewrite Es. eapply Forall2_impl; [|exact R1]. intros a b1 [E Ha]. split; [exact E | eapply RDeep_seqc_mono; eauto].
Qed.

(* the whole transaction up to and including rebalance *)
Theorem tx_rebalance_ready : forall st ops root' s' b1 s1, db_strict st ->
  tx_fold st ops (root_bucket st, begin_w st) = Ok (root', s') ->
  rebalance fuel0 (d_disk st) root' s' = Ok (b1, s1) ->
  exists fv v, Deep fv (d_disk st) s1 b1 v /\ RDeep fv (d_disk st) s1 b1 v /\ tx_frame s' s1 /\ b_next b1 = b_next root'.
Proof.
  intros st ops root' s' b1 s1 Hdb Hf Hr. destruct (tx_ops_SDeep' st ops root' s' Hdb Hf) as [f HD].
  destruct (SDeepF_LDeep _ _ _ _ HD) as [v Hv]. exists f, v.
  destruct (rebalance_view fuel0 f _ _ _ v _ _ (LDeep_Deep _ _ _ _ _ Hv) Hr) as (A & B & C).
  destruct (rebalance_ready fuel0 f _ _ _ v _ _ Hv Hr) as (D & _). auto.
Qed.

(** ** 4g. Put together with (P): what a completed [run_tx] went through *)

(* a transaction that [run_tx] completes: its operations left an overlay that means [sem_tx ops (abs_db st)] ((P)),
   that overlay satisfies the strong invariant (section 2), rebalance succeeded on it, kept every view list ((R))
   and left every bucket that spill visits ready (section 4) *)
Theorem run_tx_rebalance_ready : forall st ops ord st', db_strict st -> Forall (op_ok (d_disk st)) ops ->
  run_tx st ops ord = Ok st' ->
  exists root' s' b1 s1 fv v,
    tx_fold st ops (root_bucket st, begin_w st) = Ok (root', s') /\
    ovl_wf (d_disk st) root' /\ OvlAbs (d_disk st) root' (sem_tx ops (abs_db st)) /\ tx_frees (begin_w st) s' /\
    SDeep (d_disk st) s' root' /\
    rebalance fuel0 (d_disk st) root' s' = Ok (b1, s1) /\
    Deep fv (d_disk st) s' root' v /\ Deep fv (d_disk st) s1 b1 v /\ RDeep fv (d_disk st) s1 b1 v /\
    tx_frame s' s1 /\ b_next b1 = b_next root'.
Proof.
  intros st ops ord st' Hdb Hok Hrun.
  destruct (ops_refine st ops (db_strict_pages_wf st Hdb) Hok) as (root' & s' & Hf & Hw & Ha & Hfr).
  rewrite run_tx_fold, Hf in Hrun. cbn [bind fst snd] in Hrun. unfold commit in Hrun.
  apply bind_ok_inv in Hrun. destruct Hrun as ([b1 s1] & Hr & _).
  destruct (tx_ops_SDeep' st ops root' s' Hdb Hf) as [f HD].
  destruct (SDeepF_LDeep _ _ _ _ HD) as [v Hv].
  destruct (rebalance_view fuel0 f _ _ _ v _ _ (LDeep_Deep _ _ _ _ _ Hv) Hr) as (A & B & C).
  destruct (rebalance_ready fuel0 f _ _ _ v _ _ Hv Hr) as (D & _).
  exists root', s', b1, s1, f, v. split; [exact Hf|]. split; [exact Hw|]. split; [exact Ha|]. split; [exact Hfr|].
  split; [exists f; exact HD|]. split; [exact Hr|]. split; [apply LDeep_Deep; exact Hv|]. auto.
Qed.

(* ====================================================================== *)
(** * 5. Non-vacuity: a committed state with a nested bucket whose tree has two levels *)

Module Ex3.
Local Open Scope N_scope.
Definition ka : bytes := ["a"%byte]. Definition kb : bytes := ["b"%byte]. Definition kc : bytes := ["c"%byte].
Definition kd : bytes := ["d"%byte]. Definition ke : bytes := ["e"%byte]. Definition kf : bytes := ["f"%byte].
Definition kg : bytes := ["g"%byte]. Definition km : bytes := ["m"%byte]. Definition kn : bytes := ["n"%byte].
(* root bucket: page 3 = { a, n -> bucket (root 10, next 6) };  bucket n: branch 10 over leaves 11, 12, 13 *)
Definition ex3_disk : disk :=
  [ (3, {| ap_over := 0; ap_body := Leaves [LKv ka [x01]; LBk kn 10 6] |});
    (10, {| ap_over := 0; ap_body := Branches [(kb, 11); (kd, 12); (kf, 13)] |});
    (11, {| ap_over := 0; ap_body := Leaves [LKv kb [x01]; LKv kc [x02]] |});
    (12, {| ap_over := 0; ap_body := Leaves [LKv kd [x03]; LKv ke [x04]] |});
    (13, {| ap_over := 0; ap_body := Leaves [LKv kf [x05]; LKv kg [x06]] |}) ].
Definition ex3_db : db :=
  {| d_disk := ex3_disk; d_root := 3; d_next := 2; d_np := 14; d_fl := 2; d_fln := 1; d_flids := [];
     d_tx := 1; d_free := []; d_pending := []; d_psz := 4096 |}.

Ltac solve_inb := cbn [map fst lkey]; repeat match goal with
  | |- Forall _ [] => constructor
  | |- Forall _ (_ :: _) => constructor
  | |- inb _ _ _ => split; cbn; try exact I; try discriminate; try reflexivity
  end.
Ltac leaf_PInv := cbn [PInv]; eexists; split; [reflexivity|]; split; [reflexivity || exact I|]; cbn [ap_body];
  split; [reflexivity | solve_inb].

Example ex3_strict : db_strict ex3_db.
Proof.
  unfold db_strict. cbn [d_disk d_root ex3_db sbk].
  exists 1%nat, [LKv ka [x01]; LBk kn 10 6]. split; [unfold fuel0; lia|]. split; [leaf_PInv|].
  split; [cbn; constructor|]. split; [eapply PV_leaf; reflexivity|].
  constructor; [exact I|]. constructor; [|constructor].
  exists 2%nat, (concat [[LKv kb [x01]; LKv kc [x02]]; [LKv kd [x03]; LKv ke [x04]]; [LKv kf [x05]; LKv kg [x06]]]).
  split; [unfold fuel0; lia|]. split; [|split; [|split]].
  - cbn [PInv]. eexists. split; [reflexivity|]. split; [exact I|]. cbn [ap_body].
    split; [discriminate|]. split; [reflexivity|]. split; [repeat constructor; cbn; intuition (try discriminate; try lia)|].
    split; [solve_inb|]. cbn [map fst cbounds cbs nxt lo0].
    apply Forall2_cons; [|apply Forall2_cons; [|apply Forall2_cons; [|apply Forall2_nil]]]; cbn [fst snd]; leaf_PInv.
  - vm_compute. repeat constructor; cbn; intuition (try discriminate; try lia).
  - eapply PV_branch; [reflexivity | reflexivity |].
    apply Forall2_cons; [|apply Forall2_cons; [|apply Forall2_cons; [|apply Forall2_nil]]]; eapply PV_leaf; reflexivity.
  - cbn [concat app]. repeat constructor.
Qed.

(* delete n/e (leaf 12 is left with one entry: rebalance merges it into leaf 11), create bucket m with one key,
   delete and re-create a key of the root *)
Definition ex3_ops : list Engine.op := [Del [kn] ke; Put [km] kc [x07]; Del [] ka; Put [] ka [x08]].
Definition ex3_fold := Eval vm_compute in tx_fold ex3_db ex3_ops (root_bucket ex3_db, begin_w ex3_db).
Definition ex3_root' : bucket := match ex3_fold with Ok (r, _) => r | _ => root_bucket ex3_db end.
Definition ex3_s' : txs := match ex3_fold with Ok (_, s) => s | _ => begin_w ex3_db end.
Definition ex3_reb := Eval vm_compute in rebalance fuel0 ex3_disk ex3_root' ex3_s'.
Definition ex3_b1 : bucket := match ex3_reb with Ok (r, _) => r | _ => root_bucket ex3_db end.
Definition ex3_s1 : txs := match ex3_reb with Ok (_, s) => s | _ => begin_w ex3_db end.

Example ex3_fold_ok : tx_fold ex3_db ex3_ops (root_bucket ex3_db, begin_w ex3_db) = Ok (ex3_root', ex3_s').
Proof. vm_compute. reflexivity. Qed.
Example ex3_reb_ok : rebalance fuel0 (d_disk ex3_db) ex3_root' ex3_s' = Ok (ex3_b1, ex3_s1).
Proof. vm_compute. reflexivity. Qed.

(* the hypotheses of the theorems of sections 2-4 hold here, and a merge really happened: the nested bucket n
   (opened, its root loaded, leaf 12 materialised and under-filled) comes out of rebalance with leaf 12 merged
   into the (newly materialised) leaf 11, which is its only kid and holds three entries *)
Example ex3_SDeep : SDeep ex3_disk ex3_s' ex3_root'.
Proof. exact (tx_ops_SDeep' ex3_db ex3_ops _ _ ex3_strict ex3_fold_ok). Qed.

Example ex3_ready : exists fv v, Deep fv ex3_disk ex3_s1 ex3_b1 v /\ RDeep fv ex3_disk ex3_s1 ex3_b1 v.
Proof.
  destruct (tx_rebalance_ready ex3_db ex3_ops _ _ _ _ ex3_strict ex3_fold_ok ex3_reb_ok) as (fv & v & A & B & _).
  eauto.
Qed.

Example ex3_merged :
  map fst (b_subs ex3_b1) = [kn; km] /\ is_dirty fuel0 ex3_b1 = true /\
  option_map (fun b => option_map (fun n => (n_data n, map (fun k => (n_page k, n_data k)) (n_kids n))) (b_rootn b))
             (sub_find kn (b_subs ex3_b1))
  = Some (Some (Branches [(kb, 11); (kf, 13)],
                [(11, Leaves [LKv kb [x01]; LKv kc [x02]; LKv kd [x03]])])).
Proof. vm_compute. repeat split; reflexivity. Qed.
End Ex3.

(* (R)'s invariant alone does not give spill readiness: [Inv] says nothing about the kid list of a LEAF node, and
   [spill_ready] (hence [swf] / [spill_node], which would sort and spill such kids and then panic with
   "CANNOT INSERT BRANCH INTO A LEAF NODE") needs it empty.  The model never builds such a node -- [LKd] is preserved
   by [modify] ([modify_LKd]) and re-established by [rebalance_kids] ([rebalance_kids_shape]) -- which is why [LKd]
   is part of [SDeep]. *)
Example Inv_without_LKd_not_ready :
  let n := Node 0 0 None 1 (Leaves [LKv [] []]) [Node 0 0 None 2 (Leaves []) []] in
  RInv 1 [] {| free := []; pending := []; txid := 1; np := 4; psz := 4096; wr := []; flw := None; seqc := 3 |} false n /\
  NEd (Node 0 0 None 1 (Leaves [LKv [] []]) []) /\
  forall keep, ~ spill_ready [] keep None None n.
Proof.
  cbv zeta. split; [|split].
  - unfold RInv. split; [rewrite Inv_leaf_eq; split; [reflexivity | repeat constructor]|].
    split; [constructor|]. cbn [seqs flat_map app seqc].
    split; [repeat constructor; cbn; intuition (try discriminate; try lia) | repeat constructor; lia].
  - apply NEd_eq. cbn. split; [lia | constructor].
  - intros keep H. inversion H.
Qed.

(* ====================================================================== *)
(** * Summary

   1. [sbk] / [db_strict]; [db_strict_pages_wf : db_strict st -> db_pages_wf st]; [init_db_strict]; [Ex3.ex3_strict].
   2. [SDeep d s b] (through [SDeepF], with [SDeep_intro] / [SDeep_inv] as constructor / inversion):
      [BInv] + [BExact] + [BLK] + a [BucketView] of height <= fuel0 for the bucket and every opened sub-bucket;
      distinct names; every opened sub-bucket is named by a bucket entry; every bucket entry NOT opened holds a
      strict committed root ([sbk]).  Preserved by [b_put] / [b_delete] / [b_delete_bucket] / touch ([put_pres],
      [del_pres], [delb_pres], [touch_pres]), [b_get_or_create] ([b_get_or_create_pres]), [at_path]
      ([at_path_pres]), [tx_step] ([tx_step_SDeep]) and the fold ([tx_fold_SDeep], [tx_ops_SDeep]).  These are
      statements about SUCCESSFUL runs, so the side condition [op_ok] is not needed ([tx_ops_SDeep'] is the same
      theorem without it; that the fold DOES succeed under [op_ok] is [EnginePathFacts.ops_refine]).
   3. [SDeep_Deep], [rebalance_SDeep], [tx_rebalance_view].
   4. [Inv_spill_ready]: [Inv] + [NEd] + [LKd] + (pages named in the overlay in [keep]) => [spill_ready];
      [try_merge_kids] (what [try_merge] does to the kid list), [shape_step], [rebalance_kids_shape] (after
      [rebalance_kids] every kid is non-empty all the way down, leaves have no kids); [merge_nodes_shape],
      [merge_nodes_root_ready]; [rebalance_ready] / [tx_rebalance_ready]: after rebalance every bucket that
      [spill_bucket] will visit ([RDeep] follows its recursion: it stops at a bucket that is not dirty) has a root
      that is [root_ready] for every [keep] containing [npages] of that root.  No needed fact turned out false
      of the model; the only gap found is in (R)'s invariant, see [Inv_without_LKd_not_ready].
      [run_tx_rebalance_ready] puts (P), (R) and this file together for a completed [run_tx].
   Left open (outside this file's task): [spill_bucket] applies [b_modify (OpIns (LBk nm r nx))] to a bucket AFTER
   rebalance and BEFORE [spill_root]; the node spilled is the modified one.  (R)'s [modify_Inv] needs [Exact],
   which rebalance does not preserve, so [BInv] cannot be carried through these insertions with (R)'s lemmas;
   [spill_ready] (whose child-0 range inherits the parent's lower bound) is the invariant to carry there. *)

Print Assumptions db_strict_pages_wf.
Print Assumptions init_db_strict.
Print Assumptions tx_step_SDeep.
Print Assumptions tx_fold_SDeep.
Print Assumptions tx_ops_SDeep.
Print Assumptions SDeep_Deep.
Print Assumptions rebalance_SDeep.
Print Assumptions tx_rebalance_view.
Print Assumptions Inv_spill_ready.
Print Assumptions rebalance_kids_shape.
Print Assumptions merge_nodes_root_ready.
Print Assumptions rebalance_ready.
Print Assumptions tx_rebalance_ready.
Print Assumptions run_tx_rebalance_ready.
Print Assumptions Ex3.ex3_strict.
Print Assumptions Ex3.ex3_ready.
Print Assumptions Ex3.ex3_merged.
Print Assumptions Inv_without_LKd_not_ready.
