(* The engine model's private free list (model/Engine.v) is the free list of model/Freelist.v:
   function-level equalities, a simulation Engine.txs ~ Freelist.txfl, and the theorems of
   proofs/FreelistFacts.v transported to the engine state.  No axioms. *)
From Coq Require Import List NArith PeanoNat Bool Lia ZifyN ZifyBool Sorted Permutation.
From Jamm Require Import Bytes PL Freelist FreelistFacts.
From Jamm Require Engine.
Import ListNotations.
Local Open Scope list_scope. Local Open Scope N_scope.
Arguments N.add : simpl never.
Arguments N.sub : simpl never.
Arguments N.ltb : simpl never.
Arguments N.leb : simpl never.
Arguments N.eqb : simpl never.
Arguments N.div : simpl never.
Arguments N.modulo : simpl never.

(* ------------------------------------------------------------------ *)
(** * 1. Function-level equalities *)

Theorem sins_eq x l : Engine.sins x l = Freelist.sins x l.
Proof. induction l as [|y l IH]; cbn [Engine.sins Freelist.sins]; rewrite ?IH; reflexivity. Qed.

Theorem sins_dup_eq x l : Engine.sins_dup x l = Freelist.sins_dup x l.
Proof. induction l as [|y l IH]; cbn [Engine.sins_dup Freelist.sins_dup]; rewrite ?IH; reflexivity. Qed.

Theorem pend_add_eq t p l : Engine.pend_add t p l = Freelist.pend_add t p l.
Proof.
  induction l as [|[u ps] l IH]; cbn [Engine.pend_add Freelist.pend_add]; [reflexivity|].
  rewrite IH. reflexivity.
Qed.

Lemma fold_sins_eq ps : forall fr,
  fold_left (fun f p => Engine.sins p f) ps fr = fold_left (fun f p => Freelist.sins p f) ps fr.
Proof.
  induction ps as [|p ps IH]; cbn [fold_left]; intros fr; [reflexivity|].
  rewrite sins_eq. apply IH.
Qed.

Theorem release_eq t : forall pd fr, Engine.release t fr pd = Freelist.release t fr pd.
Proof.
  induction pd as [|[u ps] pd IH]; intros fr; cbn [Engine.release Freelist.release]; [reflexivity|].
  rewrite fold_sins_eq, IH. reflexivity.
Qed.

Theorem alloc_scan_eq l : forall n start prev,
  Engine.alloc_scan l n start prev = Freelist.alloc_scan l n start prev.
Proof.
  induction l as [|id l IH]; intros n start prev; cbn [Engine.alloc_scan Freelist.alloc_scan];
    [reflexivity|].
  rewrite IH. reflexivity.
Qed.

Theorem fl_allocate_eq fr n : Engine.fl_allocate fr n = Freelist.fl_allocate fr n.
Proof.
  unfold Engine.fl_allocate, Freelist.fl_allocate. destruct fr as [|a fr]; [reflexivity|].
  cbv zeta. rewrite alloc_scan_eq. reflexivity.
Qed.

Lemma fold_sins_dup_eq ps : forall acc,
  fold_left (fun a p => Engine.sins_dup p a) ps acc = fold_left (fun a p => Freelist.sins_dup p a) ps acc.
Proof.
  induction ps as [|p ps IH]; cbn [fold_left]; intros acc; [reflexivity|].
  rewrite sins_dup_eq. apply IH.
Qed.

Theorem all_pages_eq s :
  Engine.all_pages s = Freelist.fl_pages (mkFl (Engine.free s) (Engine.pending s)).
Proof.
  unfold Engine.all_pages, Freelist.fl_pages. cbn [fl_free fl_pending].
  generalize (Engine.free s). induction (Engine.pending s) as [|e pd IH]; intros acc;
    cbn [fold_left]; [reflexivity|].
  rewrite fold_sins_dup_eq. apply IH.
Qed.

(* The definitions are in fact the same terms: the equalities also hold between the functions
   themselves, by conversion. *)
Theorem sins_fun_eq : Engine.sins = Freelist.sins.              Proof. reflexivity. Qed.
Theorem sins_dup_fun_eq : Engine.sins_dup = Freelist.sins_dup.  Proof. reflexivity. Qed.
Theorem pend_add_fun_eq : Engine.pend_add = Freelist.pend_add.  Proof. reflexivity. Qed.
Theorem release_fun_eq : Engine.release = Freelist.release.     Proof. reflexivity. Qed.
Theorem alloc_scan_fun_eq : Engine.alloc_scan = Freelist.alloc_scan. Proof. reflexivity. Qed.
Theorem fl_allocate_fun_eq : Engine.fl_allocate = Freelist.fl_allocate. Proof. reflexivity. Qed.

(* ------------------------------------------------------------------ *)
(** * 2. Simulation Engine.txs ~ Freelist.txfl *)

Definition abs (s : Engine.txs) (freed : list N) : txfl :=
  mkTxfl (mkFl (Engine.free s) (Engine.pending s)) (Engine.np s) (Engine.txid s) (Engine.psz s) freed.

Definition R (s : Engine.txs) (t : txfl) : Prop :=
  t = abs s (tf_freed t) /\ (forall p, In p (tf_freed t) <-> Engine.freed_in_tx s p = true).

(* the engine's membership test is membership in pending[txid] *)
Lemma freed_in_tx_iff s p :
  Engine.freed_in_tx s p = true <-> In p (pend_at (Engine.txid s) (Engine.pending s)).
Proof.
  unfold Engine.freed_in_tx, pend_at. rewrite existsb_exists, in_flat_map. split.
  - intros (e & He & Hb). apply andb_true_iff in Hb. destruct Hb as [Hk Hm].
    exists e. split; [apply filter_In; split; assumption|].
    apply existsb_exists in Hm. destruct Hm as (y & Hy & Hpy). apply N.eqb_eq in Hpy. subst y. exact Hy.
  - intros (e & He & Hp). apply filter_In in He. destruct He as [He Hk].
    exists e. split; [exact He|]. rewrite Hk. cbn [andb].
    apply existsb_exists. exists p. split; [exact Hp|apply N.eqb_refl].
Qed.

(* the canonical abstraction: the freed set read off the engine state *)
Definition abs0 (s : Engine.txs) : txfl := abs s (pend_at (Engine.txid s) (Engine.pending s)).

Theorem R_abs0 s : R s (abs0 s).
Proof.
  unfold R, abs0. cbn [abs tf_freed]. split; [reflexivity|].
  intros p. symmetry. apply freed_in_tx_iff.
Qed.

Theorem J_abs0 s : NoDup (pend_at (Engine.txid s) (Engine.pending s)) <-> J (abs0 s).
Proof.
  unfold J, abs0, abs. cbn [tf_freed tf_tx tf_inner fl_pending]. split.
  - intros H. split; [exact H|reflexivity].
  - intros [H _]. exact H.
Qed.

(* under J, the second clause of R follows from the first *)
Theorem R_of_J s freed : J (abs s freed) -> R s (abs s freed).
Proof.
  intros HJ. split; [reflexivity|]. cbn [abs tf_freed]. intros p.
  rewrite freed_in_tx_iff. destruct (J_facts _ HJ) as [_ H].
  cbn [abs tf_tx tf_inner fl_pending tf_freed] in H. symmetry. apply H.
Qed.

Lemma R_fields s t : R s t ->
  fl_free (tf_inner t) = Engine.free s /\ fl_pending (tf_inner t) = Engine.pending s /\
  tf_np t = Engine.np s /\ tf_tx t = Engine.txid s /\ tf_psz t = Engine.psz s.
Proof. intros [H _]. rewrite H. cbn. repeat split. Qed.

Lemma R_memN s t p : R s t -> memN p (tf_freed t) = Engine.freed_in_tx s p.
Proof.
  intros [_ H]. specialize (H p). rewrite <- memN_In in H.
  destruct (memN p (tf_freed t)), (Engine.freed_in_tx s p); intuition congruence.
Qed.

(** tx_allocate commutes *)
Theorem tx_allocate_sim s t b p n s' :
  R s t -> Engine.tx_allocate s b = (p, n, s') ->
  exists t', Freelist.tx_allocate t b = (p, n, t') /\ R s' t'.
Proof.
  intros [Ht Hf] Hal. rewrite Ht. unfold Freelist.tx_allocate, pages_for.
  cbn [abs tf_inner tf_np tf_tx tf_psz tf_freed fl_free fl_pending].
  unfold Engine.tx_allocate in Hal. rewrite fl_allocate_eq in Hal.
  set (k := if b mod Engine.psz s =? 0 then b / Engine.psz s else b / Engine.psz s + 1) in *.
  destruct (Freelist.fl_allocate (Engine.free s) k) as [[p0 f']|];
    inversion Hal; subst p n s'; clear Hal; eexists; (split; [reflexivity|]).
  - split; [reflexivity|]. cbn [tf_freed]. exact Hf.
  - split; [reflexivity|]. cbn [tf_freed]. exact Hf.
Qed.

(** free_pages commutes with tx_free (J is not needed for the relation itself) *)
Lemma free_step_R s t p :
  R s t -> Engine.freed_in_tx s p = false ->
  R (Engine.upd_pending s (Engine.pend_add (Engine.txid s) p (Engine.pending s)))
    (mkTxfl (mkFl (fl_free (tf_inner t)) (Freelist.pend_add (tf_tx t) p (fl_pending (tf_inner t))))
            (tf_np t) (tf_tx t) (tf_psz t) (p :: tf_freed t)).
Proof.
  intros HR Hnf. destruct (R_fields _ _ HR) as (F1 & F2 & F3 & F4 & F5). destruct HR as [_ Hf].
  rewrite F1, F2, F3, F4, F5. split.
  - unfold abs, Engine.upd_pending. cbn. reflexivity.
  - cbn [tf_freed]. intros q. rewrite freed_in_tx_iff.
    unfold Engine.upd_pending. cbn [Engine.txid Engine.pending]. change Engine.pend_add with Freelist.pend_add.
    assert (Hq : In q (pend_at (Engine.txid s) (Freelist.pend_add (Engine.txid s) p (Engine.pending s)))
                 <-> In q (p :: pend_at (Engine.txid s) (Engine.pending s))).
    { split; apply Permutation_in; [apply pend_add_at|symmetry; apply pend_add_at]. }
    rewrite Hq. cbn [In]. rewrite Hf, freed_in_tx_iff. reflexivity.
Qed.

Lemma free_run_sim n : forall s t p,
  R s t -> R (Engine.free_run s p n) (Freelist.tx_free_run t p n).
Proof.
  induction n as [|n IH]; intros s t p HR; cbn [Engine.free_run Freelist.tx_free_run]; [exact HR|].
  rewrite (R_memN _ _ p HR). destruct (Engine.freed_in_tx s p) eqn:E.
  - apply IH. exact HR.
  - apply IH. apply free_step_R; assumption.
Qed.

Theorem free_pages_sim s t p n :
  R s t -> R (Engine.free_pages s p n) (Freelist.tx_free t p n).
Proof. apply free_run_sim. Qed.

(* the form asked for: under J, both R and J are carried along *)
Theorem free_pages_sim_J s t p n :
  R s t -> J t -> R (Engine.free_pages s p n) (Freelist.tx_free t p n) /\ J (Freelist.tx_free t p n).
Proof. intros HR HJ. split; [apply free_pages_sim; exact HR|apply tx_free_J; exact HJ]. Qed.

(* ------------------------------------------------------------------ *)
(** * 3. FreelistFacts transported to the engine *)

Theorem engine_alloc_spec s b p n s' :
  asc (Engine.free s) -> ge2 (Engine.free s) -> 0 < Engine.psz s -> 0 < b ->
  Engine.tx_allocate s b = (p, n, s') ->
  let fr := Engine.free s in
  n = pages_for (Engine.psz s) b /\ 0 < n /\
  Engine.txid s' = Engine.txid s /\ Engine.psz s' = Engine.psz s /\
  Engine.pending s' = Engine.pending s /\
  Engine.wr s' = Engine.wr s /\ Engine.flw s' = Engine.flw s /\ Engine.seqc s' = Engine.seqc s /\
  (forall q, Engine.freed_in_tx s' q = Engine.freed_in_tx s q) /\
  ( (* from the free set: np unchanged, the first run of n pages removed exactly *)
    (Engine.np s' = Engine.np s /\
     (forall i, i < n -> In (p + i) fr) /\
     (forall x, In x (Engine.free s') <-> In x fr /\ ~ (p <= x < p + n)) /\
     asc (Engine.free s') /\ ge2 (Engine.free s') /\
     (forall q, (forall i, i < n -> In (q + i) fr) -> p <= q))
    \/ (* growth: only when no run of n pages exists *)
    (p = Engine.np s /\ Engine.np s' = Engine.np s + n /\ Engine.free s' = Engine.free s /\
     ~ exists q, forall i, i < n -> In (q + i) fr)).
Proof.
  intros Hasc Hge HP Hb Hal. cbv zeta.
  destruct (tx_allocate_sim s (abs0 s) b p n s' (R_abs0 s) Hal) as (t' & Hal' & HR').
  pose proof (tx_allocate_spec (abs0 s) b p n t') as Hspec.
  cbn [abs0 abs tf_inner tf_np tf_tx tf_psz tf_freed fl_free fl_pending] in Hspec.
  specialize (Hspec Hasc Hge HP Hb Hal'). cbv zeta in Hspec.
  destruct (R_fields _ _ HR') as (F1 & F2 & F3 & F4 & F5).
  rewrite F1, F2, F3, F4, F5 in Hspec.
  destruct Hspec as (Hn & Hn0 & Htx & Hpsz & _ & Hpd & Hcases).
  assert (Hrest : Engine.wr s' = Engine.wr s /\ Engine.flw s' = Engine.flw s /\
                  Engine.seqc s' = Engine.seqc s).
  { unfold Engine.tx_allocate in Hal.
    destruct (Engine.fl_allocate _ _) as [[p0 f']|]; inversion Hal; subst; cbn; repeat split. }
  destruct Hrest as (Hwr & Hflw & Hseq).
  repeat (split; [assumption|]). split.
  - intros q. unfold Engine.freed_in_tx. rewrite Htx, Hpd. reflexivity.
  - destruct Hcases as [C|(C1 & C2 & C3 & C4)]; [left; exact C|right].
    repeat (split; [assumption|]). split; [|exact C4].
    rewrite <- F1, C3. reflexivity.
Qed.

(* a page freed in this transaction is not handed back a second time *)
Theorem engine_free_again s p :
  Engine.freed_in_tx s p = true -> Engine.free_pages s p 1 = s.
Proof.
  intros H. unfold Engine.free_pages. change (N.to_nat 1) with 1%nat.
  cbn [Engine.free_run]. rewrite H. reflexivity.
Qed.

Theorem engine_free_fields s p n :
  Engine.free (Engine.free_pages s p n) = Engine.free s /\
  Engine.txid (Engine.free_pages s p n) = Engine.txid s /\
  Engine.np (Engine.free_pages s p n) = Engine.np s /\
  Engine.psz (Engine.free_pages s p n) = Engine.psz s.
Proof.
  pose proof (free_pages_sim s (abs0 s) p n (R_abs0 s)) as HR.
  destruct (R_fields _ _ HR) as (F1 & _ & F3 & F4 & F5).
  destruct (tx_free_fields (abs0 s) p n) as (G1 & G2 & G3 & G4).
  rewrite <- F1, <- F3, <- F4, <- F5, G1, G2, G3, G4. cbn. repeat split.
Qed.

(* exactly the pages of [p, p+n) become freed-in-this-transaction *)
Theorem engine_free_freed s p n x :
  Engine.freed_in_tx (Engine.free_pages s p n) x = true <->
  Engine.freed_in_tx s x = true \/ p <= x < p + n.
Proof.
  pose proof (free_pages_sim s (abs0 s) p n (R_abs0 s)) as [_ Hf].
  rewrite <- Hf, tx_free_freed. cbn [abs0 abs tf_freed]. rewrite freed_in_tx_iff. reflexivity.
Qed.

(* the set of pending pages grows by exactly [p, p+n) *)
Theorem engine_free_pend_all s p n x :
  In x (pend_all (Engine.pending (Engine.free_pages s p n))) <->
  In x (pend_all (Engine.pending s)) \/ p <= x < p + n.
Proof.
  pose proof (free_pages_sim s (abs0 s) p n (R_abs0 s)) as HR.
  destruct (R_fields _ _ HR) as (_ & F2 & _). rewrite <- F2.
  rewrite tx_free_pend_all; [reflexivity|].
  cbn [abs0 abs tf_freed tf_inner fl_pending]. intros y. apply pend_at_sub.
Qed.

(* this transaction's pending list stays duplicate-free (J transported) *)
Theorem engine_free_nodup s p n :
  NoDup (pend_at (Engine.txid s) (Engine.pending s)) ->
  NoDup (pend_at (Engine.txid (Engine.free_pages s p n)) (Engine.pending (Engine.free_pages s p n))).
Proof.
  intros H. apply J_abs0 in H. apply (tx_free_J _ p n) in H.
  pose proof (free_pages_sim s (abs0 s) p n (R_abs0 s)) as HR.
  destruct (R_fields _ _ HR) as (_ & F2 & _ & F4 & _).
  destruct (J_facts _ H) as [Hnd _]. rewrite F2, F4 in Hnd. exact Hnd.
Qed.

Theorem engine_free_once s p n :
  (Engine.freed_in_tx s p = true -> Engine.free_pages s p 1 = s) /\
  (forall x, p <= x < p + n -> Engine.freed_in_tx (Engine.free_pages s p n) x = true).
Proof.
  split; [apply engine_free_again|]. intros x Hx. apply engine_free_freed. right. exact Hx.
Qed.

Theorem engine_all_pages_perm s :
  Permutation (Engine.all_pages s) (Engine.free s ++ flat_map snd (Engine.pending s)) /\
  (asc (Engine.free s) -> StronglySorted N.le (Engine.all_pages s)).
Proof.
  rewrite all_pages_eq. split.
  - apply (fl_pages_perm (mkFl (Engine.free s) (Engine.pending s))).
  - intros H. apply fl_pages_sorted. exact H.
Qed.

(* ------------------------------------------------------------------ *)
(** * 4. The engine's writer begin *)

Theorem begin_w_eq st :
  let w := Freelist.begin_writer (mkFl (Engine.d_free st) (Engine.d_pending st))
             (Engine.d_np st) (Engine.d_tx st) (Engine.d_psz st) [] in
  let s := Engine.begin_w st in
  Engine.free s = fl_free (tf_inner w) /\ Engine.pending s = fl_pending (tf_inner w) /\
  Engine.txid s = tf_tx w /\ Engine.np s = tf_np w /\ Engine.psz s = tf_psz w /\
  tf_freed w = [] /\
  Engine.wr s = [] /\ Engine.flw s = None /\ Engine.seqc s = 1.
Proof.
  cbv zeta. unfold Engine.begin_w, Freelist.begin_writer. cbn [fl_free fl_pending].
  rewrite release_eq.
  destruct (Freelist.release (Engine.d_tx st + 1) (Engine.d_free st) (Engine.d_pending st)) as [fr pd].
  cbn. repeat split.
Qed.

(* hence the fresh writer state is related to Freelist's begin_writer, and J holds when the
   shared pending map has no entry for the new id (keys are ids of committed writers) *)
Corollary begin_w_R st :
  R (Engine.begin_w st)
    (abs (Engine.begin_w st)
         (pend_at (Engine.d_tx st + 1) (Engine.pending (Engine.begin_w st)))).
Proof.
  pose proof (R_abs0 (Engine.begin_w st)) as H. unfold abs0 in H.
  destruct (begin_w_eq st) as (_ & _ & Htx & _). cbv zeta in Htx.
  replace (Engine.txid (Engine.begin_w st)) with (Engine.d_tx st + 1) in H at 1; [exact H|].
  rewrite Htx. unfold Freelist.begin_writer. cbn [fl_free fl_pending].
  destruct (Freelist.release _ _ _); reflexivity.
Qed.

Corollary begin_w_abs st :
  (forall e, In e (Engine.d_pending st) -> fst e <= Engine.d_tx st) ->
  abs0 (Engine.begin_w st) =
  Freelist.begin_writer (mkFl (Engine.d_free st) (Engine.d_pending st))
    (Engine.d_np st) (Engine.d_tx st) (Engine.d_psz st) [].
Proof.
  intros Hk. unfold abs0, abs, Engine.begin_w, Freelist.begin_writer. cbn [fl_free fl_pending].
  rewrite release_eq.
  assert (Hall : forall pd fr, (forall e, In e pd -> fst e <= Engine.d_tx st) ->
            snd (Freelist.release (Engine.d_tx st + 1) fr pd) = []).
  { induction pd as [|[u ps] pd IH]; intros fr H; cbn [Freelist.release]; [reflexivity|].
    assert (Hu : u <= Engine.d_tx st) by (apply (H (u, ps)); left; reflexivity).
    destruct (N.ltb_spec u (Engine.d_tx st + 1)); [|lia].
    apply IH. intros e He. apply H. right. exact He. }
  specialize (Hall (Engine.d_pending st) (Engine.d_free st) Hk).
  destruct (Freelist.release (Engine.d_tx st + 1) (Engine.d_free st) (Engine.d_pending st)) as [fr pd].
  cbn [snd] in Hall. subst pd. cbn. reflexivity.
Qed.

(* ------------------------------------------------------------------ *)
(** * 5. Non-vacuity *)

Definition ex_s : Engine.txs :=
  {| Engine.free := [2; 4; 6; 8; 9; 10]; Engine.pending := [(3, [11]); (5, [12; 13])];
     Engine.txid := 6; Engine.np := 20; Engine.psz := 4096;
     Engine.wr := []; Engine.flw := None; Engine.seqc := 1 |}.

Example ex_abs : abs ex_s [] = FreelistFacts.ex_tx.
Proof. vm_compute. reflexivity. Qed.
Example ex_R : R ex_s FreelistFacts.ex_tx.
Proof. rewrite <- ex_abs. apply (R_abs0 ex_s). Qed.
Example ex_hyps : asc (Engine.free ex_s) /\ ge2 (Engine.free ex_s) /\ 0 < Engine.psz ex_s.
Proof. split; [|split]; cbn; repeat constructor; lia. Qed.

Example ex_alloc_free :
  Engine.tx_allocate ex_s 8192 = (8, 2, Engine.upd_free ex_s [2; 4; 6; 10]).
Proof. vm_compute. reflexivity. Qed.
Example ex_alloc_grow :
  Engine.tx_allocate ex_s 16385 = (20, 5, Engine.upd_np ex_s 25).
Proof. vm_compute. reflexivity. Qed.
(* both branches of engine_alloc_spec are inhabited *)
Example ex_alloc_spec_free :
  Engine.np (snd (Engine.tx_allocate ex_s 8192)) = Engine.np ex_s /\
  ~ In 8 (Engine.free (snd (Engine.tx_allocate ex_s 8192))).
Proof. vm_compute. split; [reflexivity|]. intuition discriminate. Qed.
Example ex_alloc_spec_grow :
  fst (fst (Engine.tx_allocate ex_s 16385)) = Engine.np ex_s /\
  Engine.np (snd (Engine.tx_allocate ex_s 16385)) = 25.
Proof. vm_compute. split; reflexivity. Qed.

Example ex_free_pages :
  Engine.pending (Engine.free_pages ex_s 14 2) = [(3, [11]); (5, [12; 13]); (6, [14; 15])] /\
  abs (Engine.free_pages ex_s 14 2) [15; 14] = Freelist.tx_free FreelistFacts.ex_tx 14 2.
Proof. vm_compute. split; reflexivity. Qed.
Example ex_free_twice :
  Engine.free_pages (Engine.free_pages ex_s 14 2) 15 1 = Engine.free_pages ex_s 14 2 /\
  Engine.freed_in_tx (Engine.free_pages ex_s 14 2) 15 = true /\
  Engine.freed_in_tx (Engine.free_pages ex_s 14 2) 13 = false.
Proof. vm_compute. repeat split. Qed.
(* 13 is pending under an older id: freeing it again in tx 6 does add it (D4 repair is per-transaction) *)
Example ex_free_other_tx :
  Engine.pending (Engine.free_pages ex_s 13 1) = [(3, [11]); (5, [12; 13]); (6, [13])].
Proof. vm_compute. reflexivity. Qed.

Example ex_all_pages :
  Engine.all_pages (Engine.free_pages ex_s 7 1) = [2; 4; 6; 7; 8; 9; 10; 11; 12; 13].
Proof. vm_compute. reflexivity. Qed.

Definition ex_db : Engine.db :=
  {| Engine.d_disk := []; Engine.d_root := 3; Engine.d_next := 0; Engine.d_np := 20; Engine.d_fl := 2;
     Engine.d_fln := 1; Engine.d_flids := []; Engine.d_tx := 5;
     Engine.d_free := [2; 4; 6; 8; 9; 10]; Engine.d_pending := [(3, [11; 3]); (5, [12; 13])];
     Engine.d_psz := 4096 |}.
Example ex_begin_w :
  Engine.free (Engine.begin_w ex_db) = [2; 3; 4; 6; 8; 9; 10; 11; 12; 13] /\
  Engine.pending (Engine.begin_w ex_db) = [] /\ Engine.txid (Engine.begin_w ex_db) = 6 /\
  abs0 (Engine.begin_w ex_db) =
    Freelist.begin_writer (mkFl (Engine.d_free ex_db) (Engine.d_pending ex_db)) 20 5 4096 [].
Proof. vm_compute. repeat split. Qed.

(* ------------------------------------------------------------------ *)
Print Assumptions sins_eq.
Print Assumptions sins_dup_eq.
Print Assumptions pend_add_eq.
Print Assumptions release_eq.
Print Assumptions alloc_scan_eq.
Print Assumptions fl_allocate_eq.
Print Assumptions all_pages_eq.
Print Assumptions R_abs0.
Print Assumptions R_of_J.
Print Assumptions tx_allocate_sim.
Print Assumptions free_pages_sim.
Print Assumptions free_pages_sim_J.
Print Assumptions engine_alloc_spec.
Print Assumptions engine_free_once.
Print Assumptions engine_free_freed.
Print Assumptions engine_free_pend_all.
Print Assumptions engine_free_nodup.
Print Assumptions engine_free_fields.
Print Assumptions engine_all_pages_perm.
Print Assumptions begin_w_eq.
Print Assumptions begin_w_abs.
