(* Completeness of the page walk of delete_bucket: [free_tree] hands back EVERY page run of the footprint of
   the deleted bucket (its own tree, overflow pages, every nested bucket). Converse of EngineOwnOps.free_tree_foot. *)
From Coq Require Import List NArith Bool Arith Lia ZifyN ZifyNat ZifyBool Permutation.
From Coq.Strings Require Import Byte.
From Jamm Require Spec.
From Jamm Require Import Bytes BytesFacts Tree Cursor SearchFacts Engine EngineAbs EngineFacts EngineMergeFacts.
From Jamm Require Import EngineModifyFacts EngineSpillFacts EnginePathFacts EngineBridgeFacts EngineRebalanceFacts.
From Jamm Require FreelistFacts EngineAllocFacts EngineSpillWfFacts.
From Jamm Require Import EngineTxInvFacts EngineSpillBucketFacts EngineRefines.
From Jamm Require Import EngineOwnDefs EngineOwnWr EngineOwnOps.
Import ListNotations.
Import Coq.Strings.String.StringSyntax. Delimit Scope string_scope with string.
Local Open Scope list_scope. Local Open Scope nat_scope.
Set Warnings "-abstract-large-number".
Arguments N.add : simpl never. Arguments N.sub : simpl never. Arguments N.mul : simpl never.
Arguments N.div : simpl never. Arguments N.ltb : simpl never. Arguments N.leb : simpl never.
Arguments N.eqb : simpl never.

(* head page x is reachable from head page q: through branch entries and through nested-bucket entries *)
Inductive breach (d : disk) : N -> N -> Prop :=
| br_self : forall q, breach d q q
| br_kid : forall q a es e x, dget d q = Some a -> ap_body a = Branches es -> In e es ->
    breach d (snd e) x -> breach d q x
| br_sub : forall q a l k r nx x, dget d q = Some a -> ap_body a = Leaves l -> In (LBk k r nx) l ->
    breach d r x -> breach d q x.

Lemma breach_trans : forall d a b c, breach d a b -> breach d b c -> breach d a c.
Proof.
  intros d a b c H. induction H as [q | q a0 es e x Hg Hb He _ IH | q a0 l k r nx x Hg Hb He _ IH]; intros Hc.
  - exact Hc.
  - eapply br_kid; eauto.
  - eapply br_sub; eauto.
Qed.

Lemma subtree_breach : forall d q x, in_subtree d q x -> breach d q x.
Proof.
  intros d q x H. induction H as [q | q a es e x Hg Hb He _ IH]; [apply br_self | eapply br_kid; eauto].
Qed.

(* an entry listed by [page_ents] sits in a leaf page of the subtree *)
Lemma page_ents_leaf_in : forall f d r e, In e (page_ents f d r) ->
  exists q a l, in_subtree d r q /\ dget d q = Some a /\ ap_body a = Leaves l /\ In e l.
Proof.
  induction f as [|f IH]; intros d r e H; [destruct H|]. cbn [page_ents] in H.
  destruct (dget d r) as [a|] eqn:Hg; [|destruct H]. destruct (ap_body a) as [l|es] eqn:Hb.
  - exists r, a, l. split; [apply ist_self | auto].
  - apply in_flat_map in H. destruct H as (e0 & He0 & H). destruct (IH d (snd e0) e H) as (q & a' & l & Hs & Hq & Hl & Hin).
    exists q, a', l. split; [eapply ist_kid; eauto | auto].
Qed.

(* every head page of the footprint is reachable *)
Lemma fpg_breach : forall n d r q, In q (fpg n d r) -> breach d r q.
Proof.
  induction n as [|n IH]; intros d r q H; [destruct H|]. rewrite fpg_S in H. apply in_app_or in H. destruct H as [H|H].
  - destruct H as [<-|H]; [apply br_self|]. apply subtree_breach. eapply ppages_subtree; eauto.
  - apply in_flat_map in H. destruct H as ([k v|k r' nx] & He & H); [destruct H|].
    destruct (page_ents_leaf_in _ _ _ _ He) as (q0 & a & l & Hs & Hg & Hb & Hin).
    eapply breach_trans; [apply subtree_breach; exact Hs|]. eapply br_sub; eauto.
Qed.

Lemma free_tree_mono : forall fuel d stack s s1, free_tree fuel d stack s = Ok s1 ->
  forall x, freed_in_tx s x = true -> freed_in_tx s1 x = true.
Proof.
  induction fuel as [|f IH]; intros d stack s s1 H x Hx; cbn [free_tree] in H; [discriminate|].
  destruct stack as [|p rest]; [inversion H; subst; exact Hx|].
  destruct (dget d p) as [a|]; [|discriminate]. eapply IH; [exact H|]. apply free_pages_freed. now left.
Qed.

(* the walk hands back the run of every page reachable from the stack *)
Theorem free_tree_complete : forall fuel d stack s s1, free_tree fuel d stack s = Ok s1 ->
  forall p q x, In p stack -> breach d p q -> In x (prun d q) -> freed_in_tx s1 x = true.
Proof.
  induction fuel as [|f IH]; intros d stack s s1 H p q x Hp Hq Hx; cbn [free_tree] in H; [discriminate|].
  destruct stack as [|p0 rest]; [destruct Hp|].
  destruct (dget d p0) as [a|] eqn:Hg; [|discriminate].
  destruct Hp as [<-|Hp].
  2:{ eapply (IH _ _ _ _ H p q x); [apply in_or_app; now right | exact Hq | exact Hx]. }
  inversion Hq as [q0 | q0 a0 es e x0 Hg0 Hb0 He Hr | q0 a0 l k r nx x0 Hg0 Hb0 He Hr]; subst.
  - eapply free_tree_mono; [exact H|]. apply free_pages_freed. right. unfold prun in Hx. rewrite Hg in Hx.
    apply In_nrun in Hx. exact Hx.
  - rewrite Hg in Hg0. inversion Hg0; subst a0. rewrite Hb0 in H.
    eapply (IH _ _ _ _ H (snd e) q x); [|exact Hr | exact Hx].
    apply in_or_app. left. apply -> in_rev. now apply in_map.
  - rewrite Hg in Hg0. inversion Hg0; subst a0. rewrite Hb0 in H.
    eapply (IH _ _ _ _ H r q x); [|exact Hr | exact Hx].
    apply in_or_app. left. apply -> in_rev. apply in_flat_map. exists (LBk k r nx). split; [exact He | now left].
Qed.

(* ... in particular the whole footprint of the bucket rooted at r *)
Corollary free_tree_foot_complete : forall fuel d n r s s1, free_tree fuel d [r] s = Ok s1 ->
  forall x, In x (foot d n r) -> freed_in_tx s1 x = true.
Proof.
  intros fuel d n r s s1 H x Hx. unfold foot in Hx. destruct (r =? 0)%N; [destruct Hx|].
  apply In_runs in Hx. destruct Hx as (q & Hq & Hx).
  eapply (free_tree_complete _ _ _ _ _ H r q x); [now left | eapply fpg_breach; eauto | exact Hx].
Qed.

Print Assumptions free_tree_foot_complete.
