(* Facts about the read path: the byte-string order, Rust's binary search, the descent of
   [search], and point lookup [get] as association in the flattened tree.

   Main results (all closed under the global context):
     bcmp_refl / bcmp_eq / bcmp_antisym / bcmp_lt_trans ...   order facts
     sorted_keys_nth                                          sortedness, index form
     bsearch_found / bsearch_missing / bsearch_complete       (= bsearch_spec)
     slot_spec                                                what index_of picks in a branch
     search_path / search_path_wf                             the stack is a root-to-leaf path
     wf_shape_seps_sorted                                     wf_shape gives [seps_sorted]
     get_spec_gen                                             get = find, under [seps_sorted]
     get_spec                                                 get = find, for wf_tree
     old_cex_rejected                                         the former counterexample is no longer wf *)
From Coq Require Import List NArith Bool Arith Lia.
From Coq.Strings Require Import Byte.
From Jamm Require Import Bytes Codec Tree Spec Cursor.
Import ListNotations.
Local Open Scope list_scope. Local Open Scope nat_scope.

(* ====================================================================== *)
(** * 1. Order facts for [bcmp] *)

Lemma byte_to_N_inj : forall x y, Byte.to_N x = Byte.to_N y -> x = y.
Proof.
  intros x y H.
  pose proof (Byte.of_to_N x) as Hx. pose proof (Byte.of_to_N y) as Hy.
  rewrite H in Hx. rewrite Hx in Hy. now inversion Hy.
Qed.

Lemma bcmp_refl : forall a, bcmp a a = Eq.
Proof.
  induction a as [|x a IH]; cbn; [reflexivity|].
  now rewrite N.compare_refl.
Qed.

Lemma bcmp_eq : forall a b, bcmp a b = Eq -> a = b.
Proof.
  induction a as [|x a IH]; intros [|y b] H; cbn in H; try discriminate; [reflexivity|].
  destruct (N.compare (Byte.to_N x) (Byte.to_N y)) eqn:E; try discriminate.
  apply N.compare_eq in E. apply byte_to_N_inj in E. subst y.
  f_equal. now apply IH.
Qed.

Lemma bcmp_eq_iff : forall a b, bcmp a b = Eq <-> a = b.
Proof. split; [apply bcmp_eq | intros ->; apply bcmp_refl]. Qed.

Lemma bcmp_antisym : forall a b, bcmp a b = CompOpp (bcmp b a).
Proof.
  induction a as [|x a IH]; intros [|y b]; cbn; try reflexivity.
  rewrite (N.compare_antisym (Byte.to_N x) (Byte.to_N y)).
  destruct (N.compare (Byte.to_N x) (Byte.to_N y)); cbn; auto.
Qed.

Lemma bcmp_lt_gt : forall a b, bcmp a b = Lt <-> bcmp b a = Gt.
Proof.
  intros a b. rewrite (bcmp_antisym a b). destruct (bcmp b a); cbn; split; congruence.
Qed.

Lemma bcmp_lt_trans : forall a b c, bcmp a b = Lt -> bcmp b c = Lt -> bcmp a c = Lt.
Proof.
  induction a as [|x a IH]; intros [|y b] [|z c] H1 H2; cbn in *; try discriminate; try reflexivity.
  destruct (N.compare (Byte.to_N x) (Byte.to_N y)) eqn:E1; try discriminate;
  destruct (N.compare (Byte.to_N y) (Byte.to_N z)) eqn:E2; try discriminate.
  - apply N.compare_eq in E1. rewrite E1, E2. eauto.
  - apply N.compare_eq in E1. rewrite E1, E2. reflexivity.
  - apply N.compare_eq in E2. rewrite <- E2, E1. reflexivity.
  - rewrite N.compare_lt_iff in E1, E2.
    assert (E3 : (Byte.to_N x < Byte.to_N z)%N) by (eapply N.lt_trans; eauto).
    rewrite <- N.compare_lt_iff in E3. now rewrite E3.
Qed.

Lemma bcmp_gt_trans : forall a b c, bcmp a b = Gt -> bcmp b c = Gt -> bcmp a c = Gt.
Proof.
  intros a b c H1 H2. apply bcmp_lt_gt in H1, H2. apply bcmp_lt_gt. eapply bcmp_lt_trans; eauto.
Qed.

(* "a <= b" is [bcmp a b <> Gt] *)
Lemma bcmp_le_lt_trans : forall a b c, bcmp a b <> Gt -> bcmp b c = Lt -> bcmp a c = Lt.
Proof.
  intros a b c H1 H2. destruct (bcmp a b) eqn:E; try congruence.
  - apply bcmp_eq in E. now subst.
  - eapply bcmp_lt_trans; eauto.
Qed.

Lemma bcmp_lt_le_trans : forall a b c, bcmp a b = Lt -> bcmp b c <> Gt -> bcmp a c = Lt.
Proof.
  intros a b c H1 H2. destruct (bcmp b c) eqn:E; try congruence.
  - apply bcmp_eq in E. now subst.
  - eapply bcmp_lt_trans; eauto.
Qed.

Lemma bcmp_le_trans : forall a b c, bcmp a b <> Gt -> bcmp b c <> Gt -> bcmp a c <> Gt.
Proof.
  intros a b c H1 H2. destruct (bcmp a b) eqn:E; try congruence.
  - apply bcmp_eq in E. now subst.
  - rewrite (bcmp_lt_le_trans a b c E H2). discriminate.
Qed.

Lemma blt_true : forall a b, blt a b = true <-> bcmp a b = Lt.
Proof. intros a b. unfold blt. destruct (bcmp a b); split; congruence. Qed.
Lemma ble_true : forall a b, ble a b = true <-> bcmp a b <> Gt.
Proof. intros a b. unfold ble. destruct (bcmp a b); split; congruence. Qed.
Lemma beq_true : forall a b, beq a b = true <-> a = b.
Proof.
  intros a b. unfold beq. rewrite <- bcmp_eq_iff. destruct (bcmp a b); split; congruence.
Qed.
Lemma beq_false_lt : forall a b, bcmp a b = Lt -> beq a b = false.
Proof. intros a b H. unfold beq. now rewrite H. Qed.
Lemma beq_false_gt : forall a b, bcmp a b = Gt -> beq a b = false.
Proof. intros a b H. unfold beq. now rewrite H. Qed.

(* ====================================================================== *)
(** * 2. [sorted_keys] *)

Lemma sorted_keys_cons : forall a l,
  sorted_keys (a :: l) = true ->
  Forall (fun x => bcmp a x = Lt) l /\ sorted_keys l = true.
Proof.
  intros a l; revert a. induction l as [|b l IH]; intros a H.
  - split; [constructor | reflexivity].
  - change (blt a b && sorted_keys (b :: l) = true) in H.
    apply andb_true_iff in H. destruct H as [Hab Hs]. apply blt_true in Hab.
    destruct (IH b Hs) as [Hall _]. split; [|exact Hs].
    constructor; [exact Hab|].
    eapply Forall_impl; [|exact Hall]. cbn. intros x Hx. eapply bcmp_lt_trans; eauto.
Qed.

Lemma sorted_keys_tl : forall a l, sorted_keys (a :: l) = true -> sorted_keys l = true.
Proof. intros a l H. apply (sorted_keys_cons a l H). Qed.

Lemma sorted_keys_cons_intro : forall a l,
  Forall (fun x => bcmp a x = Lt) l -> sorted_keys l = true -> sorted_keys (a :: l) = true.
Proof.
  intros a [|b l] Hall Hs; [reflexivity|].
  change (blt a b && sorted_keys (b :: l) = true).
  apply andb_true_iff. split; [|exact Hs]. apply blt_true. now inversion Hall.
Qed.

Theorem sorted_keys_nth : forall l, sorted_keys l = true ->
  forall i j, i < j < length l -> bcmp (nth i l []) (nth j l []) = Lt.
Proof.
  induction l as [|a l IH]; intros Hs i j Hij; cbn in Hij; [lia|].
  destruct (sorted_keys_cons a l Hs) as [Hall Hs'].
  destruct j as [|j]; [lia|]. destruct i as [|i]; cbn [nth].
  - rewrite Forall_forall in Hall. apply Hall. apply nth_In. lia.
  - apply IH; [exact Hs' | lia].
Qed.

Lemma sorted_keys_app : forall a b, sorted_keys (a ++ b) = true ->
  sorted_keys a = true /\ sorted_keys b = true.
Proof.
  induction a as [|x a IH]; intros b H; [split; [reflexivity | exact H]|].
  cbn [app] in H. destruct (sorted_keys_cons _ _ H) as [Hall Hs].
  destruct (IH b Hs) as [Ha Hb]. split; [|exact Hb].
  apply sorted_keys_cons_intro; [|exact Ha].
  rewrite Forall_app in Hall. apply Hall.
Qed.

(* ====================================================================== *)
(** * 3. Binary search *)

(* sortedness of the keys at indices >= 1 is all the loop ever uses: [mid] is never 0 *)
Definition sorted_from1 (keys : list bytes) : Prop :=
  forall i j, 1 <= i -> i < j -> j < length keys -> bcmp (nth i keys []) (nth j keys []) = Lt.

Lemma sorted_from1_of_sorted : forall keys, sorted_keys keys = true -> sorted_from1 keys.
Proof. intros keys Hs i j _ Hij Hj. apply sorted_keys_nth; [exact Hs | lia]. Qed.

Lemma sorted_from1_of_tl : forall keys, sorted_keys (tl keys) = true -> sorted_from1 keys.
Proof.
  intros [|a keys] Hs i j Hi Hij Hj; cbn in Hj; [lia|]. cbn [tl] in Hs.
  destruct i as [|i]; [lia|]. destruct j as [|j]; [lia|]. cbn [nth].
  apply sorted_keys_nth; [exact Hs | lia].
Qed.

Lemma half_bounds : forall size, 2 <= size -> 1 <= size / 2 /\ size / 2 <= size - size / 2 /\ size / 2 < size.
Proof.
  intros size Hs.
  pose proof (Nat.div_mod size 2 ltac:(lia)) as Hdm.
  pose proof (Nat.mod_upper_bound size 2 ltac:(lia)) as Hm.
  remember (size / 2) as half. remember (size mod 2) as r. lia.
Qed.

(* the loop invariant and what it yields on exit *)
Lemma bs_loop_spec : forall keys t, sorted_from1 keys ->
  forall fuel base size,
    1 <= size -> size <= S fuel -> base + size <= length keys ->
    (base = 0 \/ bcmp (nth base keys []) t <> Gt) ->
    (forall j, base + size <= j -> j < length keys -> bcmp (nth j keys []) t = Gt) ->
    let b := bs_loop fuel keys t base size in
    b < length keys /\
    (b = 0 \/ bcmp (nth b keys []) t <> Gt) /\
    (forall j, b < j -> j < length keys -> bcmp (nth j keys []) t = Gt).
Proof.
  intros keys t Hsorted. induction fuel as [|f IH]; intros base size H1 Hf Hlen Hlo Hhi.
  - cbn [bs_loop]. assert (size = 1) by lia. subst size.
    repeat split; [lia | exact Hlo |]. intros j Hj Hjl. apply Hhi; lia.
  - cbn [bs_loop]. destruct (size <=? 1) eqn:Es.
    + apply Nat.leb_le in Es. assert (size = 1) by lia. subst size.
      repeat split; [lia | exact Hlo |]. intros j Hj Hjl. apply Hhi; lia.
    + apply Nat.leb_gt in Es.
      destruct (half_bounds size ltac:(lia)) as (Hh1 & Hh2 & Hh3).
      remember (size / 2) as half eqn:Ehalf. cbv zeta.
      destruct (bcmp (nth (base + half) keys []) t) eqn:Ec.
      * apply IH; try lia.
        -- right. rewrite Ec. discriminate.
        -- intros j Hj Hjl. apply Hhi; lia.
      * apply IH; try lia.
        -- right. rewrite Ec. discriminate.
        -- intros j Hj Hjl. apply Hhi; lia.
      * apply IH; try lia.
        -- exact Hlo.
        -- intros j Hj Hjl.
           destruct (Nat.eq_dec j (base + half)) as [->|Hne]; [exact Ec|].
           apply bcmp_lt_gt. eapply bcmp_lt_trans; [apply bcmp_lt_gt; exact Ec|].
           apply Hsorted; lia.
Qed.

Lemma bs_loop_final : forall keys t, keys <> [] -> sorted_from1 keys ->
  let b := bs_loop (length keys) keys t 0 (length keys) in
  b < length keys /\
  (b = 0 \/ bcmp (nth b keys []) t <> Gt) /\
  (forall j, b < j -> j < length keys -> bcmp (nth j keys []) t = Gt).
Proof.
  intros keys t Hne Hs.
  assert (1 <= length keys) by (destruct keys; [congruence | cbn; lia]).
  apply bs_loop_spec; try lia; auto.
Qed.

(** ** bsearch_spec, in three parts *)

Theorem bsearch_found : forall keys k i, sorted_keys keys = true ->
  bsearch keys k = (true, i) -> nth_error keys i = Some k.
Proof.
  intros keys k i Hs H. unfold bsearch in H.
  destruct keys as [|a keys']; [discriminate|].
  remember (a :: keys') as keys eqn:Ek.
  assert (Hne : keys <> []) by (subst; discriminate).
  destruct (bs_loop_final keys k Hne (sorted_from1_of_sorted _ Hs)) as (Hb & _ & _).
  cbv zeta in Hb. remember (bs_loop (length keys) keys k 0 (length keys)) as b.
  destruct (bcmp (nth b keys []) k) eqn:Ec; inversion H; subst i.
  apply bcmp_eq in Ec. rewrite <- Ec. apply nth_error_nth'. exact Hb.
Qed.

Theorem bsearch_missing : forall keys k i, sorted_keys keys = true ->
  bsearch keys k = (false, i) ->
  i <= length keys /\
  (forall j, j < i -> bcmp (nth j keys []) k = Lt) /\
  (forall j, i <= j < length keys -> bcmp (nth j keys []) k = Gt).
Proof.
  intros keys k i Hs H. unfold bsearch in H.
  destruct keys as [|a keys'].
  { inversion H; subst. cbn. repeat split; intros; lia. }
  remember (a :: keys') as keys eqn:Ek.
  assert (Hne : keys <> []) by (subst; discriminate).
  destruct (bs_loop_final keys k Hne (sorted_from1_of_sorted _ Hs)) as (Hb & Hlo & Hhi).
  cbv zeta in Hb, Hlo, Hhi. remember (bs_loop (length keys) keys k 0 (length keys)) as b.
  destruct (bcmp (nth b keys []) k) eqn:Ec; inversion H; subst i.
  - repeat split; [lia | | ].
    + intros j Hj. destruct (Nat.eq_dec j b) as [->|Hjb]; [exact Ec|].
      eapply bcmp_lt_trans; [|exact Ec]. apply sorted_keys_nth; [exact Hs | lia].
    + intros j Hj. apply Hhi; lia.
  - destruct Hlo as [Hb0 | Hle]; [|congruence]. repeat split; [lia | intros; lia |].
    intros j Hj. destruct (Nat.eq_dec j b) as [->|Hjb]; [exact Ec | apply Hhi; lia].
Qed.

Theorem bsearch_complete : forall keys k, sorted_keys keys = true ->
  In k keys -> exists i, bsearch keys k = (true, i).
Proof.
  intros keys k Hs Hin.
  destruct (bsearch keys k) as [[|] i] eqn:E; [eauto|].
  exfalso. destruct (bsearch_missing keys k i Hs E) as (Hi & Hlt & Hgt).
  destruct (In_nth keys k [] Hin) as (m & Hm & Hnth).
  destruct (Nat.lt_ge_cases m i) as [Hmi | Hmi].
  - specialize (Hlt m Hmi). rewrite Hnth, bcmp_refl in Hlt. discriminate.
  - specialize (Hgt m (conj Hmi Hm)). rewrite Hnth, bcmp_refl in Hgt. discriminate.
Qed.

(* the conjunction, as one statement *)
Theorem bsearch_spec : forall keys k, sorted_keys keys = true ->
  (forall i, bsearch keys k = (true, i) -> nth_error keys i = Some k) /\
  (forall i, bsearch keys k = (false, i) ->
     i <= length keys /\
     (forall j, j < i -> bcmp (nth j keys []) k = Lt) /\
     (forall j, i <= j < length keys -> bcmp (nth j keys []) k = Gt)) /\
  (In k keys -> exists i, bsearch keys k = (true, i)).
Proof.
  intros keys k Hs. split; [|split].
  - intros i. now apply bsearch_found.
  - intros i. now apply bsearch_missing.
  - now apply bsearch_complete.
Qed.

Corollary bsearch_missing_notin : forall keys k i, sorted_keys keys = true ->
  bsearch keys k = (false, i) -> ~ In k keys.
Proof.
  intros keys k i Hs H Hin. destruct (bsearch_complete keys k Hs Hin) as [i' Hi']. congruence.
Qed.

(** ** The slot [index_of] picks: needs sortedness only from index 1 on (the first separator of a
    branch is never looked at before the final comparison, and there all three outcomes give 0) *)
Definition slot (keys : list bytes) (k : bytes) : nat :=
  match bsearch keys k with (true, i) => i | (false, i) => pred i end.

Lemma index_of_slot : forall t k, fst (index_of t k) = slot (keys_of t) k.
Proof. intros t k. unfold index_of, slot. now destruct (bsearch (keys_of t) k) as [[|] i]. Qed.

Theorem slot_spec : forall keys k, keys <> [] -> sorted_from1 keys ->
  let s := slot keys k in
  s < length keys /\
  (forall j, 1 <= j -> j <= s -> bcmp (nth j keys []) k <> Gt) /\
  (forall j, s < j -> j < length keys -> bcmp (nth j keys []) k = Gt).
Proof.
  intros keys k Hne Hs.
  destruct (bs_loop_final keys k Hne Hs) as (Hb & Hlo & Hhi). cbv zeta in Hb, Hlo, Hhi.
  assert (Eslot : slot keys k = bs_loop (length keys) keys k 0 (length keys)).
  { unfold slot, bsearch. destruct keys as [|a keys']; [congruence|].
    remember (a :: keys') as keys. remember (bs_loop (length keys) keys k 0 (length keys)) as b.
    destruct (bcmp (nth b keys []) k) eqn:Ec; cbn [pred]; try reflexivity.
    destruct Hlo as [-> | Hle]; [reflexivity | congruence]. }
  cbv zeta. rewrite Eslot. remember (bs_loop (length keys) keys k 0 (length keys)) as b.
  repeat split; [exact Hb | | exact Hhi].
  intros j Hj1 Hjb. destruct Hlo as [Hb0 | Hle]; [lia|].
  destruct (Nat.eq_dec j b) as [->|Hjb']; [exact Hle|].
  assert (Hlt : bcmp (nth j keys []) (nth b keys []) = Lt) by (apply Hs; lia).
  rewrite (bcmp_lt_le_trans _ _ _ Hlt Hle). discriminate.
Qed.

(* ====================================================================== *)
(** * 4. Trees: induction principle, auxiliary predicates *)

Section tree_ind'.
  Variable P : tree -> Prop.
  Hypothesis HL : forall p o l, P (TL p o l).
  Hypothesis HB : forall p o ks, Forall (fun kt : bytes * tree => P (snd kt)) ks -> P (TB p o ks).
  Fixpoint tree_ind' (t : tree) : P t :=
    match t with
    | TL p o l => HL p o l
    | TB p o ks =>
        HB p o ks
          ((fix go (ks : list (bytes * tree)) : Forall (fun kt : bytes * tree => P (snd kt)) ks :=
              match ks with
              | [] => Forall_nil _
              | kt :: ks' => Forall_cons kt (tree_ind' (snd kt)) (go ks')
              end) ks)
    end.
End tree_ind'.

(* every branch's separators are strictly ascending from the SECOND one on. The first separator of a
   branch is unconstrained by [wf_shape] (child 0 is unbounded below) and is irrelevant to [search]. *)
Fixpoint seps_sorted (t : tree) : bool :=
  match t with
  | TL _ _ _ => true
  | TB _ _ ks =>
      sorted_keys (tl (map fst ks)) &&
      forallb (fun kt : bytes * tree => seps_sorted (snd kt)) ks
  end.

(** ** list helpers *)
Lemma find_app : forall {A} (f : A -> bool) a b,
  find f (a ++ b) = match find f a with Some x => Some x | None => find f b end.
Proof. intros A f a b. induction a as [|x a IH]; cbn; [reflexivity|]. now destruct (f x). Qed.

Lemma find_none_all : forall {A} (f : A -> bool) l, (forall x, In x l -> f x = false) -> find f l = None.
Proof.
  intros A f l H. induction l as [|x l IH]; cbn; [reflexivity|].
  rewrite (H x (or_introl eq_refl)). apply IH. intros y Hy. apply H. now right.
Qed.

Lemma In_firstn_nth : forall {A} (d : A) s l x,
  In x (firstn s l) -> exists j, j < s /\ j < length l /\ nth j l d = x.
Proof.
  intros A d. induction s as [|s IH]; intros [|a l] x H; cbn in H; try contradiction.
  destruct H as [-> | H].
  - exists 0. cbn. repeat split; lia.
  - destruct (IH l x H) as (j & Hj & Hjl & Hn). exists (S j). cbn. repeat split; try lia. exact Hn.
Qed.

Lemma In_skipn_nth : forall {A} (d : A) s l x,
  In x (skipn s l) -> exists j, s <= j /\ j < length l /\ nth j l d = x.
Proof.
  intros A d. induction s as [|s IH]; intros l x H.
  - cbn in H. destruct (In_nth l x d H) as (j & Hj & Hn). exists j. repeat split; try lia. exact Hn.
  - destruct l as [|a l]; cbn in H; [contradiction|].
    destruct (IH l x H) as (j & Hj & Hjl & Hn). exists (S j). cbn. repeat split; try lia. exact Hn.
Qed.

Lemma split_at_nth : forall {A} (d : A) s l, s < length l ->
  l = firstn s l ++ nth s l d :: skipn (S s) l.
Proof.
  intros A d. induction s as [|s IH]; intros [|a l] H; cbn in H; try lia; cbn.
  - reflexivity.
  - f_equal. apply IH. lia.
Qed.

(** ** [seps_ok], index form *)
Lemma seps_ok_nth : forall l first, seps_ok first l = true ->
  forall j, j < length l ->
    ((1 <= j \/ first = false) ->
       all_keys_ge (snd (nth j l ([], []))) (fst (nth j l ([], []))) = true) /\
    (S j < length l ->
       all_keys_lt (snd (nth j l ([], []))) (fst (nth (S j) l ([], []))) = true).
Proof.
  induction l as [|[k c] rest IH]; intros first H j Hj; cbn in Hj; [lia|].
  cbn [seps_ok] in H. apply andb_true_iff in H. destruct H as [H H3].
  apply andb_true_iff in H. destruct H as [H1 H2].
  destruct j as [|j].
  - cbn [nth fst snd]. split.
    + intros [Hc | ->]; [lia|]. exact H1.
    + intros Hl. destruct rest as [|[k' c'] rest']; cbn in Hl; [lia|]. exact H2.
  - destruct (IH false H3 j ltac:(lia)) as [Hge Hlt]. split.
    + intros _. cbn [nth]. apply Hge. now right.
    + intros Hl. cbn [length] in Hl. change (nth (S (S j)) ((k, c) :: rest) ([], [])) with (nth (S j) rest ([], [])).
      change (nth (S j) ((k, c) :: rest) ([], [])) with (nth j rest ([], [])).
      apply Hlt. lia.
Qed.

Lemma sorted_keys_cons2 : forall a b l, sorted_keys (a :: b :: l) = blt a b && sorted_keys (b :: l).
Proof. reflexivity. Qed.

Lemma seps_ok_sorted : forall l, seps_ok false l = true ->
  (forall kc, In kc l -> snd kc <> []) -> sorted_keys (map fst l) = true.
Proof.
  induction l as [|[k c] rest IH]; intros H Hne; [reflexivity|].
  destruct rest as [|[k' c'] rest']; [reflexivity|].
  cbn [seps_ok] in H. apply andb_true_iff in H. destruct H as [H H3].
  apply andb_true_iff in H. destruct H as [H1 H2]. cbn [orb] in H1.
  cbn [map fst]. rewrite sorted_keys_cons2. apply andb_true_iff. split.
  - assert (Hc : c <> []) by (apply (Hne (k, c)); now left).
    destruct c as [|e c]; [congruence|].
    cbn in H1, H2. apply andb_true_iff in H1, H2. destruct H1 as [H1 _]. destruct H2 as [H2 _].
    apply blt_true. apply ble_true in H1. apply blt_true in H2.
    eapply bcmp_le_lt_trans; eauto.
  - apply (IH H3). intros kc Hin. apply Hne. now right.
Qed.

(** ** structural consequences of [wf_shape] *)
Definition dkt : bytes * tree := ([], TL 0%N 0%N []).
Definition fl (kt : bytes * tree) : bytes * list lent := (fst kt, flatten (snd kt)).

Lemma wf_shape_TB : forall p o ks, wf_shape (TB p o ks) = true ->
  ks <> [] /\
  (forall kt, In kt ks -> wf_shape (snd kt) = true) /\
  seps_ok true (map fl ks) = true.
Proof.
  intros p o ks H. cbn [wf_shape] in H.
  apply andb_true_iff in H. destruct H as [H _].
  apply andb_true_iff in H. destruct H as [H H3].
  apply andb_true_iff in H. destruct H as [H _].
  apply andb_true_iff in H. destruct H as [H1 H2].
  split; [|split].
  - destruct ks; [discriminate | discriminate].
  - intros kt Hin. rewrite forallb_forall in H2. now apply H2.
  - exact H3.
Qed.

Lemma wf_shape_TB_sorted : forall p o ks, wf_shape (TB p o ks) = true ->
  sorted_keys (map fst ks) = true.
Proof.
  intros p o ks H. cbn [wf_shape] in H.
  apply andb_true_iff in H. destruct H as [H _].
  apply andb_true_iff in H. destruct H as [H _].
  apply andb_true_iff in H. destruct H as [_ H]. exact H.
Qed.

Lemma seps_sorted_TB : forall p o ks, seps_sorted (TB p o ks) = true ->
  sorted_keys (tl (map fst ks)) = true /\ (forall kt, In kt ks -> seps_sorted (snd kt) = true).
Proof.
  intros p o ks H. cbn [seps_sorted] in H. apply andb_true_iff in H. destruct H as [H1 H2].
  split; [exact H1|]. intros kt Hin. rewrite forallb_forall in H2. now apply H2.
Qed.

(** ** [wf_shape] (which now checks the separators of every branch) gives [seps_sorted] *)
Lemma sorted_keys_tl' : forall l, sorted_keys l = true -> sorted_keys (tl l) = true.
Proof. intros [|a l] H; [reflexivity|]. cbn [tl]. eapply sorted_keys_tl; eauto. Qed.

Lemma wf_shape_seps_sorted : forall t, wf_shape t = true -> seps_sorted t = true.
Proof.
  induction t as [p o l | p o ks IH] using tree_ind'; intros Hwf; [reflexivity|].
  destruct (wf_shape_TB p o ks Hwf) as (_ & Hwc & _).
  cbn [seps_sorted]. apply andb_true_iff. split.
  - apply sorted_keys_tl'. eapply wf_shape_TB_sorted; eauto.
  - apply forallb_forall. intros kt Hin. rewrite Forall_forall in IH. apply IH; auto.
Qed.

Lemma nodes_sum_in : forall (ks : list (bytes * tree)) kt, In kt ks ->
  nodes (snd kt) <= fold_right (fun kt acc => nodes (snd kt) + acc) 0 ks.
Proof.
  induction ks as [|a ks IH]; intros kt Hin; [contradiction|].
  cbn [fold_right]. destruct Hin as [-> | Hin]; [lia|].
  specialize (IH kt Hin). lia.
Qed.

Lemma nodes_child_lt : forall p o ks kt, In kt ks -> nodes (snd kt) < nodes (TB p o ks).
Proof. intros p o ks kt Hin. cbn [nodes]. pose proof (nodes_sum_in ks kt Hin). lia. Qed.

Lemma nodes_pos : forall t, 1 <= nodes t.
Proof. destruct t; cbn [nodes]; lia. Qed.

Lemma height_max_in : forall (ks : list (bytes * tree)) kt, In kt ks ->
  height (snd kt) <= fold_right (fun kt acc => Nat.max (height (snd kt)) acc) 0 ks.
Proof.
  induction ks as [|a ks IH]; intros kt Hin; [contradiction|].
  cbn [fold_right]. destruct Hin as [-> | Hin]; [lia|].
  specialize (IH kt Hin). lia.
Qed.

Lemma height_child_lt : forall p o ks kt, In kt ks -> height (snd kt) < height (TB p o ks).
Proof. intros p o ks kt Hin. cbn [height]. pose proof (height_max_in ks kt Hin). lia. Qed.

(* the fuel [S (nodes t)] used by the public API exceeds the height *)
Lemma height_le_nodes : forall t, height t <= nodes t.
Proof.
  induction t as [p o l | p o ks IH] using tree_ind'; cbn [height nodes]; [lia|].
  apply -> Nat.succ_le_mono.
  induction ks as [|kt ks IHks]; cbn [fold_right length]; [lia|].
  inversion IH as [|? ? IH0 IH1]; subst. specialize (IHks IH1). lia.
Qed.

(** ** the child picked by [index_of] in a branch: everything to its left is < k, to its right > k *)
Lemma branch_split : forall p o ks k,
  wf_shape (TB p o ks) = true -> sorted_keys (tl (map fst ks)) = true ->
  exists ks1 kc c ks2,
    ks = ks1 ++ (kc, c) :: ks2 /\ length ks1 = fst (index_of (TB p o ks) k) /\
    (forall e, In e (flat_map (fun kt => flatten (snd kt)) ks1) -> bcmp (lent_key e) k = Lt) /\
    (forall e, In e (flat_map (fun kt => flatten (snd kt)) ks2) -> bcmp (lent_key e) k = Gt).
Proof.
  intros p o ks k Hwf Hss.
  destruct (wf_shape_TB p o ks Hwf) as (Hne & _ & Hseps).
  rewrite index_of_slot. cbn [keys_of].
  assert (Hkne : map fst ks <> []) by (destruct ks; [congruence | discriminate]).
  destruct (slot_spec (map fst ks) k Hkne (sorted_from1_of_tl _ Hss)) as (Hs & Hlo & Hhi).
  cbv zeta in Hs, Hlo, Hhi. remember (slot (map fst ks) k) as s eqn:Es. clear Es.
  rewrite map_length in Hs, Hhi.
  assert (Hkey : forall j, nth j (map fst ks) [] = fst (nth j ks dkt)).
  { intros j. change (@nil byte) with (fst dkt). apply map_nth. }
  assert (Hfl : forall j, nth j (map fl ks) ([], []) = fl (nth j ks dkt)).
  { intros j. change (@nil byte, @nil lent) with (fl dkt). apply map_nth. }
  pose proof (seps_ok_nth (map fl ks) true Hseps) as Hsep. rewrite map_length in Hsep.
  exists (firstn s ks), (fst (nth s ks dkt)), (snd (nth s ks dkt)), (skipn (S s) ks).
  split; [|split; [|split]].
  - rewrite <- surjective_pairing. apply split_at_nth. exact Hs.
  - apply firstn_length_le. lia.
  - intros e Hin. apply in_flat_map in Hin. destruct Hin as (kt & Hkt & He).
    destruct (In_firstn_nth dkt s ks kt Hkt) as (j & Hjs & Hjl & Hn). subst kt.
    destruct (Hsep j Hjl) as [_ Hlt]. specialize (Hlt ltac:(lia)).
    rewrite !Hfl in Hlt. cbn [fl fst snd] in Hlt.
    unfold all_keys_lt in Hlt. rewrite forallb_forall in Hlt. specialize (Hlt e He).
    apply blt_true in Hlt. eapply bcmp_lt_le_trans; [exact Hlt|].
    rewrite <- Hkey. apply Hlo; lia.
  - intros e Hin. apply in_flat_map in Hin. destruct Hin as (kt & Hkt & He).
    destruct (In_skipn_nth dkt (S s) ks kt Hkt) as (j & Hjs & Hjl & Hn). subst kt.
    destruct (Hsep j Hjl) as [Hge _]. specialize (Hge ltac:(left; lia)).
    rewrite !Hfl in Hge. cbn [fl fst snd] in Hge.
    unfold all_keys_ge in Hge. rewrite forallb_forall in Hge. specialize (Hge e He).
    apply ble_true in Hge. apply bcmp_lt_gt. eapply bcmp_lt_le_trans; [|exact Hge].
    apply bcmp_lt_gt. rewrite <- Hkey. apply Hhi; lia.
Qed.

(* ====================================================================== *)
(** * 5. [search] returns a root-to-leaf path *)

(* [descent k t st]: st (top first) is a chain of frames starting at the root [t] (bottom of the
   stack), every frame's index is the slot [index_of] picks for k, and each frame's tree is the
   child at the index of the frame below it. *)
Inductive descent (k : bytes) : tree -> stack -> Prop :=
| descent_stop : forall t, descent k t [(t, fst (index_of t k))]
| descent_step : forall t c st,
    child_at t (fst (index_of t k)) = Some c -> descent k c st ->
    descent k t (st ++ [(t, fst (index_of t k))]).

(* the same, as a plain predicate on adjacent frames *)
Fixpoint stack_chain (st : stack) : Prop :=
  match st with
  | [] => True
  | (c, _) :: rest =>
      match rest with [] => True | (p, i) :: _ => child_at p i = Some c end /\ stack_chain rest
  end.

Lemma descent_nonempty : forall k t st, descent k t st -> st <> [].
Proof. intros k t st H. inversion H; subst; [discriminate|]. now destruct st0. Qed.

Lemma stack_chain_snoc : forall st c j p i,
  stack_chain (st ++ [(c, j)]) -> child_at p i = Some c -> stack_chain ((st ++ [(c, j)]) ++ [(p, i)]).
Proof.
  induction st as [|[a ia] st IH]; intros c j p i H Hc.
  - cbn. auto.
  - cbn [app] in *. destruct H as [H1 H2]. cbn [stack_chain]. split.
    + destruct st as [|[b ib] st']; cbn [app] in *; exact H1.
    + apply IH; assumption.
Qed.

Theorem descent_chain : forall k t st, descent k t st ->
  stack_chain st /\
  (exists pre, st = pre ++ [(t, fst (index_of t k))]) /\
  Forall (fun fr : frame => snd fr = fst (index_of (fst fr) k)) st.
Proof.
  intros k t st H. induction H as [t | t c st Hc Hd IH].
  - split; [cbn; auto|]. split; [exists []; reflexivity|]. constructor; [reflexivity | constructor].
  - destruct IH as (Hch & (pre & Hpre) & Hall). split; [|split].
    + subst st. apply stack_chain_snoc; assumption.
    + exists st. reflexivity.
    + apply Forall_app. split; [exact Hall|]. constructor; [reflexivity | constructor].
Qed.

Theorem search_path : forall k fuel t acc ex st,
  search fuel t k acc = (ex, st) ->
  exists pre, st = pre ++ acc /\ descent k t pre.
Proof.
  intros k. induction fuel as [|f IH]; intros t acc ex st H; cbn [search] in H;
    destruct (index_of t k) as [i e] eqn:Ei;
    assert (Hi : i = fst (index_of t k)) by (now rewrite Ei).
  - inversion H; subst st. exists [(t, i)]. split; [reflexivity|]. rewrite Hi. constructor.
  - destruct (is_leaf t).
    { inversion H; subst st. exists [(t, i)]. split; [reflexivity|]. rewrite Hi. constructor. }
    destruct (child_at t i) as [c|] eqn:Ec.
    2:{ inversion H; subst st. exists [(t, i)]. split; [reflexivity|]. rewrite Hi. constructor. }
    destruct (IH c _ ex st H) as (pre & Hst & Hd).
    exists (pre ++ [(t, i)]). split.
    + rewrite <- app_assoc. exact Hst.
    + rewrite Hi. apply descent_step with (c := c); [rewrite <- Hi; exact Ec | exact Hd].
Qed.

(* with enough fuel, on a well-formed tree: the top frame is a leaf, the flag is that leaf's
   exact-match flag, and the leaf's entries sit in the flattened tree between entries all < k
   and entries all > k *)
Theorem search_path_wf : forall k fuel t acc ex st,
  height t < fuel -> wf_shape t = true -> seps_sorted t = true ->
  search fuel t k acc = (ex, st) ->
  exists lf i pre before after,
    st = ((lf, i) :: pre) ++ acc /\ descent k t ((lf, i) :: pre) /\
    is_leaf lf = true /\ index_of lf k = (i, ex) /\
    flatten t = before ++ flatten lf ++ after /\
    (forall e, In e before -> bcmp (lent_key e) k = Lt) /\
    (forall e, In e after -> bcmp (lent_key e) k = Gt).
Proof.
  intros k. induction fuel as [|f IH]; intros t acc ex st Hn Hwf Hss H.
  { lia. }
  cbn [search] in H.
  destruct (index_of t k) as [i e] eqn:Ei.
  assert (Hi : i = fst (index_of t k)) by (now rewrite Ei).
  destruct t as [p o l | p o ks].
  - cbn [is_leaf] in H. inversion H; subst st e.
    exists (TL p o l), i, [], [], []. cbn [app flatten]. rewrite app_nil_r.
    repeat split; auto.
    + rewrite Hi. constructor.
    + intros e0 [].
    + intros e0 [].
  - cbn [is_leaf] in H.
    destruct (seps_sorted_TB p o ks Hss) as [Hsk Hsc].
    destruct (wf_shape_TB p o ks Hwf) as (_ & Hwc & _).
    destruct (branch_split p o ks k Hwf Hsk) as (ks1 & kc & c & ks2 & Hks & Hlen & Hbef & Haft).
    rewrite <- Hi in Hlen.
    assert (Hin : In (kc, c) ks) by (rewrite Hks; apply in_or_app; right; now left).
    assert (Hc : child_at (TB p o ks) i = Some c).
    { cbn [child_at]. rewrite Hks, nth_error_app2 by lia.
      replace (i - length ks1) with 0 by lia. reflexivity. }
    rewrite Hc in H.
    pose proof (height_child_lt p o ks (kc, c) Hin) as Hnc. cbn [snd] in Hnc.
    destruct (IH c _ ex st ltac:(lia) (Hwc _ Hin) (Hsc _ Hin) H)
      as (lf & j & pre & b & a & Hst & Hd & Hlf & Hidx & Hfl & Hb & Ha).
    exists lf, j, (pre ++ [(TB p o ks, i)]),
           (flat_map (fun kt => flatten (snd kt)) ks1 ++ b),
           (a ++ flat_map (fun kt => flatten (snd kt)) ks2).
    split; [|split; [|split; [|split; [|split; [|split]]]]].
    + rewrite Hst. cbn [app]. now rewrite <- app_assoc.
    + change ((lf, j) :: pre ++ [(TB p o ks, i)]) with (((lf, j) :: pre) ++ [(TB p o ks, i)]).
      rewrite Hi. apply descent_step with (c := c); [rewrite <- Hi; exact Hc | exact Hd].
    + exact Hlf.
    + exact Hidx.
    + cbn [flatten]. rewrite Hks, flat_map_app. cbn [flat_map snd]. rewrite Hfl.
      now rewrite <- !app_assoc.
    + intros e0 He. apply in_app_or in He. destruct He; auto.
    + intros e0 He. apply in_app_or in He. destruct He; auto.
Qed.

(* the instance used by [seek], [seek_scan] and [get]: fuel [S (nodes t)], empty accumulator *)
Corollary search_path_api_gen : forall k t ex st,
  wf_shape t = true -> seps_sorted t = true ->
  search (S (nodes t)) t k [] = (ex, st) ->
  exists lf i pre before after,
    st = (lf, i) :: pre /\ descent k t st /\
    is_leaf lf = true /\ index_of lf k = (i, ex) /\
    flatten t = before ++ flatten lf ++ after /\
    (forall e, In e before -> bcmp (lent_key e) k = Lt) /\
    (forall e, In e after -> bcmp (lent_key e) k = Gt).
Proof.
  intros k t ex st Hwf Hss H.
  destruct (search_path_wf k (S (nodes t)) t [] ex st
              ltac:(pose proof (height_le_nodes t); lia) Hwf Hss H)
    as (lf & i & pre & b & a & Hst & Hd & Hlf & Hidx & Hfl & Hb & Ha).
  rewrite app_nil_r in Hst. subst st.
  exists lf, i, pre, b, a. repeat split; assumption.
Qed.

(* the instance used by [seek], [seek_scan] and [get], from [wf_shape] alone *)
Corollary search_path_api : forall k t ex st,
  wf_shape t = true ->
  search (S (nodes t)) t k [] = (ex, st) ->
  exists lf i pre before after,
    st = (lf, i) :: pre /\ descent k t st /\
    is_leaf lf = true /\ index_of lf k = (i, ex) /\
    flatten t = before ++ flatten lf ++ after /\
    (forall e, In e before -> bcmp (lent_key e) k = Lt) /\
    (forall e, In e after -> bcmp (lent_key e) k = Gt).
Proof.
  intros k t ex st Hwf H. apply search_path_api_gen; auto. now apply wf_shape_seps_sorted.
Qed.

(* ====================================================================== *)
(** * 6. Point lookup *)

Lemma find_sorted_leaf : forall l i e k,
  sorted_keys (map lent_key l) = true -> nth_error l i = Some e -> lent_key e = k ->
  find (fun e => beq (lent_key e) k) l = Some e.
Proof.
  induction l as [|a l IH]; intros i e k Hs Hn Hk; [destruct i; discriminate|].
  cbn [map] in Hs. destruct (sorted_keys_cons _ _ Hs) as [Hall Hs'].
  destruct i as [|i]; cbn in Hn.
  - inversion Hn; subst a. cbn [find]. subst k.
    replace (beq (lent_key e) (lent_key e)) with true; [reflexivity|].
    symmetry. now apply beq_true.
  - cbn [find]. rewrite Forall_forall in Hall.
    assert (Hlt : bcmp (lent_key a) (lent_key e) = Lt).
    { apply Hall. apply in_map. eapply nth_error_In; eauto. }
    rewrite Hk in Hlt. rewrite (beq_false_lt _ _ Hlt). eapply IH; eauto.
Qed.

Lemma leaf_lookup : forall p o l k i ex,
  sorted_keys (map lent_key l) = true -> index_of (TL p o l) k = (i, ex) ->
  (if ex then option_map to_item (val_at (TL p o l) i) else None) =
  option_map to_item (find (fun e => beq (lent_key e) k) l).
Proof.
  intros p o l k i ex Hs Hidx. unfold index_of in Hidx. cbn [keys_of] in Hidx.
  destruct (bsearch (map lent_key l) k) as [[|] i'] eqn:Eb; inversion Hidx; subst.
  - apply bsearch_found in Eb; [|exact Hs]. rewrite nth_error_map in Eb.
    cbn [val_at]. destruct (nth_error l i) as [e|] eqn:En; [|discriminate].
    cbn in Eb. inversion Eb as [Hk].
    now rewrite (find_sorted_leaf l i e (lent_key e) Hs En eq_refl).
  - pose proof (bsearch_missing_notin _ _ _ Hs Eb) as Hnot.
    rewrite find_none_all; [reflexivity|].
    intros e He. destruct (beq (lent_key e) k) eqn:E; [|reflexivity].
    apply beq_true in E. exfalso. apply Hnot. rewrite <- E. now apply in_map.
Qed.

(* strongest form: the only thing needed beyond [wf_tree] is that the separators of each branch are
   ascending from the second one on *)
Theorem get_spec_gen : forall t k, wf_tree t = true -> seps_sorted t = true ->
  Cursor.get t k = option_map Cursor.to_item (find (fun e => beq (lent_key e) k) (flatten t)).
Proof.
  intros t k Hwf Hss. unfold wf_tree in Hwf. apply andb_true_iff in Hwf. destruct Hwf as [Hsh Hsorted].
  unfold get. destruct (search (S (nodes t)) t k []) as [ex st] eqn:Es.
  destruct (search_path_wf k (S (nodes t)) t [] ex st ltac:(pose proof (height_le_nodes t); lia) Hsh Hss Es)
    as (lf & i & pre & b & a & Hst & _ & Hlf & Hidx & Hfl & Hb & Ha).
  subst st. cbn [app].
  destruct lf as [p o l | ]; [|discriminate]. cbn [flatten] in Hfl.
  rewrite Hfl in Hsorted. rewrite !map_app in Hsorted.
  apply sorted_keys_app in Hsorted. destruct Hsorted as [_ Hsorted].
  apply sorted_keys_app in Hsorted. destruct Hsorted as [Hsl _].
  rewrite (leaf_lookup p o l k i ex Hsl Hidx).
  rewrite Hfl, !find_app.
  rewrite (find_none_all _ b) by (intros e He; apply beq_false_lt; auto).
  rewrite (find_none_all _ a) by (intros e He; apply beq_false_gt; auto).
  now destruct (find _ l).
Qed.

Theorem get_spec : forall t k, wf_tree t = true ->
  Cursor.get t k = option_map Cursor.to_item (find (fun e => beq (lent_key e) k) (flatten t)).
Proof.
  intros t k Hwf. apply get_spec_gen; [exact Hwf|].
  unfold wf_tree in Hwf. apply andb_true_iff in Hwf. destruct Hwf as [Hsh _].
  now apply wf_shape_seps_sorted.
Qed.

(** ** the former counterexamples (found against the earlier [wf_shape], which did not check that
    the separators are ascending) are now rejected by the checker *)
Definition cex_tree : tree :=
  TB 0%N 0%N [ (["b"%byte], TL 1%N 0%N [EKv ["b"%byte] []]);
               (["z"%byte], TL 2%N 0%N []);
               (["c"%byte], TL 3%N 0%N [EKv ["c"%byte] []]) ].
Example old_cex_rejected :
  wf_tree cex_tree = false /\
  Cursor.get cex_tree ["c"%byte] = None /\
  option_map Cursor.to_item (find (fun e => beq (lent_key e) ["c"%byte]) (flatten cex_tree))
    = Some (IKv ["c"%byte] []).
Proof. repeat split; vm_compute; reflexivity. Qed.

Print Assumptions bcmp_antisym.
Print Assumptions bcmp_lt_trans.
Print Assumptions sorted_keys_nth.
Print Assumptions bsearch_spec.
Print Assumptions slot_spec.
Print Assumptions descent_chain.
Print Assumptions search_path.
Print Assumptions search_path_wf.
Print Assumptions search_path_api.
Print Assumptions get_spec_gen.
Print Assumptions get_spec.
Print Assumptions wf_shape_seps_sorted.
Print Assumptions old_cex_rejected.
