(* Facts about the (repaired) cursor stack machine of model/Cursor.v:
   - cursor_all : a full scan returns every entry exactly once, in tree order;
   - cursor_end : after exhaustion, next keeps returning None and never panics;
   - refutations of the same properties for the pinned (pre-repair) machine.
   The only well-formedness needed is [no_empty_branch]; empty leaves are allowed anywhere. *)
From Coq Require Import List NArith Bool Arith Lia.
From Coq.Strings Require Import Byte.
From Jamm Require Import Bytes Codec Tree Spec Cursor.
Import ListNotations.
Local Open Scope list_scope. Local Open Scope nat_scope.

(* ---------- the well-formedness hypothesis ---------- *)
Fixpoint no_empty_branch (t : tree) : bool :=
  match t with
  | TL _ _ _ => true
  | TB _ _ ks =>
      negb (match ks with [] => true | _ => false end) &&
      forallb (fun kt : bytes * tree => no_empty_branch (snd kt)) ks
  end.

(* ---------- induction principle for the nested tree ---------- *)
Section tree_ind.
  Variable P : tree -> Prop.
  Hypothesis HL : forall p o l, P (TL p o l).
  Hypothesis HB : forall p o ks, Forall (fun kt : bytes * tree => P (snd kt)) ks -> P (TB p o ks).
  Fixpoint tree_ind' (t : tree) : P t :=
    match t with
    | TL p o l => HL p o l
    | TB p o ks =>
        HB p o ks
          ((fix go (ks : list (bytes * tree)) : Forall (fun kt : bytes * tree => P (snd kt)) ks :=
              match ks with
              | [] => Forall_nil _
              | kt :: ks' => Forall_cons kt (tree_ind' (snd kt)) (go ks')
              end) ks)
    end.
End tree_ind.

(* ---------- small list facts ---------- *)
Lemma skipn_nth_error {A} : forall (l : list A) i x,
  nth_error l i = Some x -> skipn i l = x :: skipn (S i) l.
Proof.
  induction l as [|a l IH]; intros [|i] x H; try discriminate.
  - inversion H; reflexivity.
  - cbn [nth_error] in H. apply IH in H. cbn [skipn]. cbn [skipn] in H. exact H.
Qed.

Lemma skipn_all' {A} : forall (l : list A) i, length l <= i -> skipn i l = [].
Proof.
  induction l as [|a l IH]; intros [|i] H; try reflexivity.
  - cbn [length] in H. lia.
  - cbn [length] in H. cbn [skipn]. apply IH. lia.
Qed.

Lemma nth_error_None' {A} : forall (l : list A) i, nth_error l i = None -> length l <= i.
Proof. intros l i H. apply nth_error_None. exact H. Qed.

Lemma flat_map_length_skipn {A B} (f : A -> list B) : forall (l : list A) i,
  length (flat_map f (skipn i l)) <= length (flat_map f l).
Proof.
  intros l i. rewrite <- (firstn_skipn i l) at 2. rewrite flat_map_app, app_length. lia.
Qed.

Lemma flat_map_ext_Forall {A B} (f g : A -> list B) : forall l,
  Forall (fun a => f a = g a) l -> flat_map f l = flat_map g l.
Proof.
  induction 1 as [|a l Ha _ IH]; [reflexivity|]. cbn [flat_map]. rewrite Ha, IH. reflexivity.
Qed.

(* ---------- tree facts ---------- *)
Lemma child_at_inv : forall p i c, child_at p i = Some c ->
  exists pid o ks k, p = TB pid o ks /\ nth_error ks i = Some (k, c).
Proof.
  intros [pid o l|pid o ks] i c H; [discriminate|].
  cbn [child_at] in H. destruct (nth_error ks i) as [[k c']|] eqn:E; [|discriminate].
  cbn in H. inversion H; subst. exists pid, o, ks, k. split; [reflexivity|exact E].
Qed.

Lemma height_child : forall p i c, child_at p i = Some c -> height c < height p.
Proof.
  intros p i c H. destruct (child_at_inv _ _ _ H) as (pid & o & ks & k & -> & E).
  cbn [height]. apply Nat.lt_succ_r. clear H. revert i E.
  induction ks as [|[k' c'] ks IH]; intros [|i] E; try discriminate; cbn [nth_error] in E.
  - inversion E; subst. cbn [fold_right snd]. lia.
  - cbn [fold_right snd]. specialize (IH _ E). lia.
Qed.

Lemma neb_child : forall p i c, no_empty_branch p = true -> child_at p i = Some c ->
  no_empty_branch c = true.
Proof.
  intros p i c Hp H. destruct (child_at_inv _ _ _ H) as (pid & o & ks & k & -> & E).
  cbn [no_empty_branch] in Hp. apply andb_true_iff in Hp. destruct Hp as [_ Hp].
  rewrite forallb_forall in Hp. apply nth_error_In in E. apply (Hp _ E).
Qed.

Lemma neb_branch_len : forall pid o ks, no_empty_branch (TB pid o ks) = true -> 0 < length ks.
Proof.
  intros pid o [|kt ks] H; [discriminate|]. cbn [length]. lia.
Qed.

Lemma tlen_TL : forall p o l, tlen (TL p o l) = length l.
Proof. intros. unfold tlen. cbn [keys_of]. apply map_length. Qed.
Lemma tlen_TB : forall p o ks, tlen (TB p o ks) = length ks.
Proof. intros. unfold tlen. cbn [keys_of]. apply map_length. Qed.

Lemma child_at_lt : forall pid o ks i, i < length ks -> exists c, child_at (TB pid o ks) i = Some c.
Proof.
  intros pid o ks i H. cbn [child_at]. destruct (nth_error ks i) as [[k c]|] eqn:E.
  - exists c. reflexivity.
  - apply nth_error_None in E. lia.
Qed.

Lemma height_le_nodes : forall t, height t <= nodes t.
Proof.
  induction t as [p o l|p o ks IH] using tree_ind'; cbn [height nodes]; [lia|].
  apply le_n_S.
  induction IH as [|[k c] ks Hc _ IH']; cbn [fold_right snd length]; [lia|].
  cbn [snd] in Hc. lia.
Qed.

(* ---------- stacks ---------- *)
Inductive wf_stack (root : tree) : stack -> Prop :=
| wf_root : forall i, wf_stack root [(root, i)]
| wf_push : forall c j p i rest,
    wf_stack root ((p, i) :: rest) -> child_at p i = Some c -> wf_stack root ((c, j) :: (p, i) :: rest).

Definition height_top (st : stack) : nat := match st with (t, _) :: _ => height t | [] => 0 end.
Definition neb_top (st : stack) : Prop := match st with (t, _) :: _ => no_empty_branch t = true | [] => True end.
Definition top_ok (st : stack) : Prop := match st with (t, i) :: _ => i = 0 \/ i < tlen t | [] => False end.
Definition settled (st : stack) : Prop := match st with (t, _) :: _ => is_leaf t = true | [] => False end.

Lemma wf_stack_len : forall root st, wf_stack root st -> length st + height_top st <= S (height root).
Proof.
  induction 1 as [i|c j p i rest Hwf IH Hc].
  - cbn [length height_top]. lia.
  - cbn [length height_top] in *. apply height_child in Hc. lia.
Qed.

Lemma wf_stack_neb : forall root st, no_empty_branch root = true -> wf_stack root st -> neb_top st.
Proof.
  intros root st Hr. induction 1 as [i|c j p i rest Hwf IH Hc]; cbn [neb_top] in *.
  - exact Hr.
  - eapply neb_child; eassumption.
Qed.

Lemma wf_stack_reindex : forall root t i j rest, wf_stack root ((t, i) :: rest) -> wf_stack root ((t, j) :: rest).
Proof.
  intros root t i j rest H. inversion H; subst.
  - apply wf_root.
  - apply wf_push; assumption.
Qed.

Lemma wf_stack_tail : forall root f g rest, wf_stack root (f :: g :: rest) -> wf_stack root (g :: rest).
Proof. intros root f g rest H. inversion H; subst. assumption. Qed.

(* ---------- "what lies from / after the cursor position", generic in the leaf contribution ---------- *)
Section Gen.
  Context {A : Type}.
  Variable leafpart : list lent -> nat -> list A.

  Fixpoint gflat (t : tree) : list A :=
    match t with
    | TL _ _ l => leafpart l 0
    | TB _ _ ks => flat_map (fun kt : bytes * tree => gflat (snd kt)) ks
    end.
  Definition frame_from (f : frame) : list A :=
    match f with
    | (TL _ _ l, i) => leafpart l i
    | (TB _ _ ks, i) => flat_map (fun kt : bytes * tree => gflat (snd kt)) (skipn i ks)
    end.
  Definition frame_after (f : frame) : list A := frame_from (fst f, S (snd f)).
  Definition after (st : stack) : list A := flat_map frame_after st.
  Definition from (st : stack) : list A :=
    match st with [] => [] | f :: rest => frame_from f ++ after rest end.

  Lemma after_cons : forall f rest, after (f :: rest) = frame_after f ++ after rest.
  Proof. reflexivity. Qed.

  Lemma after_is_from : forall t i rest, after ((t, i) :: rest) = from ((t, S i) :: rest).
  Proof. reflexivity. Qed.

  Lemma frame_from_0 : forall c, frame_from (c, 0) = gflat c.
  Proof. intros [p o l|p o ks]; reflexivity. Qed.

  Lemma child_from : forall p i c, child_at p i = Some c ->
    frame_from (p, i) = gflat c ++ frame_after (p, i).
  Proof.
    intros p i c H. destruct (child_at_inv _ _ _ H) as (pid & o & ks & k & -> & E).
    unfold frame_after. cbn [frame_from fst snd]. rewrite (skipn_nth_error _ _ _ E).
    reflexivity.
  Qed.

  Lemma seek_first_from : forall f st st', seek_first f st = Some st' -> from st' = from st.
  Proof.
    induction f as [|f IH]; intros st st' H; cbn [seek_first] in H; [discriminate|].
    destruct st as [|[t i] rest]; [discriminate|].
    destruct (is_leaf t); [inversion H; reflexivity|].
    destruct (Nat.eqb (tlen t) 0); [inversion H; reflexivity|].
    destruct (child_at t i) as [c|] eqn:Ec; [|discriminate].
    apply IH in H. rewrite H. cbn [from]. rewrite after_cons, frame_from_0.
    rewrite (child_from _ _ _ Ec), app_assoc. reflexivity.
  Qed.

  Hypothesis leafpart_end : forall l i, length l <= S i -> leafpart l (S i) = [].

  Lemma frame_after_end : forall t i, tlen t <= i + 1 -> frame_after (t, i) = [].
  Proof.
    intros [p o l|p o ks] i H; unfold frame_after; cbn [frame_from fst snd].
    - rewrite tlen_TL in H. apply leafpart_end. lia.
    - rewrite tlen_TB in H. rewrite skipn_all' by lia. reflexivity.
  Qed.

  Lemma advance_from : forall f h st st', advance f h st = Some (Some st') -> from st' = after st.
  Proof.
    induction f as [|f IH]; intros h st st' H; cbn [advance] in H; [discriminate|].
    destruct st as [|[t i] rest]; [discriminate|].
    destruct (tlen t <=? i + 1) eqn:El.
    - apply Nat.leb_le in El. rewrite after_cons, (frame_after_end _ _ El). cbn [app].
      destruct rest as [|g rest]; [discriminate|]. apply IH in H. exact H.
    - destruct (seek_first h ((t, i + 1) :: rest)) as [s|] eqn:Es; [|discriminate].
      cbn in H. inversion H; subst. apply seek_first_from in Es. rewrite Es.
      rewrite Nat.add_1_r. reflexivity.
  Qed.

  Lemma advance_end : forall f h st, advance f h st = Some None -> after st = [].
  Proof.
    induction f as [|f IH]; intros h st H; cbn [advance] in H; [discriminate|].
    destruct st as [|[t i] rest]; [discriminate|].
    destruct (tlen t <=? i + 1) eqn:El.
    - apply Nat.leb_le in El. rewrite after_cons, (frame_after_end _ _ El). cbn [app].
      destruct rest as [|g rest]; [reflexivity|]. apply IH in H. exact H.
    - destruct (seek_first h ((t, i + 1) :: rest)); discriminate.
  Qed.

  Hypothesis leafpart_le : forall l i, length (leafpart l i) <= length (leafpart l 0).

  Lemma frame_from_le : forall t i, length (frame_from (t, i)) <= length (gflat t).
  Proof.
    intros [p o l|p o ks] i; cbn [frame_from gflat].
    - apply leafpart_le.
    - apply flat_map_length_skipn.
  Qed.

  Lemma from_bound : forall root st, wf_stack root st -> length (from st) <= length (gflat root).
  Proof.
    induction 1 as [i|c j p i rest Hwf IH Hc].
    - cbn [from after flat_map]. rewrite app_nil_r. apply frame_from_le.
    - cbn [from] in *. rewrite after_cons. rewrite (child_from _ _ _ Hc) in IH.
      pose proof (frame_from_le c j) as Hle. rewrite !app_length in *. lia.
  Qed.
End Gen.

(* ---------- the two instances: remaining entries, and a termination measure ---------- *)
Definition lp_e (l : list lent) (i : nat) : list lent := skipn i l.
Definition lp_n (l : list lent) (i : nat) : list unit :=
  match i with O => repeat tt (S (length l)) | S _ => repeat tt (length l - i) end.
Notation from_e := (from lp_e).
Notation after_e := (after lp_e).
Notation from_n := (from lp_n).
Notation after_n := (after lp_n).

Lemma lp_e_end : forall l i, length l <= S i -> lp_e l (S i) = [].
Proof. intros l i H. unfold lp_e. apply skipn_all'. exact H. Qed.
Lemma lp_n_end : forall l i, length l <= S i -> lp_n l (S i) = [].
Proof.
  intros l i H. assert (E : length l - S i = 0) by lia.
  change (repeat tt (length l - S i) = []). rewrite E. reflexivity.
Qed.
Lemma lp_n_le : forall l i, length (lp_n l i) <= length (lp_n l 0).
Proof. intros l [|i]; unfold lp_n; rewrite !repeat_length; lia. Qed.

Lemma gflat_e : forall t, gflat lp_e t = flatten t.
Proof.
  induction t as [p o l|p o ks IH] using tree_ind'; cbn [gflat flatten]; [reflexivity|].
  apply flat_map_ext_Forall. exact IH.
Qed.

Lemma gflat_n_nodes : forall t, length (gflat lp_n t) <= nodes t.
Proof.
  induction t as [p o l|p o ks IH] using tree_ind'; cbn [gflat nodes].
  - unfold lp_n. rewrite repeat_length. lia.
  - apply le_S.
    induction IH as [|[k c] ks Hc _ IH']; cbn [flat_map fold_right snd length]; [lia|].
    cbn [snd] in Hc. rewrite app_length. lia.
Qed.

Lemma flatten_le_nodes : forall t, length (flatten t) <= nodes t.
Proof.
  induction t as [p o l|p o ks IH] using tree_ind'; cbn [flatten nodes]; [lia|].
  apply le_S.
  induction IH as [|[k c] ks Hc _ IH']; cbn [flat_map fold_right snd length]; [lia|].
  cbn [snd] in Hc. rewrite app_length. lia.
Qed.

(* ---------- success of seek_first / advance with enough fuel ---------- *)
Lemma seek_first_ok root : forall f st,
  wf_stack root st -> top_ok st -> neb_top st -> height_top st < f ->
  exists st', seek_first f st = Some st' /\ wf_stack root st' /\ top_ok st' /\ settled st'.
Proof.
  induction f as [|f IH]; intros st Hwf Htop Hneb Hh; [lia|].
  destruct st as [|[t i] rest]; [contradiction|].
  cbn [seek_first]. destruct t as [p o l|p o ks].
  - cbn [is_leaf]. exists ((TL p o l, i) :: rest). repeat split; assumption.
  - cbn [is_leaf]. cbn [neb_top] in Hneb. pose proof (neb_branch_len _ _ _ Hneb) as Hlen.
    rewrite tlen_TB. destruct (Nat.eqb (length ks) 0) eqn:E0; [apply Nat.eqb_eq in E0; lia|].
    cbn [top_ok] in Htop. rewrite tlen_TB in Htop.
    destruct (child_at_lt p o ks i) as [c Hc]; [lia|]. rewrite Hc.
    apply IH.
    + apply wf_push; assumption.
    + cbn [top_ok]. left; reflexivity.
    + cbn [neb_top]. eapply neb_child; eassumption.
    + cbn [height_top] in *. apply height_child in Hc. lia.
Qed.

Lemma advance_ok root : no_empty_branch root = true -> forall h, height root < h -> forall f st,
  wf_stack root st -> length st <= f ->
  advance f h st = Some None \/
  exists st', advance f h st = Some (Some st') /\ wf_stack root st' /\ top_ok st' /\ settled st'.
Proof.
  intros Hr h Hh. induction f as [|f IH]; intros st Hwf Hlen.
  - inversion Hwf; subst; cbn [length] in Hlen; lia.
  - destruct st as [|[t i] rest]; [inversion Hwf|]. cbn [advance].
    destruct (tlen t <=? i + 1) eqn:El.
    + destruct rest as [|g rest]; [left; reflexivity|]. apply IH.
      * eapply wf_stack_tail; eassumption.
      * cbn [length] in *; lia.
    + apply Nat.leb_gt in El. right.
      assert (Hwf' : wf_stack root ((t, i + 1) :: rest)) by (eapply wf_stack_reindex; eassumption).
      destruct (seek_first_ok root h ((t, i + 1) :: rest)) as (st' & Hs & Hw & Ht & Hse).
      * exact Hwf'.
      * cbn [top_ok]. right; lia.
      * eapply wf_stack_neb; eassumption.
      * pose proof (wf_stack_len _ _ Hwf) as Hl. cbn [height_top length] in *. lia.
      * exists st'. rewrite Hs. cbn [option_map]. auto.
Qed.

(* ---------- current ---------- *)
Lemma current_settled : forall st, settled st ->
  (exists d, current st = CVal (Some (to_item d)) /\ from_e st = d :: after_e st) \/
  (current st = CVal None /\ from_e st = after_e st).
Proof.
  intros [|[t i] rest] Hs; [contradiction|]. destruct t as [p o l|p o ks]; [|discriminate].
  cbn [current is_leaf val_at]. cbn [from]. rewrite after_cons. unfold frame_after.
  cbn [frame_from fst snd]. unfold lp_e.
  destruct (nth_error l i) as [d|] eqn:E.
  - left. exists d. split; [reflexivity|]. rewrite (skipn_nth_error _ _ _ E). reflexivity.
  - right. split; [reflexivity|]. apply nth_error_None' in E.
    rewrite (skipn_all' l i), (skipn_all' l (S i)) by lia. reflexivity.
Qed.

Lemma from_n_pos : forall st, settled st -> top_ok st -> 0 < length (from_n st).
Proof.
  intros [|[t i] rest] Hs Ht; [contradiction|]. destruct t as [p o l|p o ks]; [|discriminate].
  cbn [top_ok] in Ht. rewrite tlen_TL in Ht.
  cbn [from frame_from]. rewrite app_length.
  destruct i as [|i]; unfold lp_n; rewrite repeat_length; lia.
Qed.

Lemma current_none_measure : forall st, settled st -> top_ok st -> current st = CVal None ->
  length (from_n st) = S (length (after_n st)).
Proof.
  intros [|[t i] rest] Hs Ht Hc; [contradiction|]. destruct t as [p o l|p o ks]; [|discriminate].
  cbn [top_ok] in Ht. rewrite tlen_TL in Ht.
  cbn [current is_leaf val_at] in Hc.
  destruct (nth_error l i) as [d|] eqn:E; [discriminate|]. apply nth_error_None' in E.
  assert (i = 0) by lia. subst i.
  cbn [from]. rewrite after_cons. unfold frame_after. cbn [frame_from fst snd].
  rewrite !app_length. unfold lp_n. rewrite !repeat_length. lia.
Qed.

(* ---------- skip_empty ---------- *)
Lemma skip_empty_spec root F : no_empty_branch root = true -> height root < F -> forall fuel st,
  wf_stack root st -> settled st -> top_ok st -> length (from_n st) <= fuel ->
  match from_e st with
  | [] => skip_empty fuel F st = CVal None
  | d :: l => exists st', skip_empty fuel F st = CVal (Some (st', to_item d)) /\
        wf_stack root st' /\ settled st' /\ top_ok st' /\ after_e st' = l
  end.
Proof.
  intros Hr Hh. induction fuel as [|fuel IH]; intros st Hwf Hs Ht Hm.
  - pose proof (from_n_pos st Hs Ht). lia.
  - cbn [skip_empty]. destruct (current_settled st Hs) as [(d & Hc & Hf)|(Hc & Hf)].
    + rewrite Hc, Hf. exists st. auto.
    + rewrite Hc. pose proof (current_none_measure st Hs Ht Hc) as Hmeas.
      assert (Hlen : length st <= F) by (pose proof (wf_stack_len _ _ Hwf); lia).
      destruct (advance_ok root Hr F Hh F st Hwf Hlen) as [He|(st' & Ha & Hw & Ht' & Hs')].
      * rewrite He. apply (advance_end lp_e lp_e_end) in He. rewrite Hf, He. reflexivity.
      * rewrite Ha. pose proof (advance_from lp_e lp_e_end _ _ _ _ Ha) as Hfe.
        pose proof (advance_from lp_n lp_n_end _ _ _ _ Ha) as Hfn.
        rewrite Hf, <- Hfe. apply IH; try assumption. rewrite Hfn. lia.
Qed.

(* ---------- cursors ---------- *)
(* invariant of the cursors reachable from [new_cursor root] by [next] *)
Definition cinv (root : tree) (c : cursor) : Prop :=
  c_root c = root /\
  (c_stack c = [] \/
   (c_next_called c = true /\ wf_stack root (c_stack c) /\ settled (c_stack c) /\ top_ok (c_stack c))).
(* the entries still to be delivered *)
Definition rem (c : cursor) : list lent :=
  match c_stack c with [] => flatten (c_root c) | st => after_e st end.

Lemma rem_settled : forall root st b, settled st -> rem (mkCursor root st b) = after_e st.
Proof. intros root [|f rest] b Hs; [contradiction|reflexivity]. Qed.

Lemma settled_from_nil : forall st, settled st -> from_e st = [] -> after_e st = [].
Proof.
  intros st Hs Hf. destruct (current_settled st Hs) as [(d & _ & H)|(_ & H)]; rewrite H in Hf;
    [discriminate|exact Hf].
Qed.

Lemma from_root {A} (lp : list lent -> nat -> list A) : forall root, from lp [(root, 0)] = gflat lp root.
Proof. intros root. cbn [from after flat_map]. rewrite app_nil_r. apply frame_from_0. Qed.

Definition finish (F : nat) (root : tree) (st : stack) : cur_res (cursor * option item) :=
  match skip_empty F F st with
  | CPanic => CPanic
  | CVal None => CVal (mkCursor root st true, None)
  | CVal (Some (st', d)) => CVal (mkCursor root st' true, Some d)
  end.

Lemma finish_spec root F st : no_empty_branch root = true -> nodes root < F ->
  wf_stack root st -> settled st -> top_ok st ->
  match from_e st with
  | [] => exists c', finish F root st = CVal (c', None) /\ cinv root c' /\ rem c' = []
  | d :: l => exists c', finish F root st = CVal (c', Some (to_item d)) /\ cinv root c' /\ rem c' = l
  end.
Proof.
  intros Hr HF Hwf Hs Ht.
  assert (Hh : height root < F) by (pose proof (height_le_nodes root); lia).
  assert (Hm : length (from_n st) <= F).
  { pose proof (from_bound lp_n lp_n_le root st Hwf). pose proof (gflat_n_nodes root). lia. }
  pose proof (skip_empty_spec root F Hr Hh F st Hwf Hs Ht Hm) as Hsp.
  unfold finish. destruct (from_e st) as [|d l] eqn:Hf.
  - rewrite Hsp. exists (mkCursor root st true). split; [reflexivity|]. split.
    + split; [reflexivity|]. right. cbn [c_stack c_next_called]. auto.
    + rewrite rem_settled by assumption. apply settled_from_nil; assumption.
  - destruct Hsp as (st' & Hsk & Hw' & Hs' & Ht' & Ha). rewrite Hsk.
    exists (mkCursor root st' true). split; [reflexivity|]. split.
    + split; [reflexivity|]. right. cbn [c_stack c_next_called]. auto.
    + rewrite rem_settled by assumption. exact Ha.
Qed.

(* one step of [next]: delivers the head of [rem], or None (without panic) when [rem] is empty *)
Lemma next_spec root F c : no_empty_branch root = true -> nodes root < F -> cinv root c ->
  match rem c with
  | [] => exists c', next F c = CVal (c', None) /\ cinv root c' /\ rem c' = []
  | d :: l => exists c', next F c = CVal (c', Some (to_item d)) /\ cinv root c' /\ rem c' = l
  end.
Proof.
  intros Hr HF [Hroot Hc]. destruct c as [r st b]. cbn [c_root c_stack c_next_called] in *. subst r.
  assert (Hh : height root < F) by (pose proof (height_le_nodes root); lia).
  destruct Hc as [-> | (-> & Hwf & Hs & Ht)].
  - change (rem (mkCursor root [] b)) with (flatten root).
    unfold next. cbn [c_root c_stack c_next_called].
    destruct (seek_first_ok root F [(root, 0)]) as (st' & Hsf & Hw & Ht & Hs).
    + apply wf_root.
    + left; reflexivity.
    + exact Hr.
    + exact Hh.
    + rewrite Hsf. pose proof (seek_first_from lp_e _ _ _ Hsf) as Hfe.
      rewrite from_root, gflat_e in Hfe. rewrite <- Hfe.
      apply (finish_spec root F st' Hr HF Hw Hs Ht).
  - destruct st as [|f rest]; [contradiction|].
    rewrite (rem_settled root (f :: rest) true Hs).
    unfold next. cbn [c_root c_stack c_next_called].
    assert (Hlen : length (f :: rest) <= F) by (pose proof (wf_stack_len _ _ Hwf); lia).
    destruct (advance_ok root Hr F Hh F (f :: rest) Hwf Hlen) as [He|(st' & Ha & Hw' & Ht' & Hs')].
    + rewrite He. rewrite (advance_end lp_e lp_e_end _ _ _ He).
      exists (mkCursor root (f :: rest) true). split; [reflexivity|]. split.
      * split; [reflexivity|]. right. cbn [c_stack c_next_called]. auto.
      * rewrite rem_settled by assumption. apply (advance_end lp_e lp_e_end _ _ _ He).
    + rewrite Ha. rewrite <- (advance_from lp_e lp_e_end _ _ _ _ Ha).
      apply (finish_spec root F st' Hr HF Hw' Hs' Ht').
Qed.

Lemma cinv_new : forall t, cinv t (new_cursor t).
Proof. intros t. split; [reflexivity|]. left; reflexivity. Qed.

(* ---------- 1. a full scan delivers every entry exactly once, in tree order ---------- *)
Lemma iterate_spec root F : no_empty_branch root = true -> nodes root < F ->
  forall l c n, cinv root c -> rem c = l -> length l <= n -> iterate n F c = CVal (map to_item l).
Proof.
  intros Hr HF. induction l as [|d l IH]; intros c n Hc Hrem Hn.
  - destruct n as [|n]; [reflexivity|]. cbn [iterate].
    pose proof (next_spec root F c Hr HF Hc) as Hsp. rewrite Hrem in Hsp.
    destruct Hsp as (c' & Hnx & _ & _). rewrite Hnx. reflexivity.
  - destruct n as [|n]; [cbn [length] in Hn; lia|]. cbn [iterate].
    pose proof (next_spec root F c Hr HF Hc) as Hsp. rewrite Hrem in Hsp.
    destruct Hsp as (c' & Hnx & Hc' & Hrem'). rewrite Hnx.
    rewrite (IH c' n Hc' Hrem') by (cbn [length] in Hn; lia). reflexivity.
Qed.

Theorem cursor_all : forall t, no_empty_branch t = true -> scan t = CVal (map to_item (flatten t)).
Proof.
  intros t Hr. unfold scan.
  apply (iterate_spec t (S (nodes t)) Hr (Nat.lt_succ_diag_r _) (flatten t) (new_cursor t)).
  - apply cinv_new.
  - reflexivity.
  - pose proof (flatten_le_nodes t). lia.
Qed.
Print Assumptions cursor_all.

(* ---------- 2. after exhaustion, next keeps returning None and never panics ---------- *)
(* [run m F c]: call next m times, collecting the results *)
Fixpoint run (m F : nat) (c : cursor) : cur_res (cursor * list (option item)) :=
  match m with
  | O => CVal (c, [])
  | S m' =>
      match next F c with
      | CPanic => CPanic
      | CVal (c', r) =>
          match run m' F c' with
          | CPanic => CPanic
          | CVal (c'', rs) => CVal (c'', r :: rs)
          end
      end
  end.

Lemma run_ended root F : no_empty_branch root = true -> nodes root < F ->
  forall m c, cinv root c -> rem c = [] ->
  exists c', run m F c = CVal (c', repeat None m) /\ cinv root c' /\ rem c' = [].
Proof.
  intros Hr HF. induction m as [|m IH]; intros c Hc Hrem.
  - exists c. cbn [run repeat]. auto.
  - cbn [run repeat]. pose proof (next_spec root F c Hr HF Hc) as Hsp. rewrite Hrem in Hsp.
    destruct Hsp as (c' & Hnx & Hc' & Hrem'). rewrite Hnx.
    destruct (IH c' Hc' Hrem') as (c'' & Hrun & Hc'' & Hrem''). rewrite Hrun.
    exists c''. auto.
Qed.

Lemma run_spec root F : no_empty_branch root = true -> nodes root < F ->
  forall l c, cinv root c -> rem c = l -> forall m,
  exists c', run (length l + m) F c = CVal (c', map (fun e => Some (to_item e)) l ++ repeat None m)
             /\ cinv root c' /\ rem c' = [].
Proof.
  intros Hr HF. induction l as [|d l IH]; intros c Hc Hrem m.
  - cbn [length Nat.add map app]. apply (run_ended root F Hr HF m c Hc Hrem).
  - cbn [length Nat.add map app run].
    pose proof (next_spec root F c Hr HF Hc) as Hsp. rewrite Hrem in Hsp.
    destruct Hsp as (c' & Hnx & Hc' & Hrem'). rewrite Hnx.
    destruct (IH c' Hc' Hrem' m) as (c'' & Hrun & Hc'' & Hrem''). rewrite Hrun.
    exists c''. auto.
Qed.

(* calling next (number of entries + m) times from a fresh cursor: every entry once, in order,
   then m times None; no panic *)
Theorem cursor_end : forall t, no_empty_branch t = true -> forall m,
  exists c_end,
    run (length (flatten t) + m) (S (nodes t)) (new_cursor t)
    = CVal (c_end, map (fun e => Some (to_item e)) (flatten t) ++ repeat None m).
Proof.
  intros t Hr m.
  destruct (run_spec t (S (nodes t)) Hr (Nat.lt_succ_diag_r _) (flatten t) (new_cursor t)
              (cinv_new t) eq_refl m) as (c' & Hrun & _).
  exists c'. exact Hrun.
Qed.
Print Assumptions cursor_end.

(* the same in the reachability form *)
Inductive reachable (F : nat) (t : tree) : cursor -> Prop :=
| reach_new : reachable F t (new_cursor t)
| reach_next : forall c c' r, reachable F t c -> next F c = CVal (c', r) -> reachable F t c'.

Lemma reachable_cinv : forall t, no_empty_branch t = true -> forall c,
  reachable (S (nodes t)) t c -> cinv t c.
Proof.
  intros t Hr c H. induction H as [|c c' r H IH Hnx].
  - apply cinv_new.
  - pose proof (next_spec t (S (nodes t)) c Hr (Nat.lt_succ_diag_r _) IH) as Hsp.
    destruct (rem c) as [|d l]; destruct Hsp as (c0 & Hnx0 & Hc0 & _);
      rewrite Hnx0 in Hnx; inversion Hnx; subst; exact Hc0.
Qed.

Theorem cursor_never_panics : forall t, no_empty_branch t = true -> forall c,
  reachable (S (nodes t)) t c -> next (S (nodes t)) c <> CPanic.
Proof.
  intros t Hr c H. pose proof (reachable_cinv t Hr c H) as Hc.
  pose proof (next_spec t (S (nodes t)) c Hr (Nat.lt_succ_diag_r _) Hc) as Hsp.
  destruct (rem c) as [|d l]; destruct Hsp as (c0 & Hnx0 & _); rewrite Hnx0; discriminate.
Qed.
Print Assumptions cursor_never_panics.

(* stability: once next has returned None on a reachable cursor, every later call returns None *)
Theorem cursor_end_stable : forall t, no_empty_branch t = true -> forall c c',
  reachable (S (nodes t)) t c -> next (S (nodes t)) c = CVal (c', None) ->
  forall m, exists c'', run m (S (nodes t)) c' = CVal (c'', repeat None m).
Proof.
  intros t Hr c c' H Hnx m. pose proof (reachable_cinv t Hr c H) as Hc.
  pose proof (next_spec t (S (nodes t)) c Hr (Nat.lt_succ_diag_r _) Hc) as Hsp.
  destruct (rem c) as [|d l]; destruct Hsp as (c0 & Hnx0 & Hc0 & Hrem0);
    rewrite Hnx0 in Hnx; inversion Hnx; subst.
  destruct (run_ended t (S (nodes t)) Hr (Nat.lt_succ_diag_r _) m c' Hc0 Hrem0) as (c'' & Hrun & _).
  exists c''. exact Hrun.
Qed.
Print Assumptions cursor_end_stable.

Corollary cursor_end_stable_1 : forall t, no_empty_branch t = true -> forall c c',
  reachable (S (nodes t)) t c -> next (S (nodes t)) c = CVal (c', None) ->
  exists c'', next (S (nodes t)) c' = CVal (c'', None).
Proof.
  intros t Hr c c' H Hnx. destruct (cursor_end_stable t Hr c c' H Hnx 1) as (c'' & Hrun).
  cbn [run repeat] in Hrun. destruct (next (S (nodes t)) c') as [|[c1 r]]; [discriminate|].
  inversion Hrun; subst. eexists. reflexivity.
Qed.

(* the literal fixpoint form [next F c' = CVal (c', None)] is FALSE: with several trailing empty
   leaves, the cursor state still moves (to a later empty leaf) while returning None *)
Definition two_empty : tree := TB 5 0 [([x01], TL 3 0 []); ([x02], TL 4 0 [])].
Lemma end_state_not_fixed :
  exists c1 c2, next 10 (new_cursor two_empty) = CVal (c1, None) /\
                next 10 c1 = CVal (c2, None) /\ c_stack c1 <> c_stack c2 /\
                next 10 c2 = CVal (c2, None).
Proof.
  eexists. eexists. split; [vm_compute; reflexivity|]. split; [vm_compute; reflexivity|].
  split; [cbn; discriminate|vm_compute; reflexivity].
Qed.

(* ---------- 3. the pinned (pre-repair) machine ---------- *)
Definition empty_bucket : tree := TL 3 0 [].

(* debug build: the second call on an empty bucket panics (usize underflow in len - 1) *)
Lemma next_legacy_debug_refuted : forall F,
  exists c1, next_legacy true (S F) (new_cursor empty_bucket) = CVal (c1, None) /\
             next_legacy true (S F) c1 = CPanic.
Proof. intros F. eexists. split; reflexivity. Qed.
Print Assumptions next_legacy_debug_refuted.

Fixpoint iterate_legacy (debug : bool) (n F : nat) (c : cursor) : cur_res (list item) :=
  match n with
  | O => CVal []
  | S n' =>
      match next_legacy debug F c with
      | CPanic => CPanic
      | CVal (_, None) => CVal []
      | CVal (c', Some d) =>
          match iterate_legacy debug n' F c' with CPanic => CPanic | CVal l => CVal (d :: l) end
      end
  end.

(* release build: an empty first leaf ends the iteration although a later leaf has entries *)
Definition skip_tree : tree := TB 5 0 [([x01], TL 3 0 []); ([x02], TL 4 0 [EKv [x02] [x2a]])].
Lemma next_legacy_skips_refuted :
  no_empty_branch skip_tree = true /\
  flatten skip_tree = [EKv [x02] [x2a]] /\
  iterate_legacy false (S (nodes skip_tree)) (S (nodes skip_tree)) (new_cursor skip_tree) = CVal [] /\
  scan skip_tree = CVal [IKv [x02] [x2a]].
Proof. repeat split; vm_compute; reflexivity. Qed.
Print Assumptions next_legacy_skips_refuted.

(* the hypothesis [no_empty_branch] is necessary: on an empty branch the cursor panics
   (seek_first stops on the branch, current on a branch frame = library panic) *)
Lemma empty_branch_panics : scan (TB 5 0 []) = CPanic /\
  scan (TB 5 0 [([x01], TL 3 0 [EKv [x01] [x2a]]); ([x02], TB 6 0 [])]) = CPanic.
Proof. split; vm_compute; reflexivity. Qed.
Print Assumptions end_state_not_fixed.
