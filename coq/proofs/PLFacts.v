(* Facts about the page-lifecycle machine (model/PL.v): reflection of the boolean set helpers,
   PLInv is an invariant of [accept], and the C02/C03/C05/C06/C10/C12 cores.
   No axioms; stdlib only. *)
From Coq Require Import List NArith Bool Lia ZifyN ZifyBool.
From Jamm Require Import PL.
Import ListNotations.
Local Open Scope list_scope. Local Open Scope N_scope.

Arguments N.add : simpl never. Arguments N.sub : simpl never. Arguments N.min : simpl never.
Arguments N.ltb : simpl never. Arguments N.leb : simpl never. Arguments N.eqb : simpl never.

(* ------------------------------------------------------------------------------------------ *)
(* 0. Reflection of the boolean set helpers                                                   *)
(* ------------------------------------------------------------------------------------------ *)

Lemma memN_In x l : memN x l = true <-> In x l.
Proof.
  unfold memN. rewrite existsb_exists. split.
  - intros [y [Hy He]]. apply N.eqb_eq in He. subst. exact Hy.
  - intros H. exists x. split; [exact H | apply N.eqb_refl].
Qed.

Lemma memN_false x l : memN x l = false <-> ~ In x l.
Proof.
  rewrite <- memN_In. destruct (memN x l); intuition congruence.
Qed.

Lemma negb_memN x l : negb (memN x l) = true <-> ~ In x l.
Proof. rewrite negb_true_iff. apply memN_false. Qed.

Lemma subsetN_incl a b : subsetN a b = true <-> incl a b.
Proof.
  unfold subsetN, incl. rewrite forallb_forall. split; intros H x Hx.
  - apply memN_In. apply H. exact Hx.
  - apply memN_In. apply H. exact Hx.
Qed.

Lemma disjointN_spec a b : disjointN a b = true <-> (forall x, In x a -> ~ In x b).
Proof.
  unfold disjointN. rewrite forallb_forall. split; intros H x Hx.
  - apply negb_memN. apply H. exact Hx.
  - apply negb_memN. apply H. exact Hx.
Qed.

Lemma diffN_In x a b : In x (diffN a b) <-> In x a /\ ~ In x b.
Proof. unfold diffN. rewrite filter_In. rewrite negb_memN. reflexivity. Qed.

Lemma nodupN_NoDup l : nodupN l = true <-> NoDup l.
Proof.
  induction l as [|x l IH]; cbn [nodupN].
  - split; intros; [constructor | reflexivity].
  - rewrite andb_true_iff, negb_memN, IH. split.
    + intros [H1 H2]. constructor; assumption.
    + intros H. inversion H; subst. split; assumption.
Qed.

Lemma seteqN_spec a b : seteqN a b = true <-> (forall x, In x a <-> In x b).
Proof.
  unfold seteqN. rewrite andb_true_iff, !subsetN_incl. unfold incl. split.
  - intros [H1 H2] x. split; auto.
  - intros H. split; intros x; apply H.
Qed.

Lemma seteqN_incl a b : seteqN a b = true <-> incl a b /\ incl b a.
Proof. unfold seteqN. rewrite andb_true_iff, !subsetN_incl. reflexivity. Qed.

(* the local fixpoint of rangeN, named *)
Fixpoint range_go (n : nat) (x : N) : list N :=
  match n with O => [] | S n' => x :: range_go n' (x + 1) end.

Lemma rangeN_go lo hi : rangeN lo hi = range_go (N.to_nat (hi - lo)) lo.
Proof. reflexivity. Qed.

Lemma range_go_In n : forall lo x, In x (range_go n lo) <-> lo <= x < lo + N.of_nat n.
Proof.
  induction n as [|n IH]; intros lo x; cbn [range_go In].
  - split; [tauto | lia].
  - rewrite IH. lia.
Qed.

Lemma range_go_NoDup n : forall lo, NoDup (range_go n lo).
Proof.
  induction n as [|n IH]; intros lo; cbn [range_go]; constructor.
  - rewrite range_go_In. lia.
  - apply IH.
Qed.

Lemma rangeN_In x lo hi : In x (rangeN lo hi) <-> lo <= x < hi.
Proof. rewrite rangeN_go, range_go_In. lia. Qed.

Lemma rangeN_NoDup lo hi : NoDup (rangeN lo hi).
Proof. rewrite rangeN_go. apply range_go_NoDup. Qed.

(* NoDup of an append *)
Lemma NoDup_app_iff {A} (a b : list A) :
  NoDup (a ++ b) <-> NoDup a /\ NoDup b /\ (forall x, In x a -> ~ In x b).
Proof.
  induction a as [|y a IH]; cbn [app].
  - split.
    + intros H. split; [constructor | split; [exact H | intros x []]].
    + intros [_ [H _]]. exact H.
  - split.
    + intros H. inversion H as [|? ? Hn Hd]; subst. apply IH in Hd. destruct Hd as [Ha [Hb Hab]].
      split; [|split].
      * constructor; [|exact Ha]. intros Hy. apply Hn. apply in_or_app. left. exact Hy.
      * exact Hb.
      * intros x [Hx|Hx] Hxb.
        -- subst. apply Hn. apply in_or_app. right. exact Hxb.
        -- exact (Hab x Hx Hxb).
    + intros [Ha [Hb Hab]]. inversion Ha as [|? ? Hn Hd]; subst. constructor.
      * intros Hy. apply in_app_or in Hy. destruct Hy as [Hy|Hy]; [exact (Hn Hy)|].
        apply (Hab y); [left; reflexivity | exact Hy].
      * apply IH. split; [exact Hd | split; [exact Hb|]]. intros x Hx. apply Hab. right. exact Hx.
Qed.

(* ------------------------------------------------------------------------------------------ *)
(* pending lists                                                                              *)
(* ------------------------------------------------------------------------------------------ *)

Lemma pend_all_In x (p : pending) : In x (pend_all p) <-> exists u ps, In (u, ps) p /\ In x ps.
Proof.
  unfold pend_all. rewrite in_flat_map. split.
  - intros [[u ps] [H1 H2]]. exists u, ps. split; assumption.
  - intros [u [ps [H1 H2]]]. exists (u, ps). split; assumption.
Qed.

Lemma pend_lt_In x t (p : pending) :
  In x (pend_lt t p) <-> exists u ps, In (u, ps) p /\ u < t /\ In x ps.
Proof.
  unfold pend_lt. rewrite in_flat_map. split.
  - intros [[u ps] [H1 H2]]. apply filter_In in H1. destruct H1 as [H1 H3]. cbn [fst snd] in *.
    exists u, ps. split; [exact H1 | split; [lia | exact H2]].
  - intros [u [ps [H1 [H2 H3]]]]. exists (u, ps). split; [|exact H3].
    apply filter_In. split; [exact H1|]. cbn [fst]. lia.
Qed.

Lemma pend_ge_In u ps t (p : pending) : In (u, ps) (pend_ge t p) <-> In (u, ps) p /\ t <= u.
Proof.
  unfold pend_ge. rewrite filter_In. cbn [fst]. split; intros [H1 H2]; split; try exact H1; lia.
Qed.

Lemma pend_all_ge_In x t (p : pending) :
  In x (pend_all (pend_ge t p)) <-> exists u ps, In (u, ps) p /\ t <= u /\ In x ps.
Proof.
  rewrite pend_all_In. split.
  - intros [u [ps [H1 H2]]]. apply pend_ge_In in H1. destruct H1. exists u, ps. tauto.
  - intros [u [ps [H1 [H2 H3]]]]. exists u, ps. split; [apply pend_ge_In; tauto | exact H3].
Qed.

Lemma pend_lt_incl t p : incl (pend_lt t p) (pend_all p).
Proof.
  intros x H. apply pend_lt_In in H. destruct H as [u [ps [H1 [_ H2]]]].
  apply pend_all_In. exists u, ps. tauto.
Qed.

Lemma pend_all_ge_incl t p : incl (pend_all (pend_ge t p)) (pend_all p).
Proof.
  intros x H. apply pend_all_ge_In in H. destruct H as [u [ps [H1 [_ H2]]]].
  apply pend_all_In. exists u, ps. tauto.
Qed.

(* partition: every pending page is either released or retained ... *)
Lemma pend_split_In x t p :
  In x (pend_all p) <-> In x (pend_lt t p) \/ In x (pend_all (pend_ge t p)).
Proof.
  rewrite pend_all_In, pend_lt_In, pend_all_ge_In. split.
  - intros [u [ps [H1 H2]]]. destruct (N.ltb_spec u t); [left|right]; exists u, ps; tauto.
  - intros [[u [ps H]]|[u [ps H]]]; exists u, ps; tauto.
Qed.

(* ... and, the lists being duplicate-free, not both *)
Lemma NoDup_flat_map_filter {A B} (g : A -> list B) (f : A -> bool) (l : list A) :
  NoDup (flat_map g l) ->
  NoDup (flat_map g (filter f l)) /\
  (forall x, In x (flat_map g (filter f l)) -> ~ In x (flat_map g (filter (fun a => negb (f a)) l))).
Proof.
  induction l as [|a l IH]; cbn [flat_map filter]; intros H.
  - split; [constructor | intros x []].
  - apply NoDup_app_iff in H. destruct H as [Ha [Hl Hal]]. destruct (IH Hl) as [IH1 IH2].
    assert (Hsub : forall h x, In x (flat_map g (filter h l)) -> In x (flat_map g l)).
    { intros h x Hx. apply in_flat_map in Hx. destruct Hx as [y [Hy Hx]]. apply filter_In in Hy.
      apply in_flat_map. exists y. tauto. }
    destruct (f a); cbn [negb flat_map].
    + split.
      * apply NoDup_app_iff. split; [exact Ha | split; [exact IH1|]].
        intros x Hx Hx'. exact (Hal x Hx (Hsub _ _ Hx')).
      * intros x Hx Hx'. apply in_app_or in Hx. destruct Hx as [Hx|Hx].
        -- exact (Hal x Hx (Hsub _ _ Hx')).
        -- exact (IH2 x Hx Hx').
    + split; [exact IH1|]. intros x Hx Hx'. apply in_app_or in Hx'. destruct Hx' as [Hx'|Hx'].
      * exact (Hal x Hx' (Hsub _ _ Hx)).
      * exact (IH2 x Hx Hx').
Qed.

Lemma pend_lt_NoDup t p : NoDup (pend_all p) -> NoDup (pend_lt t p).
Proof. intros H. apply (NoDup_flat_map_filter snd (fun x => fst x <? t) p H). Qed.

Lemma pend_lt_ge_disjoint t p :
  NoDup (pend_all p) -> forall x, In x (pend_lt t p) -> ~ In x (pend_all (pend_ge t p)).
Proof. intros H. apply (NoDup_flat_map_filter snd (fun x => fst x <? t) p H). Qed.

Lemma pend_all_ge_NoDup t p : NoDup (pend_all p) -> NoDup (pend_all (pend_ge t p)).
Proof. intros H. apply (NoDup_flat_map_filter snd (fun x => negb (fst x <? t)) p H). Qed.

(* In-equivalent duplicate-free lists are permutations: the partition as a Permutation *)
From Coq Require Import Permutation.
Lemma pend_split_perm t p :
  NoDup (pend_all p) -> Permutation (pend_all (pend_ge t p) ++ pend_lt t p) (pend_all p).
Proof.
  intros H. apply NoDup_Permutation.
  - apply NoDup_app_iff. split; [apply pend_all_ge_NoDup; exact H | split; [apply pend_lt_NoDup; exact H|]].
    intros x H1 H2. exact (pend_lt_ge_disjoint t p H x H2 H1).
  - exact H.
  - intros x. rewrite in_app_iff, (pend_split_In x t p). tauto.
Qed.

Lemma pend_all_app p q : pend_all (p ++ q) = pend_all p ++ pend_all q.
Proof. unfold pend_all. apply flat_map_app. Qed.

Lemma pend_all_snoc (p : pending) (t : N) (freed : list N) :
  pend_all (p ++ match freed with [] => [] | _ => [(t, freed)] end) = pend_all p ++ freed.
Proof.
  rewrite pend_all_app. f_equal. destruct freed; [reflexivity|].
  unfold pend_all. cbn [flat_map snd]. apply app_nil_r.
Qed.

Lemma In_snoc_pend (u : N) (ps : list N) (p : pending) (t : N) (freed : list N) :
  In (u, ps) (p ++ match freed with [] => [] | _ => [(t, freed)] end) ->
  In (u, ps) p \/ (u = t /\ ps = freed).
Proof.
  intros H. apply in_app_or in H. destruct H as [H|H]; [left; exact H|].
  destruct freed; [destruct H|]. destruct H as [H|[]]. inversion H; subst. right. split; reflexivity.
Qed.

(* ------------------------------------------------------------------------------------------ *)
(* min_reader, writer_view  (C10: release is exact)                                           *)
(* ------------------------------------------------------------------------------------------ *)

Lemma fold_min_le (l : list (N * list N)) : forall t,
  fold_left (fun m r => N.min m (fst r)) l t <= t /\
  (forall r, In r l -> fold_left (fun m r => N.min m (fst r)) l t <= fst r).
Proof.
  induction l as [|a l IH]; intros t; cbn [fold_left].
  - split; [lia | intros r []].
  - destruct (IH (N.min t (fst a))) as [H1 H2]. split; [lia|].
    intros r [Hr|Hr]; [subst; lia | apply H2; exact Hr].
Qed.

Lemma min_reader_le_t s t : min_reader s t <= t.
Proof. unfold min_reader. apply fold_min_le. Qed.

Lemma min_reader_le_reader s t : forall r L, In (r, L) (readers s) -> min_reader s t <= r.
Proof. intros r L H. unfold min_reader. apply (proj2 (fold_min_le (readers s) t) (r, L) H). Qed.

Lemma min_reader_no_readers s t : readers s = [] -> min_reader s t = t.
Proof. intros H. unfold min_reader. rewrite H. reflexivity. Qed.

Lemma writer_view_eq s t f1 p1 :
  writer_view s = (t, f1, p1) ->
  t = tx s + 1 /\ f1 = free s ++ pend_lt (min_reader s t) (pend s) /\ p1 = pend_ge (min_reader s t) (pend s).
Proof. unfold writer_view. intros H. inversion H; subst. repeat split. Qed.

Theorem release_exact s t f1 p1 :
  writer_view s = (t, f1, p1) ->
  forall u ps, In (u, ps) (pend s) ->
    (u < min_reader s t -> incl ps f1) /\ (min_reader s t <= u -> In (u, ps) p1).
Proof.
  intros Hwv u ps Hin. apply writer_view_eq in Hwv. destruct Hwv as [Ht [Hf Hp]]. split.
  - intros Hu x Hx. rewrite Hf. apply in_or_app. right. apply pend_lt_In. exists u, ps. tauto.
  - intros Hu. rewrite Hp. apply pend_ge_In. tauto.
Qed.

Lemma filter_nil {A} (f : A -> bool) l : (forall x, In x l -> f x = false) -> filter f l = [].
Proof.
  induction l as [|a l IH]; intros H; cbn [filter]; [reflexivity|].
  rewrite (H a (or_introl eq_refl)). apply IH. intros x Hx. apply H. right. exact Hx.
Qed.

(* with no reader registered, a beginning writer releases every pending list *)
Theorem release_all_no_readers s t f1 p1 :
  PLInv s -> readers s = [] -> writer_view s = (t, f1, p1) ->
  p1 = [] /\ (forall x, In x f1 <-> In x (free s) \/ In x (pend_all (pend s))).
Proof.
  intros Hinv Hr Hwv. apply writer_view_eq in Hwv. destruct Hwv as [Ht [Hf Hp]].
  destruct Hinv as [_ [_ [_ [Hk _]]]]. rewrite (min_reader_no_readers s t Hr) in *.
  assert (Hp1 : p1 = []).
  { rewrite Hp. unfold pend_ge. apply filter_nil. intros [u ps] Hin. cbn [fst].
    specialize (Hk u ps Hin). lia. }
  split; [exact Hp1|]. intros x. rewrite Hf, in_app_iff, (pend_split_In x t (pend s)), <- Hp, Hp1.
  cbn. tauto.
Qed.

(* ------------------------------------------------------------------------------------------ *)
(* the invariant, unpacked                                                                    *)
(* ------------------------------------------------------------------------------------------ *)

Record inv_facts (s : pl) : Prop := {
  if_np : 2 <= np s;
  if_nd_live : NoDup (live s);
  if_nd_free : NoDup (free s);
  if_nd_pend : NoDup (pend_all (pend s));
  if_live_free : forall x, In x (live s) -> ~ In x (free s);
  if_live_pend : forall x, In x (live s) -> ~ In x (pend_all (pend s));
  if_free_pend : forall x, In x (free s) -> ~ In x (pend_all (pend s));
  if_live_rng : forall x, In x (live s) -> 2 <= x < np s;
  if_free_rng : forall x, In x (free s) -> 2 <= x < np s;
  if_pend_rng : forall x, In x (pend_all (pend s)) -> 2 <= x < np s;
  if_cover : forall x, 2 <= x < np s -> In x (live s) \/ In x (free s) \/ In x (pend_all (pend s));
  if_keys : forall u ps, In (u, ps) (pend s) -> u <= tx s;
  if_readers : forall r L, In (r, L) (readers s) ->
      r <= tx s /\
      (forall x, In x L -> 2 <= x < np s) /\
      (forall x, In x L -> ~ In x (free s)) /\
      (forall u ps, In (u, ps) (pend s) -> u <= r -> forall x, In x L -> ~ In x ps)
}.

Lemma PLInv_facts s : PLInv s <-> inv_facts s.
Proof.
  unfold PLInv, all_pages. split.
  - intros [H1 [H2 [H3 [H4 H5]]]].
    apply NoDup_app_iff in H2. destruct H2 as [Ha [Hb Hab]].
    apply NoDup_app_iff in Hb. destruct Hb as [Hb [Hc Hbc]].
    constructor; try assumption.
    + intros x Hx Hx'. apply (Hab x Hx). apply in_or_app. left. exact Hx'.
    + intros x Hx Hx'. apply (Hab x Hx). apply in_or_app. right. exact Hx'.
    + intros x Hx. apply H3. apply in_or_app. left. exact Hx.
    + intros x Hx. apply H3. apply in_or_app. right. apply in_or_app. left. exact Hx.
    + intros x Hx. apply H3. apply in_or_app. right. apply in_or_app. right. exact Hx.
    + intros x Hx. apply H3 in Hx. rewrite !in_app_iff in Hx. exact Hx.
  - intros [ ]. split; [assumption|]. split; [|split; [|split; assumption]].
    + apply NoDup_app_iff. split; [assumption|]. split.
      * apply NoDup_app_iff. auto.
      * intros x Hx Hx'. apply in_app_or in Hx'. destruct Hx'; [eapply if_live_free0 | eapply if_live_pend0]; eauto.
    + intros x. rewrite !in_app_iff. split.
      * intros [H|[H|H]]; auto.
      * apply if_cover0.
Qed.

(* ------------------------------------------------------------------------------------------ *)
(* 1. the initial state                                                                       *)
(* ------------------------------------------------------------------------------------------ *)

Theorem init_inv : PLInv init_pl.
Proof.
  unfold PLInv, all_pages, init_pl. cbn [np live free pend tx readers pend_all flat_map app].
  split; [lia|]. split; [|split; [|split]].
  - apply nodupN_NoDup. reflexivity.
  - intros x. cbn [In]. lia.
  - intros u ps [].
  - intros r L [].
Qed.
Print Assumptions init_inv.

(* ------------------------------------------------------------------------------------------ *)
(* facts about the view of a beginning writer                                                 *)
(* ------------------------------------------------------------------------------------------ *)

Section View.
  Variable s : pl.
  Hypothesis Hinv : inv_facts s.
  Variables (t : N) (f1 : list N) (p1 : pending).
  Hypothesis Hwv : writer_view s = (t, f1, p1).

  Let m := min_reader s t.

  Lemma view_t : t = tx s + 1.
  Proof. apply writer_view_eq in Hwv. tauto. Qed.

  Lemma view_f1_In x : In x f1 <-> In x (free s) \/ In x (pend_lt m (pend s)).
  Proof. apply writer_view_eq in Hwv. destruct Hwv as [_ [-> _]]. apply in_app_iff. Qed.

  Lemma view_p1 : p1 = pend_ge m (pend s).
  Proof. apply writer_view_eq in Hwv. tauto. Qed.

  Lemma view_f1_old x : In x f1 -> In x (free s) \/ In x (pend_all (pend s)).
  Proof. rewrite view_f1_In. intros [H|H]; [left; exact H | right; exact (pend_lt_incl _ _ _ H)]. Qed.

  Lemma view_f1_rng x : In x f1 -> 2 <= x < np s.
  Proof. intros H. apply view_f1_old in H. destruct H; [apply (if_free_rng s Hinv) | apply (if_pend_rng s Hinv)]; assumption. Qed.

  Lemma view_f1_live x : In x f1 -> ~ In x (live s).
  Proof.
    intros H Hl. apply view_f1_old in H. destruct H; [eapply (if_live_free s Hinv) | eapply (if_live_pend s Hinv)]; eauto.
  Qed.

  Lemma view_p1_old x : In x (pend_all p1) -> In x (pend_all (pend s)).
  Proof. rewrite view_p1. apply pend_all_ge_incl. Qed.

  Lemma view_p1_sub u ps : In (u, ps) p1 -> In (u, ps) (pend s).
  Proof. rewrite view_p1. intros H. apply pend_ge_In in H. tauto. Qed.

  Lemma view_f1_p1 x : In x f1 -> ~ In x (pend_all p1).
  Proof.
    rewrite view_f1_In, view_p1. intros [H|H] H'.
    - exact (if_free_pend s Hinv x H (pend_all_ge_incl _ _ _ H')).
    - exact (pend_lt_ge_disjoint m (pend s) (if_nd_pend s Hinv) x H H').
  Qed.

  Lemma view_p1_NoDup : NoDup (pend_all p1).
  Proof. rewrite view_p1. apply pend_all_ge_NoDup. apply (if_nd_pend s Hinv). Qed.

  Lemma view_f1_NoDup : NoDup f1.
  Proof.
    apply writer_view_eq in Hwv. destruct Hwv as [_ [-> _]]. apply NoDup_app_iff.
    split; [apply (if_nd_free s Hinv) | split; [apply pend_lt_NoDup; apply (if_nd_pend s Hinv)|]].
    intros x H H'. exact (if_free_pend s Hinv x H (pend_lt_incl _ _ _ H')).
  Qed.

  (* old pages: every old non-live page is in f1 or in p1 *)
  Lemma view_cover x : In x (free s) \/ In x (pend_all (pend s)) -> In x f1 \/ In x (pend_all p1).
  Proof.
    rewrite view_f1_In, view_p1. intros [H|H]; [tauto|].
    apply (pend_split_In x m) in H. tauto.
  Qed.

  (* a registered reader's snapshot is disjoint from what the writer may reuse *)
  Lemma view_f1_reader r L : In (r, L) (readers s) -> forall x, In x L -> ~ In x f1.
  Proof.
    intros Hr x Hx Hf. destruct (if_readers s Hinv r L Hr) as [_ [_ [Hfree Hpend]]].
    apply view_f1_In in Hf. destruct Hf as [Hf|Hf]; [exact (Hfree x Hx Hf)|].
    apply pend_lt_In in Hf. destruct Hf as [u [ps [H1 [H2 H3]]]].
    assert (m <= r) by (apply (min_reader_le_reader s t r L Hr)).
    apply (Hpend u ps H1 ltac:(lia) x Hx H3).
  Qed.
End View.

Theorem pinned_retained s r L t f1 p1 :
  PLInv s -> In (r, L) (readers s) -> writer_view s = (t, f1, p1) -> forall x, In x L -> ~ In x f1.
Proof. intros Hinv Hr Hwv. apply PLInv_facts in Hinv. exact (view_f1_reader s Hinv t f1 p1 Hwv r L Hr). Qed.

(* ------------------------------------------------------------------------------------------ *)
(* the commit contract as propositions                                                        *)
(* ------------------------------------------------------------------------------------------ *)

Record commit_facts (s : pl) (w nf : list N) (npd : pending) (l' : list N) (np' tx' : N)
       (t : N) (f1 : list N) (p1 : pending) (alloc freed : list N) : Prop := {
  cf_alloc : forall x, In x alloc <-> (In x f1 /\ ~ In x nf) \/ np s <= x < np';
  cf_freed : freed = commit_freed t npd;
  cf_np : np s <= np';
  cf_tx : tx' = t;
  cf_nd_nf : NoDup nf;
  cf_nf_f1 : incl nf f1;
  cf_nd_freed : NoDup freed;
  cf_freed_sub : forall x, In x freed -> In x (live s) \/ In x alloc;
  cf_live'_sub : forall x, In x l' -> (In x (live s) /\ ~ In x freed) \/ In x alloc;
  cf_alloc_sub : forall x, In x alloc -> In x l' \/ In x freed;
  cf_written : incl w alloc;
  cf_kept : forall x, In x (live s) -> ~ In x freed -> In x l';
  cf_live'_freed : forall x, In x l' -> ~ In x freed;
  cf_nd_live' : NoDup l'
}.

Lemma commit_ok_facts s w nf npd l' np' tx' t f1 p1 :
  writer_view s = (t, f1, p1) ->
  commit_ok s w nf npd l' np' tx' = true ->
  commit_facts s w nf npd l' np' tx' t f1 p1 (diffN f1 nf ++ rangeN (np s) np') (commit_freed t npd).
Proof.
  intros Hwv H. unfold commit_ok in H. rewrite Hwv in H.
  repeat (apply andb_prop in H; let H' := fresh "C" in destruct H as [H H']).
  constructor.
  - intros x. rewrite in_app_iff, diffN_In, rangeN_In. reflexivity.
  - reflexivity.
  - apply N.leb_le. assumption.
  - apply N.eqb_eq. assumption.
  - apply nodupN_NoDup. assumption.
  - apply subsetN_incl. assumption.
  - apply nodupN_NoDup. assumption.
  - intros x Hx. apply in_app_iff. revert x Hx. apply subsetN_incl. assumption.
  - intros x Hx. rewrite <- diffN_In. apply in_app_iff. revert x Hx. apply subsetN_incl. assumption.
  - intros x Hx. apply in_app_iff. revert x Hx. apply subsetN_incl. assumption.
  - apply subsetN_incl. assumption.
  - intros x Hx Hx'. assert (Hd : In x (diffN (live s) (commit_freed t npd))) by (apply diffN_In; tauto).
    clear Hx Hx'. revert x Hd. apply subsetN_incl. assumption.
  - apply disjointN_spec. assumption.
  - apply nodupN_NoDup. assumption.
Qed.

(* the shape of an accepted commit *)
Lemma accept_commit_inv s w nf npd l' np' tx' s' :
  accept s (ECommit w nf npd l' np' tx') = Some s' ->
  exists t f1 p1,
    writer_view s = (t, f1, p1) /\
    commit_ok s w nf npd l' np' tx' = true /\
    s' = mkPl l' nf (p1 ++ match commit_freed t npd with [] => [] | _ => [(t, commit_freed t npd)] end)
              np' t (readers s).
Proof.
  cbn [accept]. destruct (commit_ok s w nf npd l' np' tx') eqn:Hok; [|discriminate].
  destruct (writer_view s) as [[t f1] p1] eqn:Hwv. intros H. inversion H; subst.
  exists t, f1, p1. repeat split.
Qed.

(* ------------------------------------------------------------------------------------------ *)
(* consequences of the commit contract in a state satisfying the invariant                    *)
(* ------------------------------------------------------------------------------------------ *)

Section Commit.
  Variable s : pl.
  Hypothesis Hinv : inv_facts s.
  Variables (w nf : list N) (npd : pending) (l' : list N) (np' tx' : N).
  Variables (t : N) (f1 : list N) (p1 : pending) (alloc freed : list N).
  Hypothesis Hwv : writer_view s = (t, f1, p1).
  Hypothesis Hc : commit_facts s w nf npd l' np' tx' t f1 p1 alloc freed.

  Lemma alloc_not_live x : In x alloc -> ~ In x (live s).
  Proof.
    intros Ha Hl. apply (cf_alloc _ _ _ _ _ _ _ _ _ _ _ _ Hc) in Ha. destruct Ha as [[Ha _]|Ha].
    - exact (view_f1_live s Hinv t f1 p1 Hwv x Ha Hl).
    - apply (if_live_rng s Hinv) in Hl. lia.
  Qed.

  Lemma alloc_not_nf x : In x alloc -> ~ In x nf.
  Proof.
    intros Ha Hn. apply (cf_alloc _ _ _ _ _ _ _ _ _ _ _ _ Hc) in Ha. destruct Ha as [[_ Ha]|Ha]; [tauto|].
    apply (cf_nf_f1 _ _ _ _ _ _ _ _ _ _ _ _ Hc) in Hn. apply (view_f1_rng s Hinv t f1 p1 Hwv) in Hn. lia.
  Qed.

  Lemma alloc_not_p1 x : In x alloc -> ~ In x (pend_all p1).
  Proof.
    intros Ha Hp. apply (cf_alloc _ _ _ _ _ _ _ _ _ _ _ _ Hc) in Ha. destruct Ha as [[Ha _]|Ha].
    - exact (view_f1_p1 s Hinv t f1 p1 Hwv x Ha Hp).
    - apply (view_p1_old s t f1 p1 Hwv) in Hp. apply (if_pend_rng s Hinv) in Hp. lia.
  Qed.

  Lemma alloc_rng x : In x alloc -> 2 <= x < np'.
  Proof.
    intros Ha. pose proof (cf_np _ _ _ _ _ _ _ _ _ _ _ _ Hc). pose proof (if_np s Hinv).
    apply (cf_alloc _ _ _ _ _ _ _ _ _ _ _ _ Hc) in Ha. destruct Ha as [[Ha _]|Ha]; [|lia].
    apply (view_f1_rng s Hinv t f1 p1 Hwv) in Ha. lia.
  Qed.

  Lemma alloc_not_reader r L : In (r, L) (readers s) -> forall x, In x alloc -> ~ In x L.
  Proof.
    intros Hr x Ha HL. apply (cf_alloc _ _ _ _ _ _ _ _ _ _ _ _ Hc) in Ha. destruct Ha as [[Ha _]|Ha].
    - exact (view_f1_reader s Hinv t f1 p1 Hwv r L Hr x HL Ha).
    - destruct (if_readers s Hinv r L Hr) as [_ [Hrng _]]. apply Hrng in HL. lia.
  Qed.

  Lemma live_not_nf x : In x (live s) -> ~ In x nf.
  Proof. intros Hl Hn. apply (cf_nf_f1 _ _ _ _ _ _ _ _ _ _ _ _ Hc) in Hn. exact (view_f1_live s Hinv t f1 p1 Hwv x Hn Hl). Qed.

  Lemma live_not_p1 x : In x (live s) -> ~ In x (pend_all p1).
  Proof. intros Hl Hp. apply (view_p1_old s t f1 p1 Hwv) in Hp. exact (if_live_pend s Hinv x Hl Hp). Qed.

  Lemma nf_not_p1 x : In x nf -> ~ In x (pend_all p1).
  Proof. intros Hn. apply (cf_nf_f1 _ _ _ _ _ _ _ _ _ _ _ _ Hc) in Hn. exact (view_f1_p1 s Hinv t f1 p1 Hwv x Hn). Qed.

  (* NoDup of live' ++ new_free ++ (pending ++ freed) *)
  Lemma commit_NoDup : NoDup (l' ++ nf ++ pend_all p1 ++ freed).
  Proof.
    apply NoDup_app_iff. split; [apply (cf_nd_live' _ _ _ _ _ _ _ _ _ _ _ _ Hc)|]. split.
    - apply NoDup_app_iff. split; [apply (cf_nd_nf _ _ _ _ _ _ _ _ _ _ _ _ Hc)|]. split.
      + apply NoDup_app_iff. split; [apply (view_p1_NoDup s Hinv t f1 p1 Hwv)|].
        split; [apply (cf_nd_freed _ _ _ _ _ _ _ _ _ _ _ _ Hc)|].
        intros x Hp Hf. apply (cf_freed_sub _ _ _ _ _ _ _ _ _ _ _ _ Hc) in Hf. destruct Hf as [Hf|Hf].
        * exact (live_not_p1 x Hf Hp).
        * exact (alloc_not_p1 x Hf Hp).
      + intros x Hn Hx. apply in_app_or in Hx. destruct Hx as [Hx|Hx].
        * exact (nf_not_p1 x Hn Hx).
        * apply (cf_freed_sub _ _ _ _ _ _ _ _ _ _ _ _ Hc) in Hx. destruct Hx as [Hx|Hx].
          -- exact (live_not_nf x Hx Hn).
          -- exact (alloc_not_nf x Hx Hn).
    - intros x Hl Hx. apply in_app_or in Hx. destruct Hx as [Hx|Hx]; [|apply in_app_or in Hx; destruct Hx as [Hx|Hx]].
      + apply (cf_live'_sub _ _ _ _ _ _ _ _ _ _ _ _ Hc) in Hl. destruct Hl as [[Hl _]|Hl].
        * exact (live_not_nf x Hl Hx).
        * exact (alloc_not_nf x Hl Hx).
      + apply (cf_live'_sub _ _ _ _ _ _ _ _ _ _ _ _ Hc) in Hl. destruct Hl as [[Hl _]|Hl].
        * exact (live_not_p1 x Hl Hx).
        * exact (alloc_not_p1 x Hl Hx).
      + exact (cf_live'_freed _ _ _ _ _ _ _ _ _ _ _ _ Hc x Hl Hx).
  Qed.

  (* coverage of [2, np') *)
  Lemma commit_cover x : In x (l' ++ nf ++ pend_all p1 ++ freed) <-> 2 <= x < np'.
  Proof.
    pose proof (cf_np _ _ _ _ _ _ _ _ _ _ _ _ Hc) as Hnp. pose proof (if_np s Hinv) as Hnp2.
    rewrite !in_app_iff. split.
    - assert (Hlive : In x (live s) -> 2 <= x < np') by (intros H; apply (if_live_rng s Hinv) in H; lia).
      intros [H|[H|[H|H]]].
      + apply (cf_live'_sub _ _ _ _ _ _ _ _ _ _ _ _ Hc) in H. destruct H as [[H _]|H]; [auto | apply alloc_rng; exact H].
      + apply (cf_nf_f1 _ _ _ _ _ _ _ _ _ _ _ _ Hc) in H. apply (view_f1_rng s Hinv t f1 p1 Hwv) in H. lia.
      + apply (view_p1_old s t f1 p1 Hwv) in H. apply (if_pend_rng s Hinv) in H. lia.
      + apply (cf_freed_sub _ _ _ _ _ _ _ _ _ _ _ _ Hc) in H. destruct H as [H|H]; [auto | apply alloc_rng; exact H].
    - intros Hx.
      assert (Halloc : In x alloc -> In x l' \/ In x nf \/ In x (pend_all p1) \/ In x freed).
      { intros H. apply (cf_alloc_sub _ _ _ _ _ _ _ _ _ _ _ _ Hc) in H. tauto. }
      destruct (N.ltb_spec x (np s)) as [Hlt|Hge].
      + destruct (if_cover s Hinv x ltac:(lia)) as [H|H].
        * destruct (in_dec N.eq_dec x freed) as [Hf|Hf]; [tauto|].
          left. exact (cf_kept _ _ _ _ _ _ _ _ _ _ _ _ Hc x H Hf).
        * apply (view_cover s t f1 p1 Hwv) in H. destruct H as [H|H]; [|tauto].
          destruct (in_dec N.eq_dec x nf) as [Hn|Hn]; [tauto|].
          apply Halloc. apply (cf_alloc _ _ _ _ _ _ _ _ _ _ _ _ Hc). left. tauto.
      + apply Halloc. apply (cf_alloc _ _ _ _ _ _ _ _ _ _ _ _ Hc). right. lia.
  Qed.
End Commit.

(* ------------------------------------------------------------------------------------------ *)
(* 2. PLInv is preserved by every accepted event                                              *)
(* ------------------------------------------------------------------------------------------ *)

Lemma accept_inv_BeginR s s' : PLInv s -> accept s EBeginR = Some s' -> PLInv s'.
Proof.
  intros Hinv H. cbn [accept] in H. inversion H; subst; clear H.
  pose proof (proj1 (PLInv_facts s) Hinv) as F.
  destruct Hinv as [H1 [H2 [H3 [H4 H5]]]]. unfold PLInv, all_pages in *. cbn [live free pend np tx readers].
  split; [exact H1|]. split; [exact H2|]. split; [exact H3|]. split; [exact H4|].
  intros r L [Hr|Hr]; [|apply H5; exact Hr]. inversion Hr; subst; clear Hr.
  split; [lia|]. split; [apply (if_live_rng s F)|]. split; [apply (if_live_free s F)|].
  intros u ps Hin _ x Hx Hps. apply (if_live_pend s F x Hx). apply pend_all_In. exists u, ps. tauto.
Qed.

Lemma remove_reader_In snap : forall l l', remove_reader snap l = Some l' -> forall r, In r l' -> In r l.
Proof.
  induction l as [|a l IH]; intros l' H r Hr; cbn [remove_reader] in H; [discriminate|].
  destruct (fst a =? snap).
  - inversion H; subst. right. exact Hr.
  - destruct (remove_reader snap l) as [l''|] eqn:E; [|discriminate]. inversion H; subst.
    destruct Hr as [Hr|Hr]; [left; exact Hr | right; exact (IH l'' eq_refl r Hr)].
Qed.

Lemma accept_inv_EndR s snap s' : PLInv s -> accept s (EEndR snap) = Some s' -> PLInv s'.
Proof.
  intros Hinv H. cbn [accept] in H. destruct (remove_reader snap (readers s)) as [rs|] eqn:E; [|discriminate].
  inversion H; subst; clear H.
  destruct Hinv as [H1 [H2 [H3 [H4 H5]]]]. unfold PLInv, all_pages in *. cbn [live free pend np tx readers].
  split; [exact H1|]. split; [exact H2|]. split; [exact H3|]. split; [exact H4|].
  intros r L Hr. apply H5. exact (remove_reader_In snap _ _ E _ Hr).
Qed.

(* C06 *)
Theorem accept_BeginW_same s f p s' : accept s (EBeginW f p) = Some s' -> s' = s.
Proof.
  cbn [accept]. destruct (writer_view s) as [[t f1] p1].
  destruct (seteqN f f1 && nodupN f && pend_eq p p1); intros H; inversion H; reflexivity.
Qed.

Theorem accept_Rollback_same s : accept s ERollback = Some s.
Proof. reflexivity. Qed.

Lemma accept_inv_BeginW s f p s' : PLInv s -> accept s (EBeginW f p) = Some s' -> PLInv s'.
Proof. intros Hinv H. apply accept_BeginW_same in H. subst. exact Hinv. Qed.

Lemma accept_inv_Rollback s s' : PLInv s -> accept s ERollback = Some s' -> PLInv s'.
Proof. intros Hinv H. inversion H; subst. exact Hinv. Qed.

Lemma accept_reopen_inv s f s' :
  accept s (EReopen f) = Some s' ->
  (forall x, In x f <-> In x (free s) \/ In x (pend_all (pend s))) /\ NoDup f /\
  s' = mkPl (live s) f [] (np s) (tx s) [].
Proof.
  cbn [accept]. destruct (seteqN f (free s ++ pend_all (pend s)) && nodupN f) eqn:E; [|discriminate].
  apply andb_prop in E. destruct E as [E1 E2]. intros H. inversion H; subst; clear H.
  split; [|split; [apply nodupN_NoDup; exact E2 | reflexivity]].
  intros x. rewrite <- in_app_iff. apply seteqN_spec. exact E1.
Qed.

(* C10 *)
Theorem reopen_keeps s f s' :
  accept s (EReopen f) = Some s' -> forall x, In x (free s') <-> In x (free s) \/ In x (pend_all (pend s)).
Proof. intros H. apply accept_reopen_inv in H. destruct H as [H [_ ->]]. exact H. Qed.

Lemma accept_inv_Reopen s f s' : PLInv s -> accept s (EReopen f) = Some s' -> PLInv s'.
Proof.
  intros Hinv H. apply accept_reopen_inv in H. destruct H as [Hf [Hnd ->]].
  apply PLInv_facts in Hinv. apply PLInv_facts.
  constructor; cbn [live free pend np tx readers pend_all flat_map]; try apply Hinv.
  - exact Hnd.
  - constructor.
  - intros x Hl Hx. apply Hf in Hx. destruct Hx; [eapply (if_live_free s Hinv) | eapply (if_live_pend s Hinv)]; eauto.
  - intros x _ [].
  - intros x _ [].
  - intros x Hx. apply Hf in Hx. destruct Hx; [apply (if_free_rng s Hinv) | apply (if_pend_rng s Hinv)]; assumption.
  - intros x [].
  - intros x Hx. apply (if_cover s Hinv) in Hx. rewrite Hf. tauto.
  - intros u ps [].
  - intros r L [].
Qed.

Lemma accept_inv_Commit s w nf npd l' np' tx' s' :
  PLInv s -> accept s (ECommit w nf npd l' np' tx') = Some s' -> PLInv s'.
Proof.
  intros Hinv H. apply accept_commit_inv in H. destruct H as [t [f1 [p1 [Hwv [Hok ->]]]]].
  pose proof (commit_ok_facts _ _ _ _ _ _ _ _ _ _ Hwv Hok) as Hc.
  apply PLInv_facts in Hinv.
  set (freed := commit_freed t npd) in *.
  unfold PLInv, all_pages. cbn [live free pend np tx readers]. rewrite pend_all_snoc.
  pose proof (view_t s t f1 p1 Hwv) as Ht.
  split; [|split; [|split; [|split]]].
  - pose proof (cf_np _ _ _ _ _ _ _ _ _ _ _ _ Hc). pose proof (if_np s Hinv). lia.
  - exact (commit_NoDup s Hinv _ _ _ _ _ _ _ _ _ _ _ Hwv Hc).
  - exact (commit_cover s Hinv _ _ _ _ _ _ _ _ _ _ _ Hwv Hc).
  - intros u ps Hin. apply In_snoc_pend in Hin. destruct Hin as [Hin|[-> _]]; [|lia].
    apply (view_p1_sub s t f1 p1 Hwv) in Hin. apply (if_keys s Hinv) in Hin. lia.
  - intros r L Hr. destruct (if_readers s Hinv r L Hr) as [R1 [R2 [R3 R4]]].
    split; [lia|]. split; [|split].
    + intros x Hx. apply R2 in Hx. pose proof (cf_np _ _ _ _ _ _ _ _ _ _ _ _ Hc). lia.
    + intros x Hx Hn. apply (cf_nf_f1 _ _ _ _ _ _ _ _ _ _ _ _ Hc) in Hn.
      exact (view_f1_reader s Hinv t f1 p1 Hwv r L Hr x Hx Hn).
    + intros u ps Hin Hur. apply In_snoc_pend in Hin. destruct Hin as [Hin|[-> _]]; [|lia].
      apply (view_p1_sub s t f1 p1 Hwv) in Hin. exact (R4 u ps Hin Hur).
Qed.

Theorem accept_inv : forall s e s', PLInv s -> accept s e = Some s' -> PLInv s'.
Proof.
  intros s e s' Hinv H. destruct e.
  - exact (accept_inv_BeginR s s' Hinv H).
  - exact (accept_inv_EndR s snap s' Hinv H).
  - exact (accept_inv_BeginW s obs_free obs_pend s' Hinv H).
  - exact (accept_inv_Commit s _ _ _ _ _ _ s' Hinv H).
  - exact (accept_inv_Rollback s s' Hinv H).
  - exact (accept_inv_Reopen s obs_free s' Hinv H).
Qed.
Print Assumptions accept_inv.

(* ------------------------------------------------------------------------------------------ *)
(* 3. runs                                                                                    *)
(* ------------------------------------------------------------------------------------------ *)

Corollary accept_all_inv : forall es s s', PLInv s -> accept_all s es = Some s' -> PLInv s'.
Proof.
  induction es as [|e es IH]; intros s s' Hinv H; cbn [accept_all] in H.
  - inversion H; subst. exact Hinv.
  - destruct (accept s e) as [s1|] eqn:E; [|discriminate].
    exact (IH s1 s' (accept_inv s e s1 Hinv E) H).
Qed.

Corollary reachable_inv : forall es s, accept_all init_pl es = Some s -> PLInv s.
Proof. intros es s H. exact (accept_all_inv es init_pl s init_inv H). Qed.
Print Assumptions accept_all_inv.
Print Assumptions reachable_inv.

(* ------------------------------------------------------------------------------------------ *)
(* 4. C03 core: a registered reader's snapshot is never written                               *)
(* ------------------------------------------------------------------------------------------ *)

Theorem snapshot_never_written : forall s w nf npd l' np' tx' s',
  PLInv s -> accept s (ECommit w nf npd l' np' tx') = Some s' ->
  forall r L, In (r, L) (readers s) -> forall x, In x w -> ~ In x L.
Proof.
  intros s w nf npd l' np' tx' s' Hinv H r L Hr x Hx.
  apply accept_commit_inv in H. destruct H as [t [f1 [p1 [Hwv [Hok _]]]]].
  pose proof (commit_ok_facts _ _ _ _ _ _ _ _ _ _ Hwv Hok) as Hc. apply PLInv_facts in Hinv.
  apply (cf_written _ _ _ _ _ _ _ _ _ _ _ _ Hc) in Hx.
  exact (alloc_not_reader s Hinv _ _ _ _ _ _ _ _ _ _ _ Hwv Hc r L Hr x Hx).
Qed.
Print Assumptions snapshot_never_written.

Theorem readers_Commit s w nf npd l' np' tx' s' :
  accept s (ECommit w nf npd l' np' tx') = Some s' -> readers s' = readers s.
Proof. intros H. apply accept_commit_inv in H. destruct H as [t [f1 [p1 [_ [_ ->]]]]]. reflexivity. Qed.

Theorem readers_BeginW s f p s' : accept s (EBeginW f p) = Some s' -> readers s' = readers s.
Proof. intros H. apply accept_BeginW_same in H. subst. reflexivity. Qed.

Theorem readers_Rollback s s' : accept s ERollback = Some s' -> readers s' = readers s.
Proof. intros H. inversion H. reflexivity. Qed.

(* after the commit the snapshot is still registered, hence (PLInv s') neither free nor released,
   and no page of it is in what the NEXT writer may reuse *)
Corollary snapshot_retained_after_commit s w nf npd l' np' tx' s' r L :
  PLInv s -> accept s (ECommit w nf npd l' np' tx') = Some s' -> In (r, L) (readers s) ->
  In (r, L) (readers s') /\
  (forall x, In x L -> ~ In x (free s')) /\
  (forall u ps, In (u, ps) (pend s') -> u <= r -> forall x, In x L -> ~ In x ps) /\
  (forall t f1 p1, writer_view s' = (t, f1, p1) -> forall x, In x L -> ~ In x f1).
Proof.
  intros Hinv H Hr. pose proof (accept_inv _ _ _ Hinv H) as Hinv'.
  assert (Hr' : In (r, L) (readers s')) by (rewrite (readers_Commit _ _ _ _ _ _ _ _ H); exact Hr).
  split; [exact Hr'|]. destruct Hinv' as [I1 [I2 [I3 [I4 I5]]]]. destruct (I5 r L Hr') as [_ [_ [A B]]].
  split; [exact A|]. split; [exact B|]. intros t f1 p1 Hwv.
  exact (pinned_retained s' r L t f1 p1 (conj I1 (conj I2 (conj I3 (conj I4 I5)))) Hr' Hwv).
Qed.

(* ------------------------------------------------------------------------------------------ *)
(* 5. C02/C12 premise: copy-on-write                                                          *)
(* ------------------------------------------------------------------------------------------ *)

Theorem commit_cow : forall s w nf npd l' np' tx' s',
  PLInv s -> accept s (ECommit w nf npd l' np' tx') = Some s' ->
  (forall x, In x w -> ~ In x (live s)) /\
  (forall x, In x (live s) -> In x (live s') \/ In x (pend_all (pend s'))).
Proof.
  intros s w nf npd l' np' tx' s' Hinv H.
  apply accept_commit_inv in H. destruct H as [t [f1 [p1 [Hwv [Hok ->]]]]].
  pose proof (commit_ok_facts _ _ _ _ _ _ _ _ _ _ Hwv Hok) as Hc. apply PLInv_facts in Hinv.
  cbn [live pend]. rewrite pend_all_snoc. split.
  - intros x Hx. apply (cf_written _ _ _ _ _ _ _ _ _ _ _ _ Hc) in Hx.
    exact (alloc_not_live s Hinv _ _ _ _ _ _ _ _ _ _ _ Hwv Hc x Hx).
  - intros x Hx. destruct (in_dec N.eq_dec x (commit_freed t npd)) as [Hf|Hf].
    + right. apply in_or_app. right. exact Hf.
    + left. exact (cf_kept _ _ _ _ _ _ _ _ _ _ _ _ Hc x Hx Hf).
Qed.
Print Assumptions commit_cow.

(* sharper: the old live pages that leave the live set go to the pending list OF THIS commit,
   they are not free after it *)
Corollary commit_cow_not_free s w nf npd l' np' tx' s' :
  PLInv s -> accept s (ECommit w nf npd l' np' tx') = Some s' ->
  forall x, In x (live s) -> ~ In x (free s').
Proof.
  intros Hinv H x Hx. pose proof (accept_inv _ _ _ Hinv H) as Hinv'. apply PLInv_facts in Hinv'.
  destruct (proj2 (commit_cow _ _ _ _ _ _ _ _ Hinv H) x Hx) as [Hl|Hp].
  - exact (if_live_free s' Hinv' x Hl).
  - intros Hf. exact (if_free_pend s' Hinv' x Hf Hp).
Qed.

(* ------------------------------------------------------------------------------------------ *)
(* 7. C10 (rest): release with no reader                                                      *)
(* ------------------------------------------------------------------------------------------ *)

Theorem release_no_readers s t f1 p1 :
  PLInv s -> readers s = [] -> writer_view s = (t, f1, p1) -> p1 = [].
Proof. intros Hinv Hr Hwv. exact (proj1 (release_all_no_readers s t f1 p1 Hinv Hr Hwv)). Qed.
Print Assumptions accept_BeginW_same.
Print Assumptions accept_Rollback_same.
Print Assumptions snapshot_retained_after_commit.
Print Assumptions commit_cow_not_free.
Print Assumptions release_exact.
Print Assumptions release_all_no_readers.
Print Assumptions release_no_readers.
Print Assumptions reopen_keeps.
Print Assumptions pinned_retained.

(* ------------------------------------------------------------------------------------------ *)
(* 8. C05: live / free / pending partition [2, np)                                            *)
(* ------------------------------------------------------------------------------------------ *)

Theorem partition : forall s, PLInv s -> forall x, 2 <= x < np s ->
  (In x (live s) /\ ~ In x (free s) /\ ~ In x (pend_all (pend s))) \/
  (~ In x (live s) /\ In x (free s) /\ ~ In x (pend_all (pend s))) \/
  (~ In x (live s) /\ ~ In x (free s) /\ In x (pend_all (pend s))).
Proof.
  intros s Hinv x Hx. apply PLInv_facts in Hinv.
  pose proof (if_live_free s Hinv x). pose proof (if_live_pend s Hinv x). pose proof (if_free_pend s Hinv x).
  destruct (if_cover s Hinv x Hx) as [H'|[H'|H']]; tauto.
Qed.

Theorem partition_NoDup : forall s, PLInv s ->
  NoDup (live s) /\ NoDup (free s) /\ NoDup (pend_all (pend s)).
Proof. intros s Hinv. apply PLInv_facts in Hinv. destruct Hinv. auto. Qed.

Theorem partition_only : forall s, PLInv s -> forall x,
  In x (live s) \/ In x (free s) \/ In x (pend_all (pend s)) -> 2 <= x < np s.
Proof.
  intros s Hinv x Hx. apply PLInv_facts in Hinv.
  destruct Hx as [H|[H|H]]; [apply (if_live_rng s Hinv) | apply (if_free_rng s Hinv) | apply (if_pend_rng s Hinv)]; exact H.
Qed.
Print Assumptions partition.
Print Assumptions partition_NoDup.

(* ------------------------------------------------------------------------------------------ *)
(* 9. non-vacuity                                                                             *)
(* ------------------------------------------------------------------------------------------ *)

(* run1: tx 1 rewrites both initial pages (2, 3) into 4, 5 by growth and frees 2, 3; a reader
   registers snapshot 1; tx 2 cannot reuse 2, 3 yet (release frees pending[u] only for
   u < min reader id, and reader 1 is registered) and grows to 6, 7; a second reader registers
   snapshot 2 and the first one ends; tx 3 now gets [2; 3] released and reuses the freed page 2. *)
Definition run1 : list event :=
  [ EBeginW [] [];
    ECommit [4; 5] [] [(1, [2; 3])] [4; 5] 6 1;
    EBeginR;
    EBeginW [] [(1, [2; 3])];
    ECommit [6; 7] [] [(1, [2; 3]); (2, [4; 5])] [6; 7] 8 2;
    EBeginR;
    EEndR 1;
    EBeginW [2; 3] [(2, [4; 5])];
    ECommit [2] [3] [(2, [4; 5]); (3, [6])] [2; 7] 8 3 ].

Example run1_accepted :
  accept_all init_pl run1 = Some (mkPl [2; 7] [3] [(2, [4; 5]); (3, [6])] 8 3 [(2, [6; 7])]).
Proof. vm_compute. reflexivity. Qed.

Example run1_inv : PLInv (mkPl [2; 7] [3] [(2, [4; 5]); (3, [6])] 8 3 [(2, [6; 7])]).
Proof. exact (reachable_inv run1 _ run1_accepted). Qed.

(* run2, shorter: begin, commit 1, commit 2 (no reader: pending[1] = [2; 3] is released, page 2 is
   reused), a reader registers snapshot 2, commit 3 reuses the free page 3 and frees page 2 of the
   reader's snapshot into pending[3] (which stays pending while the reader is registered). *)
Definition run2 : list event :=
  [ EBeginW [] [];
    ECommit [4; 5] [] [(1, [2; 3])] [4; 5] 6 1;
    ECommit [6; 2] [3] [(2, [4; 5])] [6; 2] 7 2;
    EBeginR;
    ECommit [3] [] [(2, [4; 5]); (3, [2])] [6; 3] 7 3 ].

Example run2_accepted :
  accept_all init_pl run2 = Some (mkPl [6; 3] [] [(2, [4; 5]); (3, [2])] 7 3 [(2, [6; 2])]).
Proof. vm_compute. reflexivity. Qed.

(* state after tx 1 with a reader of snapshot 1 registered *)
Definition s_pinned : pl := mkPl [4; 5] [] [(1, [2; 3])] 6 1 [(1, [4; 5])].

Example s_pinned_reachable :
  accept_all init_pl [EBeginW [] []; ECommit [4; 5] [] [(1, [2; 3])] [4; 5] 6 1; EBeginR] = Some s_pinned.
Proof. vm_compute. reflexivity. Qed.

(* a commit that writes page 4 of the registered snapshot in place is rejected *)
Example write_into_snapshot_rejected :
  accept s_pinned (ECommit [4] [] [(1, [2; 3])] [4; 5] 6 2) = None.
Proof. vm_compute. reflexivity. Qed.

(* ... also when it pretends to have freed and re-allocated it *)
Example write_into_snapshot_rejected' :
  accept s_pinned (ECommit [4; 6] [] [(1, [2; 3]); (2, [4])] [4; 5; 6] 7 2) = None.
Proof. vm_compute. reflexivity. Qed.

(* the same commit without the in-place write is accepted *)
Example no_write_accepted :
  accept s_pinned (ECommit [6] [] [(1, [2; 3]); (2, [4])] [5; 6] 7 2)
  = Some (mkPl [5; 6] [] [(1, [2; 3]); (2, [4])] 7 2 [(1, [4; 5])]).
Proof. vm_compute. reflexivity. Qed.

(* a writer that observes pages of pending[1] released while reader 1 is registered is rejected
   (release must keep pending[u] for u >= min reader id) *)
Example early_release_rejected :
  accept s_pinned (EBeginW [2; 3] []) = None.
Proof. vm_compute. reflexivity. Qed.
