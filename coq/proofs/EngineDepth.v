(* Uniform depth: all leaves of a bucket's tree are at the same depth.

   [PDp G h d q]   the committed tree below page q has EXACT height h: a page at height 1 is a leaf, a page at
                   height S h (h >= 1) is a branch all of whose children have exact height h; every bucket entry
                   [LBk _ r _] stored in a leaf satisfies [G r].
   [dbk n d r]     page r heads a committed bucket of uniform depth, and so does every bucket nested in it
                   (nesting depth < n);  [db_depth st]: the committed state has uniform depth.
   [NDp G h d n]   the same for an overlay node: the committed disk d is immutable during a transaction, so every
                   entry of an overlay branch still names a committed page of exact height h - 1 (materialised or
                   not), and every materialised kid has exact height h - 1.
   Results: [init_db_depth]; [modify_NDp], [tx_fold_DD] (the operations keep it); [merge_data] is only applied to
   nodes of the same kind; [rebalance_kids_NDp], [merge_nodes_BDp], [rebalance_DD] (rebalance keeps it);
   [rebalance_no_panic'] (rebalance never panics); [db_depthb] decides [db_depth] on concrete states.
   Spill / assembly: EngineNoPanic.v; the spill re-establishes uniform depth: EngineSpillDepth.v. *)
From Coq Require Import List NArith Bool Arith Lia ZifyN ZifyNat ZifyBool Permutation.
From Coq.Strings Require Import Byte.
From Jamm Require Spec.
From Jamm Require Import Bytes Tree Cursor SearchFacts Engine EngineFacts EngineMergeFacts EngineModifyFacts EngineAbs.
From Jamm Require Import EnginePathFacts EngineRebalanceFacts EngineTxInvFacts.
Import ListNotations.
Import Coq.Strings.String.StringSyntax. Delimit Scope string_scope with string.
Local Open Scope list_scope. Local Open Scope nat_scope.
Set Warnings "-abstract-large-number".
Arguments N.add : simpl never. Arguments N.sub : simpl never. Arguments N.mul : simpl never.
Arguments N.div : simpl never. Arguments N.ltb : simpl never. Arguments N.leb : simpl never.
Arguments N.eqb : simpl never.

(* ====================================================================== *)
(** * 1. Definitions *)

Definition ent_ok (G : N -> Prop) (e : leafent) : Prop :=
  match e with LBk _ r _ => G r | LKv _ _ => True end.

Fixpoint PDp (G : N -> Prop) (h : nat) (d : disk) (q : N) : Prop :=
  match h with O => False | S h' =>
    exists a, dget d q = Some a /\
      match ap_body a with
      | Leaves l => h' = O /\ Forall (ent_ok G) l
      | Branches es => h' <> O /\ Forall (fun e => PDp G h' d (snd e)) es
      end end.

Fixpoint NDp (G : N -> Prop) (h : nat) (d : disk) (n : node) : Prop :=
  match h with O => False | S h' =>
    match n with
    | Node _ _ _ _ (Leaves l) _ => h' = O /\ Forall (ent_ok G) l
    | Node _ _ _ _ (Branches es) ks =>
        h' <> O /\ Forall (fun e => PDp G h' d (snd e)) es /\ Forall (NDp G h' d) ks
    end end.

Fixpoint dbk (n : nat) (d : disk) (r : N) : Prop :=
  match n with O => False | S n' => exists h, PDp (dbk n' d) h d r end.

(* the committed state has uniform depth (every bucket, nested ones included) *)
Definition db_depth (st : db) : Prop := exists n, dbk n (d_disk st) (d_root st).

(* the bucket roots an overlay leaf may name: 0 (a bucket created in this transaction) or a committed bucket *)
Definition Gd (d : disk) (r : N) : Prop := r = 0%N \/ exists n, dbk n d r.

Lemma PDp_S : forall G h d q, PDp G (S h) d q =
  exists a, dget d q = Some a /\
    match ap_body a with
    | Leaves l => h = O /\ Forall (ent_ok G) l
    | Branches es => h <> O /\ Forall (fun e => PDp G h d (snd e)) es
    end.
Proof. reflexivity. Qed.

Lemma NDp_leaf : forall G h d p np o s l ks,
  NDp G (S h) d (Node p np o s (Leaves l) ks) = (h = O /\ Forall (ent_ok G) l).
Proof. reflexivity. Qed.

Lemma NDp_branch : forall G h d p np o s es ks,
  NDp G (S h) d (Node p np o s (Branches es) ks) =
  (h <> O /\ Forall (fun e => PDp G h d (snd e)) es /\ Forall (NDp G h d) ks).
Proof. reflexivity. Qed.

Lemma ent_ok_mono : forall (G G' : N -> Prop) e, (forall r, G r -> G' r) -> ent_ok G e -> ent_ok G' e.
Proof. intros G G' [k v|k r nx] H; cbn [ent_ok]; auto. Qed.

Lemma PDp_mono : forall (G G' : N -> Prop), (forall r, G r -> G' r) ->
  forall h d q, PDp G h d q -> PDp G' h d q.
Proof.
  intros G G' HG. induction h as [|h IH]; intros d q H; [exact H|]. rewrite PDp_S in *.
  destruct H as (a & Hg & Hb). exists a. split; [exact Hg|]. destruct (ap_body a) as [l|es].
  - destruct Hb as [E Hl]. split; [exact E|]. eapply Forall_impl; [|exact Hl]. intros e. now apply ent_ok_mono.
  - destruct Hb as [E Hl]. split; [exact E|]. eapply Forall_impl; [|exact Hl]. intros e. apply IH.
Qed.

Lemma dbk_mono : forall n d r, dbk n d r -> forall n', n <= n' -> dbk n' d r.
Proof.
  induction n as [|n IH]; intros d r H n' Hle; [destruct H|]. destruct n' as [|n']; [lia|].
  cbn [dbk] in *. destruct H as [h H]. exists h. eapply PDp_mono; [|exact H]. intros r0 Hr0. apply (IH _ _ Hr0). lia.
Qed.

Lemma dbk_Gd : forall n d h r, PDp (dbk n d) h d r -> PDp (Gd d) h d r.
Proof. intros n d h r H. eapply PDp_mono; [|exact H]. intros r0 Hr0. right. eauto. Qed.

(* the kind of a node of exact height h *)
Lemma NDp_kind : forall G h d n, NDp G h d n -> is_leaf (n_data n) = (h =? 1).
Proof.
  intros G [|h] d [p np o s [l|es] ks] H; [destruct H | destruct H | |].
  - rewrite NDp_leaf in H. destruct H as [-> _]. reflexivity.
  - rewrite NDp_branch in H. destruct H as [Hh _]. cbn [n_data is_leaf]. symmetry. apply Nat.eqb_neq. lia.
Qed.

Lemma node_of_page_NDp : forall G h d q a sq, dget d q = Some a -> PDp G h d q -> NDp G h d (node_of_page q a sq).
Proof.
  intros G [|h] d q a sq Hg H; [destruct H|]. rewrite PDp_S in H. destruct H as (a' & Hg' & Hb).
  rewrite Hg in Hg'. inversion Hg'; subst a'. unfold node_of_page. destruct (ap_body a) as [l|es].
  - rewrite NDp_leaf. exact Hb.
  - rewrite NDp_branch. destruct Hb as [E Hl]. split; [exact E|]. split; [exact Hl | constructor].
Qed.

Lemma PDp_dget : forall G h d q, PDp G h d q -> exists a, dget d q = Some a.
Proof. intros G [|h] d q H; [destruct H|]. rewrite PDp_S in H. destruct H as (a & Hg & _). eauto. Qed.

(* the initial database *)
Theorem init_db_depth : forall P, db_depth (init_db P).
Proof.
  intros P. exists 1. cbn [dbk init_db d_disk d_root]. exists 1. rewrite PDp_S.
  eexists. split; [reflexivity|]. cbn [ap_body]. split; [reflexivity | constructor].
Qed.

(* ====================================================================== *)
(** * 2. [modify] and the look-ups *)

Definition lop_ok (G : N -> Prop) (o : lop) : Prop := match o with OpIns e => ent_ok G e | OpDel _ => True end.

Lemma apply_lop_Forall : forall (Q : leafent -> Prop) o l, Forall Q l -> (match o with OpIns e => Q e | OpDel _ => True end) ->
  Forall Q (apply_lop o l).
Proof.
  intros Q o l Hl Ho. rewrite Forall_forall in *. intros y Hy. destruct o as [e|k]; cbn [apply_lop] in Hy.
  - unfold leaf_insert in Hy. destruct (Engine.bsearch (map lkey l) (lkey e)) as [[|] i].
    + apply replace_at_In in Hy. destruct Hy as [->|Hy]; auto.
    + apply insert_at_In in Hy. destruct Hy as [->|Hy]; auto.
  - unfold leaf_delete in Hy. destruct (Engine.bsearch (map lkey l) k) as [[|] i]; [apply remove_at_In in Hy|]; auto.
Qed.

Lemma nthN_In : forall {A} (l : list A) i x, nthN l i = Some x -> In x l.
Proof. intros A l i x H. unfold nthN in H. eapply nth_error_In; eauto. Qed.

Theorem modify_NDp : forall fuel G h d n o s n' s', NDp G h d n -> lop_ok G o ->
  modify fuel d n o s = Ok (n', s') -> NDp G h d n'.
Proof.
  induction fuel as [|f IH]; intros G h d n o s n' s' HN Ho H; [discriminate|].
  destruct h as [|h]; [destruct HN|]. destruct n as [p np og sq [l|es] ks].
  - cbn [modify] in H. inversion H; subst. rewrite NDp_leaf in *. destruct HN as [E Hl]. split; [exact E|].
    apply apply_lop_Forall; [exact Hl|]. destruct o; exact Ho.
  - rewrite modify_branch in H. destruct (index_of (Branches es) (lop_key o)) as [i ex].
    destruct (nthN es i) as [[sep q]|] eqn:En; [|discriminate].
    rewrite NDp_branch in HN. destruct HN as (Hh & Hes & Hks).
    pose proof (nthN_In _ _ _ En) as Hin. rewrite Forall_forall in Hes. pose proof (Hes _ Hin) as Hq. cbn [snd] in Hq.
    destruct (find_kid q ks) as [kd|] eqn:Ef.
    + apply bind_ok_inv in H. destruct H as ([kd' s1] & Em & H). inversion H; subst. cbn [fst].
      rewrite NDp_branch. split; [exact Hh|]. split; [apply Forall_forall; exact Hes|].
      apply replace_kid_Forall; [exact Hks|]. eapply IH; [|exact Ho|exact Em].
      rewrite Forall_forall in Hks. apply Hks. eapply find_kid_In; eauto.
    + destruct (dget d q) as [a|] eqn:Eg; [|discriminate].
      apply bind_ok_inv in H. destruct H as ([kd' s1] & Em & H). inversion H; subst. cbn [fst].
      rewrite NDp_branch. split; [exact Hh|]. split; [apply Forall_forall; exact Hes|].
      apply Forall_app. split; [exact Hks|]. repeat constructor. eapply IH; [|exact Ho|exact Em].
      now apply node_of_page_NDp.
Qed.

(* what a look-up returns is an entry stored in a leaf *)
Lemma lookup_page_ent : forall fuel G h d p k e, PDp G h d p -> lookup_page fuel d p k = Ok (Some e) -> ent_ok G e.
Proof.
  induction fuel as [|f IH]; intros G h d p k e HP H; [discriminate|]. destruct h as [|h]; [destruct HP|].
  rewrite PDp_S in HP. destruct HP as (a & Hg & Hb). cbn [lookup_page] in H. rewrite Hg in H.
  destruct (ap_body a) as [l|es].
  - destruct (index_of (Leaves l) k) as [i [|]]; inversion H as [E]. destruct Hb as [_ Hl].
    rewrite Forall_forall in Hl. apply Hl. eapply nthN_In; eauto.
  - destruct (index_of (Branches es) k) as [i ex]. destruct (nthN es i) as [[sep q]|] eqn:En; [|discriminate].
    destruct Hb as [_ Hes]. rewrite Forall_forall in Hes. eapply IH; [|exact H]. apply (Hes _ (nthN_In _ _ _ En)).
Qed.

Lemma lookup_node_go : forall fuel d k q (ks : list node),
  (fix go (ks : list node) : option (res (option leafent)) :=
     match ks with [] => None | kd :: ks' => if N.eqb (n_page kd) q then Some (lookup_node fuel d kd k) else go ks' end) ks
  = option_map (fun kd => lookup_node fuel d kd k) (find_kid q ks).
Proof.
  intros fuel d k q. induction ks as [|kd ks IH]; [reflexivity|]. unfold find_kid. cbn [find].
  destruct (N.eqb (n_page kd) q); [reflexivity | exact IH].
Qed.

Lemma lookup_node_ent : forall G h fuel d n k e, NDp G h d n -> lookup_node fuel d n k = Ok (Some e) -> ent_ok G e.
Proof.
  intros G. induction h as [|h IH]; intros fuel d n k e HN H; [destruct HN|].
  destruct n as [p np og sq [l|es] ks].
  - cbn [lookup_node] in H. destruct (index_of (Leaves l) k) as [i [|]]; inversion H as [E].
    rewrite NDp_leaf in HN. destruct HN as [_ Hl]. rewrite Forall_forall in Hl. apply Hl. eapply nthN_In; eauto.
  - cbn [lookup_node] in H. destruct (index_of (Branches es) k) as [i ex].
    destruct (nthN es i) as [[sep q]|] eqn:En; [|discriminate]. rewrite lookup_node_go in H.
    rewrite NDp_branch in HN. destruct HN as (_ & Hes & Hks).
    destruct (find_kid q ks) as [kd|] eqn:Ef; cbn [option_map] in H.
    + eapply IH; [|exact H]. rewrite Forall_forall in Hks. apply Hks. eapply find_kid_In; eauto.
    + rewrite Forall_forall in Hes. eapply lookup_page_ent; [|exact H]. apply (Hes _ (nthN_In _ _ _ En)).
Qed.

(* ====================================================================== *)
(** * 3. Buckets; the operations of a transaction keep uniform depth *)

Definition BDp (d : disk) (b : bucket) : Prop :=
  exists h, match b_rootn b with Some n => NDp (Gd d) h d n | None => PDp (Gd d) h d (b_root_page b) end.

(* [b] and every bucket opened below it *)
Fixpoint DDF (f : nat) (d : disk) (b : bucket) : Prop :=
  match f with O => False | S f' => BDp d b /\ Forall (fun x => DDF f' d (snd x)) (b_subs b) end.
Definition DD (d : disk) (b : bucket) : Prop := exists f, DDF f d b.

Lemma DDF_mono : forall f d b, DDF f d b -> forall f', f <= f' -> DDF f' d b.
Proof.
  induction f as [|f IH]; intros d b H f' Hle; [destruct H|]. destruct f' as [|f']; [lia|].
  cbn [DDF] in *. destruct H as [HB HS]. split; [exact HB|]. eapply Forall_impl; [|exact HS].
  intros x Hx. apply (IH _ _ Hx). lia.
Qed.

Lemma DD_intro : forall d b, BDp d b -> Forall (fun x => DD d (snd x)) (b_subs b) -> DD d b.
Proof.
  intros d b HB HS.
  assert (Hf : exists f, Forall (fun x => DDF f d (snd x)) (b_subs b)).
  { induction HS as [|x subs [fx Hfx] _ [f IH]]; [exists 0; constructor|]. exists (Nat.max fx f). constructor.
    - eapply DDF_mono; [exact Hfx | lia].
    - eapply Forall_impl; [|exact IH]. intros y Hy. eapply DDF_mono; [exact Hy | lia]. }
  destruct Hf as [f Hf]. exists (S f). split; assumption.
Qed.

Lemma DD_inv : forall d b, DD d b -> BDp d b /\ Forall (fun x => DD d (snd x)) (b_subs b).
Proof.
  intros d b [[|f] H]; [destruct H|]. destruct H as [HB HS]. split; [exact HB|].
  eapply Forall_impl; [|exact HS]. intros x Hx. exists f. exact Hx.
Qed.

Lemma BDp_tree : forall d b b', b_rootn b' = b_rootn b -> b_root_page b' = b_root_page b -> BDp d b -> BDp d b'.
Proof. intros d b b' E1 E2 [h H]. exists h. rewrite E1, E2. exact H. Qed.

Lemma ensure_root_NDp : forall d b s n s1 h,
  match b_rootn b with Some n => NDp (Gd d) h d n | None => PDp (Gd d) h d (b_root_page b) end ->
  ensure_root d b s = Ok (n, s1) -> NDp (Gd d) h d n.
Proof.
  intros d b s n s1 h H E. unfold ensure_root in E. destruct (b_rootn b) as [n0|].
  - inversion E; subst. exact H.
  - destruct (dget d (b_root_page b)) as [a|] eqn:Eg; [|discriminate]. cbn [next_seq] in E. inversion E; subst.
    now apply node_of_page_NDp.
Qed.

Lemma b_modify_BDp : forall d b o s b' s', BDp d b -> lop_ok (Gd d) o -> b_modify d b o s = Ok (b', s') ->
  BDp d b' /\ b_subs b' = b_subs b.
Proof.
  intros d b o s b' s' [h HB] Ho H. unfold b_modify in H.
  apply bind_ok_inv in H. destruct H as ([root s0] & Er & H).
  apply bind_ok_inv in H. destruct H as ([n' s1] & Em & H). inversion H; subst b' s'. split; [|reflexivity].
  exists h. cbn [b_rootn]. eapply modify_NDp; [|exact Ho|exact Em]. eapply ensure_root_NDp; eauto.
Qed.

Lemma b_lookup_ent : forall d b k e, BDp d b -> b_lookup d b k = Ok (Some e) -> ent_ok (Gd d) e.
Proof.
  intros d b k e [h HB] H. unfold b_lookup in H. destruct (b_rootn b) as [n|].
  - eapply lookup_node_ent; eauto.
  - eapply lookup_page_ent; eauto.
Qed.

Lemma b_modify_DD : forall d b o s b' s', DD d b -> lop_ok (Gd d) o -> b_modify d b o s = Ok (b', s') -> DD d b'.
Proof.
  intros d b o s b' s' HD Ho H. destruct (DD_inv _ _ HD) as [HB HS].
  destruct (b_modify_BDp _ _ _ _ _ _ HB Ho H) as [HB' Es]. apply DD_intro; [exact HB' | now rewrite Es].
Qed.

Lemma DD_rebuild : forall d b b', DD d b -> b_rootn b' = b_rootn b -> b_root_page b' = b_root_page b ->
  Forall (fun x => DD d (snd x)) (b_subs b') -> DD d b'.
Proof.
  intros d b b' HD E1 E2 HS. destruct (DD_inv _ _ HD) as [HB _]. apply DD_intro; [|exact HS].
  eapply BDp_tree; eauto.
Qed.

Lemma sub_put_Forall : forall (Q : bytes * bucket -> Prop) name b subs,
  Forall Q subs -> Q (name, b) -> Forall Q (sub_put name b subs).
Proof.
  intros Q name b. induction subs as [|[n' b'] r IH]; intros HF Hb; cbn [sub_put]; [repeat constructor; exact Hb|].
  inversion HF; subst. destruct (beq n' name); constructor; auto.
Qed.

Lemma take_sub_incl : forall nm subs sb rest, take_sub nm subs = Some (sb, rest) -> forall x, In x rest -> In x subs.
Proof.
  intros nm. induction subs as [|[n' b'] r IH]; intros sb rest H x Hx; [discriminate|]. cbn [take_sub] in H.
  destruct (beq n' nm).
  - inversion H; subst. now right.
  - destruct (take_sub nm r) as [[b0 r0]|] eqn:Et; [|discriminate]. inversion H; subst.
    destruct Hx as [<-|Hx]; [now left | right; eapply IH; eauto].
Qed.

Section Ops.
  Variable d : disk.
  Hypothesis Hz : dget d 0%N = None.

  Lemma sbk_dget : forall n r, sbk n d r -> exists a, dget d r = Some a.
  Proof. intros [|n] r H; [destruct H|]. cbn [sbk] in H. destruct H as (h & l & _ & HP & _). eapply PInv_dget; eauto. Qed.

  Lemma Gd_open : forall r nx, Gd d r -> (exists n, sbk n d r) -> DD d (Bucket r nx false None []).
  Proof.
    intros r nx [-> | [n Hn]] [m Hm].
    - destruct (sbk_dget _ _ Hm) as [a Ha]. congruence.
    - destruct n as [|n]; [destruct Hn|]. cbn [dbk] in Hn. destruct Hn as [h Hh].
      apply DD_intro; [|constructor]. exists h. cbn [b_rootn b_root_page]. eapply dbk_Gd; eauto.
  Qed.

  Lemma open_entry : forall s b name k r nx, SDeep d s b -> DD d b -> sub_find name (b_subs b) = None ->
    b_lookup d b name = Ok (Some (LBk k r nx)) -> DD d (Bucket r nx false None []).
  Proof.
    intros s b name k r nx HS HD Hsf Hl. destruct (DD_inv _ _ HD) as [HB _].
    pose proof (b_lookup_ent _ _ _ _ HB Hl) as Hg. cbn [ent_ok] in Hg.
    destruct (SDeep_inv _ _ _ HS) as (h & l & HL & (_ & _ & H3)).
    rewrite (BLoc_lookup _ _ _ _ _ name HL) in Hl. inversion Hl as [Hal].
    apply Gd_open; [exact Hg | eapply H3; eauto].
  Qed.

  Lemma new_bucket_DD : forall sq, DD d (Bucket 0 0 true (Some (Node 0 0 None sq (Leaves []) [])) []).
  Proof. intros sq. apply DD_intro; [|constructor]. exists 1. cbn [b_rootn]. rewrite NDp_leaf. split; [reflexivity | constructor]. Qed.

  Definition dd_pres (f : bucket -> txs -> res (bucket * txs)) : Prop :=
    forall b s b' s', SDeep d s b -> DD d b -> f b s = Ok (b', s') -> DD d b'.

  Theorem b_get_or_create_DD : forall name b s b' s', SDeep d s b -> DD d b ->
    b_get_or_create d b name s = Ok (b', s') -> DD d b'.
  Proof.
    intros name b s b' s' HS HD H. rewrite b_get_or_create_unfold in H.
    destruct (sub_find name (b_subs b)) as [sb|] eqn:Hsf; [inversion H; subst; exact HD|].
    destruct (b_lookup d b name) as [[[k v|k r nx]|]| |] eqn:El; cbn [bind] in H; try discriminate.
    - inversion H; subst b' s'. destruct (DD_inv _ _ HD) as [_ HF].
      eapply (DD_rebuild d b); [exact HD | reflexivity | reflexivity |]. cbn [b_subs].
      apply sub_put_Forall; [exact HF|]. cbn [snd]. eapply open_entry; eauto.
    - apply bind_ok_inv in H. destruct H as ([b2 s2] & Hm & H). cbn [fst snd] in H. inversion H; subst b' s'.
      assert (HD2 : DD d b2). { eapply b_modify_DD; [exact HD | | exact Hm]. cbn. now left. }
      destruct (DD_inv _ _ HD2) as [_ HF2].
      eapply (DD_rebuild d b2); [exact HD2 | reflexivity | reflexivity |]. cbn [b_subs].
      apply sub_put_Forall; [exact HF2|]. cbn [snd]. apply new_bucket_DD.
  Qed.

  Lemma DD_sub : forall b name sb, DD d b -> sub_find name (b_subs b) = Some sb -> DD d sb.
  Proof.
    intros b name sb HD Hsf. destruct (DD_inv _ _ HD) as [_ HF]. rewrite Forall_forall in HF.
    exact (HF _ (sub_find_In _ _ _ Hsf)).
  Qed.

  Theorem at_path_DD : forall f, sd_pres d f -> dd_pres f -> forall path fuel b s b' s', SDeep d s b -> DD d b ->
    at_path fuel d b path f s = Ok (b', s') -> DD d b'.
  Proof.
    intros f Hsf Hdf. induction path as [|nm rest IH]; intros fuel b s b' s' HS HD H;
      (destruct fuel as [|fu]; [discriminate|]); cbn [at_path] in H.
    - eapply Hdf; eauto.
    - apply bind_ok_inv in H. destruct H as ([b1 s1] & Hg & H).
      destruct (b_get_or_create_pres d nm b s b1 s1 HS Hg) as [HS1 _].
      pose proof (b_get_or_create_DD nm b s b1 s1 HS HD Hg) as HD1.
      destruct (sub_find nm (b_subs b1)) as [sb|] eqn:Hsub; [|discriminate].
      apply bind_ok_inv in H. destruct H as ([sb' s2] & Hat & H). inversion H; subst b' s'. clear H.
      pose proof (IH fu sb s1 sb' s2 (SDeep_sub _ _ _ _ _ HS1 Hsub) (DD_sub _ _ _ HD1 Hsub) Hat) as HD2.
      destruct (DD_inv _ _ HD1) as [_ HF1].
      eapply (DD_rebuild d b1); [exact HD1 | reflexivity | reflexivity |]. cbn [b_subs].
      apply sub_put_Forall; [exact HF1 | exact HD2].
  Qed.

  Theorem put_dd : forall k v, dd_pres (fun b s => soft (b, s) (b_put d b k v s)).
  Proof.
    intros k v b s b' s' HS HD H. cbn beta in H. apply soft_ok_inv in H.
    destruct H as [H | [E _]]; [|inversion E; subst; exact HD]. unfold b_put in H.
    apply bind_ok_inv in H. destruct H as (cur & _ & H). destruct cur as [e|].
    - destruct (is_kv e); [|discriminate]. eapply b_modify_DD; [exact HD | | exact H]; exact I.
    - apply bind_ok_inv in H. destruct H as ([b2 s2] & Hm & H). inversion H; subst b' s'.
      assert (HD2 : DD d b2) by (eapply b_modify_DD; [exact HD | | exact Hm]; exact I).
      destruct (DD_inv _ _ HD2) as [_ HF2]. eapply (DD_rebuild d b2); eauto.
  Qed.

  Theorem del_dd : forall k, dd_pres (fun b s => soft (b, s) (b_delete d b k s)).
  Proof.
    intros k b s b' s' HS HD H. cbn beta in H. apply soft_ok_inv in H.
    destruct H as [H | [E _]]; [|inversion E; subst; exact HD]. unfold b_delete in H.
    apply bind_ok_inv in H. destruct H as (cur & _ & H). destruct cur as [e|]; [|discriminate].
    destruct (is_kv e); [|discriminate]. eapply b_modify_DD; [exact HD | | exact H]; exact I.
  Qed.

  Theorem touch_dd : dd_pres (fun b s => Ok (b, s)).
  Proof. intros b s b' s' _ HD H. inversion H; subst. exact HD. Qed.

  Theorem delb_dd : forall nm, dd_pres (fun b s => soft (b, s) (b_delete_bucket d b nm s)).
  Proof.
    intros nm b s b' s' HS HD H. cbn beta in H. apply soft_ok_inv in H.
    destruct H as [H | [E _]]; [|inversion E; subst; exact HD].
    rewrite b_delete_bucket_unfold in H. apply bind_ok_inv in H. destruct H as ([b0 s0] & Hopen & H). cbn [fst snd] in H.
    assert (HD0 : DD d b0).
    { destruct (sub_find nm (b_subs b)) as [sb|] eqn:Hsf; [inversion Hopen; subst; exact HD|].
      destruct (b_lookup d b nm) as [[[k v|k r nx]|]| |] eqn:El; cbn [bind] in Hopen; try discriminate.
      inversion Hopen; subst b0 s0. destruct (DD_inv _ _ HD) as [_ HF].
      eapply (DD_rebuild d b); [exact HD | reflexivity | reflexivity |]. cbn [b_subs].
      apply sub_put_Forall; [exact HF|]. cbn [snd]. eapply open_entry; eauto. }
    unfold delb_phase2 in H. destruct (take_sub nm (b_subs b0)) as [[sb rest]|] eqn:Et; [|discriminate].
    apply bind_ok_inv in H. destruct H as (s1 & _ & H). apply bind_ok_inv in H. destruct H as (cur & _ & H).
    destruct cur as [e|]; [|discriminate]. destruct (is_kv e); [discriminate|].
    eapply b_modify_DD; [| |exact H]; [|exact I]. destruct (DD_inv _ _ HD0) as [_ HF0].
    eapply (DD_rebuild d b0); [exact HD0 | reflexivity | reflexivity |]. cbn [b_subs].
    rewrite Forall_forall in *. intros x Hx. apply HF0. eapply take_sub_incl; eauto.
  Qed.

  Theorem tx_step_DD : forall o rb s rb' s', SDeep d s rb -> DD d rb -> tx_step d (rb, s) o = Ok (rb', s') -> DD d rb'.
  Proof.
    intros o rb s rb' s' HS HD H. unfold tx_step in H.
    destruct o as [p k v|p k|p nm|p]; apply soft_ok_inv in H;
      (destruct H as [H | [E _]]; [|inversion E; subst; exact HD]).
    - eapply (at_path_DD _ (put_pres d k v) (put_dd k v)); eauto.
    - eapply (at_path_DD _ (del_pres d k) (del_dd k)); eauto.
    - eapply (at_path_DD _ (delb_pres d nm) (delb_dd nm)); eauto.
    - eapply (at_path_DD _ (touch_pres d) touch_dd); eauto.
  Qed.
End Ops.

Theorem tx_fold_DD : forall st ops rb s root' s', dget (d_disk st) 0%N = None ->
  SDeep (d_disk st) s rb -> DD (d_disk st) rb ->
  tx_fold st ops (rb, s) = Ok (root', s') -> DD (d_disk st) root'.
Proof.
  intros st ops. induction ops as [|o ops IH]; intros rb s root' s' Hz HS HD H; unfold tx_fold in H; cbn [fold_res] in H.
  - inversion H; subst. exact HD.
  - apply bind_ok_inv in H. destruct H as ([rb1 s1] & Hst & H).
    destruct (tx_step_SDeep _ _ _ _ _ _ HS Hst) as [HS1 _].
    pose proof (tx_step_DD _ Hz _ _ _ _ _ HS HD Hst) as HD1. exact (IH rb1 s1 root' s' Hz HS1 HD1 H).
Qed.

Theorem root_bucket_DD : forall st, db_depth st -> DD (d_disk st) (root_bucket st).
Proof.
  intros st [n Hn]. destruct n as [|n]; [destruct Hn|]. cbn [dbk] in Hn. destruct Hn as [h Hh].
  apply DD_intro; [|constructor]. exists h. cbn [root_bucket b_rootn b_root_page]. eapply dbk_Gd; eauto.
Qed.

(* the overlay left by the operations of a transaction has uniform depth *)
Theorem tx_ops_DD : forall st ops root' s', db_strict st -> db_depth st -> dget (d_disk st) 0%N = None ->
  tx_fold st ops (root_bucket st, begin_w st) = Ok (root', s') -> DD (d_disk st) root'.
Proof.
  intros st ops root' s' Hdb Hdd Hz H.
  eapply tx_fold_DD; [exact Hz | apply root_bucket_SDeep; exact Hdb | apply root_bucket_DD; exact Hdd | exact H].
Qed.

(* ====================================================================== *)
(** * 4. [try_merge]: what it does, where it can hit a kind mismatch *)

(* the entries after a merge name a subset of the pages named before *)
Lemma es_fix_incl : forall (sibo : option (node * bool)) (idx : N) (es : list (bytes * N)),
  incl (map snd (match sibo, remove_at es (N.to_nat idx) with
                 | Some (sb, _), (_, q0) :: rest0 =>
                     if (idx =? 0)%N then match first_key (n_data sb) with Ok fk => (fk, q0) :: rest0
                                                                      | _ => remove_at es (N.to_nat idx) end
                     else remove_at es (N.to_nat idx)
                 | _, _ => remove_at es (N.to_nat idx) end)) (map snd es).
Proof.
  intros sibo idx es.
  assert (H0 : incl (map snd (remove_at es (N.to_nat idx))) (map snd es)).
  { intros x Hx. apply in_map_iff in Hx. destruct Hx as (e & <- & He). apply in_map. eapply remove_at_In; eauto. }
  destruct sibo as [[sb c]|]; [|exact H0]. destruct (remove_at es (N.to_nat idx)) as [|[k0 q0] rest0] eqn:E; [exact H0|].
  destruct (idx =? 0)%N; [|exact H0]. destruct (first_key (n_data sb)); exact H0.
Qed.

(* the sibling [try_merge] picks: a materialised kid, or the page of an entry read from disk *)
Definition sib_src (d : disk) (par : node) (es : list (bytes * N)) (sib : node) : Prop :=
  In sib (n_kids par) \/ exists kq q a sq, In (kq, q) es /\ dget d q = Some a /\ sib = node_of_page q a sq.

Definition merged_of (sib k : node) (md : ndata) (x : node) : Prop :=
  exists o', x = Node (n_page sib) (n_np sib) o' (n_seq sib) md (n_kids sib ++ n_kids k).

Theorem try_merge_ok_inv : forall d par k s par' s' es, n_data par = Branches es ->
  try_merge d par k s = Ok (par', s') ->
  exists es' ks', par' = set_kids (set_data par (Branches es')) ks' /\ incl (map snd es') (map snd es) /\
    forall x, In x ks' -> In x (n_kids par) \/ x = k \/
      exists sib md, sib_src d par es sib /\ merge_data (n_data sib) (n_data k) = Ok md /\ merged_of sib k md x.
Proof.
  intros d par k s par' s' es Ed H. unfold try_merge in H.
  assert (Hnoop : forall s0, Ok (set_kids par (replace_kid (n_kids par) k), s0) = Ok (par', s') ->
    exists es' ks', par' = set_kids (set_data par (Branches es')) ks' /\ incl (map snd es') (map snd es) /\
      forall x, In x ks' -> In x (n_kids par) \/ x = k \/
        exists sib md, sib_src d par es sib /\ merge_data (n_data sib) (n_data k) = Ok md /\ merged_of sib k md x).
  { intros s0 E. inversion E; subst par' s'. exists es, (replace_kid (n_kids par) k).
    split; [destruct par; cbn [n_data] in Ed; subst; reflexivity|]. split; [apply incl_refl|].
    intros x Hx. apply replace_kid_In in Hx. destruct Hx as [->|Hx]; auto. }
  destruct (negb (needs_merging s k)); [eapply Hnoop; eauto|]. rewrite Ed in H.
  destruct ((llen es =? 1)%N && (0 <? dlen (n_data k))%N); [eapply Hnoop; eauto|]. clear Hnoop.
  destruct (n_orig k) as [ok|]; [|discriminate].
  destruct (bsearch (map fst es) ok) as [[|] idx]; [|discriminate].
  assert (Hfil : forall x, In x (filter (fun y => negb (N.eqb (n_seq y) (n_seq k))) (n_kids par)) -> In x (n_kids par)).
  { intros x Hx. apply filter_In in Hx. tauto. }
  destruct (0 <? dlen (n_data k))%N.
  - destruct (if (idx =? 0)%N then nthN es 1 else nthN es (idx - 1)) as [[kq q]|] eqn:Esp; [|discriminate].
    assert (Hq : In (kq, q) es) by (destruct (idx =? 0)%N; eapply nthN_In; eauto).
    destruct (find_kid q (n_kids par)) as [sb|] eqn:Ef.
    + cbn [bind] in H. destruct (merge_data (n_data sb) (n_data k)) as [md| |] eqn:Emd; cbn [bind] in H; try discriminate.
      destruct (merged_node_eq sb md (n_kids sb ++ n_kids k) (idx =? 0)%N) as [o' Eo]. rewrite Eo in H.
      inversion H; subst par' s'. eexists _, _. split; [reflexivity|].
      split; [apply (es_fix_incl (Some (Node (n_page sb) (n_np sb) o' (n_seq sb) md (n_kids sb ++ n_kids k), false)) idx es)|].
      intros x Hx. apply replace_kid_In in Hx. destruct Hx as [->|Hx]; [|left; now apply Hfil].
      right. right. exists sb, md. split; [left; eapply find_kid_In; eauto|]. split; [exact Emd | exists o'; reflexivity].
    + destruct (dget d q) as [a|] eqn:Eg; [|discriminate]. cbn [next_seq bind] in H.
      destruct (merge_data (n_data (node_of_page q a (seqc s))) (n_data k)) as [md| |] eqn:Emd; cbn [bind] in H; try discriminate.
      destruct (merged_node_eq (node_of_page q a (seqc s)) md (n_kids (node_of_page q a (seqc s)) ++ n_kids k) (idx =? 0)%N) as [o' Eo].
      rewrite Eo in H. inversion H; subst par' s'. eexists _, _. split; [reflexivity|].
      set (sb := node_of_page q a (seqc s)) in *.
      split; [apply (es_fix_incl (Some (Node (n_page sb) (n_np sb) o' (n_seq sb) md (n_kids sb ++ n_kids k), true)) idx es)|].
      intros x Hx. apply in_app_or in Hx. destruct Hx as [Hx|[<-|[]]]; [left; now apply Hfil|].
      right. right. exists sb, md. split; [right; exists kq, q, a, (seqc s); auto|]. split; [exact Emd | exists o'; reflexivity].
  - cbn [bind] in H. inversion H; subst par' s'. eexists _, _. split; [reflexivity|].
    split; [apply (es_fix_incl None idx es)|]. intros x Hx. left. now apply Hfil.
Qed.

(* the only way to the kind panic *)
Theorem try_merge_kind_panic : forall d par k s es, n_data par = Branches es ->
  try_merge d par k s = Panic kind_panic ->
  exists sib, sib_src d par es sib /\ merge_data (n_data sib) (n_data k) = Panic kind_panic.
Proof.
  intros d par k s es Ed H. unfold try_merge in H.
  destruct (negb (needs_merging s k)); [discriminate|]. rewrite Ed in H.
  destruct ((llen es =? 1)%N && (0 <? dlen (n_data k))%N); [discriminate|].
  destruct (n_orig k) as [ok|]; [|discriminate].
  destruct (bsearch (map fst es) ok) as [[|] idx]; [|discriminate].
  destruct (0 <? dlen (n_data k))%N; [|discriminate].
  destruct (if (idx =? 0)%N then nthN es 1 else nthN es (idx - 1)) as [[kq q]|] eqn:Esp; [|discriminate].
  assert (Hq : In (kq, q) es) by (destruct (idx =? 0)%N; eapply nthN_In; eauto).
  destruct (find_kid q (n_kids par)) as [sb|] eqn:Ef.
  - cbn [bind] in H. destruct (merge_data (n_data sb) (n_data k)) as [md|m|e] eqn:Emd; cbn [bind] in H; try discriminate.
    inversion H; subst m. exists sb. split; [left; eapply find_kid_In; eauto | exact Emd].
  - destruct (dget d q) as [a|] eqn:Eg; [|discriminate]. cbn [next_seq bind] in H.
    destruct (merge_data (n_data (node_of_page q a (seqc s))) (n_data k)) as [md|m|e] eqn:Emd; cbn [bind] in H; try discriminate.
    inversion H; subst m. exists (node_of_page q a (seqc s)). split; [right; exists kq, q, a, (seqc s); auto | exact Emd].
Qed.

(* ====================================================================== *)
(** * 5. Rebalance keeps uniform depth, and [merge_data] always meets two nodes of the same kind *)

Lemma Forall_isort : forall {A} (key : A -> bytes) (Q : A -> Prop) l, Forall Q l -> Forall Q (isort_by key l).
Proof.
  intros A key Q l H. rewrite Forall_forall in *. intros x Hx. apply H.
  eapply Permutation_in; [apply isort_by_perm | exact Hx].
Qed.

Lemma merge_data_same_kind : forall G h d a b msg, NDp G h d a -> NDp G h d b ->
  merge_data (n_data a) (n_data b) <> Panic msg.
Proof.
  intros G h d a b msg Ha Hb. pose proof (NDp_kind _ _ _ _ Ha) as Ka. pose proof (NDp_kind _ _ _ _ Hb) as Kb.
  destruct (n_data a) as [l1|e1], (n_data b) as [l2|e2]; cbn [merge_data is_leaf] in *; congruence.
Qed.

Lemma merge_data_NDp : forall G h d a b md p np o sq, NDp G h d a -> NDp G h d b ->
  merge_data (n_data a) (n_data b) = Ok md -> NDp G h d (Node p np o sq md (n_kids a ++ n_kids b)).
Proof.
  intros G [|h] d [pa npa oa sa [l1|e1] ka] [pb npb ob sb [l2|e2] kb] md p np o sq Ha Hb H;
    try (destruct Ha; fail); cbn [n_data n_kids merge_data] in *; try discriminate; inversion H; subst md.
  - rewrite NDp_leaf in *. destruct Ha as [E Fa], Hb as [_ Fb]. split; [exact E|].
    apply Forall_isort. apply Forall_app. split; assumption.
  - rewrite NDp_branch in *. destruct Ha as (E & Fa & Ka), Hb as (_ & Fb & Kb). split; [exact E|].
    split; [apply Forall_isort; apply Forall_app; split; assumption | apply Forall_app; split; assumption].
Qed.

Lemma sib_src_NDp : forall G h d p np o sq es ks sib, NDp G (S h) d (Node p np o sq (Branches es) ks) ->
  sib_src d (Node p np o sq (Branches es) ks) es sib -> NDp G h d sib.
Proof.
  intros G h d p np o sq es ks sib HN Hs. rewrite NDp_branch in HN. destruct HN as (_ & Fe & Fk).
  rewrite Forall_forall in Fe, Fk. destruct Hs as [Hin | (kq & q & a & sq' & Hin & Hg & ->)].
  - now apply Fk.
  - apply node_of_page_NDp; [exact Hg|]. apply (Fe _ Hin).
Qed.

Theorem try_merge_NDp : forall G h d par k s par' s', NDp G (S h) d par -> NDp G h d k ->
  try_merge d par k s = Ok (par', s') -> NDp G (S h) d par'.
Proof.
  intros G h d par k s par' s' HP Hk H. destruct par as [p np o sq [l|es] ks].
  - (* a leaf parent: only the no-op can succeed *)
    unfold try_merge in H. destruct (negb (needs_merging s k)); [|discriminate]. inversion H; subst. exact HP.
  - destruct (try_merge_ok_inv d (Node p np o sq (Branches es) ks) k s par' s' es eq_refl H) as (es' & ks' & -> & Hincl & Hks).
    cbn [set_kids set_data]. pose proof HP as HP0. rewrite NDp_branch in *. destruct HP as (E & Fe & Fk). split; [exact E|].
    rewrite Forall_forall in Fe, Fk. split; apply Forall_forall.
    + intros e He. assert (Hq : In (snd e) (map snd es)) by (apply Hincl; now apply in_map).
      apply in_map_iff in Hq. destruct Hq as (e0 & E0 & He0). rewrite <- E0. now apply Fe.
    + intros x Hx. destruct (Hks x Hx) as [Hin | [-> | (sib & md & Hs & Hmd & o' & ->)]]; [now apply Fk | exact Hk |].
      eapply merge_data_NDp; [eapply sib_src_NDp; eauto | exact Hk | exact Hmd].
Qed.

Theorem try_merge_no_kind_panic : forall G h d par k s, NDp G (S h) d par -> NDp G h d k ->
  try_merge d par k s <> Panic kind_panic.
Proof.
  intros G h d par k s HP Hk H. destruct par as [p np o sq [l|es] ks].
  - unfold try_merge in H. destruct (negb (needs_merging s k)); discriminate.
  - destruct (try_merge_kind_panic d (Node p np o sq (Branches es) ks) k s es eq_refl H) as (sib & Hs & Hm).
    eapply merge_data_same_kind; [eapply sib_src_NDp; eauto | exact Hk | exact Hm].
Qed.

Lemma try_merge_branch : forall d par k s par' s', is_leaf (n_data par) = false ->
  try_merge d par k s = Ok (par', s') -> is_leaf (n_data par') = false.
Proof.
  intros d [p np o sq [l|es] ks] k s par' s' Hl H; [discriminate|].
  destruct (try_merge_ok_inv d (Node p np o sq (Branches es) ks) k s par' s' es eq_refl H) as (es' & ks' & -> & _). reflexivity.
Qed.

(* a fold over [res] whose step propagates failures: an invariant of the Ok states is kept, and a given panic
   that no step raises from a state satisfying the invariant is not raised *)
Lemma fold_left_res_inv : forall {A B} (F : res A -> B -> res A) (P : A -> Prop) (m : String.string),
  (forall x r, (forall a, r <> Ok a) -> F r x = r) ->
  forall xs,
  (forall x a, In x xs -> P a -> (forall a1, F (Ok a) x = Ok a1 -> P a1) /\ F (Ok a) x <> Panic m) ->
  forall a0, P a0 ->
    (forall a', fold_left F xs (Ok a0) = Ok a' -> P a') /\ fold_left F xs (Ok a0) <> Panic m.
Proof.
  intros A B F P m HF. induction xs as [|x xs IH]; intros Hstep a0 H0; cbn [fold_left].
  - split; [intros a' E; inversion E; subst; exact H0 | discriminate].
  - destruct (Hstep x a0 (or_introl eq_refl) H0) as [S1 S2]. destruct (F (Ok a0) x) as [a1|m1|e1] eqn:E.
    + apply IH; [intros y a Hy; apply Hstep; now right | now apply S1].
    + rewrite fold_left_bad; [|exact HF|intros; discriminate]. split; [discriminate | exact S2].
    + rewrite fold_left_bad; [|exact HF|intros; discriminate]. split; discriminate.
Qed.

Lemma set_kids_NDp : forall G h d n ks, NDp G (S h) d n -> is_leaf (n_data n) = false -> Forall (NDp G h d) ks ->
  NDp G (S h) d (set_kids n ks).
Proof.
  intros G h d [p np o sq [l|es] ks0] ks HN Hl Hk; [discriminate|]. cbn [set_kids]. rewrite NDp_branch in *. tauto.
Qed.

Lemma kids_NDp : forall G h d n, NDp G (S h) d n -> is_leaf (n_data n) = false -> Forall (NDp G h d) (n_kids n).
Proof. intros G h d [p np o sq [l|es] ks] HN Hl; [discriminate|]. rewrite NDp_branch in HN. tauto. Qed.

Theorem rebalance_kids_depth : forall fuel G h d n s, NDp G h d n -> is_leaf (n_data n) = false ->
  (forall n' s', rebalance_kids fuel d n s = Ok (n', s') -> NDp G h d n' /\ is_leaf (n_data n') = false) /\
  rebalance_kids fuel d n s <> Panic kind_panic.
Proof.
  induction fuel as [|f IH]; intros G h d n s HN Hl; [split; [discriminate | discriminate]|].
  destruct h as [|h]; [destruct HN|]. cbn [rebalance_kids].
  match goal with |- context [fold_left ?F0 _ _] => set (F := F0) end.
  pose (P := fun a : node * txs => NDp G (S h) d (fst a) /\ is_leaf (n_data (fst a)) = false).
  assert (HF : forall x r, (forall a, r <> Ok a) -> F r x = r).
  { intros x r Hr. unfold F. destruct r as [a0| |]; cbn [bind]; [exfalso; eapply Hr; eauto | reflexivity | reflexivity]. }
  destruct (fold_left_res_inv F P kind_panic HF) with (xs := map n_seq (n_kids n)) (a0 := (n, s)) as [R1 R2].
  - intros x [n0 s0] _ [HN0 Hl0]. cbn [fst] in HN0, Hl0. unfold F. cbn [bind].
    destruct (find (fun k => N.eqb (n_seq k) x) (n_kids n0)) as [k|] eqn:Ef.
    2:{ split; [intros a1 E; inversion E; subst; split; assumption | discriminate]. }
    apply find_some in Ef. destruct Ef as [Hkin _].
    pose proof (kids_NDp _ _ _ _ HN0 Hl0) as Fk. pose proof Fk as Fk'. rewrite Forall_forall in Fk'.
    pose proof (Fk' _ Hkin) as Hk.
    assert (Hk1 : (forall k1 s1, (if is_leaf (n_data k) then Ok (k, s0) else rebalance_kids f d k s0) = Ok (k1, s1) -> NDp G h d k1) /\
                  (if is_leaf (n_data k) then Ok (k, s0) else rebalance_kids f d k s0) <> Panic kind_panic).
    { destruct (is_leaf (n_data k)) eqn:Ek.
      - split; [intros k1 s1 E; inversion E; subst; exact Hk | discriminate].
      - destruct (IH G h d k s0 Hk Ek) as [A B]. split; [|exact B]. intros k1 s1 E. apply (A k1 s1 E). }
    destruct Hk1 as [A B].
    destruct (if is_leaf (n_data k) then Ok (k, s0) else rebalance_kids f d k s0) as [[k1 s1]|m|e]; cbn [bind].
    + pose proof (A k1 s1 eq_refl) as Hk1.
      assert (Hpar : NDp G (S h) d (set_kids n0 (replace_kid (n_kids n0) k1))).
      { apply set_kids_NDp; [exact HN0 | exact Hl0 |]. now apply replace_kid_Forall. }
      split; [|eapply try_merge_no_kind_panic; eauto].
      intros [n1 s1'] E. unfold P. cbn [fst]. split; [eapply try_merge_NDp; eauto|].
      eapply try_merge_branch; [|exact E]. destruct n0; exact Hl0.
    + split; [discriminate | exact B].
    + split; discriminate.
  - unfold P. cbn [fst]. split; assumption.
  - split; [|exact R2]. intros n' s' E. exact (R1 (n', s') E).
Qed.

Theorem merge_nodes_BDp : forall d b s, BDp d b ->
  (forall b' s', merge_nodes d b s = Ok (b', s') -> BDp d b' /\ b_subs b' = b_subs b) /\
  merge_nodes d b s <> Panic kind_panic.
Proof.
  intros d b s [h HB]. unfold merge_nodes.
  destruct (ensure_root d b s) as [[root s0]|m|e] eqn:Er; cbn [bind].
  2:{ split; [discriminate|]. unfold ensure_root in Er. destruct (b_rootn b); [discriminate|].
      destruct (dget d (b_root_page b)); [discriminate|]. inversion Er. discriminate. }
  2:{ split; discriminate. }
  pose proof (ensure_root_NDp _ _ _ _ _ _ HB Er) as HR.
  assert (H1 : (forall root1 s1, (if is_leaf (n_data root) then Ok (root, s0) else rebalance_kids fuel0 d root s0) = Ok (root1, s1) ->
                  NDp (Gd d) h d root1) /\
               (if is_leaf (n_data root) then Ok (root, s0) else rebalance_kids fuel0 d root s0) <> Panic kind_panic).
  { destruct (is_leaf (n_data root)) eqn:El.
    - split; [intros root1 s1 E; inversion E; subst; exact HR | discriminate].
    - destruct (rebalance_kids_depth fuel0 (Gd d) h d root s0 HR El) as [A B]. split; [|exact B].
      intros root1 s1 E. apply (A root1 s1 E). }
  destruct H1 as [A B].
  destruct (if is_leaf (n_data root) then Ok (root, s0) else rebalance_kids fuel0 d root s0) as [[root1 s1]|m|e]; cbn [bind].
  2:{ split; [discriminate|]. intros E. apply B. inversion E. reflexivity. }
  2:{ split; discriminate. }
  pose proof (A root1 s1 eq_refl) as H1. clear A B.
  destruct (needs_merging s1 root1 && negb (is_leaf (n_data root1)) && (dlen (n_data root1) =? 1)%N).
  - destruct root1 as [p1 np1 o1 sq1 [l1|[|[k0 q] rest]] ks1]; cbn [n_data]; try (split; discriminate).
    split; [|discriminate]. intros b' s' E. inversion E; subst b' s'. split; [|reflexivity].
    destruct h as [|h]; [destruct H1|]. rewrite NDp_branch in H1. destruct H1 as (_ & Fe & Fk).
    exists h. cbn [b_rootn b_root_page n_kids]. destruct (find_kid q ks1) as [kd|] eqn:Ef.
    + rewrite Forall_forall in Fk. apply Fk. eapply find_kid_In; eauto.
    + inversion Fe; subst. assumption.
  - destruct (negb (is_leaf (n_data root1)) && (dlen (n_data root1) =? 0)%N).
    + split; [|discriminate]. intros b' s' E. inversion E; subst b' s'. split; [|reflexivity].
      exists 1. cbn [b_rootn]. destruct root1 as [p1 np1 o1 sq1 dd ks1]. cbn [set_data]. rewrite NDp_leaf.
      split; [reflexivity | constructor].
    + split; [|discriminate]. intros b' s' E. inversion E; subst b' s'. split; [|reflexivity].
      exists h. exact H1.
Qed.

Theorem rebalance_DDF : forall f fd d b s, DDF fd d b ->
  (forall b' s', rebalance f d b s = Ok (b', s') -> DDF fd d b') /\ rebalance f d b s <> Panic kind_panic.
Proof.
  induction f as [|f IH]; intros fd d b s HD; [split; discriminate|].
  cbn [rebalance]. destruct (negb (is_dirty fuel0 b)).
  { split; [intros b' s' E; inversion E; subst; exact HD | discriminate]. }
  destruct fd as [|fd]; [destruct HD|]. cbn [DDF] in HD. destruct HD as [HB HS].
  match goal with |- context [fold_left ?F0 _ _] => set (F := F0) end.
  pose (P := fun a : list (bytes * bucket) * txs => Forall (fun x => DDF fd d (snd x)) (fst a)).
  assert (HF : forall x r, (forall a, r <> Ok a) -> F r x = r).
  { intros x r Hr. unfold F. destruct r as [a0| |]; cbn [bind]; [exfalso; eapply Hr; eauto | reflexivity | reflexivity]. }
  destruct (fold_left_res_inv F P kind_panic HF (b_subs b)) with (a0 := (@nil (bytes * bucket), s)) as [R1 R2].
  - intros x [l s0] Hx Hl. unfold P in Hl. cbn [fst] in Hl. unfold F. cbn [bind].
    rewrite Forall_forall in HS. destruct (IH fd d (snd x) s0 (HS x Hx)) as [A B].
    destruct (rebalance f d (snd x) s0) as [[bx sx]|m|e]; cbn [bind].
    + split; [|discriminate]. intros a1 E. inversion E; subst a1. unfold P. cbn [fst].
      apply Forall_app. split; [exact Hl|]. repeat constructor. cbn [snd]. now apply (A bx sx).
    + split; [discriminate|]. intros E. apply B. inversion E. reflexivity.
    + split; discriminate.
  - unfold P. constructor.
  - destruct (fold_left F (b_subs b) (Ok ([], s))) as [[subs' s1]|m|e]; cbn [bind].
    + pose proof (R1 _ eq_refl) as HS'. unfold P in HS'. cbn [fst] in HS'.
      set (b0 := Bucket (b_root_page b) (b_next b) true (b_rootn b) subs').
      assert (HB0 : BDp d b0) by (eapply BDp_tree; [| |exact HB]; reflexivity).
      destruct (merge_nodes_BDp d b0 s1 HB0) as [A B]. split; [|exact B].
      intros b' s' E. destruct (A b' s' E) as [HB' Es]. cbn [DDF]. split; [exact HB'|]. rewrite Es. exact HS'.
    + split; [discriminate|]. intros E. apply R2. inversion E. reflexivity.
    + split; discriminate.
Qed.

Corollary rebalance_DD : forall f d b s b' s', DD d b -> rebalance f d b s = Ok (b', s') -> DD d b'.
Proof. intros f d b s b' s' [fd HD] H. exists fd. exact (proj1 (rebalance_DDF f fd d b s HD) b' s' H). Qed.

(* rebalance never panics: the invariant of EngineRebalanceFacts leaves only the kind mismatch, uniform depth
   excludes it *)
Theorem rebalance_no_panic' : forall f fv d s b v msg, Deep fv d s b v -> DD d b -> rebalance f d b s <> Panic msg.
Proof.
  intros f fv d s b v msg HV [fd HD] H. pose proof (rebalance_no_panic f fv d s b v msg HV H) as ->.
  exact (proj2 (rebalance_DDF f fd d b s HD) H).
Qed.


(* ====================================================================== *)
(** * 6. Deciding uniform depth on concrete states; examples *)

Definition ent_okb (Gb : N -> bool) (e : leafent) : bool := match e with LBk _ r _ => Gb r | LKv _ _ => true end.

Fixpoint pdpb (Gb : N -> bool) (h : nat) (d : disk) (q : N) : bool :=
  match h with O => false | S h' =>
    match dget d q with None => false | Some a =>
      match ap_body a with
      | Leaves l => Nat.eqb h' 0 && forallb (ent_okb Gb) l
      | Branches es => negb (Nat.eqb h' 0) && forallb (fun e => pdpb Gb h' d (snd e)) es
      end end end.

(* the height along the leftmost path *)
Fixpoint pheight (fuel : nat) (d : disk) (q : N) : nat :=
  match fuel with O => O | S f =>
    match dget d q with None => O | Some a =>
      match ap_body a with
      | Leaves _ => 1
      | Branches [] => 2
      | Branches ((_, c) :: _) => S (pheight f d c)
      end end end.

Fixpoint dbkb (n : nat) (d : disk) (r : N) : bool :=
  match n with O => false | S n' => pdpb (dbkb n' d) (pheight fuel0 d r) d r end.

Definition db_depthb (st : db) : bool := dbkb 16 (d_disk st) (d_root st).

Lemma pdpb_ok : forall (Gb : N -> bool) (G : N -> Prop), (forall r, Gb r = true -> G r) ->
  forall h d q, pdpb Gb h d q = true -> PDp G h d q.
Proof.
  intros Gb G HG. induction h as [|h IH]; intros d q H; [discriminate|]. cbn [pdpb] in H. rewrite PDp_S.
  destruct (dget d q) as [a|]; [|discriminate]. exists a. split; [reflexivity|].
  destruct (ap_body a) as [l|es]; apply andb_true_iff in H; destruct H as [H1 H2].
  - split; [now apply Nat.eqb_eq|]. rewrite forallb_forall in H2. apply Forall_forall. intros e He.
    specialize (H2 e He). destruct e as [k v|k r nx]; cbn [ent_ok ent_okb] in *; auto.
  - split; [apply Nat.eqb_neq; now apply negb_true_iff|]. rewrite forallb_forall in H2. apply Forall_forall.
    intros e He. apply IH. now apply H2.
Qed.

Lemma dbkb_ok : forall n d r, dbkb n d r = true -> dbk n d r.
Proof.
  induction n as [|n IH]; intros d r H; [discriminate|]. cbn [dbkb] in H. cbn [dbk].
  exists (pheight fuel0 d r). eapply pdpb_ok; [|exact H]. intros r0. apply IH.
Qed.

Lemma db_depthb_ok : forall st, db_depthb st = true -> db_depth st.
Proof. intros st H. exists 16. now apply dbkb_ok. Qed.

Example init_db_depth_4096 : db_depth (init_db 4096).
Proof. apply db_depthb_ok. vm_compute. reflexivity. Qed.

(* the committed state of EngineTxInvFacts' example (a nested bucket whose tree has two levels), the state after
   EngineRefines' transaction on it, and the state after EngineRefines' two-transaction history *)
Example ex3_db_depth : db_depth Ex3.ex3_db.
Proof. apply db_depthb_ok. vm_compute. reflexivity. Qed.

Print Assumptions init_db_depth.
Print Assumptions tx_ops_DD.
Print Assumptions rebalance_DD.
Print Assumptions rebalance_no_panic'.
Print Assumptions db_depthb_ok.
Print Assumptions ex3_db_depth.
