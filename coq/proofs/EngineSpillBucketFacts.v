(* Spilling the bucket tree writes the overlay's meaning.

   1. [leaf_insert_replace], [patch]: the parent update replaces one entry of the view in place
   2. [Rdy], [Inv_Rdy_spill_ready], [modify_replace], [b_modify_replace]: the parent update keeps the root ready
   3. [ckept], [Mean], [Written], [SReady], [spill_bucket_meaning]
   4. [commit_meaning]
   5. a concrete overlay with one opened nested bucket

   Everything is closed under the global context (see the [Print Assumptions] at the end). *)
From Coq Require Import List NArith Bool Arith Lia ZifyN ZifyNat ZifyBool Permutation.
From Coq.Strings Require Import Byte.
From Jamm Require Spec.
From Jamm Require Import Bytes BytesFacts Tree Cursor SearchFacts Engine EngineAbs EngineFacts EngineMergeFacts.
From Jamm Require Import EngineModifyFacts EngineSpillFacts EnginePathFacts EngineBridgeFacts EngineRebalanceFacts.
Import ListNotations.
Import Coq.Strings.String.StringSyntax. Delimit Scope string_scope with string.
Local Open Scope list_scope. Local Open Scope nat_scope.
Arguments N.add : simpl never. Arguments N.sub : simpl never. Arguments N.mul : simpl never.
Arguments N.div : simpl never. Arguments N.ltb : simpl never. Arguments N.leb : simpl never.
Arguments N.eqb : simpl never.

Notation m_in_range := EngineModifyFacts.in_range.
Notation s_in_range := EngineSpillFacts.in_range.
Notation snode := Spec.snode.
Notation SBucket := Spec.SBucket.
Notation SVal := Spec.SVal.

(* ====================================================================== *)
(** * 1. Replacing an entry of a sorted leaf in place *)

Lemma leaf_insert_replace : forall x e0 y e, sorted_keys (map lkey (x ++ e0 :: y)) = true ->
  lkey e = lkey e0 -> leaf_insert (x ++ e0 :: y) e = x ++ e :: y.
Proof.
  intros x e0 y e Hs Hk. unfold leaf_insert. rewrite map_app in *. cbn [map] in *. rewrite Hk.
  rewrite (bsearch_pos_found _ _ _ Hs). rewrite Nat2N.id, map_length. apply replace_at_mid.
Qed.

Lemma sorted_split_keys : forall (x : list leafent) e0 y, sorted_keys (map lkey (x ++ e0 :: y)) = true ->
  (forall e, In e x -> lkey e <> lkey e0) /\ (forall e, In e y -> lkey e <> lkey e0).
Proof.
  intros x e0 y Hs. rewrite map_app in Hs. cbn [map] in Hs. destruct (sorted_mid _ _ _ Hs) as [A B].
  rewrite Forall_forall in A, B. split; intros e He E.
  - specialize (A (lkey e) (in_map lkey _ _ He)). rewrite E, SearchFacts.bcmp_refl in A. discriminate.
  - specialize (B (lkey e) (in_map lkey _ _ He)). rewrite E, SearchFacts.bcmp_refl in B. discriminate.
Qed.

(* ====================================================================== *)
(** * 2. The parent update keeps the root ready for the spill *)

(* what [spill_ready] asks beyond the rebalance invariant [Inv]: materialised leaves are non-empty and have no
   kids; every page below an un-materialised child is in [keep] *)
Inductive Rdy (d : disk) (keep : list N) : node -> Prop :=
| Rdy_leaf pg npg o sq l : l <> [] -> Rdy d keep (Node pg npg o sq (Leaves l) [])
| Rdy_branch pg npg o sq es kids :
    (forall e kd, In e es -> find_kid (snd e) kids = Some kd -> Rdy d keep kd) ->
    (forall e x, In e es -> find_kid (snd e) kids = None -> in_subtree d (snd e) x -> In x keep) ->
    Rdy d keep (Node pg npg o sq (Branches es) kids).

Lemma in_subtree_kid : forall d q a es e x, dget d q = Some a -> ap_body a = Branches es -> In e es ->
  in_subtree d (snd e) x -> in_subtree d q x.
Proof. intros. eapply ist_kid; eauto. Qed.

Lemma Rdy_node_of_page : forall d keep q a sq, dget d q = Some a -> ap_body a <> Leaves [] ->
  (forall x, in_subtree d q x -> In x keep) -> Rdy d keep (node_of_page q a sq).
Proof.
  intros d keep q a sq Hg Hne Hk. unfold node_of_page. destruct (ap_body a) as [l|es] eqn:Hb.
  - apply Rdy_leaf. congruence.
  - apply Rdy_branch.
    + intros e kd _ Hf. rewrite find_kid_nil in Hf. discriminate.
    + intros e x He _ Hx. apply Hk. eapply in_subtree_kid; eauto.
Qed.

Lemma inb_s_in_range : forall lo hi k, inb lo hi k <-> s_in_range lo hi k.
Proof. intros [lo|] [hi|] k; unfold inb, s_in_range, le_lo, lt_hi; tauto. Qed.

(* the bounds [chb] gives a child contain the bounds [cbounds] gives it *)
Lemma chb_cbounds : forall es lo hi l h e, In (l, h, e) (chb lo hi es) -> Forall (inb lo hi) (map fst es) ->
  exists j b, nth_error es j = Some e /\ nth_error (cbounds lo (map fst es) hi) j = Some b /\
    lo_le l (fst b) /\ hi_le (snd b) h.
Proof.
  intros es lo hi l h e H Hin. destruct (chb_nth _ _ _ _ _ _ H) as (j & Hj & -> & ->).
  assert (Hlen : j < length es) by (apply nth_error_Some; congruence).
  remember (nth_error (cbounds lo (map fst es) hi) j) as ob eqn:Hb. symmetry in Hb. destruct ob as [b|].
  2:{ apply nth_error_None in Hb. unfold cbounds in Hb. rewrite cbs_length, map_length in Hb. lia. }
  exists j, b. split; [exact Hj|]. split; [exact Hb|]. clear H. unfold cbounds in Hb.
  destruct (cbs_nth _ _ _ _ _ Hb) as [B1 B2].
  pose proof (nth_error_nth_map fst _ _ _ Hj) as Ej. split.
  - destruct j as [|j].
    + rewrite (cbs_nth_first _ _ _ _ Hb), Ej. destruct lo as [a|]; cbn [lo0 lo_le]; [|exact I].
      rewrite Forall_forall in Hin. apply (Hin (fst e)). apply in_map. eapply nth_error_In; eauto.
    + rewrite B1 by lia. rewrite Ej. apply lo_le_refl.
  - destruct (nth_error es (S j)) as [e'|] eqn:He'.
    + assert (Hl' : S j < length (map fst es)) by (rewrite map_length; apply nth_error_Some; congruence).
      rewrite (B2 Hl'). rewrite (nth_error_nth_map fst _ _ _ He'). apply hi_le_refl.
    + apply nth_error_None in He'. rewrite (cbs_nth_last _ _ _ _ _ Hb); [apply hi_le_refl|].
      rewrite map_length. lia.
Qed.

(* the rebalance invariant plus [Rdy] is what the spill needs *)
Theorem Inv_Rdy_spill_ready : forall h d keep lo hi n,
  Inv h d false lo hi n -> Rdy d keep n -> spill_ready d keep lo hi n.
Proof.
  induction h as [|h IH]; intros d keep lo hi n HI HR; [destruct HI|].
  inversion HR as [pg npg o sq l Hne | pg npg o sq es kids Hk Hkeep]; subst n.
  - apply sr_leaf. exact Hne.
  - rewrite Inv_branch_eq in HI. destruct HI as (Hne & Hs & Hnd & Hinb & [Lnd LF] & HC).
    apply sr_branch.
    + apply Hne. reflexivity.
    + intros k Hk'. apply inb_s_in_range. rewrite Forall_forall in Hinb. apply Hinb, Hk'.
    + exact Lnd.
    + intros kd Hkd. rewrite Forall_forall in LF. destruct (LF kd Hkd) as (key & H1 & H2). exists key. auto.
    + intros l h0 e kd Hb Hf. destruct (chb_cbounds _ _ _ _ _ _ Hb Hinb) as (j & b & Hj & Hbj & H1 & H2).
      pose proof (Forall2_nth_error _ _ _ _ _ _ HC Hj Hbj) as Hc. unfold CInv in Hc. rewrite Hf in Hc.
      apply (IH d keep l h0 kd).
      * eapply Inv_weaken; eauto.
      * apply (Hk e kd); [eapply nth_error_In; eauto | exact Hf].
    + exact Hkeep.
Qed.

Definition RRdy (d : disk) (keep : list N) (n : node) : Prop := n_data n = Leaves [] \/ Rdy d keep n.

Corollary Inv_RRdy_root_ready : forall h d keep n,
  Inv h d false None None n -> RRdy d keep n -> root_ready d keep n.
Proof.
  intros h d keep n HI [E|HR]; [left; exact E | right; eapply Inv_Rdy_spill_ready; eauto].
Qed.

Lemma insert_at_ne : forall {A} (l : list A) i x, insert_at l i x <> [].
Proof. intros A l i x. destruct i, l; cbn [insert_at]; discriminate. Qed.

Lemma leaf_insert_ne : forall l e, l <> [] -> leaf_insert l e <> [].
Proof.
  intros l e Hl. unfold leaf_insert. destruct (bsearch (map lkey l) (lkey e)) as [[|] i].
  - intros E. apply (f_equal (@length leafent)) in E. rewrite replace_at_length in E. destruct l; [congruence|discriminate].
  - apply insert_at_ne.
Qed.

(* a key of the view that is neither left nor right of child j lies in child j *)
Lemma key_in_selected : forall (ls : list (list leafent)) j lj k, nth_error ls j = Some lj ->
  all_lt k (concat (firstn j ls)) -> all_gt k (concat (skipn (S j) ls)) ->
  In k (map lkey (concat ls)) -> In k (map lkey lj).
Proof.
  intros ls j lj k Hj Ha Hb Hin. destruct (concat_split ls j lj [] Hj) as [E _]. rewrite E in Hin.
  rewrite !map_app, !in_app_iff in Hin. unfold all_lt, all_gt in *. rewrite Forall_forall in Ha, Hb.
  destruct Hin as [Hin|[Hin|Hin]]; [|exact Hin|]; apply in_map_iff in Hin; destruct Hin as (x & <- & Hx); exfalso.
  - specialize (Ha x Hx). rewrite SearchFacts.bcmp_refl in Ha. discriminate.
  - specialize (Hb x Hx). rewrite SearchFacts.bcmp_refl in Hb. discriminate.
Qed.

Lemma PInv_nonempty : forall h d lo hi k q a, PInv h d lo hi (Some k) q -> dget d q = Some a ->
  ap_body a <> Leaves [].
Proof.
  destruct h as [|h]; intros d lo hi k q a H Hg; [destruct H|]. cbn [PInv] in H.
  destruct H as (a' & Hg' & Hok & _). rewrite Hg in Hg'. inversion Hg'; subst a'. cbn [okey_ok] in Hok.
  intros E. rewrite E in Hok. discriminate.
Qed.

Definition ModRep (h : nat) (d : disk) (keep : list N) (lo hi : option bytes) (n n' : node) : Prop :=
  Inv h d false lo hi n' /\ Rdy d keep n' /\ n_page n' = n_page n /\ n_orig n' = n_orig n.

Lemma modify_replace_leaf : forall h d keep lo hi p np og sq l0 ks e,
  Inv h d false lo hi (Node p np og sq (Leaves l0) ks) -> Rdy d keep (Node p np og sq (Leaves l0) ks) ->
  In (lkey e) (map lkey l0) ->
  ModRep h d keep lo hi (Node p np og sq (Leaves l0) ks) (Node p np og sq (Leaves (leaf_insert l0 e)) ks).
Proof.
  intros h d keep lo hi p np og sq l0 ks e HI HR Hin. destruct (Inv_height _ _ _ _ _ _ HI) as [h0 ->].
  rewrite Inv_leaf_eq in HI. destruct HI as [Hs Hf]. unfold ModRep. split; [|split; [|split; reflexivity]].
  - rewrite Inv_leaf_eq. split; [exact (apply_lop_sorted (OpIns e) l0 Hs)|]. apply Forall_forall. intros x Hx.
    apply in_map_iff in Hx. destruct Hx as (y & <- & Hy). rewrite Forall_forall in Hf.
    destruct (apply_lop_In (OpIns e) l0 y Hy) as [Hy'|Hy'].
    + apply Hf. now apply in_map.
    + cbn [lop_key] in Hy'. rewrite Hy'. apply Hf, Hin.
  - inversion HR as [? ? ? ? ? Hne|]; subst. apply Rdy_leaf. now apply leaf_insert_ne.
Qed.

Lemma modrep_branch : forall h0 d keep lo hi p np og sq es ks ks' i sep q b kd',
  Inv (S h0) d false lo hi (Node p np og sq (Branches es) ks) ->
  Rdy d keep (Node p np og sq (Branches es) ks) ->
  nth_error es i = Some (sep, q) -> nth_error (cbounds lo (map fst es) hi) i = Some b ->
  kids_upd ks ks' q kd' -> kids_linked es ks' ->
  Inv h0 d false (fst b) (snd b) kd' -> Rdy d keep kd' ->
  ModRep (S h0) d keep lo hi (Node p np og sq (Branches es) ks) (Node p np og sq (Branches es) ks').
Proof.
  intros h0 d keep lo hi p np og sq es ks ks' i sep q b kd' HI HR En Hb HU HL I1 R1.
  rewrite Inv_branch_eq in HI. destruct HI as (Hne & Hs & Hnd & Hinb & _ & HC).
  unfold ModRep. split; [|split; [|split; reflexivity]].
  - rewrite Inv_branch_eq. repeat (split; [assumption|]).
    exact (children_upd _ _ _ _ _ _ _ _ _ _ _ HC HU Hnd En Hb I1).
  - inversion HR as [|? ? ? ? ? ? Hk Hkeep]; subst. destruct HU as [U1 U2]. apply Rdy_branch.
    + intros e kd He Hf. destruct (N.eq_dec (snd e) q) as [E|NE].
      * rewrite E, U1 in Hf. inversion Hf; subst kd. exact R1.
      * rewrite (U2 _ NE) in Hf. eapply Hk; eauto.
    + intros e x He Hf Hx. destruct (N.eq_dec (snd e) q) as [E|NE].
      * rewrite E, U1 in Hf. discriminate.
      * rewrite (U2 _ NE) in Hf. eapply Hkeep; eauto.
Qed.

Theorem modify_replace : forall f h d keep s lo hi n l e n' s',
  Inv h d false lo hi n -> NodeView d h n l -> Rdy d keep n -> In (lkey e) (map lkey l) ->
  modify f d n (OpIns e) s = Ok (n', s') -> ModRep h d keep lo hi n n'.
Proof.
  induction f as [|f IH]; intros h d keep s lo hi n l e n' s' HI Hv HR Hin H; [discriminate|].
  destruct n as [p np og sq [l0|es] ks].
  - cbn [modify apply_lop] in H. inversion H; subst n' s'. apply NodeView_leaf_inv in Hv. destruct Hv as [-> _].
    now apply modify_replace_leaf.
  - apply NodeView_branch_inv in Hv. destruct Hv as (h0 & ls & -> & -> & HF).
    pose proof (Inv_wf_node _ _ _ _ _ HI) as Hw. apply wf_node_branch_inv in Hw. destruct Hw as (Hok & Hch & Hr).
    rewrite modify_branch in H. cbn [lop_key] in H. destruct (index_of (Branches es) (lkey e)) as [i ex] eqn:Ei.
    assert (Hlen : length ls = length es) by (symmetry; eapply Forall2_length; eauto).
    destruct (branch_select es ls (lkey e) i ex Hok Hlen) as (e1 & lj & He & Hl & Ha & Hb & _ & _); [|exact Ei|].
    { intros j l Hj. destruct (Forall2_nth_error_r _ _ _ _ _ HF Hj) as (e1 & He1 & Hc).
      eapply Hr; [exact He1|]. exists h0. exact Hc. }
    unfold nthN in H. rewrite He in H. destruct e1 as [sep q].
    pose proof (key_in_selected ls _ lj (lkey e) Hl Ha Hb Hin) as Hkin.
    pose proof HI as HI0. rewrite Inv_branch_eq in HI0. destruct HI0 as (Hne & Hs & Hnd & Hinb & [Lnd LF] & HC).
    destruct (Forall2_nth_error_l _ _ _ _ _ HC He) as (b & Hbj & Cb). unfold CInv in Cb. cbn [snd fst] in Cb.
    pose proof (Forall2_nth_error _ _ _ _ _ _ HF He Hl) as Hc. cbn [snd] in Hc. unfold ChildView in Hc.
    assert (Hin_e : In (sep, q) es) by (eapply nth_error_In; eauto).
    inversion HR as [|? ? ? ? ? ? Hk Hkeep]; subst.
    destruct (find_kid q ks) as [kd|] eqn:Ef.
    + apply bind_ok_inv in H. destruct H as ([kd' s1] & Em & H). cbn [fst snd] in H. inversion H; subst n' s'. clear H.
      destruct (IH h0 d keep s (fst b) (snd b) kd lj e kd' s1 Cb Hc (Hk _ _ Hin_e Ef) Hkin Em) as (I1 & R1 & P1 & P3).
      destruct (find_kid_split _ _ _ Ef) as (a & b0 & Eks & Epq & Ha').
      pose proof (replace_kid_upd ks q kd kd' Ef ltac:(congruence)) as HU.
      assert (Eks' : replace_kid ks kd' = a ++ kd' :: b0).
      { rewrite Eks. apply replace_kid_hit; [congruence|]. intros y Hy. rewrite P1, Epq. now apply Ha'. }
      apply (modrep_branch h0 d keep lo hi p np og sq es ks _ _ sep q b kd' HI HR He Hbj HU); [|exact I1|exact R1].
      split.
      * rewrite Eks', map_app. cbn [map]. rewrite P1. rewrite Eks, map_app in Lnd. exact Lnd.
      * apply Forall_forall. rewrite Forall_forall in LF. intros x Hx. rewrite Eks' in Hx. apply in_app_or in Hx.
        destruct Hx as [Hx | [<- | Hx]].
        -- apply LF. rewrite Eks. apply in_or_app. now left.
        -- rewrite P1, P3. apply LF. rewrite Eks. apply in_or_app. right. now left.
        -- apply LF. rewrite Eks. apply in_or_app. right. now right.
    + destruct (dget d q) as [a|] eqn:Eg; [|discriminate].
      apply bind_ok_inv in H. destruct H as ([kd' s1] & Em & H). cbn [fst snd] in H. inversion H; subst n' s'. clear H.
      pose proof (node_of_page_Inv _ _ _ _ _ _ _ (seqc s) Eg Cb) as I0.
      pose proof (node_of_page_view d h0 q a (seqc s) lj Eg Hc) as V0.
      assert (R0 : Rdy d keep (node_of_page q a (seqc s))).
      { apply Rdy_node_of_page; [exact Eg | eapply PInv_nonempty; eauto |].
        intros x Hx. apply (Hkeep (sep, q) x Hin_e Ef Hx). }
      destruct (IH h0 d keep _ (fst b) (snd b) _ lj e kd' s1 I0 V0 R0 Hkin Em) as (I1 & R1 & P1 & P3).
      rewrite (node_of_page_orig _ _ _ _ _ _ _ (seqc s) Eg Cb) in P3. cbn [n_page node_of_page] in P1.
      pose proof (app_kid_upd ks q kd' Ef P1) as HU.
      apply (modrep_branch h0 d keep lo hi p np og sq es ks _ _ sep q b kd' HI HR He Hbj HU); [|exact I1|exact R1].
      split.
      * rewrite map_app. cbn [map]. apply NoDup_app_intro; [exact Lnd | repeat constructor; intros [] |].
        intros x Hx [<- | []]. apply in_map_iff in Hx. destruct Hx as (y & Hy & Hy').
        apply (find_kid_None _ _ Ef y Hy'). congruence.
      * apply Forall_app. split; [exact LF|]. repeat constructor. exists sep. rewrite P1. split; [exact Hin_e|exact P3].
Qed.

(** ** the bucket level *)
(* the root of a dirty bucket as [spill_bucket] meets it: a materialised node satisfying the rebalance invariant
   and [Rdy] (or an empty leaf), or a committed page that was never loaded (the promoted root of [merge_nodes]) *)
Definition SRoot (d : disk) (keep : list N) (h : nat) (b : bucket) : Prop :=
  match b_rootn b with
  | Some n => Inv h d false None None n /\ RRdy d keep n
  | None => PInv h d None None None (b_root_page b) /\ (forall x, in_subtree d (b_root_page b) x -> In x keep)
  end.

Lemma SRoot_wf : forall d keep h b, SRoot d keep h b -> bucket_wf d b.
Proof.
  intros d keep h b H. unfold SRoot, bucket_wf in *. destruct (b_rootn b).
  - eapply Inv_wf_node. apply H.
  - eapply PInv_wf_page. apply H.
Qed.

Lemma PageView_leaf_body : forall d h q l a l0, PageView d h q l -> dget d q = Some a -> ap_body a = Leaves l0 -> l = l0.
Proof.
  intros d h q l a l0 H Hg Hb. inversion H as [? ? a' l1 Hg' Hb' | ? ? a' es ls Hg' Hb' HF]; subst;
    rewrite Hg in Hg'; inversion Hg'; subst a'; rewrite Hb in Hb'; congruence.
Qed.

Lemma NodeView_empty_leaf : forall d h n l, NodeView d h n l -> n_data n = Leaves [] -> l = [].
Proof.
  intros d h [p np o sq dd ks] l H E. cbn [n_data] in E. subst dd. apply NodeView_leaf_inv in H. tauto.
Qed.

Theorem b_modify_replace : forall d keep h b l e s b' s',
  SRoot d keep h b -> BucketView d h b l -> h <= fuel0 -> In (lkey e) (map lkey l) ->
  b_modify d b (OpIns e) s = Ok (b', s') ->
  SRoot d keep h b' /\ BucketView d h b' (leaf_insert l e) /\ (exists n', b_rootn b' = Some n') /\
  b_root_page b' = b_root_page b /\ b_next b' = b_next b /\ b_subs b' = b_subs b /\ same_but_seqc s s'.
Proof.
  intros d keep h b l e s b' s' HS HV Hh Hin H.
  destruct (b_modify_view d h b l (OpIns e) s (SRoot_wf _ _ _ _ HS) HV Hh)
    as (b2 & s2 & E2 & _ & V2 & _ & _ & Q1 & Q2 & Q3 & _ & Q5).
  rewrite H in E2. inversion E2; subst b2 s2. cbn [apply_lop] in V2.
  split; [|split; [exact V2|]].
  2:{ split; [|auto]. unfold b_modify in H. apply bind_ok_inv in H. destruct H as ([root s0] & _ & H).
      apply bind_ok_inv in H. destruct H as ([n1 s1] & _ & H). inversion H. cbn [b_rootn]. eauto. }
  unfold b_modify in H. apply bind_ok_inv in H. destruct H as ([root s0] & Er & H).
  apply bind_ok_inv in H. destruct H as ([n1 s1] & Em & H). inversion H; subst b' s'. clear H.
  unfold SRoot. cbn [b_rootn]. unfold SRoot in HS. unfold BucketView in HV. unfold ensure_root in Er.
  destruct (b_rootn b) as [n|].
  - inversion Er; subst root s0. destruct HS as [HI HR]. destruct HR as [E|HR].
    { rewrite (NodeView_empty_leaf _ _ _ _ HV E) in Hin. destruct Hin. }
    destruct (modify_replace _ _ _ keep _ _ _ _ _ _ _ _ HI HV HR Hin Em) as (I1 & R1 & _ & _).
    split; [exact I1 | right; exact R1].
  - destruct HS as [HP Hk]. destruct (PInv_dget _ _ _ _ _ _ HP) as [a Ha]. rewrite Ha in Er. cbn [next_seq] in Er.
    inversion Er; subst root s0.
    pose proof (node_of_page_Inv _ _ _ _ _ _ _ (seqc s) Ha HP) as I0.
    pose proof (node_of_page_view _ _ _ _ (seqc s) _ Ha HV) as V0.
    assert (R0 : Rdy d keep (node_of_page (b_root_page b) a (seqc s))).
    { apply Rdy_node_of_page; [exact Ha | | exact Hk]. intros E.
      rewrite (PageView_leaf_body _ _ _ _ _ _ HV Ha E) in Hin. destruct Hin. }
    destruct (modify_replace _ _ _ keep _ _ _ _ _ _ _ _ I0 V0 R0 Hin Em) as (I1 & R1 & _ & _).
    split; [exact I1 | right; exact R1].
Qed.

(** ** the whole second fold of [spill_bucket]: every spilled sub-bucket's entry is replaced in place *)
Definition meta := (bytes * N * N)%type.
Definition m_name (m : meta) : bytes := fst (fst m).
Definition patch (ms : list meta) (e : leafent) : leafent :=
  match e with
  | LKv _ _ => e
  | LBk k r nx => match find (fun m => beq (m_name m) k) ms with Some (_, r', nx') => LBk k r' nx' | None => e end
  end.

Lemma patch_key : forall ms e, lkey (patch ms e) = lkey e.
Proof.
  intros ms [k v|k r nx]; cbn [patch]; [reflexivity|].
  destruct (find (fun m => beq (m_name m) k) ms) as [[[? ?] ?]|]; reflexivity.
Qed.

Lemma beq_refl : forall a, beq a a = true.
Proof. intros a. now apply beq_true_iff. Qed.

Lemma patch_nil : forall l, map (patch []) l = l.
Proof. induction l as [|[k v|k r nx] l IH]; cbn [map patch find]; congruence. Qed.

Lemma patch_other : forall nm r nx e, lkey e <> nm -> patch [(nm, r, nx)] e = e.
Proof.
  intros nm r nx [k v|k r0 nx0] Hk; cbn [patch find m_name fst]; [reflexivity|]. cbn [lkey] in Hk.
  rewrite (beq_false_ne nm k) by congruence. reflexivity.
Qed.

Lemma map_patch_other : forall nm r nx l, (forall e, In e l -> lkey e <> nm) -> map (patch [(nm, r, nx)]) l = l.
Proof.
  intros nm r nx. induction l as [|a l IH]; intros H; [reflexivity|]. cbn [map].
  rewrite patch_other by (apply H; now left). rewrite IH; [reflexivity|]. intros e He. apply H. now right.
Qed.

Lemma leaf_insert_patch : forall l nm r nx r0 nx0, sorted_keys (map lkey l) = true -> In (LBk nm r0 nx0) l ->
  leaf_insert l (LBk nm r nx) = map (patch [(nm, r, nx)]) l.
Proof.
  intros l nm r nx r0 nx0 Hs Hin. destruct (in_split _ _ Hin) as (x & y & ->).
  rewrite (leaf_insert_replace x (LBk nm r0 nx0) y (LBk nm r nx) Hs eq_refl).
  destruct (sorted_split_keys _ _ _ Hs) as [Hx Hy]. cbn [lkey] in Hx, Hy.
  rewrite map_app. cbn [map]. rewrite !map_patch_other by assumption.
  cbn [patch find m_name fst]. rewrite beq_refl. reflexivity.
Qed.

Lemma patch_cons : forall m ms e, ~ In (m_name m) (map m_name ms) -> patch ms (patch [m] e) = patch (m :: ms) e.
Proof.
  intros [[nm r] nx] ms [k v|k r0 nx0] Hni; cbn [patch find m_name fst]; [reflexivity|].
  destruct (beq nm k) eqn:E.
  - apply beq_true_iff in E. subst k. cbn [patch].
    assert (Hf : find (fun m => beq (m_name m) nm) ms = None).
    { destruct (find (fun m => beq (m_name m) nm) ms) as [m'|] eqn:Ef; [|reflexivity]. exfalso. apply Hni.
      apply find_some in Ef. destruct Ef as [Ef1 Ef2]. apply beq_true_iff in Ef2. cbn [m_name fst]. rewrite <- Ef2. apply (in_map m_name _ _ Ef1). }
    now rewrite Hf.
  - reflexivity.
Qed.

(* the two folds of [spill_bucket], named *)
Definition meta_step (d : disk) (acc : bucket * txs) (m : meta) : res (bucket * txs) :=
  let '(bb, s0) := acc in let '(nm, r, nx) := m in
  cur <- b_lookup d bb nm ;;
  match cur with
  | Some e => if is_kv e then Err "IncompatibleValue"%string else b_modify d bb (OpIns (LBk nm r nx)) s0
  | None => '(b', s') <- b_modify d bb (OpIns (LBk nm r nx)) s0 ;;
            Ok (Bucket (b_root_page b') (b_next b' + 1) true (b_rootn b') (b_subs b'), s') end.

Definition sub_acc := (list meta * txs * list bytes * list (bytes * bucket))%type.
Definition sub_step (rec : bucket -> txs -> list bytes -> res (N * N * txs * list bytes))
                    (acc : sub_acc) (_ : bytes * bucket) : res sub_acc :=
  let '(l, s0, o, remaining) := acc in
  match o with [] => Err "order oracle exhausted"%string | nm :: o' =>
    match take_sub nm remaining with None => Err "order oracle names unknown bucket"%string | Some (sb, rem') =>
      '(r, nx, s', o'') <- rec sb s0 o' ;; Ok (l ++ [(nm, r, nx)], s', o'', rem') end end.

Definition spill_tail_b (b1 : bucket) (s2 : txs) (ord1 : list bytes) : res (N * N * txs * list bytes) :=
  match b_rootn b1 with
  | None => Ok (b_root_page b1, b_next b1, s2, ord1)
  | Some rn => '(p, s3) <- spill_root fuel0 rn s2 ;; Ok (p, b_next b1, s3, ord1) end.

Lemma spill_bucket_unfold : forall f d b s ord,
  spill_bucket (S f) d b s ord =
  if negb (is_dirty fuel0 b) then Ok (b_root_page b, b_next b, s, ord) else
  '(metas, s1, ord1, _) <- fold_res (sub_step (spill_bucket f d)) (b_subs b) ([], s, ord, b_subs b) ;;
  '(b1, s2) <- fold_res (meta_step d) metas (b, s1) ;;
  spill_tail_b b1 s2 ord1.
Proof. reflexivity. Qed.

Definition same_tree (b b' : bucket) : Prop :=
  b_root_page b' = b_root_page b /\ b_next b' = b_next b /\ b_subs b' = b_subs b.

Lemma meta_step_replace : forall d keep h bb l s0 nm r nx r0 nx0 b' s',
  SRoot d keep h bb -> BucketView d h bb l -> h <= fuel0 -> In (LBk nm r0 nx0) l ->
  meta_step d (bb, s0) (nm, r, nx) = Ok (b', s') ->
  SRoot d keep h b' /\ BucketView d h b' (map (patch [(nm, r, nx)]) l) /\ (exists n', b_rootn b' = Some n') /\
  same_tree bb b' /\ same_but_seqc s0 s'.
Proof.
  intros d keep h bb l s0 nm r nx r0 nx0 b' s' HS HV Hh Hin H.
  pose proof (SRoot_wf _ _ _ _ HS) as Hw. pose proof (bucket_view_sorted _ _ _ _ Hw HV) as Hs.
  unfold meta_step in H. rewrite (b_lookup_view d h bb l nm Hw HV Hh) in H. cbn [bind] in H.
  destruct (In_nth_error _ _ Hin) as [i Hi]. pose proof (alookup_nth l i _ Hs Hi) as Ha. cbn [lkey] in Ha.
  rewrite Ha in H. cbn [is_kv] in H.
  assert (Hk : In (lkey (LBk nm r nx)) (map lkey l)) by (apply (in_map lkey _ _ Hin)).
  destruct (b_modify_replace d keep h bb l _ s0 b' s' HS HV Hh Hk H) as (A1 & A2 & A3 & A4 & A5 & A6 & A7).
  rewrite (leaf_insert_patch l nm r nx r0 nx0 Hs Hin) in A2. unfold same_tree. auto 10.
Qed.

Theorem meta_fold_replace : forall d keep h (ms : list meta) bb l s0 b1 s2,
  SRoot d keep h bb -> BucketView d h bb l -> h <= fuel0 -> NoDup (map m_name ms) ->
  (forall m, In m ms -> exists r0 nx0, In (LBk (m_name m) r0 nx0) l) ->
  fold_res (meta_step d) ms (bb, s0) = Ok (b1, s2) ->
  SRoot d keep h b1 /\ BucketView d h b1 (map (patch ms) l) /\ (ms <> [] -> exists n', b_rootn b1 = Some n') /\
  (ms = [] -> b1 = bb) /\ same_tree bb b1 /\ same_but_seqc s0 s2.
Proof.
  intros d keep h. induction ms as [|[[nm r] nx] ms IH]; intros bb l s0 b1 s2 HS HV Hh Hnd Hall H.
  - cbn [fold_res] in H. inversion H; subst. rewrite patch_nil. unfold same_tree.
    split; [exact HS|]. split; [exact HV|]. split; [congruence|]. split; [reflexivity|].
    split; [auto | apply same_but_seqc_refl].
  - cbn [fold_res] in H. apply bind_ok_inv in H. destruct H as ([b' s'] & Est & H).
    cbn [map] in Hnd. inversion Hnd as [|? ? Hni Hnd']; subst.
    destruct (Hall _ (or_introl eq_refl)) as (r0 & nx0 & Hin). cbn [m_name fst] in Hin.
    destruct (meta_step_replace d keep h bb l s0 nm r nx r0 nx0 b' s' HS HV Hh Hin Est) as (A1 & A2 & A3 & A4 & A5).
    destruct (IH b' _ s' b1 s2 A1 A2 Hh Hnd') as (B1 & B2 & B3 & B4 & B5 & B6); [|exact H|].
    { intros m Hm. destruct (Hall m (or_intror Hm)) as (r1 & nx1 & Hin1). exists r1, nx1.
      apply (in_map (patch [(nm, r, nx)])) in Hin1. rewrite patch_other in Hin1; [exact Hin1|].
      cbn [lkey]. intros E. apply Hni. rewrite <- E. apply (in_map m_name _ _ Hm). }
    split; [exact B1|]. split.
    { rewrite map_map in B2. erewrite map_ext; [exact B2|]. intros e. cbn beta. symmetry. now apply patch_cons. }
    split.
    { intros _. destruct ms as [|m ms]; [rewrite (B4 eq_refl); exact A3 | apply B3; discriminate]. }
    split; [discriminate|]. split.
    + destruct A4 as (X1 & X2 & X3), B5 as (Y1 & Y2 & Y3). unfold same_tree. repeat split; congruence.
    + eapply same_but_seqc_trans; eauto.
Qed.

(* ====================================================================== *)
(** * 3. The meaning of the pages written by [spill_bucket] *)

(** ** 3a. committed trees that the transaction leaves alone; the relational meaning of a stored bucket *)

(* every page of the committed bucket rooted at r, and of the buckets nested in it (nesting depth < n), is in
   [keep]; the tree is readable within [fuel0] *)
Fixpoint ckept (n : nat) (d : disk) (keep : list N) (r : N) : Prop :=
  match n with
  | O => False
  | S n' => (forall x, in_subtree d r x -> In x keep) /\ exists l, PageView d fuel0 r l /\
      Forall (fun e => match e with LBk _ r' _ => ckept n' d keep r' | LKv _ _ => True end) l
  end.

(* the entries stored below page r, read with any sufficient fuel *)
Definition EntsOf (d : disk) (r : N) (l : list leafent) : Prop :=
  exists K, forall F, K <= F -> page_ents F d r = l.

(* [Mean d r nx m]: the bucket stored on disk d as (root r, counter nx) means m. Fuel-free counterpart of
   [abs_bucket] (see [Mean_abs_bucket]). *)
Inductive Mean (d : disk) : N -> N -> snode -> Prop :=
| Mean_intro : forall r nx l ents,
    EntsOf d r l -> Forall2 (MeanEnt d) l ents -> Mean d r nx (SBucket 0 nx ents)
with MeanEnt (d : disk) : leafent -> bytes * snode -> Prop :=
| ME_kv : forall k v, MeanEnt d (LKv k v) (k, SVal v)
| ME_bk : forall k r nx m, Mean d r nx m -> MeanEnt d (LBk k r nx) (k, m).

Lemma PageView_transfer : forall d d' h q l, PageView d h q l ->
  (forall x, in_subtree d q x -> dget d' x = dget d x) -> PageView d' h q l.
Proof.
  intros d d'. induction h as [|h IH]; intros q l H Hk; [inversion H|].
  inversion H as [? ? a l0 Hg Hb | ? ? a es ls Hg Hb HF]; subst.
  - eapply PV_leaf; [rewrite (Hk q (ist_self d q)); exact Hg | exact Hb].
  - eapply PV_branch; [rewrite (Hk q (ist_self d q)); exact Hg | exact Hb |].
    eapply EnginePathFacts.Forall2_impl_In; [|exact HF]. cbn beta. intros e y He Hy. apply (IH _ _ Hy).
    intros x Hx. apply Hk. eapply ist_kid; eauto.
Qed.

Lemma PageView_EntsOf : forall d h q l, PageView d h q l -> EntsOf d q l.
Proof. intros d h q l H. exists h. intros F HF. eapply PageView_page_ents; eauto. Qed.

(* a committed bucket whose pages are all kept means the same on every disk that agrees on [keep] *)
Lemma ckept_Mean : forall n d d' keep r nx, (forall x, In x keep -> dget d' x = dget d x) ->
  cwf n d r -> ckept n d keep r -> Mean d' r nx (abs_bucket n d r nx).
Proof.
  induction n as [|n IH]; intros d d' keep r nx Hk Hc Hp; [destruct Hc|].
  pose proof Hc as Hc0. destruct Hc as (Hw & l & Hv & Hall). destruct Hp as (Hsub & l' & Hv' & Hall').
  rewrite (PageView_det _ _ _ _ Hv' _ _ Hv) in Hall'. clear l' Hv'.
  rewrite (cwf_abs_bucket n d r nx l Hc0 Hv). apply Mean_intro with (l := l).
  - apply (PageView_EntsOf d' fuel0). apply (PageView_transfer d d' _ _ _ Hv). intros x Hx. apply Hk, Hsub, Hx.
  - clear Hv Hc0 Hw Hsub. induction l as [|e l IHl]; cbn [map]; constructor.
    + inversion Hall; inversion Hall'; subst. destruct e as [k v|k r' nx']; cbn [ent_abs]; [apply ME_kv|].
      apply ME_bk. apply (IH d d' keep); assumption.
    + inversion Hall; inversion Hall'; subst. apply IHl; assumption.
Qed.

Corollary CAbs_ckept_Mean : forall n d d' keep r nx m, (forall x, In x keep -> dget d' x = dget d x) ->
  cwf n d r -> ckept n d keep r -> CAbs d r nx m -> Mean d' r nx m.
Proof.
  intros n d d' keep r nx m Hk Hc Hp HA. rewrite (CAbs_abs_bucket d r nx m n HA Hc). eapply ckept_Mean; eauto.
Qed.

(* [Mean] is [abs_bucket] whenever the stored tree is readable within the fuels of [abs_bucket] *)
Fixpoint cpres (n : nat) (d : disk) (r : N) : Prop :=
  match n with
  | O => False
  | S n' => pages_present fuel0 d r /\
      Forall (fun e => match e with LBk _ r' _ => cpres n' d r' | LKv _ _ => True end) (page_ents fuel0 d r)
  end.

Lemma EntsOf_present : forall d r l, EntsOf d r l -> pages_present fuel0 d r -> page_ents fuel0 d r = l.
Proof.
  intros d r l [K HK] Hp. pose proof (page_ents_PageView fuel0 d r Hp) as Hv.
  rewrite <- (HK (Nat.max K fuel0)) by lia. symmetry. apply (PageView_page_ents _ _ _ _ Hv). lia.
Qed.

Theorem Mean_abs_bucket : forall n d r nx m, Mean d r nx m -> cpres n d r -> abs_bucket n d r nx = m.
Proof.
  induction n as [|n IH]; intros d r nx m HM Hp; [destruct Hp|]. destruct Hp as [Hp Hall].
  inversion HM as [? ? l ents He HF]; subst. rewrite abs_bucket_S.
  change 64 with fuel0. rewrite (EntsOf_present _ _ _ He Hp) in *. f_equal. clear He HM Hp.
  induction HF as [|e kv l ents Hekv HF IHl]; [reflexivity|]. inversion Hall; subst. cbn [map]. f_equal; [|now apply IHl].
  inversion Hekv as [k v|k r' nx' m' HM']; subst; cbn [ent_abs]; [reflexivity|]. f_equal. now apply IH.
Qed.

(** ** 3b. frames *)
Definition unwritten (keep : list N) (s : txs) : Prop := forall x, In x keep -> wr_get (wr s) x = None.

Lemma frame_seqc_r : forall live s s1 s2 A D, frame live s s1 A D -> same_but_seqc s1 s2 -> frame live s s2 A D.
Proof.
  intros live s s1 s2 A D [F1 F2 F3 F4 F5 F6 F7 F8 F9] (E1 & E2 & E3 & E4 & E5 & E6 & _).
  constructor; rewrite ?E1, ?E2, ?E3, ?E4, ?E5, ?E6; try assumption.
  - eapply fresh_inv_ext; [| | |exact F2]; congruence.
  - intros x. rewrite <- F9. unfold freed_in_tx. now rewrite E2, E3.
Qed.

Lemma frame_seqc_l : forall live s0 s1 s2 A D, same_but_seqc s0 s1 -> frame live s1 s2 A D -> frame live s0 s2 A D.
Proof.
  intros live s0 s1 s2 A D (E1 & E2 & E3 & E4 & E5 & E6 & _) [F1 F2 F3 F4 F5 F6 F7 F8 F9].
  constructor; rewrite <- ?E1, <- ?E2, <- ?E3, <- ?E4, <- ?E5, <- ?E6; try assumption.
  intros x. rewrite F9. unfold freed_in_tx. now rewrite E2, E3.
Qed.

Lemma frame_unwritten : forall live s s' A D keep, fresh_inv live s -> frame live s s' A D ->
  (forall x, In x keep -> In x live) -> unwritten keep s -> unwritten keep s'.
Proof.
  intros live s s' A D keep Hfi Hfr Hk Hu x Hx. rewrite (fr_wr _ _ _ _ _ Hfr); [apply Hu, Hx|].
  intros Hi. apply (frame_new _ _ _ _ _ _ Hfi Hfr Hi), Hk, Hx.
Qed.

Lemma unwritten_dget : forall keep s P d, unwritten keep s ->
  forall x, In x keep -> dget (apply_wr (wr s) P d) x = dget d x.
Proof. intros keep s P d Hu x Hx. apply dget_apply_wr_none, Hu, Hx. Qed.

(* the result (r, nx) of a stretch of the spill that ended in state s having allocated A: in EVERY later state of
   the transaction, the write set applied to the committed disk stores the meaning m at (r, nx) *)
Definition Written (d : disk) (live A : list N) (s : txs) (r nx : N) (m : snode) : Prop :=
  forall s'' a2 d2 P, frame (A ++ live) s s'' a2 d2 -> Mean (apply_wr (wr s'') P d) r nx m.

Lemma Written_later : forall d live A s s1 a dd r nx m,
  frame (A ++ live) s s1 a dd -> Written d live A s r nx m -> Written d live (a ++ A) s1 r nx m.
Proof.
  intros d live A s s1 a dd r nx m Hf HW s'' a2 d2 P Hf2. rewrite <- app_assoc in Hf2.
  apply (HW s'' (a2 ++ a) (dd ++ d2) P). eapply frame_trans; eauto.
Qed.

Lemma Written_seqc : forall d live A s s1 r nx m,
  same_but_seqc s s1 -> Written d live A s r nx m -> Written d live A s1 r nx m.
Proof.
  intros d live A s s1 r nx m Hs HW s'' a2 d2 P Hf2. apply (HW s'' a2 d2 P). eapply frame_seqc_l; eauto.
Qed.

(* a committed bucket that the transaction keeps is [Written] from the start *)
Lemma Written_kept : forall n d keep live A s r nx m,
  fresh_inv (A ++ live) s -> (forall x, In x keep -> In x live) -> unwritten keep s ->
  cwf n d r -> ckept n d keep r -> CAbs d r nx m -> Written d live A s r nx m.
Proof.
  intros n d keep live A s r nx m Hfi Hk Hu Hc Hp HA s'' a2 d2 P Hf.
  apply (CAbs_ckept_Mean n d _ keep r nx m); try assumption.
  apply unwritten_dget. apply (frame_unwritten _ _ _ _ _ keep Hfi Hf); [|exact Hu].
  intros x Hx. apply in_or_app. right. apply Hk, Hx.
Qed.

(** ** 3c. the overlay after rebalance, as [spill_bucket] needs it *)
Definition DRoot (d : disk) (keep : list N) (h : nat) (b : bucket) : Prop :=
  match b_rootn b with
  | Some n => Inv h d false None None n /\ RRdy d keep n
  | None => (forall x, in_subtree d (b_root_page b) x -> In x keep) /\
            (b_subs b <> [] -> PInv h d None None None (b_root_page b))
  end.

Inductive SReady (d : disk) (keep : list N) : bucket -> Prop :=
| SReady_clean : forall b,
    is_dirty fuel0 b = false ->
    (exists n, cwf n d (b_root_page b) /\ ckept n d keep (b_root_page b)) ->
    (forall m, OvlAbs d b m -> CAbs d (b_root_page b) (b_next b) m) ->
    SReady d keep b
| SReady_dirty : forall b h l,
    is_dirty fuel0 b = true ->
    h <= fuel0 -> BucketView d h b l -> DRoot d keep h b ->
    NoDup (map fst (b_subs b)) ->
    (forall nm sb, In (nm, sb) (b_subs b) -> (exists r nx, In (LBk nm r nx) l) /\ SReady d keep sb) ->
    (forall k r nx, In (LBk k r nx) l -> sub_find k (b_subs b) = None -> exists n, cwf n d r /\ ckept n d keep r) ->
    SReady d keep b.

(* what [spill_bucket] establishes *)
Definition SpillPost (d : disk) (live : list N) (b : bucket) (m : snode) (s : txs)
                     (res : N * N * txs * list bytes) : Prop :=
  let '(r, nx, s', _) := res in
  exists alloc dead, frame live s s' alloc dead /\ (In r alloc \/ r = b_root_page b) /\
    nx = b_next b /\ Spec.b_next m = nx /\ Written d live alloc s' r nx m.

Definition RecOK (d : disk) (keep : list N)
                 (rec : bucket -> txs -> list bytes -> res (N * N * txs * list bytes)) : Prop :=
  forall live b s ord res m, fresh_inv live s -> (forall x, In x keep -> In x live) -> unwritten keep s ->
    SReady d keep b -> OvlAbs d b m -> rec b s ord = Ok res -> SpillPost d live b m s res.

Lemma take_sub_inv : forall nm subs sb rem', take_sub nm subs = Some (sb, rem') ->
  exists a b, subs = a ++ (nm, sb) :: b /\ rem' = a ++ b.
Proof.
  intros nm. induction subs as [|[n' b'] r IH]; intros sb rem' H; [discriminate|]. cbn [take_sub] in H.
  destruct (beq n' nm) eqn:E.
  - inversion H; subst. apply beq_true_iff in E. subst n'. exists [], rem'. split; reflexivity.
  - destruct (take_sub nm r) as [[b0 r0]|] eqn:Et; [|discriminate]. inversion H; subst.
    destruct (IH _ _ eq_refl) as (a & b & -> & ->). exists ((n', b') :: a), b. split; reflexivity.
Qed.

(** ** 3d. the first fold: the opened sub-buckets are spilled in oracle order *)
Definition MetaOK (d : disk) (live : list N) (subs : list (bytes * bucket)) (A : list N) (s0 : txs) (m : meta) : Prop :=
  exists sb ms, In (m_name m, sb) subs /\ OvlAbs d sb ms /\ snd m = b_next sb /\
    Written d live A s0 (snd (fst m)) (snd m) ms.

Definition SubInv (d : disk) (live : list N) (s : txs) (subs : list (bytes * bucket)) (acc : sub_acc) : Prop :=
  let '(l, s0, _, remaining) := acc in
  NoDup (map fst remaining) /\ (forall x, In x remaining -> In x subs) /\
  NoDup (map m_name l) /\ (forall m, In m l -> ~ In (m_name m) (map fst remaining)) /\
  (forall x, In x subs -> In (fst x) (map m_name l) \/ In x remaining) /\
  exists A D, frame live s s0 A D /\ Forall (MetaOK d live subs A s0) l.

Lemma sub_step_inv : forall d keep live s subs rec, RecOK d keep rec ->
  fresh_inv live s -> (forall x, In x keep -> In x live) -> unwritten keep s ->
  (forall nm sb, In (nm, sb) subs -> SReady d keep sb /\ exists ms, OvlAbs d sb ms) ->
  forall x acc acc', SubInv d live s subs acc -> sub_step rec acc x = Ok acc' ->
    SubInv d live s subs acc' /\ S (length (snd acc')) = length (snd acc).
Proof.
  intros d keep live s subs rec HR Hfi Hk Hu Hsubs x [[[l s0] o] remaining] acc' HI H.
  unfold sub_step in H. destruct o as [|nm o']; [discriminate|].
  destruct (take_sub nm remaining) as [[sb rem']|] eqn:Et; [|discriminate].
  apply bind_ok_inv in H. destruct H as ([[[r nx] s'] o''] & Hrec & H). inversion H; subst acc'. clear H.
  destruct (take_sub_inv _ _ _ _ Et) as (a & b & Erem & ->).
  destruct HI as (I1 & I2 & I3 & I4 & I5 & A & D & Hfr & Hall).
  assert (Hin_rem : In (nm, sb) remaining) by (rewrite Erem; apply in_or_app; right; now left).
  destruct (Hsubs nm sb (I2 _ Hin_rem)) as [HS [ms Hms]].
  assert (Hk' : forall x, In x keep -> In x (A ++ live)) by (intros y Hy; apply in_or_app; right; apply Hk, Hy).
  pose proof (HR (A ++ live) sb s0 o' _ ms (fr_fresh _ _ _ _ _ Hfr) Hk'
                 (frame_unwritten _ _ _ _ _ keep Hfi Hfr Hk Hu) HS Hms Hrec) as HP.
  cbn [SpillPost] in HP. destruct HP as (a1 & d1 & Hf1 & _ & Enx & _ & HW).
  assert (Hnd : NoDup (map fst a ++ nm :: map fst b)).
  { rewrite Erem, map_app in I1. exact I1. }
  cbn [snd]. split; [|rewrite Erem, !app_length; cbn [length]; lia].
  unfold SubInv. split; [rewrite map_app; eapply NoDup_remove_1; eauto|].
  split. { intros y Hy. apply I2. rewrite Erem. apply in_app_or in Hy. apply in_or_app. destruct Hy; [left|right; right]; assumption. }
  split.
  { rewrite map_app. cbn [map m_name fst]. apply NoDup_app_intro; [exact I3 | repeat constructor; intros [] |].
    intros y Hy [<-|[]]. apply in_map_iff in Hy. destruct Hy as (m0 & E0 & Hm0). apply (I4 m0 Hm0).
    rewrite E0. apply (in_map fst _ _ Hin_rem). }
  split.
  { intros m0 Hm0 Hi. rewrite map_app in Hi. apply in_app_or in Hm0. destruct Hm0 as [Hm0|[<-|[]]].
    - apply (I4 m0 Hm0). rewrite Erem, map_app. cbn [map fst]. apply in_app_or in Hi. apply in_or_app.
      destruct Hi; [left|right; right]; assumption.
    - cbn [m_name fst] in Hi. apply (NoDup_remove_2 _ _ _ Hnd Hi). }
  split.
  { intros y Hy. destruct (I5 y Hy) as [Hy'|Hy'].
    - left. rewrite map_app. apply in_or_app. now left.
    - rewrite Erem in Hy'. apply in_app_or in Hy'. destruct Hy' as [Hy'|[<-|Hy']].
      + right. apply in_or_app. now left.
      + left. rewrite map_app. apply in_or_app. right. now left.
      + right. apply in_or_app. now right. }
  exists (a1 ++ A), (D ++ d1). split; [eapply frame_trans; eauto|].
  apply Forall_app. split.
  - eapply Forall_impl; [|exact Hall]. intros m0 (sb0 & ms0 & X1 & X2 & X3 & X4).
    exists sb0, ms0. repeat (split; [assumption|]). eapply Written_later; eauto.
  - repeat constructor. exists sb, ms. cbn [m_name fst snd]. split; [apply I2, Hin_rem|]. split; [exact Hms|].
    split; [exact Enx|]. intros s'' a2 d2 P Hf2. rewrite <- app_assoc in Hf2. apply (HW s'' a2 d2 P Hf2).
Qed.

Lemma sub_fold_inv : forall d keep live s subs rec, RecOK d keep rec ->
  fresh_inv live s -> (forall x, In x keep -> In x live) -> unwritten keep s ->
  (forall nm sb, In (nm, sb) subs -> SReady d keep sb /\ exists ms, OvlAbs d sb ms) ->
  forall cnt acc acc', SubInv d live s subs acc -> fold_res (sub_step rec) cnt acc = Ok acc' ->
    SubInv d live s subs acc' /\ length (snd acc') + length cnt = length (snd acc).
Proof.
  intros d keep live s subs rec HR Hfi Hk Hu Hsubs. induction cnt as [|x cnt IH]; intros acc acc' HI H.
  - cbn [fold_res] in H. inversion H; subst. split; [exact HI | cbn [length]; lia].
  - cbn [fold_res] in H. apply bind_ok_inv in H. destruct H as (acc1 & H1 & H2).
    destruct (sub_step_inv d keep live s subs rec HR Hfi Hk Hu Hsubs x acc acc1 HI H1) as [I1 L1].
    destruct (IH acc1 acc' I1 H2) as [I2 L2]. split; [exact I2 | cbn [length]; lia].
Qed.

(** ** 3e. the entries of the patched view mean what the overlay's entries mean *)
Lemma find_name : forall (ms : list meta) k, In k (map m_name ms) ->
  exists m1, find (fun m => beq (m_name m) k) ms = Some m1 /\ In m1 ms /\ m_name m1 = k.
Proof.
  induction ms as [|m ms IH]; intros k H; [destruct H|]. cbn [find]. destruct (beq (m_name m) k) eqn:E.
  - exists m. apply beq_true_iff in E. split; [reflexivity|]. split; [now left | exact E].
  - cbn [map] in H. destruct H as [H|H]; [rewrite H, beq_refl in E; discriminate|].
    destruct (IH k H) as (m1 & F1 & F2 & F3). exists m1. split; [exact F1|]. split; [now right | exact F3].
Qed.

Lemma patched_meaning : forall d d' subs (ms : list meta) l ents,
  NoDup (map fst subs) ->
  (forall m, In m ms -> exists sb mm, In (m_name m, sb) subs /\ OvlAbs d sb mm /\ Mean d' (snd (fst m)) (snd m) mm) ->
  (forall x, In x subs -> In (fst x) (map m_name ms)) ->
  (forall k r nx, In (LBk k r nx) l -> sub_find k subs = None -> forall m', CAbs d r nx m' -> Mean d' r nx m') ->
  Forall2 (OvlEnt d subs) l ents -> Forall2 (MeanEnt d') (map (patch ms) l) ents.
Proof.
  intros d d' subs ms l ents Hnd Hms Hcov Hdisk HF. induction HF as [|e kv l ents He HF IH]; [constructor|].
  cbn [map]. constructor.
  2:{ apply IH. intros k r nx Hin. apply Hdisk. now right. }
  inversion He as [? k v | ? k r nx sb m' Hf Ho | ? k r nx m' Hf Hc]; subst.
  - cbn [patch]. apply ME_kv.
  - pose proof (sub_find_In _ _ _ Hf) as Hin. destruct (find_name ms k (Hcov _ Hin)) as (m1 & F1 & F2 & F3).
    cbn [patch]. rewrite F1. destruct m1 as [[k1 r1] nx1].
    destruct (Hms _ F2) as (sb2 & mm & G1 & G2 & G3). cbn [m_name fst snd] in *. subst k1.
    pose proof (NoDup_In_sub_find _ _ _ Hnd G1) as Hf2. rewrite Hf in Hf2. inversion Hf2; subst sb2.
    rewrite (OvlAbs_det _ _ _ _ Ho G2). apply ME_bk. exact G3.
  - cbn [patch]. destruct (find (fun m => beq (m_name m) k) ms) as [m1|] eqn:Ef.
    + exfalso. apply find_some in Ef. destruct Ef as [E1 E2]. apply beq_true_iff in E2.
      destruct (Hms _ E1) as (sb2 & mm & G1 & _). rewrite E2 in G1.
      rewrite (NoDup_In_sub_find _ _ _ Hnd G1) in Hf. discriminate.
    + apply ME_bk. apply (Hdisk k r nx); [now left | exact Hf | exact Hc].
Qed.

(** ** 3f. the induction step *)
Lemma Forall2_In_left : forall {A B} (R : A -> B -> Prop) xs ys x, Forall2 R xs ys -> In x xs -> exists y, In y ys /\ R x y.
Proof.
  intros A B R xs ys x HF. induction HF as [|a b xs ys Hab HF IH]; intros Hin; [destruct Hin|].
  destruct Hin as [<-|Hin]; [exists b; split; [now left | exact Hab]|].
  destruct (IH Hin) as (y & Hy & Hr). exists y. split; [now right | exact Hr].
Qed.

Lemma sub_has_meaning : forall d subs l ents nm sb r nx, NoDup (map fst subs) ->
  Forall2 (OvlEnt d subs) l ents -> In (nm, sb) subs -> In (LBk nm r nx) l -> exists ms, OvlAbs d sb ms.
Proof.
  intros d subs l ents nm sb r nx Hnd HF Hin Hl. destruct (Forall2_In_left _ _ _ _ HF Hl) as (kv & _ & He).
  pose proof (NoDup_In_sub_find _ _ _ Hnd Hin) as Hf.
  inversion He as [| ? k r0 nx0 sb' m' Hf' Ho | ? k r0 nx0 m' Hf' Hc]; subst.
  - rewrite Hf in Hf'. inversion Hf'; subst sb'. eauto.
  - rewrite Hf in Hf'. discriminate.
Qed.

(* the unopened nested buckets of a dirty bucket keep their meaning on every later disk *)
Lemma disk_entries_later : forall d keep (live A : list N) s'' P subs l,
  (forall k r nx, In (LBk k r nx) l -> sub_find k subs = None -> exists n, cwf n d r /\ ckept n d keep r) ->
  unwritten keep s'' ->
  forall k r nx, In (LBk k r nx) l -> sub_find k subs = None -> forall m', CAbs d r nx m' ->
    Mean (apply_wr (wr s'') P d) r nx m'.
Proof.
  intros d keep live A s'' P subs l Hdisk Hu k r nx Hin Hf m' Hc. destruct (Hdisk k r nx Hin Hf) as (n & Hc1 & Hc2).
  apply (CAbs_ckept_Mean n d _ keep r nx m'); try assumption. now apply unwritten_dget.
Qed.

Lemma spill_tail_meaning : forall d keep live s A D s1 s2 h l subs (ms : list meta) ents rn p s3 nx,
  fresh_inv live s -> (forall x, In x keep -> In x live) -> unwritten keep s ->
  frame live s s1 A D -> same_but_seqc s1 s2 ->
  Inv h d false None None rn -> RRdy d keep rn -> NodeView d h rn (map (patch ms) l) ->
  NoDup (map fst subs) -> Forall (MetaOK d live subs A s1) ms ->
  (forall x, In x subs -> In (fst x) (map m_name ms)) ->
  (forall k r nx, In (LBk k r nx) l -> sub_find k subs = None -> exists n, cwf n d r /\ ckept n d keep r) ->
  Forall2 (OvlEnt d subs) l ents ->
  spill_root fuel0 rn s2 = Ok (p, s3) ->
  exists alloc dead, frame live s s3 alloc dead /\ In p alloc /\ Written d live alloc s3 p nx (SBucket 0 nx ents).
Proof.
  intros d keep live s A D s1 s2 h l subs ms ents rn p s3 nx Hfi Hk Hu Hfr Hs12 HI HR HV Hnd Hms Hcov Hdisk HF Hsp.
  pose proof (frame_seqc_r _ _ _ _ _ _ Hfr Hs12) as Hfr2.
  pose proof (fr_fresh _ _ _ _ _ Hfr2) as Hfi2.
  assert (Hk2 : forall x, In x keep -> In x (A ++ live)) by (intros y Hy; apply in_or_app; right; apply Hk, Hy).
  pose proof (frame_unwritten _ _ _ _ _ keep Hfi Hfr2 Hk Hu) as Hu2.
  destruct (spill_root_view d keep (A ++ live) h rn _ fuel0 s2 p s3 (Inv_wf_node _ _ _ _ _ HI) HV
              (Inv_RRdy_root_ready _ _ _ _ HI HR) Hfi2 Hsp)
    as (alloc & dead & good & lv & F1 & F2 & F3 & _ & _ & _ & F7).
  exists (alloc ++ A), (D ++ dead). split; [eapply frame_trans; eauto|].
  split; [apply in_or_app; left; apply F2, F3|].
  intros s'' a2 d2 P Hf''. rewrite <- app_assoc in Hf''.
  destruct (frame_later_ok _ _ _ _ _ good keep s'' a2 d2 Hfi2 F1 F2 Hk2 Hu2 Hf'') as [G1 G2].
  apply Mean_intro with (l := map (patch ms) l).
  - exists (lv + ndepth rn + h). intros F HF'. apply (F7 (wr s'') P G1 G2 F HF').
  - apply (patched_meaning d _ subs ms l ents Hnd); [| exact Hcov | | exact HF].
    + intros m Hm. rewrite Forall_forall in Hms. destruct (Hms m Hm) as (sb & mm & X1 & X2 & _ & X4).
      exists sb, mm. split; [exact X1|]. split; [exact X2|].
      apply (X4 s'' (a2 ++ alloc) (dead ++ d2) P). apply (frame_seqc_l _ _ _ _ _ _ Hs12). eapply frame_trans; eauto.
    + apply (disk_entries_later d keep live A s'' P subs l Hdisk G2).
Qed.

Lemma RecOK_step : forall d keep f, RecOK d keep (spill_bucket f d) -> RecOK d keep (spill_bucket (S f) d).
Proof.
  intros d keep f HR live b s ord res m Hfi Hk Hu HS HO H. destruct res as [[[r nx] s'] ord'].
  rewrite spill_bucket_unfold in H.
  destruct (OvlAbs_bucket _ _ _ HO) as [ents0 Em].
  assert (Enx : Spec.b_next m = b_next b) by (rewrite Em; reflexivity).
  destruct (is_dirty fuel0 b) eqn:Ed; cbn [negb] in H.
  2:{ (* clean: returned as it is *)
      inversion H; subst r nx s' ord'. inversion HS as [b0 _ (n & Hc1 & Hc2) Hm | b0 h l Hd]; subst b0; [|congruence].
      cbn [SpillPost]. exists [], []. split; [now apply frame_refl|]. split; [now right|]. split; [reflexivity|].
      split; [exact Enx|]. apply (Written_kept n d keep live [] s); auto. }
  inversion HS as [b0 Hd | b0 h l _ Hh HV HD Hnd Hsubs Hdisk]; subst b0; [congruence|].
  inversion HO as [b0 l0 ents Hbv HF]; subst b0 m.
  assert (El : l0 = l) by (apply (bucket_view_det d b); [exact Hbv | exists h; auto]). subst l0.
  assert (Hsubs' : forall nm sb, In (nm, sb) (b_subs b) -> SReady d keep sb /\ exists ms, OvlAbs d sb ms).
  { intros nm sb Hin. destruct (Hsubs nm sb Hin) as [(r0 & nx0 & Hl) HSb]. split; [exact HSb|].
    eapply sub_has_meaning; eauto. }
  apply bind_ok_inv in H. destruct H as ([[[metas s1] ord1] rem] & Hf1 & H).
  assert (HI0 : SubInv d live s (b_subs b) ([], s, ord, b_subs b)).
  { cbn [SubInv]. split; [exact Hnd|]. split; [auto|]. split; [constructor|]. split; [intros ? []|].
    split; [intros x Hx; now right|]. exists [], []. split; [now apply frame_refl | constructor]. }
  destruct (sub_fold_inv d keep live s (b_subs b) _ HR Hfi Hk Hu Hsubs' (b_subs b) _ _ HI0 Hf1)
    as [(_ & _ & J3 & _ & J5 & A & D & Hfr & Hms) Hlen].
  cbn [snd] in Hlen. assert (rem = []) by (destruct rem; [reflexivity | cbn [length] in Hlen; lia]). subst rem.
  assert (Hcov : forall x, In x (b_subs b) -> In (fst x) (map m_name metas)).
  { intros x Hx. destruct (J5 x Hx) as [Hc|[]]. exact Hc. }
  apply bind_ok_inv in H. destruct H as ([b1 s2] & Hf2 & H).
  assert (Hall : forall mt, In mt metas -> exists r0 nx0, In (LBk (m_name mt) r0 nx0) l).
  { intros mt Hmt. rewrite Forall_forall in Hms. destruct (Hms mt Hmt) as (sb & _ & X1 & _).
    destruct (Hsubs _ _ X1) as [Hex _]. exact Hex. }
  assert (Hcase : (b_rootn b = None /\ metas = []) \/
                  (SRoot d keep h b /\ (metas <> [] \/ exists n, b_rootn b = Some n))).
  { unfold SRoot, DRoot in *. destruct (b_rootn b) as [n|]; [right; split; [exact HD | right; eauto]|].
    destruct metas as [|mt metas]; [left; auto|]. right. split; [|left; discriminate].
    destruct HD as [HD1 HD2]. split; [|exact HD1]. apply HD2.
    inversion Hms as [|? ? (sb & _ & X1 & _) _]; subst. intros E. rewrite E in X1. destruct X1. }
  destruct Hcase as [[Ern ->] | [HSR Hsome]].
  - (* the promoted root that was never loaded, no opened sub-bucket: the committed page is returned *)
    cbn [fold_res] in Hf2. inversion Hf2; subst b1 s2. unfold spill_tail_b in H. rewrite Ern in H.
    inversion H; subst r nx s' ord'. clear H.
    cbn [SpillPost]. exists A, D. split; [exact Hfr|]. split; [now right|]. split; [reflexivity|]. split; [reflexivity|].
    unfold DRoot in HD. unfold BucketView in HV. rewrite Ern in HD, HV. destruct HD as [HD1 _].
    intros s'' a2 d2 P Hf''.
    assert (Hu'' : unwritten keep s'').
    { apply (frame_unwritten _ _ _ _ _ keep (fr_fresh _ _ _ _ _ Hfr) Hf'').
      - intros x Hx. apply in_or_app. right. apply Hk, Hx.
      - apply (frame_unwritten _ _ _ _ _ keep Hfi Hfr Hk Hu). }
    apply Mean_intro with (l := l).
    + apply (PageView_EntsOf _ h). apply (PageView_transfer d _ _ _ _ HV). intros x Hx.
      apply unwritten_dget with (keep := keep); [exact Hu'' | apply HD1, Hx].
    + rewrite <- (patch_nil l). apply (patched_meaning d _ (b_subs b) [] l ents Hnd); [intros ? [] | exact Hcov | | exact HF].
      apply (disk_entries_later d keep live A s'' P (b_subs b) l Hdisk Hu'').
  - destruct (meta_fold_replace d keep h metas b l s1 b1 s2 HSR HV Hh J3 Hall Hf2)
      as (B1 & B2 & B3 & B4 & (T1 & T2 & T3) & B6).
    assert (Hrn : exists rn, b_rootn b1 = Some rn).
    { destruct Hsome as [Hne | [n Hn]]; [apply B3, Hne|]. destruct metas as [|mt metas]; [|apply B3; discriminate].
      rewrite (B4 eq_refl). eauto. }
    destruct Hrn as [rn Ern]. unfold spill_tail_b in H. rewrite Ern in H.
    apply bind_ok_inv in H. destruct H as ([p s3] & Hsp & H). inversion H; subst r nx s' ord'. clear H.
    unfold SRoot in B1. rewrite Ern in B1. destruct B1 as [HI HRd]. unfold BucketView in B2. rewrite Ern in B2.
    destruct (spill_tail_meaning d keep live s A D s1 s2 h l (b_subs b) metas ents rn p s3 (b_next b)
                Hfi Hk Hu Hfr B6 HI HRd B2 Hnd Hms Hcov Hdisk HF Hsp) as (alloc & dead & R1 & R2 & R3).
    cbn [SpillPost]. exists alloc, dead. split; [exact R1|]. split; [now left|]. split; [exact T2|].
    split; [cbn; congruence|]. rewrite T2. exact R3.
Qed.

(** ** 3g. the theorem *)
Lemma RecOK_all : forall d keep f, RecOK d keep (spill_bucket f d).
Proof.
  intros d keep. induction f as [|f IH]; [|now apply RecOK_step].
  intros live b s ord res m _ _ _ _ _ H. discriminate.
Qed.

(* Spilling the bucket tree writes the overlay's meaning: in every later state s'' of the same transaction, the
   write set applied to the committed disk stores, at the returned (root, counter), the meaning of the overlay. *)
Theorem spill_bucket_meaning : forall f d keep live b s ord r nx s' ord' m,
  fresh_inv live s -> (forall x, In x keep -> In x live) -> (forall x, In x keep -> wr_get (wr s) x = None) ->
  SReady d keep b -> OvlAbs d b m ->
  spill_bucket f d b s ord = Ok (r, nx, s', ord') ->
  exists alloc dead,
    frame live s s' alloc dead /\
    (In r alloc \/ r = b_root_page b) /\
    nx = b_next b /\ Spec.b_next m = nx /\
    forall s'' a2 d2 P, frame (alloc ++ live) s' s'' a2 d2 -> Mean (apply_wr (wr s'') P d) r nx m.
Proof.
  intros f d keep live b s ord r nx s' ord' m Hfi Hk Hu HS HO H.
  exact (RecOK_all d keep f live b s ord (r, nx, s', ord') m Hfi Hk Hu HS HO H).
Qed.

(* in terms of the executable abstraction function, when the new tree is readable within its fuels *)
Corollary spill_bucket_abs_bucket : forall f d keep live b s ord r nx s' ord' m,
  fresh_inv live s -> (forall x, In x keep -> In x live) -> (forall x, In x keep -> wr_get (wr s) x = None) ->
  SReady d keep b -> OvlAbs d b m ->
  spill_bucket f d b s ord = Ok (r, nx, s', ord') ->
  exists alloc dead, frame live s s' alloc dead /\
    forall s'' a2 d2 P n, frame (alloc ++ live) s' s'' a2 d2 -> cpres n (apply_wr (wr s'') P d) r ->
      abs_bucket n (apply_wr (wr s'') P d) r nx = m.
Proof.
  intros f d keep live b s ord r nx s' ord' m Hfi Hk Hu HS HO H.
  destruct (spill_bucket_meaning f d keep live b s ord r nx s' ord' m Hfi Hk Hu HS HO H)
    as (alloc & dead & F1 & _ & _ & _ & F5).
  exists alloc, dead. split; [exact F1|]. intros s'' a2 d2 P n Hf Hp. apply Mean_abs_bucket; [|exact Hp]. eapply F5; eauto.
Qed.

(* ====================================================================== *)
(** * 4. [commit] *)

Lemma free_pages_frame : forall live s p n, fresh_inv live s -> frame live s (free_pages s p n) [] (nrun p n).
Proof.
  intros live s p n Hfi. destruct (free_pages_fields s p n) as (A & B & C & D & E & _).
  constructor; rewrite ?A, ?B, ?C, ?D, ?E; try reflexivity; try tauto; try (apply N.le_refl).
  - intros x [].
  - cbn [app]. now apply free_pages_fresh.
  - intros x. unfold free_pages. rewrite In_nrun. apply EngineAllocFacts.engine_free_pend_all.
  - intros x. rewrite In_nrun. apply free_pages_freed.
Qed.

Lemma tx_allocate_frame : forall live s bts p n s', fresh_inv live s -> (0 < bts)%N -> tx_allocate s bts = (p, n, s') ->
  frame live s s' (nrun p n) [] /\ (forall x, (p <= x < p + n)%N -> ~ In x live).
Proof.
  intros live s bts p n s' Hfi Hb Hal.
  destruct (tx_allocate_fresh _ _ _ _ _ _ Hfi Hb Hal)
    as (_ & _ & _ & Hnl & _ & Hfi' & Ewr & Epd & Etx & Epsz & _ & _ & Hnp & Hfr & Hsrc).
  split; [|exact Hnl]. constructor; try assumption.
  - intros x Hx. apply In_nrun in Hx. apply Hsrc, Hx.
  - intros q _. now rewrite Ewr.
  - intros x. rewrite Epd. cbn [In]. tauto.
  - intros x. unfold freed_in_tx. rewrite Epd, Etx. cbn [In]. tauto.
Qed.

(* [commit]: with the state after rebalance satisfying the hypotheses of [spill_bucket_meaning] (that rebalance
   preserves [OvlAbs] and yields [SReady] is proved elsewhere and taken as hypotheses here), the new state
   stores the meaning of the overlay; the page run of the new free list is disjoint from the new tree and the
   live pages. The free-list steps need no further hypothesis. *)
Theorem commit_meaning : forall st b s ord st' b1 s1 keep live m,
  rebalance fuel0 (d_disk st) b s = Ok (b1, s1) ->
  fresh_inv live s1 -> (forall x, In x keep -> In x live) -> (forall x, In x keep -> wr_get (wr s1) x = None) ->
  SReady (d_disk st) keep b1 -> OvlAbs (d_disk st) b1 m ->
  commit st b s ord = Ok st' ->
  exists r nx s2 ord' alloc dead,
    spill_bucket fuel0 (d_disk st) b1 s1 ord = Ok (r, nx, s2, ord') /\
    frame live s1 s2 alloc dead /\
    d_root st' = r /\ d_next st' = nx /\ nx = Spec.b_next m /\ (In r alloc \/ r = b_root_page b1) /\
    (forall x, (d_fl st' <= x < d_fl st' + d_fln st')%N -> ~ In x (alloc ++ live)) /\
    Mean (d_disk st') (d_root st') (d_next st') m /\
    (cpres 16 (d_disk st') (d_root st') -> abs_db st' = m).
Proof.
  intros st b s ord st' b1 s1 keep live m Hreb Hfi Hk Hu HS HO H.
  rewrite commit_apply_wr in H. unfold commit_with_apply_wr in H. rewrite Hreb in H. cbn [bind] in H.
  apply bind_ok_inv in H. destruct H as ([[[r nx] s2] ord'] & Hsp & H).
  destruct (spill_bucket_meaning _ _ keep live _ _ _ _ _ _ _ m Hfi Hk Hu HS HO Hsp)
    as (alloc & dead & F1 & F2 & F3 & F4 & F5).
  set (s3 := free_pages s2 (d_fl st) (d_fln st)) in H.
  destruct (tx_allocate s3 (40 + 8 * llen (all_pages s3))) as [[flp fln] s4] eqn:Hal.
  inversion H; subst st'. clear H. cbn [d_root d_next d_fl d_fln d_disk].
  pose proof (fr_fresh _ _ _ _ _ F1) as Hfi2.
  pose proof (free_pages_frame (alloc ++ live) s2 (d_fl st) (d_fln st) Hfi2) as G1. fold s3 in G1.
  assert (Hpos : (0 < 40 + 8 * llen (all_pages s3))%N) by lia.
  destruct (tx_allocate_frame (alloc ++ live) s3 _ flp fln s4 (fr_fresh _ _ _ _ _ G1) Hpos Hal) as [G2 G3].
  pose proof (frame_trans _ _ _ _ _ _ _ _ G1 G2) as G4.
  pose proof (F5 s4 _ _ (psz s4) G4) as HM.
  exists r, nx, s2, ord', alloc, dead. split; [exact Hsp|]. split; [exact F1|]. split; [reflexivity|].
  split; [reflexivity|]. split; [congruence|]. split; [exact F2|]. split; [exact G3|]. split; [exact HM|].
  intros Hp. unfold abs_db. cbn [d_root d_next d_disk]. now apply Mean_abs_bucket.
Qed.

(* ====================================================================== *)
(** * 5. Non-vacuity: an overlay with one opened nested bucket

   Committed: root page 3 = { a := 01, bucket b -> (page 4, next 1), bucket e -> (page 5, next 0) }, page 4 = { c := 03 },
   page 5 = {}. The transaction opened b and put d := 04 into it: b's root leaf is materialised and dirty; the root
   bucket's own tree was never loaded (root node None, flag clean) but it is dirty through b; e was not opened. *)
Module SpillExample.
Local Open Scope N_scope.
Definition xa : bytes := ["a"%byte]. Definition xb : bytes := ["b"%byte]. Definition xc : bytes := ["c"%byte].
Definition xd : bytes := ["d"%byte]. Definition xe : bytes := ["e"%byte].
Definition ex_l3 : list leafent := [LKv xa [x01]; LBk xb 4 1; LBk xe 5 0].
Definition ex_d : disk :=
  [ (3, {| ap_over := 0; ap_body := Leaves ex_l3 |});
    (4, {| ap_over := 0; ap_body := Leaves [LKv xc [x03]] |});
    (5, {| ap_over := 0; ap_body := Leaves [] |}) ].
Definition ex_lsb : list leafent := [LKv xc [x03]; LKv xd [x04]].
Definition ex_sb : bucket := Bucket 4 2 true (Some (Node 4 1 (Some xc) 2 (Leaves ex_lsb) [])) [].
Definition ex_b : bucket := Bucket 3 3 false None [(xb, ex_sb)].
Definition ex_s : txs :=
  {| free := []; pending := []; txid := 2; np := 6; psz := 4096; wr := []; flw := None; seqc := 5 |}.
Definition ex_keep : list N := [3; 5].
Definition ex_live : list N := [3; 4; 5].
Definition ex_msb : snode := SBucket 0 2 [(xc, SVal [x03]); (xd, SVal [x04])].
Definition ex_m : snode := SBucket 0 3 [(xa, SVal [x01]); (xb, ex_msb); (xe, SBucket 0 0 [])].
Definition ex_s' : txs :=
  {| free := []; pending := [(2, [4; 3])]; txid := 2; np := 8; psz := 4096;
     wr := [(7, (172, Leaves [LKv xa [x01]; LBk xb 6 2; LBk xe 5 0])); (6, (108, Leaves ex_lsb))];
     flw := None; seqc := 6 |}.

Example ex_fresh : fresh_inv ex_live ex_s.
Proof.
  constructor; cbn [ex_s free np psz].
  - lia.
  - lia.
  - constructor.
  - constructor.
  - intros y [].
  - intros y Hy. unfold ex_live in Hy. cbn [In] in Hy. split; [|intros []]. destruct Hy as [<-|[<-|[<-|[]]]]; lia.
Qed.

Lemma ex_leaf_subtree : forall q l x, dget ex_d q = Some {| ap_over := 0; ap_body := Leaves l |} ->
  in_subtree ex_d q x -> x = q.
Proof.
  intros q l x Hg Hx. inversion Hx as [|? a es e ? Hg' Hb]; subst; [reflexivity|].
  rewrite Hg in Hg'. inversion Hg'; subst a. discriminate Hb.
Qed.

Example ex_sready_sb : SReady ex_d ex_keep ex_sb.
Proof.
  apply SReady_dirty with (h := 1%nat) (l := ex_lsb).
  - reflexivity.
  - unfold fuel0. lia.
  - unfold BucketView. cbn [b_rootn ex_sb]. apply NV_leaf.
  - unfold DRoot. cbn [b_rootn ex_sb]. split.
    + rewrite Inv_leaf_eq. split; [reflexivity|]. repeat constructor.
    + right. apply Rdy_leaf. discriminate.
  - constructor.
  - intros nm sb [].
  - intros k r nx Hin. cbn [ex_lsb In] in Hin. destruct Hin as [H|[H|[]]]; discriminate H.
Qed.

Example ex_cwf5 : cwf 1 ex_d 5 /\ ckept 1 ex_d ex_keep 5.
Proof.
  split.
  - eapply cwf_leaf; [reflexivity | reflexivity | reflexivity | constructor].
  - cbn [ckept]. split.
    + intros x Hx. rewrite (ex_leaf_subtree 5 [] x eq_refl Hx). right. now left.
    + exists []. split; [eapply PV_leaf; reflexivity | constructor].
Qed.

Example ex_sready : SReady ex_d ex_keep ex_b.
Proof.
  apply SReady_dirty with (h := 1%nat) (l := ex_l3).
  - reflexivity.
  - unfold fuel0. lia.
  - unfold BucketView. cbn [b_rootn b_root_page ex_b]. eapply PV_leaf; reflexivity.
  - unfold DRoot. cbn [b_rootn b_root_page ex_b]. split.
    + intros x Hx. rewrite (ex_leaf_subtree 3 ex_l3 x eq_refl Hx). now left.
    + intros _. cbn [PInv]. eexists. split; [reflexivity|]. split; [exact I|]. cbn [ap_body].
      split; [reflexivity | repeat constructor].
  - cbn [b_subs ex_b map fst]. constructor; [intros [] | constructor].
  - intros nm sb [H|[]]. inversion H; subst nm sb. split; [|exact ex_sready_sb].
    exists 4, 1. right. now left.
  - intros k r nx Hin Hf. cbn [ex_l3 In] in Hin. destruct Hin as [H|[H|[H|[]]]]; inversion H; subst k r nx.
    + vm_compute in Hf. discriminate Hf.
    + exists 1%nat. exact ex_cwf5.
Qed.

Example ex_ovl_sb : OvlAbs ex_d ex_sb ex_msb.
Proof.
  change ex_msb with (SBucket 0 (b_next ex_sb) [(xc, SVal [x03]); (xd, SVal [x04])]).
  apply OvlAbs_intro with (l := ex_lsb).
  - exists 1%nat. split; [unfold fuel0; lia|]. unfold BucketView. cbn [b_rootn ex_sb]. apply NV_leaf.
  - repeat constructor.
Qed.

Example ex_ovl : OvlAbs ex_d ex_b ex_m.
Proof.
  change ex_m with (SBucket 0 (b_next ex_b) [(xa, SVal [x01]); (xb, ex_msb); (xe, SBucket 0 0 [])]).
  apply OvlAbs_intro with (l := ex_l3).
  - exists 1%nat. split; [unfold fuel0; lia|]. unfold BucketView. cbn [b_rootn b_root_page ex_b].
    eapply PV_leaf; reflexivity.
  - constructor; [apply OE_kv|]. constructor; [eapply OE_sub; [reflexivity | exact ex_ovl_sb]|].
    constructor; [|constructor]. apply OE_disk; [reflexivity|]. exists 1%nat. split; [apply ex_cwf5 | reflexivity].
Qed.

(* the spill really writes: the sub-bucket's leaf goes to the new page 6, the root's leaf (materialised by the
   parent update, with b's entry replaced by (6, 2)) to the new page 7; pages 4 and 3 are freed *)
Example ex_spill_runs : spill_bucket fuel0 ex_d ex_b ex_s [xb] = Ok (7, 3, ex_s', []).
Proof. vm_compute. reflexivity. Qed.

Example ex_spill_meaning : exists alloc dead, frame ex_live ex_s ex_s' alloc dead /\ In 7 alloc /\
  forall s'' a2 d2 P, frame (alloc ++ ex_live) ex_s' s'' a2 d2 -> Mean (apply_wr (wr s'') P ex_d) 7 3 ex_m.
Proof.
  destruct (spill_bucket_meaning fuel0 ex_d ex_keep ex_live ex_b ex_s [xb] 7 3 ex_s' [] ex_m ex_fresh)
    as (alloc & dead & F1 & F2 & _ & _ & F5).
  - intros x Hx. unfold ex_keep, ex_live in *. cbn [In] in *. tauto.
  - intros x _. reflexivity.
  - exact ex_sready.
  - exact ex_ovl.
  - exact ex_spill_runs.
  - exists alloc, dead. split; [exact F1|]. split; [|exact F5]. destruct F2 as [F2|F2]; [exact F2 | discriminate F2].
Qed.

(* and the executable abstraction of the disk built from the write set agrees *)
Example ex_spill_abs : abs_bucket 16 (apply_wr (wr ex_s') 4096 ex_d) 7 3 = ex_m.
Proof. vm_compute. reflexivity. Qed.
End SpillExample.

(* ====================================================================== *)
(** * 6. A structural sufficient condition for the clean clause of [SReady]

   A clean bucket was opened ([Bucket r nx false None []]) and never modified: no root node, and each of its opened
   (clean) sub-buckets still carries the (root, next) stored in its entry. *)
Inductive SClean (d : disk) (keep : list N) : bucket -> Prop :=
| SClean_intro : forall b,
    b_rootn b = None ->
    (exists n, cwf n d (b_root_page b) /\ ckept n d keep (b_root_page b)) ->
    (forall nm sb, In (nm, sb) (b_subs b) -> SClean d keep sb /\
       forall l, PageView d fuel0 (b_root_page b) l -> In (LBk nm (b_root_page sb) (b_next sb)) l) ->
    SClean d keep b.

Lemma same_key_same_entry : forall (l : list leafent) e1 e2, sorted_keys (map lkey l) = true ->
  In e1 l -> In e2 l -> lkey e1 = lkey e2 -> e1 = e2.
Proof.
  intros l e1 e2 Hs H1 H2 Hk. destruct (In_nth_error _ _ H1) as [i Hi]. destruct (In_nth_error _ _ H2) as [j Hj].
  pose proof (NoDup_map_nth_error lkey l i j e1 e2 (sorted_NoDup _ Hs) Hi Hj Hk). subst j. congruence.
Qed.

Lemma SClean_meaning_k : forall k d keep b, bdepth b < k -> SClean d keep b ->
  forall m, OvlAbs d b m -> CAbs d (b_root_page b) (b_next b) m.
Proof.
  induction k as [|k IH]; intros d keep b Hk HC m HO; [lia|].
  inversion HC as [b0 Ern (n & Hc & _) Hsubs]; subst b0.
  inversion HO as [b0 l ents (h & Hh & Hbv) HF]; subst b0 m.
  unfold BucketView in Hbv. rewrite Ern in Hbv.
  destruct n as [|n]; [destruct Hc|]. pose proof Hc as Hc0. destruct Hc as (Hw & l' & Hv & Hall).
  assert (El : l' = l) by (exact (PageView_det _ _ _ _ Hv _ _ Hbv)). subst l'.
  pose proof (wf_page_sorted _ _ _ _ Hw Hv) as Hs.
  exists (S n). split; [exact Hc0|]. rewrite (cwf_abs_bucket n d _ _ l Hc0 Hv). f_equal.
  assert (Haux : forall l1 ents1, (forall e, In e l1 -> In e l) ->
            Forall (fun e => match e with LBk _ r' _ => cwf n d r' | LKv _ _ => True end) l1 ->
            Forall2 (OvlEnt d (b_subs b)) l1 ents1 -> ents1 = map (ent_abs n d) l1).
  { induction l1 as [|e l1 IHl]; intros ents1 Hin Hall1 HF1; inversion HF1 as [|? kv ? ents' He HF']; subst; [reflexivity|].
    inversion Hall1 as [|? ? Hce Hall']; subst. cbn [map]. f_equal; [|apply IHl; auto; intros e0 He0; apply Hin; now right].
    inversion He as [? k0 v | ? k0 r nx sb m' Hf Ho | ? k0 r nx m' Hf Hca]; subst; cbn [ent_abs]; [reflexivity| |].
    - f_equal. pose proof (sub_find_In _ _ _ Hf) as Hsb. destruct (Hsubs _ _ Hsb) as [HCs Hent].
      pose proof (same_key_same_entry l _ _ Hs (Hent l Hv) (Hin _ (or_introl eq_refl)) eq_refl) as E. inversion E; subst r nx.
      apply (CAbs_abs_bucket d _ _ m' n); [|exact Hce].
      apply (IH d keep sb); [|exact HCs|exact Ho]. pose proof (bdepth_sub b _ Hsb). cbn [snd] in *. lia.
    - f_equal. apply (CAbs_abs_bucket d r nx m' n Hca Hce). }
  apply Haux; auto.
Qed.

Theorem SReady_clean_struct : forall d keep b, is_dirty fuel0 b = false -> SClean d keep b -> SReady d keep b.
Proof.
  intros d keep b Hd HC. apply SReady_clean; [exact Hd| |].
  - inversion HC; subst. assumption.
  - intros m. apply (SClean_meaning_k (S (bdepth b)) d keep b); [lia | exact HC].
Qed.

(* ====================================================================== *)
(** * Summary

   - [modify_replace] / [b_modify_replace] / [meta_step_replace] / [meta_fold_replace]: writing a spilled sub-bucket's
     (root, next) into its parent replaces the entry in place ([patch]); the lookup finds the bucket entry (so neither
     the error nor the increment branch is taken), [b_next] is unchanged, and the root stays [Inv] + [RRdy], hence
     [root_ready] ([Inv_RRdy_root_ready]).  No [Exact] hypothesis is needed (it does not survive rebalance): the key
     is already in the view, so it is routed into a child whose bounds contain it.
   - [spill_bucket_meaning]: the result in the fuel-free relation [Mean] on the disk built from ANY later write
     set of the transaction; [Mean_abs_bucket] / [spill_bucket_abs_bucket] turn it into [abs_bucket] under
     [cpres] (the new tree is readable within the fuels of [abs_bucket]: [spill_root_view] bounds the height of
     the new tree only by lv + ndepth n + h with lv <= fuel0, so the bound is a hypothesis).
   - [commit_meaning]: the same for [commit]; the free-list run is disjoint from the new tree and the live pages.
   - [SReady_clean_struct]: a structural sufficient condition for the clean clause of [SReady]. *)

Print Assumptions modify_replace.
Print Assumptions b_modify_replace.
Print Assumptions meta_fold_replace.
Print Assumptions Inv_Rdy_spill_ready.
Print Assumptions Mean_abs_bucket.
Print Assumptions spill_bucket_meaning.
Print Assumptions spill_bucket_abs_bucket.
Print Assumptions commit_meaning.
Print Assumptions SReady_clean_struct.
Print Assumptions SpillExample.ex_spill_meaning.
