(* Header ("meta") pages: encode/decode round trip, and what a single damaged byte does to a slot. *)
From Coq Require Import List NArith Bool String Lia ZifyN ZifyBool.
From Coq.Strings Require Import Byte.
From Jamm Require Import Bytes Fnv Consts CLayout Meta BytesFacts FnvFacts.
Import ListNotations.
Local Open Scope string_scope. Local Open Scope list_scope. Local Open Scope N_scope.

Notation length := List.length.

Arguments N.add : simpl never.
Arguments N.mul : simpl never.
Arguments N.sub : simpl never.
Arguments N.div : simpl never.
Arguments N.modulo : simpl never.
Arguments N.pow : simpl never.

(* ------------------------------------------------------------------ *)
(** * The generated data is what the proofs below assume *)

Lemma hash_covers_all_fields :
  forallb field_hashed
    ["meta_page";"magic";"version";"pagesize";"root.root_page";"root.next_int";
     "num_pages";"freelist_page";"tx_id"]%string = true.
Proof. vm_compute. reflexivity. Qed.

Lemma stored_fields_pinned :
  CLayout.field_names "Meta" =
    ["meta_page";"magic";"version";"pagesize";"root.root_page";"root.next_int";
     "num_pages";"freelist_page";"tx_id";"hash"]%string.
Proof. vm_compute. reflexivity. Qed.

Print Assumptions hash_covers_all_fields.
Print Assumptions stored_fields_pinned.

Ltac offs :=
  unfold off_pg_id, off_pg_type, off_pg_count, off_pg_overflow, o_meta_page, o_magic, o_version,
         o_pagesize, o_root, o_next, o_np, o_fl, o_tx, o_hash, meta_end, type_meta in *.

Lemma pow256_4 : 256 ^ N.of_nat 4 = 2 ^ 32. Proof. reflexivity. Qed.
Lemma pow256_8 : 256 ^ N.of_nat 8 = 2 ^ 64. Proof. reflexivity. Qed.

(* ------------------------------------------------------------------ *)
(** * encode as a list of disjoint writes *)

Definition enc_list (m : meta) : list (N * bytes) :=
  [ (off_pg_id, le_enc 8 (m_page m));
    (off_pg_type, le_enc 1 type_meta);
    (o_meta_page, le_enc 4 (m_page m));
    (o_magic, le_enc 4 (m_magic m));
    (o_version, le_enc 4 (m_version m));
    (o_pagesize, le_enc 8 (m_psz m));
    (o_root, le_enc 8 (m_root m));
    (o_next, le_enc 8 (m_next m));
    (o_np, le_enc 8 (m_np m));
    (o_fl, le_enc 8 (m_fl m));
    (o_tx, le_enc 8 (m_tx m));
    (o_hash, le_enc 8 (m_hash m)) ].

Lemma encode_eq P m : encode_meta_page P m = puts (enc_list m) (zeros (N.to_nat P)).
Proof. reflexivity. Qed.

Lemma enc_fits P m : meta_end <= P -> Forall (fits (length (zeros (N.to_nat P)))) (enc_list m).
Proof.
  intros HP. rewrite zeros_length. unfold enc_list.
  repeat (apply Forall_cons; [unfold fits; cbn [fst snd]; rewrite le_enc_length; offs; lia|]).
  apply Forall_nil.
Qed.

Lemma encode_length P m : meta_end <= P -> length (encode_meta_page P m) = N.to_nat P.
Proof.
  intros HP. rewrite encode_eq, puts_length by now apply enc_fits. apply zeros_length.
Qed.

Lemma Some_pair_inv {A B} (a c : A) (b d : B) : Some (a, b) = Some (c, d) -> a = c /\ b = d.
Proof. intros H. split; congruence. Qed.

Lemma enc_slice P m j o v :
  meta_end <= P -> nth_error (enc_list m) j = Some (o, v) ->
  slice (encode_meta_page P m) o (N.of_nat (length v)) = Some v.
Proof.
  intros HP Hj. rewrite encode_eq.
  eapply slice_puts_nth; [now apply enc_fits | exact Hj |].
  unfold enc_list in *.
  do 12 (destruct j as [|j];
    [ cbn [nth_error] in Hj; apply Some_pair_inv in Hj; destruct Hj as [<- <-]; cbn [skipn];
      repeat (apply Forall_cons; [unfold apart; cbn [fst snd]; rewrite ?le_enc_length; offs; lia|]);
      apply Forall_nil | ]).
  cbn [nth_error] in Hj. destruct j; discriminate.
Qed.

Section Slices.
  Variables (P : N) (m : meta).
  Hypothesis HP : meta_end <= P.
  Let pg := encode_meta_page P m.

  Lemma sl_type : slice pg off_pg_type 1 = Some (le_enc 1 type_meta).
  Proof. exact (enc_slice P m 1 _ _ HP eq_refl). Qed.
  Lemma sl_page : slice pg o_meta_page 4 = Some (le_enc 4 (m_page m)).
  Proof. exact (enc_slice P m 2 _ _ HP eq_refl). Qed.
  Lemma sl_magic : slice pg o_magic 4 = Some (le_enc 4 (m_magic m)).
  Proof. exact (enc_slice P m 3 _ _ HP eq_refl). Qed.
  Lemma sl_version : slice pg o_version 4 = Some (le_enc 4 (m_version m)).
  Proof. exact (enc_slice P m 4 _ _ HP eq_refl). Qed.
  Lemma sl_psz : slice pg o_pagesize 8 = Some (le_enc 8 (m_psz m)).
  Proof. exact (enc_slice P m 5 _ _ HP eq_refl). Qed.
  Lemma sl_root : slice pg o_root 8 = Some (le_enc 8 (m_root m)).
  Proof. exact (enc_slice P m 6 _ _ HP eq_refl). Qed.
  Lemma sl_next : slice pg o_next 8 = Some (le_enc 8 (m_next m)).
  Proof. exact (enc_slice P m 7 _ _ HP eq_refl). Qed.
  Lemma sl_np : slice pg o_np 8 = Some (le_enc 8 (m_np m)).
  Proof. exact (enc_slice P m 8 _ _ HP eq_refl). Qed.
  Lemma sl_fl : slice pg o_fl 8 = Some (le_enc 8 (m_fl m)).
  Proof. exact (enc_slice P m 9 _ _ HP eq_refl). Qed.
  Lemma sl_tx : slice pg o_tx 8 = Some (le_enc 8 (m_tx m)).
  Proof. exact (enc_slice P m 10 _ _ HP eq_refl). Qed.
  Lemma sl_hash : slice pg o_hash 8 = Some (le_enc 8 (m_hash m)).
  Proof. exact (enc_slice P m 11 _ _ HP eq_refl). Qed.
End Slices.

(* ------------------------------------------------------------------ *)
(** * reading a slot from its eleven windows *)

Lemma read_slot_slices pg st sa sb sc sd se sf sg sh si sj :
  slice pg off_pg_type 1 = Some st ->
  slice pg o_meta_page 4 = Some sa -> slice pg o_magic 4 = Some sb -> slice pg o_version 4 = Some sc ->
  slice pg o_pagesize 8 = Some sd -> slice pg o_root 8 = Some se -> slice pg o_next 8 = Some sf ->
  slice pg o_np 8 = Some sg -> slice pg o_fl 8 = Some sh -> slice pg o_tx 8 = Some si ->
  slice pg o_hash 8 = Some sj ->
  page_type_of pg = Some (le_dec st) /\
  decode_meta pg =
    Some (mkMeta (le_dec sa) (le_dec sb) (le_dec sc) (le_dec sd) (le_dec se) (le_dec sf)
                 (le_dec sg) (le_dec sh) (le_dec si) (le_dec sj)).
Proof.
  intros Ht Ha Hb Hc Hd He Hf Hg Hh Hi Hj.
  unfold page_type_of, decode_meta, rd_le.
  change (N.of_nat 1) with 1. change (N.of_nat 4) with 4. change (N.of_nat 8) with 8.
  rewrite Ht, Ha, Hb, Hc, Hd, He, Hf, Hg, Hh, Hi, Hj. cbn [option_map]. split; reflexivity.
Qed.

Lemma read_slot_decoded ct pg t m :
  page_type_of pg = Some t -> decode_meta pg = Some m ->
  read_slot ct pg =
    if t =? type_meta then (if meta_valid m then SlotValid m else SlotInvalid)
    else if ct then SlotInvalid else SlotPanic.
Proof. intros Ht Hm. unfold read_slot. now rewrite Ht, Hm. Qed.

Lemma type_byte : le_dec (le_enc 1 type_meta) = type_meta.
Proof. vm_compute. reflexivity. Qed.

Record wfb (m : meta) : Prop := {
  wb_page : m_page m < 256 ^ N.of_nat 4; wb_magic : m_magic m < 256 ^ N.of_nat 4;
  wb_version : m_version m < 256 ^ N.of_nat 4; wb_psz : m_psz m < 256 ^ N.of_nat 8;
  wb_root : m_root m < 256 ^ N.of_nat 8; wb_next : m_next m < 256 ^ N.of_nat 8;
  wb_np : m_np m < 256 ^ N.of_nat 8; wb_fl : m_fl m < 256 ^ N.of_nat 8;
  wb_tx : m_tx m < 256 ^ N.of_nat 8; wb_hash : m_hash m < 256 ^ N.of_nat 8 }.

Lemma wf_wfb m : meta_wf m -> wfb m.
Proof.
  unfold meta_wf. rewrite <- pow256_4, <- pow256_8. intros (?&?&?&?&?&?&?&?&?&?).
  constructor; assumption.
Qed.

(* ------------------------------------------------------------------ *)
(** * round trip *)

Lemma encode_decoded P m :
  meta_wf m -> meta_end <= P ->
  page_type_of (encode_meta_page P m) = Some type_meta /\
  decode_meta (encode_meta_page P m) = Some m.
Proof.
  intros WF HP. apply wf_wfb in WF. destruct WF.
  destruct (read_slot_slices _ _ _ _ _ _ _ _ _ _ _ _
    (sl_type P m HP) (sl_page P m HP) (sl_magic P m HP) (sl_version P m HP) (sl_psz P m HP)
    (sl_root P m HP) (sl_next P m HP) (sl_np P m HP) (sl_fl P m HP) (sl_tx P m HP) (sl_hash P m HP))
    as [Ht Hm].
  rewrite Ht, Hm, type_byte, !le_dec_enc_small by assumption.
  destruct m; split; reflexivity.
Qed.

Theorem decode_encode_meta : forall P m,
  meta_wf m -> meta_end <= P -> decode_meta (encode_meta_page P m) = Some m.
Proof. intros P m WF HP. now apply encode_decoded. Qed.
Print Assumptions decode_encode_meta.

Theorem page_type_encode : forall P m,
  meta_end <= P -> page_type_of (encode_meta_page P m) = Some Consts.type_meta.
Proof.
  intros P m HP. unfold page_type_of, rd_le. change (N.of_nat 1) with 1.
  rewrite (sl_type P m HP). cbn [option_map]. now rewrite type_byte.
Qed.
Print Assumptions page_type_encode.

(* ------------------------------------------------------------------ *)
(** * the checksum field *)

Lemma hash_input_eq m : hash_input m =
  be_enc 4 (m_page m) ++ be_enc 4 (m_magic m) ++ be_enc 4 (m_version m) ++ be_enc 8 (m_psz m) ++
  be_enc 8 (m_root m) ++ be_enc 8 (m_next m) ++ be_enc 8 (m_np m) ++ be_enc 8 (m_fl m) ++
  be_enc 8 (m_tx m) ++ [].
Proof. reflexivity. Qed.

Lemma meta_hash_with_hash m : meta_hash (with_hash m) = meta_hash m.
Proof. unfold meta_hash. rewrite !hash_input_eq. reflexivity. Qed.

Lemma meta_hash_lt m : meta_hash m < 2 ^ 64.
Proof. unfold meta_hash. rewrite <- two64_pow. apply fnv_lt. Qed.

Lemma with_hash_wf m : meta_wf m -> meta_wf (with_hash m).
Proof.
  unfold meta_wf, with_hash. cbn [m_page m_magic m_version m_psz m_root m_next m_np m_fl m_tx m_hash].
  intros (H1&H2&H3&H4&H5&H6&H7&H8&H9&_).
  pose proof (meta_hash_lt m) as H10.
  exact (conj H1 (conj H2 (conj H3 (conj H4 (conj H5 (conj H6 (conj H7 (conj H8 (conj H9 H10))))))))).
Qed.

Lemma with_hash_valid m : meta_valid (with_hash m) = true.
Proof. unfold meta_valid. rewrite meta_hash_with_hash. cbn [with_hash m_hash]. apply N.eqb_refl. Qed.

Lemma read_slot_encode_valid ct P m :
  meta_wf m -> meta_valid m = true -> meta_end <= P ->
  read_slot ct (encode_meta_page P m) = SlotValid m.
Proof.
  intros WF V HP. destruct (encode_decoded P m WF HP) as [Ht Hm].
  rewrite (read_slot_decoded ct _ _ _ Ht Hm), N.eqb_refl, V. reflexivity.
Qed.

Theorem read_slot_encode : forall ct P m,
  meta_wf m -> meta_end <= P ->
  read_slot ct (encode_meta_page P (with_hash m)) = SlotValid (with_hash m).
Proof.
  intros ct P m WF HP. apply read_slot_encode_valid; [now apply with_hash_wf | apply with_hash_valid | exact HP].
Qed.
Print Assumptions read_slot_encode.

(* ------------------------------------------------------------------ *)
(** * damage: one overwritten byte *)

Lemma damage_length pg off b : (N.to_nat off < length pg)%nat -> length (damage pg off b) = length pg.
Proof. intros H. unfold damage. apply splice_length. cbn [length]. lia. Qed.

Lemma slice_damage_other pg off b o n :
  (N.to_nat off < length pg)%nat -> off < o \/ o + n <= off ->
  slice (damage pg off b) o n = slice pg o n.
Proof.
  intros H D. unfold damage. apply slice_splice_other; cbn [length]; lia.
Qed.

Lemma slice_damage_in pg off b o n s :
  (N.to_nat off < length pg)%nat -> slice pg o n = Some s -> o <= off -> off < o + n ->
  slice (damage pg off b) o n = Some (damage s (off - o) b).
Proof.
  intros H Hs H1 H2. unfold damage. apply slice_splice_inside; cbn [length]; try lia. exact Hs.
Qed.

(* damaging byte k of the n-byte little-endian image of v *)
Section FieldDamage.
  Variables (n : nat) (v : N) (k : N) (b : byte).
  Hypothesis Hk : (N.to_nat k < n)%nat.
  Hypothesis Hb : nth_error (le_enc n v) (N.to_nat k) <> Some b.

  Lemma field_damage_split :
    exists p x s, le_enc n v = p ++ x :: s /\ damage (le_enc n v) k b = p ++ b :: s /\ x <> b.
  Proof.
    destruct (nth_error (le_enc n v) (N.to_nat k)) as [x|] eqn:E.
    - destruct (splice1_split _ _ b _ E) as [E1 E2]. rewrite N2Nat.id in E2.
      exists (firstn (N.to_nat k) (le_enc n v)), x, (skipn (S (N.to_nat k)) (le_enc n v)).
      split; [exact E1|]. split; [exact E2|]. congruence.
    - apply nth_error_None in E. rewrite le_enc_length in E. lia.
  Qed.

  Lemma field_damage_length : length (damage (le_enc n v) k b) = n.
  Proof. rewrite damage_length; rewrite le_enc_length; [reflexivity|exact Hk]. Qed.

  Lemma field_damage_be :
    one_diff (be_enc n v) (be_enc n (le_dec (damage (le_enc n v) k b))).
  Proof.
    pose proof field_damage_length as L.
    rewrite <- L at 2. rewrite be_enc_le_dec. unfold be_enc.
    destruct field_damage_split as (p & x & s & -> & -> & NE).
    exists (rev s), x, b, (rev p).
    rewrite !rev_app_distr. cbn [rev]. rewrite <- !app_assoc. cbn [app]. auto.
  Qed.

  Lemma field_damage_neq : le_dec (damage (le_enc n v) k b) <> le_dec (le_enc n v).
  Proof.
    intros E. apply le_dec_inj in E; [|now rewrite field_damage_length, le_enc_length].
    destruct field_damage_split as (p & x & s & E1 & E2 & NE).
    rewrite E2 in E. rewrite E1 in E. apply app_inv_head in E. congruence.
  Qed.
End FieldDamage.

(* ------------------------------------------------------------------ *)
(** * the checksum sees every hashed field *)

Lemma fnv_one_diff_pre (As : list bytes) B X X' :
  one_diff X X' -> fnv (fold_right (@app byte) (X ++ B) As) <> fnv (fold_right (@app byte) (X' ++ B) As).
Proof.
  intros H.
  assert (K : forall Z, fold_right (@app byte) Z As = List.concat As ++ Z).
  { intros Z. induction As as [|A As' IH]; cbn [fold_right List.concat app]; [reflexivity|].
    now rewrite IH, app_assoc. }
  rewrite !K. now apply fnv_one_diff.
Qed.

Section HashFields.
  Variables a b c d e f g h i j j' : N.

  Ltac mh As :=
    let H := fresh in
    intros H; unfold meta_hash; rewrite !hash_input_eq;
    cbn [m_page m_magic m_version m_psz m_root m_next m_np m_fl m_tx m_hash];
    refine (not_eq_sym (fnv_one_diff_pre As _ _ _ H)).

  Lemma mh_page x : one_diff (be_enc 4 a) (be_enc 4 x) ->
    meta_hash (mkMeta x b c d e f g h i j') <> meta_hash (mkMeta a b c d e f g h i j).
  Proof. mh (@nil bytes). Qed.
  Lemma mh_magic x : one_diff (be_enc 4 b) (be_enc 4 x) ->
    meta_hash (mkMeta a x c d e f g h i j') <> meta_hash (mkMeta a b c d e f g h i j).
  Proof. mh [be_enc 4 a]. Qed.
  Lemma mh_version x : one_diff (be_enc 4 c) (be_enc 4 x) ->
    meta_hash (mkMeta a b x d e f g h i j') <> meta_hash (mkMeta a b c d e f g h i j).
  Proof. mh [be_enc 4 a; be_enc 4 b]. Qed.
  Lemma mh_psz x : one_diff (be_enc 8 d) (be_enc 8 x) ->
    meta_hash (mkMeta a b c x e f g h i j') <> meta_hash (mkMeta a b c d e f g h i j).
  Proof. mh [be_enc 4 a; be_enc 4 b; be_enc 4 c]. Qed.
  Lemma mh_root x : one_diff (be_enc 8 e) (be_enc 8 x) ->
    meta_hash (mkMeta a b c d x f g h i j') <> meta_hash (mkMeta a b c d e f g h i j).
  Proof. mh [be_enc 4 a; be_enc 4 b; be_enc 4 c; be_enc 8 d]. Qed.
  Lemma mh_next x : one_diff (be_enc 8 f) (be_enc 8 x) ->
    meta_hash (mkMeta a b c d e x g h i j') <> meta_hash (mkMeta a b c d e f g h i j).
  Proof. mh [be_enc 4 a; be_enc 4 b; be_enc 4 c; be_enc 8 d; be_enc 8 e]. Qed.
  Lemma mh_np x : one_diff (be_enc 8 g) (be_enc 8 x) ->
    meta_hash (mkMeta a b c d e f x h i j') <> meta_hash (mkMeta a b c d e f g h i j).
  Proof. mh [be_enc 4 a; be_enc 4 b; be_enc 4 c; be_enc 8 d; be_enc 8 e; be_enc 8 f]. Qed.
  Lemma mh_fl x : one_diff (be_enc 8 h) (be_enc 8 x) ->
    meta_hash (mkMeta a b c d e f g x i j') <> meta_hash (mkMeta a b c d e f g h i j).
  Proof. mh [be_enc 4 a; be_enc 4 b; be_enc 4 c; be_enc 8 d; be_enc 8 e; be_enc 8 f; be_enc 8 g]. Qed.
  Lemma mh_tx x : one_diff (be_enc 8 i) (be_enc 8 x) ->
    meta_hash (mkMeta a b c d e f g h x j') <> meta_hash (mkMeta a b c d e f g h i j).
  Proof. mh [be_enc 4 a; be_enc 4 b; be_enc 4 c; be_enc 8 d; be_enc 8 e; be_enc 8 f; be_enc 8 g; be_enc 8 h]. Qed.
  Lemma mh_hash : meta_hash (mkMeta a b c d e f g h i j') = meta_hash (mkMeta a b c d e f g h i j).
  Proof. unfold meta_hash. rewrite !hash_input_eq. reflexivity. Qed.
End HashFields.

(* ------------------------------------------------------------------ *)
(** * MAIN: single-byte damage *)

Lemma significant_spec ct off :
  significant ct off = true <->
  ((ct = true /\ off = 8) \/ (32 <= off /\ off < 44) \/ (48 <= off /\ off < 104)).
Proof.
  unfold significant.
  repeat match goal with |- context[field_hashed ?s] =>
    replace (field_hashed s) with true by (vm_compute; reflexivity) end.
  cbn [andb]. unfold in_range. offs. destruct ct; cbn [andb orb]; lia.
Qed.

Lemma significant_false ct off :
  significant ct off = false <->
  (~ (ct = true /\ off = 8) /\ ~ (32 <= off /\ off < 44) /\ ~ (48 <= off /\ off < 104)).
Proof.
  rewrite <- not_true_iff_false, significant_spec. tauto.
Qed.

Ltac dslice :=
  first [ rewrite slice_damage_other by (assumption || (offs; lia)); eassumption
        | eapply slice_damage_in; [assumption | eassumption | offs; lia | offs; lia] ].

Ltac open_slot ct :=
  match goal with |- read_slot _ ?pg' = _ =>
    let Ht := fresh "Ht" in let Hm := fresh "Hm" in
    edestruct (read_slot_slices pg') as [Ht Hm];
    [ dslice .. | rewrite (read_slot_decoded ct pg' _ _ Ht Hm); clear Ht Hm ]
  end.

Ltac hashed_case ct o n Sx mh V Hb :=
  open_slot ct;
  rewrite ?type_byte, ?le_dec_enc_small by assumption;
  rewrite (nth_error_in_slice _ o (N.of_nat n) _ _ Sx) in Hb by (offs; lia);
  rewrite N.eqb_refl; unfold meta_valid; cbn [m_hash];
  match goal with |- _ = (if significant ?c ?off then _ else _) =>
    replace (significant c off) with true by (symmetry; apply significant_spec; lia)
  end;
  let E := fresh "E" in
  match goal with |- (if ?x =? ?y then _ else _) = _ =>
    destruct (N.eqb_spec x y) as [E|E]; [exfalso|reflexivity]
  end;
  rewrite V in E; symmetry in E; revert E; apply mh; apply field_damage_be; [offs; lia|exact Hb].

Theorem damage_one_byte_valid ct P m off b :
  meta_wf m -> meta_valid m = true -> meta_end <= P -> off < P ->
  let pg := encode_meta_page P m in
  nth_error pg (N.to_nat off) <> Some b ->
  read_slot ct (damage pg off b) =
    if significant ct off then SlotInvalid
    else if off =? off_pg_type then SlotPanic else SlotValid m.
Proof.
  intros WF V HP Hoff.
  pose proof (wf_wfb m WF) as [B1 B2 B3 B4 B5 B6 B7 B8 B9 B10].
  pose proof (sl_type P m HP) as St. pose proof (sl_page P m HP) as Sa.
  pose proof (sl_magic P m HP) as Sb. pose proof (sl_version P m HP) as Sc.
  pose proof (sl_psz P m HP) as Sd. pose proof (sl_root P m HP) as Se.
  pose proof (sl_next P m HP) as Sf. pose proof (sl_np P m HP) as Sg.
  pose proof (sl_fl P m HP) as Sh. pose proof (sl_tx P m HP) as Si.
  pose proof (sl_hash P m HP) as Sj.
  pose proof (encode_length P m HP) as L0.
  unfold meta_valid in V. apply N.eqb_eq in V.
  destruct m as [a b0 c d e f g h i j].
  cbn [m_page m_magic m_version m_psz m_root m_next m_np m_fl m_tx m_hash] in *.
  set (pg := encode_meta_page P _) in *. intros Hb.
  assert (L : (N.to_nat off < length pg)%nat) by lia.
  clearbody pg.
  assert (C : off = 8 \/ (32 <= off /\ off < 36) \/ (36 <= off /\ off < 40) \/ (40 <= off /\ off < 44) \/
              (48 <= off /\ off < 56) \/ (56 <= off /\ off < 64) \/ (64 <= off /\ off < 72) \/
              (72 <= off /\ off < 80) \/ (80 <= off /\ off < 88) \/ (88 <= off /\ off < 96) \/
              (96 <= off /\ off < 104) \/
              (off <> 8 /\ ~ (32 <= off /\ off < 44) /\ ~ (48 <= off /\ off < 104))) by lia.
  destruct C as [C|[C|[C|[C|[C|[C|[C|[C|[C|[C|[C|C]]]]]]]]]]].
  - (* the page-type byte *)
    open_slot ct.
    rewrite ?type_byte, ?le_dec_enc_small by assumption.
    rewrite (nth_error_in_slice pg off_pg_type 1 _ off St) in Hb by (offs; lia).
    destruct (N.eqb_spec (le_dec (damage (le_enc 1 type_meta) (off - off_pg_type) b)) type_meta) as [E|E].
    + exfalso. rewrite <- type_byte in E at 2. revert E. apply field_damage_neq; [offs; lia|exact Hb].
    + destruct ct.
      * replace (significant true off) with true by (symmetry; apply significant_spec; lia). reflexivity.
      * replace (significant false off) with false by (symmetry; apply significant_false; lia).
        replace (off =? off_pg_type) with true by (symmetry; apply N.eqb_eq; offs; lia). reflexivity.
  - hashed_case ct o_meta_page 4%nat Sa mh_page V Hb.
  - hashed_case ct o_magic 4%nat Sb mh_magic V Hb.
  - hashed_case ct o_version 4%nat Sc mh_version V Hb.
  - hashed_case ct o_pagesize 8%nat Sd mh_psz V Hb.
  - hashed_case ct o_root 8%nat Se mh_root V Hb.
  - hashed_case ct o_next 8%nat Sf mh_next V Hb.
  - hashed_case ct o_np 8%nat Sg mh_np V Hb.
  - hashed_case ct o_fl 8%nat Sh mh_fl V Hb.
  - hashed_case ct o_tx 8%nat Si mh_tx V Hb.
  - (* the stored checksum *)
    open_slot ct.
    rewrite ?type_byte, ?le_dec_enc_small by assumption.
    rewrite (nth_error_in_slice pg o_hash 8 _ off Sj) in Hb by (offs; lia).
    rewrite N.eqb_refl. unfold meta_valid. cbn [m_hash].
    replace (significant ct off) with true by (symmetry; apply significant_spec; lia).
    match goal with |- (if ?x =? ?y then _ else _) = _ => destruct (N.eqb_spec x y) as [E|E] end;
      [exfalso|reflexivity].
    rewrite (mh_hash a b0 c d e f g h i j) in E. rewrite <- V in E.
    rewrite <- (le_dec_enc_small 8 j B10) in E at 2. revert E.
    apply field_damage_neq; [offs; lia|exact Hb].
  - (* anywhere else *)
    open_slot ct.
    rewrite ?type_byte, ?le_dec_enc_small by assumption.
    rewrite N.eqb_refl. unfold meta_valid. rewrite <- V. cbn [m_hash]. rewrite N.eqb_refl.
    replace (significant ct off) with false by (symmetry; apply significant_false; lia).
    replace (off =? off_pg_type) with false by (symmetry; apply N.eqb_neq; offs; lia). reflexivity.
Qed.
Print Assumptions damage_one_byte_valid.

Theorem damage_one_byte : forall ct P m off b,
  meta_wf m -> meta_end <= P -> off < P ->
  let pg := encode_meta_page P (with_hash m) in
  nth_error pg (N.to_nat off) <> Some b ->
  read_slot ct (damage pg off b) =
    if significant ct off then SlotInvalid
    else if (off =? off_pg_type) then SlotPanic
    else SlotValid (with_hash m).
Proof.
  intros ct P m off b WF HP Hoff pg Hb.
  apply damage_one_byte_valid; auto using with_hash_wf, with_hash_valid.
Qed.
Print Assumptions damage_one_byte.

Lemma significant_true_type off : significant true off = false -> (off =? off_pg_type) = false.
Proof.
  intros H. apply significant_false in H. apply N.eqb_neq. offs. intros ->. tauto.
Qed.

Lemma with_hash_psz m : m_psz (with_hash m) = m_psz m.
Proof. reflexivity. Qed.

Theorem open_after_damage : forall P m0 m1 (slot : bool) off b,
  meta_wf m0 -> meta_wf m1 -> meta_end <= P -> off < P -> m_psz m0 = P -> m_psz m1 = P ->
  let pg0 := encode_meta_page P (with_hash m0) in let pg1 := encode_meta_page P (with_hash m1) in
  let d := fun pg => damage pg off b in
  nth_error (if slot then pg1 else pg0) (N.to_nat off) <> Some b ->
  select_slots P (read_slot true (if slot then pg0 else d pg0)) (read_slot true (if slot then d pg1 else pg1)) =
    if significant true off then SelMeta (with_hash (if slot then m0 else m1))
    else select_slots P (SlotValid (with_hash m0)) (SlotValid (with_hash m1)).
Proof.
  intros P m0 m1 slot off b WF0 WF1 HP Hoff P0 P1 pg0 pg1 d Hb.
  destruct slot; unfold d.
  - unfold pg0 at 1. rewrite (read_slot_encode true P m0 WF0 HP).
    unfold pg1. rewrite (damage_one_byte true P m1 off b WF1 HP Hoff Hb).
    destruct (significant true off) eqn:S.
    + cbn [select_slots]. rewrite with_hash_psz, P0, N.eqb_refl. reflexivity.
    + now rewrite (significant_true_type off S).
  - unfold pg1 at 1. rewrite (read_slot_encode true P m1 WF1 HP).
    unfold pg0. rewrite (damage_one_byte true P m0 off b WF0 HP Hoff Hb).
    destruct (significant true off) eqn:S.
    + cbn [select_slots]. rewrite with_hash_psz, P1, N.eqb_refl. reflexivity.
    + now rewrite (significant_true_type off S).
Qed.
Print Assumptions open_after_damage.
