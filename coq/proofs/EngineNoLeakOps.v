(* The operations of a transaction establish the completeness invariant [Cov]: whatever part of the committed
   footprint the overlay no longer refers to was handed back (delete_bucket frees the WHOLE footprint of the
   deleted bucket). Mirror of EngineOwnOps. *)
From Coq Require Import List NArith Bool Arith Lia ZifyN ZifyNat ZifyBool Permutation.
From Coq.Strings Require Import Byte.
From Jamm Require Spec.
From Jamm Require Import Bytes BytesFacts Tree Cursor SearchFacts Engine EngineAbs EngineFacts EngineMergeFacts.
From Jamm Require Import EngineModifyFacts EngineSpillFacts EnginePathFacts EngineBridgeFacts EngineRebalanceFacts.
From Jamm Require FreelistFacts EngineAllocFacts EngineSpillWfFacts.
From Jamm Require Import EngineTxInvFacts EngineSpillBucketFacts EngineRefines.
From Jamm Require Import EngineOwnDefs EngineOwnWr EngineOwnOps EngineOwnReb EngineOwnSpill.
From Jamm Require Import EngineNoLeakFree EngineNoLeakWr EngineNoLeakNode EngineNoLeakCov.
Import ListNotations.
Import Coq.Strings.String.StringSyntax. Delimit Scope string_scope with string.
Local Open Scope list_scope. Local Open Scope nat_scope.
Set Warnings "-abstract-large-number".
Arguments N.add : simpl never. Arguments N.sub : simpl never. Arguments N.mul : simpl never.
Arguments N.div : simpl never. Arguments N.ltb : simpl never. Arguments N.leb : simpl never.
Arguments N.eqb : simpl never.

Section OpsCov.
Variables (d : disk) (R : list N).
Hypothesis HCR : closedR d R.
Hypothesis Hnz : forall x, In x R -> x <> 0%N.

Lemma gone_mono : forall s s2 q, (forall x, freed_in_tx s x = true -> freed_in_tx s2 x = true) -> gone d s q -> gone d s2 q.
Proof. intros s s2 q Hm H x Hx. apply Hm, H, Hx. Qed.

(* the result of [b_modify] on the tree of [b] (possibly after more pages were freed, with a new counter and a
   new list of opened sub-buckets) *)
Lemma Cov_modified : forall n s b r0 h l o s1 b1 b2 s2 nx' subs',
  Cov d (S n) s b r0 -> BLoc d s1 b1 h l -> b_root_page b1 = b_root_page b -> b_rootn b1 = b_rootn b ->
  root_in d R b -> bpg_ok d b ->
  b_modify d b1 o s1 = Ok (b2, s2) ->
  (forall x, freed_in_tx s x = true -> freed_in_tx s1 x = true) ->
  (forall k r nx, In (LBk k r nx) l ->
     In (LBk k r nx) (apply_lop o l) \/ forall x, In x (foot d n r) -> freed_in_tx s1 x = true) ->
  (forall k sb r nx, In (k, sb) subs' -> In (LBk k r nx) (apply_lop o l) -> Cov d n s1 sb r) ->
  Cov d (S n) s2 (Bucket (b_root_page b2) nx' true (b_rootn b2) subs') r0.
Proof.
  intros n s b r0 h l o s1 b1 b2 s2 nx' subs' HCv HL E1 E2 HR Hpg Hm Hfr Hent Hsub.
  assert (Hv : bucket_view d b l) by (eapply (bucket_view_tree d b1); eauto using BLoc_view).
  rewrite Cov_S in HCv. destruct (HCv l Hv) as (A & B & C).
  destruct (b_modify_BLoc _ _ _ _ _ _ _ _ HL Hm) as (HL' & _ & Hr & _ & _ & _ & Hss).
  assert (Hpg1 : bpg_ok d b1) by (unfold bpg_ok in *; now rewrite E2).
  assert (Hnz1 : b_rootn b1 = None -> b_root_page b1 <> 0%N).
  { rewrite E1, E2. now apply (root_in_nz d R Hnz). }
  destruct (b_modify_heads _ _ _ _ _ _ _ _ HL Hnz1 Hpg1 Hm) as [Hhd Hpg2].
  rewrite (bheads_tree d b b1 E1 E2) in Hhd.
  set (B' := Bucket (b_root_page b2) nx' true (b_rootn b2) subs').
  assert (Hhd' : bheads d B' = bheads d b) by (rewrite <- Hhd; now apply bheads_tree).
  assert (Hfr2 : forall x, freed_in_tx s1 x = true -> freed_in_tx s2 x = true).
  { intros x Hx. now rewrite (sbs_freed _ _ x Hss). }
  rewrite Cov_S. intros l' Hv'.
  assert (El : l' = apply_lop o l).
  { eapply bucket_view_det; [exact Hv'|]. eapply (bucket_view_tree d b2); [reflexivity | reflexivity | eapply BLoc_view; eauto]. }
  subst l'. rewrite Hhd'. split; [|split].
  - intros Hr0 q Hq. destruct (A Hr0 q Hq) as [X|X]; [now left | right]. eapply gone_mono; [|exact X]. auto.
  - intros Hr0 k r nx He. destruct (B Hr0 k r nx He) as [X|X].
    + destruct (Hent k r nx X) as [Y|Y]; [now left | right; intros x Hx; apply Hfr2, Y, Hx].
    + right. intros x Hx. apply Hfr2, Hfr, X, Hx.
  - intros k sb r nx Hk He. cbn [B' b_subs] in Hk. eapply Cov_mono; [exact Hfr2 | eapply Hsub; eauto].
Qed.

(* the contract of an operation applied at the end of a path *)
Definition cov_pres (f : bucket -> txs -> res (bucket * txs)) : Prop :=
  forall n k b s b' s' r0, 2 <= n -> 2 <= k -> SDeep d s b -> XDF d R k b -> OwnS d n s b r0 -> pend_ids_ok s ->
    Cov d n s b r0 -> f b s = Ok (b', s') ->
    Cov d n s' b' r0 /\ (forall x, freed_in_tx s x = true -> freed_in_tx s' x = true).

(* an operation on a plain key *)
Lemma kvop_cov : forall n s b r0 h l o b2 s2 nx', Cov d (S n) s b r0 -> OwnS d (S n) s b r0 -> BLoc d s b h l -> root_in d R b ->
  (forall k r nx, o <> OpIns (LBk k r nx)) -> (forall r nx, ~ In (LBk (lop_key o) r nx) l) ->
  b_modify d b o s = Ok (b2, s2) ->
  Cov d (S n) s2 (Bucket (b_root_page b2) nx' true (b_rootn b2) (b_subs b)) r0.
Proof.
  intros n s b r0 h l o b2 s2 nx' HCv HO HL HR Hno Hnk Hm.
  pose proof (BLoc_sorted _ _ _ _ _ HL) as Hs. pose proof (BLoc_view _ _ _ _ _ HL) as Hv.
  destruct (OwnS_inv _ _ _ _ _ _ HO Hv) as (_ & _ & _ & H3 & _).
  pose proof HCv as HCv0. rewrite Cov_S in HCv0. destruct (HCv0 l Hv) as (_ & _ & C).
  apply (Cov_modified n s b r0 h l o s b b2 s2 nx' (b_subs b) HCv HL eq_refl eq_refl HR H3 Hm); [auto | |].
  - intros k r nx He. left. apply ent_kept; [exact Hs | exact He|]. intros ->. eapply Hnk; eauto.
  - intros k sb r nx Hk He. apply apply_lop_In' in He. destruct He as [He|He]; [eapply C; eauto | exfalso; eapply Hno; eauto].
Qed.

Lemma cov_unchanged : forall n (b : bucket) (s : txs) r0, Cov d n s b r0 ->
  Cov d n s b r0 /\ (forall x, freed_in_tx s x = true -> freed_in_tx s x = true).
Proof. intros. auto. Qed.

Theorem put_cov : forall k v, cov_pres (fun b s => soft (b, s) (b_put d b k v s)).
Proof.
  intros k v n kk b s b' s' r0 Hn Hkk HD HX HO Hp HCv H. cbn beta in H. destruct (SDeep_inv _ _ _ HD) as (h & l & HL & HS).
  apply soft_ok_inv in H. destruct H as [H | [E _]]; [|inversion E; subst; now apply cov_unchanged].
  destruct (XDF_inv _ _ _ _ _ _ _ HX HL) as (f' & _ & HR & _).
  destruct (OwnS_pos _ _ _ _ _ HO) as [n' ->]. pose proof (BLoc_sorted _ _ _ _ _ HL) as Hs.
  unfold b_put in H. rewrite (BLoc_lookup _ _ _ _ _ k HL) in H. cbn [bind] in H.
  assert (Hno : forall k0 r nx, OpIns (LKv k v) <> OpIns (LBk k0 r nx)) by (intros; discriminate).
  destruct (Spec.alookup k (assoc l)) as [[k0 v0|k0 r nx]|] eqn:Hal; cbn [is_kv] in H; try discriminate.
  - destruct (b_modify_BLoc _ _ _ _ _ _ _ _ HL H) as (_ & _ & _ & _ & Hsb & Hd & Hss).
    pose proof (kvop_cov n' s b r0 h l _ b' s' (b_next b') HCv HO HL HR Hno) as HK. cbn [lop_key lkey] in HK.
    specialize (HK (no_LBk_of_lookup l k Hs ltac:(intros; rewrite Hal; discriminate)) H).
    destruct b' as [r' nx' dt' rn' sbs']. cbn [b_dirty b_subs b_root_page b_rootn b_next] in *. subst dt' sbs'.
    split; [exact HK|]. intros x Hx. now rewrite (sbs_freed _ _ x Hss).
  - apply bind_ok_inv in H. destruct H as ([b2 s2] & Hm & H). inversion H; subst b' s'. clear H.
    destruct (b_modify_BLoc _ _ _ _ _ _ _ _ HL Hm) as (_ & _ & _ & _ & Hsb & Hd & Hss).
    pose proof (kvop_cov n' s b r0 h l _ b2 s2 (b_next b2 + 1)%N HCv HO HL HR Hno) as HK. cbn [lop_key lkey] in HK.
    specialize (HK (no_LBk_of_lookup l k Hs ltac:(intros; rewrite Hal; discriminate)) Hm). rewrite Hsb.
    split; [exact HK|]. intros x Hx. now rewrite (sbs_freed _ _ x Hss).
Qed.

Theorem del_cov : forall k, cov_pres (fun b s => soft (b, s) (b_delete d b k s)).
Proof.
  intros k n kk b s b' s' r0 Hn Hkk HD HX HO Hp HCv H. cbn beta in H. destruct (SDeep_inv _ _ _ HD) as (h & l & HL & HS).
  apply soft_ok_inv in H. destruct H as [H | [E _]]; [|inversion E; subst; now apply cov_unchanged].
  destruct (XDF_inv _ _ _ _ _ _ _ HX HL) as (f' & _ & HR & _).
  destruct (OwnS_pos _ _ _ _ _ HO) as [n' ->]. pose proof (BLoc_sorted _ _ _ _ _ HL) as Hs.
  unfold b_delete in H. rewrite (BLoc_lookup _ _ _ _ _ k HL) in H. cbn [bind] in H.
  assert (Hno : forall k0 r nx, OpDel k <> OpIns (LBk k0 r nx)) by (intros; discriminate).
  destruct (Spec.alookup k (assoc l)) as [[k0 v0|k0 r nx]|] eqn:Hal; cbn [is_kv] in H; try discriminate.
  destruct (b_modify_BLoc _ _ _ _ _ _ _ _ HL H) as (_ & _ & _ & _ & Hsb & Hd & Hss).
  pose proof (kvop_cov n' s b r0 h l _ b' s' (b_next b') HCv HO HL HR Hno) as HK. cbn [lop_key] in HK.
  specialize (HK (no_LBk_of_lookup l k Hs ltac:(intros; rewrite Hal; discriminate)) H).
  destruct b' as [r' nx' dt' rn' sbs']. cbn [b_dirty b_subs b_root_page b_rootn b_next] in *. subst dt' sbs'.
  split; [exact HK|]. intros x Hx. now rewrite (sbs_freed _ _ x Hss).
Qed.

Theorem touch_cov : cov_pres (fun b s => Ok (b, s)).
Proof. intros n kk b s b' s' r0 _ _ _ _ _ _ HCv H. inversion H; subst. now apply cov_unchanged. Qed.

(** ** Opening and creating buckets *)

Lemma open_Cov : forall n s r nx, r <> 0%N -> sbk (S n) d r -> Cov d (S n) s (Bucket r nx false None []) r.
Proof.
  intros n s r nx Hr Hs. destruct (sbk_inv _ _ _ Hs) as (h & Hh & HP & _ & HV & _ & HF).
  rewrite Cov_S. intros l Hv.
  assert (El : l = page_ents fuel0 d r).
  { eapply bucket_view_det; [exact Hv|]. exists h. split; [exact Hh | exact HV]. }
  subst l. split; [|split].
  - intros _ q Hq. left. unfold bheads. cbn [b_rootn b_root_page]. exact Hq.
  - intros _ k r' nx' He. now left.
  - intros k sb r' nx' [].
Qed.

(* a new list of opened sub-buckets (and a later transaction state) over the same tree *)
Lemma Cov_resub : forall n s s2 b r0 l nx' dt' subs', Cov d (S n) s b r0 -> bucket_view d b l ->
  (forall x, freed_in_tx s x = true -> freed_in_tx s2 x = true) ->
  (forall k sb r nx, In (k, sb) subs' -> In (LBk k r nx) l -> Cov d n s2 sb r) ->
  Cov d (S n) s2 (Bucket (b_root_page b) nx' dt' (b_rootn b) subs') r0.
Proof.
  intros n s s2 b r0 l nx' dt' subs' HCv Hv Hfr Hsub. rewrite Cov_S in *. destruct (HCv l Hv) as (A & B & C).
  set (B' := Bucket (b_root_page b) nx' dt' (b_rootn b) subs'). intros l' Hv'.
  assert (El : l' = l).
  { eapply bucket_view_det; [exact Hv'|]. eapply (bucket_view_tree d b); [reflexivity | reflexivity | exact Hv]. }
  subst l'. rewrite (bheads_tree d b B' eq_refl eq_refl). split; [|split].
  - intros Hr0 q Hq. destruct (A Hr0 q Hq) as [X|X]; [now left | right; eapply gone_mono; eauto].
  - intros Hr0 k r nx He. destruct (B Hr0 k r nx He) as [X|X]; [now left | right; intros x Hx; apply Hfr, X, Hx].
  - intros k sb r nx Hk He. cbn [B' b_subs] in Hk. eapply Hsub; eauto.
Qed.

Lemma open_sub_cov : forall n kk s b r0 h l name k0 r nx, Cov d (S (S n)) s b r0 -> OwnS d (S (S n)) s b r0 ->
  BLoc d s b h l -> XDF d R kk b ->
  sub_find name (b_subs b) = None -> Spec.alookup name (assoc l) = Some (LBk k0 r nx) ->
  Cov d (S (S n)) s (Bucket (b_root_page b) (b_next b) (b_dirty b) (b_rootn b)
                       (sub_put name (Bucket r nx false None []) (b_subs b))) r0.
Proof.
  intros n kk s b r0 h l name k0 r nx HCv HO HL HX Hsf Hal. pose proof (BLoc_view _ _ _ _ _ HL) as Hv.
  pose proof (BLoc_sorted _ _ _ _ _ HL) as Hs.
  destruct (XDF_inv _ _ _ _ _ _ _ HX HL) as (f' & _ & _ & _ & HU & _).
  assert (Hr : r <> 0%N) by (apply Hnz; eapply HU; eauto).
  destruct (alookup_LBk_In _ _ _ _ _ Hal) as [-> He].
  pose proof HCv as HCv0. rewrite Cov_S in HCv0. destruct (HCv0 l Hv) as (_ & _ & C).
  apply (Cov_resub (S n) s s b r0 l _ _ _ HCv Hv); [auto|].
  intros k sb r' nx' Hk He'. apply In_sub_put in Hk. destruct Hk as [Hk|Hk]; [|eapply C; eauto].
  inversion Hk; subst k sb.
  assert (E : LBk name r' nx' = LBk name r nx) by (eapply key_unique; eauto). inversion E; subst r' nx'.
  assert (HOe : OwnS d (S n) s (Bucket r nx false None []) r) by (eapply entry_sub; eauto).
  cbn [OwnS] in HOe. destruct HOe as (_ & [Hz|Hsb] & _); [contradiction|]. now apply open_Cov.
Qed.

Theorem goc_cov : forall name n kk b s b' s' r0, 2 <= n -> 2 <= kk -> SDeep d s b -> XDF d R kk b -> OwnS d n s b r0 ->
  pend_ids_ok s -> Cov d n s b r0 -> b_get_or_create d b name s = Ok (b', s') -> Cov d n s' b' r0.
Proof.
  intros name n kk b s b' s' r0 Hn Hkk HD HX HO Hp HCv H. destruct (SDeep_inv _ _ _ HD) as (h & l & HL & HS).
  rewrite b_get_or_create_unfold in H. destruct (sub_find name (b_subs b)) as [sb|] eqn:Hsf.
  { inversion H; subst. auto. }
  rewrite (BLoc_lookup _ _ _ _ _ name HL) in H. cbn [bind] in H.
  destruct n as [|[|n]]; try lia.
  destruct (Spec.alookup name (assoc l)) as [[k0 v0|k0 r nx]|] eqn:Hal; try discriminate.
  - inversion H; subst b' s'. eapply open_sub_cov; eauto.
  - apply bind_ok_inv in H. destruct H as ([b2 s2] & Hm & H). cbn [fst snd] in H. inversion H; subst b' s'. clear H.
    destruct (XDF_inv _ _ _ _ _ _ _ HX HL) as (f' & _ & HR & _).
    pose proof (BLoc_sorted _ _ _ _ _ HL) as Hs. pose proof (BLoc_view _ _ _ _ _ HL) as Hv.
    assert (Hle1 : (seqc s <= seqc (snd (next_seq s)))%N) by (cbn; lia).
    pose proof (BLoc_seqc_mono _ _ _ _ _ _ Hle1 HL) as HL1.
    pose proof (same_but_seqc_next s) as Hss1.
    destruct (b_modify_BLoc _ _ _ _ _ _ _ _ HL1 Hm) as (_ & _ & _ & _ & Hsb & _ & Hss).
    destruct (OwnS_inv _ _ _ _ _ _ HO Hv) as (_ & _ & _ & H3 & _).
    pose proof HCv as HCv0. rewrite Cov_S in HCv0. destruct (HCv0 l Hv) as (_ & _ & C).
    rewrite Hsb.
    apply (Cov_modified (S n) s b r0 h l _ (snd (next_seq s)) b b2 s2 _ _ HCv HL1 eq_refl eq_refl HR H3 Hm).
    + intros x Hx. now rewrite (sbs_freed _ _ x Hss1).
    + intros k r nx He. left. apply ent_kept; [exact Hs | exact He|]. cbn [lop_key lkey]. intros ->.
      apply (In_LBk_alookup _ _ _ _ Hs) in He. congruence.
    + intros k sb r nx Hk He. apply In_sub_put in Hk. destruct Hk as [Hk|Hk].
      * inversion Hk; subst k sb.
        assert (E : LBk name r nx = LBk name 0%N 0%N).
        { eapply (key_unique (apply_lop (OpIns (LBk name 0%N 0%N)) l)); [now apply apply_lop_sorted | exact He | now apply In_apply_ins | reflexivity]. }
        inversion E; subst r nx. apply Cov_zero. intros k0 sb0 [].
      * apply apply_lop_In' in He. destruct He as [He|He].
        -- eapply Cov_mono; [|eapply C; eauto]. intros x Hx. now rewrite (sbs_freed _ _ x Hss1).
        -- inversion He; subst k r nx. exfalso. exact (sub_find_None_In _ _ _ Hsf Hk eq_refl).
Qed.

(** ** [at_path] *)

(* storing the modified sub-bucket back into its parent *)
Lemma put_back_cov : forall n s1 s2 b r0 h l nm sb' r nx,
  Cov d (S n) s1 b r0 -> BLoc d s1 b h l -> NoDup (map fst (b_subs b)) ->
  In (LBk nm r nx) l -> Cov d n s2 sb' r ->
  (forall x, freed_in_tx s1 x = true -> freed_in_tx s2 x = true) ->
  Cov d (S n) s2 (Bucket (b_root_page b) (b_next b) (b_dirty b) (b_rootn b) (sub_put nm sb' (b_subs b))) r0.
Proof.
  intros n s1 s2 b r0 h l nm sb' r nx HCv HL Hnd He Hc' Hfr. pose proof (BLoc_view _ _ _ _ _ HL) as Hv.
  pose proof (BLoc_sorted _ _ _ _ _ HL) as Hs.
  pose proof HCv as HCv0. rewrite Cov_S in HCv0. destruct (HCv0 l Hv) as (_ & _ & C).
  apply (Cov_resub n s1 s2 b r0 l _ _ _ HCv Hv Hfr).
  intros k sbk r' nx' Hk He'. apply In_sub_put in Hk. destruct Hk as [Hk|Hk].
  - inversion Hk; subst k sbk.
    assert (E : LBk nm r' nx' = LBk nm r nx) by (eapply key_unique; eauto). inversion E; subst r' nx'. exact Hc'.
  - eapply Cov_mono; [exact Hfr | eapply C; eauto].
Qed.

Theorem at_path_cov : forall f, own_pres d R f -> cov_pres f -> forall path fuel n k b s b' s' r0, fuel + 1 <= n -> fuel + 1 <= k ->
  SDeep d s b -> XDF d R k b -> OwnS d n s b r0 -> pend_ids_ok s -> Cov d n s b r0 ->
  at_path fuel d b path f s = Ok (b', s') ->
  Cov d n s' b' r0 /\ (forall x, freed_in_tx s x = true -> freed_in_tx s' x = true).
Proof.
  intros f Hfo Hf. induction path as [|nm rest IH]; intros fuel n k b s b' s' r0 Hn Hk HD HX HO Hp HCv H;
    (destruct fuel as [|fu]; [discriminate|]); cbn [at_path] in H.
  - eapply (Hf n k); eauto; lia.
  - apply bind_ok_inv in H. destruct H as ([b1 s1] & Hg & H).
    destruct (b_get_or_create_pres d nm b s b1 s1 HD Hg) as [HD1 Hle1].
    destruct (b_get_or_create_xd d R HCR nm k b s b1 s1 ltac:(lia) HD HX Hg) as [HX1 _].
    destruct (goc_own d R Hnz nm n k b s b1 s1 r0 ltac:(lia) ltac:(lia) HD HX HO Hp Hg) as (HO1 & Hfr1 & Hp1).
    pose proof (goc_cov nm n k b s b1 s1 r0 ltac:(lia) ltac:(lia) HD HX HO Hp HCv Hg) as HC1.
    destruct (sub_find nm (b_subs b1)) as [sb|] eqn:Hsf; [|discriminate].
    apply bind_ok_inv in H. destruct H as ([sb' s2] & Hat & H). inversion H; subst b' s'. clear H.
    destruct (SDeep_inv _ _ _ HD1) as (h1 & l1 & HL1 & (Hnd1 & _)).
    destruct n as [|n]; [lia|]. destruct k as [|k]; [lia|].
    assert (HXsb : XDF d R k sb).
    { destruct (XDF_inv _ _ _ _ _ _ _ HX1 HL1) as (f' & E & _ & _ & _ & _ & HF). inversion E; subst f'.
      rewrite Forall_forall in HF. exact (HF _ (sub_find_In _ _ _ Hsf)). }
    destruct (OwnS_inv _ _ _ _ _ _ HO1 (BLoc_view _ _ _ _ _ HL1)) as (_ & _ & _ & _ & _ & _ & C & _ & E).
    destruct (E nm sb (sub_find_In _ _ _ Hsf)) as (r & nx & He & Ho).
    pose proof HC1 as HC1'. rewrite Cov_S in HC1'. destruct (HC1' l1 (BLoc_view _ _ _ _ _ HL1)) as (_ & _ & CC).
    pose proof (CC nm sb r nx (sub_find_In _ _ _ Hsf) He) as Hcsb.
    destruct (IH fu n k sb s1 sb' s2 r ltac:(lia) ltac:(lia) (SDeep_sub _ _ _ _ _ HD1 Hsf) HXsb Ho Hp1 Hcsb Hat)
      as (Hc' & Hfr2).
    split; [eapply put_back_cov; eauto|].
    intros x Hx. apply Hfr2. now rewrite Hfr1.
Qed.

(** ** [b_delete_bucket] *)

Lemma delb_phase2_cov : forall n kk b0 name sb s0 b' s' r0, SDeep d s0 b0 -> XDF d R kk b0 -> OwnS d (S n) s0 b0 r0 ->
  pend_ids_ok s0 -> Cov d (S n) s0 b0 r0 -> sub_find name (b_subs b0) = Some sb -> delb_phase2 d b0 name s0 = Ok (b', s') ->
  Cov d (S n) s' b' r0 /\ (forall x, freed_in_tx s0 x = true -> freed_in_tx s' x = true).
Proof.
  intros n kk b0 name sb s0 b' s' r0 HD HX HO Hp HCv Hsf H. destruct (SDeep_inv _ _ _ HD) as (h & l & HL & HS).
  pose proof HS as (Hnd & H2 & _). pose proof (BLoc_view _ _ _ _ _ HL) as Hv. pose proof (BLoc_sorted _ _ _ _ _ HL) as Hs.
  destruct (take_sub_spec name (b_subs b0) sb Hnd Hsf) as (rest & Ht & Hnone & Hother & Hnd' & Hin).
  rewrite Forall_forall in H2. destruct (H2 _ (sub_find_In _ _ _ Hsf)) as [(r1 & nx1 & Hal) _]. cbn [fst] in Hal.
  destruct (XDF_inv _ _ _ _ _ _ _ HX HL) as (f' & _ & HR & _).
  destruct (OwnS_inv _ _ _ _ _ _ HO Hv) as (H0 & H1 & HN & H3 & A & B & C & D & E).
  destruct (E name sb (sub_find_In _ _ _ Hsf)) as (r & nx & He & Ho).
  destruct (OwnS_root d _ _ _ _ Ho) as [Hrp Hsb].
  pose proof HCv as HCv0. rewrite Cov_S in HCv0. destruct (HCv0 l Hv) as (_ & _ & CC).
  unfold delb_phase2 in H. rewrite Ht in H. apply bind_ok_inv in H. destruct H as (s1 & Hft & H). rewrite Hrp in Hft.
  assert (Hs1 : (seqc s0 <= seqc s1)%N /\ (forall x, freed_in_tx s0 x = true -> freed_in_tx s1 x = true) /\
                forall x, In x (foot d n r) -> freed_in_tx s1 x = true).
  { destruct (N.eqb_spec r 0) as [Ez|Ez].
    - inversion Hft; subst s1. split; [lia|]. split; [auto|]. intros x Hx. rewrite Ez, EngineOwnOps.foot_zero in Hx. destruct Hx.
    - split; [|split].
      + apply free_tree_frees in Hft. destruct Hft as (_ & _ & _ & _ & _ & _ & Hle & _). exact Hle.
      + intros x Hx. eapply free_tree_mono; eauto.
      + eapply free_tree_foot_complete; eauto. }
  destruct Hs1 as (Hle1 & Hfr01 & Hall).
  set (b1 := Bucket (b_root_page b0) (b_next b0) (b_dirty b0) (b_rootn b0) rest) in *.
  assert (HL1 : BLoc d s1 b1 h l).
  { eapply (BLoc_tree d s1 b0); [reflexivity | reflexivity |]. eapply BLoc_seqc_mono; eauto. }
  rewrite (BLoc_lookup _ _ _ _ _ name HL1), Hal in H. cbn [bind is_kv] in H.
  destruct (b_modify_BLoc _ _ _ _ _ _ _ _ HL1 H) as (_ & _ & _ & _ & Hsbs & Hd & Hss). cbn [b1 b_subs] in Hsbs.
  assert (HK : Cov d (S n) s' (Bucket (b_root_page b') (b_next b') true (b_rootn b') rest) r0).
  { apply (Cov_modified n s0 b0 r0 h l _ s1 b1 b' s' _ _ HCv HL1 eq_refl eq_refl HR H3 H Hfr01).
    - intros k r' nx' He'. destruct (beq k name) eqn:Ekn; [apply beq_true_iff in Ekn; subst k | assert (Hne : k <> name) by (intros ->; rewrite EngineFacts.beq_refl in Ekn; discriminate)].
      + right. assert (Eq : LBk name r' nx' = LBk name r nx) by (eapply key_unique; eauto). inversion Eq; subst r' nx'. exact Hall.
      + left. apply ent_kept; [exact Hs | exact He' | exact Hne].
    - intros k sbk r' nx' Hk He'. apply apply_lop_In' in He'. destruct He' as [He'|He']; [|discriminate].
      eapply Cov_mono; [exact Hfr01 | eapply CC; eauto]. }
  destruct b' as [r' n' dt' rn' sbs']. cbn [b_dirty b_subs b_root_page b_rootn b_next] in *. subst dt' sbs'.
  split; [exact HK|]. intros x Hx. rewrite (sbs_freed _ _ x Hss). now apply Hfr01.
Qed.

Theorem delb_cov : forall nm, cov_pres (fun b s => soft (b, s) (b_delete_bucket d b nm s)).
Proof.
  intros nm n kk b s b' s' r0 Hn Hkk HD HX HO Hp HCv H. cbn beta in H.
  apply soft_ok_inv in H. destruct H as [H | [E _]]; [|inversion E; subst; now apply cov_unchanged].
  rewrite b_delete_bucket_unfold in H. apply bind_ok_inv in H. destruct H as ([b0 s0] & Hopen & H). cbn [fst snd] in H.
  destruct n as [|[|n]]; try lia.
  assert (Hb0 : SDeep d s b0 /\ XDF d R kk b0 /\ OwnS d (S (S n)) s b0 r0 /\ Cov d (S (S n)) s b0 r0 /\ s0 = s /\
                exists sb, sub_find nm (b_subs b0) = Some sb).
  { destruct (sub_find nm (b_subs b)) as [sb|] eqn:Hsf.
    - inversion Hopen; subst. eauto 8.
    - destruct (SDeep_inv _ _ _ HD) as (h & l & HL & HS).
      rewrite (BLoc_lookup _ _ _ _ _ nm HL) in Hopen. cbn [bind] in Hopen.
      destruct (Spec.alookup nm (assoc l)) as [[k0 v0|k0 r nx]|] eqn:Hal; try discriminate.
      inversion Hopen; subst b0 s0. split; [eapply open_sub_SDeep; eauto|].
      destruct kk as [|[|f]]; try lia. split; [eapply open_sub_XDF; eauto|].
      split; [eapply open_sub_own; eauto|]. split; [eapply open_sub_cov; eauto|]. split; [reflexivity|].
      cbn [b_subs]. rewrite sub_find_put_same. eauto. }
  destruct Hb0 as (HD0 & HX0 & HO0 & HC0 & -> & sb & Hsf). eapply delb_phase2_cov; eauto.
Qed.

(** ** The steps of a transaction *)

Theorem tx_step_cov : forall o rb s rb' s' n k r0, 9 <= n -> 9 <= k -> SDeep d s rb -> XDF d R k rb ->
  OwnS d n s rb r0 -> pend_ids_ok s -> Cov d n s rb r0 -> tx_step d (rb, s) o = Ok (rb', s') ->
  Cov d n s' rb' r0 /\ (forall x, freed_in_tx s x = true -> freed_in_tx s' x = true).
Proof.
  intros o rb s rb' s' n k r0 Hn Hk HD HX HO Hp HCv H. unfold tx_step in H.
  destruct o as [p kk v|p kk|p nm|p]; apply soft_ok_inv in H;
    (destruct H as [H | [E _]]; [|inversion E; subst; now apply cov_unchanged]).
  - apply (at_path_cov _ (put_own d R Hnz kk v) (put_cov kk v) p 8 n k rb s rb' s' r0); auto; lia.
  - apply (at_path_cov _ (del_own d R Hnz kk) (del_cov kk) p 8 n k rb s rb' s' r0); auto; lia.
  - apply (at_path_cov _ (delb_own d R HCR Hnz nm) (delb_cov nm) p 8 n k rb s rb' s' r0); auto; lia.
  - apply (at_path_cov _ (touch_own d R) touch_cov p 8 n k rb s rb' s' r0); auto; lia.
Qed.

Theorem tx_fold_cov_gen : forall st ops rb s root' s' n k r0, d_disk st = d -> 9 <= n -> 9 <= k ->
  SDeep d s rb -> XDF d R k rb -> OwnS d n s rb r0 -> pend_ids_ok s -> Cov d n s rb r0 ->
  tx_fold st ops (rb, s) = Ok (root', s') ->
  Cov d n s' root' r0 /\ (forall x, freed_in_tx s x = true -> freed_in_tx s' x = true).
Proof.
  intros st ops rb s root' s' n k r0 Ed Hn Hk. revert rb s. induction ops as [|o ops IH]; intros rb s HD HX HO Hp HCv H;
    unfold tx_fold in H; cbn [fold_res] in H.
  - inversion H; subst root' s'. now apply cov_unchanged.
  - apply bind_ok_inv in H. destruct H as ([rb1 s1] & Hst & H). rewrite Ed in Hst.
    destruct (tx_step_SDeep _ _ _ _ _ _ HD Hst) as [HD1 _].
    pose proof (tx_step_xd d R HCR _ _ _ _ _ _ Hk HD HX Hst) as HX1.
    destruct (tx_step_own d R HCR Hnz _ _ _ _ _ _ _ _ Hn Hk HD HX HO Hp Hst) as (HO1 & _ & Hp1).
    destruct (tx_step_cov _ _ _ _ _ _ _ _ Hn Hk HD HX HO Hp HCv Hst) as (HC1 & Hf1).
    destruct (IH rb1 s1 HD1 HX1 HO1 Hp1 HC1 H) as (HC' & Hf'). split; [exact HC' | auto].
Qed.

End OpsCov.

(* ====================================================================== *)
(** * From a committed state *)

(* the operations of a transaction establish the completeness invariant *)
Theorem tx_fold_cov : forall st ops root' s', db_ok' st ->
  tx_fold st ops (root_bucket st, begin_w st) = Ok (root', s') ->
  Cov (d_disk st) 16 s' root' (d_root st).
Proof.
  intros st ops root' s' Hok H. pose proof Hok as (Hs & Ha & Hnd & Hpl).
  pose proof Ha as (_ & _ & _ & _ & _ & _ & Hroot & HC & Hlive).
  assert (Hnz : forall x, In x (Rof st) -> x <> 0%N).
  { intros x Hx. destruct (Hlive _ (R_live st _ _ Hx)) as [Hge _]. lia. }
  destruct (tx_fold_cov_gen (d_disk st) (Rof st) HC Hnz st ops (root_bucket st) (begin_w st) root' s' 16 9 (d_root st))
    as (HCv & _); auto; try lia.
  - apply root_bucket_SDeep. exact Hs.
  - unfold root_bucket. eapply XDF_mono; [apply open_XDF; eauto | lia].
  - now apply root_bucket_OwnS.
  - unfold pend_ids_ok. rewrite (begin_w_pending st Hpl). constructor.
  - unfold root_bucket. apply open_Cov; [apply Hnz, Hroot | exact Hs].
Qed.

Print Assumptions tx_fold_cov.
