(* The writer that begins while readers are open, related to the reader-less writer.

   [begin_w_r st bound] = [addp pd (begin_w (hat st bound))] where (fr, pd) is what [release (min bound (d_tx st + 1))]
   returns and [hat st bound] is [st] with [d_free := fr], [d_pending := []] (the batches that stay pending are
   dropped: "leaked" in [hat]).  By the parametricity theorem of EngineRSim every function of the write path run on
   [addp pd s] yields the result on [s] with [pd] put in front of the pending list: the transaction with readers
   and the reader-less transaction on [hat st bound] build the same overlay, the same write set, the same new tree.
   They differ only in the last step of [commit] (the size of the free-list page counts the pending ids). *)
From Coq Require Import List NArith Bool Arith Lia ZifyN ZifyNat ZifyBool Permutation.
From Coq.Strings Require Import Byte.
From Jamm Require Import Bytes Engine EngineR EnginePathFacts EngineSpillFacts EngineRSim.
From Jamm Require FreelistFacts EngineSpillWfFacts EngineOwnDefs.
Import ListNotations.
Local Open Scope list_scope. Local Open Scope nat_scope.
Arguments N.add : simpl never. Arguments N.sub : simpl never. Arguments N.mul : simpl never.
Arguments N.div : simpl never. Arguments N.ltb : simpl never. Arguments N.leb : simpl never.
Arguments N.eqb : simpl never.

Notation pend_all := PL.pend_all.

(* ====================================================================== *)
(** * 1. Older batches in front of the pending list *)

Definition addp (old : list (N * list N)) (s : txs) : txs := upd_pending s (old ++ pending s).

(* the batches [old] belong to older transactions; every batch of the running state is its own *)
Definition Jt (old : list (N * list N)) (s : txs) : Prop :=
  Forall (fun b : N * list N => (fst b < txid s)%N) old /\
  Forall (fun b : N * list N => fst b = txid s) (pending s) /\
  NoDup (pend_all (pending s)).

Lemma pend_add_old : forall t p old l, Forall (fun b : N * list N => (fst b < t)%N) old ->
  pend_add t p (old ++ l) = old ++ pend_add t p l.
Proof.
  intros t p old l H. induction H as [|[u ps] old Hu _ IH]; [reflexivity|]. cbn [app pend_add]. cbn [fst] in Hu.
  destruct (N.eqb_spec u t); [lia|]. destruct (N.ltb_spec t u); [lia|]. now rewrite IH.
Qed.

Lemma freed_old : forall old s p, Forall (fun b : N * list N => (fst b < txid s)%N) old ->
  freed_in_tx (addp old s) p = freed_in_tx s p.
Proof.
  intros old s p H. unfold freed_in_tx, addp. cbn [pending txid upd_pending]. rewrite existsb_app.
  replace (existsb (fun x : N * list N => (fst x =? txid s)%N && existsb (N.eqb p) (snd x)) old) with false; [reflexivity|].
  symmetry. induction H as [|[u ps] old Hu _ IH]; [reflexivity|]. cbn [existsb fst snd]. cbn [fst] in Hu.
  destruct (N.eqb_spec u (txid s)); [lia|]. exact IH.
Qed.

Lemma pend_all_app : forall a b, pend_all (a ++ b) = pend_all a ++ pend_all b.
Proof. intros. unfold pend_all. apply flat_map_app. Qed.

(* where [pend_add] puts a page *)
Lemma pend_add_In : forall t p l x, In x (pend_all (pend_add t p l)) <-> In x (pend_all l) \/ x = p.
Proof.
  intros t p l x. induction l as [|[u ps] l IH]; cbn [pend_add].
  - unfold pend_all. cbn. intuition.
  - destruct (u =? t)%N.
    + unfold pend_all. cbn [flat_map snd]. rewrite !in_app_iff. cbn [In]. intuition.
    + destruct (t <? u)%N.
      * unfold pend_all. cbn [flat_map snd app]. cbn [In]. intuition.
      * unfold pend_all in *. cbn [flat_map snd]. rewrite !in_app_iff, IH. intuition.
Qed.

Lemma pend_add_NoDup : forall t p l, NoDup (pend_all l) -> ~ In p (pend_all l) -> NoDup (pend_all (pend_add t p l)).
Proof.
  intros t p l. induction l as [|[u ps] l IH]; intros Hnd Hp; cbn [pend_add].
  - unfold pend_all. cbn. constructor; [intros []|constructor].
  - unfold pend_all in *. cbn [flat_map snd] in *. destruct (u =? t)%N.
    + cbn [flat_map snd]. rewrite <- app_assoc.
      assert (Hperm : Permutation (p :: ps ++ flat_map snd l) (ps ++ [p] ++ flat_map snd l)).
      { apply Permutation_middle. }
      apply (Permutation_NoDup Hperm). constructor; [exact Hp | exact Hnd].
    + destruct (t <? u)%N.
      * cbn [flat_map snd app]. constructor; [exact Hp | exact Hnd].
      * cbn [flat_map snd]. rewrite in_app_iff in Hp.
        apply EngineSpillWfFacts.NoDup_app_iff in Hnd. destruct Hnd as (N1 & N2 & N3).
        specialize (IH N2 (fun H => Hp (or_intror H))).
        apply EngineSpillWfFacts.NoDup_app_iff. split; [exact N1|]. split; [exact IH|].
        intros x Hx1 Hx2. apply (pend_add_In t p l x) in Hx2. destruct Hx2 as [Hx2| ->]; [eapply N3; eauto | tauto].
Qed.

(* when every batch is the transaction's own, [freed_in_tx] is membership in the pending pages *)
Lemma own_freed : forall s p, Forall (fun b : N * list N => fst b = txid s) (pending s) ->
  freed_in_tx s p = false -> ~ In p (pend_all (pending s)).
Proof.
  intros s p H Hf Hin. unfold freed_in_tx in Hf. unfold pend_all in Hin. apply in_flat_map in Hin.
  destruct Hin as ([u ps] & Hb & Hp). rewrite Forall_forall in H. specialize (H _ Hb). cbn [fst snd] in *.
  assert (Ht : existsb (fun x : N * list N => (fst x =? txid s)%N && existsb (N.eqb p) (snd x)) (pending s) = true).
  { apply existsb_exists. exists (u, ps). split; [exact Hb|]. cbn [fst snd]. apply andb_true_iff. split; [now apply N.eqb_eq|].
    apply existsb_exists. exists p. split; [exact Hp | apply N.eqb_refl]. }
  congruence.
Qed.

(* ====================================================================== *)
(** * 2. [addp old] commutes with the primitives; [Jt old] is kept *)

Lemma addp_psz : forall old s, psz (addp old s) = psz s. Proof. reflexivity. Qed.
Lemma addp_wr : forall old s, wr (addp old s) = wr s. Proof. reflexivity. Qed.
Lemma addp_free : forall old s, free (addp old s) = free s. Proof. reflexivity. Qed.
Lemma addp_np : forall old s, np (addp old s) = np s. Proof. reflexivity. Qed.
Lemma addp_txid : forall old s, txid (addp old s) = txid s. Proof. reflexivity. Qed.
Lemma addp_pending : forall old s, pending (addp old s) = old ++ pending s. Proof. reflexivity. Qed.

Lemma addp_seq : forall old s, Jt old s -> next_seq (addp old s) = (fst (next_seq s), addp old (snd (next_seq s))).
Proof. reflexivity. Qed.
Lemma Jt_seq : forall old s, Jt old s -> Jt old (snd (next_seq s)).
Proof. intros old s H. exact H. Qed.

Lemma Jt_ext : forall old s s', txid s' = txid s -> pending s' = pending s -> Jt old s -> Jt old s'.
Proof. intros old s s' E1 E2 H. unfold Jt in *. now rewrite E1, E2. Qed.

Lemma addp_free_run : forall old n s p, Jt old s ->
  free_run (addp old s) p n = addp old (free_run s p n) /\ Jt old (free_run s p n).
Proof.
  intros old. induction n as [|n IH]; intros s p HJ; cbn [free_run]; [auto|].
  pose proof HJ as (H1 & H2 & H3). rewrite (freed_old old s p H1).
  destruct (freed_in_tx s p) eqn:Ef; [now apply IH|].
  assert (E : upd_pending (addp old s) (pend_add (txid (addp old s)) p (pending (addp old s)))
              = addp old (upd_pending s (pend_add (txid s) p (pending s)))).
  { unfold addp. cbn [pending txid upd_pending free np psz wr flw seqc]. now rewrite (pend_add_old _ _ _ _ H1). }
  rewrite E. apply IH. split; [exact H1|]. cbn [pending txid upd_pending]. split.
  - apply (EngineOwnDefs.pend_add_ids (txid s) p (pending s) (fun u => u = txid s)); [reflexivity | exact H2].
  - apply pend_add_NoDup; [exact H3 | now apply own_freed].
Qed.

Lemma addp_freep : forall old s p n, Jt old s -> free_pages (addp old s) p n = addp old (free_pages s p n).
Proof. intros old s p n H. unfold free_pages. now apply addp_free_run. Qed.
Lemma Jt_freep : forall old s p n, Jt old s -> Jt old (free_pages s p n).
Proof. intros old s p n H. unfold free_pages. now apply addp_free_run. Qed.

Lemma addp_alloc : forall old s b, Jt old s ->
  tx_allocate (addp old s) b = (fst (tx_allocate s b), addp old (snd (tx_allocate s b))).
Proof.
  intros old s b _. unfold tx_allocate. cbn [free psz np addp upd_pending].
  destruct (fl_allocate (free s) _) as [[p f']|]; reflexivity.
Qed.
Lemma Jt_alloc : forall old s b, Jt old s -> Jt old (snd (tx_allocate s b)).
Proof.
  intros old s b H. unfold tx_allocate. destruct (fl_allocate (free s) _) as [[p f']|]; cbn [snd]; exact H.
Qed.

Lemma addp_updwr : forall old s w, Jt old s -> upd_wr (addp old s) w = addp old (upd_wr s w).
Proof. reflexivity. Qed.
Lemma Jt_updwr : forall old s w, Jt old s -> Jt old (upd_wr s w).
Proof. intros old s w H. exact H. Qed.

(* ---------- the parametricity theorems at this instance ---------- *)
Section Inst.
Variable old : list (N * list N).
Let A := addp old.
Let J := Jt old.

Lemma tx_fold_addp : forall st ops rb s, J s ->
  simr (m2 A) (p2 J) (tx_fold st ops (rb, A s)) (tx_fold st ops (rb, s)).
Proof.
  intros. apply (tx_fold_sim A J (addp_seq old) (Jt_seq old) (addp_freep old) (Jt_freep old)). assumption.
Qed.

Lemma rebalance_addp : forall f d b s, J s -> simr (m2 A) (p2 J) (rebalance f d b (A s)) (rebalance f d b s).
Proof.
  intros. apply (rebalance_sim A J (addp_psz old) (addp_seq old) (Jt_seq old) (addp_freep old) (Jt_freep old)). assumption.
Qed.

Lemma spill_bucket_addp : forall f d b s ord, J s ->
  simr (m4 A) (p4 J) (spill_bucket f d b (A s) ord) (spill_bucket f d b s ord).
Proof.
  intros. apply (spill_bucket_sim A J (addp_psz old) (addp_wr old) (addp_seq old) (Jt_seq old) (addp_freep old)
                   (Jt_freep old) (addp_alloc old) (Jt_alloc old) (addp_updwr old) (Jt_updwr old)). assumption.
Qed.
End Inst.

(* ====================================================================== *)
(** * 3. [release] with a bound: a prefix of older batches is freed, the rest is kept *)

Notation asc := FreelistFacts.asc.

Lemma release_split : forall t pd fr fr' pd', release t fr pd = (fr', pd') ->
  exists rel, pd = rel ++ pd' /\ Forall (fun b : N * list N => (fst b < t)%N) rel /\
    (forall x, In x fr' <-> In x fr \/ In x (pend_all rel)) /\ (asc fr -> asc fr').
Proof.
  intros t. induction pd as [|[u ps] pd IH]; intros fr fr' pd' H; cbn [release] in H.
  - inversion H; subst. exists []. cbn. repeat split; auto. intros [?|[]]; auto.
  - destruct (N.ltb_spec u t) as [Hlt|Hge].
    + apply IH in H. destruct H as (rel & E & Hall & Hin & Hasc). exists ((u, ps) :: rel).
      split; [cbn [app]; now rewrite E|]. split; [constructor; [exact Hlt | exact Hall]|]. split.
      * intros x. rewrite Hin, FreelistFacts.fold_sins_In. unfold pend_all. cbn [flat_map snd]. rewrite in_app_iff. tauto.
      * intros Ha. apply Hasc. now apply FreelistFacts.fold_sins_asc.
    + inversion H; subst. exists []. cbn. repeat split; auto. intros [?|[]]; auto.
Qed.

(* the release bound of a writer that begins with oldest-reader bound [b] *)
Definition rbound (st : db) (b : N) : N := N.min b (d_tx st + 1).
(* the free list after the release, the batches that stay pending, the batches released *)
Definition rfree (st : db) (b : N) : list N := fst (release (rbound st b) (d_free st) (d_pending st)).
Definition kept (st : db) (b : N) : list (N * list N) := snd (release (rbound st b) (d_free st) (d_pending st)).

(* [st] seen by a reader-less writer: the released ids are free, the kept batches are forgotten *)
Definition hat (st : db) (b : N) : db :=
  {| d_disk := d_disk st; d_root := d_root st; d_next := d_next st; d_np := d_np st; d_fl := d_fl st; d_fln := d_fln st;
     d_flids := d_flids st; d_tx := d_tx st; d_free := rfree st b; d_pending := []; d_psz := d_psz st |}.

Lemma begin_w_hat : forall st b, begin_w (hat st b) =
  {| free := rfree st b; pending := []; txid := (d_tx st + 1)%N; np := d_np st; psz := d_psz st; wr := []; flw := None; seqc := 1%N |}.
Proof. reflexivity. Qed.

Theorem begin_w_r_eq : forall st b, begin_w_r st b = addp (kept st b) (begin_w (hat st b)).
Proof.
  intros st b. rewrite begin_w_hat. unfold begin_w_r, addp, rfree, kept, rbound. cbn [pending upd_pending free txid np psz wr flw seqc].
  destruct (release (N.min b (d_tx st + 1)) (d_free st) (d_pending st)) as [fr pd]. cbn [fst snd]. now rewrite app_nil_r.
Qed.

Lemma kept_suffix : forall st b, exists rel, d_pending st = rel ++ kept st b /\
  Forall (fun x : N * list N => (fst x < rbound st b)%N) rel /\
  (forall x, In x (rfree st b) <-> In x (d_free st) \/ In x (pend_all rel)) /\ (asc (d_free st) -> asc (rfree st b)).
Proof.
  intros st b. unfold kept, rfree. destruct (release (rbound st b) (d_free st) (d_pending st)) as [fr pd] eqn:E.
  cbn [fst snd]. exact (release_split _ _ _ _ _ E).
Qed.

Lemma Jt_begin : forall st b, EngineOwnDefs.pend_le st -> Jt (kept st b) (begin_w (hat st b)).
Proof.
  intros st b Hpl. rewrite begin_w_hat. unfold Jt. cbn [txid pending]. split; [|split; [constructor | constructor]].
  destruct (kept_suffix st b) as (rel & E & _). unfold EngineOwnDefs.pend_le in Hpl. rewrite E in Hpl.
  apply Forall_app in Hpl. destruct Hpl as [_ Hk]. eapply Forall_impl; [|exact Hk]. cbn beta. intros x Hx. lia.
Qed.

(* (1) with no reader to respect the writer is the reader-less one *)
Theorem begin_w_r_none : forall st b, (d_tx st + 1 <= b)%N -> begin_w_r st b = begin_w st.
Proof. intros st b H. unfold begin_w_r, begin_w. replace (N.min b (d_tx st + 1)) with (d_tx st + 1)%N by lia. reflexivity. Qed.

Theorem run_tx_r_none : forall st b ops ord, (d_tx st + 1 <= b)%N -> run_tx_r st b ops ord = run_tx st ops ord.
Proof. intros st b ops ord H. unfold run_tx_r, run_tx. now rewrite (begin_w_r_none st b H). Qed.

Lemma run_tx_r_fold : forall st b ops ord,
  run_tx_r st b ops ord =
  bind (tx_fold st ops (root_bucket st, begin_w_r st b)) (fun p => commit st (fst p) (snd p) ord).
Proof.
  intros st b ops ord. unfold run_tx_r, tx_fold, tx_step.
  match goal with |- bind ?X _ = bind ?Y _ => change Y with X; destruct X as [[r s]| |] end; reflexivity.
Qed.

(* the last step of [commit] *)
Definition commit_tail (st : db) (r nx : N) (s2 : txs) : db :=
  let s3 := free_pages s2 (d_fl st) (d_fln st) in
  let '(flp, fln, s4) := tx_allocate s3 (40 + 8 * llen (all_pages s3))%N in
  {| d_disk := apply_wr (wr s4) (psz s4) (d_disk st); d_root := r; d_next := nx; d_np := np s4; d_fl := flp;
     d_fln := fln; d_flids := all_pages s4; d_tx := txid s4; d_free := free s4; d_pending := pending s4;
     d_psz := psz s4 |}.

Lemma commit_unfold : forall st b s ord, commit st b s ord =
  bind (rebalance fuel0 (d_disk st) b s) (fun y =>
  bind (spill_bucket fuel0 (d_disk st) (fst y) (snd y) ord) (fun z =>
  Ok (commit_tail st (fst (fst (fst z))) (snd (fst (fst z))) (snd (fst z))))).
Proof.
  intros st b s ord. rewrite commit_apply_wr. unfold commit_with_apply_wr, commit_tail.
  destruct (rebalance fuel0 (d_disk st) b s) as [[b1 s1]| |]; cbn [bind fst snd]; try reflexivity.
  destruct (spill_bucket fuel0 (d_disk st) b1 s1 ord) as [[[[r nx] s2] o]| |]; cbn [bind fst snd]; try reflexivity.
  destruct (tx_allocate _ _) as [[flp fln] s4]. reflexivity.
Qed.

Lemma bind_ok_inv : forall {A B} (r : res A) (f : A -> res B) y, bind r f = Ok y -> exists x, r = Ok x /\ f x = Ok y.
Proof. intros A B [x| |] f y H; cbn [bind] in H; try discriminate. eauto. Qed.

Lemma simr_inv : forall {R} (m : R -> R) (P : R -> Prop) r1 r2 z, simr m P r1 r2 -> r1 = Ok z ->
  exists y, r2 = Ok y /\ z = m y /\ P y.
Proof.
  intros R m P r1 r2 z H E. destruct r2 as [y|e|e]; cbn [simr] in H.
  - destruct H as [H1 H2]. exists y. split; [reflexivity|]. split; [congruence | exact H2].
  - congruence.
  - congruence.
Qed.

(* ====================================================================== *)
(** * 4. The transaction with readers, step by step next to the reader-less transaction on [hat st b] *)

Record tx_decomp (st : db) (b : N) (ops : list op) (ord : list bytes) (st' : db)
  (root' : bucket) (sh' : txs) (b1 : bucket) (sh1 : txs) (r nx : N) (sh2 : txs) (ord' : list bytes) : Prop := {
  (* the reader-less run on [hat st b] *)
  td_fold_h : tx_fold (hat st b) ops (root_bucket (hat st b), begin_w (hat st b)) = Ok (root', sh');
  td_reb_h : rebalance fuel0 (d_disk st) root' sh' = Ok (b1, sh1);
  td_spill_h : spill_bucket fuel0 (d_disk st) b1 sh1 ord = Ok (r, nx, sh2, ord');
  td_run_h : run_tx (hat st b) ops ord = Ok (commit_tail (hat st b) r nx sh2);
  (* every batch of its pending lists is its own *)
  td_J' : Jt (kept st b) sh'; td_J1 : Jt (kept st b) sh1; td_J2 : Jt (kept st b) sh2;
  (* the run with readers: the same, with the kept batches in front *)
  td_fold : tx_fold st ops (root_bucket st, begin_w_r st b) = Ok (root', addp (kept st b) sh');
  td_reb : rebalance fuel0 (d_disk st) root' (addp (kept st b) sh') = Ok (b1, addp (kept st b) sh1);
  td_spill : spill_bucket fuel0 (d_disk st) b1 (addp (kept st b) sh1) ord = Ok (r, nx, addp (kept st b) sh2, ord');
  td_commit : commit st root' (addp (kept st b) sh') ord = Ok st';
  td_st' : st' = commit_tail st r nx (addp (kept st b) sh2) }.

Theorem run_tx_r_decomp : forall st b ops ord st', EngineOwnDefs.pend_le st -> run_tx_r st b ops ord = Ok st' ->
  exists root' sh' b1 sh1 r nx sh2 ord', tx_decomp st b ops ord st' root' sh' b1 sh1 r nx sh2 ord'.
Proof.
  intros st b ops ord st' Hpl Hrun. rewrite run_tx_r_fold in Hrun.
  apply bind_ok_inv in Hrun. destruct Hrun as ([root' s'] & Hf & Hc). cbn [fst snd] in Hc.
  pose proof (Jt_begin st b Hpl) as HJ0. rewrite begin_w_r_eq in Hf.
  destruct (simr_inv _ _ _ _ _ (tx_fold_addp (kept st b) st ops (root_bucket st) _ HJ0) Hf) as ([root2 sh'] & Hfh & E & HJ').
  unfold m2, p2 in E, HJ'. cbn [fst snd] in E, HJ'. inversion E; subst root2 s'. clear E.
  pose proof Hc as Hc0. rewrite commit_unfold in Hc.
  apply bind_ok_inv in Hc. destruct Hc as ([b1 s1] & Hr & Hc). cbn [fst snd] in Hc.
  destruct (simr_inv _ _ _ _ _ (rebalance_addp (kept st b) fuel0 (d_disk st) root' sh' HJ') Hr) as ([b2 sh1] & Hrh & E & HJ1).
  unfold m2, p2 in E, HJ1. cbn [fst snd] in E, HJ1. inversion E; subst b2 s1. clear E.
  apply bind_ok_inv in Hc. destruct Hc as ([[[r nx] s2] ord'] & Hs & Hc). cbn [fst snd] in Hc.
  destruct (simr_inv _ _ _ _ _ (spill_bucket_addp (kept st b) fuel0 (d_disk st) b1 sh1 ord HJ1) Hs) as ([[[r2 nx2] sh2] ord2] & Hsh & E & HJ2).
  unfold m4, p4 in E, HJ2. cbn [fst snd] in E, HJ2. inversion E; subst r2 nx2 s2 ord2. clear E.
  inversion Hc; subst st'. clear Hc.
  exists root', sh', b1, sh1, r, nx, sh2, ord'. rewrite <- begin_w_r_eq in Hf. constructor; try assumption; try reflexivity.
  rewrite run_tx_fold. unfold tx_fold in *. cbn [d_disk hat] in *. change (root_bucket (hat st b)) with (root_bucket st) in *.
  rewrite Hfh. cbn [bind fst snd]. rewrite commit_unfold. cbn [d_disk hat]. rewrite Hrh. cbn [bind fst snd]. rewrite Hsh. reflexivity.
Qed.
