(* Layer P of the allocation-invariant development: the OPERATIONS of a transaction establish the ownership
   invariant [OwnI] of the overlay, freeing only pages of the committed footprint.

   1. list facts; [fpg_closed]: the head pages of a strict committed bucket tree form a closed set
   2. footprints: decomposition and disjointness of the parts of [foot d (S n) r0]
   3. [free_tree] frees only page runs of a closed set containing its stack
   4. [OwnS]: [OwnI] strengthened by what holds before rebalance only (the bucket still sits on the root page of
      its entry; a bucket created by the transaction has only created entries); [OwnS_OwnI]
   5. the operations preserve [OwnS] ([own_pres]): put, delete, touch, get_or_create, at_path, delete_bucket
   6. [tx_fold_own] *)
From Coq Require Import List NArith Bool Arith Lia ZifyN ZifyNat ZifyBool Permutation.
From Coq.Strings Require Import Byte.
From Jamm Require Spec.
From Jamm Require Import Bytes BytesFacts Tree Cursor SearchFacts Engine EngineAbs EngineFacts EngineMergeFacts.
From Jamm Require Import EngineModifyFacts EngineSpillFacts EnginePathFacts EngineBridgeFacts EngineRebalanceFacts.
From Jamm Require FreelistFacts EngineAllocFacts EngineSpillWfFacts.
From Jamm Require Import EngineTxInvFacts EngineSpillBucketFacts EngineRefines.
From Jamm Require Import EngineOwnDefs.
Import ListNotations.
Import Coq.Strings.String.StringSyntax. Delimit Scope string_scope with string.
Local Open Scope list_scope. Local Open Scope nat_scope.
Set Warnings "-abstract-large-number".
Arguments N.add : simpl never. Arguments N.sub : simpl never. Arguments N.mul : simpl never.
Arguments N.div : simpl never. Arguments N.ltb : simpl never. Arguments N.leb : simpl never.
Arguments N.eqb : simpl never.

(* ====================================================================== *)
(** * 1. Closed page sets of strict committed buckets *)

(* below a viewed page: a branch page names pages of [ppages], the entries of a leaf page are entries of the view *)
Lemma PV_closed : forall d h r l, PageView d h r l -> forall q a, In q (r :: ppages h d r) -> dget d q = Some a ->
  match ap_body a with
  | Branches es => forall e, In e es -> In (snd e) (ppages h d r)
  | Leaves l0 => forall e, In e l0 -> In e l
  end.
Proof.
  intros d. induction h as [|h IH]; intros r l HV q a Hq Hg; [inversion HV|].
  inversion HV as [? ? a0 l0 Hg0 Hb0 | ? ? a0 es ls Hg0 Hb0 HF]; subst.
  - cbn [ppages] in Hq. rewrite Hg0, Hb0 in Hq. destruct Hq as [<-|[]]. rewrite Hg0 in Hg. inversion Hg; subst a0.
    rewrite Hb0. auto.
  - cbn [ppages] in Hq |- *. rewrite Hg0, Hb0 in Hq |- *.
    assert (Hcase : q = r \/ exists e, In e es /\ In q (snd e :: ppages h d (snd e))).
    { destruct Hq as [Hq|Hq]; [now left|]. right. apply in_app_or in Hq. destruct Hq as [Hq|Hq].
      - apply in_map_iff in Hq. destruct Hq as (e & <- & He). exists e. split; [exact He | now left].
      - apply in_flat_map in Hq. destruct Hq as (e & He & Hq). exists e. split; [exact He | now right]. }
    destruct Hcase as [->|(e & He & Hqe)].
    + rewrite Hg0 in Hg. inversion Hg; subst a0. rewrite Hb0. intros e He. apply in_or_app. left. now apply in_map.
    + destruct (Forall2_In_left _ _ _ _ HF He) as (le & Hle & Hve).
      specialize (IH _ _ Hve q a Hqe Hg). destruct (ap_body a) as [l1|es1].
      * intros x Hx. apply in_concat. exists le. split; [exact Hle | now apply IH].
      * intros x Hx. apply in_or_app. right. apply in_flat_map. exists e. split; [exact He | now apply IH].
Qed.

Lemma sbk_pos : forall n d r, sbk n d r -> exists n', n = S n'.
Proof. intros [|n] d r H; [destruct H | eauto]. Qed.

(* what [sbk] says in terms of the fuelled readings *)
Lemma sbk_inv : forall n d r, sbk (S n) d r -> exists h, h <= fuel0 /\ PInv h d None None None r /\
  NoDup (ppages fuel0 d r) /\ PageView d h r (page_ents fuel0 d r) /\ ppages fuel0 d r = ppages h d r /\
  Forall (fun e => match e with LBk _ r' _ => sbk n d r' | LKv _ _ => True end) (page_ents fuel0 d r).
Proof.
  intros n d r H. cbn [sbk] in H. destruct H as (h & l & Hh & HP & Hnd & HV & HF). exists h.
  rewrite (PageView_page_ents _ _ _ _ HV fuel0 Hh), (ppages_stable _ _ _ _ _ _ HP fuel0 Hh). auto 8.
Qed.

Lemma fpg_head : forall n d r, In r (fpg (S n) d r).
Proof. intros. rewrite fpg_S. now left. Qed.

Lemma fpg_closed : forall n d r, sbk n d r -> closedR d (fpg n d r).
Proof.
  induction n as [|n IH]; intros d r Hs; [destruct Hs|].
  destruct (sbk_inv _ _ _ Hs) as (h & Hh & HP & Hnd & HV & Epp & HF). rewrite Forall_forall in HF.
  intros q a Hq Hg. rewrite fpg_S in Hq. apply in_app_or in Hq. destruct Hq as [Hq|Hq].
  - rewrite Epp in Hq. pose proof (PV_closed _ _ _ _ HV q a Hq Hg) as HC. destruct (ap_body a) as [l0|es].
    + intros k r' nx He. specialize (HC _ He). rewrite fpg_S. apply in_or_app. right. apply in_flat_map.
      exists (LBk k r' nx). split; [exact HC|]. specialize (HF _ HC). cbn beta iota in HF.
      destruct (sbk_pos _ _ _ HF) as [n' ->]. apply fpg_head.
    + intros e He. rewrite fpg_S, Epp. apply in_or_app. left. right. now apply HC.
  - apply in_flat_map in Hq. destruct Hq as (e0 & He0 & Hq). destruct e0 as [k0 v0|k0 r0 nx0]; [destruct Hq|].
    specialize (HF _ He0). cbn beta iota in HF. specialize (IH d r0 HF q a Hq Hg).
    assert (Hsub : forall x, In x (fpg n d r0) -> In x (fpg (S n) d r)).
    { intros x Hx. rewrite fpg_S. apply in_or_app. right. apply in_flat_map. exists (LBk k0 r0 nx0). auto. }
    destruct (ap_body a) as [l0|es]; [intros k r' nx He; apply Hsub; eapply IH; eauto | intros e He; apply Hsub; now apply IH].
Qed.

(* ====================================================================== *)
(** * 2. The parts of a footprint *)

Lemma NoDup_flat_map_piece : forall {A B} (g : A -> list B) l e, NoDup (flat_map g l) -> In e l -> NoDup (g e).
Proof.
  intros A B g. induction l as [|a l IH]; intros e H He; [destruct He|]. cbn [flat_map] in H.
  destruct He as [->|He]; [eapply NoDup_app_l; eauto | apply IH; [eapply NoDup_app_r; eauto | exact He]].
Qed.

Lemma NoDup_flat_map_disj : forall {A B} (g : A -> list B) l e1 e2 x, NoDup (flat_map g l) -> In e1 l -> In e2 l ->
  e1 <> e2 -> In x (g e1) -> In x (g e2) -> False.
Proof.
  intros A B g. induction l as [|a l IH]; intros e1 e2 x H H1 H2 Hne X1 X2; [destruct H1|]. cbn [flat_map] in H.
  destruct H1 as [->|H1], H2 as [->|H2].
  - now apply Hne.
  - eapply NoDup_app_disj; [exact H | exact X1 |]. apply in_flat_map. eauto.
  - eapply NoDup_app_disj; [exact H | exact X2 |]. apply in_flat_map. eauto.
  - eapply (IH e1 e2 x); eauto. eapply NoDup_app_r; eauto.
Qed.

(* the runs of the nested bucket under a committed entry *)
Definition eruns (d : disk) (n : nat) (e : leafent) : list N :=
  match e with LBk _ r _ => runs d (fpg n d r) | LKv _ _ => [] end.

Lemma foot_S_gen : forall d n r0, r0 <> 0%N ->
  foot d (S n) r0 = region d r0 ++ flat_map (eruns d n) (page_ents fuel0 d r0).
Proof.
  intros d n r0 Hr. unfold foot, region. destruct (N.eqb_spec r0 0) as [E|_]; [contradiction|].
  rewrite fpg_S, runs_app, runs_flat_map. f_equal. apply flat_map_ext. intros [k v|k r nx]; reflexivity.
Qed.

Lemma foot_eruns : forall d n k r nx x, In x (foot d n r) -> In x (eruns d n (LBk k r nx)).
Proof. intros d n k r nx x H. unfold foot in H. cbn [eruns]. destruct (r =? 0)%N; [destruct H | exact H]. Qed.

Lemma foot_zero : forall d n, foot d n 0 = [].
Proof. reflexivity. Qed.
Lemma region_zero : forall d, region d 0 = [].
Proof. reflexivity. Qed.

(* the three disjointness facts used throughout *)
Lemma foot_parts : forall d n r0, r0 <> 0%N -> NoDup (foot d (S n) r0) ->
  NoDup (region d r0) /\
  (forall k r nx, In (LBk k r nx) (page_ents fuel0 d r0) ->
     NoDup (foot d n r) /\ (forall x, In x (foot d n r) -> ~ In x (region d r0))) /\
  (forall k1 r1 nx1 k2 r2 nx2, In (LBk k1 r1 nx1) (page_ents fuel0 d r0) -> In (LBk k2 r2 nx2) (page_ents fuel0 d r0) ->
     k1 <> k2 -> forall x, In x (foot d n r1) -> In x (foot d n r2) -> False).
Proof.
  intros d n r0 Hr H. rewrite (foot_S_gen d n r0 Hr) in H. split; [eapply NoDup_app_l; eauto|]. split.
  - intros k r nx He. split.
    + unfold foot. destruct (r =? 0)%N; [constructor|].
      apply (NoDup_flat_map_piece (eruns d n) _ (LBk k r nx) (NoDup_app_r _ _ H) He).
    + intros x Hx Hreg. eapply NoDup_app_disj; [exact H | exact Hreg |]. apply in_flat_map.
      exists (LBk k r nx). split; [exact He | eapply foot_eruns; eauto].
  - intros k1 r1 nx1 k2 r2 nx2 H1 H2 Hne x X1 X2.
    eapply (NoDup_flat_map_disj (eruns d n) _ (LBk k1 r1 nx1) (LBk k2 r2 nx2) x (NoDup_app_r _ _ H) H1 H2).
    + intros E. inversion E. contradiction.
    + eapply foot_eruns; eauto.
    + eapply foot_eruns; eauto.
Qed.

(* the region is the first part of the footprint *)
Lemma region_prefix : forall d n r, exists rest, foot d (S n) r = region d r ++ rest.
Proof.
  intros d n r. unfold foot, region. destruct (r =? 0)%N; [exists []; reflexivity|].
  rewrite fpg_S, runs_app. eauto.
Qed.

Lemma NoDup_region : forall d n r, NoDup (foot d (S n) r) -> NoDup (region d r).
Proof. intros d n r H. destruct (region_prefix d n r) as [rest E]. rewrite E in H. eapply NoDup_app_l; eauto. Qed.

Lemma foot_nonzero : forall d n r x, In x (foot d n r) -> r <> 0%N.
Proof. intros d n r x H E. subst r. destruct H. Qed.

(* ====================================================================== *)
(** * 3. [free_tree] frees page runs of a closed set only *)

Lemma free_tree_sound : forall fuel d C stack s s1, closedR d C -> (forall p, In p stack -> In p C) ->
  free_tree fuel d stack s = Ok s1 ->
  forall x, freed_in_tx s1 x = true -> freed_in_tx s x = true \/ In x (runs d C).
Proof.
  induction fuel as [|f IH]; intros d C stack s s1 HC Hst H x Hx; cbn [free_tree] in H; [discriminate|].
  destruct stack as [|p rest]; [inversion H; subst; now left|].
  destruct (dget d p) as [a|] eqn:Hg; [|discriminate].
  assert (Hp : In p C) by (apply Hst; now left).
  destruct (fun Hst' => IH d C _ _ s1 HC Hst' H x Hx) as [Hf|Hf]; [| | now right].
  - intros q Hq. apply in_app_or in Hq. destruct Hq as [Hq|Hq]; [|apply Hst; now right].
    apply in_rev in Hq. specialize (HC p a Hp Hg). destruct (ap_body a) as [l|es].
    + apply in_flat_map in Hq. destruct Hq as ([k v|k r nx] & He & Hq); [destruct Hq|]. destruct Hq as [<-|[]]. eauto.
    + apply in_map_iff in Hq. destruct Hq as (e & <- & He). now apply HC.
  - apply free_pages_freed in Hf. destruct Hf as [Hf|Hf]; [now left|]. right. apply In_runs. exists p. split; [exact Hp|].
    unfold prun. rewrite Hg. apply In_nrun. exact Hf.
Qed.

Lemma free_tree_pend_ids : forall fuel d stack s s1, free_tree fuel d stack s = Ok s1 -> pend_ids_ok s -> pend_ids_ok s1.
Proof.
  induction fuel as [|f IH]; intros d stack s s1 H Hp; cbn [free_tree] in H; [discriminate|].
  destruct stack as [|p rest]; [inversion H; subst; exact Hp|].
  destruct (dget d p) as [a|]; [|discriminate]. eapply IH; [exact H|]. now apply free_pages_pend_ids.
Qed.

(* the walk over the committed tree of a strict bucket frees inside its footprint *)
Lemma free_tree_foot : forall fuel d n r s s1, sbk n d r -> r <> 0%N -> free_tree fuel d [r] s = Ok s1 ->
  forall x, freed_in_tx s1 x = true -> freed_in_tx s x = true \/ In x (foot d n r).
Proof.
  intros fuel d n r s s1 Hs Hr H x Hx. destruct (sbk_pos _ _ _ Hs) as [n' ->].
  destruct (fun Hst' => free_tree_sound fuel d (fpg (S n') d r) [r] s s1 (fpg_closed _ _ _ Hs) Hst' H x Hx) as [Hf|Hf];
    [| now left |].
  - intros p [<-|[]]. apply fpg_head.
  - right. unfold foot. destruct (N.eqb_spec r 0); [contradiction | exact Hf].
Qed.

(* steps that change the sequence counter only *)
Lemma sbs_freed : forall s s' x, same_but_seqc s s' -> freed_in_tx s' x = freed_in_tx s x.
Proof. intros s s' x (_ & Hp & Ht & _). unfold freed_in_tx. now rewrite Hp, Ht. Qed.

Lemma sbs_pend_ids : forall s s', same_but_seqc s s' -> pend_ids_ok s -> pend_ids_ok s'.
Proof. intros s s' (_ & Hp & Ht & _). now apply pend_ids_ok_ext. Qed.

(* ====================================================================== *)
(** * 4. The ownership invariant in the form that holds before rebalance *)

(* [OwnS] is [OwnI] plus: the bucket still sits on the root page its entry names (rebalance may promote another
   page); an entry that is not created by this transaction is a committed entry of a COMMITTED bucket (r0 <> 0) *)
Fixpoint OwnS (d : disk) (n : nat) (s : txs) (b : bucket) (r0 : N) : Prop :=
  match n with
  | O => False
  | S n' =>
      b_root_page b = r0 /\
      (r0 = 0%N \/ sbk (S n') d r0) /\ NoDup (foot d (S n') r0) /\ bpg_ok d b /\
      exists l, bucket_view d b l /\
        NoDup (bown d b) /\
        (forall x, In x (bown d b) -> In x (region d r0) /\ freed_in_tx s x = false) /\
        (forall k r nx, In (LBk k r nx) l -> r = 0%N \/ (r0 <> 0%N /\ In (LBk k r nx) (page_ents fuel0 d r0))) /\
        (forall k r nx, In (LBk k r nx) l -> sub_find k (b_subs b) = None ->
           forall x, In x (foot d n' r) -> freed_in_tx s x = false) /\
        (forall k sb, In (k, sb) (b_subs b) -> exists r nx, In (LBk k r nx) l /\ OwnS d n' s sb r)
  end.

Theorem OwnS_OwnI : forall d n s b r0, OwnS d n s b r0 -> OwnI d n s b r0.
Proof.
  intros d. induction n as [|n IH]; intros s b r0 H; [destruct H|]. cbn [OwnS] in H. cbn [OwnI].
  destruct H as (_ & H1 & H2 & H3 & l & Hv & A & B & C & D & E). repeat (split; [assumption|]).
  exists l. repeat (split; [assumption|]). split; [|split; [exact D|]].
  - intros k r nx He. destruct (C k r nx He) as [->|[_ Hc]]; auto.
  - intros k sb Hk. destruct (E k sb Hk) as (r & nx & He & Ho). exists r, nx. split; [exact He | now apply IH].
Qed.

(* the footprint of an entry lies in the footprint of the bucket *)
Lemma ent_foot_in : forall d n r0 k r nx x,
  r = 0%N \/ (r0 <> 0%N /\ In (LBk k r nx) (page_ents fuel0 d r0)) -> In x (foot d n r) -> In x (foot d (S n) r0).
Proof.
  intros d n r0 k r nx x [->|[Hr He]] Hx; [destruct Hx|]. eapply sub_foot; eauto.
Qed.

(* [OwnS] speaks of "not freed" only, and only about pages of the footprint *)
Lemma OwnS_freed_mono : forall d n s s2 b r0, OwnS d n s b r0 ->
  (forall x, In x (foot d n r0) -> freed_in_tx s x = false -> freed_in_tx s2 x = false) -> OwnS d n s2 b r0.
Proof.
  intros d. induction n as [|n IH]; intros s s2 b r0 H Hm; [destruct H|]. cbn [OwnS] in H |- *.
  destruct H as (H0 & H1 & H2 & H3 & l & Hv & A & B & C & D & E). repeat (split; [assumption|]).
  exists l. repeat (split; [assumption|]). split; [|split; [exact C|split]].
  - intros x Hx. destruct (B x Hx) as [B1 B2]. split; [exact B1|]. apply Hm; [now apply region_foot | exact B2].
  - intros k r nx He Hsf x Hx. apply Hm; [eapply ent_foot_in; eauto | eapply D; eauto].
  - intros k sb Hk. destruct (E k sb Hk) as (r & nx & He & Ho). exists r, nx. split; [exact He|].
    apply (IH s s2 sb r Ho). intros x Hx. apply Hm. eapply ent_foot_in; eauto.
Qed.

Lemma OwnS_ext : forall d n s s2 b r0, OwnS d n s b r0 -> (forall x, freed_in_tx s2 x = freed_in_tx s x) ->
  OwnS d n s2 b r0.
Proof. intros d n s s2 b r0 H E. eapply OwnS_freed_mono; [exact H|]. intros x _ Hx. now rewrite E. Qed.

(* a step that frees only pages outside the footprint *)
Lemma OwnS_frame : forall d n s s2 b r0 (F : N -> Prop), OwnS d n s b r0 ->
  (forall x, freed_in_tx s2 x = true -> freed_in_tx s x = true \/ F x) ->
  (forall x, F x -> ~ In x (foot d n r0)) -> OwnS d n s2 b r0.
Proof.
  intros d n s s2 b r0 F H Hf Hd. eapply OwnS_freed_mono; [exact H|]. intros x Hx Hs.
  destruct (freed_in_tx s2 x) eqn:E; [|reflexivity]. destruct (Hf x E) as [Hc|Hc]; [congruence|].
  exfalso. eapply Hd; eauto.
Qed.

Lemma bheads_tree : forall d b b', b_root_page b' = b_root_page b -> b_rootn b' = b_rootn b -> bheads d b' = bheads d b.
Proof. intros d b b' E1 E2. unfold bheads. now rewrite E1, E2. Qed.

(* only the tree and the opened sub-buckets matter *)
Lemma OwnS_tree : forall d n s b b' r0, b_root_page b' = b_root_page b -> b_rootn b' = b_rootn b ->
  b_subs b' = b_subs b -> OwnS d n s b r0 -> OwnS d n s b' r0.
Proof.
  intros d [|n] s b b' r0 E1 E2 E3 H; [destruct H|]. cbn [OwnS] in H |- *.
  destruct H as (H0 & H1 & H2 & H3 & l & Hv & A & B & C & D & E).
  unfold bown, bpg_ok in *. rewrite (bheads_tree d b b' E1 E2), E1, E2, E3. repeat (split; [assumption|]).
  exists l. split; [eapply bucket_view_tree; eauto|]. auto.
Qed.

(* the clauses, against a view already at hand *)
Lemma OwnS_inv : forall d n s b r0 l, OwnS d (S n) s b r0 -> bucket_view d b l ->
  b_root_page b = r0 /\ (r0 = 0%N \/ sbk (S n) d r0) /\ NoDup (foot d (S n) r0) /\ bpg_ok d b /\
  NoDup (bown d b) /\
  (forall x, In x (bown d b) -> In x (region d r0) /\ freed_in_tx s x = false) /\
  (forall k r nx, In (LBk k r nx) l -> r = 0%N \/ (r0 <> 0%N /\ In (LBk k r nx) (page_ents fuel0 d r0))) /\
  (forall k r nx, In (LBk k r nx) l -> sub_find k (b_subs b) = None ->
     forall x, In x (foot d n r) -> freed_in_tx s x = false) /\
  (forall k sb, In (k, sb) (b_subs b) -> exists r nx, In (LBk k r nx) l /\ OwnS d n s sb r).
Proof.
  intros d n s b r0 l H Hv. cbn [OwnS] in H. destruct H as (H0 & H1 & H2 & H3 & l' & Hv' & A & B & C & D & E).
  rewrite (bucket_view_det d b l l' Hv Hv'). auto 12.
Qed.

Lemma OwnS_pos : forall d n s b r0, OwnS d n s b r0 -> exists n', n = S n'.
Proof. intros d [|n] s b r0 H; [destruct H | eauto]. Qed.

(* entries of a sorted view and the association list *)
Lemma In_LBk_alookup : forall l k r nx, sorted_keys (map lkey l) = true -> In (LBk k r nx) l ->
  Spec.alookup k (assoc l) = Some (LBk k r nx).
Proof. intros l k r nx Hs H. exact (In_alookup l (LBk k r nx) Hs H). Qed.

Lemma alookup_LBk_In : forall l k k' r nx, Spec.alookup k (assoc l) = Some (LBk k' r nx) -> k' = k /\ In (LBk k r nx) l.
Proof. intros l k k' r nx H. destruct (alookup_assoc_key _ _ _ H) as [E Hin]. cbn [lkey] in E. subst k'. auto. Qed.

(* ====================================================================== *)
(** * 5. [b_modify]: same head pages, page runs as on the committed disk *)

Lemma pg_ok_node_of_page : forall d q a sq, dget d q = Some a -> pg_ok d (node_of_page q a sq).
Proof.
  intros d q a sq Hg. constructor; unfold node_of_page; cbn [n_page n_np n_kids]; [|intros k []]. intros _. eauto.
Qed.

Lemma modify_pg_ok : forall f d n o s n' s', pg_ok d n -> modify f d n o s = Ok (n', s') -> pg_ok d n'.
Proof.
  induction f as [|f IH]; intros d n o s n' s' Hpg H; [discriminate|].
  inversion Hpg as [? Hp Hk]; subst. destruct n as [p np og sq [l|es] ks]; cbn [n_page n_np n_kids] in *.
  - cbn [modify] in H. inversion H; subst. constructor; cbn [n_page n_np n_kids]; assumption.
  - rewrite modify_branch in H. destruct (index_of (Branches es) (lop_key o)) as [i ex].
    destruct (nthN es i) as [[sep q]|]; [|discriminate]. destruct (find_kid q ks) as [kd|] eqn:Ef.
    + apply bind_ok_inv in H. destruct H as ([kd' s1] & Em & H). inversion H; subst. cbn [fst].
      constructor; cbn [n_page n_np n_kids]; [exact Hp|]. intros k Hin. apply replace_kid_In in Hin.
      destruct Hin as [->|Hin]; [|now apply Hk]. eapply IH; [|exact Em]. apply Hk. eapply find_kid_In; eauto.
    + destruct (dget d q) as [a|] eqn:Hg; [|discriminate].
      apply bind_ok_inv in H. destruct H as ([kd' s1] & Em & H). inversion H; subst. cbn [fst].
      constructor; cbn [n_page n_np n_kids]; [exact Hp|]. intros k Hin. apply in_app_or in Hin.
      destruct Hin as [Hin|[<-|[]]]; [now apply Hk|]. eapply IH; [|exact Em]. now apply pg_ok_node_of_page.
Qed.

Lemma b_modify_heads : forall d s b h l o b' s', BLoc d s b h l -> (b_rootn b = None -> b_root_page b <> 0%N) ->
  bpg_ok d b -> b_modify d b o s = Ok (b', s') -> bheads d b' = bheads d b /\ bpg_ok d b'.
Proof.
  intros d s b h l o b' s' HL Hnz Hpg H. destruct (b_modify_BLoc _ _ _ _ _ _ _ _ HL H) as (HL' & _).
  destruct HL as (Hh & HB & _). destruct HL' as (_ & HB' & _). unfold b_modify in H.
  apply bind_ok_inv in H. destruct H as ([root s0] & Er & H).
  apply bind_ok_inv in H. destruct H as ([n' s1] & Em & H). inversion H; subst b' s'. clear H.
  unfold BInv in HB'. cbn [b_rootn] in HB'. destruct HB' as (HI' & _).
  unfold bheads, bpg_ok. cbn [b_rootn b_root_page]. unfold BInv, ensure_root, bpg_ok in *. destruct (b_rootn b) as [n|].
  - inversion Er; subst root s0. destruct HB as (HI & _).
    destruct (modify_npages _ _ _ _ _ _ _ _ _ _ _ HI Em) as [P1 P2].
    rewrite P2, (npages_stable _ _ _ _ _ _ HI' fuel0 Hh), P1, <- (npages_stable _ _ _ _ _ _ HI fuel0 Hh).
    split; [reflexivity | eapply modify_pg_ok; eauto].
  - destruct HB as [HP _]. destruct (dget d (b_root_page b)) as [a|] eqn:Hg; [|discriminate].
    cbn [next_seq] in Er. inversion Er; subst root s0.
    pose proof (node_of_page_Inv _ _ _ _ _ _ _ (seqc s) Hg HP) as I0.
    destruct (modify_npages _ _ _ _ _ _ _ _ _ _ _ I0 Em) as [P1 P2]. change (n_page (node_of_page (b_root_page b) a (seqc s))) with (b_root_page b) in P2.
    rewrite P2, (npages_stable _ _ _ _ _ _ HI' fuel0 Hh), P1, (node_of_page_npages h d _ a _ Hg),
      (ppages_stable _ _ _ _ _ _ HP fuel0 Hh).
    specialize (Hnz eq_refl). destruct (N.eqb_spec (b_root_page b) 0) as [E|_]; [contradiction|].
    split; [reflexivity|]. eapply modify_pg_ok; [|exact Em]. now apply pg_ok_node_of_page.
Qed.

(* ====================================================================== *)
(** * 6. The operations preserve [OwnS] *)

Lemma BLoc_view : forall d s b h l, BLoc d s b h l -> bucket_view d b l.
Proof. intros d s b h l (Hh & _ & _ & _ & HV). exists h. auto. Qed.

Section Ops.
Variables (d : disk) (R : list N).
Hypothesis HCR : closedR d R.
Hypothesis Hnz : forall x, In x R -> x <> 0%N.

Lemma root_in_nz : forall b, root_in d R b -> b_rootn b = None -> b_root_page b <> 0%N.
Proof. intros b H E. unfold root_in in H. rewrite E in H. now apply Hnz. Qed.

(* the result of [b_modify] on the tree of [b] (possibly after pages outside its region were freed, with a new
   counter and a new list of opened sub-buckets) *)
Lemma OwnS_modified : forall n s b r0 h l o s1 b1 b2 s2 nx' subs',
  OwnS d (S n) s b r0 -> BLoc d s1 b1 h l -> b_root_page b1 = b_root_page b -> b_rootn b1 = b_rootn b ->
  root_in d R b ->
  b_modify d b1 o s1 = Ok (b2, s2) ->
  (forall x, In x (region d r0) -> freed_in_tx s x = false -> freed_in_tx s1 x = false) ->
  (forall k r nx, In (LBk k r nx) (apply_lop o l) -> In (LBk k r nx) l \/ r = 0%N) ->
  (forall k r nx, In (LBk k r nx) (apply_lop o l) -> sub_find k subs' = None ->
     forall x, In x (foot d n r) -> freed_in_tx s1 x = false) ->
  (forall k sb, In (k, sb) subs' -> exists r nx, In (LBk k r nx) (apply_lop o l) /\ OwnS d n s1 sb r) ->
  OwnS d (S n) s2 (Bucket (b_root_page b2) nx' true (b_rootn b2) subs') r0.
Proof.
  intros n s b r0 h l o s1 b1 b2 s2 nx' subs' HO HL E1 E2 HR Hm Hreg Hent Hun Hsub.
  assert (Hv : bucket_view d b l) by (eapply (bucket_view_tree d b1); eauto using BLoc_view).
  destruct (OwnS_inv _ _ _ _ _ _ HO Hv) as (H0 & H1 & H2 & H3 & A & B & C & D & E).
  destruct (b_modify_BLoc _ _ _ _ _ _ _ _ HL Hm) as (HL' & _ & Hr & _ & _ & _ & Hss).
  assert (Hpg1 : bpg_ok d b1) by (unfold bpg_ok in *; now rewrite E2).
  assert (Hnz1 : b_rootn b1 = None -> b_root_page b1 <> 0%N).
  { rewrite E1, E2. now apply root_in_nz. }
  destruct (b_modify_heads _ _ _ _ _ _ _ _ HL Hnz1 Hpg1 Hm) as [Hhd Hpg2].
  rewrite (bheads_tree d b b1 E1 E2) in Hhd.
  set (B' := Bucket (b_root_page b2) nx' true (b_rootn b2) subs').
  assert (Hhd' : bheads d B' = bheads d b) by (rewrite <- Hhd; now apply bheads_tree).
  cbn [OwnS]. split; [cbn [B' b_root_page]; congruence|]. split; [exact H1|]. split; [exact H2|].
  split; [exact Hpg2|]. exists (apply_lop o l).
  split; [eapply (bucket_view_tree d b2); [reflexivity | reflexivity | eapply BLoc_view; eauto]|].
  unfold bown. rewrite Hhd'. split; [exact A|]. split; [|split; [|split]].
  - intros x Hx. destruct (B x Hx) as [B1 B2]. split; [exact B1|]. rewrite (sbs_freed _ _ _ Hss). auto.
  - intros k r nx He. destruct (Hent k r nx He) as [Hin|Hz]; [eauto | now left].
  - intros k r nx He Hsf x Hx. rewrite (sbs_freed _ _ _ Hss). eapply Hun; eauto.
  - intros k sb Hk. destruct (Hsub k sb Hk) as (r & nx & He & Ho). exists r, nx. split; [exact He|].
    eapply OwnS_ext; [exact Ho|]. intros x. now apply sbs_freed.
Qed.

(* the contract of an operation applied at the end of a path *)
Definition own_pres (f : bucket -> txs -> res (bucket * txs)) : Prop :=
  forall n k b s b' s' r0, 2 <= n -> 2 <= k -> SDeep d s b -> XDF d R k b -> OwnS d n s b r0 -> pend_ids_ok s ->
    f b s = Ok (b', s') ->
    OwnS d n s' b' r0 /\
    (forall x, freed_in_tx s' x = true -> freed_in_tx s x = true \/ In x (foot d n r0)) /\ pend_ids_ok s'.

(* entries of the view under a leaf operation *)
Lemma apply_lop_In' : forall o l y, In y (apply_lop o l) -> In y l \/ o = OpIns y.
Proof.
  intros [e|k] l y H; cbn [apply_lop] in *.
  - unfold leaf_insert in H. destruct (Engine.bsearch (map lkey l) (lkey e)) as [[|] i].
    + apply replace_at_In in H. destruct H as [->|H]; auto.
    + apply insert_at_In in H. destruct H as [->|H]; auto.
  - unfold leaf_delete in H. destruct (Engine.bsearch (map lkey l) k) as [[|] i]; auto.
    apply remove_at_In in H. auto.
Qed.

Lemma ent_kept : forall o l k r nx, sorted_keys (map lkey l) = true -> In (LBk k r nx) l -> k <> lop_key o ->
  In (LBk k r nx) (apply_lop o l).
Proof.
  intros o l k r nx Hs Hin Hne. pose proof (In_LBk_alookup _ _ _ _ Hs Hin) as Hal.
  assert (Hal' : Spec.alookup k (assoc (apply_lop o l)) = Some (LBk k r nx)).
  { rewrite (apply_lop_assoc o l Hs). destruct o as [e|k0]; cbn [aop lop_key] in *.
    - now rewrite alookup_ainsert, (beq_false_ne _ _ Hne).
    - rewrite alookup_aremove by now rewrite assoc_keys. now rewrite (beq_false_ne _ _ Hne). }
  now apply alookup_LBk_In in Hal'.
Qed.

(* an operation on a plain key: the nested-bucket entries and the opened sub-buckets are untouched *)
Lemma kvop_own : forall n s b r0 h l o b2 s2 nx', OwnS d (S n) s b r0 -> BLoc d s b h l -> root_in d R b ->
  (forall k r nx, o <> OpIns (LBk k r nx)) -> (forall r nx, ~ In (LBk (lop_key o) r nx) l) ->
  b_modify d b o s = Ok (b2, s2) ->
  OwnS d (S n) s2 (Bucket (b_root_page b2) nx' true (b_rootn b2) (b_subs b)) r0.
Proof.
  intros n s b r0 h l o b2 s2 nx' HO HL HR Hno Hnk Hm.
  pose proof (BLoc_sorted _ _ _ _ _ HL) as Hs.
  destruct (OwnS_inv _ _ _ _ _ _ HO (BLoc_view _ _ _ _ _ HL)) as (H0 & H1 & H2 & H3 & A & B & C & D & E).
  apply (OwnS_modified n s b r0 h l o s b b2 s2 nx' (b_subs b) HO HL eq_refl eq_refl HR Hm).
  - auto.
  - intros k r nx He. apply apply_lop_In' in He. destruct He as [He|He]; [now left | exfalso; eapply Hno; eauto].
  - intros k r nx He Hsf x Hx. apply apply_lop_In' in He. destruct He as [He|He]; [|exfalso; eapply Hno; eauto].
    eapply D; eauto.
  - intros k sb Hk. destruct (E k sb Hk) as (r & nx & He & Ho). exists r, nx. split; [|exact Ho].
    apply ent_kept; [exact Hs | exact He|]. intros ->. eapply Hnk; eauto.
Qed.

Lemma no_LBk_of_lookup : forall l k, sorted_keys (map lkey l) = true ->
  (forall k0 r nx, Spec.alookup k (assoc l) <> Some (LBk k0 r nx)) -> forall r nx, ~ In (LBk k r nx) l.
Proof. intros l k Hs Hal r nx Hin. eapply Hal. eapply In_LBk_alookup; eauto. Qed.

Lemma own_unchanged : forall n (b : bucket) (s : txs) r0, OwnS d n s b r0 -> pend_ids_ok s ->
  OwnS d n s b r0 /\
  (forall x, freed_in_tx s x = true -> freed_in_tx s x = true \/ In x (foot d n r0)) /\ pend_ids_ok s.
Proof. intros. auto. Qed.

Theorem put_own : forall k v, own_pres (fun b s => soft (b, s) (b_put d b k v s)).
Proof.
  intros k v n kk b s b' s' r0 Hn Hkk HD HX HO Hp H. cbn beta in H. destruct (SDeep_inv _ _ _ HD) as (h & l & HL & HS).
  apply soft_ok_inv in H. destruct H as [H | [E _]]; [|inversion E; subst; now apply own_unchanged].
  destruct (XDF_inv _ _ _ _ _ _ _ HX HL) as (f' & _ & HR & _).
  destruct (OwnS_pos _ _ _ _ _ HO) as [n' ->]. pose proof (BLoc_sorted _ _ _ _ _ HL) as Hs.
  unfold b_put in H. rewrite (BLoc_lookup _ _ _ _ _ k HL) in H. cbn [bind] in H.
  assert (Hno : forall k0 r nx, OpIns (LKv k v) <> OpIns (LBk k0 r nx)) by (intros; discriminate).
  destruct (Spec.alookup k (assoc l)) as [[k0 v0|k0 r nx]|] eqn:Hal; cbn [is_kv] in H; try discriminate.
  - destruct (b_modify_BLoc _ _ _ _ _ _ _ _ HL H) as (_ & _ & _ & _ & Hsb & Hd & Hss).
    pose proof (kvop_own n' s b r0 h l _ b' s' (b_next b') HO HL HR Hno) as HK. cbn [lop_key lkey] in HK.
    specialize (HK (no_LBk_of_lookup l k Hs ltac:(intros; rewrite Hal; discriminate)) H).
    destruct b' as [r' nx' dt' rn' sbs']. cbn [b_dirty b_subs b_root_page b_rootn b_next] in *. subst dt' sbs'.
    split; [exact HK|]. split; [|eapply sbs_pend_ids; eauto]. intros x Hx. left. now rewrite <- (sbs_freed _ _ x Hss).
  - apply bind_ok_inv in H. destruct H as ([b2 s2] & Hm & H). inversion H; subst b' s'. clear H.
    destruct (b_modify_BLoc _ _ _ _ _ _ _ _ HL Hm) as (_ & _ & _ & _ & Hsb & Hd & Hss).
    pose proof (kvop_own n' s b r0 h l _ b2 s2 (b_next b2 + 1)%N HO HL HR Hno) as HK. cbn [lop_key lkey] in HK.
    specialize (HK (no_LBk_of_lookup l k Hs ltac:(intros; rewrite Hal; discriminate)) Hm). rewrite Hsb.
    split; [exact HK|]. split; [|eapply sbs_pend_ids; eauto]. intros x Hx. left. now rewrite <- (sbs_freed _ _ x Hss).
Qed.

Theorem del_own : forall k, own_pres (fun b s => soft (b, s) (b_delete d b k s)).
Proof.
  intros k n kk b s b' s' r0 Hn Hkk HD HX HO Hp H. cbn beta in H. destruct (SDeep_inv _ _ _ HD) as (h & l & HL & HS).
  apply soft_ok_inv in H. destruct H as [H | [E _]]; [|inversion E; subst; now apply own_unchanged].
  destruct (XDF_inv _ _ _ _ _ _ _ HX HL) as (f' & _ & HR & _).
  destruct (OwnS_pos _ _ _ _ _ HO) as [n' ->]. pose proof (BLoc_sorted _ _ _ _ _ HL) as Hs.
  unfold b_delete in H. rewrite (BLoc_lookup _ _ _ _ _ k HL) in H. cbn [bind] in H.
  assert (Hno : forall k0 r nx, OpDel k <> OpIns (LBk k0 r nx)) by (intros; discriminate).
  destruct (Spec.alookup k (assoc l)) as [[k0 v0|k0 r nx]|] eqn:Hal; cbn [is_kv] in H; try discriminate.
  destruct (b_modify_BLoc _ _ _ _ _ _ _ _ HL H) as (_ & _ & _ & _ & Hsb & Hd & Hss).
  pose proof (kvop_own n' s b r0 h l _ b' s' (b_next b') HO HL HR Hno) as HK. cbn [lop_key] in HK.
  specialize (HK (no_LBk_of_lookup l k Hs ltac:(intros; rewrite Hal; discriminate)) H).
  destruct b' as [r' nx' dt' rn' sbs']. cbn [b_dirty b_subs b_root_page b_rootn b_next] in *. subst dt' sbs'.
  split; [exact HK|]. split; [|eapply sbs_pend_ids; eauto]. intros x Hx. left. now rewrite <- (sbs_freed _ _ x Hss).
Qed.

Theorem touch_own : own_pres (fun b s => Ok (b, s)).
Proof. intros n kk b s b' s' r0 _ _ _ _ HO Hp H. inversion H; subst. now apply own_unchanged. Qed.

(** ** Opening and creating buckets *)

(* a freshly opened committed bucket *)
Lemma open_OwnS : forall n s r nx, r <> 0%N -> sbk (S n) d r -> NoDup (foot d (S n) r) ->
  (forall x, In x (foot d (S n) r) -> freed_in_tx s x = false) -> OwnS d (S n) s (Bucket r nx false None []) r.
Proof.
  intros n s r nx Hr Hs Hnd Hfr. destruct (sbk_inv _ _ _ Hs) as (h & Hh & HP & _ & HV & _ & HF).
  cbn [OwnS]. split; [reflexivity|]. split; [now right|]. split; [exact Hnd|]. split; [exact I|].
  exists (page_ents fuel0 d r). split; [exists h; split; [exact Hh | exact HV]|].
  assert (Eb : bown d (Bucket r nx false None []) = region d r).
  { unfold bown, bheads, region. cbn [b_rootn b_root_page]. destruct (N.eqb_spec r 0); [contradiction | reflexivity]. }
  rewrite Eb. split; [eapply NoDup_region; eauto|]. split; [|split; [|split]].
  - intros x Hx. split; [exact Hx|]. apply Hfr. now apply region_foot.
  - intros k r' nx' He. right. auto.
  - intros k r' nx' He _ x Hx. apply Hfr. eapply sub_foot; eauto.
  - intros k sb [].
Qed.

(* a freshly created bucket *)
Lemma new_OwnS : forall n s sq, OwnS d (S n) s (Bucket 0 0 true (Some (Node 0 0 None sq (Leaves []) [])) []) 0.
Proof.
  intros n s sq. cbn [OwnS]. split; [reflexivity|]. split; [now left|]. split; [rewrite foot_zero; constructor|]. split.
  - unfold bpg_ok. cbn [b_rootn]. constructor; cbn [n_page n_kids]; [intros Hc; now contradiction Hc | intros k []].
  - exists []. split.
    + exists 1. split; [unfold fuel0; lia|]. unfold BucketView. cbn [b_rootn]. apply NV_leaf.
    + assert (Eb : bown d (Bucket 0 0 true (Some (Node 0 0 None sq (Leaves []) [])) []) = []).
      { unfold bown, bheads. cbn [b_rootn n_page]. rewrite N.eqb_refl, npages_leaf by reflexivity. reflexivity. }
      rewrite Eb. split; [constructor|]. split; [intros x []|]. split; [intros k r nx []|].
      split; [intros k r nx [] | intros k sb []].
Qed.

Lemma In_sub_put : forall name sb subs x, In x (sub_put name sb subs) -> x = (name, sb) \/ In x subs.
Proof.
  intros name sb. induction subs as [|[n' b'] r IH]; intros x H; cbn [sub_put] in H.
  - destruct H as [<-|[]]. now left.
  - destruct (beq n' name).
    + destruct H as [<-|H]; [now left | right; now right].
    + destruct H as [<-|H]; [right; now left|]. destruct (IH x H) as [->|Hr]; [now left | right; now right].
Qed.

(* a new list of opened sub-buckets (and a later transaction state) over the same tree *)
Lemma OwnS_resub : forall n s s2 b r0 l nx' dt' subs', OwnS d (S n) s b r0 -> bucket_view d b l ->
  (forall x, In x (region d r0) -> freed_in_tx s x = false -> freed_in_tx s2 x = false) ->
  (forall k r nx, In (LBk k r nx) l -> sub_find k subs' = None -> forall x, In x (foot d n r) -> freed_in_tx s2 x = false) ->
  (forall k sb, In (k, sb) subs' -> exists r nx, In (LBk k r nx) l /\ OwnS d n s2 sb r) ->
  OwnS d (S n) s2 (Bucket (b_root_page b) nx' dt' (b_rootn b) subs') r0.
Proof.
  intros n s s2 b r0 l nx' dt' subs' HO Hv Hreg Hun Hsub.
  destruct (OwnS_inv _ _ _ _ _ _ HO Hv) as (H0 & H1 & H2 & H3 & A & B & C & D & E).
  set (B' := Bucket (b_root_page b) nx' dt' (b_rootn b) subs').
  cbn [OwnS]. split; [exact H0|]. split; [exact H1|]. split; [exact H2|]. split; [exact H3|]. exists l.
  split; [eapply (bucket_view_tree d b); [reflexivity | reflexivity | exact Hv]|].
  unfold bown. rewrite (bheads_tree d b B' eq_refl eq_refl). split; [exact A|]. split; [|auto].
  intros x Hx. destruct (B x Hx) as [B1 B2]. auto.
Qed.

(* the bucket opened under an entry that was not opened yet *)
Lemma entry_sub : forall n s b r0 l name r nx, OwnS d (S (S n)) s b r0 -> bucket_view d b l ->
  In (LBk name r nx) l -> r <> 0%N -> sub_find name (b_subs b) = None ->
  OwnS d (S n) s (Bucket r nx false None []) r.
Proof.
  intros n s b r0 l name r nx HO Hv He Hr Hsf.
  destruct (OwnS_inv _ _ _ _ _ _ HO Hv) as (H0 & H1 & H2 & H3 & A & B & C & D & E).
  destruct (C _ _ _ He) as [Hz|[Hr0 Hc]]; [contradiction|]. destruct H1 as [H1|H1]; [contradiction|].
  destruct (sbk_inv _ _ _ H1) as (h & _ & _ & _ & _ & _ & HF). rewrite Forall_forall in HF. specialize (HF _ Hc).
  cbn beta iota in HF. destruct (foot_parts d (S n) r0 Hr0 H2) as (_ & P2 & _). destruct (P2 _ _ _ Hc) as [Hnd _].
  apply open_OwnS; auto. intros x Hx. eapply D; eauto.
Qed.

Lemma open_sub_own : forall n kk s b r0 h l name k0 r nx, OwnS d (S (S n)) s b r0 -> BLoc d s b h l -> XDF d R kk b ->
  sub_find name (b_subs b) = None -> Spec.alookup name (assoc l) = Some (LBk k0 r nx) ->
  OwnS d (S (S n)) s (Bucket (b_root_page b) (b_next b) (b_dirty b) (b_rootn b)
                        (sub_put name (Bucket r nx false None []) (b_subs b))) r0.
Proof.
  intros n kk s b r0 h l name k0 r nx HO HL HX Hsf Hal. pose proof (BLoc_view _ _ _ _ _ HL) as Hv.
  destruct (XDF_inv _ _ _ _ _ _ _ HX HL) as (f' & _ & _ & _ & HU & _).
  assert (Hr : r <> 0%N) by (apply Hnz; eapply HU; eauto).
  destruct (alookup_LBk_In _ _ _ _ _ Hal) as [-> He].
  destruct (OwnS_inv _ _ _ _ _ _ HO Hv) as (H0 & H1 & H2 & H3 & A & B & C & D & E).
  apply (OwnS_resub (S n) s s b r0 l _ _ _ HO Hv); [auto | |].
  - intros k r' nx' He' Hs x Hx. apply sub_find_put_None in Hs. destruct Hs as [_ Hs]. eapply D; eauto.
  - intros k sb Hk. apply In_sub_put in Hk. destruct Hk as [Hk|Hk]; [|now apply E].
    inversion Hk; subst k sb. exists r, nx. split; [exact He|]. eapply entry_sub; eauto.
Qed.

Lemma In_apply_ins : forall l e, sorted_keys (map lkey l) = true -> In e (apply_lop (OpIns e) l).
Proof.
  intros l e Hs. assert (Hal : Spec.alookup (lkey e) (assoc (apply_lop (OpIns e) l)) = Some e).
  { rewrite (apply_lop_assoc _ l Hs). cbn [aop]. now rewrite alookup_ainsert, EngineFacts.beq_refl. }
  now apply alookup_assoc_key in Hal.
Qed.

Theorem goc_own : forall name n kk b s b' s' r0, 2 <= n -> 2 <= kk -> SDeep d s b -> XDF d R kk b -> OwnS d n s b r0 ->
  pend_ids_ok s -> b_get_or_create d b name s = Ok (b', s') ->
  OwnS d n s' b' r0 /\ (forall x, freed_in_tx s' x = freed_in_tx s x) /\ pend_ids_ok s'.
Proof.
  intros name n kk b s b' s' r0 Hn Hkk HD HX HO Hp H. destruct (SDeep_inv _ _ _ HD) as (h & l & HL & HS).
  rewrite b_get_or_create_unfold in H. destruct (sub_find name (b_subs b)) as [sb|] eqn:Hsf.
  { inversion H; subst. auto. }
  rewrite (BLoc_lookup _ _ _ _ _ name HL) in H. cbn [bind] in H.
  destruct n as [|[|n]]; try lia.
  destruct (Spec.alookup name (assoc l)) as [[k0 v0|k0 r nx]|] eqn:Hal; try discriminate.
  - inversion H; subst b' s'. split; [eapply open_sub_own; eauto | auto].
  - apply bind_ok_inv in H. destruct H as ([b2 s2] & Hm & H). cbn [fst snd] in H. inversion H; subst b' s'. clear H.
    destruct (XDF_inv _ _ _ _ _ _ _ HX HL) as (f' & _ & HR & _).
    pose proof (BLoc_sorted _ _ _ _ _ HL) as Hs. pose proof (BLoc_view _ _ _ _ _ HL) as Hv.
    assert (Hle1 : (seqc s <= seqc (snd (next_seq s)))%N) by (cbn; lia).
    pose proof (BLoc_seqc_mono _ _ _ _ _ _ Hle1 HL) as HL1.
    pose proof (same_but_seqc_next s) as Hss1.
    destruct (b_modify_BLoc _ _ _ _ _ _ _ _ HL1 Hm) as (_ & _ & _ & _ & Hsb & _ & Hss).
    destruct (OwnS_inv _ _ _ _ _ _ HO Hv) as (H0 & H1 & H2 & H3 & A & B & C & D & E).
    assert (Hfr : forall x, freed_in_tx s2 x = freed_in_tx s x).
    { intros x. now rewrite (sbs_freed _ _ x Hss), (sbs_freed _ _ x Hss1). }
    split; [|split; [exact Hfr | eapply sbs_pend_ids; [exact Hss | eapply sbs_pend_ids; eauto]]]. rewrite Hsb.
    apply (OwnS_modified (S n) s b r0 h l _ (snd (next_seq s)) b b2 s2 _ _ HO HL1 eq_refl eq_refl HR Hm).
    + intros x _ Hx. now rewrite (sbs_freed _ _ x Hss1).
    + intros k r nx He. apply apply_lop_In' in He. destruct He as [He|He]; [now left | inversion He; now right].
    + intros k r nx He Hs' x Hx. apply sub_find_put_None in Hs'. destruct Hs' as [Hne Hs'].
      apply apply_lop_In' in He. destruct He as [He|He]; [|inversion He; subst; destruct Hx].
      rewrite (sbs_freed _ _ x Hss1). eapply D; eauto.
    + intros k sb Hk. apply In_sub_put in Hk. destruct Hk as [Hk|Hk].
      * inversion Hk; subst k sb. exists 0%N, 0%N. split; [now apply In_apply_ins | apply new_OwnS].
      * destruct (E k sb Hk) as (r & nx & He & Ho). exists r, nx. split.
        -- apply ent_kept; [exact Hs | exact He|]. cbn [lop_key lkey].
           exact (sub_find_None_In _ _ _ Hsf Hk).
        -- eapply OwnS_ext; [exact Ho|]. intros x. now apply sbs_freed.
Qed.

(** ** [at_path] *)

Lemma In_sub_put_strong : forall name sb subs x, NoDup (map fst subs) -> In x (sub_put name sb subs) ->
  x = (name, sb) \/ (In x subs /\ fst x <> name).
Proof.
  intros name sb. induction subs as [|[n' b'] r IH]; intros x Hnd H; cbn [sub_put] in H.
  - destruct H as [<-|[]]. now left.
  - cbn [map fst] in Hnd. inversion Hnd as [|? ? Hni Hnd']; subst. destruct (beq n' name) eqn:Eb.
    + apply beq_true in Eb. subst n'. destruct H as [<-|H]; [now left|]. right. split; [now right|].
      intros Ex. apply Hni. rewrite <- Ex. now apply in_map.
    + destruct H as [<-|H].
      * right. split; [now left|]. cbn [fst]. intros Ex. subst n'. rewrite EngineFacts.beq_refl in Eb. discriminate.
      * destruct (IH x Hnd' H) as [->|[Hr Hne]]; [now left | right; split; [now right | exact Hne]].
Qed.

(* the footprint of one entry is disjoint from the region and from the footprints of the other entries *)
Lemma sub_disj : forall n r0 l nm r nx, NoDup (foot d (S n) r0) ->
  (forall k r nx, In (LBk k r nx) l -> r = 0%N \/ (r0 <> 0%N /\ In (LBk k r nx) (page_ents fuel0 d r0))) ->
  In (LBk nm r nx) l ->
  (forall x, In x (foot d n r) -> ~ In x (region d r0)) /\
  (forall k r' nx', In (LBk k r' nx') l -> k <> nm -> forall x, In x (foot d n r') -> In x (foot d n r) -> False).
Proof.
  intros n r0 l nm r nx Hnd C He. destruct (C _ _ _ He) as [->|[Hr0 Hc]].
  - split; [intros x []|]. intros k r' nx' _ _ x _ [].
  - destruct (foot_parts d n r0 Hr0 Hnd) as (_ & P2 & P3). split; [apply (P2 _ _ _ Hc)|].
    intros k r' nx' He' Hne x X1 X2. destruct (C _ _ _ He') as [->|[_ Hc']]; [destruct X1|].
    eapply (P3 k r' nx' nm r nx); eauto.
Qed.

(* storing the modified sub-bucket back into its parent *)
Lemma put_back_own : forall n s1 s2 b r0 h l nm sb' r nx,
  OwnS d (S n) s1 b r0 -> BLoc d s1 b h l -> NoDup (map fst (b_subs b)) ->
  In (LBk nm r nx) l -> OwnS d n s2 sb' r ->
  (forall x, freed_in_tx s2 x = true -> freed_in_tx s1 x = true \/ In x (foot d n r)) ->
  OwnS d (S n) s2 (Bucket (b_root_page b) (b_next b) (b_dirty b) (b_rootn b) (sub_put nm sb' (b_subs b))) r0.
Proof.
  intros n s1 s2 b r0 h l nm sb' r nx HO HL Hnd He Ho' Hfr. pose proof (BLoc_view _ _ _ _ _ HL) as Hv.
  destruct (OwnS_inv _ _ _ _ _ _ HO Hv) as (H0 & H1 & H2 & H3 & A & B & C & D & E).
  destruct (sub_disj n r0 l nm r nx H2 C He) as [Q1 Q2].
  apply (OwnS_resub n s1 s2 b r0 l _ _ _ HO Hv).
  - intros x Hx Hs. destruct (freed_in_tx s2 x) eqn:Ef; [|reflexivity].
    destruct (Hfr x Ef) as [Hc|Hc]; [congruence | exfalso; eapply Q1; eauto].
  - intros k r' nx' He' Hs x Hx. apply sub_find_put_None in Hs. destruct Hs as [Hne Hs].
    destruct (freed_in_tx s2 x) eqn:Ef; [|reflexivity].
    destruct (Hfr x Ef) as [Hc|Hc]; [rewrite (D _ _ _ He' Hs x Hx) in Hc; discriminate | exfalso; eapply Q2; eauto].
  - intros k sbk Hk. apply (In_sub_put_strong _ _ _ _ Hnd) in Hk. destruct Hk as [Hk|[Hk Hne]].
    + inversion Hk; subst k sbk. eauto.
    + cbn [fst] in Hne. destruct (E k sbk Hk) as (rk & nxk & Hek & Hok). exists rk, nxk. split; [exact Hek|].
      apply (OwnS_frame d n s1 s2 sbk rk (fun x => In x (foot d n r)) Hok Hfr). intros x X1 X2. eapply Q2; eauto.
Qed.

Theorem at_path_own : forall f, own_pres f -> forall path fuel n k b s b' s' r0, fuel + 1 <= n -> fuel + 1 <= k ->
  SDeep d s b -> XDF d R k b -> OwnS d n s b r0 -> pend_ids_ok s -> at_path fuel d b path f s = Ok (b', s') ->
  OwnS d n s' b' r0 /\
  (forall x, freed_in_tx s' x = true -> freed_in_tx s x = true \/ In x (foot d n r0)) /\ pend_ids_ok s'.
Proof.
  intros f Hf. induction path as [|nm rest IH]; intros fuel n k b s b' s' r0 Hn Hk HD HX HO Hp H;
    (destruct fuel as [|fu]; [discriminate|]); cbn [at_path] in H.
  - eapply (Hf n k); eauto; lia.
  - apply bind_ok_inv in H. destruct H as ([b1 s1] & Hg & H).
    destruct (b_get_or_create_pres d nm b s b1 s1 HD Hg) as [HD1 Hle1].
    destruct (b_get_or_create_xd d R HCR nm k b s b1 s1 ltac:(lia) HD HX Hg) as [HX1 _].
    destruct (goc_own nm n k b s b1 s1 r0 ltac:(lia) ltac:(lia) HD HX HO Hp Hg) as (HO1 & Hfr1 & Hp1).
    destruct (sub_find nm (b_subs b1)) as [sb|] eqn:Hsf; [|discriminate].
    apply bind_ok_inv in H. destruct H as ([sb' s2] & Hat & H). inversion H; subst b' s'. clear H.
    destruct (SDeep_inv _ _ _ HD1) as (h1 & l1 & HL1 & (Hnd1 & _)).
    destruct n as [|n]; [lia|]. destruct k as [|k]; [lia|].
    assert (HXsb : XDF d R k sb).
    { destruct (XDF_inv _ _ _ _ _ _ _ HX1 HL1) as (f' & E & _ & _ & _ & _ & HF). inversion E; subst f'.
      rewrite Forall_forall in HF. exact (HF _ (sub_find_In _ _ _ Hsf)). }
    destruct (OwnS_inv _ _ _ _ _ _ HO1 (BLoc_view _ _ _ _ _ HL1)) as (_ & _ & _ & _ & _ & _ & C & _ & E).
    destruct (E nm sb (sub_find_In _ _ _ Hsf)) as (r & nx & He & Ho).
    destruct (IH fu n k sb s1 sb' s2 r ltac:(lia) ltac:(lia) (SDeep_sub _ _ _ _ _ HD1 Hsf) HXsb Ho Hp1 Hat)
      as (Ho' & Hfr2 & Hp2).
    split; [eapply put_back_own; eauto|]. split; [|exact Hp2].
    intros x Hx. destruct (Hfr2 x Hx) as [Hc|Hc]; [left; now rewrite <- Hfr1|]. right. eapply ent_foot_in; eauto.
Qed.

(** ** [b_delete_bucket] *)

Lemma OwnS_root : forall n s b r0, OwnS d n s b r0 -> b_root_page b = r0 /\ (r0 = 0%N \/ sbk n d r0).
Proof. intros [|n] s b r0 H; [destruct H|]. cbn [OwnS] in H. destruct H as (H0 & H1 & _). auto. Qed.

Lemma del_key_gone : forall l k e, sorted_keys (map lkey l) = true -> In e (apply_lop (OpDel k) l) -> lkey e <> k.
Proof.
  intros l k e Hs Hin Ek. pose proof (In_alookup _ e (apply_lop_sorted (OpDel k) l Hs) Hin) as Hal.
  rewrite (apply_lop_assoc _ l Hs) in Hal. cbn [aop] in Hal.
  rewrite alookup_aremove in Hal by now rewrite assoc_keys. rewrite Ek, EngineFacts.beq_refl in Hal. discriminate.
Qed.

Lemma delb_phase2_own : forall n kk b0 name sb s0 b' s' r0, SDeep d s0 b0 -> XDF d R kk b0 -> OwnS d (S n) s0 b0 r0 ->
  pend_ids_ok s0 -> sub_find name (b_subs b0) = Some sb -> delb_phase2 d b0 name s0 = Ok (b', s') ->
  OwnS d (S n) s' b' r0 /\
  (forall x, freed_in_tx s' x = true -> freed_in_tx s0 x = true \/ In x (foot d (S n) r0)) /\ pend_ids_ok s'.
Proof.
  intros n kk b0 name sb s0 b' s' r0 HD HX HO Hp Hsf H. destruct (SDeep_inv _ _ _ HD) as (h & l & HL & HS).
  pose proof HS as (Hnd & H2 & _). pose proof (BLoc_view _ _ _ _ _ HL) as Hv. pose proof (BLoc_sorted _ _ _ _ _ HL) as Hs.
  destruct (take_sub_spec name (b_subs b0) sb Hnd Hsf) as (rest & Ht & Hnone & Hother & Hnd' & Hin).
  rewrite Forall_forall in H2. destruct (H2 _ (sub_find_In _ _ _ Hsf)) as [(r1 & nx1 & Hal) _]. cbn [fst] in Hal.
  destruct (XDF_inv _ _ _ _ _ _ _ HX HL) as (f' & _ & HR & _).
  destruct (OwnS_inv _ _ _ _ _ _ HO Hv) as (H0 & H1 & HN & H3 & A & B & C & D & E).
  destruct (E name sb (sub_find_In _ _ _ Hsf)) as (r & nx & He & Ho).
  destruct (OwnS_root _ _ _ _ Ho) as [Hrp Hsb]. destruct (sub_disj n r0 l name r nx HN C He) as [Q1 Q2].
  unfold delb_phase2 in H. rewrite Ht in H. apply bind_ok_inv in H. destruct H as (s1 & Hft & H). rewrite Hrp in Hft.
  assert (Hs1 : (seqc s0 <= seqc s1)%N /\ pend_ids_ok s1 /\
                forall x, freed_in_tx s1 x = true -> freed_in_tx s0 x = true \/ In x (foot d n r)).
  { destruct (N.eqb_spec r 0) as [Ez|Ez]; [inversion Hft; subst s1; split; [lia | auto]|].
    destruct Hsb as [Hsb|Hsb]; [contradiction|]. split; [|split].
    - apply free_tree_frees in Hft. destruct Hft as (_ & _ & _ & _ & _ & _ & Hle & _). exact Hle.
    - eapply free_tree_pend_ids; eauto.
    - eapply free_tree_foot; eauto. }
  destruct Hs1 as (Hle1 & Hp1 & Hfr).
  set (b1 := Bucket (b_root_page b0) (b_next b0) (b_dirty b0) (b_rootn b0) rest) in *.
  assert (HL1 : BLoc d s1 b1 h l).
  { eapply (BLoc_tree d s1 b0); [reflexivity | reflexivity |]. eapply BLoc_seqc_mono; eauto. }
  rewrite (BLoc_lookup _ _ _ _ _ name HL1), Hal in H. cbn [bind is_kv] in H.
  destruct (b_modify_BLoc _ _ _ _ _ _ _ _ HL1 H) as (_ & _ & _ & _ & Hsbs & Hd & Hss). cbn [b1 b_subs] in Hsbs.
  assert (HK : OwnS d (S n) s' (Bucket (b_root_page b') (b_next b') true (b_rootn b') rest) r0).
  { apply (OwnS_modified n s0 b0 r0 h l _ s1 b1 b' s' _ _ HO HL1 eq_refl eq_refl HR H).
    - intros x Hx Hf0. destruct (freed_in_tx s1 x) eqn:Ef; [|reflexivity].
      destruct (Hfr x Ef) as [Hc|Hc]; [congruence | exfalso; eapply Q1; eauto].
    - intros k r' nx' He'. apply apply_lop_In' in He'. destruct He' as [He'|He']; [now left | discriminate].
    - intros k r' nx' He' Hsf' x Hx. pose proof (del_key_gone _ _ _ Hs He') as Hne. cbn [lkey] in Hne.
      apply apply_lop_In' in He'. destruct He' as [He'|He']; [|discriminate].
      rewrite (Hother k Hne) in Hsf'. destruct (freed_in_tx s1 x) eqn:Ef; [|reflexivity].
      destruct (Hfr x Ef) as [Hc|Hc]; [rewrite (D _ _ _ He' Hsf' x Hx) in Hc; discriminate | exfalso; eapply Q2; eauto].
    - intros k sbk Hk. pose proof (sub_find_None_In _ _ _ Hnone Hk) as Hne. cbn [fst] in Hne.
      destruct (E k sbk (Hin _ Hk)) as (rk & nxk & Hek & Hok). exists rk, nxk. split; [now apply ent_kept|].
      apply (OwnS_frame d n s0 s1 sbk rk (fun x => In x (foot d n r)) Hok Hfr). intros x X1 X2. eapply Q2; eauto. }
  destruct b' as [r' n' dt' rn' sbs']. cbn [b_dirty b_subs b_root_page b_rootn b_next] in *. subst dt' sbs'.
  split; [exact HK|]. split; [|eapply sbs_pend_ids; eauto].
  intros x Hx. rewrite (sbs_freed _ _ x Hss) in Hx. destruct (Hfr x Hx) as [Hc|Hc]; [now left|]. right.
  eapply ent_foot_in; eauto.
Qed.

Theorem delb_own : forall nm, own_pres (fun b s => soft (b, s) (b_delete_bucket d b nm s)).
Proof.
  intros nm n kk b s b' s' r0 Hn Hkk HD HX HO Hp H. cbn beta in H.
  apply soft_ok_inv in H. destruct H as [H | [E _]]; [|inversion E; subst; now apply own_unchanged].
  rewrite b_delete_bucket_unfold in H. apply bind_ok_inv in H. destruct H as ([b0 s0] & Hopen & H). cbn [fst snd] in H.
  destruct n as [|[|n]]; try lia.
  assert (Hb0 : SDeep d s b0 /\ XDF d R kk b0 /\ OwnS d (S (S n)) s b0 r0 /\ s0 = s /\
                exists sb, sub_find nm (b_subs b0) = Some sb).
  { destruct (sub_find nm (b_subs b)) as [sb|] eqn:Hsf.
    - inversion Hopen; subst. eauto 6.
    - destruct (SDeep_inv _ _ _ HD) as (h & l & HL & HS).
      rewrite (BLoc_lookup _ _ _ _ _ nm HL) in Hopen. cbn [bind] in Hopen.
      destruct (Spec.alookup nm (assoc l)) as [[k0 v0|k0 r nx]|] eqn:Hal; try discriminate.
      inversion Hopen; subst b0 s0. split; [eapply open_sub_SDeep; eauto|].
      destruct kk as [|[|f]]; try lia. split; [eapply open_sub_XDF; eauto|].
      split; [eapply open_sub_own; eauto|]. split; [reflexivity|].
      cbn [b_subs]. rewrite sub_find_put_same. eauto. }
  destruct Hb0 as (HD0 & HX0 & HO0 & -> & sb & Hsf). eapply delb_phase2_own; eauto.
Qed.

(** ** The steps of a transaction *)

Theorem tx_step_own : forall o rb s rb' s' n k r0, 9 <= n -> 9 <= k -> SDeep d s rb -> XDF d R k rb ->
  OwnS d n s rb r0 -> pend_ids_ok s -> tx_step d (rb, s) o = Ok (rb', s') ->
  OwnS d n s' rb' r0 /\
  (forall x, freed_in_tx s' x = true -> freed_in_tx s x = true \/ In x (foot d n r0)) /\ pend_ids_ok s'.
Proof.
  intros o rb s rb' s' n k r0 Hn Hk HD HX HO Hp H. unfold tx_step in H.
  destruct o as [p kk v|p kk|p nm|p]; apply soft_ok_inv in H;
    (destruct H as [H | [E _]]; [|inversion E; subst; now apply own_unchanged]).
  - apply (at_path_own _ (put_own kk v) p 8 n k rb s rb' s' r0); auto; lia.
  - apply (at_path_own _ (del_own kk) p 8 n k rb s rb' s' r0); auto; lia.
  - apply (at_path_own _ (delb_own nm) p 8 n k rb s rb' s' r0); auto; lia.
  - apply (at_path_own _ touch_own p 8 n k rb s rb' s' r0); auto; lia.
Qed.

Theorem tx_fold_own_gen : forall st ops rb s root' s' n k r0, d_disk st = d -> 9 <= n -> 9 <= k ->
  SDeep d s rb -> XDF d R k rb -> OwnS d n s rb r0 -> pend_ids_ok s -> tx_fold st ops (rb, s) = Ok (root', s') ->
  OwnS d n s' root' r0 /\
  (forall x, freed_in_tx s' x = true -> freed_in_tx s x = true \/ In x (foot d n r0)) /\ pend_ids_ok s'.
Proof.
  intros st ops rb s root' s' n k r0 Ed Hn Hk. revert rb s. induction ops as [|o ops IH]; intros rb s HD HX HO Hp H;
    unfold tx_fold in H; cbn [fold_res] in H.
  - inversion H; subst root' s'. now apply own_unchanged.
  - apply bind_ok_inv in H. destruct H as ([rb1 s1] & Hst & H). rewrite Ed in Hst.
    destruct (tx_step_SDeep _ _ _ _ _ _ HD Hst) as [HD1 _].
    pose proof (tx_step_xd d R HCR _ _ _ _ _ _ Hk HD HX Hst) as HX1.
    destruct (tx_step_own _ _ _ _ _ _ _ _ Hn Hk HD HX HO Hp Hst) as (HO1 & Hf1 & Hp1).
    destruct (IH rb1 s1 HD1 HX1 HO1 Hp1 H) as (HO' & Hf' & Hp'). split; [exact HO'|]. split; [|exact Hp'].
    intros x Hx. destruct (Hf' x Hx) as [Hc|Hc]; [apply Hf1, Hc | now right].
Qed.

End Ops.

(* ====================================================================== *)
(** * 7. From a committed state *)

Lemma release_all : forall t pd fr, Forall (fun b : N * list N => (fst b < t)%N) pd -> exists fr', release t fr pd = (fr', []).
Proof.
  intros t. induction pd as [|[u ps] pd IH]; intros fr H; cbn [release]; [eauto|].
  inversion H as [|? ? H1 H2]; subst. cbn [fst] in H1. destruct (N.ltb_spec u t); [|lia]. now apply IH.
Qed.

(* a committed state without batches of future transactions: the writer starts with nothing pending *)
Lemma begin_w_pending : forall st, pend_le st -> pending (begin_w st) = [].
Proof.
  intros st H. unfold begin_w.
  destruct (release_all (d_tx st + 1) (d_pending st) (d_free st)) as [fr' E].
  { eapply Forall_impl; [|exact H]. cbn beta. intros b Hb. lia. }
  rewrite E. reflexivity.
Qed.

Lemma begin_w_unfreed : forall st x, pend_le st -> freed_in_tx (begin_w st) x = false.
Proof. intros st x H. unfold freed_in_tx. now rewrite (begin_w_pending st H). Qed.

(* the fresh root bucket owns the committed footprint *)
Lemma root_bucket_OwnS : forall st, db_ok' st -> OwnS (d_disk st) 16 (begin_w st) (root_bucket st) (d_root st).
Proof.
  intros st (Hs & Ha & Hnd & Hpl). pose proof Ha as (_ & _ & _ & _ & _ & _ & Hroot & _ & Hlive).
  assert (Hr : d_root st <> 0%N).
  { destruct (Hlive _ (R_live st _ _ Hroot)) as [Hge _]. lia. }
  unfold root_bucket. apply open_OwnS; [exact Hr | exact Hs | |].
  - unfold foot. destruct (N.eqb_spec (d_root st) 0); [contradiction|]. unfold live_of in Hnd.
    exact (NoDup_app_l _ _ Hnd).
  - intros x _. now apply begin_w_unfreed.
Qed.

(* the operations of a transaction establish the ownership invariant, in its strong form *)
Theorem tx_fold_ownS : forall st ops root' s', db_ok' st ->
  tx_fold st ops (root_bucket st, begin_w st) = Ok (root', s') ->
  OwnS (d_disk st) 16 s' root' (d_root st) /\
  (forall x, freed_in_tx s' x = true -> In x (foot (d_disk st) 16 (d_root st))) /\
  pend_ids_ok s' /\ pend_all (pending (begin_w st)) = [].
Proof.
  intros st ops root' s' Hok H. pose proof Hok as (Hs & Ha & Hnd & Hpl).
  pose proof Ha as (_ & _ & _ & _ & _ & _ & Hroot & HC & Hlive).
  assert (Hnz : forall x, In x (Rof st) -> x <> 0%N).
  { intros x Hx. destruct (Hlive _ (R_live st _ _ Hx)) as [Hge _]. lia. }
  destruct (tx_fold_own_gen (d_disk st) (Rof st) HC Hnz st ops (root_bucket st) (begin_w st) root' s' 16 9 (d_root st))
    as (HO & Hf & Hp); auto; try lia.
  - apply root_bucket_SDeep. exact Hs.
  - unfold root_bucket. eapply XDF_mono; [apply open_XDF; eauto | lia].
  - now apply root_bucket_OwnS.
  - unfold pend_ids_ok. rewrite (begin_w_pending st Hpl). constructor.
  - split; [exact HO|]. split; [|split; [exact Hp | now rewrite (begin_w_pending st Hpl)]].
    intros x Hx. destruct (Hf x Hx) as [Hc|Hc]; [|exact Hc]. rewrite (begin_w_unfreed st x Hpl) in Hc. discriminate.
Qed.

Theorem tx_fold_own : forall st ops root' s', db_ok' st ->
  tx_fold st ops (root_bucket st, begin_w st) = Ok (root', s') ->
  OwnI (d_disk st) 16 s' root' (d_root st) /\
  (forall x, freed_in_tx s' x = true -> In x (foot (d_disk st) 16 (d_root st))) /\
  pend_ids_ok s' /\ pend_all (pending (begin_w st)) = [].
Proof.
  intros st ops root' s' Hok H. destruct (tx_fold_ownS st ops root' s' Hok H) as (HO & Hrest).
  split; [now apply OwnS_OwnI | exact Hrest].
Qed.

Print Assumptions fpg_closed.
Print Assumptions tx_fold_ownS.
Print Assumptions tx_fold_own.
