(* C02 + C11 over MIXED HISTORIES at the ENGINE level, with contents: ONE history relation for the full alphabet.
   A process holds an engine state [st] over a crash-model disk [cd].  In any order and any number of times:
     ECommit ops ord          a write transaction whose commit completes (image [done_img]); the process goes on from st';
     EFail ops ord k f        a write transaction whose commit fails at its k-th call (fate f of the failing call); the
                              process does NOT crash and goes on from what it has in memory: st if the image selects the
                              old header, st' (free list published) if it selects the new one;
     ECrash ops ord n fates   power loss after n calls of the commit (fates of the unsynced writes), then the file is
                              REOPENED: the continuation is [reopen_db] of the state whose header the image selects;
     EReopen                  clean close + reopen, no transaction: the continuation is [reopen_db st], disk unchanged;
     ERollback ops            a write transaction that is applied in memory and dropped: state and disk unchanged (the
                              writer works on a clone; only [run_tx] changes the engine state).
   Unlike EngineCrashHistories (where every attempt starts from [reopen_db st]) the transaction of every event runs from
   the state the process HOLDS and the reopen is explicit AFTER the crash, so that the kinds compose.
   Soundness [engine_mixed_history]; survivors [mixed_run_survivors]; totality [mixed_run_total] under the recursive
   acceptance predicate [events_okE] over all continuations; [fault_run] and [crash_run] embed. *)
From Coq Require Import List NArith Bool Arith Lia.
From Coq.Strings Require Import Byte.
From Jamm Require Spec Consts.
From Jamm Require Import Bytes BytesFacts Tree Cursor SearchFacts Engine EngineAbs EngineFacts EngineMergeFacts.
From Jamm Require Import EngineModifyFacts EngineSpillFacts EnginePathFacts EngineBridgeFacts EngineRebalanceFacts.
From Jamm Require Import EngineTxInvFacts EngineSpillBucketFacts EngineRefines.
From Jamm Require Import EngineOwnDefs EngineOwnWr EngineOwnOps EngineOwnReb EngineOwnSpill EngineOwnLnk EngineAllocInv.
From Jamm Require Import EngineCow EngineReopen EngineCrashHistories EngineFaultHistories.
From Jamm Require PL Crash CrashFacts CrashCurrent CrashHistories.
Import ListNotations.
Arguments N.add : simpl never. Arguments N.sub : simpl never. Arguments N.mul : simpl never.
Arguments N.div : simpl never. Arguments N.ltb : simpl never. Arguments N.leb : simpl never. Arguments N.eqb : simpl never.

(* ---------- (1) one crashing commit, run from the state the process holds ---------- *)
(* [engine_attempt] of EngineCrashHistories starts from [reopen_db st]; this one starts from [st] itself *)
Theorem engine_power_attempt : forall st cd ops ord st' w, Sim st cd -> db_inv st ->
  Forall (op_ok (d_disk st)) ops -> run_tx st ops ord = Ok st' -> readable st' -> is_write_set st st' w ->
  db_inv st' /\ abs_db st' = sem_tx ops (abs_db st) /\
  forall n fates, let img := crash_image st st' w cd n fates in
    CrashHistories.hist_inv img /\
    (Crash.select img = Some (eng_header st) \/ Crash.select img = Some (eng_header st')).
Proof.
  intros st cd ops ord st' w [Hsel Hhist] Hinv Hops Hrun Hrd Hw.
  destruct (run_tx_inv _ _ _ _ Hinv Hops Hrun Hrd) as [Hinv' Habs].
  split; [exact Hinv'|]. split; [exact Habs|]. intros n fates img.
  pose proof (write_set_setting _ _ _ Hw cd Hsel) as HS.
  exact (pre_or_post_keeps_hist_inv cd (eng_header st) (eng_header st') (tx_written st st' w) img Hhist HS
           (CrashCurrent.power_current _ _ _ _ _ HS n fates)).
Qed.

(* the invariant is insensitive to a reopen *)
Lemma Sim_reopen_iff : forall st cd, Sim (reopen_db st) cd <-> Sim st cd.
Proof. intros st cd. unfold Sim. rewrite eng_header_reopen. tauto. Qed.

(* ---------- (2) the alphabet and the history relation ---------- *)
Inductive event :=
| ECommit (ops : list op) (ord : list bytes)
| EFail (ops : list op) (ord : list bytes) (k : nat) (f : Crash.fate)
| ECrash (ops : list op) (ord : list bytes) (n : nat) (fates : nat -> Crash.fate)
| EReopen
| ERollback (ops : list op).

Inductive mixed_run : db -> Crash.disk -> list event -> list (list op) -> db -> Crash.disk -> Prop :=
| mr_nil : forall st cd, mixed_run st cd [] [] st cd
| mr_commit : forall st cd ops ord r surv st' w stf cdf,
    Forall (op_ok (d_disk st)) ops -> run_tx st ops ord = Ok st' -> readable st' -> is_write_set st st' w ->
    mixed_run st' (done_img st st' w cd) r surv stf cdf ->
    mixed_run st cd (ECommit ops ord :: r) (ops :: surv) stf cdf
| mr_fail_old : forall st cd ops ord k f r surv st' w stf cdf,
    Forall (op_ok (d_disk st)) ops -> run_tx st ops ord = Ok st' -> readable st' -> is_write_set st st' w ->
    let img := fault_img st st' w cd k f in
    Crash.select img = Some (eng_header st) ->
    mixed_run st img r surv stf cdf ->
    mixed_run st cd (EFail ops ord k f :: r) surv stf cdf
| mr_fail_new : forall st cd ops ord k f r surv st' w stf cdf,
    Forall (op_ok (d_disk st)) ops -> run_tx st ops ord = Ok st' -> readable st' -> is_write_set st st' w ->
    let img := fault_img st st' w cd k f in
    Crash.select img = Some (eng_header st') ->
    mixed_run st' img r surv stf cdf ->
    mixed_run st cd (EFail ops ord k f :: r) (ops :: surv) stf cdf
| mr_crash_lost : forall st cd ops ord n fates r surv st' w stf cdf,
    Forall (op_ok (d_disk st)) ops -> run_tx st ops ord = Ok st' -> readable st' -> is_write_set st st' w ->
    let img := crash_image st st' w cd n fates in
    Crash.select img = Some (eng_header st) ->
    mixed_run (reopen_db st) img r surv stf cdf ->
    mixed_run st cd (ECrash ops ord n fates :: r) surv stf cdf
| mr_crash_durable : forall st cd ops ord n fates r surv st' w stf cdf,
    Forall (op_ok (d_disk st)) ops -> run_tx st ops ord = Ok st' -> readable st' -> is_write_set st st' w ->
    let img := crash_image st st' w cd n fates in
    Crash.select img = Some (eng_header st') ->
    mixed_run (reopen_db st') img r surv stf cdf ->
    mixed_run st cd (ECrash ops ord n fates :: r) (ops :: surv) stf cdf
| mr_reopen : forall st cd r surv stf cdf,
    mixed_run (reopen_db st) cd r surv stf cdf ->
    mixed_run st cd (EReopen :: r) surv stf cdf
| mr_rollback : forall st cd ops r surv stf cdf,
    mixed_run st cd r surv stf cdf ->
    mixed_run st cd (ERollback ops :: r) surv stf cdf.

(* ---------- (3) soundness ---------- *)
Theorem engine_mixed_history : forall st0 cd0 l surv stf cdf,
  mixed_run st0 cd0 l surv stf cdf -> Sim st0 cd0 -> db_inv st0 ->
  Sim stf cdf /\ db_inv stf /\ abs_db stf = sem_survivors surv (abs_db st0).
Proof.
  intros st0 cd0 l surv stf cdf H.
  induction H as [st cd
                 | st cd ops ord r surv st' w stf cdf Hops Hrun Hrd Hw Hrest IH
                 | st cd ops ord k f r surv st' w stf cdf Hops Hrun Hrd Hw img Hsel Hrest IH
                 | st cd ops ord k f r surv st' w stf cdf Hops Hrun Hrd Hw img Hsel Hrest IH
                 | st cd ops ord n fates r surv st' w stf cdf Hops Hrun Hrd Hw img Hsel Hrest IH
                 | st cd ops ord n fates r surv st' w stf cdf Hops Hrun Hrd Hw img Hsel Hrest IH
                 | st cd r surv stf cdf Hrest IH
                 | st cd ops r surv stf cdf Hrest IH]; intros HSim Hinv.
  - split; [exact HSim|]. split; [exact Hinv | reflexivity].
  - destruct (engine_done_attempt st cd _ _ st' w HSim Hinv Hops Hrun Hrd Hw) as (Hinv' & Habs & HSim').
    destruct (IH HSim' Hinv') as (HS & HI & HA). split; [exact HS|]. split; [exact HI|].
    rewrite HA. cbn [sem_survivors fold_left]. rewrite Habs. reflexivity.
  - destruct (engine_fault_attempt st cd _ _ st' w HSim Hinv Hops Hrun Hrd Hw) as (_ & _ & Himg).
    destruct (Himg k f) as [Hhist _]. fold img in Hhist.
    assert (HSim' : Sim st img) by (split; [exact Hsel | exact Hhist]).
    exact (IH HSim' Hinv).
  - destruct (engine_fault_attempt st cd _ _ st' w HSim Hinv Hops Hrun Hrd Hw) as (Hinv' & Habs & Himg).
    destruct (Himg k f) as [Hhist _]. fold img in Hhist.
    assert (HSim' : Sim st' img) by (split; [exact Hsel | exact Hhist]).
    destruct (IH HSim' Hinv') as (HS & HI & HA). split; [exact HS|]. split; [exact HI|].
    rewrite HA. cbn [sem_survivors fold_left]. rewrite Habs. reflexivity.
  - destruct (engine_power_attempt st cd _ _ st' w HSim Hinv Hops Hrun Hrd Hw) as (_ & _ & Himg).
    destruct (Himg n fates) as [Hhist _]. fold img in Hhist.
    assert (HSim' : Sim (reopen_db st) img) by (apply Sim_reopen; split; [exact Hsel | exact Hhist]).
    destruct (IH HSim' (reopen_inv st Hinv)) as (HS & HI & HA). split; [exact HS|]. split; [exact HI|].
    rewrite HA, reopen_abs. reflexivity.
  - destruct (engine_power_attempt st cd _ _ st' w HSim Hinv Hops Hrun Hrd Hw) as (Hinv' & Habs & Himg).
    destruct (Himg n fates) as [Hhist _]. fold img in Hhist.
    assert (HSim' : Sim (reopen_db st') img) by (apply Sim_reopen; split; [exact Hsel | exact Hhist]).
    destruct (IH HSim' (reopen_inv st' Hinv')) as (HS & HI & HA). split; [exact HS|]. split; [exact HI|].
    rewrite HA, reopen_abs. cbn [sem_survivors fold_left]. rewrite Habs. reflexivity.
  - destruct (IH (Sim_reopen _ _ HSim) (reopen_inv st Hinv)) as (HS & HI & HA).
    split; [exact HS|]. split; [exact HI|]. rewrite HA, reopen_abs. reflexivity.
  - exact (IH HSim Hinv).
Qed.

Print Assumptions engine_mixed_history.

(* ---------- (4) the survivors are an in-order sub-list of the operation lists of the commit-like events ---------- *)
Definition event_tx (e : event) : list (list op) :=
  match e with
  | ECommit ops _ => [ops]
  | EFail ops _ _ _ => [ops]
  | ECrash ops _ _ _ => [ops]
  | EReopen => []
  | ERollback _ => []
  end.
Definition commit_ops (l : list event) : list (list op) := flat_map event_tx l.

Lemma mixed_run_survivors : forall st cd l surv stf cdf, mixed_run st cd l surv stf cdf ->
  sublist surv (commit_ops l).
Proof.
  intros st cd l surv stf cdf H. unfold commit_ops.
  induction H; cbn [flat_map event_tx app];
    [ constructor | now apply sub_keep | now apply sub_skip | now apply sub_keep
    | now apply sub_skip | now apply sub_keep | assumption | assumption ].
Qed.

(* a completed commit at the head of the history is among the survivors; a rolled-back transaction never is (its
   operations are not even candidates: [commit_ops] skips it) *)
Lemma mixed_run_commit_survives : forall st cd ops ord r surv stf cdf,
  mixed_run st cd (ECommit ops ord :: r) surv stf cdf -> exists surv', surv = ops :: surv'.
Proof. intros st cd ops ord r surv stf cdf H. inversion H; subst. eexists. reflexivity. Qed.

(* concatenation of histories *)
Lemma mixed_run_app : forall st cd l1 s1 st1 cd1, mixed_run st cd l1 s1 st1 cd1 ->
  forall l2 s2 st2 cd2, mixed_run st1 cd1 l2 s2 st2 cd2 -> mixed_run st cd (l1 ++ l2) (s1 ++ s2) st2 cd2.
Proof.
  intros st cd l1 s1 st1 cd1 H.
  induction H as [st cd
                 | st cd ops ord r surv st' w stf cdf Hops Hrun Hrd Hw Hrest IH
                 | st cd ops ord k f r surv st' w stf cdf Hops Hrun Hrd Hw img Hsel Hrest IH
                 | st cd ops ord k f r surv st' w stf cdf Hops Hrun Hrd Hw img Hsel Hrest IH
                 | st cd ops ord n fates r surv st' w stf cdf Hops Hrun Hrd Hw img Hsel Hrest IH
                 | st cd ops ord n fates r surv st' w stf cdf Hops Hrun Hrd Hw img Hsel Hrest IH
                 | st cd r surv stf cdf Hrest IH
                 | st cd ops r surv stf cdf Hrest IH]; intros l2 s2 st2 cd2 H2; cbn [app].
  - exact H2.
  - eapply mr_commit; eauto.
  - eapply mr_fail_old; eauto.
  - eapply mr_fail_new; eauto.
  - eapply mr_crash_lost; eauto.
  - eapply mr_crash_durable; eauto.
  - apply mr_reopen; auto.
  - apply mr_rollback; auto.
Qed.

(* ---------- (5) totality ---------- *)
(* the side conditions: the transaction of every commit-like event is admissible and succeeds, with a readable result,
   on the state the process holds -- recursively along EVERY continuation the event can have *)
Fixpoint events_okE (st : db) (l : list event) : Prop :=
  match l with
  | [] => True
  | e :: r =>
    match e with
    | ECommit ops ord => Forall (op_ok (d_disk st)) ops /\
        exists st', run_tx st ops ord = Ok st' /\ readable st' /\ events_okE st' r
    | EFail ops ord _ _ => Forall (op_ok (d_disk st)) ops /\
        exists st', run_tx st ops ord = Ok st' /\ readable st' /\ events_okE st r /\ events_okE st' r
    | ECrash ops ord _ _ => Forall (op_ok (d_disk st)) ops /\
        exists st', run_tx st ops ord = Ok st' /\ readable st' /\
                    events_okE (reopen_db st) r /\ events_okE (reopen_db st') r
    | EReopen => events_okE (reopen_db st) r
    | ERollback _ => events_okE st r
    end
  end.

Theorem mixed_run_total : forall l st cd, Sim st cd -> db_inv st -> events_okE st l ->
  exists surv stf cdf, mixed_run st cd l surv stf cdf.
Proof.
  induction l as [|e r IH]; intros st cd HSim Hinv Hok.
  - exists [], st, cd. constructor.
  - destruct (db_inv_facts _ Hinv) as (_ & Hokz & _).
    destruct e as [ops ord | ops ord k f | ops ord n fates | | ops]; cbn [events_okE] in Hok.
    + destruct Hok as (Hops & st' & Hrun & Hrd & HokD).
      destruct (run_tx_has_write_set _ _ _ _ Hokz Hops Hrun Hrd) as (w & Hw).
      destruct (engine_done_attempt st cd _ _ st' w HSim Hinv Hops Hrun Hrd Hw) as (Hinv' & _ & HSim').
      destruct (IH _ _ HSim' Hinv' HokD) as (surv & stf & cdf & Hr).
      exists (ops :: surv), stf, cdf. eapply mr_commit; eauto.
    + destruct Hok as (Hops & st' & Hrun & Hrd & HokL & HokD).
      destruct (run_tx_has_write_set _ _ _ _ Hokz Hops Hrun Hrd) as (w & Hw).
      destruct (engine_fault_attempt st cd _ _ st' w HSim Hinv Hops Hrun Hrd Hw) as (Hinv' & _ & Himg).
      destruct (Himg k f) as [Hhist [Hsel|Hsel]].
      * assert (HSim' : Sim st (fault_img st st' w cd k f)) by (split; [exact Hsel | exact Hhist]).
        destruct (IH _ _ HSim' Hinv HokL) as (surv & stf & cdf & Hr).
        exists surv, stf, cdf. eapply mr_fail_old; eauto.
      * assert (HSim' : Sim st' (fault_img st st' w cd k f)) by (split; [exact Hsel | exact Hhist]).
        destruct (IH _ _ HSim' Hinv' HokD) as (surv & stf & cdf & Hr).
        exists (ops :: surv), stf, cdf. eapply mr_fail_new; eauto.
    + destruct Hok as (Hops & st' & Hrun & Hrd & HokL & HokD).
      destruct (run_tx_has_write_set _ _ _ _ Hokz Hops Hrun Hrd) as (w & Hw).
      destruct (engine_power_attempt st cd _ _ st' w HSim Hinv Hops Hrun Hrd Hw) as (Hinv' & _ & Himg).
      destruct (Himg n fates) as [Hhist [Hsel|Hsel]].
      * assert (HSim' : Sim (reopen_db st) (crash_image st st' w cd n fates))
          by (apply Sim_reopen; split; [exact Hsel | exact Hhist]).
        destruct (IH _ _ HSim' (reopen_inv st Hinv) HokL) as (surv & stf & cdf & Hr).
        exists surv, stf, cdf. eapply mr_crash_lost; eauto.
      * assert (HSim' : Sim (reopen_db st') (crash_image st st' w cd n fates))
          by (apply Sim_reopen; split; [exact Hsel | exact Hhist]).
        destruct (IH _ _ HSim' (reopen_inv st' Hinv') HokD) as (surv & stf & cdf & Hr).
        exists (ops :: surv), stf, cdf. eapply mr_crash_durable; eauto.
    + destruct (IH _ _ (Sim_reopen _ _ HSim) (reopen_inv st Hinv) Hok) as (surv & stf & cdf & Hr).
      exists surv, stf, cdf. apply mr_reopen. exact Hr.
    + destruct (IH _ _ HSim Hinv Hok) as (surv & stf & cdf & Hr).
      exists surv, stf, cdf. apply mr_rollback. exact Hr.
Qed.

(* both halves together *)
Corollary engine_mixed_history_total : forall l st0 cd0, Sim st0 cd0 -> db_inv st0 -> events_okE st0 l ->
  exists surv stf cdf, mixed_run st0 cd0 l surv stf cdf /\ sublist surv (commit_ops l) /\
    Sim stf cdf /\ db_inv stf /\ abs_db stf = sem_survivors surv (abs_db st0).
Proof.
  intros l st0 cd0 HSim Hinv Hok. destruct (mixed_run_total l st0 cd0 HSim Hinv Hok) as (surv & stf & cdf & Hr).
  exists surv, stf, cdf. split; [exact Hr|]. split; [exact (mixed_run_survivors _ _ _ _ _ _ Hr)|].
  exact (engine_mixed_history _ _ _ _ _ _ Hr HSim Hinv).
Qed.

Print Assumptions mixed_run_survivors.
Print Assumptions mixed_run_total.
Print Assumptions engine_mixed_history_total.

(* ---------- (6) with the same write set the two continuations of a failing / crashing commit exclude each other ---------- *)
Lemma mixed_old_xor_new : forall st st' w img, is_write_set st st' w ->
  Crash.select img = Some (eng_header st) -> Crash.select img = Some (eng_header st') -> False.
Proof. exact old_xor_new. Qed.

(* a crash after every call of the commit was issued is durable: the continuation is the reopened NEW state *)
Theorem power_complete_is_durable : forall st cd st' w fates, Sim st cd -> is_write_set st st' w ->
  Crash.select (crash_image st st' w cd (List.length (Crash.commit_io (tx_written st st' w))) fates)
    = Some (eng_header st').
Proof.
  intros st cd st' w fates [Hsel _] Hw.
  pose proof (write_set_setting _ _ _ Hw cd Hsel) as HS.
  exact (proj1 (CrashCurrent.durable_current _ _ _ _ _ HS fates)).
Qed.

(* ---------- (7) the two special histories embed ---------- *)
(* I/O-fault histories: each step is the event of the same kind *)
Definition step_event (s : step) : event :=
  match s_out s with
  | Completes => ECommit (s_ops s) (s_ord s)
  | Fails k f => EFail (s_ops s) (s_ord s) k f
  end.

Theorem fault_run_embeds : forall st cd l surv stf cdf, fault_run st cd l surv stf cdf ->
  mixed_run st cd (map step_event l) surv stf cdf.
Proof.
  intros st cd l surv stf cdf H.
  induction H as [st cd
                 | st cd s r surv st' w stf cdf Hout Hops Hrun Hrd Hw Hrest IH
                 | st cd s k f r surv st' w stf cdf Hout Hops Hrun Hrd Hw img Hsel Hrest IH
                 | st cd s k f r surv st' w stf cdf Hout Hops Hrun Hrd Hw img Hsel Hrest IH];
    cbn [map]; [constructor | | |]; unfold step_event at 1; rewrite Hout.
  - eapply mr_commit; eauto.
  - eapply mr_fail_old; eauto.
  - eapply mr_fail_new; eauto.
Qed.

Lemma steps_ok_embeds : forall l st, steps_okE st l -> events_okE st (map step_event l).
Proof.
  induction l as [|s r IH]; intros st Hok; [exact I|].
  destruct Hok as (Hops & st' & Hrun & Hrd & HokL & HokD).
  cbn [map events_okE]. unfold step_event at 1. destruct (s_out s) as [|k f].
  - split; [exact Hops|]. exists st'. split; [exact Hrun|]. split; [exact Hrd|]. now apply IH.
  - split; [exact Hops|]. exists st'. split; [exact Hrun|]. split; [exact Hrd|]. split; now apply IH.
Qed.

(* power-loss histories: an attempt of [crash_run] reopens first and runs the transaction on the reopened state, so it
   is the two events [EReopen; ECrash ..]; the final states agree up to a reopen (which [Sim], [db_inv] and [abs_db]
   do not see: Sim_reopen_iff, reopen_inv, reopen_abs) *)
Definition attempt_events (a : attempt_e) : list event := [EReopen; ECrash (e_ops a) (e_ord a) (e_n a) (e_fates a)].
Definition crash_events (l : list attempt_e) : list event := flat_map attempt_events l.

Theorem crash_run_embeds : forall st cd l surv stf cdf, crash_run st cd l surv stf cdf ->
  forall s, reopen_db s = reopen_db st ->
  exists sf, reopen_db sf = reopen_db stf /\ mixed_run s cd (crash_events l) surv sf cdf.
Proof.
  intros st cd l surv stf cdf H.
  induction H as [st cd | st cd a r surv st' w stf cdf Hops Hrun Hrd Hw img Hsel Hrest IH
                         | st cd a r surv st' w stf cdf Hops Hrun Hrd Hw img Hsel Hrest IH]; intros s Hs.
  - exists s. split; [exact Hs | constructor].
  - destruct (IH (reopen_db (reopen_db st)) (reopen_idem _)) as (sf & Hsf & Hm).
    exists sf. split; [exact Hsf|]. unfold crash_events. cbn [flat_map attempt_events app].
    apply mr_reopen. rewrite Hs.
    eapply mr_crash_lost; eauto.
  - destruct (IH (reopen_db st') (reopen_idem _)) as (sf & Hsf & Hm).
    exists sf. split; [exact Hsf|]. unfold crash_events. cbn [flat_map attempt_events app].
    apply mr_reopen. rewrite Hs.
    eapply mr_crash_durable; eauto.
Qed.

Corollary crash_run_embeds_same : forall st cd l surv stf cdf, crash_run st cd l surv stf cdf ->
  exists sf, reopen_db sf = reopen_db stf /\ mixed_run st cd (crash_events l) surv sf cdf.
Proof. intros st cd l surv stf cdf H. exact (crash_run_embeds _ _ _ _ _ _ H st eq_refl). Qed.

Print Assumptions fault_run_embeds.
Print Assumptions crash_run_embeds.
Print Assumptions power_complete_is_durable.

(* the acceptance predicate of [crash_run_total] implies the one of [mixed_run_total] on the embedded history *)
Lemma crash_events_ok_reopen : forall l s, events_okE s (crash_events l) -> events_okE (reopen_db s) (crash_events l).
Proof.
  intros [|a r] s Hok; [exact I|].
  unfold crash_events in *. cbn [flat_map attempt_events app events_okE] in *. rewrite reopen_idem. exact Hok.
Qed.

Lemma attempts_ok_embeds : forall l st, attempts_okE st l -> events_okE st (crash_events l).
Proof.
  induction l as [|a r IH]; intros st Hok; [exact I|].
  destruct Hok as (Hops & st' & Hrun & Hrd & HokL & HokD).
  unfold crash_events. cbn [flat_map attempt_events app events_okE]. fold (crash_events r).
  split; [exact Hops|]. exists st'. split; [exact Hrun|]. split; [exact Hrd|]. split.
  - apply crash_events_ok_reopen. now apply IH.
  - apply crash_events_ok_reopen. now apply IH.
Qed.

(* ---------- (8) the premises are satisfiable: one history with every kind of event ---------- *)
Module ExMixed.
Import Ex3 ExCrash.
Definition ops1 : list op := fst ExHistory.tx1.
Definition ord1 : list bytes := snd ExHistory.tx1.
Definition ops2 : list op := [Put [] ka [x02]].
Definition ops3 : list op := [Put [] kc [x03]].

(* a dropped transaction; a commit with a failing call; a clean reopen; a power loss in a commit; a completed commit *)
Definition hist (k : nat) (f : Crash.fate) (n : nat) (fates : nat -> Crash.fate) : list event :=
  [ERollback ops2; EFail ops1 ord1 k f; EReopen; ECrash ops2 [] n fates; ECommit ops3 []].

Ltac tx_ok := split; [repeat constructor; cbn; lia|]; eexists;
  split; [vm_compute; reflexivity|]; split; [apply readableb_ok; vm_compute; reflexivity|].

Example hist_ok : forall k f n fates, events_okE st0 (hist k f n fates).
Proof.
  intros k f n fates. unfold hist, ops1, ord1, ops2, ops3. cbn [events_okE]. tx_ok. split.
  - tx_ok. split; tx_ok; exact I.
  - tx_ok. split; tx_ok; exact I.
Qed.

(* wherever the failing call sits, whatever its fate, wherever the power is cut and whatever happens to the unsynced
   writes: a run exists, ends in the simulation, and the database holds exactly the surviving transactions, which are
   an in-order selection of [ops1; ops2; ops3] ending with ops3 *)
Example every_kind : forall k f n fates, exists surv stf cdf,
  mixed_run st0 cd0 (hist k f n fates) surv stf cdf /\ sublist surv [ops1; ops2; ops3] /\
  Sim stf cdf /\ db_inv stf /\ abs_db stf = sem_survivors surv (abs_db st0).
Proof. intros k f n fates. exact (engine_mixed_history_total _ _ _ sim0 inv0 (hist_ok k f n fates)). Qed.
End ExMixed.
Print Assumptions attempts_ok_embeds.
Print Assumptions ExMixed.every_kind.
