(* C02 over HISTORIES at the ENGINE level, with contents.
   A process runs a write transaction on the engine state; the power fails at an arbitrary point of the commit's I/O
   (any [n], any [fates]); the machine restarts and REOPENS the file ([reopen_db]) on whatever header the crashed disk
   selects; the next transaction runs from there; and so on, any number of times.
   [crash_run st cd l survivors st_f cd_f]: the image of each attempt decides whether it is lost or durable.
   Soundness: after any such history the pair (engine state, abstract disk) is again in the simulation [Sim], the
   engine invariant [db_inv] holds, and the database means the reference after exactly the surviving transactions, in
   order.  Totality: a run exists for every attempt list whose transactions succeed in the model. *)
From Coq Require Import List NArith Bool Arith Lia.
From Coq.Strings Require Import Byte.
From Jamm Require Spec.
From Jamm Require Import Bytes BytesFacts Tree Cursor SearchFacts Engine EngineAbs EngineFacts EngineMergeFacts.
From Jamm Require Import EngineModifyFacts EngineSpillFacts EnginePathFacts EngineBridgeFacts EngineRebalanceFacts.
From Jamm Require Import EngineTxInvFacts EngineSpillBucketFacts EngineRefines.
From Jamm Require Import EngineOwnDefs EngineOwnWr EngineOwnOps EngineOwnReb EngineOwnSpill EngineOwnLnk EngineAllocInv.
From Jamm Require Import EngineCow EngineReopen.
From Jamm Require Crash CrashFacts CrashCurrent CrashHistories.
Import ListNotations.
Arguments N.add : simpl never. Arguments N.sub : simpl never. Arguments N.mul : simpl never.
Arguments N.div : simpl never. Arguments N.ltb : simpl never. Arguments N.leb : simpl never. Arguments N.eqb : simpl never.

(* ---------- the simulation between an engine state and a crash-model disk ---------- *)
Definition Sim (st : db) (cd : Crash.disk) : Prop :=
  Crash.select cd = Some (eng_header st) /\ CrashHistories.hist_inv cd.

Lemma eng_header_reopen : forall st, eng_header (reopen_db st) = eng_header st.
Proof. intro st. unfold eng_header. now rewrite reopen_tx, reopen_Rof, reopen_live_of. Qed.

Lemma Sim_reopen : forall st cd, Sim st cd -> Sim (reopen_db st) cd.
Proof. intros st cd [Hs Hi]. split; [now rewrite eng_header_reopen | exact Hi]. Qed.

(* [w] is a write set of the commit st -> st': copy-on-write, and the new snapshot consists of written and old pages *)
Definition is_write_set (st st' : db) (w : list (N * (N * ndata))) : Prop :=
  tx_cow st st' w /\
  forall x, In x (live_of st' (Rof st')) -> written st st' w x \/ In x (live_of st (Rof st)).

Lemma run_tx_has_write_set : forall st ops ord st', db_okz st -> Forall (op_ok (d_disk st)) ops ->
  run_tx st ops ord = Ok st' -> readable st' -> exists w, is_write_set st st' w.
Proof.
  intros st ops ord st' Hok Hops Hrun Hrd.
  destruct (run_tx_write_set_new st ops ord st' Hok Hops Hrun) as (w & C & Hnew).
  exists w. split; [exact C | exact (Hnew Hrd)].
Qed.

Lemma write_set_setting : forall st st' w, is_write_set st st' w ->
  forall cd : Crash.disk, Crash.select cd = Some (eng_header st) ->
    CrashFacts.commit_setting cd (eng_header st) (eng_header st') (d_tx st') (tx_written st st' w).
Proof.
  intros st st' w [C Hnew] cd Hsel. constructor.
  - exact Hsel.
  - reflexivity.
  - cbn [Crash.h_tx eng_header]. rewrite (tc_tx _ _ _ C). lia.
  - intros p Hp. cbn [Crash.h_live eng_header]. apply In_tx_written in Hp. exact (tc_cow _ _ _ C p Hp).
  - intros p Hp. cbn [Crash.h_live eng_header] in *. destruct (Hnew p Hp) as [Hw|Hl]; [left; now apply In_tx_written | now right].
  - apply NoDup_nodup.
Qed.

(* ---------- one crashing attempt ---------- *)
Definition crash_image (st st' : db) (w : list (N * (N * ndata))) (cd : Crash.disk) (n : nat) (fates : nat -> Crash.fate)
  : Crash.disk :=
  Crash.power_image (d_tx st') (eng_header st') (negb (Crash.current_slot cd)) cd
    (Crash.commit_io (tx_written st st' w)) n fates.

Theorem engine_attempt : forall st cd ops ord st' w n fates, Sim st cd -> db_inv st ->
  Forall (op_ok (d_disk (reopen_db st))) ops -> run_tx (reopen_db st) ops ord = Ok st' -> readable st' ->
  is_write_set (reopen_db st) st' w ->
  let img := crash_image (reopen_db st) st' w cd n fates in
  db_inv (reopen_db st) /\ db_inv st' /\ abs_db st' = sem_tx ops (abs_db st) /\
  CrashHistories.hist_inv img /\
  (Crash.select img = Some (eng_header st) \/ Crash.select img = Some (eng_header st')).
Proof.
  intros st cd ops ord st' w n fates HSim Hinv Hops Hrun Hrd Hw img.
  pose proof (reopen_inv st Hinv) as HinvR.
  destruct (run_tx_inv _ _ _ _ HinvR Hops Hrun Hrd) as [Hinv' Habs]. rewrite reopen_abs in Habs.
  destruct (Sim_reopen _ _ HSim) as [HselR Hhist].
  pose proof (write_set_setting _ _ _ Hw cd HselR) as HS.
  split; [exact HinvR|]. split; [exact Hinv'|]. split; [exact Habs|]. split.
  - pose (a := CrashHistories.mkAttempt (eng_header st') (tx_written (reopen_db st) st' w) n fates).
    change img with (CrashHistories.attempt_image cd a).
    apply CrashHistories.attempt_keeps_inv; [exact Hhist|]. exists (eng_header (reopen_db st)). exact HS.
  - destruct (CrashCurrent.power_current _ _ _ _ _ HS n fates) as [[Hs _]|[Hs _]].
    + left. rewrite <- eng_header_reopen. exact Hs.
    + right. exact Hs.
Qed.

(* the two outcomes exclude each other: the transaction ids differ *)
Lemma headers_differ : forall st st' w, is_write_set st st' w -> eng_header st <> eng_header st'.
Proof.
  intros st st' w [C _] E. apply (f_equal Crash.h_tx) in E. cbn [Crash.h_tx eng_header] in E.
  rewrite (tc_tx _ _ _ C) in E. lia.
Qed.

(* ---------- histories ---------- *)
Record attempt_e := mkAE { e_ops : list op; e_ord : list bytes; e_n : nat; e_fates : nat -> Crash.fate }.

Inductive crash_run : db -> Crash.disk -> list attempt_e -> list (list op) -> db -> Crash.disk -> Prop :=
| cr_nil : forall st cd, crash_run st cd [] [] st cd
| cr_lost : forall st cd a r surv st' w stf cdf,
    Forall (op_ok (d_disk (reopen_db st))) (e_ops a) ->
    run_tx (reopen_db st) (e_ops a) (e_ord a) = Ok st' -> readable st' -> is_write_set (reopen_db st) st' w ->
    let img := crash_image (reopen_db st) st' w cd (e_n a) (e_fates a) in
    Crash.select img = Some (eng_header st) ->
    crash_run (reopen_db st) img r surv stf cdf ->
    crash_run st cd (a :: r) surv stf cdf
| cr_durable : forall st cd a r surv st' w stf cdf,
    Forall (op_ok (d_disk (reopen_db st))) (e_ops a) ->
    run_tx (reopen_db st) (e_ops a) (e_ord a) = Ok st' -> readable st' -> is_write_set (reopen_db st) st' w ->
    let img := crash_image (reopen_db st) st' w cd (e_n a) (e_fates a) in
    Crash.select img = Some (eng_header st') ->
    crash_run st' img r surv stf cdf ->
    crash_run st cd (a :: r) (e_ops a :: surv) stf cdf.

Definition sem_survivors (surv : list (list op)) (m : Spec.snode) : Spec.snode :=
  fold_left (fun m ops => sem_tx ops m) surv m.

(* (2) soundness *)
Theorem engine_crash_history : forall st0 cd0 l surv stf cdf,
  crash_run st0 cd0 l surv stf cdf -> Sim st0 cd0 -> db_inv st0 ->
  Sim stf cdf /\ db_inv stf /\ abs_db stf = sem_survivors surv (abs_db st0).
Proof.
  intros st0 cd0 l surv stf cdf H.
  induction H as [st cd | st cd a r surv st' w stf cdf Hops Hrun Hrd Hw img Hsel Hrest IH
                         | st cd a r surv st' w stf cdf Hops Hrun Hrd Hw img Hsel Hrest IH]; intros HSim Hinv.
  - split; [exact HSim|]. split; [exact Hinv | reflexivity].
  - destruct (engine_attempt st cd _ _ st' w (e_n a) (e_fates a) HSim Hinv Hops Hrun Hrd Hw) as (HinvR & _ & _ & Hhist & _).
    fold img in Hhist.
    assert (HSim' : Sim (reopen_db st) img) by (split; [now rewrite eng_header_reopen | exact Hhist]).
    destruct (IH HSim' HinvR) as (HS & HI & HA). split; [exact HS|]. split; [exact HI|].
    rewrite HA, reopen_abs. reflexivity.
  - destruct (engine_attempt st cd _ _ st' w (e_n a) (e_fates a) HSim Hinv Hops Hrun Hrd Hw) as (_ & Hinv' & Habs & Hhist & _).
    fold img in Hhist.
    assert (HSim' : Sim st' img) by (split; [exact Hsel | exact Hhist]).
    destruct (IH HSim' Hinv') as (HS & HI & HA). split; [exact HS|]. split; [exact HI|].
    rewrite HA, Habs. reflexivity.
Qed.

Print Assumptions engine_crash_history.

(* ---------- (1) totality ---------- *)
(* the side conditions: the next transaction is admissible and succeeds, with a readable result, on the reopened
   state -- along BOTH possible continuations (the attempt lost / the attempt durable) *)
Fixpoint attempts_okE (st : db) (l : list attempt_e) : Prop :=
  match l with
  | [] => True
  | a :: r => Forall (op_ok (d_disk (reopen_db st))) (e_ops a) /\
              exists st', run_tx (reopen_db st) (e_ops a) (e_ord a) = Ok st' /\ readable st' /\
                          attempts_okE (reopen_db st) r /\ attempts_okE st' r
  end.

Theorem crash_run_total : forall l st cd, Sim st cd -> db_inv st -> attempts_okE st l ->
  exists surv stf cdf, crash_run st cd l surv stf cdf.
Proof.
  induction l as [|a r IH]; intros st cd HSim Hinv Hok.
  - exists [], st, cd. constructor.
  - destruct Hok as (Hops & st' & Hrun & Hrd & HokL & HokD).
    pose proof (reopen_inv st Hinv) as HinvR.
    destruct (db_inv_facts _ HinvR) as (_ & Hokz & _).
    destruct (run_tx_has_write_set _ _ _ _ Hokz Hops Hrun Hrd) as (w & Hw).
    destruct (engine_attempt st cd _ _ st' w (e_n a) (e_fates a) HSim Hinv Hops Hrun Hrd Hw)
      as (_ & Hinv' & _ & Hhist & [Hsel|Hsel]).
    + assert (HSim' : Sim (reopen_db st) (crash_image (reopen_db st) st' w cd (e_n a) (e_fates a)))
        by (split; [now rewrite eng_header_reopen | exact Hhist]).
      destruct (IH _ _ HSim' HinvR HokL) as (surv & stf & cdf & Hr).
      exists surv, stf, cdf. eapply cr_lost; eauto.
    + assert (HSim' : Sim st' (crash_image (reopen_db st) st' w cd (e_n a) (e_fates a)))
        by (split; [exact Hsel | exact Hhist]).
      destruct (IH _ _ HSim' Hinv' HokD) as (surv & stf & cdf & Hr).
      exists (e_ops a :: surv), stf, cdf. eapply cr_durable; eauto.
Qed.

(* both halves together *)
Corollary engine_crash_history_total : forall l st0 cd0, Sim st0 cd0 -> db_inv st0 -> attempts_okE st0 l ->
  exists surv stf cdf, crash_run st0 cd0 l surv stf cdf /\
    Sim stf cdf /\ db_inv stf /\ abs_db stf = sem_survivors surv (abs_db st0).
Proof.
  intros l st0 cd0 HSim Hinv Hok. destruct (crash_run_total l st0 cd0 HSim Hinv Hok) as (surv & stf & cdf & Hr).
  exists surv, stf, cdf. split; [exact Hr | exact (engine_crash_history _ _ _ _ _ _ Hr HSim Hinv)].
Qed.

(* the survivors are a sub-list, in order, of the attempted operation lists *)
Inductive sublist {A} : list A -> list A -> Prop :=
| sub_nil : sublist [] []
| sub_skip : forall x l s, sublist s l -> sublist s (x :: l)
| sub_keep : forall x l s, sublist s l -> sublist (x :: s) (x :: l).

Lemma crash_run_survivors : forall st cd l surv stf cdf, crash_run st cd l surv stf cdf ->
  sublist surv (map e_ops l).
Proof.
  intros st cd l surv stf cdf H. induction H; cbn [map]; [constructor | now apply sub_skip | now apply sub_keep].
Qed.

(* ---------- a completed attempt is durable ---------- *)
Theorem engine_attempt_complete : forall st cd ops ord st' w fates, Sim st cd -> db_inv st ->
  Forall (op_ok (d_disk (reopen_db st))) ops -> run_tx (reopen_db st) ops ord = Ok st' -> readable st' ->
  is_write_set (reopen_db st) st' w ->
  let n := List.length (Crash.commit_io (tx_written (reopen_db st) st' w)) in
  Sim st' (crash_image (reopen_db st) st' w cd n fates).
Proof.
  intros st cd ops ord st' w fates HSim Hinv Hops Hrun Hrd Hw n.
  destruct (engine_attempt st cd _ _ st' w n fates HSim Hinv Hops Hrun Hrd Hw) as (_ & _ & _ & Hhist & _).
  split; [|exact Hhist].
  destruct (Sim_reopen _ _ HSim) as [HselR _].
  pose proof (write_set_setting _ _ _ Hw cd HselR) as HS.
  exact (proj1 (CrashCurrent.durable_current _ _ _ _ _ HS fates)).
Qed.

(* in a run: if the first attempt issued every call of its commit (whatever write set the run used), it survived *)
Corollary crash_run_complete_durable : forall st cd a r surv stf cdf, Sim st cd ->
  crash_run st cd (a :: r) surv stf cdf ->
  (forall st' w, run_tx (reopen_db st) (e_ops a) (e_ord a) = Ok st' -> is_write_set (reopen_db st) st' w ->
     e_n a = List.length (Crash.commit_io (tx_written (reopen_db st) st' w))) ->
  exists surv', surv = e_ops a :: surv'.
Proof.
  intros st cd a r surv stf cdf HSim H Hn.
  inversion H as [| st1 cd1 a1 r1 surv1 st' w stf1 cdf1 Hops Hrun Hrd Hw img Hsel Hrest
                  | st1 cd1 a1 r1 surv1 st' w stf1 cdf1 Hops Hrun Hrd Hw img Hsel Hrest]; subst.
  - exfalso. destruct (Sim_reopen _ _ HSim) as [HselR _].
    pose proof (write_set_setting _ _ _ Hw cd HselR) as HS.
    pose proof (proj1 (CrashCurrent.durable_current _ _ _ _ _ HS (e_fates a))) as Hd.
    unfold img, crash_image in Hsel. rewrite (Hn st' w Hrun Hw) in Hsel. rewrite Hd in Hsel.
    assert (E : eng_header st' = eng_header st) by (apply (f_equal (fun o => match o with Some h => h | None => eng_header st end)) in Hsel; exact Hsel).
    apply (headers_differ _ _ _ Hw). rewrite eng_header_reopen. now symmetry.
  - eexists. reflexivity.
Qed.

(* the run is determined up to the choice of the write set: with the same write set the two branches exclude each other *)
Lemma lost_xor_durable : forall st st' w img, is_write_set (reopen_db st) st' w ->
  Crash.select img = Some (eng_header st) -> Crash.select img = Some (eng_header st') -> False.
Proof.
  intros st st' w img Hw H1 H2. rewrite H1 in H2.
  assert (E : eng_header st = eng_header st') by (apply (f_equal (fun o => match o with Some h => h | None => eng_header st end)) in H2; exact H2).
  apply (headers_differ _ _ _ Hw). now rewrite eng_header_reopen.
Qed.

Print Assumptions crash_run_total.
Print Assumptions engine_crash_history_total.
Print Assumptions engine_attempt_complete.
Print Assumptions crash_run_complete_durable.

(* ---------- the premises are satisfiable ---------- *)
Module ExCrash.
Import Ex3.
Definition st0 : db := init_db 1024.
(* pages 3 (the empty root leaf) and 2 (the free-list page) written by "transaction 0"; header in slot 0 *)
Definition cd0 : Crash.disk :=
  Crash.mkDisk [(3%N, Crash.Written 0%N); (2%N, Crash.Written 0%N)] (Crash.SValid (eng_header st0)) Crash.SInvalid.

Example st0_live : eng_header st0 = Crash.mkHeader 0 [3%N; 2%N].
Proof. vm_compute. reflexivity. Qed.

Example sim0 : Sim st0 cd0.
Proof.
  split; [reflexivity|]. exists (eng_header st0). split; [reflexivity|].
  rewrite st0_live. cbn [Crash.h_live Crash.h_tx]. intros p [<-|[<-|[]]]; exists 0%N; (split; [reflexivity | lia]).
Qed.

Example inv0 : db_inv st0.
Proof. apply init_db_inv. lia. Qed.

Definition fates1 (i : nat) : Crash.fate := match i with 0%nat => Crash.Applied | 1%nat => Crash.Torn | _ => Crash.Lost end.
Definition a1 (n : nat) : attempt_e := mkAE (fst ExHistory.tx1) (snd ExHistory.tx1) n fates1.
Definition a2 (n : nat) : attempt_e := mkAE [Put [] ka [x02]] [] n (fun _ => Crash.Torn).

Example attempts_ok0 : forall n1 n2, attempts_okE st0 [a1 n1; a2 n2].
Proof.
  intros n1 n2. cbn [attempts_okE a1 a2 e_ops e_ord]. split; [repeat constructor; cbn; lia|].
  eexists. split; [vm_compute; reflexivity|]. split; [apply readableb_ok; vm_compute; reflexivity|].
  split.
  - split; [repeat constructor; cbn; lia|].
    eexists. split; [vm_compute; reflexivity|]. split; [apply readableb_ok; vm_compute; reflexivity|]. split; exact I.
  - split; [repeat constructor; cbn; lia|].
    eexists. split; [vm_compute; reflexivity|]. split; [apply readableb_ok; vm_compute; reflexivity|]. split; exact I.
Qed.

(* hence: wherever the two commits are cut, a run exists and ends in the simulation with exactly the survivors applied *)
Example two_crashes : forall n1 n2, exists surv stf cdf, crash_run st0 cd0 [a1 n1; a2 n2] surv stf cdf /\
  Sim stf cdf /\ db_inv stf /\ abs_db stf = sem_survivors surv (abs_db st0).
Proof. intros n1 n2. exact (engine_crash_history_total _ _ _ sim0 inv0 (attempts_ok0 n1 n2)). Qed.
End ExCrash.
Print Assumptions ExCrash.two_crashes.

(* one concrete attempt, both outcomes *)
Module ExCuts.
Import Ex3 ExCrash.
Definition run1 := Eval vm_compute in run_tx (reopen_db st0) (fst ExHistory.tx1) (snd ExHistory.tx1).
Definition st1 : db := match run1 with Ok st => st | _ => st0 end.
Example run1_ok : run_tx (reopen_db st0) (fst ExHistory.tx1) (snd ExHistory.tx1) = Ok st1.
Proof. vm_compute. reflexivity. Qed.
Example ops1_ok : Forall (op_ok (d_disk (reopen_db st0))) (fst ExHistory.tx1).
Proof. repeat constructor; cbn; lia. Qed.
Example st1_readable : readable st1.
Proof. apply readableb_ok. vm_compute. reflexivity. Qed.
Example st1_write_set : exists w, is_write_set (reopen_db st0) st1 w.
Proof.
  destruct (db_inv_facts _ (reopen_inv _ inv0)) as (_ & Hokz & _).
  exact (run_tx_has_write_set _ _ _ _ Hokz ops1_ok run1_ok st1_readable).
Qed.

(* power lost before the first call is issued: the attempt is lost, the reopened old state goes on *)
Example lost_cut : crash_run st0 cd0 [a1 0] [] (reopen_db st0) cd0.
Proof.
  destruct st1_write_set as (w & Hw).
  apply (cr_lost st0 cd0 (a1 0) [] [] st1 w (reopen_db st0) cd0 ops1_ok run1_ok st1_readable Hw).
  - unfold crash_image. rewrite CrashCurrent.current_io_shape.
    destruct (tx_written (reopen_db st0) st1 w); reflexivity.
  - unfold crash_image. rewrite CrashCurrent.current_io_shape.
    destruct (tx_written (reopen_db st0) st1 w); constructor.
Qed.

(* every call issued (the last one is the sync after the header): the attempt is durable whatever [fates] says *)
Example durable_cut : exists n cdf, crash_run st0 cd0 [a1 n] [fst ExHistory.tx1] st1 cdf /\
  Sim st1 cdf /\ abs_db st1 = sem_tx (fst ExHistory.tx1) (abs_db st0).
Proof.
  destruct st1_write_set as (w & Hw).
  exists (List.length (Crash.commit_io (tx_written (reopen_db st0) st1 w))). eexists.
  pose proof (engine_attempt_complete st0 cd0 _ _ st1 w fates1 sim0 inv0 ops1_ok run1_ok st1_readable Hw) as HS.
  cbv zeta in HS. split; [|split; [exact HS|]].
  - apply (cr_durable st0 cd0 (a1 _) [] [] st1 w st1 _ ops1_ok run1_ok st1_readable Hw); [exact (proj1 HS) | constructor].
  - vm_compute. reflexivity.
Qed.
End ExCuts.
Print Assumptions ExCuts.lost_cut.
Print Assumptions ExCuts.durable_cut.
