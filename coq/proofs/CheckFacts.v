(* The database's own consistency check (CheckM.check_m, the model of TxInner::check) accepts every file
   that the framework's independent invariant checker (Tree.inv_check) accepts:

     Theorem inv_check_implies_check_m : forall rd P, inv_check rd P = Ok tt -> check_m rd P = Ok tt.

   "With strict mode on, a valid commit is never rejected."

   Structure:
   1. list lemmas: remove1N / remove_all versus Permutation; sortN is a permutation; eq_listN reflects
      equality; partition_ok => Permutation / NoDup;
   2. [covers rd P stack pgs]: an (unnested) inductive description of what the DFS of check_loop does
      for a stack of page ids: [pgs] is, up to permutation, the set of pages it removes, and every
      visited page passes the per-page sortedness test;
   3. check_loop run on a covered stack with [unused] a permutation of the covered pages returns Ok;
   4. build_tree / bucket_pages / bucket_wf produce a cover of [root];
   5. the free-list page step and the main theorem. *)
From Coq Require Import List NArith Bool Arith Lia ZifyN ZifyBool Permutation.
From Coq.Strings Require Import Byte.
From Jamm Require Import Bytes Consts Meta Codec Tree CheckM SearchFacts.
Import ListNotations.
Local Open Scope list_scope. Local Open Scope N_scope.

Arguments N.add : simpl never. Arguments N.sub : simpl never. Arguments N.mul : simpl never.
Arguments N.ltb : simpl never. Arguments N.leb : simpl never. Arguments N.eqb : simpl never.

(* ====================================================================== *)
(** * 1. list lemmas *)

Lemma remove1N_in : forall x l, In x l -> exists l', remove1N x l = Some l' /\ Permutation l (x :: l').
Proof.
  intros x l. induction l as [|y l IH]; intros Hin; [contradiction|].
  cbn [remove1N]. destruct (N.eqb_spec x y) as [->|Hne].
  - exists l. split; [reflexivity | apply Permutation_refl].
  - destruct Hin as [->|Hin]; [congruence|].
    destruct (IH Hin) as (l' & -> & Hp). exists (y :: l'). split; [reflexivity|].
    eapply perm_trans; [apply perm_skip; exact Hp | apply perm_swap].
Qed.

Lemma remove1N_some : forall x l l', remove1N x l = Some l' -> Permutation l (x :: l').
Proof.
  intros x l. induction l as [|y l IH]; intros l' H; cbn [remove1N] in H; [discriminate|].
  destruct (N.eqb_spec x y) as [->|Hne].
  - injection H as <-. apply Permutation_refl.
  - destruct (remove1N x l) as [r|] eqn:E; [|discriminate]. injection H as <-.
    eapply perm_trans; [apply perm_skip; apply IH; reflexivity | apply perm_swap].
Qed.

Lemma remove1N_none : forall x l, remove1N x l = None -> ~ In x l.
Proof.
  intros x l H Hin. destruct (remove1N_in x l Hin) as (l' & E & _). congruence.
Qed.

Lemma remove1N_perm : forall x l r, Permutation l (x :: r) ->
  exists l', remove1N x l = Some l' /\ Permutation l' r.
Proof.
  intros x l r Hp.
  assert (Hin : In x l) by (eapply Permutation_in; [apply Permutation_sym; exact Hp | now left]).
  destruct (remove1N_in x l Hin) as (l' & E & Hp'). exists l'. split; [exact E|].
  eapply Permutation_cons_inv. eapply perm_trans; [apply Permutation_sym; exact Hp' | exact Hp].
Qed.

(* remove_all succeeds only if the elements are present with multiplicity, and yields a complement *)
Lemma remove_all_some : forall xs l l', remove_all xs l = Some l' -> Permutation l (xs ++ l').
Proof.
  induction xs as [|x xs IH]; intros l l' H; cbn [remove_all] in H.
  - injection H as <-. apply Permutation_refl.
  - destruct (remove1N x l) as [l1|] eqn:E; [|discriminate].
    apply remove1N_some in E. apply IH in H. cbn [app].
    eapply perm_trans; [exact E | apply perm_skip; exact H].
Qed.

(* ... and conversely *)
Lemma remove_all_perm : forall xs l r, Permutation l (xs ++ r) ->
  exists l', remove_all xs l = Some l' /\ Permutation l' r.
Proof.
  induction xs as [|x xs IH]; intros l r Hp; cbn [remove_all].
  - exists l. split; [reflexivity | exact Hp].
  - cbn [app] in Hp. destruct (remove1N_perm x l _ Hp) as (l1 & -> & Hp1). apply IH. exact Hp1.
Qed.

Lemma remove_all_iff : forall xs l,
  (exists l', remove_all xs l = Some l') <-> (exists r, Permutation l (xs ++ r)).
Proof.
  intros xs l. split.
  - intros (l' & H). exists l'. now apply remove_all_some.
  - intros (r & Hp). destruct (remove_all_perm xs l r Hp) as (l' & H & _). now exists l'.
Qed.

Lemma insert_sorted_perm : forall x l, Permutation (insert_sorted x l) (x :: l).
Proof.
  intros x l. induction l as [|y l IH]; cbn [insert_sorted]; [apply Permutation_refl|].
  destruct (x <=? y); [apply Permutation_refl|].
  eapply perm_trans; [apply perm_skip; exact IH | apply perm_swap].
Qed.

Lemma sortN_perm : forall l, Permutation (sortN l) l.
Proof.
  intros l. unfold sortN.
  assert (G : forall l acc, Permutation (fold_left (fun acc x => insert_sorted x acc) l acc) (l ++ acc)).
  { clear l. induction l as [|x l IH]; intros acc; cbn [fold_left app]; [apply Permutation_refl|].
    eapply perm_trans; [apply IH|].
    eapply perm_trans; [apply Permutation_app_head; apply insert_sorted_perm|].
    apply Permutation_sym. apply Permutation_middle. }
  specialize (G l []). now rewrite app_nil_r in G.
Qed.

Lemma eq_listN_true : forall a b, eq_listN a b = true -> a = b.
Proof.
  induction a as [|x a IH]; intros [|y b] H; cbn [eq_listN] in H; try discriminate; [reflexivity|].
  apply andb_true_iff in H. destruct H as [H1 H2]. apply N.eqb_eq in H1. subst y. f_equal. now apply IH.
Qed.

Lemma eq_listN_refl : forall a, eq_listN a a = true.
Proof. induction a as [|x a IH]; cbn [eq_listN]; [reflexivity|]. now rewrite N.eqb_refl, IH. Qed.

Lemma in_seqN : forall n s x, In x (seqN s n) <-> s <= x < s + N.of_nat n.
Proof.
  induction n as [|n IH]; intros s x; cbn [seqN In].
  - lia.
  - rewrite IH. lia.
Qed.

Lemma seqN_NoDup : forall n s, NoDup (seqN s n).
Proof.
  induction n as [|n IH]; intros s; cbn [seqN]; constructor; [|apply IH].
  rewrite in_seqN. lia.
Qed.

Lemma seqN_length : forall n s, length (seqN s n) = n.
Proof. induction n as [|n IH]; intros s; cbn [seqN length]; [reflexivity|]. now rewrite IH. Qed.

Lemma seqN_succ : forall s o, seqN s (N.to_nat (o + 1)) = s :: seqN (s + 1) (N.to_nat o).
Proof. intros s o. replace (N.to_nat (o + 1)) with (S (N.to_nat o)) by lia. reflexivity. Qed.

(* the partition check: the three lists together are exactly [2, np), each id once *)
Theorem partition_ok_perm : forall np reach flrun free,
  partition_ok np reach flrun free = true ->
  Permutation (reach ++ flrun ++ free) (seqN 2 (N.to_nat (np - 2))).
Proof.
  intros np reach flrun free H. unfold partition_ok in H. apply eq_listN_true in H.
  rewrite <- H. apply Permutation_sym. apply sortN_perm.
Qed.

Theorem partition_ok_NoDup : forall np reach flrun free,
  partition_ok np reach flrun free = true -> NoDup (reach ++ flrun ++ free).
Proof.
  intros np reach flrun free H. apply partition_ok_perm in H.
  eapply Permutation_NoDup; [apply Permutation_sym; exact H | apply seqN_NoDup].
Qed.

Theorem partition_ok_in : forall np reach flrun free,
  partition_ok np reach flrun free = true ->
  forall x, In x (reach ++ flrun ++ free) <-> 2 <= x < np \/ (np < 2 /\ False).
Proof.
  intros np reach flrun free H x. apply partition_ok_perm in H. split.
  - intros Hin. eapply Permutation_in in Hin; [|exact H]. apply in_seqN in Hin. lia.
  - intros [Hx|[_ []]]. eapply Permutation_in; [apply Permutation_sym; exact H|]. apply in_seqN. lia.
Qed.

(* ====================================================================== *)
(** * 2. the res monad / mapM *)

Lemma bind_ok : forall {A B} (r : res A) (f : A -> res B) b,
  bind r f = Ok b -> exists a, r = Ok a /\ f a = Ok b.
Proof. intros A B [a|m] f b H; cbn [bind] in H; [eauto | discriminate]. Qed.

Lemma mapM_Forall2 : forall {A B} (f : A -> res B) l ys,
  mapM f l = Ok ys -> Forall2 (fun x y => f x = Ok y) l ys.
Proof.
  intros A B f. induction l as [|x l IH]; intros ys H; cbn [mapM] in H.
  - injection H as <-. constructor.
  - apply bind_ok in H. destruct H as (y & Hy & H). apply bind_ok in H. destruct H as (ys' & Hys & H).
    injection H as <-. constructor; [exact Hy | now apply IH].
Qed.

(* ====================================================================== *)
(** * 3. covers: the footprint of the DFS *)

Definition leaf_roots (l : list lent) : list N :=
  flat_map (fun e => match e with EBk _ r _ => [r] | EKv _ _ => [] end) l.

(* the page ids check_step pushes for a page body; None = the page must not occur inside a tree /
   fails the per-page sortedness test *)
Definition children (b : pbody) : option (list N) :=
  match b with
  | PBranch es => if sorted_keys (map fst es) then Some (map snd es) else None
  | PLeaf l => if sorted_keys (map lent_key l) then Some (leaf_roots l) else None
  | PFree _ => None
  end.

Section Covers.
Variables (rd : reader) (P : N).

(* [covers stack pgs]: every page id on [stack] decodes to a branch or leaf page with strictly ascending
   keys, recursively so for everything it pushes, and [pgs] is (a permutation of) all page runs visited. *)
Inductive covers : list N -> list N -> Prop :=
| covers_nil : covers [] []
| covers_cons : forall pid stack h b ch pgs1 pgs2 pgs,
    decode_page rd P pid = Ok (h, b) ->
    children b = Some ch ->
    covers ch pgs1 ->
    covers stack pgs2 ->
    Permutation pgs (seqN pid (N.to_nat (ph_overflow h + 1)) ++ pgs1 ++ pgs2) ->
    covers (pid :: stack) pgs.

Lemma covers_perm_pages : forall s p p', covers s p -> Permutation p p' -> covers s p'.
Proof.
  intros s p p' H Hp. destruct H.
  - apply Permutation_nil in Hp. subst. constructor.
  - econstructor; eauto. eapply perm_trans; [apply Permutation_sym; exact Hp | assumption].
Qed.

Lemma covers_nil_inv : forall p, covers [] p -> p = [].
Proof. intros p H. inversion H. reflexivity. Qed.

Lemma covers_app : forall s1 p1, covers s1 p1 -> forall s2 p2, covers s2 p2 -> covers (s1 ++ s2) (p1 ++ p2).
Proof.
  intros s1 p1 H. induction H as [|pid stack h b ch pgs1 pgs2 pgs Hd Hc H1 _ H2 IH2 Hp]; intros s2 p2 H'.
  - exact H'.
  - cbn [app]. econstructor; [exact Hd | exact Hc | exact H1 | apply IH2; exact H' |].
    eapply perm_trans; [apply Permutation_app_tail; exact Hp|].
    rewrite <- !app_assoc. apply Permutation_refl.
Qed.

Lemma covers_perm_stack : forall s s', Permutation s s' -> forall p, covers s p -> covers s' p.
Proof.
  intros s s' Hs. induction Hs as [|x l l' Hl IH|x y l|l l' l'' _ IH1 _ IH2]; intros p H.
  - exact H.
  - inversion H; subst. econstructor; eauto.
  - inversion H as [|pid stack h b ch pgs1 pgs2 pgs Hd Hc H1 H2 Hp]; subst.
    inversion H2 as [|pid' stack' h' b' ch' pgs1' pgs2' pgs' Hd' Hc' H1' H2' Hp']; subst.
    econstructor; [exact Hd' | exact Hc' | exact H1' | |].
    + econstructor; [exact Hd | exact Hc | exact H1 | exact H2' | apply Permutation_refl].
    + eapply perm_trans; [exact Hp|].
      eapply perm_trans; [apply Permutation_app_head; apply Permutation_app_head; exact Hp'|].
      set (A := seqN y _). set (B := seqN x _).
      (* A ++ pgs1 ++ B ++ pgs1' ++ pgs2'  ~  B ++ pgs1' ++ A ++ pgs1 ++ pgs2' *)
      replace (A ++ pgs1 ++ B ++ pgs1' ++ pgs2') with ((A ++ pgs1) ++ (B ++ pgs1') ++ pgs2')
        by (now rewrite <- !app_assoc).
      replace (B ++ pgs1' ++ A ++ pgs1 ++ pgs2') with ((B ++ pgs1') ++ (A ++ pgs1) ++ pgs2')
        by (now rewrite <- !app_assoc).
      apply Permutation_app_swap_app.
  - apply IH2. apply IH1. exact H.
Qed.

Lemma covers_length : forall s p, covers s p -> (length s <= length p)%nat.
Proof.
  intros s p H. induction H as [|pid stack h b ch pgs1 pgs2 pgs Hd Hc H1 _ H2 IH2 Hp]; [apply Nat.le_refl|].
  apply Permutation_length in Hp. rewrite Hp, !app_length, seqN_length. cbn [length]. lia.
Qed.

(* ---------------------------------------------------------------------- *)
(** ** check_loop on a covered stack *)

Lemma check_loop_covers : forall fl n stack pgs unused fuel,
  (length pgs <= n)%nat ->
  covers stack pgs ->
  Permutation unused pgs ->
  (length unused <= fuel)%nat ->
  check_loop fuel rd P fl stack unused = Ok tt.
Proof.
  intros fl. induction n as [|n IH]; intros stack pgs unused fuel Hn Hc Hu Hf.
  - destruct pgs; [|cbn [length] in Hn; lia].
    apply Permutation_sym, Permutation_nil in Hu. subst unused.
    pose proof (covers_length _ _ Hc) as Hl. destruct stack; [destruct fuel; reflexivity | cbn [length] in Hl; lia].
  - inversion Hc as [|pid stack' h b ch pgs1 pgs2 pgs' Hd Hch H1 H2 Hp]; subst.
    + apply Permutation_sym, Permutation_nil in Hu. subst unused. destruct fuel; reflexivity.
    + rewrite seqN_succ in Hp.
      assert (Hu' : Permutation unused (pid :: seqN (pid + 1) (N.to_nat (ph_overflow h)) ++ pgs1 ++ pgs2))
        by (eapply perm_trans; [exact Hu | exact Hp]).
      pose proof (Permutation_length Hu') as Hlen.
      destruct fuel as [|f]; [rewrite Hlen in Hf; cbn [length] in Hf; lia|].
      cbn [check_loop]. unfold check_step.
      destruct (remove1N_perm _ _ _ Hu') as (u1 & -> & Hu1).
      rewrite Hd. cbn [bind].
      destruct (remove_all_perm _ _ _ Hu1) as (u2 & -> & Hu2).
      pose proof (Permutation_length Hu2) as Hlen2.
      pose proof (Permutation_length Hp) as Hlenp.
      cbn [app] in Hlenp. cbn [length] in Hlen, Hlenp. rewrite app_length in Hlen, Hlenp.
      assert (Hgo : forall st, Permutation st (ch ++ stack') -> check_loop f rd P fl st u2 = Ok tt).
      { intros st Hst. apply (IH st (pgs1 ++ pgs2)).
        - lia.
        - eapply covers_perm_stack; [apply Permutation_sym; exact Hst|]. apply covers_app; assumption.
        - exact Hu2.
        - lia. }
      destruct b as [l|es|ids]; cbn [children] in Hch.
      * destruct (sorted_keys (map lent_key l)); [|discriminate]. injection Hch as <-.
        cbn [bind]. apply Hgo. apply Permutation_app_tail. apply Permutation_sym, Permutation_rev.
      * destruct (sorted_keys (map fst es)); [|discriminate]. injection Hch as <-.
        cbn [bind]. apply Hgo. apply Permutation_app_tail. apply Permutation_sym, Permutation_rev.
      * discriminate.
Qed.

(* ---------------------------------------------------------------------- *)
(** ** build_tree / bucket_pages produce covers *)

(* per-page sortedness inside a decoded tree: what check_step tests page by page *)
Fixpoint pages_sorted (t : tree) : bool :=
  match t with
  | TL _ _ l => sorted_keys (map lent_key l)
  | TB _ _ ks => sorted_keys (map fst ks) && forallb (fun kt : bytes * tree => pages_sorted (snd kt)) ks
  end.

Lemma sorted_keys_mid : forall a b c : list bytes, sorted_keys (a ++ b ++ c) = true -> sorted_keys b = true.
Proof.
  intros a b c H. apply sorted_keys_app in H. destruct H as [_ H].
  apply sorted_keys_app in H. apply H.
Qed.

Lemma wf_tree_pages_sorted : forall t, wf_shape t = true ->
  sorted_keys (map lent_key (flatten t)) = true -> pages_sorted t = true.
Proof.
  induction t as [p o l | p o ks IH] using tree_ind'; intros Hwf Hs; [exact Hs|].
  cbn [pages_sorted]. apply andb_true_iff. split; [eapply wf_shape_TB_sorted; eauto|].
  destruct (wf_shape_TB p o ks Hwf) as (_ & Hwc & _).
  cbn [flatten] in Hs. clear Hwf. revert IH Hwc Hs.
  induction ks as [|kt ks IHks]; intros IH Hwc Hs; [reflexivity|].
  cbn [forallb]. cbn [flat_map] in Hs. rewrite map_app in Hs. apply sorted_keys_app in Hs.
  destruct Hs as [Hs1 Hs2]. inversion IH as [|? ? IHkt IHrest]; subst.
  apply andb_true_iff. split.
  - apply IHkt; [apply Hwc; now left | exact Hs1].
  - apply IHks; [exact IHrest | intros kt' Hin; apply Hwc; now right | exact Hs2].
Qed.

(* the relation between a leaf entry and the pages of the nested bucket it may carry *)
Definition ent_cov (e : lent) (sp : list N) : Prop :=
  match e with EKv _ _ => sp = [] | EBk _ r _ => covers [r] sp end.

Lemma leaf_roots_covers : forall l subs, Forall2 ent_cov l subs -> covers (leaf_roots l) (List.concat subs).
Proof.
  intros l subs H. induction H as [|e sp l subs He _ IH]; [constructor|].
  unfold leaf_roots. cbn [flat_map concat]. fold (leaf_roots l).
  destruct e as [k v|k r nx]; cbn [ent_cov] in He.
  - subst sp. exact IH.
  - apply covers_app; assumption.
Qed.

Lemma build_tree_covers : forall fuel pid t,
  build_tree fuel rd P pid = Ok t ->
  pages_sorted t = true ->
  forall subs, Forall2 ent_cov (flatten t) subs ->
  covers [pid] (tree_pages t ++ List.concat subs).
Proof.
  induction fuel as [|f IH]; intros pid t Hb Hs subs Hsubs; cbn [build_tree] in Hb; [discriminate|].
  apply bind_ok in Hb. destruct Hb as ([h b] & Hd & Hb).
  destruct b as [l|es|ids]; [| |discriminate].
  - injection Hb as <-. cbn [pages_sorted] in Hs. cbn [flatten] in Hsubs. cbn [tree_pages].
    econstructor; [exact Hd | cbn [children]; rewrite Hs; reflexivity
                  | apply leaf_roots_covers; exact Hsubs | constructor |].
    rewrite app_nil_r. apply Permutation_refl.
  - apply bind_ok in Hb. destruct Hb as (ks & Hks & Hb). injection Hb as <-.
    cbn [pages_sorted] in Hs. apply andb_true_iff in Hs. destruct Hs as [Hsk Hsc].
    cbn [flatten] in Hsubs. cbn [tree_pages].
    apply mapM_Forall2 in Hks.
    assert (Hfst : map fst ks = map fst es).
    { clear -Hks. induction Hks as [|e kt es ks He _ IHk]; [reflexivity|].
      apply bind_ok in He. destruct He as (t & _ & He). injection He as <-. cbn [map fst]. now f_equal. }
    assert (Hkids : covers (map snd es)
              (flat_map (fun kt : bytes * tree => tree_pages (snd kt)) ks ++ List.concat subs)).
    { clear Hsk Hfst Hd. revert subs Hsubs Hsc.
      induction Hks as [|e kt es ks He _ IHk]; intros subs Hsubs Hsc.
      - cbn [flat_map] in Hsubs. inversion Hsubs; subst. constructor.
      - apply bind_ok in He. destruct He as (t & Ht & He). injection He as <-.
        cbn [forallb snd] in Hsc. apply andb_true_iff in Hsc. destruct Hsc as [Hst Hsc].
        cbn [flat_map snd] in Hsubs |- *.
        apply Forall2_app_inv_l in Hsubs. destruct Hsubs as (s1 & s2 & Hs1 & Hs2 & ->).
        rewrite concat_app. cbn [map].
        eapply covers_perm_pages.
        + apply (covers_app [snd e] _ (IH _ _ Ht Hst s1 Hs1) _ _ (IHk s2 Hs2 Hsc)).
        + rewrite <- !app_assoc. apply Permutation_app_head.
          rewrite !app_assoc. apply Permutation_app_tail. apply Permutation_app_comm. }
    econstructor; [exact Hd | cbn [children]; rewrite <- Hfst, Hsk; reflexivity | exact Hkids | constructor |].
    rewrite app_nil_r, <- app_assoc. apply Permutation_refl.
Qed.

Lemma bucket_covers : forall np fuel root reach,
  bucket_pages fuel rd P np root = Ok reach ->
  bucket_wf fuel rd P np root = Ok true ->
  covers [root] reach.
Proof.
  intros np. induction fuel as [|f IH]; intros root reach Hp Hw; cbn [bucket_pages bucket_wf] in Hp, Hw;
    [discriminate|].
  apply bind_ok in Hp. destruct Hp as (t & Ht & Hp). rewrite Ht in Hw. cbn [bind] in Hw.
  apply bind_ok in Hp. destruct Hp as (subs & Hsubs & Hp). injection Hp as <-.
  apply bind_ok in Hw. destruct Hw as (ws & Hws & Hw). injection Hw as Hw.
  apply andb_true_iff in Hw. destruct Hw as [Hwf Hall].
  unfold wf_tree in Hwf. apply andb_true_iff in Hwf. destruct Hwf as [Hshape Hsorted].
  eapply build_tree_covers; [exact Ht | apply wf_tree_pages_sorted; assumption |].
  apply mapM_Forall2 in Hsubs. apply mapM_Forall2 in Hws.
  clear Ht Hshape Hsorted. revert ws Hws Hall.
  induction Hsubs as [|e sp l subs He _ IHl]; intros ws Hws Hall; [constructor|].
  inversion Hws as [|? w ? ws' Hwe Hws']; subst. cbn [forallb] in Hall.
  apply andb_true_iff in Hall. destruct Hall as [Hw1 Hall]. subst w.
  constructor; [|eapply IHl; eauto].
  destruct e as [k v|k r nx]; cbn [ent_cov].
  - now injection He as <-.
  - apply IH; assumption.
Qed.

End Covers.

(* ====================================================================== *)
(** * 4. the main theorem *)

Lemma open_db_inv : forall rd P o, open_db rd P = Ok o ->
  exists h, decode_page rd P (m_fl (o_meta o)) = Ok (h, PFree (o_free o)) /\
            o_flrun o = seqN (m_fl (o_meta o)) (N.to_nat (ph_overflow h + 1)).
Proof.
  intros rd P o H. unfold open_db in H. destruct (open_meta rd P) as [m| |why]; try discriminate.
  apply bind_ok in H. destruct H as ([h b] & Hd & H).
  destruct b as [l|es|ids]; try discriminate. injection H as <-. cbn [o_meta o_free o_flrun].
  exists h. split; [exact Hd | reflexivity].
Qed.

Theorem inv_check_implies_check_m : forall rd P, inv_check rd P = Ok tt -> check_m rd P = Ok tt.
Proof.
  intros rd P H. unfold inv_check in H.
  apply bind_ok in H. destruct H as (o & Ho & H).
  cbv zeta in H. set (m := o_meta o) in *.
  destruct (m_np m <? 4) eqn:Enp; [discriminate|].
  apply bind_ok in H. destruct H as (reach & Hreach & H).
  apply bind_ok in H. destruct H as (wf & Hwf & H).
  destruct wf; cbn [negb] in H; [|discriminate].
  destruct (partition_ok (m_np m) reach (o_flrun o) (o_free o)) eqn:Hpart; cbn [negb] in H; [|discriminate].
  clear H.
  unfold check_m. rewrite Ho. cbn [bind]. cbv zeta. fold m.
  destruct (open_db_inv _ _ _ Ho) as (h & Hd & Hrun). fold m in Hd, Hrun.
  apply partition_ok_perm in Hpart. rewrite Hrun, seqN_succ in Hpart.
  pose proof (bucket_covers rd P _ _ _ _ Hreach Hwf) as Hcov.
  set (unused := seqN 2 (N.to_nat (m_np m - 2))) in *.
  assert (Hlen : length unused = N.to_nat (m_np m - 2)) by apply seqN_length.
  (* first iteration: the free-list page *)
  assert (Hu : Permutation unused
                 (m_fl m :: seqN (m_fl m + 1) (N.to_nat (ph_overflow h)) ++ o_free o ++ reach)).
  { eapply perm_trans; [apply Permutation_sym; exact Hpart|].
    eapply perm_trans; [apply Permutation_app_comm|]. cbn [app]. rewrite <- app_assoc. apply Permutation_refl. }
  cbn [check_loop]. unfold check_step.
  destruct (remove1N_perm _ _ _ Hu) as (u1 & -> & Hu1).
  rewrite Hd. cbn [bind].
  destruct (remove_all_perm _ _ _ Hu1) as (u2 & -> & Hu2).
  rewrite N.eqb_refl. cbn [negb].
  destruct (remove_all_perm _ _ _ Hu2) as (u3 & -> & Hu3).
  cbn [bind].
  apply (check_loop_covers rd P (m_fl m) (length reach) [m_root m] reach u3).
  - apply Nat.le_refl.
  - exact Hcov.
  - exact Hu3.
  - pose proof (Permutation_length Hu) as L. rewrite Hlen in L. cbn [length] in L.
    rewrite !app_length in L. rewrite (Permutation_length Hu3). lia.
Qed.

Print Assumptions inv_check_implies_check_m.

(* the easy converse-direction fact *)
Theorem check_m_opens : forall rd P, check_m rd P = Ok tt -> exists o, open_db rd P = Ok o.
Proof.
  intros rd P H. unfold check_m in H. apply bind_ok in H. destruct H as (o & Ho & _). eauto.
Qed.

(* by-products of the proof, stated for the whole file: what inv_check guarantees about page accounting *)
Theorem inv_check_partition : forall rd P, inv_check rd P = Ok tt ->
  exists o reach,
    open_db rd P = Ok o /\
    4 <= m_np (o_meta o) /\
    bucket_pages (N.to_nat (m_np (o_meta o))) rd P (m_np (o_meta o)) (m_root (o_meta o)) = Ok reach /\
    covers rd P [m_root (o_meta o)] reach /\
    Permutation (reach ++ o_flrun o ++ o_free o) (seqN 2 (N.to_nat (m_np (o_meta o) - 2))) /\
    NoDup (reach ++ o_flrun o ++ o_free o).
Proof.
  intros rd P H. unfold inv_check in H.
  apply bind_ok in H. destruct H as (o & Ho & H). cbv zeta in H.
  destruct (m_np (o_meta o) <? 4) eqn:Enp; [discriminate|].
  apply bind_ok in H. destruct H as (reach & Hreach & H).
  apply bind_ok in H. destruct H as (wf & Hwf & H).
  destruct wf; cbn [negb] in H; [|discriminate].
  destruct (partition_ok _ reach (o_flrun o) (o_free o)) eqn:Hpart; cbn [negb] in H; [|discriminate].
  exists o, reach. repeat split; try assumption.
  - lia.
  - eapply bucket_covers; eauto.
  - now apply partition_ok_perm.
  - eapply partition_ok_NoDup; eauto.
Qed.

Print Assumptions check_m_opens.
Print Assumptions inv_check_partition.
