(* Layer (Q) of the allocation-invariant development: REBALANCE preserves the ownership invariant [OwnI] of the
   transaction overlay, with EXACT page accounting: the pages handed back are exactly the runs of the head pages
   that [try_merge] / [merge_nodes] drop from the overlay tree. *)
From Coq Require Import List NArith Bool Arith Lia ZifyN ZifyNat ZifyBool Permutation.
From Coq.Strings Require Import Byte.
From Jamm Require Spec.
From Jamm Require Import Bytes BytesFacts Tree Cursor SearchFacts Engine EngineAbs EngineFacts EngineMergeFacts.
From Jamm Require Import EngineModifyFacts EngineSpillFacts EnginePathFacts EngineBridgeFacts EngineRebalanceFacts.
From Jamm Require FreelistFacts EngineAllocFacts EngineSpillWfFacts.
From Jamm Require Import EngineTxInvFacts EngineSpillBucketFacts EngineRefines EngineOwnDefs.
Import ListNotations.
Import Coq.Strings.String.StringSyntax. Delimit Scope string_scope with string.
Local Open Scope list_scope. Local Open Scope nat_scope.
Set Warnings "-abstract-large-number".
Arguments N.add : simpl never. Arguments N.sub : simpl never. Arguments N.mul : simpl never.
Arguments N.div : simpl never. Arguments N.ltb : simpl never. Arguments N.leb : simpl never.
Arguments N.eqb : simpl never.

(* ====================================================================== *)
(** * 1. The state properties threaded through rebalance *)

(* every pending page was handed back by the running transaction *)
Definition pend_cur (s : txs) : Prop := forall x, In x (pend_all (pending s)) -> freed_in_tx s x = true.

(* the two properties of the pending list that rebalance keeps *)
Definition pst (s : txs) : Prop := pend_ids_ok s /\ pend_cur s.

Lemma freed_bump : forall s x, freed_in_tx (bump s) x = freed_in_tx s x.
Proof. reflexivity. Qed.

Lemma pst_bump : forall s, pst s -> pst (bump s).
Proof. intros s [A B]. split; [exact A | exact B]. Qed.

Lemma pst_free_node_page : forall s k, pst s -> pst (free_node_page s k).
Proof.
  intros s k [A B]. split; [now apply free_node_page_pend_ids|].
  intros x Hx. apply free_node_page_pend_all in Hx. apply free_node_page_freed.
  destruct Hx as [Hx | Hx]; [left; now apply B | now right].
Qed.

Lemma pst_merge_tx : forall s k s', merge_tx s k s' -> pst s -> pst s'.
Proof.
  intros s k s' [-> | [-> | ->]] H; [exact H | now apply pst_free_node_page |].
  apply pst_free_node_page. now apply pst_bump.
Qed.

(* what a merge hands back: the old run of the merged node *)
Lemma merge_tx_freed : forall s k s' x, merge_tx s k s' -> freed_in_tx s' x = true ->
  freed_in_tx s x = true \/ old_run k x.
Proof.
  intros s k s' x [-> | [-> | ->]] H; [now left | now apply free_node_page_freed in H |].
  apply free_node_page_freed in H. rewrite freed_bump in H. exact H.
Qed.

(* with [pg_ok], the old run of a node is the run of its page on the committed disk *)
Lemma pg_ok_inv : forall d n, pg_ok d n ->
  (n_page n <> 0%N -> exists a, dget d (n_page n) = Some a /\ n_np n = (ap_over a + 1)%N) /\
  (forall k, In k (n_kids n) -> pg_ok d k).
Proof. intros d n H. inversion H; subst. split; assumption. Qed.

Lemma pg_old_run : forall d k x, pg_ok d k -> old_run k x -> In x (prun d (n_page k)).
Proof.
  intros d k x H [Hnz Hx]. destruct (pg_ok_inv _ _ H) as [Hp _]. destruct (Hp Hnz) as (a & Hg & Hn).
  unfold prun. rewrite Hg. apply In_nrun. lia.
Qed.

(* ====================================================================== *)
(** * 2. [try_merge]: exact accounting of the named pages *)

(* [Post] (EngineRebalanceFacts) forgets WHICH named page disappears; it is exactly the page of the merged kid *)
Lemma step_left_x : forall h d s lo hi p np og sq E1 kq q ko k E2 ks l par' s',
  sorted_keys (map fst (E1 ++ (kq, q) :: (ko, n_page k) :: E2)) = true ->
  NoDup (map snd (E1 ++ (kq, q) :: (ko, n_page k) :: E2)) ->
  Forall (inb lo hi) (map fst (E1 ++ (kq, q) :: (ko, n_page k) :: E2)) ->
  kids_linked (E1 ++ (kq, q) :: (ko, n_page k) :: E2) ks -> In k ks ->
  Forall2 (CInv h d ks) (E1 ++ [(kq, q)]) (cbs (lo0 lo) (map fst (E1 ++ [(kq, q)])) (Some ko)) ->
  Inv h d true (Some ko) (nxt (map fst E2) hi) k ->
  Forall2 (CInv h d ks) E2 (cbs Some (map fst E2) hi) ->
  NodeView d (S h) (Node p np og sq (Branches (E1 ++ (kq, q) :: (ko, n_page k) :: E2)) ks) l ->
  NoDup (npages (S h) d (Node p np og sq (Branches (E1 ++ (kq, q) :: (ko, n_page k) :: E2)) ks)) ->
  NoDup (seqs (Node p np og sq (Branches (E1 ++ (kq, q) :: (ko, n_page k) :: E2)) ks)) ->
  needs_merging s k = true -> (0 < dlen (n_data k))%N -> n_orig k = Some ko ->
  bsearch (map fst (E1 ++ (kq, q) :: (ko, n_page k) :: E2)) ko = (true, N.of_nat (S (length E1))) ->
  try_merge d (Node p np og sq (Branches (E1 ++ (kq, q) :: (ko, n_page k) :: E2)) ks) k s = Ok (par', s') ->
  Permutation (n_page k :: npages (S h) d par')
              (npages (S h) d (Node p np og sq (Branches (E1 ++ (kq, q) :: (ko, n_page k) :: E2)) ks)).
Proof.
  intros h d s lo hi p np og sq E1 kq q ko k E2 ks l par' s' Hs Hnd Hinb Hlk Hkin HC1 Hk HC2 Hv Hnp Hsq
    Hn Hdl Ho Hb H.
  set (es := E1 ++ (kq, q) :: (ko, n_page k) :: E2) in *.
  assert (Hsp : nthN es (N.of_nat (S (length E1)) - 1) = Some (kq, q)).
  { unfold nthN, es. replace (N.to_nat (N.of_nat (S (length E1)) - 1)) with (length E1 + 0) by lia.
    rewrite nth_error_app2 by lia. replace (length E1 + 0 - length E1) with 0 by lia. reflexivity. }
  rewrite (try_merge_left_unfold d (Node p np og sq (Branches es) ks) k s es ko _ kq q Hn eq_refl Hdl Ho Hb ltac:(lia) Hsp) in H.
  cbn [n_kids] in H.
  destruct (sib_of d ks q s) as [[[sib s1] isnew]| |] eqn:Eso; cbn [bind] in H; try discriminate.
  destruct (merge_data (n_data sib) (n_data k)) as [md| |] eqn:Emd; cbn [bind] in H; try discriminate.
  inversion H; subst par' s'. clear H.
  rewrite map_app in HC1. cbn [map fst] in HC1. rewrite cbs_app in HC1. cbn [cbs nxt] in HC1.
  apply Forall2_app_inv_l in HC1. destruct HC1 as (B1 & Br & HC1 & Hr & EB).
  apply app_eq_app in EB. destruct EB as (l2 & [[EB1 EB2] | [EB1 EB2]]).
  all: assert (l2 = []) by (apply (f_equal (@length _)) in EB1; rewrite app_length in EB1;
         rewrite <- (Forall2_length _ _ _ HC1), cbs_length, map_length in EB1; destruct l2; [reflexivity | cbn in EB1; lia]).
  all: subst l2; rewrite app_nil_r in EB1; cbn [app] in EB2; subst B1 Br.
  all: apply Forall2_cons_inv_l in Hr; destruct Hr as (b & B2 & EB & Cs & _); inversion EB; subst b B2; clear EB.
  all: assert (Hq_in : In (kq, q) es) by (unfold es; apply in_or_app; right; now left).
  all: assert (Hqk : q <> n_page k) by
        (unfold es in Hnd; rewrite map_app in Hnd; cbn [map snd] in Hnd; apply NoDup_app_r in Hnd;
         inversion Hnd as [|? ? Hx _]; subst; intros E; apply Hx; left; now symmetry).
  all: pose proof (seqs_kids_NoDup ks ltac:(cbn [seqs] in Hsq; now inversion Hsq)) as Hsk.
  all: destruct (sib_of_spec h d s es ks k kq q _ sib s1 isnew Hlk Hnd Hsk Hkin Hq_in Hqk Cs Eso)
        as (Isib & Vsib & Psib & Osib & Pgsib & Kaft & Es1); cbn [fst snd] in Isib.
  all: destruct (Inv_dkeys _ _ _ _ _ _ Isib) as [SA FA]; destruct (Inv_dkeys _ _ _ _ _ _ Hk) as [SB FB].
  all: pose proof (merge_data_lr _ _ _ _ _ _ SA FA SB FB Emd) as Emd'; subst md.
  all: rewrite set_merged_eq, Osib, Pgsib in *.
  all: assert (Hfk : find_kid (n_page k) ks = Some k) by (apply find_kid_NoDup; [apply Hlk | exact Hkin]).
  all: destruct (merge_assemble h d lo hi p np og sq E1 kq q ko (n_page k) E2 ks k l q kq sib k false true
         q (n_np sib) (n_seq sib) (n_kids sib ++ n_kids k) (kids_merged ks k
            (Node q (n_np sib) (Some kq) (n_seq sib) (djoin (n_data sib) (n_data k)) (n_kids sib ++ n_kids k)) isnew)
         (if isnew then [seqc s] else [])) as (R1 & R2 & R3 & R4); try assumption; try reflexivity.
  all: try (left; split; reflexivity).
  all: try (now left).
  all: try (eapply Inv_false_nonempty; exact Isib).
  all: try (apply dlen_pos_nonempty; exact Hdl).
  all: try (eapply merge_data_kind; exact Emd).
  all: try (intros lb Hlb; unfold ChildView in Hlb; rewrite Hfk in Hlb; exact Hlb).
  all: try (unfold cpages; now rewrite Hfk).
  all: try (apply Kaft; reflexivity).
  all: change (Pos.to_nat (Pos.of_succ_nat (length E1))) with (N.to_nat (N.of_nat (S (length E1)))); rewrite Nat2N.id.
  all: unfold es at 1; rewrite remove_at_second.
  all: exact R3.
Qed.

Lemma step_right_x : forall h d s lo hi p np og sq ko k kq q rest ks l par' s',
  sorted_keys (map fst ((ko, n_page k) :: (kq, q) :: rest)) = true ->
  NoDup (map snd ((ko, n_page k) :: (kq, q) :: rest)) ->
  Forall (inb lo hi) (map fst ((ko, n_page k) :: (kq, q) :: rest)) ->
  kids_linked ((ko, n_page k) :: (kq, q) :: rest) ks -> In k ks ->
  Inv h d true (lo0 lo ko) (Some kq) k ->
  Forall2 (CInv h d ks) ((kq, q) :: rest) (cbs Some (map fst ((kq, q) :: rest)) hi) ->
  NodeView d (S h) (Node p np og sq (Branches ((ko, n_page k) :: (kq, q) :: rest)) ks) l ->
  NoDup (npages (S h) d (Node p np og sq (Branches ((ko, n_page k) :: (kq, q) :: rest)) ks)) ->
  NoDup (seqs (Node p np og sq (Branches ((ko, n_page k) :: (kq, q) :: rest)) ks)) ->
  needs_merging s k = true -> (0 < dlen (n_data k))%N -> n_orig k = Some ko ->
  bsearch (map fst ((ko, n_page k) :: (kq, q) :: rest)) ko = (true, 0%N) ->
  try_merge d (Node p np og sq (Branches ((ko, n_page k) :: (kq, q) :: rest)) ks) k s = Ok (par', s') ->
  Permutation (n_page k :: npages (S h) d par')
              (npages (S h) d (Node p np og sq (Branches ((ko, n_page k) :: (kq, q) :: rest)) ks)).
Proof.
  intros h d s lo hi p np og sq ko k kq q rest ks l par' s' Hs Hnd Hinb Hlk Hkin Hk HC2 Hv Hnp Hsq
    Hn Hdl Ho Hb H.
  set (es := (ko, n_page k) :: (kq, q) :: rest) in *.
  rewrite (try_merge_right_unfold d (Node p np og sq (Branches es) ks) k s (ko, n_page k) kq q rest ko Hn eq_refl Hdl Ho Hb) in H.
  cbn [n_kids] in H.
  destruct (sib_of d ks q s) as [[[sib s1] isnew]| |] eqn:Eso; cbn [bind] in H; try discriminate.
  destruct (merge_data (n_data sib) (n_data k)) as [md| |] eqn:Emd; cbn [bind] in H; try discriminate.
  cbn [map fst cbs] in HC2. apply Forall2_cons_inv_l in HC2. destruct HC2 as (b & B2 & EB & Cs & HC2).
  inversion EB; subst b B2; clear EB.
  assert (Hq_in : In (kq, q) es) by (right; now left).
  assert (Hqk : q <> n_page k).
  { unfold es in Hnd. cbn [map snd] in Hnd. inversion Hnd as [|? ? Hx _]; subst. intros E. apply Hx. left. exact E. }
  pose proof (seqs_kids_NoDup ks ltac:(cbn [seqs] in Hsq; now inversion Hsq)) as Hsk.
  destruct (sib_of_spec h d s es ks k kq q _ sib s1 isnew Hlk Hnd Hsk Hkin Hq_in Hqk Cs Eso)
    as (Isib & Vsib & Psib & Osib & Pgsib & Kaft & Es1); cbn [fst snd] in Isib.
  destruct (Inv_dkeys _ _ _ _ _ _ Hk) as [SA FA]; destruct (Inv_dkeys _ _ _ _ _ _ Isib) as [SB FB].
  pose proof (merge_data_rl _ _ _ _ _ _ SA FA SB FB Emd) as Emd'. subst md.
  pose proof (merge_data_kind _ _ _ Emd) as Hkind. symmetry in Hkind.
  destruct (first_key_pos _ Hdl) as [fk Hfk0].
  assert (Hfkj : first_key (djoin (n_data k) (n_data sib)) = Ok fk) by (rewrite first_key_djoin; assumption).
  rewrite Hfkj in H. inversion H; subst par' s'. clear H.
  rewrite set_merged_orig_eq, Pgsib.
  assert (Hfk : find_kid (n_page k) ks = Some k) by (apply find_kid_NoDup; [apply Hlk | exact Hkin]).
  destruct (merge_assemble h d lo hi p np og sq [] ko (n_page k) kq q rest ks k l q fk k sib true false
         q (n_np sib) (n_seq sib) (n_kids sib ++ n_kids k) (kids_merged ks k
            (Node q (n_np sib) (Some fk) (n_seq sib) (djoin (n_data k) (n_data sib)) (n_kids sib ++ n_kids k)) isnew)
         (if isnew then [seqc s] else [])) as (R1 & R2 & R3 & R4); try assumption; try reflexivity.
  all: try (right; split; reflexivity).
  all: try (now right).
  all: try (constructor; fail).
  all: try (eapply Inv_false_nonempty; exact Isib).
  all: try (apply dlen_pos_nonempty; exact Hdl).
  all: try (intros lb Hlb; unfold ChildView in Hlb; rewrite Hfk in Hlb; exact Hlb).
  all: try (unfold cpages; now rewrite Hfk).
  all: try (apply Kaft; reflexivity).
  all: try (right; repeat split; assumption).
Qed.

(* the exact outcome of [try_merge] on the named pages: nothing happens, or exactly the page of k disappears *)
Definition TMX (h : nat) (d : disk) (s : txs) (par k par' : node) (s' : txs) : Prop :=
  (par' = par /\ s' = s) \/ Permutation (n_page k :: npages (S h) d par') (npages (S h) d par).

Theorem try_merge_step_x : forall h d s lo hi p np og sq es ks k l par' s',
  Pre1 h d lo hi es ks (n_page k) -> In k ks ->
  NodeView d (S h) (Node p np og sq (Branches es) ks) l ->
  NoDup (npages (S h) d (Node p np og sq (Branches es) ks)) ->
  NoDup (seqs (Node p np og sq (Branches es) ks)) ->
  try_merge d (Node p np og sq (Branches es) ks) k s = Ok (par', s') ->
  TMX h d s (Node p np og sq (Branches es) ks) k par' s'.
Proof.
  intros h d s lo hi p np og sq es ks k l par' s' HP Hkin Hv Hnp Hsq H.
  destruct (Pre1_split _ _ _ _ _ _ _ HP Hkin) as (E1 & ko & E2 & Ees & Ho & Hb & HC1 & Hk & HC2 & Hfk).
  pose proof HP as (Hs & Hnd & Hinb & Hlk & _).
  assert (Hnoop : try_merge d (Node p np og sq (Branches es) ks) k s = Ok (Node p np og sq (Branches es) ks, s) ->
                  TMX h d s (Node p np og sq (Branches es) ks) k par' s').
  { intros E. rewrite E in H. inversion H; subst par' s'. left. split; reflexivity. }
  destruct (needs_merging s k) eqn:Hn.
  2:{ apply Hnoop. rewrite try_merge_noop by exact Hn. cbn [n_kids set_kids]. now rewrite replace_kid_id. }
  destruct (0 <? dlen (n_data k))%N eqn:Hdl.
  2:{ assert (Hd0 : dlen (n_data k) = 0%N) by lia.
      rewrite (try_merge_empty d (Node p np og sq (Branches es) ks) k s es ko _ Hd0 eq_refl Ho Hb) in H. inversion H; subst par' s'. clear H.
      cbn [set_data set_kids n_kids]. rewrite Nat2N.id. subst es. rewrite remove_at_mid.
      pose proof (seqs_kids_NoDup ks ltac:(cbn [seqs] in Hsq; now inversion Hsq)) as Hsk.
      destruct (empty_assemble h d lo hi p np og sq E1 ko E2 ks k l Hs Hnd Hinb Hlk Hkin Hsk HC1 HC2 Hd0 Hv)
        as (R1 & R2 & R3 & R4).
      right. exact R3. }
  assert (Hdl' : (0 < dlen (n_data k))%N) by lia.
  destruct (llen es =? 1)%N eqn:Hone.
  { apply Hnoop.
    rewrite (try_merge_only_child d (Node p np og sq (Branches es) ks) k s es eq_refl ltac:(lia) Hdl').
    cbn [n_kids set_kids]. now rewrite replace_kid_id. }
  right. destruct (list_rev_case E1) as [-> | (E1' & [kq q] & ->)].
  - destruct E2 as [|[kq q] rest]; [subst es; unfold llen in Hone; cbn in Hone; lia|].
    cbn [app] in Ees. subst es. cbn [map fst fst_fun nxt length] in Hk, Hb.
    eapply step_right_x; eauto.
  - rewrite <- app_assoc in Ees. cbn [app] in Ees. subst es.
    rewrite map_app in Hk. cbn [map fst] in Hk. rewrite fst_fun_app_cons in Hk. rewrite app_length in Hb. cbn [length] in Hb.
    replace (length E1' + 1) with (S (length E1')) in Hb by lia.
    eapply step_left_x; eauto.
Qed.

(** ** [pg_ok] through [try_merge] *)

Lemma pg_ok_same_page : forall d n n', pg_ok d n -> n_page n' = n_page n -> n_np n' = n_np n ->
  (forall k, In k (n_kids n') -> pg_ok d k) -> pg_ok d n'.
Proof.
  intros d n n' H Ep En Hk. destruct (pg_ok_inv _ _ H) as [Hp _]. constructor; [|exact Hk].
  rewrite Ep, En. exact Hp.
Qed.

Lemma pg_ok_node_of_page : forall d q a sq, dget d q = Some a -> pg_ok d (node_of_page q a sq).
Proof.
  intros d q a sq Hg. constructor; unfold node_of_page; cbn [n_page n_np n_kids]; [|intros k []].
  intros _. exists a. split; [exact Hg | reflexivity].
Qed.

Lemma pg_ok_replace_kids : forall d ks k, (forall x, In x ks -> pg_ok d x) -> pg_ok d k ->
  forall x, In x (replace_kid ks k) -> pg_ok d x.
Proof. intros d ks k Hks Hk x Hx. apply replace_kid_In in Hx. destruct Hx as [-> | Hx]; auto. Qed.

Lemma try_merge_pg_ok : forall d par k s par' s', try_merge d par k s = Ok (par', s') ->
  pg_ok d par -> pg_ok d k -> pg_ok d par'.
Proof.
  intros d par k s par' s' H Hpar Hk. destruct (pg_ok_inv _ _ Hpar) as [_ Hks]. destruct (pg_ok_inv _ _ Hk) as [_ Hkk].
  assert (Hkeep : pg_ok d (set_kids par (replace_kid (n_kids par) k))).
  { apply (pg_ok_same_page d par); [exact Hpar | destruct par; reflexivity | destruct par; reflexivity |].
    replace (n_kids (set_kids par (replace_kid (n_kids par) k))) with (replace_kid (n_kids par) k) by (destruct par; reflexivity).
    now apply pg_ok_replace_kids. }
  assert (Hfilt : forall sq x, In x (filter (fun x => negb (N.eqb (n_seq x) sq)) (n_kids par)) -> pg_ok d x).
  { intros sq x Hx. apply filter_In in Hx. apply Hks, Hx. }
  assert (Hbuild : forall dd ks1, (forall x, In x ks1 -> pg_ok d x) -> pg_ok d (set_kids (set_data par dd) ks1)).
  { intros dd ks1 H1. apply (pg_ok_same_page d par); [exact Hpar | destruct par; reflexivity | destruct par; reflexivity |].
    replace (n_kids (set_kids (set_data par dd) ks1)) with ks1 by (destruct par; reflexivity). exact H1. }
  unfold try_merge in H.
  destruct (negb (needs_merging s k)). { inversion H; subst. exact Hkeep. }
  destruct (n_data par) as [l|es] eqn:Ed; [discriminate|].
  destruct ((llen es =? 1)%N && (0 <? dlen (n_data k))%N). { inversion H; subst. exact Hkeep. }
  destruct (n_orig k) as [ok|]; [|discriminate].
  destruct (bsearch (map fst es) ok) as [[|] idx]; [|discriminate].
  destruct (0 <? dlen (n_data k))%N eqn:Edl.
  - destruct (if (idx =? 0)%N then nthN es 1 else nthN es (idx - 1)) as [[kq q]|]; [|discriminate].
    assert (Hsib : forall sib md (c : bool), pg_ok d sib ->
              pg_ok d (if c then match first_key md with Ok fk => set_orig (set_kids (set_data sib md) (n_kids sib ++ n_kids k)) (Some fk)
                                                          | _ => set_kids (set_data sib md) (n_kids sib ++ n_kids k) end
                       else set_kids (set_data sib md) (n_kids sib ++ n_kids k))).
    { intros sib md c Hs. destruct (merged_node_eq sib md (n_kids sib ++ n_kids k) c) as [o' ->].
      destruct (pg_ok_inv _ _ Hs) as [_ Hsk].
      apply (pg_ok_same_page d sib); [exact Hs | reflexivity | reflexivity |]. cbn [n_kids].
      intros x Hx. apply in_app_or in Hx. destruct Hx; auto. }
    destruct (find_kid q (n_kids par)) as [sb|] eqn:Ef.
    + cbn [bind] in H. destruct (merge_data (n_data sb) (n_data k)) as [md| |] eqn:Emd; cbn [bind] in H; try discriminate.
      inversion H; subst par' s'. apply Hbuild. apply pg_ok_replace_kids; [apply Hfilt|].
      apply Hsib. apply Hks. eapply find_kid_In; eauto.
    + destruct (dget d q) as [a|] eqn:Eg; [|discriminate]. cbn [next_seq bind] in H.
      destruct (merge_data (n_data (node_of_page q a (seqc s))) (n_data k)) as [md| |] eqn:Emd; cbn [bind] in H; try discriminate.
      inversion H; subst par' s'. apply Hbuild. intros x Hx. apply in_app_or in Hx.
      destruct Hx as [Hx | [<- | []]]; [eapply Hfilt; eauto|].
      apply (Hsib (node_of_page q a (seqc s)) md (idx =? 0)%N). now apply pg_ok_node_of_page.
  - cbn [bind] in H. inversion H; subst. apply Hbuild. apply Hfilt.
Qed.

(* ====================================================================== *)
(** * 3. [rebalance_kids]: exact accounting *)

Lemma perm_mid : forall {T} (A X X' B F : list T), Permutation X (F ++ X') ->
  Permutation (A ++ X ++ B) (F ++ A ++ X' ++ B).
Proof.
  intros T A X X' B F HP. etransitivity; [apply Permutation_app_head; apply Permutation_app_tail; exact HP|].
  rewrite <- app_assoc. apply Permutation_app_swap_app.
Qed.

(* replacing a kid by a version that names fewer pages *)
Lemma kid_replaced_perm : forall h d p np og sq es ks k k1 F,
  NoDup (map snd es) -> kids_linked es ks -> In k ks -> n_page k1 = n_page k ->
  Permutation (npages h d k) (F ++ npages h d k1) ->
  Permutation (npages (S h) d (Node p np og sq (Branches es) ks))
              (F ++ npages (S h) d (Node p np og sq (Branches es) (replace_kid ks k1))).
Proof.
  intros h d p np og sq es ks k k1 F Hnd Hlk Hkin Ep HP.
  assert (Hfk : find_kid (n_page k) ks = Some k) by (apply find_kid_NoDup; [apply Hlk | exact Hkin]).
  destruct (replace_kid_upd ks (n_page k) k k1 Hfk Ep) as [U1 U2].
  destruct Hlk as [Lnd LF]. rewrite Forall_forall in LF. destruct (LF k Hkin) as (ko & Hko & Hok).
  destruct (in_split _ _ Hko) as (E1 & E2 & Ees).
  assert (Hpk : ~ In (n_page k) (map snd E1) /\ ~ In (n_page k) (map snd E2)).
  { rewrite Ees, map_app in Hnd. cbn [map snd] in Hnd. pose proof (NoDup_remove_2 _ _ _ Hnd) as Hx.
    split; intros Hi; apply Hx; apply in_or_app; tauto. }
  assert (G : forall E : list (bytes * N), ~ In (n_page k) (map snd E) ->
              flat_map (fun e => cpages h d (replace_kid ks k1) (snd e)) E = flat_map (fun e => cpages h d ks (snd e)) E).
  { intros E HE. apply flat_map_ext_in. intros e He. unfold cpages. rewrite U2; [reflexivity|].
    intros Eq. apply HE. rewrite <- Eq. now apply in_map. }
  rewrite !npages_branch_eq. rewrite Ees. rewrite !flat_map_app. cbn [flat_map snd].
  assert (Ek1 : cpages h d (replace_kid ks k1) (n_page k) = npages h d k1) by (unfold cpages; now rewrite U1).
  assert (Ek : cpages h d ks (n_page k) = npages h d k) by (unfold cpages; now rewrite Hfk).
  rewrite (G E1 (proj1 Hpk)), (G E2 (proj2 Hpk)), Ek1, Ek.
  pose proof (perm_mid (map snd (E1 ++ (ko, n_page k) :: E2) ++ flat_map (fun e => cpages h d ks (snd e)) E1)
                (npages h d k) (npages h d k1) (flat_map (fun e => cpages h d ks (snd e)) E2) F HP) as Q.
  rewrite <- !app_assoc in Q. exact Q.
Qed.

(* [rebalance_kids]: the named pages that disappear are [F]; what is handed back lies in the runs of [F] *)
Definition RKX (h : nat) (d : disk) (s : txs) (n n' : node) (s' : txs) : Prop :=
  exists F, Permutation (npages h d n) (F ++ npages h d n') /\
    (forall x, freed_in_tx s' x = true -> freed_in_tx s x = true \/ In x (runs d F)) /\
    pg_ok d n' /\ pst s'.

Definition RKX_IH (f : nat) : Prop :=
  forall h d s z lo hi n l n' s',
    Inv h d z lo hi n -> is_leaf (n_data n) = false -> NodeView d h n l ->
    NoDup (npages h d n) -> NoDup (seqs n) -> Forall (fun x => (x < seqc s)%N) (seqs n) ->
    pg_ok d n -> pst s ->
    rebalance_kids f d n s = Ok (n', s') -> RKX h d s n n' s'.

Lemma RKX_refl : forall h d s n, pg_ok d n -> pst s -> RKX h d s n n s.
Proof. intros h d s n H1 H2. exists []. cbn [app]. split; [reflexivity|]. split; [now left | split; assumption]. Qed.

Lemma In_runs_app_l : forall d A B x, In x (runs d A) -> In x (runs d (A ++ B)).
Proof. intros. rewrite runs_app. apply in_or_app. now left. Qed.
Lemma In_runs_app_r : forall d A B x, In x (runs d B) -> In x (runs d (A ++ B)).
Proof. intros. rewrite runs_app. apply in_or_app. now right. Qed.

Lemma rkx_step : forall f h0 d s lo hi n l n0 s0 k k1 s1 n1 s1',
  RKX_IH f ->
  Forall (fun x => (x < seqc s)%N) (seqs n) ->
  RKPost (S h0) d s lo hi n l n0 s0 -> is_leaf (n_data n0) = false ->
  RKX (S h0) d s n n0 s0 ->
  In k (n_kids n0) ->
  (if is_leaf (n_data k) then Ok (k, s0) else rebalance_kids f d k s0) = Ok (k1, s1) ->
  try_merge d (set_kids n0 (replace_kid (n_kids n0) k1)) k1 s1 = Ok (n1, s1') ->
  RKX (S h0) d s n n1 s1'.
Proof.
  intros f h0 d s lo hi n l n0 s0 k k1 s1 n1 s1' IHX Hlt (HI & HV & P1 & P2 & P3 & P4 & Np & Ip & Ns & Is & Tx) Hlf
    (F0 & HP0 & HF0 & Hpg0 & Hst0) Hkin Hk1 Hm.
  destruct n0 as [p0 np0 og0 sq0 [l0|es0] ks0]; [discriminate|]. cbn [n_kids set_kids] in *.
  destruct (kid_facts _ _ _ _ _ _ _ _ _ _ _ _ HI Hkin HV Np Ns) as ((lk & Vk) & Npk & Nsk & Isk & (lo' & hi' & Ik)).
  assert (Hlt0 : forall y, In y (seqs (Node p0 np0 og0 sq0 (Branches es0) ks0)) -> (y < seqc s0)%N).
  { intros y Hy. destruct Tx as (_ & _ & _ & _ & _ & _ & Hle). rewrite Forall_forall in Hlt.
    destruct (Is y Hy) as [H | H]; [specialize (Hlt y H)|]; lia. }
  destruct (pg_ok_inv _ _ Hpg0) as [_ Hpgk0]. cbn [n_kids] in Hpgk0. pose proof (Hpgk0 k Hkin) as Hpgk.
  assert (Hk : n_page k1 = n_page k /\ n_orig k1 = n_orig k /\ n_seq k1 = n_seq k /\
               (forall lo' hi', Inv h0 d false lo' hi' k -> Inv h0 d true lo' hi' k1) /\
               (forall lk, NodeView d h0 k lk -> NodeView d h0 k1 lk) /\
               NoDup (npages h0 d k1) /\ incl (npages h0 d k1) (npages h0 d k) /\
               NoDup (seqs k1) /\ (forall x, In x (seqs k1) -> In x (seqs k) \/ (seqc s0 <= x < seqc s1)%N) /\
               tx_frame s0 s1 /\ RKX h0 d s0 k k1 s1).
  { destruct (is_leaf (n_data k)) eqn:Elf.
    - inversion Hk1; subst k1 s1. repeat (split; [reflexivity|]).
      split; [intros; eapply Inv_z_true; eauto|]. split; [auto|]. split; [exact Npk|].
      split; [apply incl_refl|]. split; [exact Nsk|]. split; [intros; now left |].
      split; [apply tx_frame_refl | now apply RKX_refl].
    - assert (Hltk : Forall (fun x => (x < seqc s0)%N) (seqs k)).
      { apply Forall_forall. intros y Hy. apply Hlt0. now apply Isk. }
      pose proof (rebalance_kids_view f h0 d s0 true lo' hi' k lk k1 s1 Ik Elf Vk Npk Nsk Hltk Hk1)
        as (_ & _ & Q1 & Q2 & Q3 & Q4 & Q5 & Q6 & Q7 & Q8 & Q9).
      repeat (split; [assumption|]).
      split; [|split; [|repeat (split; [assumption|])]].
      + intros lo2 hi2 I2. apply (rebalance_kids_view f h0 d s0 false lo2 hi2 k lk k1 s1 I2 Elf Vk Npk Nsk Hltk Hk1).
      + intros lk2 V2. pose proof (NodeView_det _ _ _ _ Vk _ _ V2) as <-.
        apply (rebalance_kids_view f h0 d s0 true lo' hi' k lk k1 s1 Ik Elf Vk Npk Nsk Hltk Hk1).
      + exact (IHX h0 d s0 true lo' hi' k lk k1 s1 Ik Elf Vk Npk Nsk Hltk Hpgk Hst0 Hk1). }
  destruct Hk as (E1 & E2 & E3 & TI & TV & Np1 & Ip1 & Ns1 & Is1 & Tx1 & (Fk & HPk & HFk & Hpg1 & Hst1)).
  destruct (kid_replaced h0 d lo hi p0 np0 og0 sq0 es0 ks0 k k1 l (fun x => (seqc s0 <= x < seqc s1)%N)
              HI Hkin HV Np Ns E1 E2 E3 TI TV Np1 Ip1 Ns1 Is1) as (R1 & R2 & R3 & R4 & R5 & R6 & R7).
  { intros y Hy Hf. specialize (Hlt0 y Hy). lia. }
  cbv zeta in *.
  assert (Hlt1 : Forall (fun x => (x < seqc s1)%N) (seqs (Node p0 np0 og0 sq0 (Branches es0) (replace_kid ks0 k1)))).
  { apply Forall_forall. intros y Hy. destruct Tx1 as (_ & _ & _ & _ & _ & _ & Hle).
    destruct (R7 y Hy) as [H | H]; [specialize (Hlt0 y H)|]; lia. }
  pose proof (try_merge_step h0 d s1 lo hi p0 np0 og0 sq0 es0 _ k1 l n1 s1' R1 R2 R3 R4 R6 Hlt1 Hm)
    as (_ & _ & _ & _ & _ & _ & _ & _ & _ & _ & T11).
  pose proof (try_merge_step_x h0 d s1 lo hi p0 np0 og0 sq0 es0 _ k1 l n1 s1' R1 R2 R3 R4 R6 Hm) as TX.
  pose proof HI as HI'. rewrite Inv_branch_eq in HI'. destruct HI' as (_ & _ & Hnd0 & _ & Hlk0 & _).
  pose proof (kid_replaced_perm h0 d p0 np0 og0 sq0 es0 ks0 k k1 Fk Hnd0 Hlk0 Hkin E1 HPk) as HPr.
  assert (Hpg0' : pg_ok d (Node p0 np0 og0 sq0 (Branches es0) (replace_kid ks0 k1))).
  { apply (pg_ok_same_page d _ _ Hpg0); [reflexivity | reflexivity |]. cbn [n_kids]. now apply pg_ok_replace_kids. }
  pose proof (try_merge_pg_ok _ _ _ _ _ _ Hm Hpg0' Hpg1) as Hpgn1.
  pose proof (pst_merge_tx _ _ _ T11 Hst1) as Hst1'.
  assert (Hfr1 : forall x, freed_in_tx s1 x = true -> freed_in_tx s x = true \/ In x (runs d (F0 ++ Fk))).
  { intros x Hx. destruct (HFk x Hx) as [H | H]; [|right; now apply In_runs_app_r].
    destruct (HF0 x H) as [H' | H']; [now left | right; now apply In_runs_app_l]. }
  destruct TX as [[-> ->] | HT].
  - exists (F0 ++ Fk). split; [|split; [exact Hfr1 | split; assumption]].
    rewrite HP0, HPr. now rewrite app_assoc.
  - exists ((F0 ++ Fk) ++ [n_page k1]). split; [|split; [|split; assumption]].
    + rewrite HP0, HPr, <- HT. rewrite <- !app_assoc. reflexivity.
    + intros x Hx. destruct (merge_tx_freed _ _ _ _ T11 Hx) as [H | H].
      * destruct (Hfr1 x H) as [H' | H']; [now left | right; now apply In_runs_app_l].
      * right. apply In_runs_app_r. apply In_runs. exists (n_page k1). split; [now left | now apply pg_old_run].
Qed.

Theorem rebalance_kids_x : forall fuel, RKX_IH fuel.
Proof.
  induction fuel as [|f IH]; intros h d s z lo hi n l n' s' HI Hlf HV Np Ns Hlt Hpg Hst H; [discriminate|].
  cbn [rebalance_kids] in H.
  destruct (Inv_height _ _ _ _ _ _ HI) as [h0 ->].
  match type of H with fold_left ?F0 _ _ = _ => set (F := F0) in H end.
  assert (HF : forall x r, (forall a, r <> Ok a) -> forall a, F r x <> Ok a).
  { intros x r Hr a. unfold F. destruct r as [a0| |]; cbn [bind]; [exfalso; eapply Hr; eauto | discriminate | discriminate]. }
  assert (Hloop : forall xs n0 s0, RKPost (S h0) d s lo hi n l n0 s0 -> is_leaf (n_data n0) = false ->
            RKX (S h0) d s n n0 s0 -> fold_left F xs (Ok (n0, s0)) = Ok (n', s') ->
            RKX (S h0) d s n n' s').
  { induction xs as [|x xs IHxs]; intros n0 s0 HP0 Hlf0 HK0 Hfold; cbn [fold_left] in Hfold.
    - inversion Hfold; subst. assumption.
    - destruct (F (Ok (n0, s0)) x) as [[n1 s1]| |] eqn:E.
      2:{ exfalso. apply (fold_left_not_ok F xs (Panic msg) HF (fun a Ha => ltac:(discriminate)) _ Hfold). }
      2:{ exfalso. apply (fold_left_not_ok F xs (Err e) HF (fun a Ha => ltac:(discriminate)) _ Hfold). }
      unfold F in E. cbn [bind] in E.
      destruct (find (fun k => N.eqb (n_seq k) x) (n_kids n0)) as [k|] eqn:Ef.
      + apply find_some in Ef. destruct Ef as [Hkin Hkx].
        destruct (if is_leaf (n_data k) then Ok (k, s0) else rebalance_kids f d k s0) as [[k1 s1k]| |] eqn:Ek;
          cbn [bind] in E; try discriminate.
        destruct (rk_step f h0 d s lo hi n l n0 s0 k k1 s1k n1 s1 (rebalance_kids_view f) Hlt HP0 Hlf0 Hkin Ek E)
          as [HP1 Hlf1].
        pose proof (rkx_step f h0 d s lo hi n l n0 s0 k k1 s1k n1 s1 IH Hlt HP0 Hlf0 HK0 Hkin Ek E) as HK1.
        apply (IHxs n1 s1 HP1 Hlf1 HK1 Hfold).
      + inversion E; subst n1 s1. apply (IHxs n0 s0 HP0 Hlf0 HK0 Hfold). }
  assert (HP0 : RKPost (S h0) d s lo hi n l n s).
  { unfold RKPost. split; [eapply Inv_z_true; eauto|]. split; [exact HV|]. repeat (split; [reflexivity|]).
    split; [exact Np|]. split; [apply incl_refl|]. split; [exact Ns|].
    split; [intros; now left | apply tx_frame_refl]. }
  apply (Hloop _ n s HP0 Hlf (RKX_refl _ _ _ _ Hpg Hst) H).
Qed.

(* ====================================================================== *)
(** * 4. [merge_nodes]: exact accounting on the heads of the bucket *)

Definition hdl (n : node) : list N := if (n_page n =? 0)%N then [] else [n_page n].

Lemma bheads_some : forall d b n, b_rootn b = Some n -> bheads d b = hdl n ++ npages fuel0 d n.
Proof. intros d b n E. unfold bheads, hdl. now rewrite E. Qed.
Lemma bheads_none : forall d b, b_rootn b = None -> bheads d b = b_root_page b :: ppages fuel0 d (b_root_page b).
Proof. intros d b E. unfold bheads. now rewrite E. Qed.

Lemma hd_split : forall (q : N) (X : list N),
  exists Z, Permutation (q :: X) (Z ++ (if (q =? 0)%N then [] else [q]) ++ X).
Proof.
  intros q X. destruct (q =? 0)%N eqn:E.
  - exists [q]. reflexivity.
  - exists []. reflexivity.
Qed.

Lemma ensure_root_own : forall h d s b l root s0, BInv h d s b -> BucketView d h b l -> h <= fuel0 ->
  bpg_ok d b -> pst s -> ensure_root d b s = Ok (root, s0) ->
  (exists Z, Permutation (bheads d b) (Z ++ hdl root ++ npages h d root)) /\
  pg_ok d root /\ pst s0 /\ (forall x, freed_in_tx s0 x = freed_in_tx s x).
Proof.
  intros h d s b l root s0 HB HV Hh Hpg Hst H. unfold ensure_root, BInv, bpg_ok in *.
  destruct (b_rootn b) as [n|] eqn:En.
  - inversion H; subst root s0. split; [|split; [exact Hpg | split; [exact Hst | reflexivity]]].
    exists []. cbn [app]. rewrite (bheads_some _ _ _ En). destruct HB as (HI & _).
    now rewrite (npages_stable _ _ _ _ _ _ HI fuel0 Hh).
  - destruct HB as [HP Hnp]. destruct (PInv_dget _ _ _ _ _ _ HP) as [a Ha]. rewrite Ha in H. cbn [next_seq] in H.
    inversion H; subst root s0. split; [|split; [now apply pg_ok_node_of_page | split; [exact Hst | reflexivity]]].
    rewrite (bheads_none _ _ En), (node_of_page_npages h d _ a _ Ha), (ppages_stable _ _ _ _ _ _ HP fuel0 Hh).
    unfold hdl, node_of_page. cbn [n_page]. apply hd_split.
Qed.

Lemma root1_own : forall h d s0 root l root1 s1, RInv h d s0 false root -> NodeView d h root l ->
  pg_ok d root -> pst s0 ->
  (if is_leaf (n_data root) then Ok (root, s0) else rebalance_kids fuel0 d root s0) = Ok (root1, s1) ->
  RKX h d s0 root root1 s1 /\ n_page root1 = n_page root.
Proof.
  intros h d s0 root l root1 s1 (HI & Hnp & Hsq & Hlt) HV Hpg Hst H. destruct (is_leaf (n_data root)) eqn:Elf.
  - inversion H; subst. split; [now apply RKX_refl | reflexivity].
  - pose proof (rebalance_kids_view fuel0 h d s0 false None None root l root1 s1 HI Elf HV Hnp Hsq Hlt H)
      as (_ & _ & R3 & _).
    split; [|exact R3]. exact (rebalance_kids_x fuel0 h d s0 false None None root l root1 s1 HI Elf HV Hnp Hsq Hlt Hpg Hst H).
Qed.

(* the last step of [merge_nodes]: root collapse / emptied root / nothing *)
Lemma merge_tail_own : forall h d b root1 s1 b' s', h <= fuel0 -> Inv h d true None None root1 ->
  pg_ok d root1 -> pst s1 ->
  (if needs_merging s1 root1 && negb (is_leaf (n_data root1)) && (dlen (n_data root1) =? 1)%N then
     match n_data root1 with
     | Branches ((_, q) :: _) =>
         Ok (Bucket q (b_next b) (b_dirty b) (find_kid q (n_kids root1)) (b_subs b), free_node_page s1 root1)
     | _ => Panic "unreachable"%string end
   else if negb (is_leaf (n_data root1)) && (dlen (n_data root1) =? 0)%N then
     Ok (Bucket (b_root_page b) (b_next b) (b_dirty b) (Some (set_data root1 (Leaves []))) (b_subs b), s1)
   else Ok (Bucket (b_root_page b) (b_next b) (b_dirty b) (Some root1) (b_subs b), s1)) = Ok (b', s') ->
  exists FC, Permutation (hdl root1 ++ npages h d root1) (FC ++ bheads d b') /\ bpg_ok d b' /\
    (forall x, freed_in_tx s' x = true -> freed_in_tx s1 x = true \/ In x (runs d FC)) /\ pst s'.
Proof.
  intros h d b root1 s1 b' s' Hh HI1 Hpg Hst H.
  destruct (Inv_height _ _ _ _ _ _ HI1) as [h0 Eh]. subst h.
  destruct (needs_merging s1 root1 && negb (is_leaf (n_data root1)) && (dlen (n_data root1) =? 1)%N) eqn:Ec.
  - apply andb_true_iff in Ec. destruct Ec as [_ Ec]. apply N.eqb_eq in Ec.
    destruct root1 as [p1 np1 og1 sq1 [l1|[|[k0 q] [|e2 rest]]] ks1]; cbn [n_data n_kids dlen] in H, Ec; try discriminate;
      try (unfold llen in Ec; cbn in Ec; lia).
    inversion H; subst b' s'. clear H.
    rewrite Inv_branch_eq in HI1. destruct HI1 as (_ & _ & _ & _ & _ & HCk).
    cbn [map fst] in HCk. inversion HCk as [|? bb ? ? Cq _]; subst. unfold CInv in Cq. cbn [snd] in Cq.
    rewrite npages_branch_eq. cbn [map snd flat_map]. rewrite app_nil_r. unfold cpages.
    destruct (pg_ok_inv _ _ Hpg) as [_ Hkids]. cbn [n_kids] in Hkids.
    assert (Hfr : forall x, freed_in_tx (free_node_page s1 (Node p1 np1 og1 sq1 (Branches [(k0, q)]) ks1)) x = true ->
                    freed_in_tx s1 x = true \/ In x (runs d (hdl (Node p1 np1 og1 sq1 (Branches [(k0, q)]) ks1)))).
    { intros x Hx. apply free_node_page_freed in Hx. destruct Hx as [Hx | Hx]; [now left | right].
      pose proof (pg_old_run _ _ _ Hpg Hx) as Hr. destruct Hx as [Hnz _]. unfold hdl.
      destruct (N.eqb_spec (n_page (Node p1 np1 og1 sq1 (Branches [(k0, q)]) ks1)) 0) as [E|_]; [contradiction|].
      apply In_runs. eexists. split; [now left | exact Hr]. }
    destruct (find_kid q ks1) as [kd|] eqn:Ef.
    + destruct (find_kid_In _ _ _ Ef) as [Hkdin Hkdp].
      destruct (hd_split q (npages h0 d kd)) as [Zq HZ].
      exists (hdl (Node p1 np1 og1 sq1 (Branches [(k0, q)]) ks1) ++ Zq).
      split; [|split; [|split; [|now apply pst_free_node_page]]].
      * unfold bheads. cbn [b_rootn]. rewrite (npages_stable _ _ _ _ _ _ Cq fuel0 ltac:(lia)), Hkdp.
        rewrite HZ. now rewrite app_assoc.
      * unfold bpg_ok. cbn [b_rootn]. now apply Hkids.
      * intros x Hx. destruct (Hfr x Hx) as [A | A]; [now left | right; now apply In_runs_app_l].
    + exists (hdl (Node p1 np1 og1 sq1 (Branches [(k0, q)]) ks1)).
      split; [|split; [exact I | split; [exact Hfr | now apply pst_free_node_page]]].
      unfold bheads. cbn [b_rootn b_root_page].
      now rewrite (ppages_stable _ _ _ _ _ _ Cq fuel0 ltac:(lia)).
  - destruct (negb (is_leaf (n_data root1)) && (dlen (n_data root1) =? 0)%N) eqn:E0; inversion H; subst b' s'; clear H.
    + exists []. cbn [app]. split; [|split; [|split; [now left | exact Hst]]].
      * unfold bheads, hdl. cbn [b_rootn].
        destruct root1 as [p1 np1 og1 sq1 [l1|es1] ks1]; [discriminate|]. cbn [n_data is_leaf negb dlen andb] in E0.
        destruct es1 as [|e1 es1]; [|unfold llen in E0; cbn in E0; lia]. reflexivity.
      * unfold bpg_ok. cbn [b_rootn]. apply (pg_ok_same_page d root1); [exact Hpg | destruct root1; reflexivity | destruct root1; reflexivity |].
        destruct (pg_ok_inv _ _ Hpg) as [_ Hkids]. destruct root1; exact Hkids.
    + exists []. cbn [app]. split; [|split; [exact Hpg | split; [now left | exact Hst]]].
      unfold bheads, hdl. cbn [b_rootn]. now rewrite (npages_stable _ _ _ _ _ _ HI1 fuel0 Hh).
Qed.

Theorem merge_nodes_own : forall h d s b l b' s', BInv h d s b -> BucketView d h b l -> h <= fuel0 ->
  bpg_ok d b -> pst s -> merge_nodes d b s = Ok (b', s') ->
  exists F, Permutation (bheads d b) (F ++ bheads d b') /\ bpg_ok d b' /\
    (forall x, freed_in_tx s' x = true -> freed_in_tx s x = true \/ In x (runs d F)) /\ pst s'.
Proof.
  intros h d s b l b' s' HB HV Hh Hpg Hst H. unfold merge_nodes in H.
  apply bind_ok_inv in H. destruct H as ([root s0] & Er & H).
  apply bind_ok_inv in H. destruct H as ([root1 s1] & E1 & H).
  destruct (ensure_root_RInv _ _ _ _ _ _ _ HB HV Er) as (HR & HVr & _).
  destruct (ensure_root_own _ _ _ _ _ _ _ HB HV Hh Hpg Hst Er) as ((Z & HZ) & Hpgr & Hst0 & Hfr0).
  destruct (root1_RInv _ _ _ _ _ _ _ HR HVr E1) as ((HI1 & _) & _ & _).
  destruct (root1_own _ _ _ _ _ _ _ HR HVr Hpgr Hst0 E1) as ((F1 & HP1 & HF1 & Hpg1 & Hst1) & Ep1).
  destruct (merge_tail_own h d b root1 s1 b' s' Hh HI1 Hpg1 Hst1 H) as (FC & HPC & Hpg' & HFC & Hst').
  exists ((Z ++ F1) ++ FC). split; [|split; [exact Hpg' | split; [|exact Hst']]].
  - rewrite HZ, HP1. rewrite <- !app_assoc. rewrite <- HPC. unfold hdl. rewrite Ep1.
    apply Permutation_app_head. apply Permutation_app_swap_app.
  - intros x Hx. destruct (HFC x Hx) as [A | A]; [|right; now apply In_runs_app_r].
    destruct (HF1 x A) as [A' | A']; [left; now rewrite <- Hfr0 | right; apply In_runs_app_l; now apply In_runs_app_r].
Qed.

(* ====================================================================== *)
(** * 5. Footprints of the entries of a bucket; the frame lemma of [OwnI] *)

(* page 0 is not a bucket root with nested buckets (it is never a tree page: [dget d 0 = None] suffices).
   Without this, [OwnI d n s b 0] could claim the footprint of a committed bucket for a bucket created by the
   running transaction, and rebalancing a sibling would break it. *)
Definition zero_ok (d : disk) : Prop := forall k r nx, In (LBk k r nx) (page_ents fuel0 d 0%N) -> r = 0%N.

Lemma zero_ok_missing : forall d, dget d 0%N = None -> zero_ok d.
Proof. intros d H k r nx Hin. unfold fuel0 in Hin. cbn [page_ents] in Hin. rewrite H in Hin. destruct Hin. Qed.

Lemma foot_zero : forall d n, foot d n 0%N = [].
Proof. reflexivity. Qed.

Lemma foot_nz : forall d n r, r <> 0%N -> foot d n r = runs d (fpg n d r).
Proof. intros d n r H. unfold foot. destruct (N.eqb_spec r 0); [contradiction | reflexivity]. Qed.

Lemma foot_S_eq : forall d n r0, r0 <> 0%N ->
  foot d (S n) r0 = region d r0 ++
    flat_map (fun e => runs d (match e with LBk _ r' _ => fpg n d r' | LKv _ _ => [] end)) (page_ents fuel0 d r0).
Proof.
  intros d n r0 H. unfold foot, region. destruct (N.eqb_spec r0 0); [contradiction|].
  now rewrite fpg_S, runs_app, runs_flat_map.
Qed.

Lemma ent_foot_in : forall d n r0 k r nx x, zero_ok d ->
  (r = 0%N \/ In (LBk k r nx) (page_ents fuel0 d r0)) -> In x (foot d n r) -> In x (foot d (S n) r0).
Proof.
  intros d n r0 k r nx x Hz [-> | He] Hx; [destruct Hx|].
  destruct (N.eq_dec r0 0) as [-> | Hr0]; [rewrite (Hz _ _ _ He) in Hx; destruct Hx|].
  eapply sub_foot; eauto.
Qed.

Lemma NoDup_flat_map_disj : forall {A B} (g : A -> list B) L a b x, NoDup (flat_map g L) -> In a L -> In b L -> a <> b ->
  In x (g a) -> In x (g b) -> False.
Proof.
  intros A B g L a b x. induction L as [|c L IH]; intros Hnd Ha Hb Hne Hxa Hxb; [destruct Ha|].
  cbn [flat_map] in Hnd. destruct Ha as [-> | Ha]; destruct Hb as [-> | Hb].
  - now apply Hne.
  - eapply (NoDup_app_disj (g a)); [exact Hnd | exact Hxa |]. apply in_flat_map. eauto.
  - eapply (NoDup_app_disj (g b)); [exact Hnd | exact Hxb |]. apply in_flat_map. eauto.
  - apply IH; auto. eapply NoDup_app_r; eauto.
Qed.

Lemma ent_foot_disj : forall d n r0 k1 r1 nx1 k2 r2 nx2 x, zero_ok d -> NoDup (foot d (S n) r0) ->
  (r1 = 0%N \/ In (LBk k1 r1 nx1) (page_ents fuel0 d r0)) ->
  (r2 = 0%N \/ In (LBk k2 r2 nx2) (page_ents fuel0 d r0)) -> k1 <> k2 ->
  In x (foot d n r1) -> In x (foot d n r2) -> False.
Proof.
  intros d n r0 k1 r1 nx1 k2 r2 nx2 x Hz Hnd H1 H2 Hne Hx1 Hx2.
  destruct (N.eq_dec r1 0) as [-> | N1]; [destruct Hx1|]. destruct (N.eq_dec r2 0) as [-> | N2]; [destruct Hx2|].
  destruct H1 as [-> | H1]; [contradiction|]. destruct H2 as [-> | H2]; [contradiction|].
  assert (Hr0 : r0 <> 0%N) by (intros ->; apply N1; eapply Hz; eauto).
  rewrite (foot_S_eq _ _ _ Hr0) in Hnd. apply NoDup_app_r in Hnd.
  rewrite (foot_nz _ _ _ N1) in Hx1. rewrite (foot_nz _ _ _ N2) in Hx2.
  eapply (NoDup_flat_map_disj _ _ (LBk k1 r1 nx1) (LBk k2 r2 nx2) x Hnd H1 H2); [congruence | exact Hx1 | exact Hx2].
Qed.

Lemma ent_region_disj : forall d n r0 k r nx x, zero_ok d -> NoDup (foot d (S n) r0) ->
  (r = 0%N \/ In (LBk k r nx) (page_ents fuel0 d r0)) -> In x (region d r0) -> In x (foot d n r) -> False.
Proof.
  intros d n r0 k r nx x Hz Hnd H1 Hx1 Hx2.
  destruct (N.eq_dec r 0) as [-> | N1]; [destruct Hx2|]. destruct H1 as [-> | H1]; [contradiction|].
  assert (Hr0 : r0 <> 0%N) by (intros ->; apply N1; eapply Hz; eauto).
  rewrite (foot_S_eq _ _ _ Hr0) in Hnd. rewrite (foot_nz _ _ _ N1) in Hx2.
  eapply (NoDup_app_disj _ _ x Hnd Hx1). apply in_flat_map. exists (LBk k r nx). split; [exact H1 | exact Hx2].
Qed.

Lemma OwnI_S : forall d n' s b r0, OwnI d (S n') s b r0 =
  ((r0 = 0%N \/ sbk (S n') d r0) /\ NoDup (foot d (S n') r0) /\ bpg_ok d b /\
   exists l, bucket_view d b l /\
     NoDup (bown d b) /\
     (forall x, In x (bown d b) -> In x (region d r0) /\ freed_in_tx s x = false) /\
     (forall k r nx, In (LBk k r nx) l -> r = 0%N \/ In (LBk k r nx) (page_ents fuel0 d r0)) /\
     (forall k r nx, In (LBk k r nx) l -> sub_find k (b_subs b) = None ->
        forall x, In x (foot d n' r) -> freed_in_tx s x = false) /\
     (forall k sb, In (k, sb) (b_subs b) -> exists r nx, In (LBk k r nx) l /\ OwnI d n' s sb r)).
Proof. reflexivity. Qed.

Lemma unfreed_frame : forall s s' x, (freed_in_tx s' x = true -> freed_in_tx s x = true) ->
  freed_in_tx s x = false -> freed_in_tx s' x = false.
Proof. intros s s' x H E. destruct (freed_in_tx s' x); [|reflexivity]. rewrite H in E by reflexivity. discriminate. Qed.

(* FRAME: [OwnI] only looks at the freed-status of the pages of the footprint *)
Lemma own_frame : forall d, zero_ok d -> forall n s s' b r0, OwnI d n s b r0 ->
  (forall x, In x (foot d n r0) -> freed_in_tx s' x = true -> freed_in_tx s x = true) -> OwnI d n s' b r0.
Proof.
  intros d Hz. induction n as [|n' IH]; intros s s' b r0 H Hfr; [destruct H|].
  rewrite OwnI_S in *. destruct H as (A & B & C & l & V & ND & Hown & Hent & Hun & Hsub).
  split; [exact A|]. split; [exact B|]. split; [exact C|]. exists l. split; [exact V|]. split; [exact ND|].
  split; [|split; [exact Hent|split]].
  - intros x Hx. destruct (Hown x Hx) as [R1 R2]. split; [exact R1|].
    apply (unfreed_frame s s' x); [|exact R2]. apply Hfr. now apply region_foot.
  - intros k r nx Hin Hsf x Hx. apply (unfreed_frame s s' x); [|eapply Hun; eauto].
    apply Hfr. eapply ent_foot_in; eauto.
  - intros k sb Hin. destruct (Hsub k sb Hin) as (r & nx & Hl & Ho). exists r, nx. split; [exact Hl|].
    apply (IH s s' sb r Ho). intros x Hx. apply Hfr. eapply ent_foot_in; eauto.
Qed.

(* ====================================================================== *)
(** * 6. [rebalance] *)

Lemma runs_perm : forall d A B, Permutation A B -> Permutation (runs d A) (runs d B).
Proof. intros d A B H. unfold runs. now apply Permutation_flat_map. Qed.

Lemma sub_find_None_iff : forall k subs, sub_find k subs = None <-> ~ In k (map fst subs).
Proof.
  intros k. induction subs as [|[n b] subs IH]; [split; [intros _ [] | reflexivity]|].
  rewrite sub_find_cons. cbn [map fst In]. destruct (beq n k) eqn:E.
  - apply beq_true_iff in E. split; [discriminate | intros H; exfalso; apply H; now left].
  - assert (n <> k) by (intros ->; rewrite EngineFacts.beq_refl in E; discriminate). rewrite IH. tauto.
Qed.

Lemma names_mid : forall (A B : list (bytes * bucket)) x y, NoDup (map fst (A ++ x :: B)) -> In y (A ++ B) -> fst y <> fst x.
Proof.
  intros A B x y Hnd Hy E. rewrite map_app in Hnd. cbn [map] in Hnd. apply NoDup_remove_2 in Hnd. apply Hnd.
  rewrite <- E, <- map_app. now apply in_map.
Qed.

(* the fold of [rebalance] over the opened sub-buckets with a state-dependent invariant: [K acc rest s0] relates
   the sub-buckets already rebalanced, those still to do, and the current transaction state *)
Lemma reb_fold_inv : forall f d (K : list (bytes * bucket) -> list (bytes * bucket) -> txs -> Prop),
  (forall acc x rest s0 bx sx, K acc (x :: rest) s0 -> rebalance f d (snd x) s0 = Ok (bx, sx) ->
     K (acc ++ [(fst x, bx)]) rest sx) ->
  forall subs acc s0 subs' s1, K acc subs s0 ->
    fold_left (fun a x => bind a (fun '(l, s0) => bind (rebalance f d (snd x) s0) (fun '(b', s') => Ok (l ++ [(fst x, b')], s'))))
              subs (Ok (acc, s0)) = Ok (subs', s1) ->
    K subs' [] s1.
Proof.
  intros f d K Hstep. induction subs as [|x subs IHl]; intros acc s0 subs' s1 HK H.
  - cbn [fold_left] in H. inversion H; subst. exact HK.
  - cbn [fold_left bind] in H.
    destruct (rebalance f d (snd x) s0) as [[bx sx]| |] eqn:Ex; cbn [bind] in H.
    + apply (IHl (acc ++ [(fst x, bx)]) sx subs' s1); [eapply Hstep; eauto | exact H].
    + exfalso. revert H. apply fold_left_not_ok; [|intros; discriminate].
      intros x0 r Hr a0. destruct r as [a1| |]; cbn [bind]; [exfalso; eapply Hr; eauto | discriminate | discriminate].
    + exfalso. revert H. apply fold_left_not_ok; [|intros; discriminate].
      intros x0 r Hr a0. destruct r as [a1| |]; cbn [bind]; [exfalso; eapply Hr; eauto | discriminate | discriminate].
Qed.

Definition RO_IH (d : disk) (f : nat) : Prop :=
  forall fv n s b r0 b' s', SDeepF fv d s b -> OwnI d n s b r0 -> pst s -> rebalance f d b s = Ok (b', s') ->
    OwnI d n s' b' r0 /\
    (forall x, freed_in_tx s' x = true -> freed_in_tx s x = true \/ In x (foot d n r0)) /\ pst s'.

(* the invariant of the fold over the opened sub-buckets of a bucket with view [l] *)
Definition SubK (d : disk) (fv n' : nat) (s : txs) (l : list leafent) (names : list bytes)
  (acc rest : list (bytes * bucket)) (s0 : txs) : Prop :=
  (seqc s <= seqc s0)%N /\ pst s0 /\
  NoDup (map fst (acc ++ rest)) /\ map fst (acc ++ rest) = names /\
  (forall y, In y (acc ++ rest) -> exists r nx, In (LBk (fst y) r nx) l /\ OwnI d n' s0 (snd y) r) /\
  (forall y, In y rest -> SDeepF fv d s (snd y)) /\
  (forall x, freed_in_tx s0 x = true -> freed_in_tx s x = true \/
     exists k r nx, In k names /\ In (LBk k r nx) l /\ In x (foot d n' r)).

Lemma subk_step : forall d f fv n' s l names r0, zero_ok d -> RO_IH d f -> NoDup (foot d (S n') r0) ->
  (forall k r nx, In (LBk k r nx) l -> r = 0%N \/ In (LBk k r nx) (page_ents fuel0 d r0)) ->
  forall acc x rest s0 bx sx, SubK d fv n' s l names acc (x :: rest) s0 -> rebalance f d (snd x) s0 = Ok (bx, sx) ->
    SubK d fv n' s l names (acc ++ [(fst x, bx)]) rest sx.
Proof.
  intros d f fv n' s l names r0 Hz IH HndF Hent acc x rest s0 bx sx (K1 & K2 & K3 & K4 & K5 & K6 & K7) Ex.
  assert (Hxin : In x (acc ++ x :: rest)) by (apply in_or_app; right; now left).
  destruct (K5 x Hxin) as (rx & nxx & Hlx & Hox).
  assert (Dx : SDeepF fv d s0 (snd x)) by (eapply SDeepF_seqc_mono; [exact K1 | apply K6; now left]).
  destruct (IH fv n' s0 (snd x) rx bx sx Dx Hox K2 Ex) as (Hox' & Hfrx & Hstx).
  assert (Hle : (seqc s0 <= seqc sx)%N).
  { destruct (SDeepF_Deep _ _ _ _ Dx) as [v Hv].
    destruct (rebalance_view f fv d s0 (snd x) v bx sx Hv Ex) as (_ & Tx & _). apply (tx_frame_le _ _ Tx). }
  assert (Enames : map fst ((acc ++ [(fst x, bx)]) ++ rest) = map fst (acc ++ x :: rest)).
  { rewrite <- app_assoc. rewrite !map_app. reflexivity. }
  unfold SubK. split; [lia|]. split; [exact Hstx|]. split; [now rewrite Enames|]. split; [now rewrite Enames|].
  split; [|split].
  - intros y Hy. rewrite <- app_assoc in Hy. apply in_app_or in Hy. cbn [app] in Hy.
    assert (Hother : In y (acc ++ rest) -> exists r nx, In (LBk (fst y) r nx) l /\ OwnI d n' sx (snd y) r).
    { intros Hy'. pose proof (names_mid acc rest x y K3 Hy') as Hne.
      assert (Hy'' : In y (acc ++ x :: rest)) by (apply in_app_or in Hy'; apply in_or_app; destruct Hy'; [now left | right; now right]).
      destruct (K5 y Hy'') as (ry & nxy & Hly & Hoy). exists ry, nxy. split; [exact Hly|].
      apply (own_frame d Hz n' s0 sx _ _ Hoy). intros z Hz1 Hz2.
      destruct (Hfrx z Hz2) as [A | A]; [exact A | exfalso].
      eapply (ent_foot_disj d n' r0 (fst x) rx nxx (fst y) ry nxy z Hz HndF); eauto. }
    destruct Hy as [Hy | [<- | Hy]].
    + apply Hother. apply in_or_app. now left.
    + cbn [fst snd]. exists rx, nxx. split; assumption.
    + apply Hother. apply in_or_app. now right.
  - intros y Hy. apply K6. now right.
  - intros z Hz2. destruct (Hfrx z Hz2) as [A | A]; [now apply K7|]. right. exists (fst x), rx, nxx.
    split; [|split; assumption]. rewrite <- K4. now apply in_map.
Qed.

Theorem rebalance_own_gen : forall d, zero_ok d -> forall f, RO_IH d f.
Proof.
  intros d Hz. induction f as [|f IH]; intros fv n s b r0 b' s' HD HO Hst H; [discriminate|].
  cbn [rebalance] in H. destruct (negb (is_dirty fuel0 b)) eqn:Edirty.
  { inversion H; subst b' s'. split; [exact HO|]. split; [intros; now left | exact Hst]. }
  destruct fv as [|fv]; [destruct HD|]. destruct n as [|n']; [destruct HO|].
  cbn [SDeepF] in HD. destruct HD as (h & l & HL & (Hnd & H2 & H3)).
  rewrite OwnI_S in HO. destruct HO as (A & B & C & l' & V & ND & Hown & Hent & Hun & Hsub).
  assert (El : l' = l) by (eapply bucket_view_det; [exact V | eapply BLoc_bucket_view; eauto]). subst l'.
  match type of H with bind ?r _ = _ => destruct r as [[subs' s1]| |] eqn:Ef end; cbn [bind] in H; try discriminate.
  (* the sub-buckets *)
  assert (K0 : SubK d fv n' s l (map fst (b_subs b)) [] (b_subs b) s).
  { unfold SubK. cbn [app]. split; [lia|]. split; [exact Hst|]. split; [exact Hnd|]. split; [reflexivity|].
    split; [|split; [|intros; now left]].
    - intros [k sb] Hy. exact (Hsub k sb Hy).
    - intros y Hy. rewrite Forall_forall in H2. apply (H2 y Hy). }
  pose proof (reb_fold_inv f d (SubK d fv n' s l (map fst (b_subs b)))
                (subk_step d f fv n' s l _ r0 Hz IH B Hent) (b_subs b) [] s subs' s1 K0 Ef)
    as (K1 & K2 & K3 & K4 & K5 & _ & K7).
  rewrite app_nil_r in K3, K4, K5.
  (* the bucket's own tree *)
  destruct HL as (Hh & HB & _ & _ & HV).
  set (b0 := Bucket (b_root_page b) (b_next b) true (b_rootn b) subs') in *.
  assert (HB0 : BInv h d s1 b0) by (exact (BInv_seqc_mono _ _ _ _ _ K1 HB)).
  assert (HV0 : BucketView d h b0 l) by exact HV.
  assert (C0 : bpg_ok d b0) by exact C.
  destruct (merge_nodes_own h d s1 b0 l b' s' HB0 HV0 Hh C0 K2 H) as (F & HPF & Hpg' & HF & Hst').
  change (bheads d b0) with (bheads d b) in HPF.
  destruct (merge_nodes_bucket_view h d s1 b0 l b' s' HB0 HV0 Hh H) as (V' & _).
  destruct (merge_nodes_fields _ _ _ _ _ H) as (_ & Es & _). cbn [b0 b_subs] in Es.
  pose proof (runs_perm d _ _ HPF) as HPR. rewrite runs_app in HPR. fold (bown d b) in HPR. fold (bown d b') in HPR.
  assert (NDF : NoDup (runs d F ++ bown d b')) by (eapply Permutation_NoDup; eauto).
  assert (HFin : forall x, In x (runs d F) -> In x (region d r0)).
  { intros x Hx. apply Hown. eapply Permutation_in; [symmetry; exact HPR|]. apply in_or_app. now left. }
  (* what was freed since [s] *)
  assert (Hfr1 : forall x, freed_in_tx s1 x = true -> freed_in_tx s x = true \/
                   exists k r nx, In k (map fst (b_subs b)) /\ In (LBk k r nx) l /\ In x (foot d n' r)) by exact K7.
  assert (Hreg : forall x, In x (region d r0) -> freed_in_tx s1 x = true -> freed_in_tx s x = true).
  { intros x Hx Hf. destruct (Hfr1 x Hf) as [G | (k & r & nx & _ & Hl & Hx2)]; [exact G | exfalso].
    eapply (ent_region_disj d n' r0 k r nx x Hz B); eauto. }
  split; [|split; [|exact Hst']].
  2:{ intros x Hx. destruct (HF x Hx) as [G | G]; [|right; apply region_foot; now apply HFin].
      destruct (Hfr1 x G) as [G' | (k & r & nx & _ & Hl & Hx2)]; [now left | right].
      eapply ent_foot_in; eauto. }
  rewrite OwnI_S. split; [exact A|]. split; [exact B|]. split; [exact Hpg'|]. exists l. split; [exact V'|].
  split; [eapply NoDup_app_r; exact NDF|]. split; [|split; [exact Hent|split]].
  - intros x Hx. assert (Hxb : In x (bown d b)).
    { eapply Permutation_in; [symmetry; exact HPR|]. apply in_or_app. now right. }
    destruct (Hown x Hxb) as [R1 R2]. split; [exact R1|].
    destruct (freed_in_tx s' x) eqn:Efr; [exfalso | reflexivity].
    destruct (HF x Efr) as [G | G]; [|eapply (NoDup_app_disj _ _ x NDF); eauto].
    rewrite (Hreg x R1 G) in R2. discriminate.
  - rewrite Es. intros k r nx Hl Hsf x Hx.
    assert (Hsf0 : sub_find k (b_subs b) = None).
    { apply sub_find_None_iff. rewrite <- K4. now apply sub_find_None_iff. }
    pose proof (Hun k r nx Hl Hsf0 x Hx) as R2.
    destruct (freed_in_tx s' x) eqn:Efr; [exfalso | reflexivity].
    destruct (HF x Efr) as [G | G]; [|eapply (ent_region_disj d n' r0 k r nx x Hz B); eauto].
    destruct (Hfr1 x G) as [G' | (k2 & r2 & nx2 & Hk2 & Hl2 & Hx2)]; [rewrite G' in R2; discriminate|].
    assert (Hne : k <> k2) by (intros ->; apply sub_find_None_iff in Hsf0; contradiction).
    eapply (ent_foot_disj d n' r0 k r nx k2 r2 nx2 x Hz B); eauto.
  - rewrite Es. intros k sb' Hin. destruct (K5 (k, sb') Hin) as (r & nx & Hl & Ho). cbn [fst snd] in Hl, Ho.
    exists r, nx. split; [exact Hl|]. apply (own_frame d Hz n' s1 s' _ _ Ho). intros z Hz1 Hz2.
    destruct (HF z Hz2) as [G | G]; [exact G | exfalso].
    eapply (ent_region_disj d n' r0 k r nx z Hz B); eauto.
Qed.

(* ====================================================================== *)
(** * 7. The theorem of layer (Q) *)

(* REBALANCE preserves the ownership invariant; what it hands back lies in the footprint of the bucket; the
   pending list keeps its two properties. [zero_ok d] (e.g. [dget d 0 = None]) is needed: see [Cex0] below. *)
Theorem rebalance_own : forall d f fv n s b r0 b' s', zero_ok d ->
  SDeepF fv d s b -> OwnI d n s b r0 -> pend_ids_ok s -> pend_cur s -> rebalance f d b s = Ok (b', s') ->
  OwnI d n s' b' r0 /\
  (forall x, freed_in_tx s' x = true -> freed_in_tx s x = true \/ In x (foot d n r0)) /\
  pend_ids_ok s' /\ pend_cur s'.
Proof.
  intros d f fv n s b r0 b' s' Hz HD HO H1 H2 H.
  destruct (rebalance_own_gen d Hz f fv n s b r0 b' s' HD HO (conj H1 H2) H) as (A & B & C & D).
  repeat split; assumption.
Qed.

Corollary rebalance_own_missing0 : forall d f fv n s b r0 b' s', dget d 0%N = None ->
  SDeepF fv d s b -> OwnI d n s b r0 -> pend_ids_ok s -> pend_cur s -> rebalance f d b s = Ok (b', s') ->
  OwnI d n s' b' r0 /\
  (forall x, freed_in_tx s' x = true -> freed_in_tx s x = true \/ In x (foot d n r0)) /\
  pend_ids_ok s' /\ pend_cur s'.
Proof. intros d f fv n s b r0 b' s' H0. apply rebalance_own. now apply zero_ok_missing. Qed.

(* ====================================================================== *)
(** * 8. Necessity of [zero_ok]: a concrete overlay (boolean rendering [ownib])

   A committed state whose root holds the bucket A (root page 9: a branch over the leaves 5, 6, 7, 8); the disk
   is given a garbage page 0 "containing" the leaf page 5 as a nested bucket. The overlay deletes three keys of
   A's first leaf and creates the bucket B; B's (hand-made, unreachable) root node lists page 5 as a nested
   bucket C. [ownib] accepts this overlay -- only because of page 0 -- and rejects the overlay after rebalance:
   rebalancing A merges leaf 5 into leaf 6 and frees page 5, which [OwnI _ _ _ B 0] claims untouched. *)
Module Cex0.
Definition bt (n : nat) : byte := match Byte.of_nat n with Some b => b | None => x00 end.
Definition key (i : nat) : bytes := [bt (65 + i / 26); bt (65 + i mod 26); x41; x41; x41; x41].
Definition val (i : nat) : bytes := repeat (bt (48 + i mod 10)) 30.
Definition kA : bytes := [x41]. Definition kB : bytes := [x42]. Definition kC : bytes := [x43].
Definition st1r := Eval vm_compute in run_tx_auto (init_db 512) (map (fun i => Put [kA] (key i) (val i)) (seq 0 12)).
Definition st1 : db := match st1r with Ok st => st | _ => init_db 512 end.
Definition garbage : apage := {| ap_over := 0%N; ap_body := Leaves [LBk kC 5%N 0%N] |}.
Definition st1g : db :=
  {| d_disk := (0%N, garbage) :: d_disk st1; d_root := d_root st1; d_next := d_next st1; d_np := d_np st1;
     d_fl := d_fl st1; d_fln := d_fln st1; d_flids := d_flids st1; d_tx := d_tx st1; d_free := d_free st1;
     d_pending := d_pending st1; d_psz := d_psz st1 |}.
Definition ops2 : list Engine.op := map (fun i => Del [kA] (key i)) (seq 0 3) ++ [Touch [kB]].
Definition fold2 := Eval vm_compute in tx_fold st1g ops2 (root_bucket st1g, begin_w st1g).
Definition r2 : bucket := match fold2 with Ok (r, _) => r | _ => root_bucket st1g end.
Definition s2 : txs := match fold2 with Ok (_, s) => s | _ => begin_w st1g end.
Definition hackB : bucket := Bucket 0%N 0%N true (Some (Node 0%N 0%N None 3%N (Leaves [LBk kC 5%N 0%N]) [])) [].
Definition r2h : bucket := Bucket (b_root_page r2) (b_next r2) (b_dirty r2) (b_rootn r2)
  (map (fun x => if beq (fst x) kB then (fst x, hackB) else x) (b_subs r2)).
Definition reb := Eval vm_compute in rebalance fuel0 (d_disk st1g) r2h s2.
Definition b3 : bucket := match reb with Ok (b, _) => b | _ => r2h end.
Definition s3 : txs := match reb with Ok (_, s) => s | _ => s2 end.

Lemma cex0_not_zero_ok : ~ zero_ok (d_disk st1g).
Proof. intros H. specialize (H kC 5%N 0%N). assert (E : (5 = 0)%N); [apply H; vm_compute; now left | discriminate]. Qed.
Lemma cex0_rebalance_ok : rebalance fuel0 (d_disk st1g) r2h s2 = Ok (b3, s3).
Proof. vm_compute. reflexivity. Qed.
Lemma cex0_before : ownib (d_disk st1g) 16 s2 r2h (d_root st1g) = true.
Proof. vm_compute. reflexivity. Qed.
Lemma cex0_after : ownib (d_disk st1g) 16 s3 b3 (d_root st1g) = false /\ freed_in_tx s3 5%N = true.
Proof. vm_compute. split; reflexivity. Qed.
(* on the disk without the garbage page the hand-made overlay is not accepted in the first place *)
Lemma cex0_clean_disk : ownib (d_disk st1) 16 s2 r2h (d_root st1) = false.
Proof. vm_compute. reflexivity. Qed.
End Cex0.

Print Assumptions try_merge_step_x.
Print Assumptions try_merge_pg_ok.
Print Assumptions rebalance_kids_x.
Print Assumptions merge_nodes_own.
Print Assumptions own_frame.
Print Assumptions rebalance_own_gen.
Print Assumptions rebalance_own.
Print Assumptions rebalance_own_missing0.

(* ====================================================================== *)
(** * 9. The exact accounting of [try_merge] in one statement *)
Theorem try_merge_own : forall h d s lo hi p np og sq es ks k l par' s',
  Pre1 h d lo hi es ks (n_page k) -> In k ks ->
  NodeView d (S h) (Node p np og sq (Branches es) ks) l ->
  NoDup (npages (S h) d (Node p np og sq (Branches es) ks)) ->
  NoDup (seqs (Node p np og sq (Branches es) ks)) ->
  Forall (fun x => (x < seqc s)%N) (seqs (Node p np og sq (Branches es) ks)) ->
  pg_ok d (Node p np og sq (Branches es) ks) -> pend_ids_ok s -> pend_cur s ->
  try_merge d (Node p np og sq (Branches es) ks) k s = Ok (par', s') ->
  pg_ok d par' /\ pend_ids_ok s' /\ pend_cur s' /\ merge_tx s k s' /\
  ((par' = Node p np og sq (Branches es) ks /\ s' = s) \/
   (Permutation (n_page k :: npages (S h) d par') (npages (S h) d (Node p np og sq (Branches es) ks)) /\
    forall x, freed_in_tx s' x = true -> freed_in_tx s x = true \/ In x (prun d (n_page k)))).
Proof.
  intros h d s lo hi p np og sq es ks k l par' s' HP Hkin Hv Hnp Hsq Hlt Hpg H1 H2 H.
  pose proof (try_merge_step h d s lo hi p np og sq es ks k l par' s' HP Hkin Hv Hnp Hsq Hlt H)
    as (_ & _ & _ & _ & _ & _ & _ & _ & _ & _ & T11).
  destruct (pg_ok_inv _ _ Hpg) as [_ Hkids]. pose proof (Hkids k Hkin) as Hpgk.
  destruct (pst_merge_tx _ _ _ T11 (conj H1 H2)) as [Q1 Q2].
  split; [eapply try_merge_pg_ok; eauto|]. split; [exact Q1|]. split; [exact Q2|]. split; [exact T11|].
  destruct (try_merge_step_x h d s lo hi p np og sq es ks k l par' s' HP Hkin Hv Hnp Hsq H) as [L | R]; [now left | right].
  split; [exact R|]. intros x Hx. destruct (merge_tx_freed _ _ _ _ T11 Hx) as [G | G]; [now left | right].
  now apply pg_old_run.
Qed.
Print Assumptions try_merge_own.
